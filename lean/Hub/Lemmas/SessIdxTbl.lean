import Hub.Lemmas.Tbl
import Mathlib.Data.List.Nodup
/-
Helper lemmas about tables used as index sets (`Tbl κ Unit`, but stated for any value type):
membership after `set`/`erase`, keys versus `has`, and the "listing" of a two- or three-component
index under a fixed prefix (the shape of every `Iterate…For…` of the keepers).
-/
namespace Hub.Model.Tbl
variable {κ α : Type} [DecidableEq κ]

theorem has_set (t : Tbl κ α) (k k' : κ) (v : α) :
    has (set t k v) k' = true ↔ k = k' ∨ has t k' = true := by
  unfold has; rw [get_set]; by_cases h : k = k' <;> simp [h]

theorem has_erase (t : Tbl κ α) (k k' : κ) :
    has (erase t k) k' = true ↔ k ≠ k' ∧ has t k' = true := by
  unfold has; rw [get_erase]; by_cases h : k = k' <;> simp [h]

@[simp] theorem has_nil (k : κ) : has ([] : Tbl κ α) k = false := rfl

theorem mem_keys_iff_has (t : Tbl κ α) (k : κ) : k ∈ t.keys ↔ has t k = true := by
  rw [has_iff]
  exact ⟨fun h => get_of_mem_keys h, fun ⟨_, h⟩ => mem_keys_of_get h⟩

omit [DecidableEq κ] in
theorem nodup_keys {t : Tbl κ α} (h : Nodup t) : t.keys.Nodup := h

/-- Updating the record under `k` by one that agrees on `P` does not change which keys carry a
record with `P`. -/
theorem exists_get_set_iff (t : Tbl κ α) (k : κ) (x x' : α) (hx : get t k = some x) (P : α → Prop)
    (hP : P x' ↔ P x) (i : κ) :
    (∃ y, get (set t k x') i = some y ∧ P y) ↔ (∃ y, get t i = some y ∧ P y) := by
  rw [get_set]
  by_cases h : k = i
  · subst h
    simp only [if_true, hx, Option.some.injEq, exists_eq_left', hP]
  · simp only [h, if_false]

/-- Listing a pair index under a fixed first component: no duplicates, and exactly the `has` set. -/
theorem listing₂ {β γ : Type} [DecidableEq β] [DecidableEq γ] {t : Tbl (β × γ) α} (h : Nodup t) (a : β) :
    ((t.keys.filter (·.1 = a)).map (·.2)).Nodup ∧
    ∀ i, i ∈ (t.keys.filter (·.1 = a)).map (·.2) ↔ has t (a, i) = true := by
  refine ⟨?_, ?_⟩
  · refine List.Nodup.map_on ?_ ((nodup_keys h).filter _)
    intro x hx y hy hxy
    simp only [List.mem_filter, decide_eq_true_eq] at hx hy
    exact Prod.ext (hx.2.trans hy.2.symm) hxy
  · intro i
    rw [← mem_keys_iff_has]
    simp only [List.mem_map, List.mem_filter, decide_eq_true_eq]
    constructor
    · rintro ⟨⟨b, j⟩, ⟨hm, hb⟩, hj⟩
      simp only at hb hj; subst hb; subst hj; exact hm
    · intro hm; exact ⟨(a, i), ⟨hm, rfl⟩, rfl⟩

/-- Listing a triple index under fixed first two components. -/
theorem listing₃ {β γ δ : Type} [DecidableEq β] [DecidableEq γ] [DecidableEq δ] {t : Tbl (β × γ × δ) α}
    (h : Nodup t) (u : β) (a : γ) :
    ((t.keys.filter (fun k => k.1 = u ∧ k.2.1 = a)).map (·.2.2)).Nodup ∧
    ∀ i, i ∈ (t.keys.filter (fun k => k.1 = u ∧ k.2.1 = a)).map (·.2.2) ↔ has t (u, a, i) = true := by
  refine ⟨?_, ?_⟩
  · refine List.Nodup.map_on ?_ ((nodup_keys h).filter _)
    intro x hx y hy hxy
    simp only [List.mem_filter, decide_eq_true_eq] at hx hy
    exact Prod.ext (hx.2.1.trans hy.2.1.symm) (Prod.ext (hx.2.2.trans hy.2.2.symm) hxy)
  · intro i
    rw [← mem_keys_iff_has]
    simp only [List.mem_map, List.mem_filter, decide_eq_true_eq]
    constructor
    · rintro ⟨⟨b, c, j⟩, ⟨hm, hb, hc⟩, hj⟩
      simp only at hb hc hj; subst hb; subst hc; subst hj; exact hm
    · intro hm; exact ⟨(u, a, i), ⟨hm, rfl, rfl⟩, rfl⟩

end Hub.Model.Tbl
