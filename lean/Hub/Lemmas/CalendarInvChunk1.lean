import Hub.Lemmas.CalendarInvDefs
/- Quarter 1 of the second day-of-era table: entries [4 * 9131, 8 * 9131), evaluated by the kernel. -/
namespace Hub.Lemmas.Calendar

theorem invChunk4 : allFrom invOK (4 * 9131) 9131 = true := by decide +kernel
theorem invChunk5 : allFrom invOK (5 * 9131) 9131 = true := by decide +kernel
theorem invChunk6 : allFrom invOK (6 * 9131) 9131 = true := by decide +kernel
theorem invChunk7 : allFrom invOK (7 * 9131) 9131 = true := by decide +kernel

end Hub.Lemmas.Calendar
