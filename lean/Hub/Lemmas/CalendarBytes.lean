import Hub.SDK.Time
/-
Byte-level lemmas for C17 (self-contained; named `blt_*` so they do not clash with `Hub.SDK.bytesLt_*`
of `Hub.Lemmas.Bytes`): the lexicographic order `bytesLt` on concatenations of equal-length
blocks, and the order/length of the fixed-width decimal rendering `padDigits`.
-/
namespace Hub.Lemmas.Calendar
open Hub.SDK

theorem blt_irrefl : ∀ a : Bytes, bytesLt a a = false
  | [] => rfl
  | x :: xs => by
    have h : ¬ x < x := by rw [UInt8.lt_iff_toNat_lt]; omega
    simp only [bytesLt, h, if_false]
    exact blt_irrefl xs

theorem blt_asymm : ∀ {a b : Bytes}, bytesLt a b = true → bytesLt b a = false
  | [], [], _ => rfl
  | [], _ :: _, _ => rfl
  | _ :: _, [], h => by simp [bytesLt] at h
  | x :: xs, y :: ys, h => by
    simp only [bytesLt] at h ⊢
    by_cases h1 : x < y
    · have h2 : ¬ y < x := by rw [UInt8.lt_iff_toNat_lt] at h1 ⊢; omega
      simp only [h1, h2, if_true, if_false]
    · by_cases h2 : y < x
      · simp [h1, h2] at h
      · simp only [h1, h2, if_false] at h ⊢
        exact blt_asymm h

theorem blt_cons_same (c : UInt8) (x y : Bytes) : bytesLt (c :: x) (c :: y) = bytesLt x y := by
  have h : ¬ c < c := by rw [UInt8.lt_iff_toNat_lt]; omega
  simp only [bytesLt, h, if_false]

theorem blt_append_left : ∀ (a x y : Bytes), bytesLt (a ++ x) (a ++ y) = bytesLt x y
  | [], _, _ => rfl
  | c :: a, x, y => by
    rw [List.cons_append, List.cons_append, blt_cons_same]
    exact blt_append_left a x y

/-- A strict difference inside equal-length heads decides the comparison. -/
theorem blt_append_of_lt : ∀ {a b : Bytes} (x y : Bytes), a.length = b.length →
    bytesLt a b = true → bytesLt (a ++ x) (b ++ y) = true
  | [], [], _, _, _, h => by simp [bytesLt] at h
  | [], _ :: _, _, _, hl, _ => by simp at hl
  | _ :: _, [], _, _, hl, _ => by simp at hl
  | c :: a, d :: b, x, y, hl, h => by
    simp only [List.cons_append, bytesLt] at h ⊢
    by_cases h1 : c < d
    · simp only [h1, if_true]
    · by_cases h2 : d < c
      · simp [h1, h2] at h
      · simp only [h1, h2, if_false] at h ⊢
        exact blt_append_of_lt x y (by simpa using hl) h

theorem padDigits_length : ∀ (w n : Nat), (padDigits w n).length = w
  | 0, _ => rfl
  | w + 1, n => by
    simp only [padDigits, List.length_append, List.length_cons, List.length_nil, padDigits_length w]

theorem digit_toNat (n : Nat) : (digit n).toNat = 48 + n % 10 := by
  unfold digit
  rw [UInt8.toNat_ofNat']
  omega

/-- Zero padding to a fixed width preserves order for numbers that fit the width. -/
theorem padDigits_lt : ∀ {w n m : Nat}, m < 10 ^ w → n < m →
    bytesLt (padDigits w n) (padDigits w m) = true
  | 0, n, m, hm, h => by simp at hm; omega
  | w + 1, n, m, hm, h => by
    simp only [padDigits]
    have hm' : m / 10 < 10 ^ w := by
      rw [Nat.pow_succ] at hm
      generalize 10 ^ w = p at hm ⊢
      omega
    by_cases hq : n / 10 < m / 10
    · exact blt_append_of_lt _ _ (by rw [padDigits_length, padDigits_length]) (padDigits_lt hm' hq)
    · have e : n / 10 = m / 10 := by omega
      rw [e, blt_append_left]
      have hd : digit n < digit m := by
        rw [UInt8.lt_iff_toNat_lt, digit_toNat, digit_toNat]; omega
      simp only [bytesLt, hd, if_true]

end Hub.Lemmas.Calendar
