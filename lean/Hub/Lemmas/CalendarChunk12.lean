import Hub.Lemmas.CalendarDefs
/- Chunk 12 of the complete day-of-era table: entries [12 * 9131, (12 + 1) * 9131), evaluated by the kernel. -/
namespace Hub.Lemmas.Calendar

theorem chunk12 : allFrom entryOK (12 * 9131) 9131 = true := by decide +kernel

end Hub.Lemmas.Calendar
