import Hub.Lemmas.NoHaltInv
/-
C03 (partial) — the combined invariant `Base`/`Good` of the hook loops and what it says about the
escrow: every live node subscription's unsettled part is covered by its owner's escrow record.
-/
set_option linter.unusedSimpArgs false
set_option linter.unusedVariables false
set_option linter.unnecessarySeqFocus false
set_option linter.unusedTactic false
set_option linter.unreachableTactic false

namespace Hub.Model.NoHalt
open Hub.SDK Hub.Model Hub.Model.Escrow
open Hub.Generated (Status AmountForBytes GetProportionOfCoin Gigabyte)

/-- Everything the hooks rely on except the lifecycle coupling. -/
structure Base (s : State) : Prop where
  struct : StructInv s
  escrow : EscrowSplit s
  money : MoneyInv s.supply s
  nh : NH s
  amounts : AmountsOK s

/-- The invariant of the whole development: `Base` and the lifecycle coupling around `M`. -/
structure Good (M : Dur) (s : State) : Prop where
  base : Base s
  life : LifeInv M s

theorem Base.mg {s : State} (h : Base s) : MG s := ⟨h.money, h.nh.bank, h.nh.depUniq, h.amounts.supply⟩

/-- The unsettled part of a live subscription is covered by its owner's escrow record. -/
theorem escrow_covers {s : State} (hs : StructInv s) (hi : EscrowSplit s) {i : Nat} {x : Sub}
    (hx : s.subs.get i = some x) (d : Denom) : rem s.allocs s.payouts i x d ≤ escrowOf s x.addr d := by
  rw [hi.split x.addr d]
  unfold owed
  have hnn : ∀ k v, s.subs.get k = some v → 0 ≤ (if v.addr = x.addr then rem s.allocs s.payouts k v d else 0) := by
    intro k v hg
    split
    · cases hk : v.kind with
      | plan pid dn => rw [rem_plan hk]
      | node n gb hr dep =>
        obtain ⟨h1, _, h3⟩ := Hub.Props.C02.unsettled_within_deposit hs hi hg hk
        by_cases e : d = dep.denom
        · rw [e]; exact h1
        · rw [h3 d e]
    · exact le_refl _
  have := le_sumKV (fun k (v : Sub) => if v.addr = x.addr then rem s.allocs s.payouts k v d else 0) hs.subIdx.nodup.1 hnn hx
  simpa using this

/-- `x >>= f` returns when `x` returns `a` and `f a` returns. -/
theorem bind_total {α β : Type} {x : M α} {f : α → M β} {a : α} (hx : x = .ok a) (hf : ∃ b, f a = .ok b) :
    ∃ b, (x >>= f) = .ok b := by
  rw [hx, ok_bind]; exact hf

theorem panicIfErr_ok {α : Type} {r : M α} {a : α} (h : r = .ok a) : panicIfErr r = .ok a :=
  panicIfErr_eq_ok.mpr h

/-- A fold over a snapshot returns when every step returns on states satisfying the invariant `P rest`
(indexed by the part of the snapshot still to be processed) and re-establishes it. -/
theorem foldlM_total {α : Type} (P : List α → State → Prop) (f : State → α → M State)
    (hf : ∀ s a rest, P (a :: rest) s → ∃ s', f s a = .ok s' ∧ P rest s')
    (l : List α) (s : State) (hp : P l s) : ∃ s', l.foldlM f s = .ok s' ∧ P [] s' := by
  induction l generalizing s with
  | nil => exact ⟨s, rfl, hp⟩
  | cons a rest ih =>
    obtain ⟨s1, h1, p1⟩ := hf s a rest hp
    obtain ⟨s2, h2, p2⟩ := ih s1 p1
    refine ⟨s2, ?_, p2⟩
    simp only [List.foldlM]
    rw [h1, ok_bind]; exact h2

/-! ### the hourly payout -/

theorem payoutStep_total {s : State} {k : Time × Nat} (hb : Base s) (hq : s.payQ.has k = true) :
    ∃ s', payoutStep s k = .ok s' := by
  obtain ⟨p, x, hp, hn, hh, hx, hst⟩ := (hb.struct.subIdx.payQ k.1 k.2).mp hq
  obtain ⟨⟨gb, hr, dep, hk, hhr, haddr⟩, hh0⟩ := hb.struct.subIdx.payoutRec k.2 p x hp hx
  have hw := hb.escrow.wf k.2 x hx
  unfold SubWF at hw; rw [hk] at hw; simp only [] at hw
  obtain ⟨hdep, ⟨_, hz, _⟩ | ⟨hgb, hhr', p', hp', h3, h4, h5, h6, h7⟩⟩ := hw
  · exact absurd hz hhr
  rw [hp] at hp'; simp only [Option.some.injEq] at hp'; subst hp'
  subst hgb
  have hok := hb.nh.subs k.2 x hx
  unfold SubOK at hok; rw [hk] at hok
  obtain ⟨hba, hbn, hvd, hlt⟩ := hok
  have hprice : p.price.amount ≤ dep.amount := by
    rw [← h6]; nlinarith
  obtain ⟨reward, hrw, hrd, hr0, hr1⟩ := proportion_total (c := p.price) (sh := s.params.nodeShare) (by rw [h4]; exact hvd) h5
    (by omega) hb.nh.params.share0 hb.nh.params.share1
  have hcov := escrow_covers hb.struct hb.escrow hx p.price.denom
  rw [rem_hr hk hp, if_pos rfl, haddr] at hcov
  have hcov' : p.price.amount ≤ escrowOf s p.addr p.price.denom := by nlinarith
  have hm := hb.mg
  unfold payoutStep
  rw [hp]
  simp only [orPanic, pure_bind']
  rw [hrw, ok_bind]
  have hm1 : MG { s with payQ := s.payQ.erase (p.nextAt, p.id) } :=
    ⟨MoneyInv.of_view (s := s) rfl hm.money, hm.bank, hm.depUniq, hm.supply⟩
  obtain ⟨s2, h2⟩ := sendCoinFromDepositToModule_total hm1 p.addr feeCollectorAddr (c := reward) hr0
    (by rw [hrd]; exact le_trans hr1 hcov')
  rw [h2, ok_bind]
  rw [sub_total hr0 hr1 (by omega), ok_bind]
  have hrq : requireP (decide (0 ≤ p.price.amount - reward.amount)) "negative coin amount" = .ok () := by
    rw [requireP_eq_ok]; simp; omega
  rw [hrq, ok_bind]
  have hm2 := sendCoinFromDepositToModule_mg h2 hr0 (by decide) hm1
  have he2 := sendCoinFromDepositToModule_escrow h2 p.addr p.price.denom
  obtain ⟨s3, h3'⟩ := sendCoinFromDepositToAccount_total hm2 p.addr p.node
    (c := ⟨p.price.denom, p.price.amount - reward.amount⟩) (by show 0 ≤ p.price.amount - reward.amount; omega)
    (by
      show p.price.amount - reward.amount ≤ escrowOf s2 p.addr p.price.denom
      rw [he2]
      have : escrowOf { s with payQ := s.payQ.erase (p.nextAt, p.id) } p.addr p.price.denom = escrowOf s p.addr p.price.denom := rfl
      rw [this]
      split <;> omega)
    hbn
  rw [h3', ok_bind]
  exact ⟨_, rfl⟩


/-! ### `Base` through the BeginBlock prefix and one payout -/

/-- The state the payout loop starts from. -/
def pre (s : State) (t : Time) : State :=
  distrSweep (mintBeginBlock { s with time := t, height := s.height + 1, events := [] })

theorem pre_subView (s : State) (t : Time) : subView (pre s t) = subView s := by
  unfold pre; rw [subView_distrSweep]; unfold mintBeginBlock; rw [subView_mintBeginBlock_go]; rfl

theorem pre_psView (s : State) (t : Time) : psView (pre s t) = psView s := by
  unfold pre; rw [psView_distrSweep]; unfold mintBeginBlock; rw [psView_mintBeginBlock_go]; rfl

theorem pre_deposits (s : State) (t : Time) : (pre s t).deposits = s.deposits := by
  unfold pre; rw [deposits_distrSweep]; unfold mintBeginBlock; rw [deposits_mintBeginBlock_go]

theorem pre_lview (s : State) (t : Time) : lview (pre s t) = { lview s with time := t } := by
  unfold pre; rw [lview_distrSweep, lview_mintBeginBlock]; rfl

theorem pre_base {s : State} (hb : Base s) (t : Time) (hnh : NH (pre s t)) : Base (pre s t) := by
  have e0 := pre_subView s t
  have p0 := pre_psView s t
  have d0 := pre_deposits s t
  have hm : MoneyInv s.supply (pre s t) :=
    distrSweep_inv _ (mintBeginBlock_inv _ (MoneyInv.of_view (s := s) rfl hb.money))
  have es : (pre s t).supply = s.supply := hm.supplyEq
  refine ⟨⟨?_, ?_, ?_, ?_, ?_, ?_, ?_⟩, hb.escrow.of_views e0 d0, es ▸ hm, hnh, ⟨?_, ?_⟩⟩
  · exact distrSweep_count _ (mintBeginBlock_count _ (CountInv.of_view (s := s) rfl hb.struct.count))
  · exact distrSweep_rec _ (mintBeginBlock_rec _ (RecInv.of_nview (s := s) rfl hb.struct.recs))
  · exact distrSweep_idx _ (mintBeginBlock_idx _ (NodeIdx.of_nview (s := s) rfl hb.struct.nodeIdx))
  · refine SessIdx.of_view ?_ hb.struct.sessIdx
    unfold pre; rw [sview_distrSweep, sview_mintBeginBlock]; rfl
  · exact SubIdx.of_view e0 hb.struct.subIdx
  · exact AllocInv.of_views e0 p0 hb.struct.alloc
  · exact hb.struct.quota.of_views e0 p0
  · intro d; rw [supplyOf_frame es]; exact hb.amounts.supply d
  · intro k al hg
    have : (pre s t).allocs = s.allocs := congrArg SubView.allocs e0
    rw [this] at hg; exact hb.amounts.grants k al hg

theorem pre_life {M : Dur} {s : State} (hl : LifeInv M s) {t : Time} (ht : s.time ≤ t) : LifeInv M (pre s t) := by
  rw [lifeInv_iff] at hl ⊢
  rw [pre_lview]
  exact hl.time_mono ht

theorem payoutStep_base {s s' : State} {k : Time × Nat} (h : payoutStep s k = .ok s') (hq : s.payQ.has k = true)
    (hb : Base s) (hnh : NH s') : Base s' := by
  have hk := hb.struct.count.keyed
  have hm : MoneyInv s.supply s' := payoutStep_inv h hb.money
  have es : s'.supply = s.supply := hm.supplyEq
  refine ⟨⟨payoutStep_count h hb.struct.count, payoutStep_rec h hb.struct.recs, payoutStep_idx h hb.struct.nodeIdx,
    payoutStep_sessIdx h hb.struct.sessIdx, payoutStep_subIdx h hq hk hb.struct.subIdx,
    payoutStep_allocInv h hb.struct.alloc, payoutStep_quota h hb.struct.quota⟩,
    payoutStep_escrow h hk hb.struct.subIdx hb.escrow, es ▸ hm, hnh, ⟨?_, ?_⟩⟩
  · intro d; rw [supplyOf_frame es]; exact hb.amounts.supply d
  · intro k' al hg
    rw [payoutStep_allocs h] at hg; exact hb.amounts.grants k' al hg

/-- The payout loop over a snapshot of live due keys with pairwise different ids returns and keeps `Base`
(given that each step keeps `NH`). -/
theorem payoutFold_total (hnhStep : ∀ {s s' : State} {k : Time × Nat}, payoutStep s k = .ok s' → NH s → NH s')
    (l : List (Time × Nat)) (s : State) (hb : Base s) (hl : (l.map (·.2)).Nodup) (hlive : ∀ k ∈ l, s.payQ.has k = true) :
    ∃ s', l.foldlM (fun s k => panicIfErr (payoutStep s k)) s = .ok s' ∧ Base s' := by
  have := foldlM_total
    (fun rest s => Base s ∧ (rest.map (·.2)).Nodup ∧ ∀ k ∈ rest, s.payQ.has k = true)
    (fun s k => panicIfErr (payoutStep s k)) ?_ l s ⟨hb, hl, hlive⟩
  · obtain ⟨s', h, hb', _⟩ := this; exact ⟨s', h, hb'⟩
  · intro s k rest ⟨hb, hl, hlive⟩
    have hq := hlive k (by simp)
    obtain ⟨s1, h1⟩ := payoutStep_total hb hq
    have hb1 := payoutStep_base h1 hq hb (hnhStep h1 hb.nh)
    simp only [List.map_cons, List.nodup_cons] at hl
    refine ⟨s1, panicIfErr_ok h1, hb1, hl.2, ?_⟩
    intro k' hk'
    have hne : k'.2 ≠ k.2 := by
      intro e; exact hl.1 (e ▸ List.mem_map.mpr ⟨k', hk', rfl⟩)
    obtain ⟨item, hitem, hv⟩ := payoutStep_view h1
    have hid : item.id = k.2 := hb.struct.count.keyed.payouts _ _ hitem
    have e : s1.payQ = (subView s1).payQ := rfl
    rw [e, hv]
    simp only []
    have hold := hlive k' (by simp [hk'])
    obtain ⟨t', i'⟩ := k'
    simp only at hne
    split <;> simp [Tbl.has_set_B, Tbl.has_erase_B, hid, Ne.symm hne, hold]

/-- **BeginBlock never halts** on a `Base` state (given the `NH` step lemmas). -/
theorem beginBlock_total_of (hnhPre : ∀ (s : State) (t : Time), NH s → NH (pre s t))
    (hnhStep : ∀ {s s' : State} {k : Time × Nat}, payoutStep s k = .ok s' → NH s → NH s')
    {s : State} (hb : Base s) (t : Time) : ∃ s', beginBlock s t = .ok s' ∧ Base s' := by
  have hb0 := pre_base hb t (hnhPre s t hb.nh)
  have hx0 := hb0.struct.subIdx
  obtain ⟨s', h, hb'⟩ := payoutFold_total hnhStep
    (dueIds Hub.Generated.Keys.subscription.PayoutForNextAtKey (pre s t).payQ (pre s t).time) (pre s t) hb0
    (by
      refine List.Nodup.map_on ?_ (nodup_dueIds _ _ hx0.nodup.2.2.2.2.2.2.2.1)
      intro x hx' y hy exy
      obtain ⟨p, _, hp, hn, _⟩ := (hx0.payQ x.1 x.2).mp (mem_dueIds hx')
      obtain ⟨p', _, hp', hn', _⟩ := (hx0.payQ y.1 y.2).mp (mem_dueIds hy)
      rw [exy, hp'] at hp
      simp only [Option.some.injEq] at hp; subst hp
      exact Prod.ext (hn.symm.trans hn') exy)
    (fun k hk' => mem_dueIds hk')
  refine ⟨s', ?_, hb'⟩
  unfold beginBlock subscriptionBeginBlock
  have : (distrSweep (mintBeginBlock { s with time := t, height := s.height + 1, events := [] })) = pre s t := rfl
  rw [this, h]
  rfl

end Hub.Model.NoHalt
