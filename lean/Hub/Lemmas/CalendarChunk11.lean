import Hub.Lemmas.CalendarDefs
/- Chunk 11 of the complete day-of-era table: entries [11 * 9131, (11 + 1) * 9131), evaluated by the kernel. -/
namespace Hub.Lemmas.Calendar

theorem chunk11 : allFrom entryOK (11 * 9131) 9131 = true := by decide +kernel

end Hub.Lemmas.Calendar
