import Hub.Lemmas.LifeTbl
/-
C04/C03 (lifecycle coupling): `LifeInv M` is preserved by every handler, every hook piece and every
operation of a history.

Method: every step is described by what it does to the *view* `lview s` (sessions, subscriptions,
the subscription deadline queue, parameters, block time) in terms of the pure operations of
`LifeTbl.lean`; the invariants are predicates on views and are proved there.

Side facts used: `CountInv s` (stored ids are keys; a session's subscription id has been issued),
`SessIdx s` (the hooks visit every session) and `SubQOK s` — the subscription deadline queue holds
exactly one entry per subscription, at its deadline (`SubIdx.q` + `Nodup subQ`); without it a stale
queue entry makes `EndBlock` remove a subscription that still has sessions.  `SubQOK` is preserved
by every operation (`step_subQOK`), so it is needed for the first state only.
-/
namespace Hub.Model
open Hub.SDK
open Hub.Generated (Status AmountForBytes GetProportionOfCoin Gigabyte)

/-! ### frames: `lview` is unchanged by everything that is not about sessions or subscriptions -/

@[simp] theorem lview_emit (s : State) (e : Event) : lview (emit s e) = lview s := rfl
@[simp] theorem lview_setAllocation (s : State) (a : Alloc) : lview (setAllocation s a) = lview s := rfl
@[simp] theorem lview_insertPayout (s : State) (p : Payout) : lview (insertPayout s p) = lview s := rfl
@[simp] theorem lview_setBalance (s : State) (a : Addr) (d : Denom) (v : Int) : lview (setBalance s a d v) = lview s := rfl
@[simp] theorem lview_setSupply (s : State) (d : Denom) (v : Int) : lview (setSupply s d v) = lview s := rfl
@[simp] theorem lview_setDeposit (s : State) (a : Addr) (c : Coins) : lview (setDeposit s a c) = lview s := rfl
@[simp] theorem lview_putDeposit (s : State) (a : Addr) (c : Coins) : lview (putDeposit s a c) = lview s := by
  unfold putDeposit; split <;> rfl
@[simp] theorem lview_detachPayoutRec (s : State) (p : Payout) : lview (detachPayoutRec s p) = lview s := rfl
theorem foldlM_lview {α : Type} (f : State → α → M State) (hf : ∀ s a s', f s a = .ok s' → lview s' = lview s)
    (l : List α) (s s' : State) (h : l.foldlM f s = .ok s') : lview s' = lview s :=
  foldlM_inv (fun t => lview t = lview s) f (fun a b c h1 hp => (hf a b c h1).trans hp) l s s' h rfl

theorem setProvider_lview {s s' : State} {p : Provider} (h : setProvider s p = .ok s') : lview s' = lview s := by
  unfold setProvider at h
  split at h <;> simp only [pure_eq_ok, gopanic_ne_ok] at h <;> (try subst h) <;> rfl

theorem setNode_lview {s s' : State} {n : Node} (h : setNode s n = .ok s') : lview s' = lview s := by
  unfold setNode at h
  split at h <;> simp only [pure_eq_ok, gopanic_ne_ok] at h <;> (try subst h) <;> rfl

theorem setPlan_lview {s s' : State} {p : Plan} (h : setPlan s p = .ok s') : lview s' = lview s := by
  unfold setPlan at h
  split at h <;> simp only [pure_eq_ok, gopanic_ne_ok] at h <;> (try subst h) <;> rfl

theorem sendCoins_lview {s s' : State} {f t : Addr} {c : Coin} (h : sendCoins s f t c = .ok s') : lview s' = lview s := by
  have := (sendCoins_ok h).2.1
  rw [this]; rfl

theorem sendModuleToAccount_lview {s s' : State} {f t : Addr} {c : Coin} (h : sendModuleToAccount s f t c = .ok s') :
    lview s' = lview s := by
  unfold sendModuleToAccount at h
  split at h
  · simp only [reject_ne_ok] at h
  · exact sendCoins_lview h

theorem mintCoins_lview {s s' : State} {m : Addr} {c : Coin} (h : mintCoins s m c = .ok s') : lview s' = lview s := by
  unfold mintCoins at h
  simp only [bind_eq_ok, pure_eq_ok] at h
  obtain ⟨nb, _, ns, _, rfl⟩ := h
  rfl

theorem fundCommunityPool_lview {s s' : State} {f : Addr} {c : Coin} (h : fundCommunityPool s f c = .ok s') :
    lview s' = lview s := by
  unfold fundCommunityPool at h
  split at h
  · rw [pure_eq_ok] at h; rw [h]
  · exact sendCoins_lview h

theorem depositAdd_lview {s s' : State} {f t : Addr} {c : Coin} (h : depositAdd s f t c = .ok s') : lview s' = lview s := by
  unfold depositAdd at h
  simp only [bind_eq_ok, pure_eq_ok, require_eq_ok] at h
  obtain ⟨s1, hs1, _, _, rfl⟩ := h
  rw [lview_emit, lview_setDeposit, sendCoins_lview hs1]

theorem depositToAccount_lview {s s' : State} {f t : Addr} {c : Coin} (h : depositToAccount s f t c = .ok s') :
    lview s' = lview s := by
  unfold depositToAccount at h
  simp only [bind_eq_ok, pure_eq_ok, require_eq_ok, orReject_eq_ok] at h
  obtain ⟨cur, _, _, _, s1, hs1, rfl⟩ := h
  rw [lview_emit, lview_putDeposit, sendModuleToAccount_lview hs1]

theorem depositToModule_lview {s s' : State} {f m : Addr} {c : Coin} (h : depositToModule s f m c = .ok s') :
    lview s' = lview s := by
  unfold depositToModule at h
  simp only [bind_eq_ok, pure_eq_ok, require_eq_ok, orReject_eq_ok] at h
  obtain ⟨cur, _, _, _, s1, hs1, rfl⟩ := h
  rw [lview_emit, lview_putDeposit, sendCoins_lview hs1]

theorem sendCoin_lview {s s' : State} {f t : Addr} {c : Coin} (h : sendCoin s f t c = .ok s') : lview s' = lview s := by
  unfold sendCoin at h
  split at h
  · rw [pure_eq_ok] at h; rw [h]
  · exact sendCoins_lview h

theorem sendCoinFromAccountToModule_lview {s s' : State} {f m : Addr} {c : Coin}
    (h : sendCoinFromAccountToModule s f m c = .ok s') : lview s' = lview s := by
  unfold sendCoinFromAccountToModule at h
  split at h
  · rw [pure_eq_ok] at h; rw [h]
  · exact sendCoins_lview h

theorem addDeposit_lview {s s' : State} {a : Addr} {c : Coin} (h : addDeposit s a c = .ok s') : lview s' = lview s := by
  unfold addDeposit at h
  split at h
  · rw [pure_eq_ok] at h; rw [h]
  · exact depositAdd_lview h

theorem subtractDeposit_lview {s s' : State} {a : Addr} {c : Coin} (h : subtractDeposit s a c = .ok s') :
    lview s' = lview s := by
  unfold subtractDeposit at h
  split at h
  · rw [pure_eq_ok] at h; rw [h]
  · exact depositToAccount_lview h

theorem sendCoinFromDepositToAccount_lview {s s' : State} {f t : Addr} {c : Coin}
    (h : sendCoinFromDepositToAccount s f t c = .ok s') : lview s' = lview s := by
  unfold sendCoinFromDepositToAccount at h
  split at h
  · rw [pure_eq_ok] at h; rw [h]
  · exact depositToAccount_lview h

theorem sendCoinFromDepositToModule_lview {s s' : State} {f m : Addr} {c : Coin}
    (h : sendCoinFromDepositToModule s f m c = .ok s') : lview s' = lview s := by
  unfold sendCoinFromDepositToModule at h
  split at h
  · rw [pure_eq_ok] at h; rw [h]
  · exact depositToModule_lview h

/-- A state-to-state step that only touches money tables (`MoneyFrame`) leaves the session tables alone. -/
theorem MoneyFrame.lview {s s' : State} (h : MoneyFrame s s') : lview s' = lview s := by
  unfold MoneyFrame at h; rw [h]; rfl

/-! #### provider, node, plan, subscription, swap messages -/

theorem provRegister_lview {s s' : State} {frm : Addr} {n i w d : Bytes} (h : provRegister s frm n i w d = .ok s') :
    lview s' = lview s := by
  unfold provRegister at h
  simp only [bind_eq_ok, pure_eq_ok, require_eq_ok] at h
  obtain ⟨_, _, s1, h1, s2, h2, rfl⟩ := h
  rw [lview_emit, setProvider_lview h2, fundCommunityPool_lview h1]

theorem provUpdate_lview {s s' : State} {frm : Addr} {n i w d : Bytes} {st : Status} (h : provUpdate s frm n i w d st = .ok s') :
    lview s' = lview s := by
  unfold provUpdate at h
  simp only [bind_eq_ok, pure_eq_ok, orReject_eq_ok] at h
  obtain ⟨p, _, s3, h3, rfl⟩ := h
  rw [lview_emit, setProvider_lview h3]
  split <;> split <;> rfl

theorem nodeRegister_lview {s s' : State} {frm : Addr} {gb hr : Coins} {url : Bytes} (h : nodeRegister s frm gb hr url = .ok s') :
    lview s' = lview s := by
  unfold nodeRegister at h
  simp only [bind_eq_ok, pure_eq_ok, require_eq_ok] at h
  obtain ⟨_, _, _, _, _, _, s1, h1, s2, h2, rfl⟩ := h
  rw [lview_emit, setNode_lview h2, fundCommunityPool_lview h1]

theorem nodeUpdate_lview {s s' : State} {frm : Addr} {gb hr : Option Coins} {url : Bytes} (h : nodeUpdate s frm gb hr url = .ok s') :
    lview s' = lview s := by
  unfold nodeUpdate at h
  simp only [bind_eq_ok, pure_eq_ok, require_eq_ok, orReject_eq_ok] at h
  obtain ⟨_, _, _, _, n, _, s1, h1, rfl⟩ := h
  rw [lview_emit, setNode_lview h1]

theorem nodeStatus_lview {s s' : State} {frm : Addr} {st : Status} (h : nodeStatus s frm st = .ok s') : lview s' = lview s := by
  unfold nodeStatus at h
  simp only [bind_eq_ok, pure_eq_ok, orReject_eq_ok] at h
  obtain ⟨n, _, s5, h5, rfl⟩ := h
  rw [lview_emit, setNode_lview h5]
  split <;> split <;> split <;> split <;> rfl

theorem lview_insertSub (s : State) (sub : Sub) : lview (insertSub s sub) = (lview s).addSub sub := by
  unfold insertSub; cases sub.kind <;> rfl

/-- What creating a subscription does to the view: a new active record with the next id. -/
def NewSub (s : State) (v' : LView) : Prop :=
  ∃ y : Sub, y.id = s.subCount.getD 0 + 1 ∧ y.status = .StatusActive ∧ y.statusAt = s.time ∧ v' = (lview s).addSub y

theorem createNodeSubGB_lview {s : State} {acc node : Addr} {n : Node} {gb : Int} {denom : Denom} {r : State × Sub}
    (h : createNodeSubGB s acc node n gb denom = .ok r) : NewSub s (lview r.1) := by
  unfold createNodeSubGB at h
  simp only [bind_eq_ok, pure_eq_ok, orReject_eq_ok] at h
  obtain ⟨price, _, bytes, _, amt, _, dep, _, s1, h1, granted, _, rfl⟩ := h
  refine ⟨{ id := s.subCount.getD 0 + 1, addr := acc, inactiveAt := s.time + 90 * day, status := .StatusActive,
            statusAt := s.time, kind := .node node gb 0 dep }, rfl, rfl, rfl, ?_⟩
  simp only [lview_emit, lview_setAllocation, lview_insertSub, addDeposit_lview h1]

theorem createNodeSubHr_lview {s : State} {acc node : Addr} {n : Node} {hr : Int} {denom : Denom} {r : State × Sub}
    (h : createNodeSubHr s acc node n hr denom = .ok r) : NewSub s (lview r.1) := by
  unfold createNodeSubHr at h
  simp only [bind_eq_ok, pure_eq_ok, orReject_eq_ok] at h
  obtain ⟨price, _, amt, _, dep, _, s1, h1, pa, _, hourly, _, rfl⟩ := h
  refine ⟨{ id := s.subCount.getD 0 + 1, addr := acc, inactiveAt := s.time + hr * hour, status := .StatusActive,
            statusAt := s.time, kind := .node node 0 hr dep }, rfl, rfl, rfl, ?_⟩
  simp only [lview_insertPayout, lview_insertSub, addDeposit_lview h1]

theorem nodeSubscribe_lview {s s' : State} {frm node : Addr} {gb hr : Int} {denom : Denom}
    (h : nodeSubscribe s frm node gb hr denom = .ok s') : NewSub s (lview s') := by
  unfold nodeSubscribe createSubscriptionForNode at h
  simp only [bind_eq_ok, pure_eq_ok, require_eq_ok, orReject_eq_ok] at h
  obtain ⟨_, _, _, _, r, ⟨n, _, _, _, hr'⟩, rfl⟩ := h
  rw [lview_emit]
  split at hr'
  · exact createNodeSubGB_lview hr'
  · exact createNodeSubHr_lview hr'

theorem planCreate_lview {s s' : State} {frm : Addr} {dur : Dur} {gb : Int} {prices : Coins}
    (h : planCreate s frm dur gb prices = .ok s') : lview s' = lview s := by
  unfold planCreate at h
  simp only [bind_eq_ok, pure_eq_ok, require_eq_ok] at h
  obtain ⟨_, _, s1, h1, rfl⟩ := h
  rw [lview_emit]
  exact (rfl : lview { s1 with planForProv := _ } = lview s1).trans ((setPlan_lview h1).trans rfl)

theorem planStatus_lview {s s' : State} {frm : Addr} {id : Nat} {st : Status}
    (h : planStatus s frm id st = .ok s') : lview s' = lview s := by
  unfold planStatus at h
  simp only [bind_eq_ok, pure_eq_ok, require_eq_ok, orReject_eq_ok] at h
  obtain ⟨p, hp, _, _, s3, h3, rfl⟩ := h
  rw [lview_emit, setPlan_lview h3]
  split <;> split <;> rfl

theorem planLink_lview {s s' : State} {frm : Addr} {id : Nat} {node : Addr}
    (h : planLink s frm id node = .ok s') : lview s' = lview s := by
  unfold planLink at h
  simp only [bind_eq_ok, pure_eq_ok, require_eq_ok, orReject_eq_ok] at h
  obtain ⟨p, _, _, _, _, _, rfl⟩ := h
  rfl

theorem planUnlink_lview {s s' : State} {frm : Addr} {id : Nat} {node : Addr}
    (h : planUnlink s frm id node = .ok s') : lview s' = lview s := by
  unfold planUnlink at h
  simp only [bind_eq_ok, pure_eq_ok, require_eq_ok, orReject_eq_ok] at h
  obtain ⟨p, _, _, _, rfl⟩ := h
  rfl

theorem planSubscribe_lview {s s' : State} {frm : Addr} {id : Nat} {denom : Denom}
    (h : planSubscribe s frm id denom = .ok s') : NewSub s (lview s') := by
  unfold planSubscribe createSubscriptionForPlan at h
  simp only [bind_eq_ok, pure_eq_ok, require_eq_ok, requireP_eq_ok, orReject_eq_ok] at h
  obtain ⟨r, ⟨plan, hplan, _, _, price, _, reward, _, s1, h1, payAmt, _, _, _, s2, h2, granted, _, rfl⟩, rfl⟩ := h
  refine ⟨{ id := s.subCount.getD 0 + 1, addr := frm, inactiveAt := s.time + plan.dur, status := .StatusActive,
            statusAt := s.time, kind := .plan plan.id price.denom }, rfl, rfl, rfl, ?_⟩
  simp only [lview_emit, lview_setAllocation, lview_insertSub, sendCoin_lview h2, sendCoinFromAccountToModule_lview h1]

theorem subAllocate_lview {s s' : State} {frm toA : Addr} {id : Nat} {bytes : Int}
    (h : subAllocate s frm id toA bytes = .ok s') : lview s' = lview s := by
  unfold subAllocate at h
  simp only [bind_eq_ok, pure_eq_ok, require_eq_ok, orReject_eq_ok] at h
  obtain ⟨sub, _, _, _, _, _, fa, _, _, _, g, _, u, _, av, _, _, _, fg, _, _, _, _, _, rfl⟩ := h
  simp only [lview_emit, lview_setAllocation]
  split <;> rfl

theorem swap_lview {s s' : State} {frm recv : Addr} {hash : Bytes} {amt : Int}
    (h : swap s frm hash recv amt = .ok s') : lview s' = lview s := by
  unfold swap at h
  simp only [bind_eq_ok, pure_eq_ok, require_eq_ok] at h
  obtain ⟨_, _, _, _, _, _, q, _, coin, _, s1, h1, s2, h2, rfl⟩ := h
  rw [lview_emit]
  exact (rfl : lview { s2 with swaps := _ } = lview s2).trans ((sendModuleToAccount_lview h2).trans (mintCoins_lview h1))

theorem detachPayout_lview {s s' : State} {sub : Sub} {b : Bool} (h : detachPayout s sub b = .ok s') : lview s' = lview s := by
  unfold detachPayout at h
  split at h
  · simp only [bind_eq_ok, pure_eq_ok] at h
    obtain ⟨p, _, rfl⟩ := h
    rfl
  · rw [pure_eq_ok] at h; rw [h]
theorem lview_mintBeginBlock_go (l : List Inflation) (s : State) : lview (mintBeginBlock.go s l) = lview s := by
  induction l generalizing s with
  | nil => rfl
  | cons item rest ih =>
    unfold mintBeginBlock.go
    split
    · rfl
    · rw [ih]; rfl

theorem lview_mintBeginBlock (s : State) : lview (mintBeginBlock s) = lview s := lview_mintBeginBlock_go _ s

theorem lview_distrSweep (s : State) : lview (distrSweep s) = lview s := by
  unfold distrSweep
  exact foldl_inv (fun t => lview t = lview s) sweepDenom (fun t d h => (rfl : lview (sweepDenom t d) = lview t).trans h) _ s rfl

theorem payoutStep_lview {s s' : State} {k : Time × Nat} (h : payoutStep s k = .ok s') : lview s' = lview s := by
  unfold payoutStep at h
  simp only [bind_eq_ok, pure_eq_ok, requireP_eq_ok, orPanic_eq_ok] at h
  obtain ⟨item, _, reward, _, s2, h2, payAmt, _, _, _, s3, h3, rfl⟩ := h
  have e : lview s3 = lview s :=
    (sendCoinFromDepositToAccount_lview h3).trans ((sendCoinFromDepositToModule_lview h2).trans rfl)
  rw [← e]
  split <;> rfl

theorem beginBlock_lview {s s' : State} {t : Time} (h : beginBlock s t = .ok s') : lview s' = { lview s with time := t } := by
  unfold beginBlock haltOf at h
  split at h <;> try contradiction
  rename_i s'' hs
  simp only [Except.ok.injEq] at h
  subst h
  unfold subscriptionBeginBlock at hs
  rw [foldlM_lview _ (fun a k b h1 => payoutStep_lview (panicIfErr_eq_ok.mp h1)) _ _ _ hs, lview_distrSweep,
    lview_mintBeginBlock]
  rfl
theorem nodeSweep_lview {s s' : State} (h : nodeSweep s = .ok s') : lview s' = lview s := by
  unfold nodeSweep at h
  split at h
  · rw [pure_eq_ok] at h; rw [h]
  · refine foldlM_lview _ ?_ _ s s' h
    intro s0 a s1 h1
    simp only [bind_eq_ok, pure_eq_ok, orPanic_eq_ok] at h1
    obtain ⟨item, _, s2, h2, rfl⟩ := h1
    rw [lview_emit, setNode_lview h2]

theorem nodeExpireStep_lview {s s' : State} {k : Time × Addr} (h : nodeExpireStep s k = .ok s') : lview s' = lview s := by
  unfold nodeExpireStep at h
  simp only [bind_eq_ok, pure_eq_ok, orPanic_eq_ok] at h
  obtain ⟨item, _, s3, h3, rfl⟩ := h
  rw [lview_emit, setNode_lview h3]; rfl

theorem nodeExpire_lview {s s' : State} (h : nodeExpire s = .ok s') : lview s' = lview s := by
  unfold nodeExpire at h
  exact foldlM_lview _ (fun a k b h1 => nodeExpireStep_lview h1) _ s s' h

theorem nodeEndBlock_lview {s s' : State} (h : nodeEndBlock s = .ok s') : lview s' = lview s := by
  unfold nodeEndBlock at h
  simp only [bind_eq_ok] at h
  obtain ⟨s1, h1, h2⟩ := h
  rw [nodeExpire_lview h2, nodeSweep_lview h1]

theorem settleSession_lview {s s' : State} {x : Session} {acc node : Addr} {dep : Coin} {gb b a : Int}
    (h : settleSession s x acc node dep gb b a = .ok s') : lview s' = lview s := by
  unfold settleSession at h
  simp only [bind_eq_ok, pure_eq_ok, requireP_eq_ok] at h
  obtain ⟨price, _, prev, _, cur, _, payAmt, _, payment, _, reward, _, s1, h1, netAmt, _, _, _, s2, h2, rfl⟩ := h
  rw [lview_emit, sendCoinFromDepositToAccount_lview h2, sendCoinFromDepositToModule_lview h1]

theorem sessionInactiveHook_lview {s s' : State} {id : Nat} {acc node : Addr} {bytes : Int}
    (h : sessionInactiveHook s id acc node bytes = .ok s') : lview s' = lview s := by
  unfold sessionInactiveHook at h
  simp only [bind_eq_ok, require_eq_ok, orReject_eq_ok] at h
  obtain ⟨x, _, _, _, sub, _, h⟩ := h
  split at h
  · rw [pure_eq_ok] at h; rw [h]
  · simp only [bind_eq_ok, orReject_eq_ok] at h
    obtain ⟨a, _, used, _, h⟩ := h
    split at h
    · rw [settleSession_lview h]; rfl
    · rw [pure_eq_ok] at h; rw [← h]; rfl
theorem refundSub_lview {s s' : State} {item : Sub} (h : refundSub s item = .ok s') : lview s' = lview s := by
  unfold refundSub at h
  split at h
  · simp only [bind_eq_ok] at h
    obtain ⟨s1, h1, h2⟩ := h
    have i1 : lview s1 = lview s := by
      split at h1
      · unfold refundGB at h1
        simp only [bind_eq_ok, pure_eq_ok, orPanic_eq_ok, panicIfErr_eq_ok] at h1
        obtain ⟨price, _, a, _, paid, _, ra, _, refund, _, s2, h2', rfl⟩ := h1
        rw [lview_emit, subtractDeposit_lview h2']
      · rw [pure_eq_ok] at h1; rw [← h1]
    split at h2
    · unfold refundHr at h2
      simp only [bind_eq_ok, pure_eq_ok, orPanic_eq_ok, panicIfErr_eq_ok] at h2
      obtain ⟨p, _, ra, _, refund, _, s2, h2', rfl⟩ := h2
      rw [lview_emit, subtractDeposit_lview h2', i1]
    · rw [pure_eq_ok] at h2; rw [← h2]; exact i1
  · rw [pure_eq_ok] at h; rw [h]

theorem lview_removeAllocs (l : List Addr) (s : State) (id : Nat) : lview (removeAllocs s id l) = lview s := by
  unfold removeAllocs
  induction l generalizing s with
  | nil => rfl
  | cons a rest ih => rw [List.foldl_cons, ih]; rfl

theorem lview_removeSubRecords (s : State) (item : Sub) : lview (removeSubRecords s item) = (lview s).eraseSub item.id := by
  unfold removeSubRecords
  cases item.kind with
  | node n g h d => rfl
  | plan pid dn =>
    simp only [lview_emit]
    exact (rfl : lview { (removeAllocs _ _ _) with subs := _ } = (lview (removeAllocs _ _ _)).eraseSub item.id).trans
      (congrArg (fun v => LView.eraseSub v item.id) (lview_removeAllocs _ _ _))

theorem removePayout_lview {s s' : State} {item : Sub} (h : removePayout s item = .ok s') : lview s' = lview s := by
  unfold removePayout at h
  split at h
  · simp only [bind_eq_ok, pure_eq_ok, orPanic_eq_ok] at h
    obtain ⟨p, _, rfl⟩ := h
    rfl
  · rw [pure_eq_ok] at h; rw [h]

/-! ### the invariants on states -/

theorem lifeInv_iff {M : Dur} {s : State} : LifeInv M s ↔ LifeV M (lview s) :=
  ⟨fun h => ⟨h.delays, h.sessSub, h.sessStatus, h.subStatus, h.activeSess, h.pendingSess, h.sessBound⟩,
   fun h => ⟨h.delays, h.sessSub, h.sessStatus, h.subStatus, h.activeSess, h.pendingSess, h.sessBound⟩⟩

theorem LifeInv.of_lview {M : Dur} {s s' : State} (h : lview s' = lview s) (hi : LifeInv M s) : LifeInv M s' := by
  rw [lifeInv_iff] at hi ⊢; rw [h]; exact hi

/-- The subscription deadline queue holds exactly one entry per subscription, at its deadline
(`SubIdx.q` together with `Nodup subQ`). -/
def SubQOK (s : State) : Prop := SubQV (lview s)

theorem SubIdx.subQOK {s : State} (h : SubIdx s) : SubQOK s := ⟨h.nodup.2.1, h.q⟩

theorem SubQOK.of_lview {s s' : State} (h : lview s' = lview s) (hi : SubQOK s) : SubQOK s' := by
  unfold SubQOK at *; rw [h]; exact hi

/-- Every session ends strictly after the block time: the phase invariant between the session pass
and the end of the block. -/
def SessAfter (s : State) : Prop := SessAfterV (lview s)

/-- The condition on a governance change: afterwards the delays still lie around `M`. -/
def DelayOK (M : Dur) (s : State) : Prop := 0 < s.params.sessDelay ∧ s.params.sessDelay ≤ M ∧ M ≤ s.params.subDelay

/-- What is used of `CountInv`: stored records sit under their own id, a session's subscription id
has been issued, and no subscription has an id above the counter. -/
structure LifeSide (s : State) : Prop where
  sk : SessKeyedV (lview s)
  bk : SubKeyedV (lview s)
  sessSubLe : ∀ i x, s.sessions.get i = some x → x.sub ≤ s.subCount.getD 0
  subLe : ∀ i y, s.subs.get i = some y → i ≤ s.subCount.getD 0

theorem CountInv.lifeSide {s : State} (h : CountInv s) : LifeSide s :=
  ⟨fun i x hx => (h.sessions i x hx).1, fun i y hy => (h.subs i y hy).1, fun i x hx => (h.sessions i x hx).2.2.2.2,
    fun i y hy => (h.subs i y hy).2.2⟩

/-! ### effects on the view: sessions -/

theorem lview_sessionToPending (s : State) (x : Session) :
    lview (sessionToPending s x) = (lview s).setSess x.id (x.pend s.time s.params.sessDelay) := rfl

theorem lview_insertSession (s : State) (x : Session) : lview (insertSession s x) = (lview s).setSess x.id x := rfl

theorem lview_removeSession (s : State) (x : Session) : lview (removeSession s x) = (lview s).eraseSess x.id := rfl

theorem lview_subToPending (s : State) (sub : Sub) (d : Dur) :
    lview (subToPending s sub d).1 = (lview s).addSub (sub.pend s.time d) := rfl

/-- The session record `MsgStart` creates. -/
def newSession (s : State) (acc : Addr) (id : Nat) (node : Addr) : Session :=
  { id := s.sessCount.getD 0 + 1, sub := id, node, addr := acc, up := 0, down := 0, dur := 0,
    inactiveAt := s.time + s.params.sessDelay, status := .StatusActive, statusAt := s.time }

theorem sessStart_lview {s s' : State} {frm : TextAddr} {id : Nat} {node : Addr} (h : sessStart s frm id node = .ok s') :
    ∃ y : Sub, s.subs.get id = some y ∧ y.status = .StatusActive ∧
      lview s' = (lview s).setSess (s.sessCount.getD 0 + 1) (newSession s frm.bytes id node) := by
  unfold sessStart at h
  simp only [bind_eq_ok, pure_eq_ok, require_eq_ok, orReject_eq_ok] at h
  obtain ⟨sub, hsub, _, hst, n, _, _, _, _, _, _, _, latest, _, _, _, rfl⟩ := h
  exact ⟨sub, hsub, by simpa using hst, rfl⟩

/-- The record after `MsgUpdateDetails`. -/
def Session.updated (x : Session) (t : Time) (d : Dur) (up down dur : Int) : Session :=
  { x with inactiveAt := if x.status = .StatusActive then t + d else x.inactiveAt, up, down, dur }

theorem sessUpdate_lview {s s' : State} {frm : Addr} {id : Nat} {up down dur : Int} {sig : SigSpec}
    (h : sessUpdate s frm id up down dur sig = .ok s') :
    ∃ x, s.sessions.get id = some x ∧ frm = x.node ∧
      lview s' = (lview s).setSess x.id (x.updated s.time s.params.sessDelay up down dur) := by
  unfold sessUpdate at h
  simp only [bind_eq_ok, pure_eq_ok, require_eq_ok, orReject_eq_ok] at h
  obtain ⟨x, hx, _, _, _, hf, _, _, rfl⟩ := h
  refine ⟨x, hx, by simpa using hf, ?_⟩
  rw [lview_emit]
  by_cases hst : x.status = .StatusActive
  · simp only [hst, if_true, Session.updated]; rfl
  · simp only [hst, if_false, Session.updated]; rfl

theorem sessEnd_lview {s s' : State} {frm : Addr} {id : Nat} (h : sessEnd s frm id = .ok s') :
    ∃ x : Session, s.sessions.get id = some x ∧ x.status = .StatusActive ∧ frm = x.addr ∧
      lview s' = (lview s).setSess x.id (x.pend s.time s.params.sessDelay) := by
  unfold sessEnd at h
  simp only [bind_eq_ok, pure_eq_ok, require_eq_ok, orReject_eq_ok] at h
  obtain ⟨x, hx, _, hst, _, hf, rfl⟩ := h
  exact ⟨x, hx, by simpa using hst, by simpa using hf, rfl⟩

/-- The pending hook on the view. -/
theorem hookFold_lview (l : List Nat) (s s' : State)
    (h : l.foldlM (fun (s : State) (sid : Nat) => (do
      let x ← orPanic (s.sessions.get sid) "session for subscription key does not exist"
      pure (if x.status = Status.StatusActive then sessionToPending s x else s) : M State)) s = .ok s') :
    lview s' = (lview s).hook l := by
  induction l generalizing s with
  | nil => simp only [List.foldlM, pure_eq_ok] at h; rw [← h]; rfl
  | cons a rest ih =>
    simp only [List.foldlM, bind_eq_ok, pure_eq_ok, orPanic_eq_ok] at h
    obtain ⟨s1, ⟨x, hx, rfl⟩, h2⟩ := h
    rw [ih _ h2, LView.hook_cons]
    congr 1
    unfold LView.hookStep
    have hx' : (lview s).sessions.get a = some x := hx
    rw [hx']
    simp only []
    split <;> rfl

theorem subscriptionInactivePendingHook_lview {s s' : State} {id : Nat}
    (h : subscriptionInactivePendingHook s id = .ok s') : lview s' = (lview s).hook (sessionIdsForSub s id) :=
  hookFold_lview _ s s' h

/-! ### effects on the view: subscriptions -/

theorem subCancel_lview {s s' : State} {frm : Addr} {id : Nat} (h : subCancel s frm id = .ok s') :
    ∃ sub : Sub, s.subs.get id = some sub ∧ sub.status = .StatusActive ∧ frm = sub.addr ∧
      lview s' = (lview s).pendSub sub (sessionIdsForSub s sub.id) s.params.subDelay := by
  unfold subCancel at h
  simp only [bind_eq_ok, require_eq_ok, orReject_eq_ok] at h
  obtain ⟨sub, hsub, _, hst, _, hf, s1, h1, h2⟩ := h
  refine ⟨sub, hsub, by simpa using hst, by simpa using hf, ?_⟩
  have e1 := subscriptionInactivePendingHook_lview h1
  have et : s1.time = s.time := by
    have := congrArg LView.time e1
    rw [(LView.hook_frame _ _).2.2.2] at this
    exact this
  rw [detachPayout_lview h2, lview_subToPending, e1, et]
  rfl

/-- One step of the subscription pass on the view. -/
theorem subscriptionStep_lview {s s' : State} {d : Dur} {k : Time × Nat} (h : subscriptionStep d s k = .ok s')
    (hi : SessIdx s) : SubStepR d (lview s) k.2 (lview s') := by
  unfold subscriptionStep at h
  simp only [bind_eq_ok, orPanic_eq_ok] at h
  obtain ⟨item, hitem, h⟩ := h
  refine ⟨item, sessionIdsForSub s item.id, hitem, (sessionIdsForSub_spec hi item.id).2, ?_⟩
  split at h
  · rename_i hst
    left
    simp only [bind_eq_ok, panicIfErr_eq_ok] at h
    obtain ⟨s2, h2, h3⟩ := h
    refine ⟨hst, ?_⟩
    have e1 := subscriptionInactivePendingHook_lview h2
    have et : s2.time = s.time := by
      have := congrArg LView.time e1
      rw [(LView.hook_frame _ _).2.2.2] at this
      exact this
    rw [detachPayout_lview h3, lview_subToPending, e1, et]
    rfl
  · rename_i hst
    right
    simp only [bind_eq_ok] at h
    obtain ⟨s2, h2, h3⟩ := h
    refine ⟨hst, ?_⟩
    rw [removePayout_lview h3, lview_removeSubRecords, refundSub_lview h2]
    rfl

theorem subscriptionFold_lview (d : Dur) (l : List (Time × Nat)) (s s' : State)
    (h : l.foldlM (subscriptionStep d) s = .ok s') (hi : SessInv s) :
    SubPassR d (lview s) (l.map (·.2)) (lview s') := by
  induction l generalizing s with
  | nil => simp only [List.foldlM, pure_eq_ok] at h; rw [← h]; exact SubPassR.nil _
  | cons a rest ih =>
    simp only [List.foldlM, bind_eq_ok] at h
    obtain ⟨s1, h1, h2⟩ := h
    exact SubPassR.cons (subscriptionStep_lview h1 hi.2) (ih s1 h2 (subscriptionStep_sessInv h1 hi))

/-- One step of the session pass on the view. -/
theorem sessionStep_lview {s s' : State} {k : Time × Nat} (h : sessionStep s k = .ok s') :
    lview s' = (lview s).sessStep k.2 := by
  unfold sessionStep at h
  simp only [bind_eq_ok, orPanic_eq_ok] at h
  obtain ⟨item, hitem, h⟩ := h
  unfold LView.sessStep
  have hx' : (lview s).sessions.get k.2 = some item := hitem
  rw [hx']
  simp only []
  split at h
  · rename_i hst
    rw [pure_eq_ok] at h; rw [← h, if_pos hst]; rfl
  · rename_i hst
    simp only [bind_eq_ok, pure_eq_ok, panicIfErr_eq_ok] at h
    obtain ⟨bytes, _, s2, h2, rfl⟩ := h
    rw [if_neg hst, lview_removeSession, sessionInactiveHook_lview h2]
    rfl

theorem sessionFold_lview (l : List (Time × Nat)) (s s' : State) (h : l.foldlM sessionStep s = .ok s') :
    lview s' = (l.map (·.2)).foldl LView.sessStep (lview s) := by
  induction l generalizing s with
  | nil => simp only [List.foldlM, pure_eq_ok] at h; rw [← h]; rfl
  | cons a rest ih =>
    simp only [List.foldlM, bind_eq_ok] at h
    obtain ⟨s1, h1, h2⟩ := h
    rw [ih s1 h2, sessionStep_lview h1]; rfl

/-! ### messages -/

theorem LifeSide.of_eq {s s' : State} (h1 : s'.sessions = s.sessions) (h2 : s'.subs = s.subs) (h3 : s'.subCount = s.subCount)
    (h : LifeSide s) : LifeSide s' := by
  obtain ⟨a, b, c, d⟩ := h
  refine ⟨?_, ?_, ?_, ?_⟩
  · intro i x hx; exact a i x (by show s.sessions.get i = some x; rw [← h1]; exact hx)
  · intro i y hy; exact b i y (by show s.subs.get i = some y; rw [← h2]; exact hy)
  · intro i x hx; rw [h3]; exact c i x (by rw [← h1]; exact hx)
  · intro i y hy; rw [h3]; exact d i y (by rw [← h2]; exact hy)

theorem NewSub.life {M : Dur} {s : State} {v' : LView} (h : NewSub s v') (hs : LifeSide s) (hi : LifeV M (lview s)) :
    LifeV M v' := by
  obtain ⟨y, hid, hst, _, rfl⟩ := h
  refine hi.addSub_fresh y (Or.inl hst) ?_
  intro i x hx hc
  have := hs.sessSubLe i x hx
  omega

theorem NewSub.subQ {s : State} {v' : LView} (h : NewSub s v') (hs : LifeSide s) (hq : SubQV (lview s)) : SubQV v' := by
  obtain ⟨y, hid, _, _, rfl⟩ := h
  refine hq.addSub_fresh y ?_
  cases hg : (lview s).subs.get y.id with
  | none => rfl
  | some y' => have := hs.subLe y.id y' hg; omega

theorem sessStart_life {M : Dur} {s s' : State} {frm : TextAddr} {id : Nat} {node : Addr}
    (h : sessStart s frm id node = .ok s') (hi : LifeInv M s) : LifeInv M s' := by
  obtain ⟨y, hy, hst, e⟩ := sessStart_lview h
  rw [lifeInv_iff] at hi ⊢
  rw [e]
  refine hi.setSess _ ⟨⟨y, hy⟩, Or.inl rfl, ?_, ?_, ?_⟩
  · intro y' hy' _
    have : y' = y := Option.some.inj (hy'.symm.trans hy)
    rw [this]; exact hst
  · intro y' hy' hp
    have : y' = y := Option.some.inj (hy'.symm.trans hy)
    rw [this, hst] at hp; simp at hp
  · have := hi.delays.2.1
    show s.time + s.params.sessDelay ≤ s.time + M
    have e1 : (lview s).params.sessDelay = s.params.sessDelay := rfl
    tomega

theorem sessUpdate_life {M : Dur} {s s' : State} {frm : Addr} {id : Nat} {up down dur : Int} {sig : SigSpec}
    (h : sessUpdate s frm id up down dur sig = .ok s') (hi : LifeInv M s) : LifeInv M s' := by
  obtain ⟨x, hx, _, e⟩ := sessUpdate_lview h
  rw [lifeInv_iff] at hi ⊢
  rw [e]
  have ok := hi.sessOK (i := id) (x := x) hx
  refine hi.setSess _ ⟨ok.sub, ok.status, ok.active, ?_, ?_⟩
  · intro y hy hp
    by_cases ha : x.status = .StatusActive
    · have := ok.active y hy ha
      rw [this] at hp; simp at hp
    · have e1 : (x.updated s.time s.params.sessDelay up down dur).inactiveAt = x.inactiveAt := by
        simp only [Session.updated, ha, if_false]
      rw [e1]; exact ok.pending y hy hp
  · by_cases ha : x.status = .StatusActive
    · have e1 : (x.updated s.time s.params.sessDelay up down dur).inactiveAt = s.time + s.params.sessDelay := by
        simp only [Session.updated, ha, if_true]
      rw [e1]
      have := hi.delays.2.1
      show s.time + s.params.sessDelay ≤ s.time + M
      have e2 : (lview s).params.sessDelay = s.params.sessDelay := rfl
      tomega
    · have e1 : (x.updated s.time s.params.sessDelay up down dur).inactiveAt = x.inactiveAt := by
        simp only [Session.updated, ha, if_false]
      rw [e1]; exact ok.bound

theorem sessEnd_life {M : Dur} {s s' : State} {frm : Addr} {id : Nat} (h : sessEnd s frm id = .ok s') (hi : LifeInv M s) :
    LifeInv M s' := by
  obtain ⟨x, hx, ha, _, e⟩ := sessEnd_lview h
  rw [lifeInv_iff] at hi ⊢
  rw [e]
  exact hi.setSess _ ((hi.sessOK (i := id) hx).pend ha hi.delays.2.1)

theorem subCancel_life {M : Dur} {s s' : State} {frm : Addr} {id : Nat} (h : subCancel s frm id = .ok s')
    (hs : LifeSide s) (hx : SessIdx s) (hi : LifeInv M s) : LifeInv M s' := by
  obtain ⟨sub, _, _, _, e⟩ := subCancel_lview h
  rw [lifeInv_iff] at hi ⊢
  rw [e]
  exact hi.pendSub hs.sk sub _ _ hi.delays.2.2
    (fun i x hxi hsub => ((sessionIdsForSub_spec hx sub.id).2 i).mpr ⟨x, hxi, hsub⟩)

theorem subCancel_subQOK {s s' : State} {frm : Addr} {id : Nat} (h : subCancel s frm id = .ok s')
    (hs : LifeSide s) (hq : SubQOK s) : SubQOK s' := by
  obtain ⟨sub, hsub, _, _, e⟩ := subCancel_lview h
  unfold SubQOK at *
  rw [e]
  have hid : sub.id = id := hs.bk id sub hsub
  exact hq.pendSub hs.sk sub (by rw [hid]; exact hsub) _ _

theorem handle_life {M : Dur} {s s' : State} {m : Msg} (h : m.handle s = .ok s') (hs : LifeSide s) (hx : SessIdx s)
    (hi : LifeInv M s) : LifeInv M s' := by
  cases m <;> simp only [Msg.handle] at h
  case provRegister => exact LifeInv.of_lview (provRegister_lview h) hi
  case provUpdate => exact LifeInv.of_lview (provUpdate_lview h) hi
  case nodeRegister => exact LifeInv.of_lview (nodeRegister_lview h) hi
  case nodeUpdate => exact LifeInv.of_lview (nodeUpdate_lview h) hi
  case nodeStatus => exact LifeInv.of_lview (nodeStatus_lview h) hi
  case nodeSubscribe => exact lifeInv_iff.mpr ((nodeSubscribe_lview h).life hs (lifeInv_iff.mp hi))
  case planCreate => exact LifeInv.of_lview (planCreate_lview h) hi
  case planStatus => exact LifeInv.of_lview (planStatus_lview h) hi
  case planLink => exact LifeInv.of_lview (planLink_lview h) hi
  case planUnlink => exact LifeInv.of_lview (planUnlink_lview h) hi
  case planSubscribe => exact lifeInv_iff.mpr ((planSubscribe_lview h).life hs (lifeInv_iff.mp hi))
  case subCancel => exact subCancel_life h hs hx hi
  case subAllocate => exact LifeInv.of_lview (subAllocate_lview h) hi
  case sessStart => exact sessStart_life h hi
  case sessUpdate => exact sessUpdate_life h hi
  case sessEnd => exact sessEnd_life h hi
  case swap => exact LifeInv.of_lview (swap_lview h) hi

theorem SubQOK.of_sessions {s s' : State} (hb : s'.subs = s.subs) (hq' : s'.subQ = s.subQ) (hq : SubQOK s) : SubQOK s' :=
  SubQV.congr (v := lview s) (v' := lview s') hb hq' hq

theorem handle_subQOK {s s' : State} {m : Msg} (h : m.handle s = .ok s') (hs : LifeSide s) (hq : SubQOK s) : SubQOK s' := by
  cases m <;> simp only [Msg.handle] at h
  case provRegister => exact SubQOK.of_lview (provRegister_lview h) hq
  case provUpdate => exact SubQOK.of_lview (provUpdate_lview h) hq
  case nodeRegister => exact SubQOK.of_lview (nodeRegister_lview h) hq
  case nodeUpdate => exact SubQOK.of_lview (nodeUpdate_lview h) hq
  case nodeStatus => exact SubQOK.of_lview (nodeStatus_lview h) hq
  case nodeSubscribe => exact (nodeSubscribe_lview h).subQ hs hq
  case planCreate => exact SubQOK.of_lview (planCreate_lview h) hq
  case planStatus => exact SubQOK.of_lview (planStatus_lview h) hq
  case planLink => exact SubQOK.of_lview (planLink_lview h) hq
  case planUnlink => exact SubQOK.of_lview (planUnlink_lview h) hq
  case planSubscribe => exact (planSubscribe_lview h).subQ hs hq
  case subCancel => exact subCancel_subQOK h hs hq
  case subAllocate => exact SubQOK.of_lview (subAllocate_lview h) hq
  case sessStart =>
    obtain ⟨_, _, _, e⟩ := sessStart_lview h
    exact SubQOK.of_sessions (congrArg LView.subs e) (congrArg LView.subQ e) hq
  case sessUpdate =>
    obtain ⟨_, _, _, e⟩ := sessUpdate_lview h
    exact SubQOK.of_sessions (congrArg LView.subs e) (congrArg LView.subQ e) hq
  case sessEnd =>
    obtain ⟨_, _, _, _, e⟩ := sessEnd_lview h
    exact SubQOK.of_sessions (congrArg LView.subs e) (congrArg LView.subQ e) hq
  case swap => exact SubQOK.of_lview (swap_lview h) hq

/-- A delivered message — accepted or rejected — keeps the lifecycle coupling. -/
theorem deliver_life {M : Dur} (s : State) (m : Msg) (hc : CountInv s) (hx : SessIdx s) (hi : LifeInv M s) :
    LifeInv M (deliver s m).1 := by
  have h0 : LifeInv M { s with events := [] } := LifeInv.of_lview (s := s) rfl hi
  have s0 : LifeSide { s with events := [] } := LifeSide.of_eq (s := s) rfl rfl rfl hc.lifeSide
  have x0 : SessIdx { s with events := [] } := SessIdx.of_view (s := s) rfl hx
  unfold deliver
  simp only []
  cases hr : (do m.validateBasic; m.handle { s with events := [] } : Hub.SDK.M State) with
  | ok s' =>
    simp only [bind_eq_ok] at hr
    obtain ⟨_, _, hh⟩ := hr
    exact handle_life hh s0 x0 h0
  | error e => cases e <;> exact h0

theorem deliver_subQOK (s : State) (m : Msg) (hc : CountInv s) (hq : SubQOK s) : SubQOK (deliver s m).1 := by
  have h0 : SubQOK { s with events := [] } := SubQOK.of_lview (s := s) rfl hq
  have s0 : LifeSide { s with events := [] } := LifeSide.of_eq (s := s) rfl rfl rfl hc.lifeSide
  unfold deliver
  simp only []
  cases hr : (do m.validateBasic; m.handle { s with events := [] } : M State) with
  | ok s' =>
    simp only [bind_eq_ok] at hr
    obtain ⟨_, _, hh⟩ := hr
    exact handle_subQOK hh s0 h0
  | error e => cases e <;> exact h0

/-! ### begin of block -/

theorem beginBlock_life {M : Dur} {s s' : State} {t : Time} (h : beginBlock s t = .ok s') (ht : s.time ≤ t)
    (hi : LifeInv M s) : LifeInv M s' := by
  rw [lifeInv_iff] at hi ⊢
  rw [beginBlock_lview h]
  exact hi.time_mono ht

theorem beginBlock_subQOK {s s' : State} {t : Time} (h : beginBlock s t = .ok s') (hq : SubQOK s) : SubQOK s' := by
  have e := beginBlock_lview h
  exact SubQOK.of_sessions (congrArg LView.subs e) (congrArg LView.subQ e) hq

/-! ### end of block -/

/-- The three passes of `EndBlock`. -/
theorem endBlock_ok {s s' : State} (h : endBlock s = .ok s') :
    ∃ s1 s2 s3, nodeEndBlock { s with events := [] } = .ok s1 ∧ sessionEndBlock s1 = .ok s2 ∧
      subscriptionEndBlock s2 = .ok s3 ∧ s' = { s3 with modified := {} } := by
  unfold endBlock haltOf at h
  split at h <;> try contradiction
  rename_i s2 hs
  split at hs <;> try contradiction
  rename_i s3 hs3
  simp only [Except.ok.injEq] at hs h
  subst hs; subst h
  unfold vpnEndBlock at hs3
  simp only [bind_eq_ok] at hs3
  obtain ⟨s1, ha, sb, hc, hd⟩ := hs3
  exact ⟨s1, sb, s3, ha, hc, hd, rfl⟩

/-- `EndBlock` on the view: the session pass over the ids of the due sessions, then the
subscription pass over the ids of the due subscriptions (both duplicate-free, both exactly the due
records of the state at the start of the hook). -/
structure EndPasses (s s' : State) (ids1 ids2 : List Nat) (v1 : LView) : Prop where
  nd1 : ids1.Nodup
  mem1 : ∀ i, i ∈ ids1 ↔ ∃ x, s.sessions.get i = some x ∧ x.inactiveAt ≤ s.time
  pass1 : v1 = ids1.foldl LView.sessStep (lview s)
  nd2 : ids2.Nodup
  mem2 : ∀ j, j ∈ ids2 ↔ ∃ y, s.subs.get j = some y ∧ y.inactiveAt ≤ s.time
  pass2 : SubPassR s.params.subDelay v1 ids2 (lview s')

theorem endBlock_passes {s s' : State} (h : endBlock s = .ok s') (hc : CountInv s) (hx : SessIdx s) (hq : SubQOK s) :
    ∃ ids1 ids2 v1, EndPasses s s' ids1 ids2 v1 := by
  obtain ⟨s1, s2, s3, h1, h2, h3, rfl⟩ := endBlock_ok h
  have e1 : lview s1 = lview s := (nodeEndBlock_lview h1).trans rfl
  have x1 : SessInv s1 := SessInv.of_view (s := s) (by rw [nodeEndBlock_sview h1]; rfl) ⟨hc.sessKeyed, hx⟩
  have x2 : SessInv s2 := sessionEndBlock_sessInv h2 x1
  unfold sessionEndBlock at h2
  unfold subscriptionEndBlock at h3
  have p1 := sessionFold_lview _ _ _ h2
  have p2 := subscriptionFold_lview _ _ _ _ h3 x2
  have t1 : s1.time = s.time := congrArg LView.time e1
  have ss1 : s1.sessions = s.sessions := congrArg LView.sessions e1
  -- the session snapshot
  have m1 : ∀ i, i ∈ (dueIds Hub.Generated.Keys.session.SessionForInactiveAtKey s1.sessQ s1.time).map (·.2) ↔
      ∃ x, s.sessions.get i = some x ∧ x.inactiveAt ≤ s.time := by
    intro i
    simp only [List.mem_map, dueIds_mem_iff]
    constructor
    · rintro ⟨⟨t, j⟩, ⟨hh, ht⟩, rfl⟩
      obtain ⟨x, hxg, hxt⟩ := (x1.2.q t j).mp hh
      rw [ss1] at hxg
      exact ⟨x, hxg, by rw [hxt, ← t1]; exact ht⟩
    · rintro ⟨x, hxg, hxt⟩
      rw [← ss1] at hxg
      exact ⟨(x.inactiveAt, i), ⟨(x1.2.q _ _).mpr ⟨x, hxg, rfl⟩, by rw [t1]; exact hxt⟩, rfl⟩
  have n1 : ((dueIds Hub.Generated.Keys.session.SessionForInactiveAtKey s1.sessQ s1.time).map (·.2)).Nodup := by
    refine nodup_map_snd (dueIds_nodup' _ _ x1.2.nodup.2.1) ?_
    intro k hk k' hk' e
    obtain ⟨x, hxg, hxt⟩ := (x1.2.q k.1 k.2).mp (dueIds_mem_iff.mp hk).1
    obtain ⟨x', hxg', hxt'⟩ := (x1.2.q k'.1 k'.2).mp (dueIds_mem_iff.mp hk').1
    rw [e, hxg'] at hxg
    simp only [Option.some.injEq] at hxg
    rw [← hxt, ← hxt', hxg]
  -- the view after the session pass
  rw [e1] at p1
  obtain ⟨f1, f2, f3, f4, _, _⟩ := LView.sessPass_spec _ (lview s) hc.lifeSide.sk n1
  rw [← p1] at f1 f2 f3 f4
  have b2 : s2.subs = s.subs := f1
  have q2 : s2.subQ = s.subQ := f2
  have pr2 : s2.params = s.params := f3
  have t2 : s2.time = s.time := f4
  -- the subscription snapshot
  have m2 : ∀ j, j ∈ (dueIds Hub.Generated.Keys.subscription.SubscriptionForInactiveAtKey s2.subQ s2.time).map (·.2) ↔
      ∃ y, s.subs.get j = some y ∧ y.inactiveAt ≤ s.time := by
    intro j
    simp only [List.mem_map, dueIds_mem_iff]
    rw [q2, t2]
    constructor
    · rintro ⟨⟨t, i⟩, ⟨hh, ht⟩, rfl⟩
      obtain ⟨y, hyg, hyt⟩ := (hq.q t i).mp hh
      exact ⟨y, hyg, by rw [hyt]; exact ht⟩
    · rintro ⟨y, hyg, hyt⟩
      exact ⟨(y.inactiveAt, j), ⟨(hq.q _ _).mpr ⟨y, hyg, rfl⟩, hyt⟩, rfl⟩
  have n2 : ((dueIds Hub.Generated.Keys.subscription.SubscriptionForInactiveAtKey s2.subQ s2.time).map (·.2)).Nodup := by
    rw [q2]
    refine nodup_map_snd (dueIds_nodup' _ _ hq.nodup) ?_
    intro k hk k' hk' e
    obtain ⟨y, hyg, hyt⟩ := (hq.q k.1 k.2).mp (dueIds_mem_iff.mp hk).1
    obtain ⟨y', hyg', hyt'⟩ := (hq.q k'.1 k'.2).mp (dueIds_mem_iff.mp hk').1
    have hyg'' : s.subs.get k'.2 = some y := by rw [← e]; exact hyg
    have : y = y' := Option.some.inj (hyg''.symm.trans hyg')
    rw [← hyt, ← hyt', this]
  rw [pr2] at p2
  exact ⟨_, _, lview s2, n1, m1, p1, n2, m2, p2⟩

/-- What holds of the view between the two passes without any lifecycle assumption. -/
theorem EndPasses.frame1 {s s' : State} {ids1 ids2 : List Nat} {v1 : LView} (h : EndPasses s s' ids1 ids2 v1)
    (hs : LifeSide s) (hq : SubQOK s) :
    v1.subs = s.subs ∧ v1.subQ = s.subQ ∧ v1.params = s.params ∧ v1.time = s.time ∧
    SessKeyedV v1 ∧ SubKeyedV v1 ∧ SubQV v1 := by
  obtain ⟨f1, f2, f3, f4, f5, _⟩ := LView.sessPass_spec ids1 (lview s) hs.sk h.nd1
  rw [← h.pass1] at f1 f2 f3 f4 f5
  refine ⟨f1, f2, f3, f4, f5, ?_, SubQV.congr (v := lview s) f1 f2 hq⟩
  intro i y hy; rw [f1] at hy; exact hs.bk i y hy

theorem EndPasses.due2 {s s' : State} {ids1 ids2 : List Nat} {v1 : LView} (h : EndPasses s s' ids1 ids2 v1)
    (hs : LifeSide s) (hq : SubQOK s) : ∀ j ∈ ids2, ∃ t, v1.subQ.has (t, j) = true ∧ t ≤ v1.time := by
  obtain ⟨_, f2, _, f4, _, _, _⟩ := h.frame1 hs hq
  intro j hj
  obtain ⟨y, hy, hyt⟩ := (h.mem2 j).mp hj
  refine ⟨y.inactiveAt, ?_, by rw [f4]; exact hyt⟩
  rw [f2]; exact (hq.q _ _).mpr ⟨y, hy, rfl⟩

/-- Between the passes and at the end of the block the phase invariants hold. -/
theorem EndPasses.mid {M : Dur} {s s' : State} {ids1 ids2 : List Nat} {v1 : LView} (h : EndPasses s s' ids1 ids2 v1)
    (hs : LifeSide s) (hq : SubQOK s) (hi : LifeInv M s) :
    MidInv M v1 ∧ MidInv M (lview s') ∧ s'.time = s.time ∧ s'.params = s.params := by
  obtain ⟨f1, f2, f3, f4, f5, f6, f7⟩ := h.frame1 hs hq
  have hi' := lifeInv_iff.mp hi
  obtain ⟨l1, a1⟩ := LView.sessPass_mid ids1 hs.sk h.nd1 hi'
    (fun i x hx ht => (h.mem1 i).mpr ⟨x, hx, ht⟩)
  rw [← h.pass1] at l1 a1
  have m1 : MidInv M v1 := ⟨l1, a1, f5, f6, f7⟩
  obtain ⟨m2, t2, p2⟩ := h.pass2.mid h.nd2 hi.delays.2.2 (h.due2 hs hq) m1
  exact ⟨m1, m2, t2.trans f4, p2.trans f3⟩

theorem endBlock_life {M : Dur} {s s' : State} (h : endBlock s = .ok s') (hc : CountInv s) (hx : SessIdx s) (hq : SubQOK s)
    (hi : LifeInv M s) : LifeInv M s' := by
  obtain ⟨ids1, ids2, v1, hp⟩ := endBlock_passes h hc hx hq
  exact lifeInv_iff.mpr (hp.mid hc.lifeSide hq hi).2.1.life

/-- At the end of the block every remaining session ends strictly after the block time. -/
theorem endBlock_sessAfter {M : Dur} {s s' : State} (h : endBlock s = .ok s') (hc : CountInv s) (hx : SessIdx s)
    (hq : SubQOK s) (hi : LifeInv M s) : SessAfter s' := by
  obtain ⟨ids1, ids2, v1, hp⟩ := endBlock_passes h hc hx hq
  exact (hp.mid hc.lifeSide hq hi).2.1.after

theorem endBlock_subQOK {s s' : State} (h : endBlock s = .ok s') (hc : CountInv s) (hx : SessIdx s) (hq : SubQOK s) :
    SubQOK s' := by
  obtain ⟨ids1, ids2, v1, hp⟩ := endBlock_passes h hc hx hq
  obtain ⟨_, _, _, _, f5, f6, f7⟩ := hp.frame1 hc.lifeSide hq
  exact (hp.pass2.subQ f5 f6 f7).1

/-- `EndBlock` in closed form, record by record (`T` the block time, the delays those in force):
a due session/subscription expires (active → pending until `T + delay`, pending → removed); a session
that is not due goes pending exactly when it is active and its subscription is active and due;
everything else stays as it is; nothing appears. -/
structure EndSpec (s s' : State) : Prop where
  time : s'.time = s.time
  params : s'.params = s.params
  subDue : ∀ j y, s.subs.get j = some y → y.inactiveAt ≤ s.time → s'.subs.get j = expireSub s.time s.params.subDelay y
  subKeep : ∀ j y, s.subs.get j = some y → s.time < y.inactiveAt → s'.subs.get j = some y
  subNone : ∀ j, s.subs.get j = none → s'.subs.get j = none
  sessDue : ∀ i x, s.sessions.get i = some x → x.inactiveAt ≤ s.time →
    s'.sessions.get i = expireSess s.time s.params.sessDelay x
  sessCut : ∀ i x y, s.sessions.get i = some x → s.time < x.inactiveAt → x.status = .StatusActive →
    s.subs.get x.sub = some y → y.status = .StatusActive → y.inactiveAt ≤ s.time →
    s'.sessions.get i = some (x.pend s.time s.params.sessDelay)
  sessKeep : ∀ i x, s.sessions.get i = some x → s.time < x.inactiveAt →
    ¬ (x.status = .StatusActive ∧ ∃ y, s.subs.get x.sub = some y ∧ y.status = .StatusActive ∧ y.inactiveAt ≤ s.time) →
    s'.sessions.get i = some x
  sessNone : ∀ i, s.sessions.get i = none → s'.sessions.get i = none

theorem EndPasses.spec {s s' : State} {ids1 ids2 : List Nat} {v1 : LView} (h : EndPasses s s' ids1 ids2 v1)
    (hs : LifeSide s) (hq : SubQOK s) : EndSpec s s' := by
  obtain ⟨f1, f2, f3, f4, f5, f6, f7⟩ := h.frame1 hs hq
  obtain ⟨_, _, _, _, _, g6⟩ := LView.sessPass_spec ids1 (lview s) hs.sk h.nd1
  rw [← h.pass1] at g6
  obtain ⟨t2, p2, s2, x2⟩ := h.pass2.spec h.nd2 f5 f6
  have hsub : ∀ j, s'.subs.get j = if j ∈ ids2 then (s.subs.get j).bind (expireSub s.time s.params.subDelay) else s.subs.get j := by
    intro j
    have := s2 j
    rw [f1, f4] at this
    exact this
  have hsess1 : ∀ i, v1.sessions.get i =
      if i ∈ ids1 then (s.sessions.get i).bind (expireSess s.time s.params.sessDelay) else s.sessions.get i := g6
  have hsess2 : ∀ i, s'.sessions.get i = (v1.sessions.get i).map (fun x =>
      if x.status = .StatusActive ∧ x.sub ∈ ids2 ∧ v1.subActive x.sub = true then x.pend s.time s.params.sessDelay else x) := by
    intro i
    have := x2 i
    rw [f3, f4] at this
    exact this
  have hact : ∀ u, v1.subActive u = true ↔ ∃ y, s.subs.get u = some y ∧ y.status = .StatusActive := by
    intro u; rw [v1.subActive_iff u, f1]
  refine ⟨t2.trans f4, p2.trans f3, ?_, ?_, ?_, ?_, ?_, ?_, ?_⟩
  · intro j y hy hd
    rw [hsub, if_pos ((h.mem2 j).mpr ⟨y, hy, hd⟩), hy]; rfl
  · intro j y hy hd
    rw [hsub, if_neg, hy]
    rw [h.mem2]
    rintro ⟨y', hy', hd'⟩
    rw [hy] at hy'; simp only [Option.some.injEq] at hy'; subst hy'
    tomega
  · intro j hj
    rw [hsub, hj]; simp
  · intro i x hx hd
    rw [hsess2, hsess1, if_pos ((h.mem1 i).mpr ⟨x, hx, hd⟩), hx]
    simp only [Option.bind_some, expireSess]
    by_cases ha : x.status = .StatusActive
    · simp [ha, Session.pend]
    · simp [ha]
  · intro i x y hx hd ha hy hya hyd
    have hni : i ∉ ids1 := by
      rw [h.mem1]
      rintro ⟨x', hx', hd'⟩
      rw [hx] at hx'; simp only [Option.some.injEq] at hx'; subst hx'
      tomega
    rw [hsess2, hsess1, if_neg hni, hx]
    simp only [Option.map_some, Option.some.injEq]
    rw [if_pos ⟨ha, (h.mem2 _).mpr ⟨y, hy, hyd⟩, (hact _).mpr ⟨y, hy, hya⟩⟩]
  · intro i x hx hd hno
    have hni : i ∉ ids1 := by
      rw [h.mem1]
      rintro ⟨x', hx', hd'⟩
      rw [hx] at hx'; simp only [Option.some.injEq] at hx'; subst hx'
      tomega
    rw [hsess2, hsess1, if_neg hni, hx]
    simp only [Option.map_some, Option.some.injEq]
    rw [if_neg]
    rintro ⟨ha, hm, hac⟩
    obtain ⟨y, hy, hyd⟩ := (h.mem2 _).mp hm
    obtain ⟨y', hy', hya⟩ := (hact _).mp hac
    rw [hy] at hy'; simp only [Option.some.injEq] at hy'; subst hy'
    exact hno ⟨ha, y, hy, hya, hyd⟩
  · intro i hi
    rw [hsess2, hsess1, hi]; simp

theorem endBlock_spec {s s' : State} (h : endBlock s = .ok s') (hc : CountInv s) (hx : SessIdx s) (hq : SubQOK s) :
    EndSpec s s' := by
  obtain ⟨ids1, ids2, v1, hp⟩ := endBlock_passes h hc hx hq
  exact hp.spec hc.lifeSide hq

/-! ### governance, one operation, genesis -/

theorem gov_lview {s s' : State} {c : ParamChange} (hg : gov s c = some s') : lview s' = { lview s with params := s'.params } := by
  unfold gov at hg
  cases c <;> simp only [] at hg <;> (try split at hg) <;>
    first
      | (simp only [Option.some.injEq] at hg; rw [← hg]; rfl)
      | (simp only [reduceCtorEq] at hg)

theorem gov_life {M : Dur} (s : State) (c : ParamChange) (hd : DelayOK M ((gov s c).getD s)) (hi : LifeInv M s) :
    LifeInv M ((gov s c).getD s) := by
  cases hg : gov s c with
  | none => exact hi
  | some s' =>
    rw [hg] at hd
    simp only [Option.getD] at hd ⊢
    rw [lifeInv_iff] at hi ⊢
    rw [gov_lview hg]
    exact hi.setParams hd

theorem gov_subQOK (s : State) (c : ParamChange) (hq : SubQOK s) : SubQOK ((gov s c).getD s) := by
  cases hg : gov s c with
  | none => exact hq
  | some s' =>
    have e := gov_lview hg
    exact SubQOK.of_sessions (s := s) (congrArg LView.subs e) (congrArg LView.subQ e) hq

/-- **One operation of a history preserves `LifeInv M`**: block times do not go backwards, and a
governance change leaves the delays around `M`. -/
theorem step_life {M : Dur} {s s' : State} {op : Op} (h : step s op = some s') (hc : CountInv s) (hx : SessIdx s)
    (hq : SubQOK s) (ht : ∀ t, op = .begin t → s.time ≤ t) (hg : ∀ c, op = .gov c → DelayOK M s')
    (hi : LifeInv M s) : LifeInv M s' := by
  cases op with
  | tx m =>
    simp only [step, Option.some.injEq] at h
    rw [← h]; exact deliver_life s m hc hx hi
  | begin t =>
    simp only [step] at h
    split at h
    · rename_i s1 hb
      simp only [Option.some.injEq] at h; rw [← h]; exact beginBlock_life hb (ht t rfl) hi
    · contradiction
  | endB =>
    simp only [step] at h
    split at h
    · rename_i s1 hb
      simp only [Option.some.injEq] at h; rw [← h]; exact endBlock_life hb hc hx hq hi
    · contradiction
  | gov c =>
    have hd := hg c rfl
    simp only [step, Option.some.injEq] at h
    rw [← h] at hd ⊢; exact gov_life s c hd hi

/-- The queue fact needed by `step_life` is itself preserved by every operation. -/
theorem step_subQOK {s s' : State} {op : Op} (h : step s op = some s') (hc : CountInv s) (hx : SessIdx s)
    (hq : SubQOK s) : SubQOK s' := by
  cases op with
  | tx m =>
    simp only [step, Option.some.injEq] at h
    rw [← h]; exact deliver_subQOK s m hc hq
  | begin t =>
    simp only [step] at h
    split at h
    · rename_i s1 hb
      simp only [Option.some.injEq] at h; rw [← h]; exact beginBlock_subQOK hb hq
    · contradiction
  | endB =>
    simp only [step] at h
    split at h
    · rename_i s1 hb
      simp only [Option.some.injEq] at h; rw [← h]; exact endBlock_subQOK hb hc hx hq
    · contradiction
  | gov c =>
    simp only [step, Option.some.injEq] at h
    rw [← h]; exact gov_subQOK s c hq

theorem lview_addBalance (s : State) (b : Addr × Denom × Int) : lview (addBalance s b) = lview s := by
  unfold addBalance; split <;> rfl

theorem genesis_lview (g : Genesis) : lview g.state = lview g.base := by
  unfold Genesis.state
  exact foldl_inv (fun t => lview t = lview g.base) addBalance (fun t b h => (lview_addBalance t b).trans h) _ _ rfl

theorem genesis_life {M : Dur} (g : Genesis) (h1 : 0 < g.params.sessDelay) (h2 : g.params.sessDelay ≤ M)
    (h3 : M ≤ g.params.subDelay) : LifeInv M g.state := by
  refine LifeInv.of_lview (genesis_lview g) ⟨⟨h1, h2, h3⟩, ?_, ?_, ?_, ?_, ?_, ?_⟩ <;>
    · intros; simp_all [Genesis.base]

theorem genesis_subQOK (g : Genesis) : SubQOK g.state := by
  refine SubQOK.of_lview (genesis_lview g) ⟨Tbl.nodup_nil, ?_⟩
  intro t i; simp [lview, Genesis.base, Tbl.has]

/-! ### what a message does to each session and subscription record -/

/-- One session record across a delivered message: its lifecycle fields are untouched (a usage
report may refresh the deadline of an *active* session), or it goes `active → pending` now — by
`MsgEnd` of its own account, or by `MsgCancel` of its (active) subscription by the subscription's owner. -/
def SessTxR (s : State) (sb' : Tbl Nat Sub) (m : Msg) (i : Nat) (x x' : Session) : Prop :=
  (x'.status = x.status ∧ x'.statusAt = x.statusAt ∧ (x.status ≠ .StatusActive → x'.inactiveAt = x.inactiveAt)) ∨
  (x.status = .StatusActive ∧ x' = x.pend s.time s.params.sessDelay ∧
    ((∃ frm r, m = .sessEnd frm i r ∧ frm.bytes = x.addr) ∨
     (∃ frm y, m = .subCancel frm x.sub ∧ s.subs.get x.sub = some y ∧ y.status = .StatusActive ∧ frm.bytes = y.addr ∧
        sb'.get x.sub = some (y.pend s.time s.params.subDelay))))

/-- One subscription record across a delivered message: unchanged, or `active → pending` now by
`MsgCancel` of its owner. -/
def SubTxR (s : State) (m : Msg) (j : Nat) (y y' : Sub) : Prop :=
  y' = y ∨ (y.status = .StatusActive ∧ y' = y.pend s.time s.params.subDelay ∧ ∃ frm, m = .subCancel frm j ∧ frm.bytes = y.addr)

theorem SessTxR.refl (s : State) (sb' : Tbl Nat Sub) (m : Msg) (i : Nat) (x : Session) : SessTxR s sb' m i x x := Or.inl ⟨rfl, rfl, fun _ => rfl⟩

/-- A message never removes a record and never creates one except under the next free id. -/
structure TxSpec (s s' : State) (m : Msg) : Prop where
  sess : ∀ i x, s.sessions.get i = some x → ∃ x', s'.sessions.get i = some x' ∧ SessTxR s s'.subs m i x x'
  subs : ∀ j y, s.subs.get j = some y → ∃ y', s'.subs.get j = some y' ∧ SubTxR s m j y y'
  newSess : ∀ i x', s.sessions.get i = none → s'.sessions.get i = some x' →
    i = s.sessCount.getD 0 + 1 ∧ x'.status = .StatusActive ∧ x'.statusAt = s.time ∧
    x'.inactiveAt = s.time + s.params.sessDelay ∧ ∃ frm id node, m = .sessStart frm id node
  newSub : ∀ j y', s.subs.get j = none → s'.subs.get j = some y' →
    j = s.subCount.getD 0 + 1 ∧ y'.status = .StatusActive ∧ y'.statusAt = s.time
  time : s'.time = s.time
  params : s'.params = s.params

theorem TxSpec.of_lview {s s' : State} {m : Msg} (h : lview s' = lview s) : TxSpec s s' m := by
  have e1 : s'.sessions = s.sessions := congrArg LView.sessions h
  have e2 : s'.subs = s.subs := congrArg LView.subs h
  refine ⟨?_, ?_, ?_, ?_, congrArg LView.time h, congrArg LView.params h⟩
  · intro i x hx; exact ⟨x, by rw [e1]; exact hx, SessTxR.refl _ _ _ _ _⟩
  · intro j y hy; exact ⟨y, by rw [e2]; exact hy, Or.inl rfl⟩
  · intro i x' h0 h1; rw [e1, h0] at h1; simp at h1
  · intro j y' h0 h1; rw [e2, h0] at h1; simp at h1

theorem TxSpec.of_newSub {s s' : State} {m : Msg} (h : NewSub s (lview s')) (hs : LifeSide s) : TxSpec s s' m := by
  obtain ⟨y, hid, hst, hat, e⟩ := h
  have e1 : s'.sessions = s.sessions := congrArg LView.sessions e
  have e2 : s'.subs = s.subs.set y.id y := congrArg LView.subs e
  refine ⟨?_, ?_, ?_, ?_, congrArg LView.time e, congrArg LView.params e⟩
  · intro i x hx; exact ⟨x, by rw [e1]; exact hx, SessTxR.refl _ _ _ _ _⟩
  · intro j y0 hy
    have := hs.subLe j y0 hy
    refine ⟨y0, ?_, Or.inl rfl⟩
    rw [e2, Tbl.get_set, if_neg (by omega)]; exact hy
  · intro i x' h0 h1; rw [e1, h0] at h1; simp at h1
  · intro j y' h0 h1
    rw [e2, Tbl.get_set] at h1
    split_ifs at h1 with hc
    · simp only [Option.some.injEq] at h1
      rw [← h1, ← hc]; exact ⟨hid, hst, hat⟩
    · rw [h0] at h1; simp at h1

theorem sessStart_txSpec {s s' : State} {frm : TextAddr} {id : Nat} {node : TextAddr}
    (h : sessStart s frm id node.bytes = .ok s') (hle : ∀ i x, s.sessions.get i = some x → i ≤ s.sessCount.getD 0) :
    TxSpec s s' (.sessStart frm id node) := by
  obtain ⟨y, _, _, e⟩ := sessStart_lview h
  have e1 : s'.sessions = s.sessions.set (s.sessCount.getD 0 + 1) (newSession s frm.bytes id node.bytes) :=
    congrArg LView.sessions e
  have e2 : s'.subs = s.subs := congrArg LView.subs e
  refine ⟨?_, ?_, ?_, ?_, congrArg LView.time e, congrArg LView.params e⟩
  · intro i x hx
    have := hle i x hx
    refine ⟨x, ?_, SessTxR.refl _ _ _ _ _⟩
    rw [e1, Tbl.get_set, if_neg (by omega)]; exact hx
  · intro j y hy; exact ⟨y, by rw [e2]; exact hy, Or.inl rfl⟩
  · intro i x' h0 h1
    rw [e1, Tbl.get_set] at h1
    split_ifs at h1 with hc
    · simp only [Option.some.injEq] at h1
      rw [← h1, ← hc]; exact ⟨rfl, rfl, rfl, rfl, frm, id, node, rfl⟩
    · rw [h0] at h1; simp at h1
  · intro j y' h0 h1; rw [e2, h0] at h1; simp at h1

theorem sessUpdate_txSpec {s s' : State} {frm : TextAddr} {id : Nat} {up down dur : Int} {sig : SigSpec}
    (h : sessUpdate s frm.bytes id up down dur sig = .ok s') (hs : LifeSide s) :
    TxSpec s s' (.sessUpdate frm id up down dur sig) := by
  obtain ⟨x0, hx0, _, e⟩ := sessUpdate_lview h
  have hid : x0.id = id := hs.sk id x0 hx0
  have e1 : s'.sessions = s.sessions.set x0.id (x0.updated s.time s.params.sessDelay up down dur) := congrArg LView.sessions e
  have e2 : s'.subs = s.subs := congrArg LView.subs e
  refine ⟨?_, ?_, ?_, ?_, congrArg LView.time e, congrArg LView.params e⟩
  · intro i x hx
    rw [e1, Tbl.get_set, hid]
    by_cases hc : id = i
    · subst hc
      rw [hx0] at hx; simp only [Option.some.injEq] at hx; subst hx
      refine ⟨x0.updated s.time s.params.sessDelay up down dur, by simp, Or.inl ⟨rfl, rfl, ?_⟩⟩
      intro hna; simp only [Session.updated, hna, if_false]
    · exact ⟨x, by simp [hc, hx], SessTxR.refl _ _ _ _ _⟩
  · intro j y hy; exact ⟨y, by rw [e2]; exact hy, Or.inl rfl⟩
  · intro i x' h0 h1
    rw [e1, Tbl.get_set, hid] at h1
    split_ifs at h1 with hc
    · subst hc; rw [hx0] at h0; simp at h0
    · rw [h0] at h1; simp at h1
  · intro j y' h0 h1; rw [e2, h0] at h1; simp at h1

theorem sessEnd_txSpec {s s' : State} {frm : TextAddr} {id : Nat} {r : Nat}
    (h : sessEnd s frm.bytes id = .ok s') (hs : LifeSide s) : TxSpec s s' (.sessEnd frm id r) := by
  obtain ⟨x0, hx0, ha, hf, e⟩ := sessEnd_lview h
  have hid : x0.id = id := hs.sk id x0 hx0
  have e1 : s'.sessions = s.sessions.set x0.id (x0.pend s.time s.params.sessDelay) := congrArg LView.sessions e
  have e2 : s'.subs = s.subs := congrArg LView.subs e
  refine ⟨?_, ?_, ?_, ?_, congrArg LView.time e, congrArg LView.params e⟩
  · intro i x hx
    rw [e1, Tbl.get_set, hid]
    by_cases hc : id = i
    · subst hc
      rw [hx0] at hx; simp only [Option.some.injEq] at hx; subst hx
      exact ⟨x0.pend s.time s.params.sessDelay, by simp, Or.inr ⟨ha, rfl, Or.inl ⟨frm, r, rfl, hf⟩⟩⟩
    · exact ⟨x, by simp [hc, hx], SessTxR.refl _ _ _ _ _⟩
  · intro j y hy; exact ⟨y, by rw [e2]; exact hy, Or.inl rfl⟩
  · intro i x' h0 h1
    rw [e1, Tbl.get_set, hid] at h1
    split_ifs at h1 with hc
    · subst hc; rw [hx0] at h0; simp at h0
    · rw [h0] at h1; simp at h1
  · intro j y' h0 h1; rw [e2, h0] at h1; simp at h1

theorem subCancel_txSpec {s s' : State} {frm : TextAddr} {id : Nat}
    (h : subCancel s frm.bytes id = .ok s') (hs : LifeSide s) (hx : SessIdx s) : TxSpec s s' (.subCancel frm id) := by
  obtain ⟨sub, hsub, hact, hf, e⟩ := subCancel_lview h
  have hid : sub.id = id := hs.bk id sub hsub
  have hk : SessKeyedV ((lview s).dequeueSub sub) := hs.sk
  obtain ⟨h1, _, h3, h4, _, h6⟩ := LView.hook_spec (sessionIdsForSub s sub.id) ((lview s).dequeueSub sub) hk
  have e1 : ∀ i, s'.sessions.get i = (s.sessions.get i).map (fun x =>
      if i ∈ sessionIdsForSub s sub.id ∧ x.status = .StatusActive then x.pend s.time s.params.sessDelay else x) := by
    intro i
    have : s'.sessions = (((lview s).dequeueSub sub).hook (sessionIdsForSub s sub.id)).sessions := congrArg LView.sessions e
    rw [this, h6]; rfl
  have e2 : s'.subs = s.subs.set sub.id (sub.pend s.time s.params.subDelay) := by
    have : s'.subs = (((lview s).dequeueSub sub).hook (sessionIdsForSub s sub.id)).subs.set sub.id (sub.pend s.time s.params.subDelay) :=
      congrArg LView.subs e
    rw [this, h1]; rfl
  have et : s'.time = s.time := (congrArg LView.time e).trans h4
  have ep : s'.params = s.params := (congrArg LView.params e).trans h3
  refine ⟨?_, ?_, ?_, ?_, et, ep⟩
  · intro i x hxi
    rw [e1, hxi]
    simp only [Option.map_some]
    refine ⟨_, rfl, ?_⟩
    split_ifs with hc
    · obtain ⟨x', hx', hs'⟩ := ((sessionIdsForSub_spec hx sub.id).2 i).mp hc.1
      rw [hxi] at hx'; simp only [Option.some.injEq] at hx'; subst hx'
      refine Or.inr ⟨hc.2, rfl, Or.inr ⟨frm, sub, ?_, ?_, hact, hf, ?_⟩⟩
      · rw [hs', hid]
      · rw [hs', hid]; exact hsub
      · rw [e2, hs']; simp
    · exact SessTxR.refl _ _ _ _ _
  · intro j y hy
    rw [e2, Tbl.get_set, hid]
    by_cases hc : id = j
    · subst hc
      rw [hsub] at hy; simp only [Option.some.injEq] at hy; subst hy
      exact ⟨sub.pend s.time s.params.subDelay, by simp, Or.inr ⟨hact, rfl, frm, rfl, hf⟩⟩
    · exact ⟨y, by simp [hc, hy], Or.inl rfl⟩
  · intro i x' h0 h1'
    rw [e1, h0] at h1'; simp at h1'
  · intro j y' h0 h1'
    rw [e2, Tbl.get_set, hid] at h1'
    split_ifs at h1' with hc
    · subst hc; rw [hsub] at h0; simp at h0
    · rw [h0] at h1'; simp at h1'

theorem handle_txSpec {s s' : State} {m : Msg} (h : m.handle s = .ok s') (hs : LifeSide s)
    (hle : ∀ i x, s.sessions.get i = some x → i ≤ s.sessCount.getD 0) (hx : SessIdx s) : TxSpec s s' m := by
  cases m <;> simp only [Msg.handle] at h
  case provRegister => exact TxSpec.of_lview (provRegister_lview h)
  case provUpdate => exact TxSpec.of_lview (provUpdate_lview h)
  case nodeRegister => exact TxSpec.of_lview (nodeRegister_lview h)
  case nodeUpdate => exact TxSpec.of_lview (nodeUpdate_lview h)
  case nodeStatus => exact TxSpec.of_lview (nodeStatus_lview h)
  case nodeSubscribe => exact TxSpec.of_newSub (nodeSubscribe_lview h) hs
  case planCreate => exact TxSpec.of_lview (planCreate_lview h)
  case planStatus => exact TxSpec.of_lview (planStatus_lview h)
  case planLink => exact TxSpec.of_lview (planLink_lview h)
  case planUnlink => exact TxSpec.of_lview (planUnlink_lview h)
  case planSubscribe => exact TxSpec.of_newSub (planSubscribe_lview h) hs
  case subCancel => exact subCancel_txSpec h hs hx
  case subAllocate => exact TxSpec.of_lview (subAllocate_lview h)
  case sessStart => exact sessStart_txSpec h hle
  case sessUpdate => exact sessUpdate_txSpec h hs
  case sessEnd => exact sessEnd_txSpec h hs
  case swap => exact TxSpec.of_lview (swap_lview h)

/-- A delivered message — accepted or rejected — record by record. -/
theorem deliver_txSpec (s : State) (m : Msg) (hc : CountInv s) (hx : SessIdx s) : TxSpec s (deliver s m).1 m := by
  have s0 : LifeSide { s with events := [] } := LifeSide.of_eq (s := s) rfl rfl rfl hc.lifeSide
  have x0 : SessIdx { s with events := [] } := SessIdx.of_view (s := s) rfl hx
  have l0 : ∀ i x, ({ s with events := [] } : State).sessions.get i = some x → i ≤ ({ s with events := [] } : State).sessCount.getD 0 :=
    fun i x hxi => (hc.sessions i x hxi).2.2.1
  have r0 : TxSpec s { s with events := [] } m := TxSpec.of_lview rfl
  unfold deliver
  simp only []
  cases hr : (do m.validateBasic; m.handle { s with events := [] } : Hub.SDK.M State) with
  | ok s' =>
    simp only [bind_eq_ok] at hr
    obtain ⟨_, _, hh⟩ := hr
    obtain ⟨a, b, c, d, e, f⟩ := handle_txSpec hh s0 l0 x0
    exact ⟨a, b, c, d, e, f⟩
  | error e => cases e <;> exact r0

/-! ## Node tables: untouched by everything except the three node messages and the node pass -/

structure NQView where
  nodeActive : Tbl Addr Node
  nodeInactive : Tbl Addr Node
  nodeQ : Tbl (Time × Addr) Unit

def nqview (s : State) : NQView := ⟨s.nodeActive, s.nodeInactive, s.nodeQ⟩

@[simp] theorem nqview_emit (s : State) (e : Event) : nqview (emit s e) = nqview s := rfl
@[simp] theorem nqview_setAllocation (s : State) (a : Alloc) : nqview (setAllocation s a) = nqview s := rfl
@[simp] theorem nqview_insertPayout (s : State) (p : Payout) : nqview (insertPayout s p) = nqview s := rfl
@[simp] theorem nqview_setBalance (s : State) (a : Addr) (d : Denom) (v : Int) : nqview (setBalance s a d v) = nqview s := rfl
@[simp] theorem nqview_setSupply (s : State) (d : Denom) (v : Int) : nqview (setSupply s d v) = nqview s := rfl
@[simp] theorem nqview_setDeposit (s : State) (a : Addr) (c : Coins) : nqview (setDeposit s a c) = nqview s := rfl
@[simp] theorem nqview_putDeposit (s : State) (a : Addr) (c : Coins) : nqview (putDeposit s a c) = nqview s := by
  unfold putDeposit; split <;> rfl
@[simp] theorem nqview_detachPayoutRec (s : State) (p : Payout) : nqview (detachPayoutRec s p) = nqview s := rfl
theorem foldlM_nqview {α : Type} (f : State → α → M State) (hf : ∀ s a s', f s a = .ok s' → nqview s' = nqview s)
    (l : List α) (s s' : State) (h : l.foldlM f s = .ok s') : nqview s' = nqview s :=
  foldlM_inv (fun t => nqview t = nqview s) f (fun a b c h1 hp => (hf a b c h1).trans hp) l s s' h rfl

theorem setProvider_nqview {s s' : State} {p : Provider} (h : setProvider s p = .ok s') : nqview s' = nqview s := by
  unfold setProvider at h
  split at h <;> simp only [pure_eq_ok, gopanic_ne_ok] at h <;> (try subst h) <;> rfl

theorem setPlan_nqview {s s' : State} {p : Plan} (h : setPlan s p = .ok s') : nqview s' = nqview s := by
  unfold setPlan at h
  split at h <;> simp only [pure_eq_ok, gopanic_ne_ok] at h <;> (try subst h) <;> rfl

theorem sendCoins_nqview {s s' : State} {f t : Addr} {c : Coin} (h : sendCoins s f t c = .ok s') : nqview s' = nqview s := by
  have := (sendCoins_ok h).2.1
  rw [this]; rfl

theorem sendModuleToAccount_nqview {s s' : State} {f t : Addr} {c : Coin} (h : sendModuleToAccount s f t c = .ok s') :
    nqview s' = nqview s := by
  unfold sendModuleToAccount at h
  split at h
  · simp only [reject_ne_ok] at h
  · exact sendCoins_nqview h

theorem mintCoins_nqview {s s' : State} {m : Addr} {c : Coin} (h : mintCoins s m c = .ok s') : nqview s' = nqview s := by
  unfold mintCoins at h
  simp only [bind_eq_ok, pure_eq_ok] at h
  obtain ⟨nb, _, ns, _, rfl⟩ := h
  rfl

theorem fundCommunityPool_nqview {s s' : State} {f : Addr} {c : Coin} (h : fundCommunityPool s f c = .ok s') :
    nqview s' = nqview s := by
  unfold fundCommunityPool at h
  split at h
  · rw [pure_eq_ok] at h; rw [h]
  · exact sendCoins_nqview h

theorem depositAdd_nqview {s s' : State} {f t : Addr} {c : Coin} (h : depositAdd s f t c = .ok s') : nqview s' = nqview s := by
  unfold depositAdd at h
  simp only [bind_eq_ok, pure_eq_ok, require_eq_ok] at h
  obtain ⟨s1, hs1, _, _, rfl⟩ := h
  rw [nqview_emit, nqview_setDeposit, sendCoins_nqview hs1]

theorem depositToAccount_nqview {s s' : State} {f t : Addr} {c : Coin} (h : depositToAccount s f t c = .ok s') :
    nqview s' = nqview s := by
  unfold depositToAccount at h
  simp only [bind_eq_ok, pure_eq_ok, require_eq_ok, orReject_eq_ok] at h
  obtain ⟨cur, _, _, _, s1, hs1, rfl⟩ := h
  rw [nqview_emit, nqview_putDeposit, sendModuleToAccount_nqview hs1]

theorem depositToModule_nqview {s s' : State} {f m : Addr} {c : Coin} (h : depositToModule s f m c = .ok s') :
    nqview s' = nqview s := by
  unfold depositToModule at h
  simp only [bind_eq_ok, pure_eq_ok, require_eq_ok, orReject_eq_ok] at h
  obtain ⟨cur, _, _, _, s1, hs1, rfl⟩ := h
  rw [nqview_emit, nqview_putDeposit, sendCoins_nqview hs1]

theorem sendCoin_nqview {s s' : State} {f t : Addr} {c : Coin} (h : sendCoin s f t c = .ok s') : nqview s' = nqview s := by
  unfold sendCoin at h
  split at h
  · rw [pure_eq_ok] at h; rw [h]
  · exact sendCoins_nqview h

theorem sendCoinFromAccountToModule_nqview {s s' : State} {f m : Addr} {c : Coin}
    (h : sendCoinFromAccountToModule s f m c = .ok s') : nqview s' = nqview s := by
  unfold sendCoinFromAccountToModule at h
  split at h
  · rw [pure_eq_ok] at h; rw [h]
  · exact sendCoins_nqview h

theorem addDeposit_nqview {s s' : State} {a : Addr} {c : Coin} (h : addDeposit s a c = .ok s') : nqview s' = nqview s := by
  unfold addDeposit at h
  split at h
  · rw [pure_eq_ok] at h; rw [h]
  · exact depositAdd_nqview h

theorem subtractDeposit_nqview {s s' : State} {a : Addr} {c : Coin} (h : subtractDeposit s a c = .ok s') :
    nqview s' = nqview s := by
  unfold subtractDeposit at h
  split at h
  · rw [pure_eq_ok] at h; rw [h]
  · exact depositToAccount_nqview h

theorem sendCoinFromDepositToAccount_nqview {s s' : State} {f t : Addr} {c : Coin}
    (h : sendCoinFromDepositToAccount s f t c = .ok s') : nqview s' = nqview s := by
  unfold sendCoinFromDepositToAccount at h
  split at h
  · rw [pure_eq_ok] at h; rw [h]
  · exact depositToAccount_nqview h

theorem sendCoinFromDepositToModule_nqview {s s' : State} {f m : Addr} {c : Coin}
    (h : sendCoinFromDepositToModule s f m c = .ok s') : nqview s' = nqview s := by
  unfold sendCoinFromDepositToModule at h
  split at h
  · rw [pure_eq_ok] at h; rw [h]
  · exact depositToModule_nqview h

/-- A state-to-state step that only touches money tables (`MoneyFrame`) leaves the session tables alone. -/
theorem MoneyFrame.nqview {s s' : State} (h : MoneyFrame s s') : nqview s' = nqview s := by
  unfold MoneyFrame at h; rw [h]; rfl

theorem provRegister_nqview {s s' : State} {frm : Addr} {n i w d : Bytes} (h : provRegister s frm n i w d = .ok s') :
    nqview s' = nqview s := by
  unfold provRegister at h
  simp only [bind_eq_ok, pure_eq_ok, require_eq_ok] at h
  obtain ⟨_, _, s1, h1, s2, h2, rfl⟩ := h
  rw [nqview_emit, setProvider_nqview h2, fundCommunityPool_nqview h1]

theorem provUpdate_nqview {s s' : State} {frm : Addr} {n i w d : Bytes} {st : Status} (h : provUpdate s frm n i w d st = .ok s') :
    nqview s' = nqview s := by
  unfold provUpdate at h
  simp only [bind_eq_ok, pure_eq_ok, orReject_eq_ok] at h
  obtain ⟨p, _, s3, h3, rfl⟩ := h
  rw [nqview_emit, setProvider_nqview h3]
  split <;> split <;> rfl

theorem planCreate_nqview {s s' : State} {frm : Addr} {dur : Dur} {gb : Int} {prices : Coins}
    (h : planCreate s frm dur gb prices = .ok s') : nqview s' = nqview s := by
  unfold planCreate at h
  simp only [bind_eq_ok, pure_eq_ok, require_eq_ok] at h
  obtain ⟨_, _, s1, h1, rfl⟩ := h
  rw [nqview_emit]
  exact (rfl : nqview { s1 with planForProv := _ } = nqview s1).trans ((setPlan_nqview h1).trans rfl)

theorem planStatus_nqview {s s' : State} {frm : Addr} {id : Nat} {st : Status}
    (h : planStatus s frm id st = .ok s') : nqview s' = nqview s := by
  unfold planStatus at h
  simp only [bind_eq_ok, pure_eq_ok, require_eq_ok, orReject_eq_ok] at h
  obtain ⟨p, hp, _, _, s3, h3, rfl⟩ := h
  rw [nqview_emit, setPlan_nqview h3]
  split <;> split <;> rfl

theorem planLink_nqview {s s' : State} {frm : Addr} {id : Nat} {node : Addr}
    (h : planLink s frm id node = .ok s') : nqview s' = nqview s := by
  unfold planLink at h
  simp only [bind_eq_ok, pure_eq_ok, require_eq_ok, orReject_eq_ok] at h
  obtain ⟨p, _, _, _, _, _, rfl⟩ := h
  rfl

theorem planUnlink_nqview {s s' : State} {frm : Addr} {id : Nat} {node : Addr}
    (h : planUnlink s frm id node = .ok s') : nqview s' = nqview s := by
  unfold planUnlink at h
  simp only [bind_eq_ok, pure_eq_ok, require_eq_ok, orReject_eq_ok] at h
  obtain ⟨p, _, _, _, rfl⟩ := h
  rfl

theorem subAllocate_nqview {s s' : State} {frm toA : Addr} {id : Nat} {bytes : Int}
    (h : subAllocate s frm id toA bytes = .ok s') : nqview s' = nqview s := by
  unfold subAllocate at h
  simp only [bind_eq_ok, pure_eq_ok, require_eq_ok, orReject_eq_ok] at h
  obtain ⟨sub, _, _, _, _, _, fa, _, _, _, g, _, u, _, av, _, _, _, fg, _, _, _, _, _, rfl⟩ := h
  simp only [nqview_emit, nqview_setAllocation]
  split <;> rfl

theorem swap_nqview {s s' : State} {frm recv : Addr} {hash : Bytes} {amt : Int}
    (h : swap s frm hash recv amt = .ok s') : nqview s' = nqview s := by
  unfold swap at h
  simp only [bind_eq_ok, pure_eq_ok, require_eq_ok] at h
  obtain ⟨_, _, _, _, _, _, q, _, coin, _, s1, h1, s2, h2, rfl⟩ := h
  rw [nqview_emit]
  exact (rfl : nqview { s2 with swaps := _ } = nqview s2).trans ((sendModuleToAccount_nqview h2).trans (mintCoins_nqview h1))

theorem detachPayout_nqview {s s' : State} {sub : Sub} {b : Bool} (h : detachPayout s sub b = .ok s') : nqview s' = nqview s := by
  unfold detachPayout at h
  split at h
  · simp only [bind_eq_ok, pure_eq_ok] at h
    obtain ⟨p, _, rfl⟩ := h
    rfl
  · rw [pure_eq_ok] at h; rw [h]
theorem nqview_mintBeginBlock_go (l : List Inflation) (s : State) : nqview (mintBeginBlock.go s l) = nqview s := by
  induction l generalizing s with
  | nil => rfl
  | cons item rest ih =>
    unfold mintBeginBlock.go
    split
    · rfl
    · rw [ih]; rfl

theorem nqview_mintBeginBlock (s : State) : nqview (mintBeginBlock s) = nqview s := nqview_mintBeginBlock_go _ s

theorem nqview_distrSweep (s : State) : nqview (distrSweep s) = nqview s := by
  unfold distrSweep
  exact foldl_inv (fun t => nqview t = nqview s) sweepDenom (fun t d h => (rfl : nqview (sweepDenom t d) = nqview t).trans h) _ s rfl

theorem payoutStep_nqview {s s' : State} {k : Time × Nat} (h : payoutStep s k = .ok s') : nqview s' = nqview s := by
  unfold payoutStep at h
  simp only [bind_eq_ok, pure_eq_ok, requireP_eq_ok, orPanic_eq_ok] at h
  obtain ⟨item, _, reward, _, s2, h2, payAmt, _, _, _, s3, h3, rfl⟩ := h
  have e : nqview s3 = nqview s :=
    (sendCoinFromDepositToAccount_nqview h3).trans ((sendCoinFromDepositToModule_nqview h2).trans rfl)
  rw [← e]
  split <;> rfl

theorem settleSession_nqview {s s' : State} {x : Session} {acc node : Addr} {dep : Coin} {gb b a : Int}
    (h : settleSession s x acc node dep gb b a = .ok s') : nqview s' = nqview s := by
  unfold settleSession at h
  simp only [bind_eq_ok, pure_eq_ok, requireP_eq_ok] at h
  obtain ⟨price, _, prev, _, cur, _, payAmt, _, payment, _, reward, _, s1, h1, netAmt, _, _, _, s2, h2, rfl⟩ := h
  rw [nqview_emit, sendCoinFromDepositToAccount_nqview h2, sendCoinFromDepositToModule_nqview h1]

theorem sessionInactiveHook_nqview {s s' : State} {id : Nat} {acc node : Addr} {bytes : Int}
    (h : sessionInactiveHook s id acc node bytes = .ok s') : nqview s' = nqview s := by
  unfold sessionInactiveHook at h
  simp only [bind_eq_ok, require_eq_ok, orReject_eq_ok] at h
  obtain ⟨x, _, _, _, sub, _, h⟩ := h
  split at h
  · rw [pure_eq_ok] at h; rw [h]
  · simp only [bind_eq_ok, orReject_eq_ok] at h
    obtain ⟨a, _, used, _, h⟩ := h
    split at h
    · rw [settleSession_nqview h]; rfl
    · rw [pure_eq_ok] at h; rw [← h]; rfl
theorem refundSub_nqview {s s' : State} {item : Sub} (h : refundSub s item = .ok s') : nqview s' = nqview s := by
  unfold refundSub at h
  split at h
  · simp only [bind_eq_ok] at h
    obtain ⟨s1, h1, h2⟩ := h
    have i1 : nqview s1 = nqview s := by
      split at h1
      · unfold refundGB at h1
        simp only [bind_eq_ok, pure_eq_ok, orPanic_eq_ok, panicIfErr_eq_ok] at h1
        obtain ⟨price, _, a, _, paid, _, ra, _, refund, _, s2, h2', rfl⟩ := h1
        rw [nqview_emit, subtractDeposit_nqview h2']
      · rw [pure_eq_ok] at h1; rw [← h1]
    split at h2
    · unfold refundHr at h2
      simp only [bind_eq_ok, pure_eq_ok, orPanic_eq_ok, panicIfErr_eq_ok] at h2
      obtain ⟨p, _, ra, _, refund, _, s2, h2', rfl⟩ := h2
      rw [nqview_emit, subtractDeposit_nqview h2', i1]
    · rw [pure_eq_ok] at h2; rw [← h2]; exact i1
  · rw [pure_eq_ok] at h; rw [h]

theorem nqview_removeAllocs (l : List Addr) (s : State) (id : Nat) : nqview (removeAllocs s id l) = nqview s := by
  unfold removeAllocs
  induction l generalizing s with
  | nil => rfl
  | cons a rest ih => rw [List.foldl_cons, ih]; rfl

theorem removePayout_nqview {s s' : State} {item : Sub} (h : removePayout s item = .ok s') : nqview s' = nqview s := by
  unfold removePayout at h
  split at h
  · simp only [bind_eq_ok, pure_eq_ok, orPanic_eq_ok] at h
    obtain ⟨p, _, rfl⟩ := h
    rfl
  · rw [pure_eq_ok] at h; rw [h]


@[simp] theorem nqview_insertSub (s : State) (sub : Sub) : nqview (insertSub s sub) = nqview s := by
  unfold insertSub; cases sub.kind <;> rfl
@[simp] theorem nqview_subToPending (s : State) (sub : Sub) (d : Dur) : nqview (subToPending s sub d).1 = nqview s := rfl
@[simp] theorem nqview_sessionToPending (s : State) (x : Session) : nqview (sessionToPending s x) = nqview s := rfl
@[simp] theorem nqview_insertSession (s : State) (x : Session) : nqview (insertSession s x) = nqview s := rfl
@[simp] theorem nqview_removeSession (s : State) (x : Session) : nqview (removeSession s x) = nqview s := rfl

theorem createNodeSubGB_nqview {s : State} {acc node : Addr} {n : Node} {gb : Int} {denom : Denom} {r : State × Sub}
    (h : createNodeSubGB s acc node n gb denom = .ok r) : nqview r.1 = nqview s := by
  unfold createNodeSubGB at h
  simp only [bind_eq_ok, pure_eq_ok, orReject_eq_ok] at h
  obtain ⟨price, _, bytes, _, amt, _, dep, _, s1, h1, granted, _, rfl⟩ := h
  simp only [nqview_emit, nqview_setAllocation, nqview_insertSub, addDeposit_nqview h1]

theorem createNodeSubHr_nqview {s : State} {acc node : Addr} {n : Node} {hr : Int} {denom : Denom} {r : State × Sub}
    (h : createNodeSubHr s acc node n hr denom = .ok r) : nqview r.1 = nqview s := by
  unfold createNodeSubHr at h
  simp only [bind_eq_ok, pure_eq_ok, orReject_eq_ok] at h
  obtain ⟨price, _, amt, _, dep, _, s1, h1, pa, _, hourly, _, rfl⟩ := h
  simp only [nqview_insertPayout, nqview_insertSub, addDeposit_nqview h1]

theorem nodeSubscribe_nqview {s s' : State} {frm node : Addr} {gb hr : Int} {denom : Denom}
    (h : nodeSubscribe s frm node gb hr denom = .ok s') : nqview s' = nqview s := by
  unfold nodeSubscribe createSubscriptionForNode at h
  simp only [bind_eq_ok, pure_eq_ok, require_eq_ok, orReject_eq_ok] at h
  obtain ⟨_, _, _, _, r, ⟨n, _, _, _, hr'⟩, rfl⟩ := h
  rw [nqview_emit]
  split at hr'
  · exact createNodeSubGB_nqview hr'
  · exact createNodeSubHr_nqview hr'

theorem planSubscribe_nqview {s s' : State} {frm : Addr} {id : Nat} {denom : Denom}
    (h : planSubscribe s frm id denom = .ok s') : nqview s' = nqview s := by
  unfold planSubscribe createSubscriptionForPlan at h
  simp only [bind_eq_ok, pure_eq_ok, require_eq_ok, requireP_eq_ok, orReject_eq_ok] at h
  obtain ⟨r, ⟨plan, hplan, _, _, price, _, reward, _, s1, h1, payAmt, _, _, _, s2, h2, granted, _, rfl⟩, rfl⟩ := h
  simp only [nqview_emit, nqview_setAllocation, nqview_insertSub, sendCoin_nqview h2, sendCoinFromAccountToModule_nqview h1]

theorem beginBlock_nqview {s s' : State} {t : Time} (h : beginBlock s t = .ok s') : nqview s' = nqview s := by
  unfold beginBlock haltOf at h
  split at h <;> try contradiction
  rename_i s'' hs
  simp only [Except.ok.injEq] at h
  subst h
  unfold subscriptionBeginBlock at hs
  rw [foldlM_nqview _ (fun a k b h1 => payoutStep_nqview (panicIfErr_eq_ok.mp h1)) _ _ _ hs, nqview_distrSweep,
    nqview_mintBeginBlock]
  rfl

theorem nqview_removeSubRecords (s : State) (item : Sub) : nqview (removeSubRecords s item) = nqview s := by
  unfold removeSubRecords
  cases item.kind with
  | node n g h d => rfl
  | plan pid dn =>
    simp only [nqview_emit]
    exact (rfl : nqview { (removeAllocs _ _ _) with subs := _ } = nqview (removeAllocs _ _ _)).trans (nqview_removeAllocs _ _ _)

theorem sessStart_nqview {s s' : State} {frm : TextAddr} {id : Nat} {node : Addr} (h : sessStart s frm id node = .ok s') :
    nqview s' = nqview s := by
  unfold sessStart at h
  simp only [bind_eq_ok, pure_eq_ok, require_eq_ok, orReject_eq_ok] at h
  obtain ⟨sub, _, _, _, n, _, _, _, _, _, _, _, latest, _, _, _, rfl⟩ := h
  rfl

theorem sessUpdate_nqview {s s' : State} {frm : Addr} {id : Nat} {up down dur : Int} {sig : SigSpec}
    (h : sessUpdate s frm id up down dur sig = .ok s') : nqview s' = nqview s := by
  unfold sessUpdate at h
  simp only [bind_eq_ok, pure_eq_ok, require_eq_ok, orReject_eq_ok] at h
  obtain ⟨x, _, _, _, _, _, _, _, rfl⟩ := h
  rw [nqview_emit]
  split <;> rfl

theorem sessEnd_nqview {s s' : State} {frm : Addr} {id : Nat} (h : sessEnd s frm id = .ok s') : nqview s' = nqview s := by
  unfold sessEnd at h
  simp only [bind_eq_ok, pure_eq_ok, require_eq_ok, orReject_eq_ok] at h
  obtain ⟨x, _, _, _, _, _, rfl⟩ := h
  rfl

theorem subscriptionInactivePendingHook_nqview {s s' : State} {id : Nat}
    (h : subscriptionInactivePendingHook s id = .ok s') : nqview s' = nqview s := by
  unfold subscriptionInactivePendingHook at h
  refine foldlM_nqview _ ?_ _ s s' h
  intro s0 sid s1 h1
  simp only [bind_eq_ok, pure_eq_ok, orPanic_eq_ok] at h1
  obtain ⟨x, _, rfl⟩ := h1
  split <;> rfl

theorem subCancel_nqview {s s' : State} {frm : Addr} {id : Nat} (h : subCancel s frm id = .ok s') : nqview s' = nqview s := by
  unfold subCancel at h
  simp only [bind_eq_ok, require_eq_ok, orReject_eq_ok] at h
  obtain ⟨sub, _, _, _, _, _, s1, h1, h2⟩ := h
  rw [detachPayout_nqview h2, nqview_subToPending, subscriptionInactivePendingHook_nqview h1]
  rfl

theorem sessionStep_nqview {s s' : State} {k : Time × Nat} (h : sessionStep s k = .ok s') : nqview s' = nqview s := by
  unfold sessionStep at h
  simp only [bind_eq_ok, orPanic_eq_ok] at h
  obtain ⟨item, _, h⟩ := h
  split at h
  · rw [pure_eq_ok] at h; rw [← h]; rfl
  · simp only [bind_eq_ok, pure_eq_ok, panicIfErr_eq_ok] at h
    obtain ⟨bytes, _, s2, h2, rfl⟩ := h
    rw [nqview_removeSession, sessionInactiveHook_nqview h2]; rfl

theorem subscriptionStep_nqview {s s' : State} {d : Dur} {k : Time × Nat} (h : subscriptionStep d s k = .ok s') :
    nqview s' = nqview s := by
  unfold subscriptionStep at h
  simp only [bind_eq_ok, orPanic_eq_ok] at h
  obtain ⟨item, _, h⟩ := h
  split at h
  · simp only [bind_eq_ok, panicIfErr_eq_ok] at h
    obtain ⟨s2, h2, h3⟩ := h
    rw [detachPayout_nqview h3, nqview_subToPending, subscriptionInactivePendingHook_nqview h2]; rfl
  · simp only [bind_eq_ok] at h
    obtain ⟨s2, h2, h3⟩ := h
    rw [removePayout_nqview h3, nqview_removeSubRecords, refundSub_nqview h2]; rfl

theorem sessionEndBlock_nqview {s s' : State} (h : sessionEndBlock s = .ok s') : nqview s' = nqview s := by
  unfold sessionEndBlock at h
  exact foldlM_nqview _ (fun a k b h1 => sessionStep_nqview h1) _ s s' h

theorem subscriptionEndBlock_nqview {s s' : State} (h : subscriptionEndBlock s = .ok s') : nqview s' = nqview s := by
  unfold subscriptionEndBlock at h
  exact foldlM_nqview _ (fun a k b h1 => subscriptionStep_nqview h1) _ s s' h

theorem gov_nqview (s : State) (c : ParamChange) : nqview ((gov s c).getD s) = nqview s := by
  cases hg : gov s c with
  | none => rfl
  | some s' =>
    simp only [Option.getD]
    unfold gov at hg
    cases c <;> simp only [] at hg <;> (try split at hg) <;>
      first
        | (simp only [Option.some.injEq] at hg; rw [← hg]; rfl)
        | (simp only [reduceCtorEq] at hg)

/-! ## Node lifecycle -/

/-- The lifecycle fields of a node record (everything but prices and URL). -/
def nlife (n : Node) : Addr × Time × Status × Time := (n.addr, n.inactiveAt, n.status, n.statusAt)

/-- What is used of `RecInv` and `NodeIdx`: node records sit under their own address in the
partition of their status, and the node deadline queue holds exactly the active nodes. -/
structure NodeOK (s : State) : Prop where
  act : ∀ a n, s.nodeActive.get a = some n → n.addr = a ∧ n.status = .StatusActive
  ina : ∀ a n, s.nodeInactive.get a = some n → n.addr = a ∧ n.status = .StatusInactive
  q : ∀ t a, s.nodeQ.has (t, a) = true ↔ ∃ n, s.nodeActive.get a = some n ∧ n.inactiveAt = t
  nd : Tbl.Nodup s.nodeQ

theorem NodeOK.of {s : State} (hr : RecInv s) (hn : NodeIdx s) : NodeOK s :=
  ⟨hr.nodeA, fun a n h => ⟨(hr.nodeI a n h).1, (hr.nodeI a n h).2.1⟩, hn.nodeQ, hn.nodupQ.1⟩

/-- Same node lifecycle data (prices may differ), same queue, same time. -/
structure SameLife (s s' : State) : Prop where
  act : ∀ a, (s'.nodeActive.get a).map nlife = (s.nodeActive.get a).map nlife
  ina : ∀ a, (s'.nodeInactive.get a).map nlife = (s.nodeInactive.get a).map nlife
  q : s'.nodeQ = s.nodeQ
  time : s'.time = s.time

theorem SameLife.refl (s : State) : SameLife s s := ⟨fun _ => rfl, fun _ => rfl, rfl, rfl⟩

theorem SameLife.emit (s : State) (e : Event) : SameLife s (emit s e) := ⟨fun _ => rfl, fun _ => rfl, rfl, rfl⟩

theorem SameLife.trans {a b c : State} (h1 : SameLife a b) (h2 : SameLife b c) : SameLife a c :=
  ⟨fun x => (h2.act x).trans (h1.act x), fun x => (h2.ina x).trans (h1.ina x), h2.q.trans h1.q, h2.time.trans h1.time⟩

theorem SameLife.of_nqview {s s' : State} (h : nqview s' = nqview s) (ht : s'.time = s.time) : SameLife s s' := by
  have h1 : s'.nodeActive = s.nodeActive := congrArg NQView.nodeActive h
  have h2 : s'.nodeInactive = s.nodeInactive := congrArg NQView.nodeInactive h
  have h3 : s'.nodeQ = s.nodeQ := congrArg NQView.nodeQ h
  exact ⟨fun _ => by rw [h1], fun _ => by rw [h2], h3, ht⟩

theorem map_nlife_some {o : Option Node} {n' : Node} (h : o.map nlife = some (nlife n')) : ∃ n, o = some n ∧ nlife n = nlife n' := by
  cases o with
  | none => simp at h
  | some n => exact ⟨n, rfl, by simpa using h⟩

theorem nlife_eq {n n' : Node} (h : nlife n = nlife n') :
    n.addr = n'.addr ∧ n.inactiveAt = n'.inactiveAt ∧ n.status = n'.status ∧ n.statusAt = n'.statusAt := by
  simp only [nlife, Prod.mk.injEq] at h; exact h

theorem NodeOK.of_sameLife {s s' : State} (h : SameLife s s') (hi : NodeOK s) : NodeOK s' := by
  refine ⟨?_, ?_, ?_, ?_⟩
  · intro a n' hn'
    have := h.act a; rw [hn'] at this
    obtain ⟨n, hn, e⟩ := map_nlife_some this.symm
    obtain ⟨e1, _, e3, _⟩ := nlife_eq e
    obtain ⟨a1, a2⟩ := hi.act a n hn
    exact ⟨e1 ▸ a1, e3 ▸ a2⟩
  · intro a n' hn'
    have := h.ina a; rw [hn'] at this
    obtain ⟨n, hn, e⟩ := map_nlife_some this.symm
    obtain ⟨e1, _, e3, _⟩ := nlife_eq e
    obtain ⟨a1, a2⟩ := hi.ina a n hn
    exact ⟨e1 ▸ a1, e3 ▸ a2⟩
  · intro t a
    rw [h.q, hi.q]
    constructor
    · rintro ⟨n, hn, ht⟩
      have := h.act a; rw [hn] at this
      obtain ⟨n', hn', e⟩ := map_nlife_some this
      exact ⟨n', hn', by rw [(nlife_eq e).2.1]; exact ht⟩
    · rintro ⟨n', hn', ht⟩
      have := h.act a; rw [hn'] at this
      obtain ⟨n, hn, e⟩ := map_nlife_some this.symm
      exact ⟨n, hn, by rw [(nlife_eq e).2.1]; exact ht⟩
  · rw [h.q]; exact hi.nd

/-- Rewriting a stored node record by one with the same lifecycle data. -/
theorem setNode_sameLife {s s' : State} {a : Addr} {n n' : Node} (hi : NodeOK s) (hg : getNode s a = some n)
    (he : nlife n' = nlife n) (h : setNode s n' = .ok s') : SameLife s s' := by
  obtain ⟨e1, _, e3, _⟩ := nlife_eq he
  unfold getNode at hg
  cases ha : s.nodeActive.get a with
  | some m =>
    simp only [ha, Option.some.injEq] at hg
    subst hg
    obtain ⟨a1, a2⟩ := hi.act a m ha
    rcases setNode_eff h with ⟨_, rfl⟩ | ⟨hs, _⟩
    · refine ⟨?_, fun _ => rfl, rfl, rfl⟩
      intro b
      simp only [Tbl.get_set, e1, a1]
      by_cases hc : a = b
      · subst hc; simp [ha, he]
      · simp [hc]
    · rw [e3, a2] at hs; simp at hs
  | none =>
    simp only [ha] at hg
    obtain ⟨a1, a2⟩ := hi.ina a n hg
    rcases setNode_eff h with ⟨hs, _⟩ | ⟨_, rfl⟩
    · rw [e3, a2] at hs; simp at hs
    · refine ⟨fun _ => rfl, ?_, rfl, rfl⟩
      intro b
      simp only [Tbl.get_set, e1, a1]
      by_cases hc : a = b
      · subst hc; simp [hg, he]
      · simp [hc]

theorem nlife_sweepNode (p : Params) (m : Modified) (n : Node) : nlife (sweepNode p m n) = nlife n := rfl

theorem nodeSweep_sameLife {s s' : State} (h : nodeSweep s = .ok s') (hi : NodeOK s) : NodeOK s' ∧ SameLife s s' := by
  unfold nodeSweep at h
  split at h
  · rw [pure_eq_ok] at h; rw [← h]; exact ⟨hi, SameLife.refl s⟩
  · refine foldlM_inv (fun σ => NodeOK σ ∧ SameLife s σ) _ ?_ _ s s' h ⟨hi, SameLife.refl s⟩
    intro s0 a s1 h1 ⟨hp, hl⟩
    simp only [bind_eq_ok, pure_eq_ok, orPanic_eq_ok] at h1
    obtain ⟨item, hitem, s2, h2, rfl⟩ := h1
    have sl : SameLife s0 s2 := setNode_sameLife hp hitem (nlife_sweepNode _ _ _) h2
    exact ⟨NodeOK.of_sameLife (sl.trans (SameLife.emit s2 _)) hp, hl.trans (sl.trans (SameLife.emit s2 _))⟩

/-- One expiry step for a key that is (still) in the queue. -/
theorem nodeExpireStep_eff {s s' : State} {k : Time × Addr} (h : nodeExpireStep s k = .ok s') (hi : NodeOK s)
    (hk : s.nodeQ.has k = true) :
    ∃ n, s.nodeActive.get k.2 = some n ∧ n.inactiveAt = k.1 ∧
      s'.nodeActive = s.nodeActive.erase k.2 ∧ s'.nodeQ = s.nodeQ.erase k ∧
      s'.nodeInactive = s.nodeInactive.set k.2 { n with inactiveAt := zeroTime, status := .StatusInactive, statusAt := s.time } ∧
      s'.time = s.time := by
  obtain ⟨n, hn, ht⟩ := (hi.q k.1 k.2).mp hk
  obtain ⟨a1, _⟩ := hi.act k.2 n hn
  unfold nodeExpireStep at h
  simp only [bind_eq_ok, pure_eq_ok, orPanic_eq_ok] at h
  obtain ⟨item, hitem, s3, h3, rfl⟩ := h
  have : item = n := by
    unfold getNode at hitem
    simp only [hn, Option.some.injEq] at hitem
    exact hitem.symm
  subst this
  refine ⟨item, hn, ht, ?_⟩
  rcases setNode_eff h3 with ⟨hs, _⟩ | ⟨_, rfl⟩
  · simp at hs
  · refine ⟨by simp only [emit, a1], ?_, by simp only [emit, a1], rfl⟩
    simp only [emit, a1, ht]

/-- The result of the node pass, address by address. -/
structure NodePass (T : Time) (s0 s : State) : Prop where
  ok : NodeOK s
  time : s.time = T
  absent : ∀ a, s0.nodeActive.get a = none → s.nodeActive.get a = none
  present : ∀ a n, s0.nodeActive.get a = some n → s.nodeActive.get a = some n ∨
    (n.inactiveAt ≤ T ∧ s.nodeActive.get a = none ∧
      ∃ n', s.nodeInactive.get a = some n' ∧ n'.statusAt = T ∧ n'.inactiveAt = zeroTime ∧ n'.status = .StatusInactive)

theorem nodeExpire_pass {s s' : State} (h : nodeExpire s = .ok s') (hi : NodeOK s) :
    NodePass s.time s s' ∧ ∀ k, s'.nodeQ.has k = true → s.time < k.1 := by
  unfold nodeExpire at h
  let P : List (Time × Addr) → State → Prop := fun rest σ =>
    NodePass s.time s σ ∧ rest.Nodup ∧ (∀ k ∈ rest, σ.nodeQ.has k = true ∧ k.1 ≤ s.time) ∧
    (∀ k, σ.nodeQ.has k = true → k.1 ≤ s.time → k ∈ rest)
  have key : P [] s' := by
    refine foldlM_rest P nodeExpireStep ?_ (dueNodes s) s s' h ?_
    · intro σ k rest σ' hstep ⟨hp, hnd, hin, hall⟩
      obtain ⟨hna, hnr⟩ := List.nodup_cons.mp hnd
      obtain ⟨hkq, hkT⟩ := hin k List.mem_cons_self
      obtain ⟨n, hn, hnt, e1, e2, e3, e4⟩ := nodeExpireStep_eff hstep hp.ok hkq
      obtain ⟨a1, a2⟩ := hp.ok.act k.2 n hn
      refine ⟨⟨⟨?_, ?_, ?_, ?_⟩, e4.trans hp.time, ?_, ?_⟩, hnr, ?_, ?_⟩
      · intro a m hm
        rw [e1, Tbl.get_erase] at hm
        split_ifs at hm
        exact hp.ok.act a m hm
      · intro a m hm
        rw [e3, Tbl.get_set] at hm
        split_ifs at hm with hc
        · simp only [Option.some.injEq] at hm
          rw [← hm, ← hc]; exact ⟨a1, rfl⟩
        · exact hp.ok.ina a m hm
      · intro t a
        rw [e2, e1, Tbl.has_erase, hp.ok.q, Tbl.get_erase]
        by_cases hc : k.2 = a
        · subst hc
          simp only [if_true, reduceCtorEq, false_and, exists_false, iff_false, not_and]
          rintro hne ⟨m, hm, hmt⟩
          rw [hn] at hm; simp only [Option.some.injEq] at hm; subst hm
          exact hne (Prod.ext (hnt.symm.trans hmt) rfl)
        · simp only [hc, if_false, and_iff_right_iff_imp]
          intro _ e; exact hc (congrArg Prod.snd e)
      · rw [e2]; exact Tbl.nodup_erase hp.ok.nd _
      · intro a ha
        rw [e1, Tbl.get_erase]; split_ifs
        · rfl
        · exact hp.absent a ha
      · intro a n0 hn0
        by_cases hc : k.2 = a
        · subst hc
          rcases hp.present k.2 n0 hn0 with hl | ⟨_, hr, _⟩
          · have hnn : n = n0 := Option.some.inj (hn.symm.trans hl)
            exact Or.inr ⟨by rw [← hnn, hnt]; exact hkT, by rw [e1]; simp,
              { n with inactiveAt := zeroTime, status := .StatusInactive, statusAt := σ.time }, by rw [e3]; simp,
              hp.time, rfl, rfl⟩
          · rw [hn] at hr; simp at hr
        · rcases hp.present a n0 hn0 with hl | ⟨h1, h2, n', h3, h4⟩
          · left; rw [e1, Tbl.get_erase, if_neg hc]; exact hl
          · right
            refine ⟨h1, by rw [e1, Tbl.get_erase, if_neg hc]; exact h2, n', ?_, h4⟩
            rw [e3, Tbl.get_set, if_neg hc]; exact h3
      · intro k' hk'
        obtain ⟨q', t'⟩ := hin k' (List.mem_cons_of_mem _ hk')
        refine ⟨?_, t'⟩
        rw [e2, Tbl.has_erase]
        exact ⟨fun e => hna (e ▸ hk'), q'⟩
      · intro k' hk' ht'
        rw [e2, Tbl.has_erase] at hk'
        rcases List.mem_cons.mp (hall k' hk'.2 ht') with e | e
        · exact absurd e.symm hk'.1
        · exact e
    · refine ⟨⟨hi, rfl, fun _ h => h, fun _ _ h => Or.inl h⟩, dueNodes_nodup hi.nd, ?_, ?_⟩
      · intro k hk; exact dueNodes_mem_iff.mp hk
      · intro k hk ht; exact dueNodes_mem_iff.mpr ⟨hk, ht⟩
  exact ⟨key.1, fun k hk => by
    by_contra hc
    have := key.2.2.2 k hk (Int.not_lt.mp hc)
    simp at this⟩

theorem NodeOK.of_nqview {s s' : State} (h : nqview s' = nqview s) (hi : NodeOK s) : NodeOK s' := by
  have h1 : s'.nodeActive = s.nodeActive := congrArg NQView.nodeActive h
  have h2 : s'.nodeInactive = s.nodeInactive := congrArg NQView.nodeInactive h
  have h3 : s'.nodeQ = s.nodeQ := congrArg NQView.nodeQ h
  refine ⟨?_, ?_, ?_, ?_⟩
  · rw [h1]; exact hi.act
  · rw [h2]; exact hi.ina
  · rw [h1, h3]; exact hi.q
  · rw [h3]; exact hi.nd

/-- `EndBlock` on the node tables, address by address (`T` the block time): an active node whose
deadline has passed becomes inactive (`statusAt = T`), every other active node keeps its lifecycle
data, no node becomes active, and no queue entry at or before `T` remains. -/
structure EndNodeSpec (s s' : State) : Prop where
  ok : NodeOK s'
  expired : ∀ a n, s.nodeActive.get a = some n → n.inactiveAt ≤ s.time →
    s'.nodeActive.get a = none ∧ ∃ n', s'.nodeInactive.get a = some n' ∧ n'.statusAt = s.time ∧
      n'.inactiveAt = zeroTime ∧ n'.status = .StatusInactive
  kept : ∀ a n, s.nodeActive.get a = some n → s.time < n.inactiveAt → ∃ n', s'.nodeActive.get a = some n' ∧ nlife n' = nlife n
  absent : ∀ a, s.nodeActive.get a = none → s'.nodeActive.get a = none
  timely : ∀ t a, s'.nodeQ.has (t, a) = true → s.time < t

theorem endBlock_nodeSpec {s s' : State} (h : endBlock s = .ok s') (hi : NodeOK s) : EndNodeSpec s s' := by
  obtain ⟨s1, s2, s3, h1, h2, h3, rfl⟩ := endBlock_ok h
  unfold nodeEndBlock at h1
  simp only [bind_eq_ok] at h1
  obtain ⟨sa, ha, hb⟩ := h1
  have i0 : NodeOK { s with events := [] } := NodeOK.of_nqview (s := s) rfl hi
  obtain ⟨ia, la⟩ := nodeSweep_sameLife ha i0
  have ta : sa.time = s.time := la.time
  obtain ⟨np, tm⟩ := nodeExpire_pass hb ia
  rw [ta] at np tm
  have e : nqview ({ s3 with modified := {} } : State) = nqview s1 :=
    (rfl : nqview ({ s3 with modified := {} } : State) = nqview s3).trans
      ((subscriptionEndBlock_nqview h3).trans (sessionEndBlock_nqview h2))
  have e1 : ({ s3 with modified := {} } : State).nodeActive = s1.nodeActive := congrArg NQView.nodeActive e
  have e2 : ({ s3 with modified := {} } : State).nodeInactive = s1.nodeInactive := congrArg NQView.nodeInactive e
  have e3 : ({ s3 with modified := {} } : State).nodeQ = s1.nodeQ := congrArg NQView.nodeQ e
  have actA : ∀ a n, s.nodeActive.get a = some n → ∃ na, sa.nodeActive.get a = some na ∧ nlife na = nlife n := by
    intro a n hn
    have := la.act a
    have hn0 : ({ s with events := [] } : State).nodeActive.get a = some n := hn
    rw [hn0] at this
    exact map_nlife_some this
  refine ⟨NodeOK.of_nqview e np.ok, ?_, ?_, ?_, ?_⟩
  · intro a n hn hd
    obtain ⟨na, hna, el⟩ := actA a n hn
    have hda : na.inactiveAt ≤ s.time := by rw [(nlife_eq el).2.1]; exact hd
    rcases np.present a na hna with hl | ⟨_, h2', n', h3', h4', h5', h6'⟩
    · have := tm (na.inactiveAt, a) ((np.ok.q _ _).mpr ⟨na, hl, rfl⟩)
      exact absurd hda (Int.not_le.mpr this)
    · exact ⟨by rw [e1]; exact h2', n', by rw [e2]; exact h3', h4', h5', h6'⟩
  · intro a n hn hd
    obtain ⟨na, hna, el⟩ := actA a n hn
    have hda : s.time < na.inactiveAt := by rw [(nlife_eq el).2.1]; exact hd
    rcases np.present a na hna with hl | ⟨h1', _⟩
    · exact ⟨na, by rw [e1]; exact hl, el⟩
    · exact absurd h1' (Int.not_le.mpr hda)
  · intro a hn
    have := la.act a
    have hn0 : ({ s with events := [] } : State).nodeActive.get a = none := hn
    rw [hn0] at this
    have hsa : sa.nodeActive.get a = none := by
      cases hg : sa.nodeActive.get a with
      | none => rfl
      | some x => rw [hg] at this; simp at this
    rw [e1]; exact np.absent a hsa
  · intro t a hq
    rw [e3] at hq; exact tm (t, a) hq

/-! ### node messages -/

theorem nlife_nodeUpdated (n : Node) (gb hr : Option Coins) (url : Bytes) : nlife (nodeUpdated n gb hr url) = nlife n := by
  unfold nodeUpdated
  cases gb <;> cases hr <;> simp only [] <;> split <;> rfl

theorem nodeUpdate_sameLife {s s' : State} {frm : Addr} {gb hr : Option Coins} {url : Bytes}
    (h : nodeUpdate s frm gb hr url = .ok s') (hi : NodeOK s) : SameLife s s' := by
  unfold nodeUpdate at h
  simp only [bind_eq_ok, pure_eq_ok, require_eq_ok, orReject_eq_ok] at h
  obtain ⟨_, _, _, _, n, hn, s1, h1, rfl⟩ := h
  exact (setNode_sameLife hi hn (nlife_nodeUpdated n gb hr url) h1).trans (SameLife.emit s1 _)

theorem nodeRegister_nodeActive {s s' : State} {frm : Addr} {gb hr : Coins} {url : Bytes}
    (h : nodeRegister s frm gb hr url = .ok s') : s'.nodeActive = s.nodeActive := by
  obtain ⟨_, _, _, s1, hf, rfl⟩ := nodeRegister_eff h
  show s1.nodeActive = s.nodeActive
  rw [hf.eq]

/-- `MsgUpdateStatus` of a node touches only the sender's own record. -/
theorem nodeStatus_others {s s' : State} {frm : Addr} {st : Status} (h : nodeStatus s frm st = .ok s') (hi : NodeOK s) :
    ∀ a, a ≠ frm → s'.nodeActive.get a = s.nodeActive.get a := by
  unfold nodeStatus at h
  simp only [bind_eq_ok, pure_eq_ok, orReject_eq_ok] at h
  obtain ⟨n, hn, s5, h5, rfl⟩ := h
  have haddr : n.addr = frm := by
    unfold getNode at hn
    cases ha : s.nodeActive.get frm with
    | some m => simp only [ha, Option.some.injEq] at hn; rw [← hn]; exact (hi.act frm m ha).1
    | none => simp only [ha] at hn; exact (hi.ina frm n hn).1
  intro a hne
  have hne' : ¬ frm = a := fun e => hne e.symm
  show s5.nodeActive.get a = _
  rcases setNode_eff h5 with ⟨_, rfl⟩ | ⟨_, rfl⟩
  · simp only [Tbl.get_set, haddr, hne', if_false]
    split_ifs <;> simp only [Tbl.get_erase, hne', if_false]
  · simp only []
    split_ifs <;> simp only [Tbl.get_erase, hne', if_false]

/-- One active node across a message: it stays active with the same lifecycle data, unless the
message is the node's own `MsgUpdateStatus`. -/
def NodeTxR (s' : State) (m : Msg) (a : Addr) (n : Node) : Prop :=
  (∃ n', s'.nodeActive.get a = some n' ∧ nlife n' = nlife n) ∨ (∃ frm st, m = .nodeStatus frm st ∧ frm.bytes = a)

theorem NodeTxR.of_nqview {s s' : State} {m : Msg} (h : nqview s' = nqview s) {a : Addr} {n : Node}
    (hn : s.nodeActive.get a = some n) : NodeTxR s' m a n := by
  have h1 : s'.nodeActive = s.nodeActive := congrArg NQView.nodeActive h
  exact Or.inl ⟨n, by rw [h1]; exact hn, rfl⟩

theorem handle_nodeTx {s s' : State} {m : Msg} (h : m.handle s = .ok s') (hi : NodeOK s) {a : Addr} {n : Node}
    (hn : s.nodeActive.get a = some n) : NodeTxR s' m a n := by
  cases m <;> simp only [Msg.handle] at h
  case provRegister => exact NodeTxR.of_nqview (provRegister_nqview h) hn
  case provUpdate => exact NodeTxR.of_nqview (provUpdate_nqview h) hn
  case nodeRegister => exact Or.inl ⟨n, by rw [nodeRegister_nodeActive h]; exact hn, rfl⟩
  case nodeUpdate =>
    have := (nodeUpdate_sameLife h hi).act a
    rw [hn] at this
    obtain ⟨n', hn', e⟩ := map_nlife_some this
    exact Or.inl ⟨n', hn', e⟩
  case nodeStatus frm st =>
    by_cases hc : a = frm.bytes
    · exact Or.inr ⟨frm, st, rfl, hc.symm⟩
    · exact Or.inl ⟨n, by rw [nodeStatus_others h hi a hc]; exact hn, rfl⟩
  case nodeSubscribe => exact NodeTxR.of_nqview (nodeSubscribe_nqview h) hn
  case planCreate => exact NodeTxR.of_nqview (planCreate_nqview h) hn
  case planStatus => exact NodeTxR.of_nqview (planStatus_nqview h) hn
  case planLink => exact NodeTxR.of_nqview (planLink_nqview h) hn
  case planUnlink => exact NodeTxR.of_nqview (planUnlink_nqview h) hn
  case planSubscribe => exact NodeTxR.of_nqview (planSubscribe_nqview h) hn
  case subCancel => exact NodeTxR.of_nqview (subCancel_nqview h) hn
  case subAllocate => exact NodeTxR.of_nqview (subAllocate_nqview h) hn
  case sessStart => exact NodeTxR.of_nqview (sessStart_nqview h) hn
  case sessUpdate => exact NodeTxR.of_nqview (sessUpdate_nqview h) hn
  case sessEnd => exact NodeTxR.of_nqview (sessEnd_nqview h) hn
  case swap => exact NodeTxR.of_nqview (swap_nqview h) hn

theorem deliver_nodeTx (s : State) (m : Msg) (hi : NodeOK s) {a : Addr} {n : Node}
    (hn : s.nodeActive.get a = some n) : NodeTxR (deliver s m).1 m a n := by
  have i0 : NodeOK { s with events := [] } := NodeOK.of_nqview (s := s) rfl hi
  have r0 : NodeTxR { s with events := [] } m a n := NodeTxR.of_nqview (s := s) rfl hn
  unfold deliver
  simp only []
  cases hr : (do m.validateBasic; m.handle { s with events := [] } : Hub.SDK.M State) with
  | ok s' =>
    simp only [bind_eq_ok] at hr
    obtain ⟨_, _, hh⟩ := hr
    exact handle_nodeTx hh i0 hn
  | error e => cases e <;> exact r0

/-! ## The session counter never decreases (session ids are never reused) -/

theorem subscriptionInactivePendingHook_sessCount {s s' : State} {id : Nat}
    (h : subscriptionInactivePendingHook s id = .ok s') : s'.sessCount = s.sessCount := by
  unfold subscriptionInactivePendingHook at h
  refine foldlM_inv (fun σ => σ.sessCount = s.sessCount) _ ?_ _ s s' h rfl
  intro s0 sid s1 h1 hp
  simp only [bind_eq_ok, pure_eq_ok, orPanic_eq_ok] at h1
  obtain ⟨x, _, rfl⟩ := h1
  split
  · exact hp
  · exact hp

theorem sessCount_of_sview {s s' : State} (h : sview s' = sview s) : s'.sessCount = s.sessCount :=
  congrArg SessView.sessCount h

theorem subCancel_sessCount {s s' : State} {frm : Addr} {id : Nat} (h : subCancel s frm id = .ok s') :
    s'.sessCount = s.sessCount := by
  unfold subCancel at h
  simp only [bind_eq_ok, require_eq_ok, orReject_eq_ok] at h
  obtain ⟨sub, _, _, _, _, _, s1, h1, h2⟩ := h
  rw [sessCount_of_sview (detachPayout_sview h2)]
  have := subscriptionInactivePendingHook_sessCount h1
  exact this

theorem handle_sessCount {s s' : State} {m : Msg} (h : m.handle s = .ok s') : s.sessCount.getD 0 ≤ s'.sessCount.getD 0 := by
  cases m <;> simp only [Msg.handle] at h
  case provRegister => rw [sessCount_of_sview (provRegister_sview h)]
  case provUpdate => rw [sessCount_of_sview (provUpdate_sview h)]
  case nodeRegister => rw [sessCount_of_sview (nodeRegister_sview h)]
  case nodeUpdate => rw [sessCount_of_sview (nodeUpdate_sview h)]
  case nodeStatus => rw [sessCount_of_sview (nodeStatus_sview h)]
  case nodeSubscribe => rw [sessCount_of_sview (nodeSubscribe_sview h)]
  case planCreate => rw [sessCount_of_sview (planCreate_sview h)]
  case planStatus => rw [sessCount_of_sview (planStatus_sview h)]
  case planLink => rw [sessCount_of_sview (planLink_sview h)]
  case planUnlink => rw [sessCount_of_sview (planUnlink_sview h)]
  case planSubscribe => rw [sessCount_of_sview (planSubscribe_sview h)]
  case subCancel => rw [subCancel_sessCount h]
  case subAllocate => rw [sessCount_of_sview (subAllocate_sview h)]
  case sessStart =>
    unfold sessStart at h
    simp only [bind_eq_ok, pure_eq_ok, require_eq_ok, orReject_eq_ok] at h
    obtain ⟨sub, _, _, _, n, _, _, _, _, _, _, _, latest, _, _, _, rfl⟩ := h
    show s.sessCount.getD 0 ≤ (some (s.sessCount.getD 0 + 1)).getD 0
    simp
  case sessUpdate =>
    unfold sessUpdate at h
    simp only [bind_eq_ok, pure_eq_ok, require_eq_ok, orReject_eq_ok] at h
    obtain ⟨x, _, _, _, _, _, _, _, rfl⟩ := h
    have : ∀ (σ : State) (e : Event) (t : Tbl Nat Session), (emit { σ with sessions := t } e).sessCount = σ.sessCount := fun _ _ _ => rfl
    rw [this]
    split <;> exact Nat.le_refl _
  case sessEnd =>
    unfold sessEnd at h
    simp only [bind_eq_ok, pure_eq_ok, require_eq_ok, orReject_eq_ok] at h
    obtain ⟨x, _, _, _, _, _, rfl⟩ := h
    exact Nat.le_refl _
  case swap => rw [sessCount_of_sview (swap_sview h)]

theorem sessionStep_sessCount {s s' : State} {k : Time × Nat} (h : sessionStep s k = .ok s') : s'.sessCount = s.sessCount := by
  unfold sessionStep at h
  simp only [bind_eq_ok, orPanic_eq_ok] at h
  obtain ⟨item, _, h⟩ := h
  split at h
  · rw [pure_eq_ok] at h; rw [← h]; rfl
  · simp only [bind_eq_ok, pure_eq_ok, panicIfErr_eq_ok] at h
    obtain ⟨bytes, _, s2, h2, rfl⟩ := h
    show s2.sessCount = _
    rw [sessCount_of_sview (sessionInactiveHook_sview h2)]

theorem subscriptionStep_sessCount {s s' : State} {d : Dur} {k : Time × Nat} (h : subscriptionStep d s k = .ok s') :
    s'.sessCount = s.sessCount := by
  unfold subscriptionStep at h
  simp only [bind_eq_ok, orPanic_eq_ok] at h
  obtain ⟨item, _, h⟩ := h
  split at h
  · simp only [bind_eq_ok, panicIfErr_eq_ok] at h
    obtain ⟨s2, h2, h3⟩ := h
    rw [sessCount_of_sview (detachPayout_sview h3)]
    have := subscriptionInactivePendingHook_sessCount h2
    exact this
  · simp only [bind_eq_ok] at h
    obtain ⟨s2, h2, h3⟩ := h
    rw [sessCount_of_sview (removePayout_sview h3), sessCount_of_sview (sview_removeSubRecords s2 item),
      sessCount_of_sview (refundSub_sview h2)]

theorem endBlock_sessCount {s s' : State} (h : endBlock s = .ok s') : s'.sessCount = s.sessCount := by
  obtain ⟨s1, s2, s3, h1, h2, h3, rfl⟩ := endBlock_ok h
  unfold sessionEndBlock at h2
  unfold subscriptionEndBlock at h3
  have e1 : s1.sessCount = s.sessCount := (sessCount_of_sview (nodeEndBlock_sview h1)).trans rfl
  have e2 : s2.sessCount = s1.sessCount :=
    foldlM_inv (fun σ => σ.sessCount = s1.sessCount) _ (fun a k b h1 hp => (sessionStep_sessCount h1).trans hp) _ _ _ h2 rfl
  have e3 : s3.sessCount = s2.sessCount :=
    foldlM_inv (fun σ => σ.sessCount = s2.sessCount) _ (fun a k b h1 hp => (subscriptionStep_sessCount h1).trans hp) _ _ _ h3 rfl
  exact e3.trans (e2.trans e1)

theorem step_sessCount_mono {s s' : State} {op : Op} (h : step s op = some s') : s.sessCount.getD 0 ≤ s'.sessCount.getD 0 := by
  cases op with
  | tx m =>
    simp only [step, Option.some.injEq] at h
    subst h
    unfold deliver
    simp only []
    cases hr : (do m.validateBasic; m.handle { s with events := [] } : Hub.SDK.M State) with
    | ok s' =>
      simp only [bind_eq_ok] at hr
      obtain ⟨_, _, hh⟩ := hr
      have := handle_sessCount hh
      exact this
    | error e => cases e <;> exact Nat.le_refl _
  | begin t =>
    simp only [step] at h
    split at h
    · rename_i s1 hb
      simp only [Option.some.injEq] at h; subst h
      rw [sessCount_of_sview (beginBlock_sview hb)]
    · contradiction
  | endB =>
    simp only [step] at h
    split at h
    · rename_i s1 hb
      simp only [Option.some.injEq] at h; subst h
      rw [endBlock_sessCount hb]
    · contradiction
  | gov c =>
    simp only [step, Option.some.injEq] at h
    subst h
    rw [sessCount_of_sview (gov_sview s c)]

/-- The settlement call sites: `sessionStep` invokes `SessionInactiveHook` exactly in its removal
branch — for a session that is not active — and then deletes the record. -/
theorem sessionStep_settles {s s' : State} {k : Time × Nat} (h : sessionStep s k = .ok s') :
    ∃ item, s.sessions.get k.2 = some item ∧
      ((item.status = .StatusActive ∧ s' = sessionToPending s item) ∨
       (item.status ≠ .StatusActive ∧ ∃ bytes s2,
          sessionInactiveHook { s with sessQ := s.sessQ.erase (item.inactiveAt, item.id) } item.id item.addr item.node bytes = .ok s2 ∧
          s' = removeSession s2 item ∧ s'.sessions.get item.id = none)) := by
  unfold sessionStep at h
  simp only [bind_eq_ok, orPanic_eq_ok] at h
  obtain ⟨item, hitem, h⟩ := h
  refine ⟨item, hitem, ?_⟩
  split at h
  · rename_i hst
    rw [pure_eq_ok] at h; exact Or.inl ⟨hst, h.symm⟩
  · rename_i hst
    simp only [bind_eq_ok, pure_eq_ok, panicIfErr_eq_ok] at h
    obtain ⟨bytes, _, s2, h2, rfl⟩ := h
    exact Or.inr ⟨hst, bytes, s2, h2, rfl, by simp [removeSession, emit]⟩

/-! ## Hourly payouts in `BeginBlock` -/

structure PayView where
  payouts : Tbl Nat Payout
  payQ : Tbl (Time × Nat) Unit
  time : Time

def payview (s : State) : PayView := ⟨s.payouts, s.payQ, s.time⟩

@[simp] theorem payview_emit (s : State) (e : Event) : payview (emit s e) = payview s := rfl
@[simp] theorem payview_setAllocation (s : State) (a : Alloc) : payview (setAllocation s a) = payview s := rfl
@[simp] theorem payview_setBalance (s : State) (a : Addr) (d : Denom) (v : Int) : payview (setBalance s a d v) = payview s := rfl
@[simp] theorem payview_setSupply (s : State) (d : Denom) (v : Int) : payview (setSupply s d v) = payview s := rfl
@[simp] theorem payview_setDeposit (s : State) (a : Addr) (c : Coins) : payview (setDeposit s a c) = payview s := rfl
@[simp] theorem payview_putDeposit (s : State) (a : Addr) (c : Coins) : payview (putDeposit s a c) = payview s := by
  unfold putDeposit; split <;> rfl
theorem foldlM_payview {α : Type} (f : State → α → M State) (hf : ∀ s a s', f s a = .ok s' → payview s' = payview s)
    (l : List α) (s s' : State) (h : l.foldlM f s = .ok s') : payview s' = payview s :=
  foldlM_inv (fun t => payview t = payview s) f (fun a b c h1 hp => (hf a b c h1).trans hp) l s s' h rfl

theorem setProvider_payview {s s' : State} {p : Provider} (h : setProvider s p = .ok s') : payview s' = payview s := by
  unfold setProvider at h
  split at h <;> simp only [pure_eq_ok, gopanic_ne_ok] at h <;> (try subst h) <;> rfl

theorem sendCoins_payview {s s' : State} {f t : Addr} {c : Coin} (h : sendCoins s f t c = .ok s') : payview s' = payview s := by
  have := (sendCoins_ok h).2.1
  rw [this]; rfl

theorem sendModuleToAccount_payview {s s' : State} {f t : Addr} {c : Coin} (h : sendModuleToAccount s f t c = .ok s') :
    payview s' = payview s := by
  unfold sendModuleToAccount at h
  split at h
  · simp only [reject_ne_ok] at h
  · exact sendCoins_payview h

theorem mintCoins_payview {s s' : State} {m : Addr} {c : Coin} (h : mintCoins s m c = .ok s') : payview s' = payview s := by
  unfold mintCoins at h
  simp only [bind_eq_ok, pure_eq_ok] at h
  obtain ⟨nb, _, ns, _, rfl⟩ := h
  rfl

theorem fundCommunityPool_payview {s s' : State} {f : Addr} {c : Coin} (h : fundCommunityPool s f c = .ok s') :
    payview s' = payview s := by
  unfold fundCommunityPool at h
  split at h
  · rw [pure_eq_ok] at h; rw [h]
  · exact sendCoins_payview h

theorem depositAdd_payview {s s' : State} {f t : Addr} {c : Coin} (h : depositAdd s f t c = .ok s') : payview s' = payview s := by
  unfold depositAdd at h
  simp only [bind_eq_ok, pure_eq_ok, require_eq_ok] at h
  obtain ⟨s1, hs1, _, _, rfl⟩ := h
  rw [payview_emit, payview_setDeposit, sendCoins_payview hs1]

theorem depositToAccount_payview {s s' : State} {f t : Addr} {c : Coin} (h : depositToAccount s f t c = .ok s') :
    payview s' = payview s := by
  unfold depositToAccount at h
  simp only [bind_eq_ok, pure_eq_ok, require_eq_ok, orReject_eq_ok] at h
  obtain ⟨cur, _, _, _, s1, hs1, rfl⟩ := h
  rw [payview_emit, payview_putDeposit, sendModuleToAccount_payview hs1]

theorem depositToModule_payview {s s' : State} {f m : Addr} {c : Coin} (h : depositToModule s f m c = .ok s') :
    payview s' = payview s := by
  unfold depositToModule at h
  simp only [bind_eq_ok, pure_eq_ok, require_eq_ok, orReject_eq_ok] at h
  obtain ⟨cur, _, _, _, s1, hs1, rfl⟩ := h
  rw [payview_emit, payview_putDeposit, sendCoins_payview hs1]

theorem sendCoin_payview {s s' : State} {f t : Addr} {c : Coin} (h : sendCoin s f t c = .ok s') : payview s' = payview s := by
  unfold sendCoin at h
  split at h
  · rw [pure_eq_ok] at h; rw [h]
  · exact sendCoins_payview h

theorem sendCoinFromAccountToModule_payview {s s' : State} {f m : Addr} {c : Coin}
    (h : sendCoinFromAccountToModule s f m c = .ok s') : payview s' = payview s := by
  unfold sendCoinFromAccountToModule at h
  split at h
  · rw [pure_eq_ok] at h; rw [h]
  · exact sendCoins_payview h

theorem addDeposit_payview {s s' : State} {a : Addr} {c : Coin} (h : addDeposit s a c = .ok s') : payview s' = payview s := by
  unfold addDeposit at h
  split at h
  · rw [pure_eq_ok] at h; rw [h]
  · exact depositAdd_payview h

theorem subtractDeposit_payview {s s' : State} {a : Addr} {c : Coin} (h : subtractDeposit s a c = .ok s') :
    payview s' = payview s := by
  unfold subtractDeposit at h
  split at h
  · rw [pure_eq_ok] at h; rw [h]
  · exact depositToAccount_payview h

theorem sendCoinFromDepositToAccount_payview {s s' : State} {f t : Addr} {c : Coin}
    (h : sendCoinFromDepositToAccount s f t c = .ok s') : payview s' = payview s := by
  unfold sendCoinFromDepositToAccount at h
  split at h
  · rw [pure_eq_ok] at h; rw [h]
  · exact depositToAccount_payview h

theorem sendCoinFromDepositToModule_payview {s s' : State} {f m : Addr} {c : Coin}
    (h : sendCoinFromDepositToModule s f m c = .ok s') : payview s' = payview s := by
  unfold sendCoinFromDepositToModule at h
  split at h
  · rw [pure_eq_ok] at h; rw [h]
  · exact depositToModule_payview h

/-- A state-to-state step that only touches money tables (`MoneyFrame`) leaves the session tables alone. -/
theorem MoneyFrame.payview {s s' : State} (h : MoneyFrame s s') : payview s' = payview s := by
  unfold MoneyFrame at h; rw [h]; rfl

theorem payview_mintBeginBlock_go (l : List Inflation) (s : State) : payview (mintBeginBlock.go s l) = payview s := by
  induction l generalizing s with
  | nil => rfl
  | cons item rest ih =>
    unfold mintBeginBlock.go
    split
    · rfl
    · rw [ih]; rfl

theorem payview_mintBeginBlock (s : State) : payview (mintBeginBlock s) = payview s := payview_mintBeginBlock_go _ s

theorem payview_distrSweep (s : State) : payview (distrSweep s) = payview s := by
  unfold distrSweep
  exact foldl_inv (fun t => payview t = payview s) sweepDenom (fun t d h => (rfl : payview (sweepDenom t d) = payview t).trans h) _ s rfl


/-- One payout step: the payout stored under the key's id is advanced by one hour. -/
theorem payoutStep_payouts {s s' : State} {k : Time × Nat} (h : payoutStep s k = .ok s') :
    ∃ item, s.payouts.get k.2 = some item ∧ s'.payouts = s.payouts.set (payoutAdvance item).id (payoutAdvance item) := by
  unfold payoutStep at h
  simp only [bind_eq_ok, pure_eq_ok, requireP_eq_ok, orPanic_eq_ok] at h
  obtain ⟨item, hitem, reward, _, s2, h2, payAmt, _, _, _, s3, h3, rfl⟩ := h
  refine ⟨item, hitem, ?_⟩
  have e : s3.payouts = s.payouts :=
    congrArg PayView.payouts ((sendCoinFromDepositToAccount_payview h3).trans ((sendCoinFromDepositToModule_payview h2).trans rfl))
  rw [← e]
  split <;> rfl

theorem payoutAdvance_id' (p : Payout) : (payoutAdvance p).id = p.id := by
  unfold payoutAdvance; simp only []; split <;> rfl

/-- What one hourly payment does to the schedule: one hour fewer; next due exactly one hour later,
or cleared when no hour is left. -/
theorem payoutAdvance_spec (p : Payout) :
    (payoutAdvance p).hours = p.hours - 1 ∧
    ((payoutAdvance p).nextAt = p.nextAt + hour ∨ ((payoutAdvance p).hours = 0 ∧ (payoutAdvance p).nextAt = zeroTime)) := by
  unfold payoutAdvance
  simp only []
  split
  · rename_i h0; exact ⟨rfl, Or.inr ⟨h0, rfl⟩⟩
  · exact ⟨rfl, Or.inl rfl⟩

/-- The payout pass over distinct payout ids (records stored under their own id), in closed form:
each listed payout is advanced exactly once, all others are untouched. -/
theorem payoutFold_payouts (l : List (Time × Nat)) (s s' : State)
    (h : l.foldlM (fun s k => panicIfErr (payoutStep s k)) s = .ok s')
    (hk : ∀ i p, s.payouts.get i = some p → p.id = i) (hn : (l.map (·.2)).Nodup) :
    ∀ i, s'.payouts.get i = if i ∈ l.map (·.2) then (s.payouts.get i).map payoutAdvance else s.payouts.get i := by
  induction l generalizing s with
  | nil => simp only [List.foldlM, pure_eq_ok] at h; rw [← h]; intro i; simp
  | cons a rest ih =>
    simp only [List.foldlM, bind_eq_ok, panicIfErr_eq_ok] at h
    obtain ⟨s1, h1, h2⟩ := h
    obtain ⟨item, hitem, e⟩ := payoutStep_payouts h1
    have hid : item.id = a.2 := hk a.2 item hitem
    rw [payoutAdvance_id', hid] at e
    simp only [List.map_cons, List.nodup_cons] at hn
    have hk1 : ∀ i p, s1.payouts.get i = some p → p.id = i := by
      intro i p hp
      rw [e, Tbl.get_set] at hp
      split_ifs at hp with hc
      · simp only [Option.some.injEq] at hp; rw [← hp, payoutAdvance_id', hid, hc]
      · exact hk i p hp
    intro i
    rw [ih s1 h2 hk1 hn.2, e]
    simp only [List.map_cons, List.mem_cons, Tbl.get_set]
    by_cases hc : i = a.2
    · subst hc; simp [hn.1, hitem]
    · have hc' : ¬ a.2 = i := fun e => hc e.symm
      by_cases hm : i ∈ List.map (fun x => x.2) rest <;> simp [hc, hc', hm]

/-- The payout schedule is accurate: one queue entry per scheduled payout, at its `nextAt`, and
payouts are stored under their own id (`SubIdx.payQ`, `SubIdx.nodup`, `CountInv.payouts`). -/
structure PayQOK (s : State) : Prop where
  nodup : Tbl.Nodup s.payQ
  q : ∀ t i, s.payQ.has (t, i) = true → ∃ p, s.payouts.get i = some p ∧ p.nextAt = t
  keyed : ∀ i p, s.payouts.get i = some p → p.id = i

theorem PayQOK.of {s : State} (hc : CountInv s) (hi : SubIdx s) : PayQOK s :=
  ⟨hi.nodup.2.2.2.2.2.2.2.1, fun t i h => by
      obtain ⟨p, _, hp, ht, _⟩ := (hi.payQ t i).mp h
      exact ⟨p, hp, ht⟩,
    fun i p hp => (hc.payouts i p hp).1⟩

/-- `BeginBlock` on the payout records: the payouts that are scheduled at or before the new block
time are advanced by exactly one hour, each exactly once; all others are untouched. -/
theorem beginBlock_payouts {s s' : State} {t : Time} (h : beginBlock s t = .ok s') (hp : PayQOK s) :
    ∃ ids : List Nat, ids.Nodup ∧
      (∀ i, i ∈ ids ↔ ∃ p, s.payouts.get i = some p ∧ s.payQ.has (p.nextAt, i) = true ∧ p.nextAt ≤ t) ∧
      (∀ i, s'.payouts.get i = if i ∈ ids then (s.payouts.get i).map payoutAdvance else s.payouts.get i) := by
  unfold beginBlock haltOf at h
  split at h <;> try contradiction
  rename_i s'' hs
  simp only [Except.ok.injEq] at h
  subst h
  unfold subscriptionBeginBlock at hs
  have e0 : payview (distrSweep (mintBeginBlock { s with time := t, height := s.height + 1, events := [] })) =
      ⟨s.payouts, s.payQ, t⟩ := by
    rw [payview_distrSweep, payview_mintBeginBlock]; rfl
  have ep : (distrSweep (mintBeginBlock { s with time := t, height := s.height + 1, events := [] })).payouts = s.payouts :=
    congrArg PayView.payouts e0
  have eq : (distrSweep (mintBeginBlock { s with time := t, height := s.height + 1, events := [] })).payQ = s.payQ :=
    congrArg PayView.payQ e0
  have et : (distrSweep (mintBeginBlock { s with time := t, height := s.height + 1, events := [] })).time = t :=
    congrArg PayView.time e0
  rw [eq, et] at hs
  have hn : ((dueIds Hub.Generated.Keys.subscription.PayoutForNextAtKey s.payQ t).map (·.2)).Nodup := by
    refine nodup_map_snd (dueIds_nodup' _ _ hp.nodup) ?_
    intro k hk k' hk' e
    obtain ⟨p, hpg, hpt⟩ := hp.q k.1 k.2 (dueIds_mem_iff.mp hk).1
    obtain ⟨p', hpg', hpt'⟩ := hp.q k'.1 k'.2 (dueIds_mem_iff.mp hk').1
    rw [e, hpg'] at hpg
    simp only [Option.some.injEq] at hpg
    rw [← hpt, ← hpt', hpg]
  refine ⟨_, hn, ?_, ?_⟩
  · intro i
    simp only [List.mem_map, dueIds_mem_iff]
    constructor
    · rintro ⟨⟨t', j⟩, ⟨hh, ht⟩, rfl⟩
      obtain ⟨p, hpg, hpt⟩ := hp.q t' j hh
      exact ⟨p, hpg, by rw [hpt]; exact hh, by rw [hpt]; exact ht⟩
    · rintro ⟨p, _, hh, ht⟩
      exact ⟨(p.nextAt, i), ⟨hh, ht⟩, rfl⟩
  · have := payoutFold_payouts _ _ _ hs (by rw [ep]; exact hp.keyed) hn
    intro i
    rw [this i, ep]

end Hub.Model
