import Hub.Lemmas.IdxTbl
/-
`CountInv` (Hub/Model/Inv.lean) is preserved by every message handler, every hook piece, `deliver`,
`beginBlock`, `endBlock`, `gov`, hence by every `step`; it holds in every genesis state; hence in
every state of every history.

Method: `CountInv s` is restated as `CountOK (cview s)`, a conjunction of `Tbl.All P t` facts over the
22 tables and 3 counters the invariant reads (`countInv_iff`).  A step that leaves the view alone
preserves the invariant (`CountInv.of_view`); a step that sets/erases table entries is handled with
`Tbl.All.set` / `Tbl.All.erase`.
-/
namespace Hub.Model
open Hub.SDK
open Hub.Generated (Status AmountForBytes GetProportionOfCoin Gigabyte)

/-! ### the view -/

/-- The part of the state `CountInv` reads. -/
structure CountView where
  planActive : Tbl Nat Plan
  planInactive : Tbl Nat Plan
  planCount : Option Nat
  subs : Tbl Nat Sub
  subCount : Option Nat
  allocs : Tbl (Nat × Addr) Alloc
  payouts : Tbl Nat Payout
  sessions : Tbl Nat Session
  sessCount : Option Nat
  planForProv : Tbl (Addr × Nat) Unit
  nodeForPlan : Tbl (Nat × Addr) Unit
  subQ : Tbl (Time × Nat) Unit
  subForAcc : Tbl (Addr × Nat) Unit
  subForNode : Tbl (Addr × Nat) Unit
  subForPlan : Tbl (Nat × Nat) Unit
  payQ : Tbl (Time × Nat) Unit
  payForAcc : Tbl (Addr × Nat) Unit
  payForNode : Tbl (Addr × Nat) Unit
  payForAccNode : Tbl (Addr × Addr × Nat) Unit
  sessQ : Tbl (Time × Nat) Unit
  sessForAcc : Tbl (Addr × Nat) Unit
  sessForNode : Tbl (Addr × Nat) Unit
  sessForSub : Tbl (Nat × Nat) Unit
  sessForAlloc : Tbl (Nat × Addr × Nat) Unit

def cview (s : State) : CountView :=
  { planActive := s.planActive, planInactive := s.planInactive, planCount := s.planCount,
    subs := s.subs, subCount := s.subCount, allocs := s.allocs, payouts := s.payouts,
    sessions := s.sessions, sessCount := s.sessCount, planForProv := s.planForProv,
    nodeForPlan := s.nodeForPlan, subQ := s.subQ, subForAcc := s.subForAcc, subForNode := s.subForNode,
    subForPlan := s.subForPlan, payQ := s.payQ, payForAcc := s.payForAcc, payForNode := s.payForNode,
    payForAccNode := s.payForAccNode, sessQ := s.sessQ, sessForAcc := s.sessForAcc,
    sessForNode := s.sessForNode, sessForSub := s.sessForSub, sessForAlloc := s.sessForAlloc }

def PlanP (c : Nat) (i : Nat) (p : Plan) : Prop := p.id = i ∧ 1 ≤ i ∧ i ≤ c
def SubP (c : Nat) (i : Nat) (x : Sub) : Prop := x.id = i ∧ 1 ≤ i ∧ i ≤ c
def AllocP (c : Nat) (k : Nat × Addr) (al : Alloc) : Prop := al.id = k.1 ∧ al.addr = k.2 ∧ 1 ≤ k.1 ∧ k.1 ≤ c
def PayP (c : Nat) (i : Nat) (p : Payout) : Prop := p.id = i ∧ 1 ≤ i ∧ i ≤ c
def SessP (cx cs : Nat) (i : Nat) (x : Session) : Prop := x.id = i ∧ 1 ≤ i ∧ i ≤ cx ∧ 1 ≤ x.sub ∧ x.sub ≤ cs
/-- bound on the identifier component of an index key -/
def Ix2 {β : Type} (c : Nat) (k : β × Nat) (_ : Unit) : Prop := k.2 ≤ c
def Ix1 {β : Type} (c : Nat) (k : Nat × β) (_ : Unit) : Prop := k.1 ≤ c
def Ix3 {β γ : Type} (c : Nat) (k : β × γ × Nat) (_ : Unit) : Prop := k.2.2 ≤ c

/-- `CountInv`, table by table. -/
structure CountOK (v : CountView) : Prop where
  planActive : Tbl.All (PlanP (v.planCount.getD 0)) v.planActive
  planInactive : Tbl.All (PlanP (v.planCount.getD 0)) v.planInactive
  subs : Tbl.All (SubP (v.subCount.getD 0)) v.subs
  allocs : Tbl.All (AllocP (v.subCount.getD 0)) v.allocs
  payouts : Tbl.All (PayP (v.subCount.getD 0)) v.payouts
  sessions : Tbl.All (SessP (v.sessCount.getD 0) (v.subCount.getD 0)) v.sessions
  planForProv : Tbl.All (Ix2 (v.planCount.getD 0)) v.planForProv
  nodeForPlan : Tbl.All (Ix1 (v.planCount.getD 0)) v.nodeForPlan
  subQ : Tbl.All (Ix2 (v.subCount.getD 0)) v.subQ
  subForAcc : Tbl.All (Ix2 (v.subCount.getD 0)) v.subForAcc
  subForNode : Tbl.All (Ix2 (v.subCount.getD 0)) v.subForNode
  subForPlan : Tbl.All (Ix2 (v.subCount.getD 0)) v.subForPlan
  payQ : Tbl.All (Ix2 (v.subCount.getD 0)) v.payQ
  payForAcc : Tbl.All (Ix2 (v.subCount.getD 0)) v.payForAcc
  payForNode : Tbl.All (Ix2 (v.subCount.getD 0)) v.payForNode
  payForAccNode : Tbl.All (Ix3 (v.subCount.getD 0)) v.payForAccNode
  sessQ : Tbl.All (Ix2 (v.sessCount.getD 0)) v.sessQ
  sessForAcc : Tbl.All (Ix2 (v.sessCount.getD 0)) v.sessForAcc
  sessForNode : Tbl.All (Ix2 (v.sessCount.getD 0)) v.sessForNode
  sessForSub : Tbl.All (Ix2 (v.sessCount.getD 0)) v.sessForSub
  sessForAlloc : Tbl.All (Ix3 (v.sessCount.getD 0)) v.sessForAlloc

theorem ix2_of_has {β : Type} [DecidableEq β] {c : Nat} {t : Tbl (β × Nat) Unit}
    (h : ∀ a i, t.has (a, i) = true → i ≤ c) : Tbl.All (Ix2 c) t :=
  fun k _ hv => h k.1 k.2 (Tbl.has_of_get_A hv)

theorem ix1_of_has {β : Type} [DecidableEq β] {c : Nat} {t : Tbl (Nat × β) Unit}
    (h : ∀ i a, t.has (i, a) = true → i ≤ c) : Tbl.All (Ix1 c) t :=
  fun k _ hv => h k.1 k.2 (Tbl.has_of_get_A hv)

theorem ix3_of_has {β γ : Type} [DecidableEq β] [DecidableEq γ] {c : Nat} {t : Tbl (β × γ × Nat) Unit}
    (h : ∀ a b i, t.has (a, b, i) = true → i ≤ c) : Tbl.All (Ix3 c) t :=
  fun k _ hv => h k.1 k.2.1 k.2.2 (Tbl.has_of_get_A hv)

theorem has_of_ix2 {β : Type} [DecidableEq β] {c : Nat} {t : Tbl (β × Nat) Unit}
    (h : Tbl.All (Ix2 c) t) : ∀ a i, t.has (a, i) = true → i ≤ c := by
  intro a i hk
  obtain ⟨v, hv⟩ := (Tbl.has_iff t (a, i)).mp hk
  exact h (a, i) v hv

theorem has_of_ix1 {β : Type} [DecidableEq β] {c : Nat} {t : Tbl (Nat × β) Unit}
    (h : Tbl.All (Ix1 c) t) : ∀ i a, t.has (i, a) = true → i ≤ c := by
  intro i a hk
  obtain ⟨v, hv⟩ := (Tbl.has_iff t (i, a)).mp hk
  exact h (i, a) v hv

theorem has_of_ix3 {β γ : Type} [DecidableEq β] [DecidableEq γ] {c : Nat} {t : Tbl (β × γ × Nat) Unit}
    (h : Tbl.All (Ix3 c) t) : ∀ a b i, t.has (a, b, i) = true → i ≤ c := by
  intro a b i hk
  obtain ⟨v, hv⟩ := (Tbl.has_iff t (a, b, i)).mp hk
  exact h (a, b, i) v hv

theorem countInv_iff (s : State) : CountInv s ↔ CountOK (cview s) := by
  constructor
  · intro h
    exact
      { planActive := fun i p hp => h.plans i p (Or.inl hp)
        planInactive := fun i p hp => h.plans i p (Or.inr hp)
        subs := h.subs
        allocs := fun k al hk => h.allocs k.1 k.2 al hk
        payouts := h.payouts
        sessions := h.sessions
        planForProv := ix2_of_has h.planIdx.1
        nodeForPlan := ix1_of_has h.planIdx.2
        subQ := ix2_of_has h.subIdx.1
        subForAcc := ix2_of_has h.subIdx.2.1
        subForNode := ix2_of_has h.subIdx.2.2.1
        subForPlan := ix2_of_has h.subIdx.2.2.2.1
        payQ := ix2_of_has h.subIdx.2.2.2.2.1
        payForAcc := ix2_of_has h.subIdx.2.2.2.2.2.1
        payForNode := ix2_of_has h.subIdx.2.2.2.2.2.2.1
        payForAccNode := ix3_of_has h.subIdx.2.2.2.2.2.2.2
        sessQ := ix2_of_has h.sessIdx.1
        sessForAcc := ix2_of_has h.sessIdx.2.1
        sessForNode := ix2_of_has h.sessIdx.2.2.1
        sessForSub := ix2_of_has h.sessIdx.2.2.2.1
        sessForAlloc := ix3_of_has h.sessIdx.2.2.2.2 }
  · intro h
    exact
      { plans := fun i p hp => hp.elim (h.planActive i p) (h.planInactive i p)
        subs := h.subs
        allocs := fun i a al hk => h.allocs (i, a) al hk
        payouts := h.payouts
        sessions := h.sessions
        planIdx := ⟨has_of_ix2 h.planForProv, has_of_ix1 h.nodeForPlan⟩
        subIdx := ⟨has_of_ix2 h.subQ, has_of_ix2 h.subForAcc, has_of_ix2 h.subForNode, has_of_ix2 h.subForPlan,
                   has_of_ix2 h.payQ, has_of_ix2 h.payForAcc, has_of_ix2 h.payForNode, has_of_ix3 h.payForAccNode⟩
        sessIdx := ⟨has_of_ix2 h.sessQ, has_of_ix2 h.sessForAcc, has_of_ix2 h.sessForNode, has_of_ix2 h.sessForSub,
                    has_of_ix3 h.sessForAlloc⟩ }

theorem CountInv.of_view {s s' : State} (h : cview s' = cview s) (hi : CountInv s) : CountInv s' := by
  rw [countInv_iff] at *; rw [h]; exact hi

theorem cview_of_mframe {s s' : State} (h : MFrame s s') : cview s' = cview s := by
  unfold MFrame at h; rw [h]; rfl

theorem CountInv.of_mframe {s s' : State} (h : MFrame s s') (hi : CountInv s) : CountInv s' :=
  CountInv.of_view (cview_of_mframe h) hi

@[simp] theorem cview_emit (s : State) (e : Event) : cview (emit s e) = cview s := rfl

theorem emit_count {s : State} (e : Event) (hi : CountInv s) : CountInv (emit s e) := CountInv.of_view (s := s) rfl hi

/-- Close every remaining `CountOK` field goal that is literally an old fact. -/
macro "count_rest " hi:ident : tactic =>
  `(tactic| all_goals first
      | exact ($hi).planActive | exact ($hi).planInactive | exact ($hi).subs | exact ($hi).allocs
      | exact ($hi).payouts | exact ($hi).sessions | exact ($hi).planForProv | exact ($hi).nodeForPlan
      | exact ($hi).subQ | exact ($hi).subForAcc | exact ($hi).subForNode | exact ($hi).subForPlan
      | exact ($hi).payQ | exact ($hi).payForAcc | exact ($hi).payForNode | exact ($hi).payForAccNode
      | exact ($hi).sessQ | exact ($hi).sessForAcc | exact ($hi).sessForNode | exact ($hi).sessForSub
      | exact ($hi).sessForAlloc)

/-- Peel `set` / `erase` / `if` off an `All` goal; leaves the side goals `P k v` of the `set`s. -/
macro "all_peel" : tactic =>
  `(tactic| repeat' (first
      | assumption
      | apply Tbl.All.erase
      | apply Tbl.All.ite
      | apply Tbl.All.set))

/-! ### handlers that leave the view alone -/

theorem setProvider_cview {s s' : State} {p : Provider} (h : setProvider s p = .ok s') : cview s' = cview s := by
  unfold setProvider at h
  split at h <;> simp only [pure_eq_ok, gopanic_ne_ok] at h <;> (try subst h) <;> rfl

theorem setNode_cview {s s' : State} {n : Node} (h : setNode s n = .ok s') : cview s' = cview s := by
  unfold setNode at h
  split at h <;> simp only [pure_eq_ok, gopanic_ne_ok] at h <;> (try subst h) <;> rfl

theorem provRegister_cview {s s' : State} {frm : Addr} {n i w d : Bytes} (h : provRegister s frm n i w d = .ok s') :
    cview s' = cview s := by
  unfold provRegister at h
  simp only [bind_eq_ok, pure_eq_ok, require_eq_ok] at h
  obtain ⟨_, _, s1, h1, s2, h2, rfl⟩ := h
  rw [cview_emit, setProvider_cview h2, cview_of_mframe (fundCommunityPool_mframe h1)]

theorem provUpdate_cview {s s' : State} {frm : Addr} {n i w d : Bytes} {st : Status} (h : provUpdate s frm n i w d st = .ok s') :
    cview s' = cview s := by
  unfold provUpdate at h
  simp only [bind_eq_ok, pure_eq_ok, orReject_eq_ok] at h
  obtain ⟨p, _, s3, h3, rfl⟩ := h
  rw [cview_emit, setProvider_cview h3]
  split <;> split <;> rfl

theorem nodeRegister_cview {s s' : State} {frm : Addr} {gb hr : Coins} {url : Bytes} (h : nodeRegister s frm gb hr url = .ok s') :
    cview s' = cview s := by
  unfold nodeRegister at h
  simp only [bind_eq_ok, pure_eq_ok, require_eq_ok] at h
  obtain ⟨_, _, _, _, _, _, s1, h1, s2, h2, rfl⟩ := h
  rw [cview_emit, setNode_cview h2, cview_of_mframe (fundCommunityPool_mframe h1)]

theorem nodeUpdate_cview {s s' : State} {frm : Addr} {gb hr : Option Coins} {url : Bytes} (h : nodeUpdate s frm gb hr url = .ok s') :
    cview s' = cview s := by
  unfold nodeUpdate at h
  simp only [bind_eq_ok, pure_eq_ok, require_eq_ok, orReject_eq_ok] at h
  obtain ⟨_, _, _, _, n, _, s1, h1, rfl⟩ := h
  rw [cview_emit, setNode_cview h1]

theorem nodeStatus_cview {s s' : State} {frm : Addr} {st : Status} (h : nodeStatus s frm st = .ok s') :
    cview s' = cview s := by
  unfold nodeStatus at h
  simp only [bind_eq_ok, pure_eq_ok, orReject_eq_ok] at h
  obtain ⟨n, _, s5, h5, rfl⟩ := h
  rw [cview_emit, setNode_cview h5]
  split <;> split <;> split <;> split <;> rfl

theorem swap_cview {s s' : State} {frm recv : Addr} {hash : Bytes} {amt : Int}
    (h : swap s frm hash recv amt = .ok s') : cview s' = cview s := by
  unfold swap at h
  simp only [bind_eq_ok, pure_eq_ok, require_eq_ok] at h
  obtain ⟨_, _, _, _, _, _, q, _, coin, _, s1, h1, s2, h2, rfl⟩ := h
  have e2 : cview s2 = cview s := cview_of_mframe ((mintCoins_mframe h1).trans (sendModuleToAccount_mframe h2))
  rw [← e2]; rfl

theorem provRegister_count {s s' : State} {frm : Addr} {n i w d : Bytes} (h : provRegister s frm n i w d = .ok s')
    (hi : CountInv s) : CountInv s' := CountInv.of_view (provRegister_cview h) hi

theorem provUpdate_count {s s' : State} {frm : Addr} {n i w d : Bytes} {st : Status} (h : provUpdate s frm n i w d st = .ok s')
    (hi : CountInv s) : CountInv s' := CountInv.of_view (provUpdate_cview h) hi

theorem nodeRegister_count {s s' : State} {frm : Addr} {gb hr : Coins} {url : Bytes} (h : nodeRegister s frm gb hr url = .ok s')
    (hi : CountInv s) : CountInv s' := CountInv.of_view (nodeRegister_cview h) hi

theorem nodeUpdate_count {s s' : State} {frm : Addr} {gb hr : Option Coins} {url : Bytes} (h : nodeUpdate s frm gb hr url = .ok s')
    (hi : CountInv s) : CountInv s' := CountInv.of_view (nodeUpdate_cview h) hi

theorem nodeStatus_count {s s' : State} {frm : Addr} {st : Status} (h : nodeStatus s frm st = .ok s')
    (hi : CountInv s) : CountInv s' := CountInv.of_view (nodeStatus_cview h) hi

theorem swap_count {s s' : State} {frm recv : Addr} {hash : Bytes} {amt : Int}
    (h : swap s frm hash recv amt = .ok s') (hi : CountInv s) : CountInv s' := CountInv.of_view (swap_cview h) hi

/-! ### building blocks -/

theorem PlanP.mono {c c' i : Nat} {p : Plan} (hc : c ≤ c') (h : PlanP c i p) : PlanP c' i p := ⟨h.1, h.2.1, Nat.le_trans h.2.2 hc⟩
theorem SubP.mono {c c' i : Nat} {p : Sub} (hc : c ≤ c') (h : SubP c i p) : SubP c' i p := ⟨h.1, h.2.1, Nat.le_trans h.2.2 hc⟩
theorem PayP.mono {c c' i : Nat} {p : Payout} (hc : c ≤ c') (h : PayP c i p) : PayP c' i p := ⟨h.1, h.2.1, Nat.le_trans h.2.2 hc⟩
theorem AllocP.mono {c c' : Nat} {k : Nat × Addr} {p : Alloc} (hc : c ≤ c') (h : AllocP c k p) : AllocP c' k p :=
  ⟨h.1, h.2.1, h.2.2.1, Nat.le_trans h.2.2.2 hc⟩
theorem SessP.mono {cx cx' cs cs' i : Nat} {x : Session} (hx : cx ≤ cx') (hs : cs ≤ cs') (h : SessP cx cs i x) : SessP cx' cs' i x :=
  ⟨h.1, h.2.1, Nat.le_trans h.2.2.1 hx, h.2.2.2.1, Nat.le_trans h.2.2.2.2 hs⟩
theorem Ix2.mono {β : Type} {c c' : Nat} {k : β × Nat} {u : Unit} (hc : c ≤ c') (h : Ix2 c k u) : Ix2 c' k u := Nat.le_trans h hc
theorem Ix1.mono {β : Type} {c c' : Nat} {k : Nat × β} {u : Unit} (hc : c ≤ c') (h : Ix1 c k u) : Ix1 c' k u := Nat.le_trans h hc
theorem Ix3.mono {β γ : Type} {c c' : Nat} {k : β × γ × Nat} {u : Unit} (hc : c ≤ c') (h : Ix3 c k u) : Ix3 c' k u := Nat.le_trans h hc

theorem bumpPlan_count {s : State} {c : Nat} (hc : s.planCount.getD 0 ≤ c) (hi : CountInv s) :
    CountInv { s with planCount := some c } := by
  rw [countInv_iff] at hi ⊢
  constructor
  case planActive => exact hi.planActive.mono (fun _ _ h => h.mono hc)
  case planInactive => exact hi.planInactive.mono (fun _ _ h => h.mono hc)
  case planForProv => exact hi.planForProv.mono (fun _ _ h => h.mono hc)
  case nodeForPlan => exact hi.nodeForPlan.mono (fun _ _ h => h.mono hc)
  count_rest hi

theorem bumpSub_count {s : State} {c : Nat} (hc : s.subCount.getD 0 ≤ c) (hi : CountInv s) :
    CountInv { s with subCount := some c } := by
  rw [countInv_iff] at hi ⊢
  constructor
  case subs => exact hi.subs.mono (fun _ _ h => h.mono hc)
  case allocs => exact hi.allocs.mono (fun _ _ h => h.mono hc)
  case payouts => exact hi.payouts.mono (fun _ _ h => h.mono hc)
  case sessions => exact hi.sessions.mono (fun _ _ h => h.mono (Nat.le_refl _) hc)
  case subQ => exact hi.subQ.mono (fun _ _ h => h.mono hc)
  case subForAcc => exact hi.subForAcc.mono (fun _ _ h => h.mono hc)
  case subForNode => exact hi.subForNode.mono (fun _ _ h => h.mono hc)
  case subForPlan => exact hi.subForPlan.mono (fun _ _ h => h.mono hc)
  case payQ => exact hi.payQ.mono (fun _ _ h => h.mono hc)
  case payForAcc => exact hi.payForAcc.mono (fun _ _ h => h.mono hc)
  case payForNode => exact hi.payForNode.mono (fun _ _ h => h.mono hc)
  case payForAccNode => exact hi.payForAccNode.mono (fun _ _ h => h.mono hc)
  count_rest hi

theorem bumpSess_count {s : State} {c : Nat} (hc : s.sessCount.getD 0 ≤ c) (hi : CountInv s) :
    CountInv { s with sessCount := some c } := by
  rw [countInv_iff] at hi ⊢
  constructor
  case sessions => exact hi.sessions.mono (fun _ _ h => h.mono hc (Nat.le_refl _))
  case sessQ => exact hi.sessQ.mono (fun _ _ h => h.mono hc)
  case sessForAcc => exact hi.sessForAcc.mono (fun _ _ h => h.mono hc)
  case sessForNode => exact hi.sessForNode.mono (fun _ _ h => h.mono hc)
  case sessForSub => exact hi.sessForSub.mono (fun _ _ h => h.mono hc)
  case sessForAlloc => exact hi.sessForAlloc.mono (fun _ _ h => h.mono hc)
  count_rest hi

theorem insertSub_count {s : State} {sub : Sub} (hid : s.subCount.getD 0 + 1 = sub.id) (hi : CountInv s) :
    CountInv (insertSub s sub) := by
  have hb : CountInv { s with subCount := some sub.id } := bumpSub_count (by omega) hi
  rw [countInv_iff] at hb ⊢
  unfold insertSub
  cases sub.kind with
  | node n g h d =>
    constructor
    case subs => exact hb.subs.set ⟨rfl, by omega, Nat.le_refl _⟩
    case subQ => exact hb.subQ.set (Nat.le_refl _)
    case subForAcc => exact hb.subForAcc.set (Nat.le_refl _)
    case subForNode => exact hb.subForNode.set (Nat.le_refl _)
    count_rest hb
  | plan pid dn =>
    constructor
    case subs => exact hb.subs.set ⟨rfl, by omega, Nat.le_refl _⟩
    case subQ => exact hb.subQ.set (Nat.le_refl _)
    case subForAcc => exact hb.subForAcc.set (Nat.le_refl _)
    case subForPlan => exact hb.subForPlan.set (Nat.le_refl _)
    count_rest hb

theorem insertSub_subCount (s : State) (sub : Sub) : (insertSub s sub).subCount = some sub.id := by
  unfold insertSub; cases sub.kind <;> rfl

theorem setAllocation_count {s : State} {a : Alloc} (h1 : 1 ≤ a.id) (h2 : a.id ≤ s.subCount.getD 0) (hi : CountInv s) :
    CountInv (setAllocation s a) := by
  rw [countInv_iff] at hi ⊢
  constructor
  case allocs => exact hi.allocs.set ⟨rfl, rfl, h1, h2⟩
  count_rest hi

theorem insertPayout_count {s : State} {p : Payout} (h1 : 1 ≤ p.id) (h2 : p.id ≤ s.subCount.getD 0) (hi : CountInv s) :
    CountInv (insertPayout s p) := by
  rw [countInv_iff] at hi ⊢
  constructor
  case payouts => exact hi.payouts.set ⟨rfl, h1, h2⟩
  case payQ => exact hi.payQ.set h2
  case payForAcc => exact hi.payForAcc.set h2
  case payForNode => exact hi.payForNode.set h2
  case payForAccNode => exact hi.payForAccNode.set h2
  count_rest hi

theorem insertSession_count {s : State} {x : Session} (hid : s.sessCount.getD 0 + 1 = x.id) (h1 : 1 ≤ x.sub)
    (h2 : x.sub ≤ s.subCount.getD 0) (hi : CountInv s) : CountInv (insertSession s x) := by
  have hb : CountInv { s with sessCount := some x.id } := bumpSess_count (by omega) hi
  rw [countInv_iff] at hb ⊢
  constructor
  case sessions => exact hb.sessions.set ⟨rfl, by omega, Nat.le_refl _, h1, h2⟩
  case sessQ => exact hb.sessQ.set (Nat.le_refl _)
  case sessForAcc => exact hb.sessForAcc.set (Nat.le_refl _)
  case sessForNode => exact hb.sessForNode.set (Nat.le_refl _)
  case sessForSub => exact hb.sessForSub.set (Nat.le_refl _)
  case sessForAlloc => exact hb.sessForAlloc.set (Nat.le_refl _)
  count_rest hb

/-- `sessionToPending` on a session record that satisfies the session bound. -/
theorem sessionToPending_count {s : State} {x : Session} (hx : SessP (s.sessCount.getD 0) (s.subCount.getD 0) x.id x)
    (hi : CountInv s) : CountInv (sessionToPending s x) := by
  rw [countInv_iff] at hi ⊢
  constructor
  case sessions => exact hi.sessions.set ⟨rfl, hx.2.1, hx.2.2.1, hx.2.2.2.1, hx.2.2.2.2⟩
  case sessQ => exact hi.sessQ.erase.set hx.2.2.1
  count_rest hi

theorem sessP_of_get {s : State} {i : Nat} {x : Session} (hi : CountInv s) (h : s.sessions.get i = some x) :
    SessP (s.sessCount.getD 0) (s.subCount.getD 0) x.id x := by
  have := hi.sessions i x h
  exact ⟨rfl, by omega, by omega, this.2.2.2.1, this.2.2.2.2⟩

theorem subscriptionInactivePendingHook_count {s s' : State} {id : Nat}
    (h : subscriptionInactivePendingHook s id = .ok s') (hi : CountInv s) : CountInv s' := by
  unfold subscriptionInactivePendingHook at h
  refine foldlM_inv CountInv _ ?_ _ s s' h hi
  intro s0 sid s1 h1 hp
  simp only [bind_eq_ok, pure_eq_ok, orPanic_eq_ok] at h1
  obtain ⟨x, hx, rfl⟩ := h1
  split
  · exact sessionToPending_count (sessP_of_get hp hx) hp
  · exact hp

theorem detachPayoutRec_count {s : State} {p : Payout} (hp : PayP (s.subCount.getD 0) p.id p) (hi : CountInv s) :
    CountInv (detachPayoutRec s p) := by
  rw [countInv_iff] at hi ⊢
  constructor
  case payouts => exact hi.payouts.set ⟨rfl, hp.2.1, hp.2.2⟩
  case payQ => exact hi.payQ.erase
  case payForAccNode => exact hi.payForAccNode.erase
  count_rest hi

theorem payP_of_get {s : State} {i : Nat} {p : Payout} (hi : CountInv s) (h : s.payouts.get i = some p) :
    PayP (s.subCount.getD 0) p.id p := by
  have := hi.payouts i p h
  exact ⟨rfl, by omega, by omega⟩

theorem detachPayout_count {s s' : State} {sub : Sub} {b : Bool} (h : detachPayout s sub b = .ok s') (hi : CountInv s) :
    CountInv s' := by
  unfold detachPayout at h
  split at h
  · simp only [bind_eq_ok, pure_eq_ok] at h
    obtain ⟨p, hp, rfl⟩ := h
    have hp' : s.payouts.get sub.id = some p := by
      cases b <;> simpa [orPanic_eq_ok, orReject_eq_ok] using hp
    exact detachPayoutRec_count (payP_of_get hi hp') hi
  · rw [pure_eq_ok] at h; rw [← h]; exact hi

theorem subToPending_count {s : State} {sub : Sub} {d : Dur} (hs : SubP (s.subCount.getD 0) sub.id sub) (hi : CountInv s) :
    CountInv (subToPending s sub d).1 := by
  rw [countInv_iff] at hi ⊢
  constructor
  case subs => exact hi.subs.set ⟨rfl, hs.2.1, hs.2.2⟩
  case subQ => exact hi.subQ.set hs.2.2
  count_rest hi

theorem subP_of_get {s : State} {i : Nat} {x : Sub} (hi : CountInv s) (h : s.subs.get i = some x) :
    SubP (s.subCount.getD 0) x.id x := by
  have := hi.subs i x h
  exact ⟨rfl, by omega, by omega⟩

/-! ### subscription creation -/

theorem subCount_of_mframe {s s' : State} (h : MFrame s s') : s'.subCount = s.subCount := by
  unfold MFrame at h; rw [h]

theorem createNodeSubGB_count {s : State} {acc node : Addr} {n : Node} {gb : Int} {denom : Denom} {r : State × Sub}
    (h : createNodeSubGB s acc node n gb denom = .ok r) (hi : CountInv s) : CountInv r.1 := by
  unfold createNodeSubGB at h
  simp only [bind_eq_ok, pure_eq_ok, orReject_eq_ok] at h
  obtain ⟨price, _, bytes, _, amt, _, dep, _, s1, h1, granted, _, rfl⟩ := h
  have f1 := addDeposit_mframe h1
  have i1 := CountInv.of_mframe f1 hi
  have e1 := subCount_of_mframe f1
  refine emit_count _ (setAllocation_count ?_ ?_ (insertSub_count ?_ i1))
  · simp only; omega
  · rw [insertSub_subCount]; simp
  · rw [e1]

theorem createNodeSubHr_count {s : State} {acc node : Addr} {n : Node} {hr : Int} {denom : Denom} {r : State × Sub}
    (h : createNodeSubHr s acc node n hr denom = .ok r) (hi : CountInv s) : CountInv r.1 := by
  unfold createNodeSubHr at h
  simp only [bind_eq_ok, pure_eq_ok, orReject_eq_ok] at h
  obtain ⟨price, _, amt, _, dep, _, s1, h1, pa, _, hourly, _, rfl⟩ := h
  have f1 := addDeposit_mframe h1
  have i1 := CountInv.of_mframe f1 hi
  have e1 := subCount_of_mframe f1
  refine insertPayout_count ?_ ?_ (insertSub_count ?_ i1)
  · simp only; omega
  · rw [insertSub_subCount]; simp
  · rw [e1]

theorem createSubscriptionForNode_count {s : State} {acc node : Addr} {gb hr : Int} {denom : Denom} {r : State × Sub}
    (h : createSubscriptionForNode s acc node gb hr denom = .ok r) (hi : CountInv s) : CountInv r.1 := by
  unfold createSubscriptionForNode at h
  simp only [bind_eq_ok, require_eq_ok, orReject_eq_ok] at h
  obtain ⟨n, _, _, _, hr'⟩ := h
  split at hr'
  · exact createNodeSubGB_count hr' hi
  · exact createNodeSubHr_count hr' hi

theorem nodeSubscribe_count {s s' : State} {frm node : Addr} {gb hr : Int} {denom : Denom}
    (h : nodeSubscribe s frm node gb hr denom = .ok s') (hi : CountInv s) : CountInv s' := by
  unfold nodeSubscribe at h
  simp only [bind_eq_ok, pure_eq_ok, require_eq_ok] at h
  obtain ⟨_, _, _, _, r, hr', rfl⟩ := h
  exact emit_count _ (createSubscriptionForNode_count hr' hi)

theorem createSubscriptionForPlan_count {s : State} {acc : Addr} {planId : Nat} {denom : Denom} {r : State × Sub}
    (h : createSubscriptionForPlan s acc planId denom = .ok r) (hi : CountInv s) : CountInv r.1 := by
  unfold createSubscriptionForPlan at h
  simp only [bind_eq_ok, pure_eq_ok, require_eq_ok, requireP_eq_ok, orReject_eq_ok] at h
  obtain ⟨plan, hplan, _, _, price, _, reward, _, s1, h1, payAmt, _, _, _, s2, h2, granted, _, rfl⟩ := h
  have f2 : MFrame s s2 := (sendCoinFromAccountToModule_mframe h1).trans (sendCoin_mframe h2)
  have i2 := CountInv.of_mframe f2 hi
  have e2 := subCount_of_mframe f2
  refine emit_count _ (setAllocation_count ?_ ?_ (insertSub_count ?_ (emit_count _ i2)))
  · simp only; omega
  · rw [insertSub_subCount]; simp
  · show s2.subCount.getD 0 + 1 = _
    rw [e2]

theorem planSubscribe_count {s s' : State} {frm : Addr} {id : Nat} {denom : Denom}
    (h : planSubscribe s frm id denom = .ok s') (hi : CountInv s) : CountInv s' := by
  unfold planSubscribe at h
  simp only [bind_eq_ok, pure_eq_ok] at h
  obtain ⟨r, hr', rfl⟩ := h
  exact emit_count _ (createSubscriptionForPlan_count hr' hi)

/-! ### plans -/

theorem planCreate_count {s s' : State} {frm : Addr} {dur : Dur} {gb : Int} {prices : Coins}
    (h : planCreate s frm dur gb prices = .ok s') (hi : CountInv s) : CountInv s' := by
  obtain ⟨_, rfl⟩ := planCreate_eff h
  refine emit_count _ ?_
  have hb : CountInv { s with planCount := some (s.planCount.getD 0 + 1) } := bumpPlan_count (by omega) hi
  rw [countInv_iff] at hb ⊢
  constructor
  case planInactive => exact hb.planInactive.set ⟨rfl, by omega, Nat.le_refl _⟩
  case planForProv => exact hb.planForProv.set (Nat.le_refl _)
  count_rest hb

theorem planP_of_getPlan {s : State} {i : Nat} {p : Plan} (hi : CountInv s) (h : getPlan s i = some p) :
    PlanP (s.planCount.getD 0) i p := hi.plans i p (getPlan_mem h)

theorem planStatus_count {s s' : State} {frm : Addr} {id : Nat} {st : Status}
    (h : planStatus s frm id st = .ok s') (hi : CountInv s) : CountInv s' := by
  unfold planStatus at h
  simp only [bind_eq_ok, pure_eq_ok, require_eq_ok, orReject_eq_ok] at h
  obtain ⟨p, hp, _, _, s3, h3, rfl⟩ := h
  have hpp := planP_of_getPlan hi hp
  have hpp' : PlanP (s.planCount.getD 0) p.id { p with status := st, statusAt := s.time } := ⟨rfl, by rw [hpp.1]; exact hpp.2.1, by rw [hpp.1]; exact hpp.2.2⟩
  refine emit_count _ ?_
  rw [countInv_iff] at hi ⊢
  rcases setPlan_eff h3 with ⟨_, e⟩ | ⟨_, e⟩ <;> subst e
  · split <;> split <;>
    · constructor
      case planActive => first | exact hi.planActive.set hpp' | exact hi.planActive.erase.set hpp'
      case planInactive => first | exact hi.planInactive | exact hi.planInactive.erase
      count_rest hi
  · split <;> split <;>
    · constructor
      case planInactive => first | exact hi.planInactive.set hpp' | exact hi.planInactive.erase.set hpp'
      case planActive => first | exact hi.planActive | exact hi.planActive.erase
      count_rest hi

theorem planLink_count {s s' : State} {frm : Addr} {id : Nat} {node : Addr}
    (h : planLink s frm id node = .ok s') (hi : CountInv s) : CountInv s' := by
  unfold planLink at h
  simp only [bind_eq_ok, pure_eq_ok, require_eq_ok, orReject_eq_ok] at h
  obtain ⟨p, hp, _, _, _, _, rfl⟩ := h
  have hpp := planP_of_getPlan hi hp
  refine emit_count _ ?_
  rw [countInv_iff] at hi ⊢
  constructor
  case nodeForPlan => exact hi.nodeForPlan.set hpp.2.2
  count_rest hi

theorem planUnlink_count {s s' : State} {frm : Addr} {id : Nat} {node : Addr}
    (h : planUnlink s frm id node = .ok s') (hi : CountInv s) : CountInv s' := by
  unfold planUnlink at h
  simp only [bind_eq_ok, pure_eq_ok, require_eq_ok, orReject_eq_ok] at h
  obtain ⟨p, _, _, _, rfl⟩ := h
  refine emit_count _ ?_
  rw [countInv_iff] at hi ⊢
  constructor
  case nodeForPlan => exact hi.nodeForPlan.erase
  count_rest hi

/-! ### subscription and session messages -/

theorem subscriptionInactivePendingHook_subCount {s s' : State} {id : Nat}
    (h : subscriptionInactivePendingHook s id = .ok s') : s'.subCount = s.subCount := by
  unfold subscriptionInactivePendingHook at h
  refine foldlM_inv (fun t => t.subCount = s.subCount) _ ?_ _ s s' h rfl
  intro s0 sid s1 h1 hp
  simp only [bind_eq_ok, pure_eq_ok, orPanic_eq_ok] at h1
  obtain ⟨x, hx, rfl⟩ := h1
  split
  · exact hp
  · exact hp

theorem subCancel_count {s s' : State} {frm : Addr} {id : Nat} (h : subCancel s frm id = .ok s') (hi : CountInv s) :
    CountInv s' := by
  unfold subCancel at h
  simp only [bind_eq_ok, require_eq_ok, orReject_eq_ok] at h
  obtain ⟨sub, hsub, _, _, _, _, s1, h1, h2⟩ := h
  have i0 : CountInv { s with subQ := s.subQ.erase (sub.inactiveAt, sub.id) } := by
    rw [countInv_iff] at hi ⊢
    constructor
    case subQ => exact hi.subQ.erase
    count_rest hi
  have i1 := subscriptionInactivePendingHook_count h1 i0
  have e1 : s1.subCount = s.subCount := (subscriptionInactivePendingHook_subCount h1).trans rfl
  have hs : SubP (s1.subCount.getD 0) sub.id sub := by rw [e1]; exact subP_of_get hi hsub
  exact detachPayout_count h2 (subToPending_count hs i1)

theorem subAllocate_count {s s' : State} {frm toA : Addr} {id : Nat} {bytes : Int}
    (h : subAllocate s frm id toA bytes = .ok s') (hi : CountInv s) : CountInv s' := by
  unfold subAllocate at h
  simp only [bind_eq_ok, pure_eq_ok, require_eq_ok, orReject_eq_ok] at h
  obtain ⟨sub, hsub, _, _, _, _, fa, hfa, _, _, g, _, u, _, av, _, _, _, fg, _, _, _, _, _, rfl⟩ := h
  have hs := hi.subs id sub hsub
  have hf := hi.allocs id frm fa hfa
  have ht : ((s.allocs.get (id, toA)).getD { id := id, addr := toA, granted := 0, used := 0 }).id = id := by
    cases hg : s.allocs.get (id, toA) with
    | none => rfl
    | some ta => exact (hi.allocs id toA ta hg).1
  have i1 : CountInv (if (s.allocs.get (id, toA)).isNone then { s with subForAcc := s.subForAcc.set (toA, id) () } else s) := by
    split
    · rw [countInv_iff] at hi ⊢
      constructor
      case subForAcc => exact hi.subForAcc.set hs.2.2
      count_rest hi
    · exact hi
  have e1 : (if (s.allocs.get (id, toA)).isNone then { s with subForAcc := s.subForAcc.set (toA, id) () } else s).subCount = s.subCount := by
    split <;> rfl
  refine emit_count _ (setAllocation_count ?_ ?_ (emit_count _ (setAllocation_count ?_ ?_ i1)))
  · simp only [ht]; exact hs.2.1
  · simp only [ht]; show id ≤ Option.getD (State.subCount (ite _ _ _)) 0; rw [e1]; exact hs.2.2
  · simp only [hf.1]; exact hs.2.1
  · simp only [hf.1]; rw [e1]; exact hs.2.2

theorem sessStart_count {s s' : State} {frm : TextAddr} {id : Nat} {node : Addr}
    (h : sessStart s frm id node = .ok s') (hi : CountInv s) : CountInv s' := by
  unfold sessStart at h
  simp only [bind_eq_ok, pure_eq_ok, require_eq_ok, orReject_eq_ok] at h
  obtain ⟨sub, hsub, _, _, n, _, _, _, _, _, _, _, latest, _, _, _, rfl⟩ := h
  have hs := hi.subs id sub hsub
  exact emit_count _ (insertSession_count rfl hs.2.1 hs.2.2 hi)

theorem sessUpdate_count {s s' : State} {frm : Addr} {id : Nat} {up down dur : Int} {sig : SigSpec}
    (h : sessUpdate s frm id up down dur sig = .ok s') (hi : CountInv s) : CountInv s' := by
  unfold sessUpdate at h
  simp only [bind_eq_ok, pure_eq_ok, require_eq_ok, orReject_eq_ok] at h
  obtain ⟨x, hx, _, _, _, _, _, _, rfl⟩ := h
  have hp := sessP_of_get hi hx
  refine emit_count _ ?_
  rw [countInv_iff] at hi ⊢
  split <;>
  · constructor
    case sessions => exact hi.sessions.set ⟨rfl, hp.2.1, hp.2.2.1, hp.2.2.2.1, hp.2.2.2.2⟩
    case sessQ => first | exact hi.sessQ | exact hi.sessQ.erase.set hp.2.2.1
    count_rest hi

theorem sessEnd_count {s s' : State} {frm : Addr} {id : Nat} (h : sessEnd s frm id = .ok s') (hi : CountInv s) :
    CountInv s' := by
  unfold sessEnd at h
  simp only [bind_eq_ok, pure_eq_ok, require_eq_ok, orReject_eq_ok] at h
  obtain ⟨x, hx, _, _, _, _, rfl⟩ := h
  exact sessionToPending_count (sessP_of_get hi hx) hi

/-! ### begin-block hooks -/

theorem cview_mintBeginBlock_go (l : List Inflation) (s : State) : cview (mintBeginBlock.go s l) = cview s := by
  induction l generalizing s with
  | nil => rfl
  | cons item rest ih =>
    unfold mintBeginBlock.go
    split
    · rfl
    · rw [ih]; rfl

theorem mintBeginBlock_count (s : State) (hi : CountInv s) : CountInv (mintBeginBlock s) :=
  CountInv.of_view (cview_mintBeginBlock_go _ s) hi

theorem distrSweep_count (s : State) (hi : CountInv s) : CountInv (distrSweep s) :=
  CountInv.of_mframe (distrSweep_mframe s) hi

theorem payoutAdvance_id_A (p : Payout) : (payoutAdvance p).id = p.id := by
  unfold payoutAdvance; simp only; split <;> rfl

theorem payoutStep_count {s s' : State} {k : Time × Nat} (h : payoutStep s k = .ok s') (hi : CountInv s) : CountInv s' := by
  unfold payoutStep at h
  simp only [bind_eq_ok, pure_eq_ok, requireP_eq_ok, orPanic_eq_ok] at h
  obtain ⟨item, hitem, reward, _, s2, h2, payAmt, _, _, _, s3, h3, rfl⟩ := h
  have hp := payP_of_get hi hitem
  have i1 : CountInv { s with payQ := s.payQ.erase (item.nextAt, item.id) } := by
    rw [countInv_iff] at hi ⊢
    constructor
    case payQ => exact hi.payQ.erase
    count_rest hi
  have f3 := (sendCoinFromDepositToModule_mframe h2).trans (sendCoinFromDepositToAccount_mframe h3)
  have i3 := CountInv.of_mframe f3 i1
  have e3 : s3.subCount = s.subCount := (subCount_of_mframe f3).trans rfl
  have hp' : PayP (s3.subCount.getD 0) (payoutAdvance item).id (payoutAdvance item) := by
    rw [e3]; exact ⟨rfl, by rw [payoutAdvance_id_A]; exact hp.2.1, by rw [payoutAdvance_id_A]; exact hp.2.2⟩
  rw [countInv_iff] at i3 ⊢
  split <;>
  · constructor
    case payouts => exact i3.payouts.set hp'
    case payQ => first | exact i3.payQ | exact i3.payQ.set hp'.2.2
    count_rest i3

/-! ### end-block hooks -/

theorem nodeSweep_cview {s s' : State} (h : nodeSweep s = .ok s') : cview s' = cview s := by
  unfold nodeSweep at h
  split at h
  · rw [pure_eq_ok] at h; rw [h]
  · refine foldlM_inv (fun t => cview t = cview s) _ ?_ _ s s' h rfl
    intro s0 a s1 h1 hp
    simp only [bind_eq_ok, pure_eq_ok, orPanic_eq_ok] at h1
    obtain ⟨item, _, s2, h2, rfl⟩ := h1
    rw [cview_emit, setNode_cview h2]; exact hp

theorem nodeSweep_count {s s' : State} (h : nodeSweep s = .ok s') (hi : CountInv s) : CountInv s' :=
  CountInv.of_view (nodeSweep_cview h) hi

theorem nodeExpireStep_cview {s s' : State} {k : Time × Addr} (h : nodeExpireStep s k = .ok s') : cview s' = cview s := by
  unfold nodeExpireStep at h
  simp only [bind_eq_ok, pure_eq_ok, orPanic_eq_ok] at h
  obtain ⟨item, _, s3, h3, rfl⟩ := h
  rw [cview_emit, setNode_cview h3]; rfl

theorem nodeExpireStep_count {s s' : State} {k : Time × Addr} (h : nodeExpireStep s k = .ok s') (hi : CountInv s) :
    CountInv s' := CountInv.of_view (nodeExpireStep_cview h) hi

theorem settleSession_mframe {s s' : State} {x : Session} {acc node : Addr} {dep : Coin} {gb b a : Int}
    (h : settleSession s x acc node dep gb b a = .ok s') : MFrame s s' := by
  unfold settleSession at h
  simp only [bind_eq_ok, pure_eq_ok, requireP_eq_ok] at h
  obtain ⟨price, _, prev, _, cur, _, payAmt, _, payment, _, reward, _, s1, h1, netAmt, _, _, _, s2, h2, rfl⟩ := h
  exact ((sendCoinFromDepositToModule_mframe h1).trans (sendCoinFromDepositToAccount_mframe h2)).trans (MFrame.emit _ _)

theorem settleSession_count {s s' : State} {x : Session} {acc node : Addr} {dep : Coin} {gb b a : Int}
    (h : settleSession s x acc node dep gb b a = .ok s') (hi : CountInv s) : CountInv s' :=
  CountInv.of_mframe (settleSession_mframe h) hi

theorem sessionInactiveHook_count {s s' : State} {id : Nat} {acc node : Addr} {bytes : Int}
    (h : sessionInactiveHook s id acc node bytes = .ok s') (hi : CountInv s) : CountInv s' := by
  unfold sessionInactiveHook at h
  simp only [bind_eq_ok, require_eq_ok, orReject_eq_ok] at h
  obtain ⟨x, _, _, _, sub, _, h⟩ := h
  split at h
  · rw [pure_eq_ok] at h; rw [← h]; exact hi
  · simp only [bind_eq_ok, orReject_eq_ok] at h
    obtain ⟨a, ha, used, _, h⟩ := h
    have hal := hi.allocs sub.id acc a ha
    have i1 : CountInv (emit (setAllocation s (allocAfterUse a used)) (evAllocate (allocAfterUse a used))) := by
      refine emit_count _ (setAllocation_count ?_ ?_ hi)
      · show 1 ≤ a.id; rw [hal.1]; exact hal.2.2.1
      · show a.id ≤ _; rw [hal.1]; exact hal.2.2.2
    split at h
    · exact settleSession_count h i1
    · rw [pure_eq_ok] at h; rw [← h]; exact i1

theorem removeSession_count {s : State} {item : Session} (hi : CountInv s) : CountInv (removeSession s item) := by
  refine emit_count _ ?_
  rw [countInv_iff] at hi ⊢
  constructor
  case sessions => exact hi.sessions.erase
  case sessForAcc => exact hi.sessForAcc.erase
  case sessForNode => exact hi.sessForNode.erase
  case sessForSub => exact hi.sessForSub.erase
  case sessForAlloc => exact hi.sessForAlloc.erase
  count_rest hi

theorem sessionStep_count {s s' : State} {k : Time × Nat} (h : sessionStep s k = .ok s') (hi : CountInv s) : CountInv s' := by
  unfold sessionStep at h
  simp only [bind_eq_ok, orPanic_eq_ok] at h
  obtain ⟨item, hitem, h⟩ := h
  split at h
  · rw [pure_eq_ok] at h; rw [← h]; exact sessionToPending_count (sessP_of_get hi hitem) hi
  · simp only [bind_eq_ok, pure_eq_ok, panicIfErr_eq_ok] at h
    obtain ⟨bytes, _, s2, h2, rfl⟩ := h
    have i1 : CountInv { s with sessQ := s.sessQ.erase (item.inactiveAt, item.id) } := by
      rw [countInv_iff] at hi ⊢
      constructor
      case sessQ => exact hi.sessQ.erase
      count_rest hi
    exact removeSession_count (sessionInactiveHook_count h2 i1)

theorem refundSub_mframe {s s' : State} {item : Sub} (h : refundSub s item = .ok s') : MFrame s s' := by
  unfold refundSub at h
  split at h
  · simp only [bind_eq_ok] at h
    obtain ⟨s1, h1, h2⟩ := h
    have f1 : MFrame s s1 := by
      split at h1
      · unfold refundGB at h1
        simp only [bind_eq_ok, pure_eq_ok, orPanic_eq_ok, panicIfErr_eq_ok] at h1
        obtain ⟨price, _, a, _, paid, _, ra, _, refund, _, s2, h2', rfl⟩ := h1
        exact (subtractDeposit_mframe h2').trans (MFrame.emit _ _)
      · rw [pure_eq_ok] at h1; rw [← h1]; exact MFrame.refl s
    split at h2
    · unfold refundHr at h2
      simp only [bind_eq_ok, pure_eq_ok, orPanic_eq_ok, panicIfErr_eq_ok] at h2
      obtain ⟨p, _, ra, _, refund, _, s2, h2', rfl⟩ := h2
      exact f1.trans ((subtractDeposit_mframe h2').trans (MFrame.emit _ _))
    · rw [pure_eq_ok] at h2; rw [← h2]; exact f1
  · rw [pure_eq_ok] at h; rw [← h]; exact MFrame.refl s

theorem refundSub_count {s s' : State} {item : Sub} (h : refundSub s item = .ok s') (hi : CountInv s) : CountInv s' :=
  CountInv.of_mframe (refundSub_mframe h) hi

theorem removeAllocs_count (l : List Addr) (s : State) (id : Nat) (hi : CountInv s) : CountInv (removeAllocs s id l) := by
  unfold removeAllocs
  refine foldl_inv CountInv _ ?_ l s hi
  intro s0 a h0
  rw [countInv_iff] at h0 ⊢
  constructor
  case allocs => exact h0.allocs.erase
  case subForAcc => exact h0.subForAcc.erase
  count_rest h0

theorem removeSubRecords_count {s : State} {item : Sub} (hi : CountInv s) : CountInv (removeSubRecords s item) := by
  unfold removeSubRecords
  cases item.kind with
  | node n g h d =>
    refine emit_count _ ?_
    rw [countInv_iff] at hi ⊢
    constructor
    case subs => exact hi.subs.erase
    case subForNode => exact hi.subForNode.erase
    case allocs => exact hi.allocs.erase
    case subForAcc => exact hi.subForAcc.erase
    count_rest hi
  | plan pid dn =>
    refine emit_count _ ?_
    have i1 : CountInv { s with subForPlan := s.subForPlan.erase (pid, item.id) } := by
      rw [countInv_iff] at hi ⊢
      constructor
      case subForPlan => exact hi.subForPlan.erase
      count_rest hi
    have i2 := removeAllocs_count (allocAddrsForSub { s with subForPlan := s.subForPlan.erase (pid, item.id) } item.id) _ item.id i1
    rw [countInv_iff] at i2 ⊢
    constructor
    case subs => exact i2.subs.erase
    count_rest i2

theorem removePayout_count {s s' : State} {item : Sub} (h : removePayout s item = .ok s') (hi : CountInv s) : CountInv s' := by
  unfold removePayout at h
  split at h
  · simp only [bind_eq_ok, pure_eq_ok, orPanic_eq_ok] at h
    obtain ⟨p, _, rfl⟩ := h
    rw [countInv_iff] at hi ⊢
    constructor
    case payouts => exact hi.payouts.erase
    case payForAcc => exact hi.payForAcc.erase
    case payForNode => exact hi.payForNode.erase
    count_rest hi
  · rw [pure_eq_ok] at h; rw [← h]; exact hi

theorem subscriptionStep_count {s s' : State} {d : Dur} {k : Time × Nat} (h : subscriptionStep d s k = .ok s')
    (hi : CountInv s) : CountInv s' := by
  unfold subscriptionStep at h
  simp only [bind_eq_ok, orPanic_eq_ok] at h
  obtain ⟨item, hitem, h⟩ := h
  have i1 : CountInv { s with subQ := s.subQ.erase (item.inactiveAt, item.id) } := by
    rw [countInv_iff] at hi ⊢
    constructor
    case subQ => exact hi.subQ.erase
    count_rest hi
  split at h
  · simp only [bind_eq_ok, panicIfErr_eq_ok] at h
    obtain ⟨s2, h2, h3⟩ := h
    have i2 := subscriptionInactivePendingHook_count h2 i1
    have e2 : s2.subCount = s.subCount := (subscriptionInactivePendingHook_subCount h2).trans rfl
    have hs : SubP (s2.subCount.getD 0) item.id item := by rw [e2]; exact subP_of_get hi hitem
    exact detachPayout_count h3 (subToPending_count hs i2)
  · simp only [bind_eq_ok] at h
    obtain ⟨s2, h2, h3⟩ := h
    exact removePayout_count h3 (removeSubRecords_count (refundSub_count h2 i1))

/-! ### whole operations -/

theorem handle_count {s s' : State} {m : Msg} (h : m.handle s = .ok s') (hi : CountInv s) : CountInv s' := by
  cases m <;> simp only [Msg.handle] at h
  case provRegister => exact provRegister_count h hi
  case provUpdate => exact provUpdate_count h hi
  case nodeRegister => exact nodeRegister_count h hi
  case nodeUpdate => exact nodeUpdate_count h hi
  case nodeStatus => exact nodeStatus_count h hi
  case nodeSubscribe => exact nodeSubscribe_count h hi
  case planCreate => exact planCreate_count h hi
  case planStatus => exact planStatus_count h hi
  case planLink => exact planLink_count h hi
  case planUnlink => exact planUnlink_count h hi
  case planSubscribe => exact planSubscribe_count h hi
  case subCancel => exact subCancel_count h hi
  case subAllocate => exact subAllocate_count h hi
  case sessStart => exact sessStart_count h hi
  case sessUpdate => exact sessUpdate_count h hi
  case sessEnd => exact sessEnd_count h hi
  case swap => exact swap_count h hi

/-- A delivered message — accepted or rejected — keeps the invariant. -/
theorem deliver_count (s : State) (m : Msg) (hi : CountInv s) : CountInv (deliver s m).1 := by
  have h0 : CountInv { s with events := [] } := CountInv.of_view (s := s) rfl hi
  unfold deliver
  simp only []
  cases hr : (do m.validateBasic; m.handle { s with events := [] } : M State) with
  | ok s' =>
    simp only [bind_eq_ok] at hr
    obtain ⟨_, _, hh⟩ := hr
    exact handle_count hh h0
  | error e => cases e <;> exact h0

theorem beginBlock_count {s s' : State} {t : Time} (h : beginBlock s t = .ok s') (hi : CountInv s) : CountInv s' := by
  unfold beginBlock haltOf at h
  split at h <;> try contradiction
  rename_i s'' hs
  simp only [Except.ok.injEq] at h
  subst h
  unfold subscriptionBeginBlock at hs
  refine foldlM_inv CountInv _ ?_ _ _ _ hs ?_
  · intro s0 k s1 h1 hp
    rw [panicIfErr_eq_ok] at h1
    exact payoutStep_count h1 hp
  · exact distrSweep_count _ (mintBeginBlock_count _ (CountInv.of_view (s := s) rfl hi))

theorem endBlock_count {s s' : State} (h : endBlock s = .ok s') (hi : CountInv s) : CountInv s' := by
  unfold endBlock haltOf at h
  split at h <;> try contradiction
  rename_i s2 hs
  split at hs <;> try contradiction
  rename_i s3 hs3
  simp only [Except.ok.injEq] at hs h
  subst hs; subst h
  unfold vpnEndBlock nodeEndBlock at hs3
  simp only [bind_eq_ok] at hs3
  obtain ⟨s1, ⟨sa, ha, hb⟩, sb, hc, hd⟩ := hs3
  have i0 : CountInv sa := nodeSweep_count ha (CountInv.of_view (s := s) rfl hi)
  have i1 : CountInv s1 := foldlM_inv CountInv _ (fun s0 k s1 h1 hp => nodeExpireStep_count h1 hp) _ _ _ hb i0
  have i2 : CountInv sb := foldlM_inv CountInv _ (fun s0 k s1 h1 hp => sessionStep_count h1 hp) _ _ _ hc i1
  have i3 : CountInv s3 := foldlM_inv CountInv _ (fun s0 k s1 h1 hp => subscriptionStep_count h1 hp) _ _ _ hd i2
  exact CountInv.of_view (s := s3) rfl i3

theorem gov_cview {s s' : State} {c : ParamChange} (hg : gov s c = some s') : cview s' = cview s := by
  unfold gov at hg
  cases c <;> simp only [] at hg <;> (try split at hg) <;>
    first
      | (simp only [Option.some.injEq] at hg; rw [← hg]; rfl)
      | (simp only [reduceCtorEq] at hg)

theorem gov_count (s : State) (c : ParamChange) (hi : CountInv s) : CountInv ((gov s c).getD s) := by
  cases hg : gov s c with
  | none => exact hi
  | some s' => exact CountInv.of_view (gov_cview hg) hi

theorem step_count {s s' : State} {op : Op} (h : step s op = some s') (hi : CountInv s) : CountInv s' := by
  cases op with
  | tx m =>
    simp only [step, Option.some.injEq] at h
    rw [← h]; exact deliver_count s m hi
  | begin t =>
    simp only [step] at h
    split at h
    · rename_i s1 hb
      simp only [Option.some.injEq] at h; rw [← h]; exact beginBlock_count hb hi
    · contradiction
  | endB =>
    simp only [step] at h
    split at h
    · rename_i s1 hb
      simp only [Option.some.injEq] at h; rw [← h]; exact endBlock_count hb hi
    · contradiction
  | gov c =>
    simp only [step, Option.some.injEq] at h
    rw [← h]; exact gov_count s c hi

theorem genesis_base_count (g : Genesis) : CountInv g.base := by
  rw [countInv_iff]
  constructor <;> exact Tbl.All.nil _

theorem genesis_count (g : Genesis) : CountInv g.state :=
  CountInv.of_mframe (genesis_mframe g) (genesis_base_count g)

/-- `CountInv` holds after every operation of every history from a state that satisfies it. -/
theorem count_all_histories (ops : List Op) (s : State) (hi : CountInv s) : ∀ s' ∈ runTrace s ops, CountInv s' := by
  induction ops generalizing s with
  | nil => intro s' h; simp [runTrace] at h
  | cons op rest ih =>
    intro s' h
    simp only [runTrace] at h
    cases hst : step s op with
    | none => simp [hst] at h
    | some s1 =>
      simp only [hst, List.mem_cons] at h
      have i1 := step_count hst hi
      rcases h with h | h
      · rw [h]; exact i1
      · exact ih s1 i1 s' h

end Hub.Model
