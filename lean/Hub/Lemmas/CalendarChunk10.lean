import Hub.Lemmas.CalendarDefs
/- Chunk 10 of the complete day-of-era table: entries [10 * 9131, (10 + 1) * 9131), evaluated by the kernel. -/
namespace Hub.Lemmas.Calendar

theorem chunk10 : allFrom entryOK (10 * 9131) 9131 = true := by decide +kernel

end Hub.Lemmas.Calendar
