import Hub.Lemmas.Math
import Hub.Lemmas.Money
/-
"Whenever it returns, it returns the exact value": the sdkmath operations on non-negative
arguments, characterised from success alone (no range hypothesis).
-/
namespace Hub.SDK
open Hub.Model (bind_eq_ok pure_eq_ok)

theorem Dec.mul_eq_ok_nat {x y : Nat} {r : Int} (h : Dec.mul (x : Int) (y : Int) = .ok r) :
    r = ((Dec.chopRoundNat (x * y) : Nat) : Int) := by
  unfold Dec.mul at h
  have e : ((x : Int) * (y : Int)) = ((x * y : Nat) : Int) := by push_cast; rfl
  simp only [e, Dec.chopRound_natCast] at h
  split at h
  · simp [gopanic] at h
  · simpa [pure, Except.pure] using h.symm

theorem Dec.quoInt_eq_ok_nat {x i : Nat} {r : Int} (h : Dec.quoInt (x : Int) (i : Int) = .ok r) :
    0 < i ∧ r = ((x / i : Nat) : Int) := by
  unfold Dec.quoInt at h
  split at h
  · simp [gopanic] at h
  · rename_i hi
    have hpos : 0 < i := by
      rcases Nat.eq_zero_or_pos i with h0 | h0
      · subst h0; simp at hi
      · exact h0
    refine ⟨hpos, ?_⟩
    have : Int.tdiv (x : Int) (i : Int) = ((x / i : Nat) : Int) := by
      rw [Int.tdiv_eq_ediv_of_nonneg (by omega)]; norm_cast
    simpa [pure, Except.pure, this] using h.symm

theorem Dec.ceil_eq_ok_nat {x : Nat} {r : Int} (h : Dec.ceil (x : Int) = .ok r) :
    r = (((((x + (10 ^ 18 - 1)) / 10 ^ 18) * 10 ^ 18 : Nat)) : Int) := by
  unfold Dec.ceil decUnit at h
  have hq : Int.tdiv (x : Int) (10 ^ 18) = ((x / 10 ^ 18 : Nat) : Int) := by
    rw [Int.tdiv_eq_ediv_of_nonneg (by omega)]; norm_cast
  have hr : Int.tmod (x : Int) (10 ^ 18) = ((x % 10 ^ 18 : Nat) : Int) := by
    rw [Int.tmod_eq_emod_of_nonneg (by omega)]; norm_cast
  simp only [hq, hr] at h
  by_cases hz : x % 10 ^ 18 = 0
  · simp only [hz, Nat.cast_zero, le_refl, if_true, pure, Except.pure, Except.ok.injEq] at h
    have e : (x + (10 ^ 18 - 1)) / 10 ^ 18 = x / 10 ^ 18 := by omega
    rw [← h, e]; simp only [Nat.cast_mul, Nat.cast_pow, Nat.cast_ofNat]
  · have hpos : ¬ ((((x % 10 ^ 18 : Nat) : Int)) ≤ 0) := by omega
    simp only [hpos, if_false] at h
    split at h
    · simp [gopanic] at h
    · simp only [pure, Except.pure, Except.ok.injEq] at h
      have e : (x + (10 ^ 18 - 1)) / 10 ^ 18 = x / 10 ^ 18 + 1 := by omega
      rw [← h, e]; simp only [Nat.cast_mul, Nat.cast_pow, Nat.cast_ofNat, Nat.cast_add, Nat.cast_one]

theorem Dec.truncateInt_eq_ok_nat {x : Nat} {r : Int} (h : Dec.truncateInt (x : Int) = .ok r) :
    r = ((x / 10 ^ 18 : Nat) : Int) := by
  unfold Dec.truncateInt decUnit at h
  have hq : Int.tdiv (x : Int) (10 ^ 18) = ((x / 10 ^ 18 : Nat) : Int) := by
    rw [Int.tdiv_eq_ediv_of_nonneg (by omega)]; norm_cast
  simp only [hq] at h
  split at h
  · simp [gopanic] at h
  · simpa [pure, Except.pure] using h.symm

theorem Dec.roundInt_eq_ok_nat {x : Nat} {r : Int} (h : Dec.roundInt (x : Int) = .ok r) :
    r = ((Dec.chopRoundNat x : Nat) : Int) := by
  unfold Dec.roundInt at h
  simp only [Dec.chopRound_natCast] at h
  split at h
  · simp [gopanic] at h
  · simpa [pure, Except.pure] using h.symm

end Hub.SDK
