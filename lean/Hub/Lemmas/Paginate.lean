import Hub.SDK.Paginate
/-
Helper lemmas for property C13 (paged queries enumerate the complete result exactly once):
the byte order, what the iterator of `getIterator` yields on a sorted store, closed forms of the four
paginator loops, and the abstract "follow the next key" / "step the offset" theorems.
Core Lean only.
-/
namespace Hub.SDK.Paginate
open Hub.SDK
open Function (uncurry)

/-! ## `bytesLt` is a strict order (self-contained copies; only what paging needs) -/

theorem blt_cons_cons_iff (x y : UInt8) (xs ys : Bytes) :
    bytesLt (x :: xs) (y :: ys) = true ↔ x.toNat < y.toNat ∨ (x = y ∧ bytesLt xs ys = true) := by
  show (if x < y then true else if y < x then false else bytesLt xs ys) = true ↔ _
  by_cases h1 : x < y
  · simp only [h1, if_true, true_iff]
    exact Or.inl (UInt8.lt_iff_toNat_lt.mp h1)
  · by_cases h2 : y < x
    · simp only [h1, h2, if_true, if_false]
      have h2' := UInt8.lt_iff_toNat_lt.mp h2
      constructor
      · intro h; exact absurd h (by decide)
      · rintro (h | ⟨h, _⟩)
        · omega
        · rw [h] at h2'; omega
    · simp only [h1, h2, if_false]
      have e : x = y := by
        apply UInt8.toNat_inj.mp
        have a1 : ¬ x.toNat < y.toNat := fun h => h1 (UInt8.lt_iff_toNat_lt.mpr h)
        have a2 : ¬ y.toNat < x.toNat := fun h => h2 (UInt8.lt_iff_toNat_lt.mpr h)
        omega
      constructor
      · intro h; exact Or.inr ⟨e, h⟩
      · rintro (h | ⟨_, h⟩)
        · exact absurd (UInt8.lt_iff_toNat_lt.mpr h) h1
        · exact h

theorem blt_irrefl (a : Bytes) : bytesLt a a = false := by
  induction a with
  | nil => rfl
  | cons x xs ih =>
    cases h : bytesLt (x :: xs) (x :: xs) with
    | false => rfl
    | true =>
      rcases (blt_cons_cons_iff x x xs xs).mp h with h' | ⟨_, h'⟩
      · omega
      · rw [ih] at h'; exact absurd h' (by decide)

theorem blt_trans {a b c : Bytes} (h1 : bytesLt a b = true) (h2 : bytesLt b c = true) : bytesLt a c = true := by
  induction a generalizing b c with
  | nil =>
    cases c with
    | nil => cases b <;> simp [bytesLt] at h2
    | cons z zs => rfl
  | cons x xs ih =>
    cases b with
    | nil => simp [bytesLt] at h1
    | cons y ys =>
      cases c with
      | nil => simp [bytesLt] at h2
      | cons z zs =>
        rw [blt_cons_cons_iff] at h1 h2 ⊢
        rcases h1 with h1 | ⟨e1, h1⟩
        · rcases h2 with h2 | ⟨e2, h2⟩
          · left; omega
          · left; rw [← e2]; exact h1
        · rcases h2 with h2 | ⟨e2, h2⟩
          · left; rw [e1]; exact h2
          · right; exact ⟨e1.trans e2, ih h1 h2⟩

theorem blt_asymm {a b : Bytes} (h : bytesLt a b = true) : bytesLt b a = false := by
  cases h' : bytesLt b a with
  | false => rfl
  | true =>
    have := blt_trans h h'
    rw [blt_irrefl] at this
    exact absurd this (by decide)

/-! ## Sorted stores and the iterator -/

/-- The iteration order of a direction: ascending, or descending for `reverse`. -/
def dir {α : Type} (reverse : Bool) (store : Store α) : Store α := if reverse then store.reverse else store

@[simp] theorem dir_false {α : Type} (s : Store α) : dir false s = s := rfl
@[simp] theorem dir_true {α : Type} (s : Store α) : dir true s = s.reverse := rfl

theorem dir_length {α : Type} (r : Bool) (s : Store α) : (dir r s).length = s.length := by
  cases r <;> simp

theorem mem_dir {α : Type} (r : Bool) (s : Store α) (p : Bytes × α) : p ∈ dir r s ↔ p ∈ s := by
  cases r <;> simp

theorem keysNonempty_dir {α : Type} {r : Bool} {s : Store α} (h : KeysNonempty s) : KeysNonempty (dir r s) :=
  fun p hp => h p ((mem_dir r s p).mp hp)

theorem sorted_keys_nodup {α : Type} {s : Store α} (h : Sorted s) : (s.map Prod.fst).Nodup := by
  unfold Sorted at h
  induction s with
  | nil => simp
  | cons x xs ih =>
    rw [List.pairwise_cons] at h
    rw [List.map_cons, List.nodup_cons]
    refine ⟨?_, ih h.2⟩
    intro hm
    rcases List.mem_map.mp hm with ⟨y, hy, e⟩
    have := h.1 y hy
    rw [e, blt_irrefl] at this
    exact absurd this (by decide)

/-- On a sorted store `a ++ (k,v) :: b`, the forward iterator from `k` yields `(k,v) :: b`. -/
theorem geq_split {α : Type} {a b : Store α} {k : Bytes} {v : α} (h : Sorted (a ++ (k, v) :: b)) :
    geq (a ++ (k, v) :: b) k = (k, v) :: b := by
  unfold Sorted at h
  rw [List.pairwise_append, List.pairwise_cons] at h
  obtain ⟨_, ⟨hb, _⟩, hab⟩ := h
  unfold geq
  rw [List.filter_append]
  have h1 : a.filter (fun p => !bytesLt p.1 k) = [] := by
    rw [List.filter_eq_nil_iff]
    intro p hp
    have := hab p hp (k, v) (List.mem_cons_self ..)
    simp only at this
    simp [this]
  have h2 : ((k, v) :: b).filter (fun p => !bytesLt p.1 k) = (k, v) :: b := by
    rw [List.filter_eq_self]
    intro p hp
    rcases List.mem_cons.mp hp with e | hp
    · rw [e]; simp [blt_irrefl]
    · have := blt_asymm (hb p hp)
      simp only at this
      simp [this]
  rw [h1, h2, List.nil_append]

/-- On a sorted store `a ++ y :: b`, the records below `y` are `a`. -/
theorem below_split {α : Type} {a b : Store α} {y : Bytes × α} (h : Sorted (a ++ y :: b)) :
    below (a ++ y :: b) y.1 = a := by
  unfold Sorted at h
  rw [List.pairwise_append, List.pairwise_cons] at h
  obtain ⟨_, ⟨hb, _⟩, hab⟩ := h
  unfold below
  rw [List.filter_append]
  have h1 : a.filter (fun p => bytesLt p.1 y.1) = a := by
    rw [List.filter_eq_self]
    intro p hp
    exact hab p hp y (List.mem_cons_self ..)
  have h2 : (y :: b).filter (fun p => bytesLt p.1 y.1) = [] := by
    rw [List.filter_eq_nil_iff]
    intro p hp
    rcases List.mem_cons.mp hp with e | hp
    · rw [e]; simp [blt_irrefl]
    · have := blt_asymm (hb p hp)
      simp [this]
  rw [h1, h2, List.append_nil]

theorem iterFrom_none {α : Type} (store : Store α) (r : Bool) : iterFrom store none r = .ok (dir r store) := by
  cases r <;> rfl

/-- The iterator started at a key that is present: the suffix of the iteration order beginning at that
key.  In reverse mode the key must not be the first of the order (the greatest key), otherwise the
SDK panics. -/
theorem iterFrom_some {α : Type} {store : Store α} (hs : Sorted store) (r : Bool) {a b : Store α} {k : Bytes} {v : α}
    (hsplit : dir r store = a ++ (k, v) :: b) (ha : r = true → a ≠ []) :
    iterFrom store (some k) r = .ok ((k, v) :: b) := by
  cases r with
  | false =>
    rw [dir_false] at hsplit
    show Except.ok (geq store k) = _
    rw [hsplit] at hs ⊢
    rw [geq_split hs]
  | true =>
    rw [dir_true] at hsplit
    have hne := ha rfl
    -- `a = a' ++ [y]`, so `store = b.reverse ++ (k,v) :: y :: a'.reverse`
    have hst : store = b.reverse ++ (k, v) :: a.reverse := by
      have := congrArg List.reverse hsplit
      rw [List.reverse_reverse] at this
      rw [this]; simp
    cases hra : a.reverse with
    | nil => exact absurd (List.reverse_eq_nil_iff.mp hra) hne
    | cons y c =>
      rw [hra] at hst
      have hs1 : Sorted (b.reverse ++ (k, v) :: y :: c) := hst ▸ hs
      have hs2 : Sorted ((b.reverse ++ [(k, v)]) ++ y :: c) := by
        rw [List.append_assoc]; exact hs1
      have hg : geq store k = (k, v) :: y :: c := by rw [hst]; exact geq_split hs1
      have hb : below store y.1 = b.reverse ++ [(k, v)] := by
        rw [hst]
        have : b.reverse ++ (k, v) :: y :: c = (b.reverse ++ [(k, v)]) ++ y :: c := by
          rw [List.append_assoc]; rfl
        rw [this]; exact below_split hs2
      unfold iterFrom
      simp only [if_true]
      rw [hg]
      simp only
      rw [hb]
      simp

/-! ## Closed forms of the `Paginate` loops -/

/-- `f` succeeds on every record of `it`, with value `g`. -/
def Total {α β : Type} (f : Bytes → α → Option β) (g : Bytes → α → β) (it : Store α) : Prop :=
  ∀ p ∈ it, f p.1 p.2 = some (g p.1 p.2)

theorem Total.tail {α β : Type} {f : Bytes → α → Option β} {g : Bytes → α → β} {x : Bytes × α} {it : Store α}
    (h : Total f g (x :: it)) : Total f g it := fun p hp => h p (List.mem_cons_of_mem _ hp)

theorem appendAlways_ok {α β : Type} {f : Bytes → α → Option β} {g : Bytes → α → β} {k : Bytes} {v : α}
    (h : f k v = some (g k v)) : Callback.appendAlways f k v = .ok [g k v] := by
  unfold Callback.appendAlways; rw [h]

theorem keyLoop_spec {α β : Type} (f : Bytes → α → Option β) (g : Bytes → α → β) (limit : Nat) :
    ∀ (it : Store α) (n : Nat) (acc : List β), Total f g it → n ≤ limit →
      keyLoop (Callback.appendAlways f) limit it n acc
        = .ok (acc ++ (it.take (limit - n)).map (uncurry g), ⟨(it[limit - n]?).map Prod.fst, 0⟩) := by
  intro it
  induction it with
  | nil => intro n acc _ _; simp [keyLoop]
  | cons x rest ih =>
    intro n acc hf hn
    obtain ⟨k, v⟩ := x
    unfold keyLoop
    by_cases h : n = limit
    · simp [h]
    · rw [if_neg h, appendAlways_ok (hf (k, v) (List.mem_cons_self ..))]
      simp only
      rw [ih (n + 1) _ hf.tail (by omega)]
      have e : limit - n = (limit - (n + 1)) + 1 := by omega
      rw [e, List.take_succ_cons, List.getElem?_cons_succ]
      simp [uncurry]

/-- Past the page and past the next key, the offset loop only counts. -/
theorem offLoop_count {α β : Type} (cb : OnResult α β) (offset end_ end1 : Nat) (ct : Bool)
    (h1 : offset ≤ end_) :
    ∀ (it : Store α) (c : Nat) (nk : Option Bytes) (acc : List β), end_ < c → end1 ≤ c →
      offLoop cb offset end_ end1 ct it c nk acc = .ok (acc, ⟨nk, if ct then c + it.length else 0⟩) := by
  intro it
  induction it with
  | nil => intro c nk acc _ _; simp [offLoop]
  | cons x rest ih =>
    intro c nk acc hc hc1
    obtain ⟨k, v⟩ := x
    unfold offLoop
    rw [if_neg (by omega), if_neg (by omega), if_neg (by omega), ih (c + 1) nk acc (by omega) (by omega)]
    simp only [List.length_cons]
    congr 3
    cases ct <;> simp; omega

/-- Closed form of the offset loop of `Paginate` from count `c ≤ end`.  `hE`: either `end + 1` did not
wrap, or the store ends before the page does. -/
theorem offLoop_spec {α β : Type} (f : Bytes → α → Option β) (g : Bytes → α → β) (offset end_ end1 : Nat) (ct : Bool)
    (h1 : offset ≤ end_) :
    ∀ (it : Store α) (c : Nat) (acc : List β), Total f g it → c ≤ end_ →
      (end1 = end_ + 1 ∨ (c + it.length ≤ end_ ∧ end1 = 0)) →
      offLoop (Callback.appendAlways f) offset end_ end1 ct it c none acc
        = .ok (acc ++ ((it.drop (offset - c)).take ((end_ - c) - (offset - c))).map (uncurry g),
               ⟨(it[end_ - c]?).map Prod.fst, if ct then c + it.length else 0⟩) := by
  intro it
  induction it with
  | nil => intro c acc _ _ _; simp [offLoop]
  | cons x rest ih =>
    intro c acc hf hc hE
    obtain ⟨k, v⟩ := x
    have hE' : end1 = end_ + 1 ∨ (c + 1 + rest.length ≤ end_ ∧ end1 = 0) := by
      rcases hE with h | ⟨h, h0⟩
      · exact Or.inl h
      · right; simp only [List.length_cons] at h; exact ⟨by omega, h0⟩
    have hlen : c + 1 + rest.length = c + ((k, v) :: rest).length := by simp only [List.length_cons]; omega
    unfold offLoop
    by_cases hA : c + 1 ≤ offset
    · rw [if_pos hA, ih (c + 1) acc hf.tail (by omega) hE']
      have e1 : offset - c = (offset - (c + 1)) + 1 := by omega
      have e2 : end_ - c = (end_ - (c + 1)) + 1 := by omega
      have e3 : (end_ - c) - (offset - c) = (end_ - (c + 1)) - (offset - (c + 1)) := by omega
      rw [e3, e1, e2, List.drop_succ_cons, List.getElem?_cons_succ, hlen]
    · rw [if_neg hA]
      by_cases hB : c + 1 ≤ end_
      · rw [if_pos hB, appendAlways_ok (hf (k, v) (List.mem_cons_self ..))]
        simp only
        rw [ih (c + 1) _ hf.tail (by omega) hE']
        have e1 : offset - c = 0 := by omega
        have e1' : offset - (c + 1) = 0 := by omega
        have e2 : end_ - c = (end_ - (c + 1)) + 1 := by omega
        rw [e1, e1', e2, hlen]
        simp [uncurry]
      · rw [if_neg hB]
        have hce : c = end_ := by omega
        have hE1 : end1 = end_ + 1 := by
          rcases hE with h | ⟨h, _⟩
          · exact h
          · simp only [List.length_cons] at h; omega
        rw [if_pos (by omega)]
        have e1 : offset - c = 0 := by omega
        have e2 : end_ - c = 0 := by omega
        cases ct with
        | true =>
          rw [if_pos rfl, offLoop_count _ _ _ _ _ h1 rest (c + 1) (some k) acc (by omega) (by omega)]
          rw [e1, e2, hlen]; simp
        | false =>
          simp [e1, e2]

/-! ## Closed forms of the `FilteredPaginate` loops with the `filter` callback -/

/-- `f` succeeds on every *matching* record of `it`, with value `g` (the `filter` shape calls `f` only
on matching records that are accumulated). -/
def TotalOn {α β : Type} (pred : Bytes → α → Bool) (f : Bytes → α → Option β) (g : Bytes → α → β) (it : Store α) : Prop :=
  ∀ p ∈ it, pred p.1 p.2 = true → f p.1 p.2 = some (g p.1 p.2)

theorem TotalOn.tail {α β : Type} {pred : Bytes → α → Bool} {f : Bytes → α → Option β} {g : Bytes → α → β}
    {x : Bytes × α} {it : Store α} (h : TotalOn pred f g (x :: it)) : TotalOn pred f g it :=
  fun p hp => h p (List.mem_cons_of_mem _ hp)

theorem Total.totalOn {α β : Type} {pred : Bytes → α → Bool} {f : Bytes → α → Option β} {g : Bytes → α → β}
    {it : Store α} (h : Total f g it) : TotalOn pred f g it := fun p hp _ => h p hp

theorem filter_cb_hit {α β : Type} {pred : Bytes → α → Bool} {f : Bytes → α → Option β} {g : Bytes → α → β}
    {k : Bytes} {v : α} (hp : pred k v = true) (h : f k v = some (g k v)) (acc : Bool) :
    Callback.filter pred f k v acc = .ok (true, if acc then [g k v] else []) := by
  unfold Callback.filter; rw [hp, h]; cases acc <;> rfl

theorem filter_cb_miss {α β : Type} {pred : Bytes → α → Bool} {f : Bytes → α → Option β}
    {k : Bytes} {v : α} (hp : pred k v = false) (acc : Bool) :
    Callback.filter pred f k v acc = .ok (false, []) := by
  unfold Callback.filter; rw [hp]; rfl

/-- The key-paging loop of `FilteredPaginate` consumes a prefix `pre` of the iterator holding the next
`limit - n` hits (or everything), and the next key is the key of the first record after it. -/
theorem fkeyLoop_spec {α β : Type} (pred : Bytes → α → Bool) (f : Bytes → α → Option β) (g : Bytes → α → β)
    (limit : Nat) :
    ∀ (it : Store α) (n : Nat) (acc : List β), TotalOn pred f g it → n ≤ limit →
      ∃ pre post, it = pre ++ post ∧
        fkeyLoop (Callback.filter pred f) limit it n acc
          = .ok (acc ++ (pre.filter (uncurry pred)).map (uncurry g), ⟨post.head?.map Prod.fst, 0⟩) ∧
        (post ≠ [] → n + (pre.filter (uncurry pred)).length = limit) ∧
        n + (pre.filter (uncurry pred)).length ≤ limit ∧
        (n < limit → it ≠ [] → pre ≠ []) := by
  intro it
  induction it with
  | nil =>
    intro n acc _ hn
    exact ⟨[], [], rfl, by simp [fkeyLoop], by simp, by simpa using hn, by simp⟩
  | cons x rest ih =>
    intro n acc hf hn
    obtain ⟨k, v⟩ := x
    by_cases h : n = limit
    · refine ⟨[], (k, v) :: rest, rfl, ?_, ?_, ?_, ?_⟩
      · unfold fkeyLoop; simp [h]
      · intro _; simpa using h
      · simpa using hn
      · intro h'; omega
    · cases hp : pred k v with
      | true =>
        obtain ⟨pre, post, e, hrun, h1, h2, _⟩ := ih (n + 1) (acc ++ [g k v]) hf.tail (by omega)
        refine ⟨(k, v) :: pre, post, by rw [e]; rfl, ?_, ?_, ?_, ?_⟩
        · unfold fkeyLoop
          rw [if_neg h, filter_cb_hit hp (hf (k, v) (List.mem_cons_self ..) hp)]
          simp only [if_true]
          rw [hrun]
          simp [uncurry, hp]
        · intro hq; have := h1 hq
          rw [List.filter_cons_of_pos (show uncurry pred (k, v) = true from hp), List.length_cons]; omega
        · rw [List.filter_cons_of_pos (show uncurry pred (k, v) = true from hp), List.length_cons]; omega
        · intro _ _; simp
      | false =>
        obtain ⟨pre, post, e, hrun, h1, h2, _⟩ := ih n acc hf.tail hn
        refine ⟨(k, v) :: pre, post, by rw [e]; rfl, ?_, ?_, ?_, ?_⟩
        · unfold fkeyLoop
          rw [if_neg h, filter_cb_miss hp]
          simp only [List.append_nil]
          rw [show (if false = true then n + 1 else n) = n from rfl, hrun]
          simp [uncurry, hp]
        · intro hq
          rw [List.filter_cons_of_neg (show ¬ uncurry pred (k, v) = true by simp [uncurry, hp])]; exact h1 hq
        · rw [List.filter_cons_of_neg (show ¬ uncurry pred (k, v) = true by simp [uncurry, hp])]; exact h2
        · intro _ _; simp

theorem filter_cb_noacc {α β : Type} (pred : Bytes → α → Bool) (f : Bytes → α → Option β) (k : Bytes) (v : α) :
    Callback.filter pred f k v false = .ok (pred k v, []) := by
  unfold Callback.filter; cases pred k v <;> rfl

/-- Past the page and the next key, the filtered offset loop only counts hits. -/
theorem foffLoop_count {α β : Type} (pred : Bytes → α → Bool) (f : Bytes → α → Option β)
    (offset end_ end1 : Nat) :
    ∀ (it : Store α) (n : Nat) (k0 : Bytes) (acc : List β), end_ < n → end1 ≤ n →
      foffLoop (Callback.filter pred f) offset end_ end1 true it n (some k0) acc
        = .ok (acc, ⟨some k0, n + (it.filter (uncurry pred)).length⟩) := by
  intro it
  induction it with
  | nil => intro n k0 acc _ _; simp [foffLoop]
  | cons x rest ih =>
    intro n k0 acc hn hn1
    obtain ⟨k, v⟩ := x
    have hacc : (decide (offset ≤ n) && decide (n < end_)) = false := by
      have : ¬ n < end_ := by omega
      simp [this]
    unfold foffLoop
    rw [hacc, filter_cb_noacc]
    simp only [List.append_nil, if_true]
    cases hp : pred k v with
    | true =>
      rw [List.filter_cons_of_pos (show uncurry pred (k, v) = true from hp), List.length_cons]
      simp only [if_true]
      rw [if_neg (by omega), ih (n + 1) k0 acc (by omega) (by omega)]
      congr 3; omega
    | false =>
      rw [List.filter_cons_of_neg (show ¬ uncurry pred (k, v) = true by simp [uncurry, hp])]
      simp only [Bool.false_eq_true, if_false]
      by_cases h : n = end1
      · rw [if_pos h, ih n k0 acc hn hn1]
      · rw [if_neg h, ih n k0 acc hn hn1]

/-- Closed form of the offset loop of `FilteredPaginate` with the `filter` callback from `n ≤ end` hits,
when `end + 1` does not wrap: the page is a window of the *matching* records `H`, the next key is the
key of the `(end+1)`-th match, the total is the number of matches. -/
theorem foffLoop_spec {α β : Type} (pred : Bytes → α → Bool) (f : Bytes → α → Option β) (g : Bytes → α → β)
    (offset end_ : Nat) (ct : Bool) (h1 : offset ≤ end_) :
    ∀ (it : Store α) (n : Nat) (acc : List β), TotalOn pred f g it → n ≤ end_ →
      foffLoop (Callback.filter pred f) offset end_ (end_ + 1) ct it n none acc
        = .ok (acc ++ (((it.filter (uncurry pred)).drop (offset - n)).take ((end_ - n) - (offset - n))).map (uncurry g),
               ⟨((it.filter (uncurry pred))[end_ - n]?).map Prod.fst,
                if ct then n + (it.filter (uncurry pred)).length else 0⟩) := by
  intro it
  induction it with
  | nil => intro n acc _ _; simp [foffLoop]
  | cons x rest ih =>
    intro n acc hf hn
    obtain ⟨k, v⟩ := x
    unfold foffLoop
    cases hp : pred k v with
    | false =>
      rw [filter_cb_miss hp, List.filter_cons_of_neg (show ¬ uncurry pred (k, v) = true by simp [uncurry, hp])]
      simp only [Bool.false_eq_true, if_false, List.append_nil]
      rw [if_neg (by omega), ih n acc hf.tail hn]
    | true =>
      rw [filter_cb_hit hp (hf (k, v) (List.mem_cons_self ..) hp),
        List.filter_cons_of_pos (show uncurry pred (k, v) = true from hp)]
      simp only [if_true, List.length_cons]
      by_cases hA : n < offset
      · have hacc : (decide (offset ≤ n) && decide (n < end_)) = false := by
          have : ¬ offset ≤ n := by omega
          simp [this]
        rw [hacc, if_neg (by omega)]
        simp only [Bool.false_eq_true, if_false, List.append_nil]
        rw [ih (n + 1) acc hf.tail (by omega)]
        have e1 : offset - n = (offset - (n + 1)) + 1 := by omega
        have e2 : end_ - n = (end_ - (n + 1)) + 1 := by omega
        have e3 : (end_ - n) - (offset - n) = (end_ - (n + 1)) - (offset - (n + 1)) := by omega
        rw [e3, e1, e2, List.drop_succ_cons, List.getElem?_cons_succ]
        congr 3; cases ct <;> simp; omega
      · by_cases hB : n < end_
        · have hacc : (decide (offset ≤ n) && decide (n < end_)) = true := by
            have : offset ≤ n := by omega
            simp [this, hB]
          rw [hacc, if_neg (by omega)]
          simp only [if_true]
          rw [ih (n + 1) _ hf.tail (by omega)]
          have e1 : offset - n = 0 := by omega
          have e1' : offset - (n + 1) = 0 := by omega
          have e2 : end_ - n = (end_ - (n + 1)) + 1 := by omega
          rw [e1, e1', e2]
          simp only [List.drop_zero, Nat.sub_zero, List.take_succ_cons, List.map_cons, List.getElem?_cons_succ,
            List.append_assoc, List.cons_append, List.nil_append]
          congr 3; cases ct <;> simp; omega
        · have hne : n = end_ := by omega
          have hacc : (decide (offset ≤ n) && decide (n < end_)) = false := by simp [hB]
          rw [hacc, if_pos (by omega)]
          simp only [Bool.false_eq_true, if_false, List.append_nil]
          have e1 : offset - n = 0 := by omega
          have e2 : end_ - n = 0 := by omega
          cases ct with
          | true =>
            rw [if_pos rfl, foffLoop_count pred f offset end_ (end_ + 1) rest (n + 1) k acc (by omega) (by omega)]
            rw [e1, e2]; simp; omega
          | false =>
            simp [e1, e2]

/-! ## Following the next key -/

/-- What one key-paged request returns on the iterator `it`: the matching records of a non-empty prefix
`pre`; the next key is the key of the first record after `pre`; a page followed by another is full. -/
def IsPage {α β : Type} (pred : Bytes → α → Bool) (g : Bytes → α → β) (limit : Nat) (it : Store α)
    (r : List β × PageResponse) : Prop :=
  ∃ pre post, it = pre ++ post ∧
    r.1 = (pre.filter (uncurry pred)).map (uncurry g) ∧
    r.2.nextKey = post.head?.map Prod.fst ∧
    (post ≠ [] → (pre.filter (uncurry pred)).length = limit) ∧
    (pre.filter (uncurry pred)).length ≤ limit ∧
    (it ≠ [] → pre ≠ [])

/-- The pages of a complete enumeration of `it`. -/
def GoodPages {α β : Type} (pred : Bytes → α → Bool) (g : Bytes → α → β) (limit : Nat) (it : Store α)
    (pages : List (List β)) : Prop :=
  pages.flatten = (it.filter (uncurry pred)).map (uncurry g) ∧
  pages ≠ [] ∧
  (∀ p ∈ pages.dropLast, p.length = limit) ∧
  (∀ p ∈ pages, p.length ≤ limit) ∧
  ((∀ x ∈ it, uncurry pred x = true) → it ≠ [] → ∀ p ∈ pages, p ≠ [])

theorem keyNonempty_some_cons (b : UInt8) (bs : Bytes) : keyNonempty (some (b :: bs)) = true := rfl

theorem keyNonempty_of_ne {k : Bytes} (h : k ≠ []) : keyNonempty (some k) = true := by
  cases k with
  | nil => exact absurd rfl h
  | cons b bs => rfl

/-- Following the next key enumerates the whole order `L`, provided the first request returns a page of
`L` and a request keyed by a record that is not the first of `L` returns a page of the suffix of `L`
starting at that record. -/
theorem pagesAux_spec {α β : Type} (pred : Bytes → α → Bool) (g : Bytes → α → β) (limit : Nat) (reverse : Bool)
    (run : PageRequest → Except String (List β × PageResponse)) (L : Store α) (hne : KeysNonempty L)
    (hk : ∀ a k v b, L = a ++ (k, v) :: b → a ≠ [] →
      ∃ r, run { key := some k, offset := 0, limit := limit, countTotal := false, reverse := reverse } = .ok r ∧
        IsPage pred g limit ((k, v) :: b) r) :
    ∀ (fuel : Nat) (a it : Store α) (key : Option Bytes), L = a ++ it →
      (∃ r, run { key := key, offset := 0, limit := limit, countTotal := false, reverse := reverse } = .ok r ∧
        IsPage pred g limit it r) →
      it.length < fuel →
      ∃ pages, pagesAux run limit reverse fuel key = .ok pages ∧ GoodPages pred g limit it pages := by
  intro fuel
  induction fuel with
  | zero => intro a it key _ _ h; omega
  | succ fuel ih =>
    intro a it key hL hrun hfuel
    obtain ⟨r, hr, pre, post, hit, hitems, hnk, hfull, hle, hpre⟩ := hrun
    obtain ⟨items, resp⟩ := r
    simp only at hitems hnk
    unfold pagesAux
    rw [hr]
    simp only
    cases post with
    | nil =>
      have hnk' : resp.nextKey = none := by rw [hnk]; rfl
      rw [hnk']
      simp only [keyNonempty, Bool.false_eq_true, if_false]
      rw [List.append_nil] at hit
      refine ⟨[items], rfl, ?_, by simp, by simp, ?_, ?_⟩
      · rw [hit, hitems]; simp
      · intro p hp; rw [List.mem_singleton] at hp; rw [hp, hitems, List.length_map]; exact hle
      · intro hall hne' p hp
        rw [List.mem_singleton] at hp
        have hf : pre.filter (uncurry pred) = pre := List.filter_eq_self.mpr (by rw [← hit]; exact hall)
        rw [hp, hitems, hf]
        intro e
        exact hpre hne' (List.map_eq_nil_iff.mp e)
    | cons y post' =>
      obtain ⟨k', v'⟩ := y
      have hnk' : resp.nextKey = some k' := by rw [hnk]; rfl
      have hmem : (k', v') ∈ L := by rw [hL, hit]; simp
      have hk'ne : k' ≠ [] := hne _ hmem
      have hitne : it ≠ [] := by rw [hit]; simp
      have hprene := hpre hitne
      rw [hnk', keyNonempty_of_ne hk'ne, if_pos rfl]
      have hL' : L = (a ++ pre) ++ (k', v') :: post' := by rw [hL, hit, List.append_assoc]
      have hlen : ((k', v') :: post').length < fuel := by
        have h1 : it.length = pre.length + ((k', v') :: post').length := by rw [hit, List.length_append]
        have h2 : 0 < pre.length := List.length_pos_iff.mpr hprene
        omega
      obtain ⟨pages', hpages', hflat, hpne, hdrop, hall, hnonempty⟩ :=
        ih (a ++ pre) ((k', v') :: post') (some k') hL'
          (hk (a ++ pre) k' v' post' hL' (by simp [hprene])) hlen
      rw [hpages']
      have hfull' := hfull (by simp)
      refine ⟨items :: pages', rfl, ?_, by simp, ?_, ?_, ?_⟩
      · rw [List.flatten_cons, hflat, hitems, hit, List.filter_append, List.map_append]
      · rw [List.dropLast_cons_of_ne_nil hpne]
        intro p hp
        rcases List.mem_cons.mp hp with e | hp
        · rw [e, hitems, List.length_map]; exact hfull'
        · exact hdrop p hp
      · intro p hp
        rcases List.mem_cons.mp hp with e | hp
        · rw [e, hitems, List.length_map]; exact hle
        · exact hall p hp
      · intro hallp _ p hp
        have hallpre : ∀ x ∈ pre, uncurry pred x = true := fun x hx => hallp x (by rw [hit]; simp [hx])
        have hallpost : ∀ x ∈ (k', v') :: post', uncurry pred x = true :=
          fun x hx => hallp x (by rw [hit]; exact List.mem_append_right _ hx)
        rcases List.mem_cons.mp hp with e | hp
        · have hf : pre.filter (uncurry pred) = pre := List.filter_eq_self.mpr hallpre
          rw [e, hitems, hf]
          intro e'
          exact hprene (List.map_eq_nil_iff.mp e')
        · exact hnonempty hallpost (by simp) p hp

/-- The number of pages: all pages but the last are full and the last is non-empty. -/
theorem pages_length_eq {β : Type} (limit : Nat) (hl : 1 ≤ limit) :
    ∀ (pages : List (List β)), pages ≠ [] → (∀ p ∈ pages.dropLast, p.length = limit) →
      (∀ p ∈ pages, p.length ≤ limit) → (∀ p ∈ pages, p ≠ []) →
      pages.length = (pages.flatten.length + limit - 1) / limit := by
  have key : ∀ (pages : List (List β)), pages ≠ [] → (∀ p ∈ pages.dropLast, p.length = limit) →
      (∀ p ∈ pages, p.length ≤ limit) → (∀ p ∈ pages, p ≠ []) →
      ∃ m, 1 ≤ m ∧ m ≤ limit ∧ pages.flatten.length = (pages.length - 1) * limit + m := by
    intro pages
    induction pages with
    | nil => intro h; exact absurd rfl h
    | cons p rest ih =>
      intro _ hd hle hne
      cases rest with
      | nil =>
        refine ⟨p.length, ?_, hle p (by simp), by simp⟩
        exact List.length_pos_iff.mpr (hne p (by simp))
      | cons q rest' =>
        rw [List.dropLast_cons_of_ne_nil (by simp)] at hd
        obtain ⟨m, hm1, hm2, hm⟩ := ih (by simp) (fun x hx => hd x (List.mem_cons_of_mem _ hx))
          (fun x hx => hle x (List.mem_cons_of_mem _ hx)) (fun x hx => hne x (List.mem_cons_of_mem _ hx))
        refine ⟨m, hm1, hm2, ?_⟩
        rw [List.flatten_cons, List.length_append, hm, hd p (by simp)]
        simp only [List.length_cons, Nat.add_sub_cancel]
        rw [Nat.succ_mul]; omega
  intro pages hne hd hle hnn
  obtain ⟨m, hm1, hm2, hm⟩ := key pages hne hd hle hnn
  have hpos : 0 < pages.length := List.length_pos_iff.mpr hne
  obtain ⟨q, hq⟩ : ∃ q, pages.length = q + 1 := ⟨pages.length - 1, by omega⟩
  rw [hm, hq]
  simp only [Nat.add_sub_cancel]
  symm
  apply Nat.div_eq_of_lt_le
  · rw [Nat.succ_mul]; omega
  · rw [Nat.succ_mul, Nat.succ_mul]; omega

/-- If the `i`-th matching record of `l` is `x`, then `l` splits at `x` with exactly the first `i`
matches before it. -/
theorem filter_split {γ : Type} (p : γ → Bool) :
    ∀ (l : List γ) (i : Nat) (x : γ), (l.filter p)[i]? = some x →
      ∃ pre post, l = pre ++ x :: post ∧ pre.filter p = (l.filter p).take i := by
  intro l
  induction l with
  | nil => intro i x h; simp at h
  | cons y l' ih =>
    intro i x h
    by_cases hy : p y = true
    · rw [List.filter_cons_of_pos hy] at h ⊢
      cases i with
      | zero =>
        simp only [List.getElem?_cons_zero, Option.some.injEq] at h
        exact ⟨[], l', by rw [h]; rfl, by simp⟩
      | succ j =>
        rw [List.getElem?_cons_succ] at h
        obtain ⟨pre, post, e, hf⟩ := ih j x h
        refine ⟨y :: pre, post, by rw [e]; rfl, ?_⟩
        rw [List.filter_cons_of_pos hy, hf, List.take_succ_cons]
    · rw [List.filter_cons_of_neg hy] at h ⊢
      obtain ⟨pre, post, e, hf⟩ := ih i x h
      refine ⟨y :: pre, post, by rw [e]; rfl, ?_⟩
      rw [List.filter_cons_of_neg hy, hf]

/-- A window `take limit` of the matches with next key "the `limit`-th match" is a page. -/
theorem isPage_of_window {α β : Type} (pred : Bytes → α → Bool) (g : Bytes → α → β) (limit : Nat) (hl : 1 ≤ limit)
    (it : Store α) (t : Nat) :
    IsPage pred g limit it
      (((it.filter (uncurry pred)).take limit).map (uncurry g),
       ⟨((it.filter (uncurry pred))[limit]?).map Prod.fst, t⟩) := by
  cases hx : (it.filter (uncurry pred))[limit]? with
  | none =>
    have hlen := List.getElem?_eq_none_iff.mp hx
    refine ⟨it, [], by simp, ?_, rfl, by simp, hlen, fun h => h⟩
    simp only; rw [List.take_of_length_le hlen]
  | some x =>
    obtain ⟨pre, post, e, hf⟩ := filter_split (uncurry pred) it limit x hx
    have hlt : limit < (it.filter (uncurry pred)).length := by
      rcases Nat.lt_or_ge limit (it.filter (uncurry pred)).length with h | h
      · exact h
      · rw [List.getElem?_eq_none_iff.mpr h] at hx; exact absurd hx (by simp)
    have hlen : (pre.filter (uncurry pred)).length = limit := by
      rw [hf, List.length_take]; omega
    refine ⟨pre, x :: post, e, ?_, rfl, fun _ => hlen, by omega, ?_⟩
    · simp only; rw [hf]
    · intro _ hp
      rw [hp] at hlen
      simp at hlen; omega

/-- The same for an unfiltered iterator. -/
theorem isPage_take {α β : Type} (g : Bytes → α → β) (limit : Nat) (hl : 1 ≤ limit) (it : Store α) (t : Nat) :
    IsPage (fun _ _ => true) g limit it
      ((it.take limit).map (uncurry g), ⟨(it[limit]?).map Prod.fst, t⟩) := by
  have h := isPage_of_window (fun _ _ => true) g limit hl it t
  have e : it.filter (uncurry fun (_ : Bytes) (_ : α) => true) = it :=
    List.filter_eq_self.mpr (fun _ _ => rfl)
  rw [e] at h
  exact h

/-! ## Stepping the offset -/

/-- Requesting offsets `off, off+limit, …` enumerates the matches `H` from `off` on, provided every
such request returns the window `[off, off+limit)` of `H` and the key of `H[off+limit]`. -/
theorem offsetPagesAux_spec {α β : Type} (g : Bytes → α → β) (limit : Nat) (hl : 1 ≤ limit) (reverse : Bool)
    (run : PageRequest → Except String (List β × PageResponse)) (H : Store α) (hne : KeysNonempty H)
    (hrun : ∀ off, off ≤ H.length →
      run { key := none, offset := off, limit := limit, countTotal := false, reverse := reverse }
        = .ok (((H.drop off).take limit).map (uncurry g), ⟨(H[off + limit]?).map Prod.fst, 0⟩)) :
    ∀ (fuel off : Nat), off ≤ H.length → H.length - off < fuel →
      ∃ pages, offsetPagesAux run limit reverse fuel off = .ok pages ∧
        pages.flatten = (H.drop off).map (uncurry g) ∧
        (∀ p ∈ pages.dropLast, p.length = limit) ∧ pages ≠ [] := by
  intro fuel
  induction fuel with
  | zero => intro off _ h; omega
  | succ fuel ih =>
    intro off hoff hfuel
    unfold offsetPagesAux
    rw [hrun off hoff]
    simp only
    cases hx : H[off + limit]? with
    | none =>
      have hlen := List.getElem?_eq_none_iff.mp hx
      simp only [Option.map_none, keyNonempty, Bool.false_eq_true, if_false]
      refine ⟨_, rfl, ?_, by simp, by simp⟩
      rw [List.flatten_cons, List.flatten_nil, List.append_nil, List.take_of_length_le]
      rw [List.length_drop]; omega
    | some x =>
      have hlt : off + limit < H.length := by
        rcases Nat.lt_or_ge (off + limit) H.length with h | h
        · exact h
        · rw [List.getElem?_eq_none_iff.mpr h] at hx; exact absurd hx (by simp)
      have hxm : x ∈ H := List.mem_of_getElem? hx
      simp only [Option.map_some]
      rw [if_pos (keyNonempty_of_ne (hne x hxm))]
      obtain ⟨pages', hp', hflat, hdrop, hpne⟩ := ih (off + limit) (by omega) (by omega)
      rw [hp']
      refine ⟨_, rfl, ?_, ?_, by simp⟩
      · rw [List.flatten_cons, hflat, ← List.map_append]
        congr 1
        have : List.drop (off + limit) H = List.drop limit (List.drop off H) := by rw [List.drop_drop]
        rw [this, List.take_append_drop]
      · rw [List.dropLast_cons_of_ne_nil hpne]
        intro p hp
        rcases List.mem_cons.mp hp with e | hp
        · rw [e, List.length_map, List.length_take, List.length_drop]; omega
        · exact hdrop p hp

/-! ## Closed forms of `paginate` and `filteredPaginate` -/

instance {α : Type} (s : Store α) : Decidable (Sorted s) := by unfold Sorted; infer_instance
instance {α : Type} (s : Store α) : Decidable (KeysNonempty s) := by unfold KeysNonempty; infer_instance

theorem Total.dir {α β : Type} {f : Bytes → α → Option β} {g : Bytes → α → β} {s : Store α} (h : Total f g s)
    (r : Bool) : Total f g (dir r s) := fun p hp => h p ((mem_dir r s p).mp hp)

theorem TotalOn.dir {α β : Type} {pred : Bytes → α → Bool} {f : Bytes → α → Option β} {g : Bytes → α → β}
    {s : Store α} (h : TotalOn pred f g s) (r : Bool) : TotalOn pred f g (dir r s) :=
  fun p hp => h p ((mem_dir r s p).mp hp)

theorem Total.of_append_right {α β : Type} {f : Bytes → α → Option β} {g : Bytes → α → β} {a b : Store α}
    (h : Total f g (a ++ b)) : Total f g b := fun p hp => h p (List.mem_append_right _ hp)

theorem TotalOn.of_append_right {α β : Type} {pred : Bytes → α → Bool} {f : Bytes → α → Option β}
    {g : Bytes → α → β} {a b : Store α} (h : TotalOn pred f g (a ++ b)) : TotalOn pred f g b :=
  fun p hp => h p (List.mem_append_right _ hp)

theorem effLimit_pos {req : PageRequest} (h : 1 ≤ req.limit) : effLimit req = req.limit := by
  unfold effLimit; rw [if_neg (by omega)]

theorem effCountTotal_pos {req : PageRequest} (h : 1 ≤ req.limit) : effCountTotal req = req.countTotal := by
  unfold effCountTotal; rw [if_neg (by omega)]

/-- Offset paging of `Paginate`: the window `[offset, offset+limit)` of the iteration order, the key
of the record after the window, and (when requested) the number of records. -/
theorem paginate_offset_eq {α β : Type} (store : Store α) (f : Bytes → α → Option β) (g : Bytes → α → β)
    (hf : Total f g store) (offset limit : Nat) (hl : 1 ≤ limit) (ct reverse : Bool)
    (h64 : offset + limit < u64) (hlen : store.length + 1 < u64) :
    paginate store { key := none, offset := offset, limit := limit, countTotal := ct, reverse := reverse }
        (Callback.appendAlways f)
      = .ok ((((dir reverse store).drop offset).take limit).map (uncurry g),
             ⟨((dir reverse store)[offset + limit]?).map Prod.fst, if ct then store.length else 0⟩) := by
  unfold paginate
  have hL : effLimit { key := none, offset := offset, limit := limit, countTotal := ct, reverse := reverse } = limit :=
    effLimit_pos hl
  have hC : effCountTotal { key := none, offset := offset, limit := limit, countTotal := ct, reverse := reverse } = ct :=
    effCountTotal_pos hl
  simp only [Option.isSome_none, Bool.false_eq_true, and_false, if_false, keyNonempty, iterFrom_none, hL, hC]
  rw [Nat.mod_eq_of_lt h64]
  have hE : (offset + limit + 1) % u64 = offset + limit + 1 ∨
      (0 + (dir reverse store).length ≤ offset + limit ∧ (offset + limit + 1) % u64 = 0) := by
    by_cases h : offset + limit + 1 < u64
    · exact Or.inl (Nat.mod_eq_of_lt h)
    · right
      have e : offset + limit + 1 = u64 := by omega
      rw [e, Nat.mod_self, dir_length]
      exact ⟨by omega, rfl⟩
  rw [offLoop_spec f g offset (offset + limit) _ ct (by omega) (dir reverse store) 0 [] (hf.dir reverse)
    (by omega) hE]
  simp only [Nat.sub_zero, List.nil_append, Nat.zero_add, dir_length]
  rw [Nat.add_sub_cancel_left]

/-- Key paging of `Paginate` from a key that is present (not the first of the order in reverse mode). -/
theorem paginate_key_eq {α β : Type} (store : Store α) (hs : Sorted store) (f : Bytes → α → Option β)
    (g : Bytes → α → β) (hf : Total f g store) (limit : Nat) (hl : 1 ≤ limit) (ct reverse : Bool)
    {a b : Store α} {k : Bytes} {v : α} (hk : k ≠ [])
    (hsplit : dir reverse store = a ++ (k, v) :: b) (ha : reverse = true → a ≠ []) :
    paginate store { key := some k, offset := 0, limit := limit, countTotal := ct, reverse := reverse }
        (Callback.appendAlways f)
      = .ok ((((k, v) :: b).take limit).map (uncurry g), ⟨(((k, v) :: b)[limit]?).map Prod.fst, 0⟩) := by
  unfold paginate
  have hL : effLimit { key := some k, offset := 0, limit := limit, countTotal := ct, reverse := reverse } = limit :=
    effLimit_pos hl
  have hT : Total f g ((k, v) :: b) := by
    have := hf.dir reverse
    rw [hsplit] at this
    exact this.of_append_right
  simp only [Nat.lt_irrefl, false_and, if_false, keyNonempty_of_ne hk, if_true,
    iterFrom_some hs reverse hsplit ha, hL]
  rw [keyLoop_spec f g limit _ 0 [] hT (by omega)]
  simp

/-- Offset paging of `FilteredPaginate` with the `filter` callback: the window of the *matching*
records, the key of the next match, and (when requested) the number of matches. -/
theorem filteredPaginate_offset_eq {α β : Type} (store : Store α) (pred : Bytes → α → Bool)
    (f : Bytes → α → Option β) (g : Bytes → α → β) (hf : TotalOn pred f g store)
    (offset limit : Nat) (hl : 1 ≤ limit) (ct reverse : Bool) (h64 : offset + limit + 1 < u64) :
    filteredPaginate store { key := none, offset := offset, limit := limit, countTotal := ct, reverse := reverse }
        (Callback.filter pred f)
      = .ok (((((dir reverse store).filter (uncurry pred)).drop offset).take limit).map (uncurry g),
             ⟨(((dir reverse store).filter (uncurry pred))[offset + limit]?).map Prod.fst,
              if ct then ((dir reverse store).filter (uncurry pred)).length else 0⟩) := by
  unfold filteredPaginate
  have hL : effLimit { key := none, offset := offset, limit := limit, countTotal := ct, reverse := reverse } = limit :=
    effLimit_pos hl
  have hC : effCountTotal { key := none, offset := offset, limit := limit, countTotal := ct, reverse := reverse } = ct :=
    effCountTotal_pos hl
  simp only [Option.isSome_none, Bool.false_eq_true, and_false, if_false, keyNonempty, iterFrom_none, hL, hC]
  rw [Nat.mod_eq_of_lt (by omega : offset + limit < u64), Nat.mod_eq_of_lt h64]
  rw [foffLoop_spec pred f g offset (offset + limit) ct (by omega) (dir reverse store) 0 [] (hf.dir reverse)
    (by omega)]
  simp only [Nat.sub_zero, List.nil_append, Nat.zero_add]
  rw [Nat.add_sub_cancel_left]

/-- Key paging of `FilteredPaginate` with the `filter` callback from a key that is present. -/
theorem filteredPaginate_key_isPage {α β : Type} (store : Store α) (hs : Sorted store) (pred : Bytes → α → Bool)
    (f : Bytes → α → Option β) (g : Bytes → α → β) (hf : TotalOn pred f g store) (limit : Nat) (hl : 1 ≤ limit)
    (ct reverse : Bool) {a b : Store α} {k : Bytes} {v : α} (hk : k ≠ [])
    (hsplit : dir reverse store = a ++ (k, v) :: b) (ha : reverse = true → a ≠ []) :
    ∃ r, filteredPaginate store { key := some k, offset := 0, limit := limit, countTotal := ct, reverse := reverse }
        (Callback.filter pred f) = .ok r ∧ IsPage pred g limit ((k, v) :: b) r := by
  unfold filteredPaginate
  have hL : effLimit { key := some k, offset := 0, limit := limit, countTotal := ct, reverse := reverse } = limit :=
    effLimit_pos hl
  have hT : TotalOn pred f g ((k, v) :: b) := by
    have := hf.dir reverse
    rw [hsplit] at this
    exact this.of_append_right
  simp only [Nat.lt_irrefl, false_and, if_false, keyNonempty_of_ne hk, if_true,
    iterFrom_some hs reverse hsplit ha, hL]
  obtain ⟨pre, post, e, hrun, h1, h2, h3⟩ := fkeyLoop_spec pred f g limit ((k, v) :: b) 0 [] hT (by omega)
  refine ⟨_, hrun, pre, post, e, by simp, rfl, ?_, ?_, ?_⟩
  · intro hp; have := h1 hp; omega
  · omega
  · intro hne; exact h3 (by omega) hne

end Hub.SDK.Paginate
