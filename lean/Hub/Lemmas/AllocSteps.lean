import Hub.Lemmas.SubIdxSteps
/-
C06 — Bandwidth quota is conserved: sharing moves it, usage only consumes it.

`AllocInv` (bounds `0 ≤ used ≤ granted`, allocations under their own key, stored plans have positive
gigabytes, stored sessions have non-negative counters) is preserved by every handler, hook piece and
operation without outside hypotheses; `QuotaConserved` is preserved given `CountInv` and `SubIdx` of
the pre-state.  `used` never decreases, grows only when a session of that very allocation is settled
and by at most the bytes the session reported.
-/
set_option linter.unusedSimpArgs false
set_option linter.unusedVariables false
set_option linter.unnecessarySeqFocus false
set_option linter.unusedTactic false
set_option linter.unreachableTactic false

namespace Hub.Model
open Hub.SDK
open Hub.Generated (Status AmountForBytes GetProportionOfCoin Gigabyte)
open Hub.Generated.Keys

/-! ### plans and sessions: the operations that leave them alone -/

structure PSView where
  planActive : Tbl Nat Plan
  planInactive : Tbl Nat Plan
  sessions : Tbl Nat Session

def psView (s : State) : PSView := ⟨s.planActive, s.planInactive, s.sessions⟩

@[simp] theorem psView_planActive (s : State) : (psView s).planActive = s.planActive := rfl
@[simp] theorem psView_planInactive (s : State) : (psView s).planInactive = s.planInactive := rfl
@[simp] theorem psView_sessions (s : State) : (psView s).sessions = s.sessions := rfl
@[simp] theorem psView_emit (s : State) (e : Event) : psView (emit s e) = psView s := rfl

theorem psView_of_moneyFrame {s s' : State} (h : MoneyFrame s s') : psView s' = psView s := by
  unfold MoneyFrame at h; rw [h]; rfl

theorem psView_plans {s s' : State} (h : psView s' = psView s) :
    s'.planActive = s.planActive ∧ s'.planInactive = s.planInactive :=
  ⟨congrArg PSView.planActive h, congrArg PSView.planInactive h⟩

theorem psView_sess {s s' : State} (h : psView s' = psView s) : s'.sessions = s.sessions := congrArg PSView.sessions h

theorem setProvider_psView {s s' : State} {p : Provider} (h : setProvider s p = .ok s') : psView s' = psView s := by
  unfold setProvider at h
  split at h <;> simp only [pure_eq_ok, gopanic_ne_ok] at h <;> (try subst h) <;> first | rfl | contradiction

theorem setNode_psView {s s' : State} {n : Node} (h : setNode s n = .ok s') : psView s' = psView s := by
  unfold setNode at h
  split at h <;> simp only [pure_eq_ok, gopanic_ne_ok] at h <;> (try subst h) <;> first | rfl | contradiction

theorem provRegister_psView {s s' : State} {frm : Addr} {n i w d : Bytes} (h : provRegister s frm n i w d = .ok s') :
    psView s' = psView s := by
  unfold provRegister at h
  simp only [bind_eq_ok, pure_eq_ok, require_eq_ok] at h
  obtain ⟨_, _, s1, h1, s2, h2, rfl⟩ := h
  rw [psView_emit, setProvider_psView h2, psView_of_moneyFrame (fundCommunityPool_frame h1)]

theorem provUpdate_psView {s s' : State} {frm : Addr} {n i w d : Bytes} {st : Status} (h : provUpdate s frm n i w d st = .ok s') :
    psView s' = psView s := by
  unfold provUpdate at h
  simp only [bind_eq_ok, pure_eq_ok, orReject_eq_ok] at h
  obtain ⟨p, _, s3, h3, rfl⟩ := h
  rw [psView_emit, setProvider_psView h3]
  split <;> split <;> rfl

theorem nodeRegister_psView {s s' : State} {frm : Addr} {gb hr : Coins} {url : Bytes} (h : nodeRegister s frm gb hr url = .ok s') :
    psView s' = psView s := by
  unfold nodeRegister at h
  simp only [bind_eq_ok, pure_eq_ok, require_eq_ok] at h
  obtain ⟨_, _, _, _, _, _, s1, h1, s2, h2, rfl⟩ := h
  rw [psView_emit, setNode_psView h2, psView_of_moneyFrame (fundCommunityPool_frame h1)]

theorem nodeUpdate_psView {s s' : State} {frm : Addr} {gb hr : Option Coins} {url : Bytes} (h : nodeUpdate s frm gb hr url = .ok s') :
    psView s' = psView s := by
  unfold nodeUpdate at h
  simp only [bind_eq_ok, pure_eq_ok, require_eq_ok, orReject_eq_ok] at h
  obtain ⟨_, _, _, _, n, _, s1, h1, rfl⟩ := h
  rw [psView_emit, setNode_psView h1]

theorem nodeStatus_psView {s s' : State} {frm : Addr} {st : Status} (h : nodeStatus s frm st = .ok s') :
    psView s' = psView s := by
  unfold nodeStatus at h
  simp only [bind_eq_ok, pure_eq_ok, orReject_eq_ok] at h
  obtain ⟨n, _, s5, h5, rfl⟩ := h
  rw [psView_emit, setNode_psView h5]
  split <;> split <;> split <;> split <;> rfl

theorem planLink_psView {s s' : State} {frm : Addr} {id : Nat} {node : Addr}
    (h : planLink s frm id node = .ok s') : psView s' = psView s := by
  unfold planLink at h
  simp only [bind_eq_ok, pure_eq_ok, require_eq_ok, orReject_eq_ok] at h
  obtain ⟨p, _, _, _, _, _, rfl⟩ := h
  rfl

theorem planUnlink_psView {s s' : State} {frm : Addr} {id : Nat} {node : Addr}
    (h : planUnlink s frm id node = .ok s') : psView s' = psView s := by
  unfold planUnlink at h
  simp only [bind_eq_ok, pure_eq_ok, require_eq_ok, orReject_eq_ok] at h
  obtain ⟨p, _, _, _, rfl⟩ := h
  rfl

theorem swap_psView {s s' : State} {frm recv : Addr} {hash : Bytes} {amt : Int}
    (h : swap s frm hash recv amt = .ok s') : psView s' = psView s := by
  unfold swap sendModuleToAccount mintCoins at h
  simp only [bind_eq_ok, pure_eq_ok, require_eq_ok] at h
  obtain ⟨_, _, _, _, _, _, q, _, coin, _, s1, ⟨nb, _, ns, _, rfl⟩, s2, h2, rfl⟩ := h
  split at h2
  · simp [reject] at h2
  · rw [psView_emit]
    exact (rfl : psView { s2 with swaps := _ } = psView s2).trans
      ((psView_of_moneyFrame (sendCoins_frame h2)).trans (by unfold setSupply setBalance; rfl))

theorem gov_psView {s s' : State} {c : ParamChange} (hg : gov s c = some s') : psView s' = psView s := by
  unfold gov at hg
  cases c <;> simp only [] at hg <;> (try split at hg) <;> (try split at hg) <;>
    first
      | (simp only [Option.some.injEq] at hg; rw [← hg]; rfl)
      | (simp only [reduceCtorEq] at hg)

theorem psView_mintBeginBlock_go (l : List Inflation) (s : State) : psView (mintBeginBlock.go s l) = psView s := by
  induction l generalizing s with
  | nil => rfl
  | cons item rest ih =>
    unfold mintBeginBlock.go
    split
    · rfl
    · rw [ih]; rfl

theorem psView_distrSweep (s : State) : psView (distrSweep s) = psView s := by
  unfold distrSweep
  exact foldl_inv (fun s' => psView s' = psView s) sweepDenom
    (fun s0 d h => (by unfold sweepDenom setBalance; rfl : psView (sweepDenom s0 d) = psView s0).trans h) _ s rfl

theorem nodeSweep_psView {s s' : State} (h : nodeSweep s = .ok s') : psView s' = psView s := by
  unfold nodeSweep at h
  split at h
  · rw [pure_eq_ok] at h; rw [h]
  · refine foldlM_inv (fun s0 => psView s0 = psView s) _ ?_ _ s s' h rfl
    intro s0 a s1 h1 hp
    simp only [bind_eq_ok, pure_eq_ok, orPanic_eq_ok] at h1
    obtain ⟨item, _, s2, h2, rfl⟩ := h1
    rw [psView_emit, setNode_psView h2, hp]

theorem nodeExpire_psView {s s' : State} (h : nodeExpire s = .ok s') : psView s' = psView s := by
  unfold nodeExpire at h
  refine foldlM_inv (fun s0 => psView s0 = psView s) _ ?_ _ s s' h rfl
  intro s0 k s1 h1 hp
  unfold nodeExpireStep at h1
  simp only [bind_eq_ok, pure_eq_ok, orPanic_eq_ok] at h1
  obtain ⟨item, _, s3, h3, rfl⟩ := h1
  rw [psView_emit, setNode_psView h3, ← hp]; rfl

theorem psView_addBalance (s : State) (b : Addr × Denom × Int) : psView (addBalance s b) = psView s := by
  unfold addBalance
  split
  · rfl
  · unfold setSupply setBalance; rfl

theorem psView_insertSub (s : State) (sub : Sub) : psView (insertSub s sub) = psView s := by
  unfold insertSub; cases sub.kind <;> rfl

theorem psView_insertPayout (s : State) (p : Payout) : psView (insertPayout s p) = psView s := rfl
theorem psView_setAllocation (s : State) (a : Alloc) : psView (setAllocation s a) = psView s := rfl

theorem nodeSubscribe_psView {s s' : State} {frm node : Addr} {gb hr : Int} {denom : Denom}
    (h : nodeSubscribe s frm node gb hr denom = .ok s') : psView s' = psView s := by
  unfold nodeSubscribe createSubscriptionForNode at h
  simp only [bind_eq_ok, pure_eq_ok, require_eq_ok, orReject_eq_ok] at h
  obtain ⟨_, _, _, _, r, ⟨n, _, _, _, hr'⟩, rfl⟩ := h
  rw [psView_emit]
  split at hr'
  · unfold createNodeSubGB at hr'
    simp only [bind_eq_ok, pure_eq_ok, orReject_eq_ok] at hr'
    obtain ⟨price, _, bytes, _, amt, _, dep, _, s1, h1, granted, _, rfl⟩ := hr'
    simp only [psView_emit, psView_setAllocation, psView_insertPayout, psView_insertSub]
    exact psView_of_moneyFrame (addDeposit_frame h1)
  · unfold createNodeSubHr at hr'
    simp only [bind_eq_ok, pure_eq_ok, orReject_eq_ok] at hr'
    obtain ⟨price, _, amt, _, dep, _, s1, h1, pa, hq, hourly, _, rfl⟩ := hr'
    simp only [psView_emit, psView_setAllocation, psView_insertPayout, psView_insertSub]
    exact psView_of_moneyFrame (addDeposit_frame h1)

theorem planSubscribe_psView {s s' : State} {frm : Addr} {id : Nat} {denom : Denom}
    (h : planSubscribe s frm id denom = .ok s') : psView s' = psView s := by
  unfold planSubscribe createSubscriptionForPlan at h
  simp only [bind_eq_ok, pure_eq_ok, require_eq_ok, requireP_eq_ok, orReject_eq_ok] at h
  obtain ⟨r, ⟨plan, hplan, _, _, price, _, reward, _, s1, h1, payAmt, _, _, _, s2, h2, granted, _, rfl⟩, rfl⟩ := h
  have hfr := (sendCoinFromAccountToModule_frame h1).trans (sendCoin_frame h2)
  simp only [psView_emit, psView_setAllocation, psView_insertPayout, psView_insertSub]
  exact psView_of_moneyFrame hfr

theorem subAllocate_psView {s s' : State} {frm toA : Addr} {id : Nat} {bytes : Int}
    (h : subAllocate s frm id toA bytes = .ok s') : psView s' = psView s := by
  unfold subAllocate at h
  simp only [bind_eq_ok, pure_eq_ok, require_eq_ok, orReject_eq_ok] at h
  obtain ⟨sub, _, _, _, _, _, fa, _, _, _, g, _, u, _, av, _, _, _, fg, _, _, _, _, _, rfl⟩ := h
  simp only [psView_emit, setAllocation]
  split <;> rfl

theorem payoutStep_psView {s s' : State} {k : Time × Nat} (h : payoutStep s k = .ok s') : psView s' = psView s := by
  unfold payoutStep at h
  simp only [bind_eq_ok, pure_eq_ok, requireP_eq_ok, orPanic_eq_ok] at h
  obtain ⟨item, hitem, reward, _, s2, h2, payAmt, _, _, _, s3, h3, rfl⟩ := h
  have hfr := (sendCoinFromDepositToModule_frame h2).trans (sendCoinFromDepositToAccount_frame h3)
  have e := psView_of_moneyFrame hfr
  split <;> exact (rfl : _ = psView s3).trans (e.trans rfl)

/-! ### the operations that touch sessions leave plans alone -/

theorem plans_of_sessFrame {s s' : State} (h : SessFrame s s') :
    s'.planActive = s.planActive ∧ s'.planInactive = s.planInactive := by
  unfold SessFrame at h; rw [h]; exact ⟨rfl, rfl⟩

theorem plans_of_moneyFrame {s s' : State} (h : MoneyFrame s s') :
    s'.planActive = s.planActive ∧ s'.planInactive = s.planInactive := h.plans

theorem sessStart_plans {s s' : State} {frm : TextAddr} {id : Nat} {node : Addr}
    (h : sessStart s frm id node = .ok s') : s'.planActive = s.planActive ∧ s'.planInactive = s.planInactive := by
  unfold sessStart at h
  simp only [bind_eq_ok, pure_eq_ok, require_eq_ok, orReject_eq_ok] at h
  obtain ⟨sub, _, _, _, n, _, _, _, _, _, _, _, latest, _, _, _, rfl⟩ := h
  exact ⟨rfl, rfl⟩

theorem sessUpdate_plans {s s' : State} {frm : Addr} {id : Nat} {up down dur : Int} {sig : SigSpec}
    (h : sessUpdate s frm id up down dur sig = .ok s') : s'.planActive = s.planActive ∧ s'.planInactive = s.planInactive := by
  unfold sessUpdate at h
  simp only [bind_eq_ok, pure_eq_ok, require_eq_ok, orReject_eq_ok] at h
  obtain ⟨x, _, _, _, _, _, _, _, rfl⟩ := h
  simp only [emit]
  split <;> exact ⟨rfl, rfl⟩

theorem sessEnd_plans {s s' : State} {frm : Addr} {id : Nat} (h : sessEnd s frm id = .ok s') :
    s'.planActive = s.planActive ∧ s'.planInactive = s.planInactive := by
  unfold sessEnd at h
  simp only [bind_eq_ok, pure_eq_ok, require_eq_ok, orReject_eq_ok] at h
  obtain ⟨x, _, _, _, _, _, rfl⟩ := h
  exact ⟨rfl, rfl⟩

theorem detachPayout_plans {s s' : State} {sub : Sub} {b : Bool} (h : detachPayout s sub b = .ok s') :
    s'.planActive = s.planActive ∧ s'.planInactive = s.planInactive ∧ s'.sessions = s.sessions ∧ s'.allocs = s.allocs := by
  unfold detachPayout at h
  split at h
  · simp only [bind_eq_ok, pure_eq_ok] at h
    obtain ⟨p, _, rfl⟩ := h
    exact ⟨rfl, rfl, rfl, rfl⟩
  · rw [pure_eq_ok] at h; rw [← h]; exact ⟨rfl, rfl, rfl, rfl⟩

theorem subCancel_plans {s s' : State} {frm : Addr} {id : Nat} (h : subCancel s frm id = .ok s') :
    s'.planActive = s.planActive ∧ s'.planInactive = s.planInactive := by
  unfold subCancel at h
  simp only [bind_eq_ok, require_eq_ok, orReject_eq_ok] at h
  obtain ⟨sub, hsub, _, hst, _, _, s1, h1, h2⟩ := h
  obtain ⟨a, b, _, _⟩ := detachPayout_plans h2
  obtain ⟨c, d⟩ := plans_of_sessFrame (subscriptionInactivePendingHook_frame h1)
  exact ⟨a.trans c, b.trans d⟩

theorem sessionStep_plans {s s' : State} {k : Time × Nat} (h : sessionStep s k = .ok s') :
    s'.planActive = s.planActive ∧ s'.planInactive = s.planInactive := by
  obtain ⟨item, _, ⟨_, rfl⟩ | ⟨_, s2, h2, rfl⟩⟩ := sessionStep_eff h
  · exact ⟨rfl, rfl⟩
  · obtain ⟨x, sub, _, _, _, h | ⟨_, a, ha, hfr⟩⟩ := sessionInactiveHook_eff h2
    · rw [h.2]; exact ⟨rfl, rfl⟩
    · obtain ⟨c, d⟩ := plans_of_moneyFrame hfr
      exact ⟨c, d⟩

theorem view_plans {s s' : State} (h : view s' = view s) : s'.planActive = s.planActive ∧ s'.planInactive = s.planInactive :=
  ⟨congrArg MoneyView.planActive h, congrArg MoneyView.planInactive h⟩

theorem subscriptionStep_plans {s s' : State} {d : Dur} {k : Time × Nat} (h : subscriptionStep d s k = .ok s') :
    s'.planActive = s.planActive ∧ s'.planInactive = s.planInactive := by
  unfold subscriptionStep at h
  simp only [bind_eq_ok, orPanic_eq_ok] at h
  obtain ⟨item, hitem, h⟩ := h
  split at h
  · simp only [bind_eq_ok, panicIfErr_eq_ok] at h
    obtain ⟨s2, h2, h3⟩ := h
    obtain ⟨a, b, _, _⟩ := detachPayout_plans h3
    obtain ⟨c, d⟩ := plans_of_sessFrame (subscriptionInactivePendingHook_frame h2)
    exact ⟨a.trans c, b.trans d⟩
  · simp only [bind_eq_ok] at h
    obtain ⟨s2, h2, h3⟩ := h
    obtain ⟨a, b⟩ := view_plans (removePayout_view h3)
    obtain ⟨c, d⟩ := view_plans (view_removeSubRecords s2 item)
    obtain ⟨e, f⟩ := plans_of_moneyFrame (refundSub_frame h2)
    exact ⟨a.trans (c.trans e), b.trans (d.trans f)⟩

/-! ### the invariant -/

/-- Every stored plan offers a positive number of gigabytes (`MsgCreate` is only reachable through
`ValidateBasic`, which demands it). -/
def PlanGbPos (s : State) : Prop :=
  ∀ i p, (s.planActive.get i = some p ∨ s.planInactive.get i = some p) → 0 < p.gb

/-- Stored sessions carry non-negative byte counters (`MsgUpdateDetails` is only reachable through
`ValidateBasic`). -/
def SessNonneg (s : State) : Prop := ∀ i x, s.sessions.get i = some x → 0 ≤ x.up ∧ 0 ≤ x.down

/-- C06, the self-contained part: bounds, allocations under their own key, and the two auxiliary
facts about plans and sessions the bounds depend on. -/
structure AllocInv (s : State) : Prop where
  bounds : AllocBounds s
  keyed : AllocKeyed s
  planGb : PlanGbPos s
  sessNonneg : SessNonneg s

/-- bounds / keys as predicates on the table -/
def ABt (t : Tbl (Nat × Addr) Alloc) : Prop := ∀ k al, t.get k = some al → 0 ≤ al.used ∧ al.used ≤ al.granted
def AKt (t : Tbl (Nat × Addr) Alloc) : Prop := ∀ i a al, t.get (i, a) = some al → al.id = i ∧ al.addr = a
def SNt (t : Tbl Nat Session) : Prop := ∀ i x, t.get i = some x → 0 ≤ x.up ∧ 0 ≤ x.down

theorem ABt.set {t : Tbl (Nat × Addr) Alloc} (h : ABt t) (k : Nat × Addr) (a : Alloc) (ha : 0 ≤ a.used ∧ a.used ≤ a.granted) :
    ABt (t.set k a) := by
  intro k' al hg
  rw [Tbl.get_set] at hg
  split_ifs at hg
  · simp only [Option.some.injEq] at hg; subst hg; exact ha
  · exact h k' al hg

theorem ABt.sub {t t' : Tbl (Nat × Addr) Alloc} (h : ABt t) (hs : ∀ k al, t'.get k = some al → t.get k = some al) : ABt t' :=
  fun k al hg => h k al (hs k al hg)

theorem AKt.set {t : Tbl (Nat × Addr) Alloc} (h : AKt t) (a : Alloc) : AKt (t.set (a.id, a.addr) a) := by
  intro i b al hg
  rw [Tbl.get_set] at hg
  split_ifs at hg with hc
  · simp only [Option.some.injEq] at hg; subst hg
    simp only [Prod.mk.injEq] at hc; exact hc
  · exact h i b al hg

theorem AKt.sub {t t' : Tbl (Nat × Addr) Alloc} (h : AKt t) (hs : ∀ k al, t'.get k = some al → t.get k = some al) : AKt t' :=
  fun i a al hg => h i a al (hs (i, a) al hg)

theorem SNt.set {t : Tbl Nat Session} (h : SNt t) (k : Nat) (x : Session) (hx : 0 ≤ x.up ∧ 0 ≤ x.down) : SNt (t.set k x) := by
  intro i y hg
  rw [Tbl.get_set] at hg
  split_ifs at hg
  · simp only [Option.some.injEq] at hg; subst hg; exact hx
  · exact h i y hg

theorem SNt.erase {t : Tbl Nat Session} (h : SNt t) (k : Nat) : SNt (t.erase k) := by
  intro i y hg
  rw [Tbl.get_erase] at hg
  split_ifs at hg
  exact h i y hg

theorem AllocInv.mk' {s s' : State} (hi : AllocInv s) (ha : ABt s'.allocs ∧ AKt s'.allocs)
    (hp : s'.planActive = s.planActive ∧ s'.planInactive = s.planInactive) (hs : SNt s'.sessions) : AllocInv s' :=
  ⟨ha.1, ha.2, fun i p h => hi.planGb i p (by rw [← hp.1, ← hp.2]; exact h), hs⟩

/-- Operations that touch neither allocations, plans nor sessions. -/
theorem AllocInv.of_views {s s' : State} (h1 : subView s' = subView s) (h2 : psView s' = psView s) (hi : AllocInv s) :
    AllocInv s' := by
  have ea : s'.allocs = s.allocs := congrArg SubView.allocs h1
  refine hi.mk' ?_ (psView_plans h2) ?_
  · rw [ea]; exact ⟨hi.bounds, hi.keyed⟩
  · rw [psView_sess h2]; exact hi.sessNonneg

/-! ### the session-pending hook keeps counters -/

theorem sessionToPending_sessions (s : State) (x : Session) :
    (sessionToPending s x).sessions = s.sessions.set x.id
      { x with inactiveAt := s.time + s.params.sessDelay, status := .StatusInactivePending, statusAt := s.time } := rfl

theorem sessionToPending_sessNonneg {s : State} {x : Session} {i : Nat} (h : SessNonneg s) (hx : s.sessions.get i = some x) :
    SessNonneg (sessionToPending s x) := by
  unfold SessNonneg; rw [sessionToPending_sessions]
  exact SNt.set h _ _ (h i x hx)

theorem subscriptionInactivePendingHook_sessNonneg {s s' : State} {id : Nat}
    (h : subscriptionInactivePendingHook s id = .ok s') (hi : SessNonneg s) : SessNonneg s' := by
  unfold subscriptionInactivePendingHook at h
  refine foldlM_inv SessNonneg _ ?_ _ s s' h hi
  intro s0 sid s1 h1 hp
  simp only [bind_eq_ok, pure_eq_ok, orPanic_eq_ok] at h1
  obtain ⟨x, hx, rfl⟩ := h1
  split
  · exact sessionToPending_sessNonneg hp hx
  · exact hp

/-! ### what the operations do to `subs` and `allocs` -/

theorem nodeSubscribe_tables {s s' : State} {frm node : Addr} {gb hr : Int} {denom : Denom}
    (h : nodeSubscribe s frm node gb hr denom = .ok s') :
    (gb ≠ 0 ∧ ∃ x dep, x.kind = .node node gb 0 dep ∧ s'.subs = s.subs.set (s.subCount.getD 0 + 1) x ∧
        s'.allocs = s.allocs.set (s.subCount.getD 0 + 1, frm)
          { id := s.subCount.getD 0 + 1, addr := frm, granted := Gigabyte * gb, used := 0 }) ∨
    (gb = 0 ∧ ∃ x dep, x.kind = .node node 0 hr dep ∧ s'.subs = s.subs.set (s.subCount.getD 0 + 1) x ∧ s'.allocs = s.allocs) := by
  unfold nodeSubscribe createSubscriptionForNode at h
  simp only [bind_eq_ok, pure_eq_ok, require_eq_ok, orReject_eq_ok] at h
  obtain ⟨_, _, _, _, r, ⟨n, _, _, _, hr'⟩, rfl⟩ := h
  split at hr'
  · rename_i hgb
    left
    unfold createNodeSubGB at hr'
    simp only [bind_eq_ok, pure_eq_ok, orReject_eq_ok] at hr'
    obtain ⟨price, _, bytes, _, amt, _, dep, _, s1, h1, granted, hg, rfl⟩ := hr'
    have hg' := SInt.mul_eq_ok hg
    subst hg'
    have hfr := addDeposit_frame h1
    refine ⟨hgb, Sub.mk (s.subCount.getD 0 + 1) frm (s.time + 90 * day) .StatusActive s.time (.node node gb 0 dep), dep, rfl, ?_, ?_⟩
    · rw [hfr.eq]; rfl
    · rw [hfr.eq]; rfl
  · rename_i hgb
    right
    unfold createNodeSubHr at hr'
    simp only [bind_eq_ok, pure_eq_ok, orReject_eq_ok] at hr'
    obtain ⟨price, _, amt, _, dep, _, s1, h1, pa, hq, hourly, _, rfl⟩ := hr'
    have hfr := addDeposit_frame h1
    have hgb' : gb = 0 := by simpa using hgb
    subst hgb'
    refine ⟨rfl, Sub.mk (s.subCount.getD 0 + 1) frm (s.time + hr * hour) .StatusActive s.time (.node node 0 hr dep), dep, rfl, ?_, ?_⟩
    · rw [hfr.eq]; rfl
    · rw [hfr.eq]; rfl

theorem planSubscribe_tables {s s' : State} {frm : Addr} {id : Nat} {denom : Denom}
    (h : planSubscribe s frm id denom = .ok s') :
    ∃ plan x d, getPlan s id = some plan ∧ x.kind = .plan plan.id d ∧
      s'.subs = s.subs.set (s.subCount.getD 0 + 1) x ∧
      s'.allocs = s.allocs.set (s.subCount.getD 0 + 1, frm)
        { id := s.subCount.getD 0 + 1, addr := frm, granted := Gigabyte * plan.gb, used := 0 } := by
  unfold planSubscribe createSubscriptionForPlan at h
  simp only [bind_eq_ok, pure_eq_ok, require_eq_ok, requireP_eq_ok, orReject_eq_ok] at h
  obtain ⟨r, ⟨plan, hplan, _, _, price, _, reward, _, s1, h1, payAmt, _, _, _, s2, h2, granted, hg, rfl⟩, rfl⟩ := h
  have hg' := SInt.mul_eq_ok hg
  subst hg'
  have hfr := (sendCoinFromAccountToModule_frame h1).trans (sendCoin_frame h2)
  refine ⟨plan, Sub.mk (s.subCount.getD 0 + 1) frm (s.time + plan.dur) .StatusActive s.time (.plan plan.id price.denom),
    price.denom, hplan, rfl, ?_, ?_⟩
  · rw [hfr.eq]; rfl
  · rw [hfr.eq]; rfl

theorem subAllocate_tables {s s' : State} {frm toA : Addr} {id : Nat} {bytes : Int}
    (h : subAllocate s frm id toA bytes = .ok s') :
    ∃ sub fa ta, s.subs.get id = some sub ∧ isPlanSub sub = true ∧ frm = sub.addr ∧ s.allocs.get (id, frm) = some fa ∧ frm ≠ toA ∧
      ta = (s.allocs.get (id, toA)).getD { id := id, addr := toA, granted := 0, used := 0 } ∧
      fa.used ≤ fa.granted + ta.granted - bytes ∧ ta.used ≤ bytes ∧ s'.subs = s.subs ∧
      s'.allocs = (s.allocs.set (fa.id, fa.addr) { fa with granted := fa.granted + ta.granted - bytes }).set (ta.id, ta.addr)
        { ta with granted := bytes } := by
  unfold subAllocate at h
  simp only [bind_eq_ok, pure_eq_ok, require_eq_ok, orReject_eq_ok] at h
  obtain ⟨sub, hsub, _, hpl, _, hfrm, fa, hfa, _, hne, g, hg, u, _, av, _, _, _, fg, hfg, _, c1, _, c2, rfl⟩ := h
  have e1 := SInt.add_eq_ok hg
  have e2 := SInt.sub_eq_ok hfg
  subst e1; subst e2
  refine ⟨sub, fa, _, hsub, hpl, by simpa using hfrm, hfa, by simpa using hne, rfl, by simpa using c1, by simpa using c2, ?_, ?_⟩
  · simp only [emit, setAllocation]; split <;> rfl
  · simp only [emit, setAllocation]; split <;> rfl

theorem detachPayout_tables {s s' : State} {sub : Sub} {b : Bool} (h : detachPayout s sub b = .ok s') :
    s'.subs = s.subs ∧ s'.allocs = s.allocs ∧ s'.sessions = s.sessions := by
  unfold detachPayout at h
  split at h
  · simp only [bind_eq_ok, pure_eq_ok] at h
    obtain ⟨p, _, rfl⟩ := h
    exact ⟨rfl, rfl, rfl⟩
  · rw [pure_eq_ok] at h; rw [← h]; exact ⟨rfl, rfl, rfl⟩

/-- The pending tail (`MsgCancel`, expiry): the record is rewritten under its own id; allocations stay. -/
theorem pending_tables {s s1 s' : State} {sub : Sub} {delay : Dur} {b : Bool}
    (hf : SessFrame { s with subQ := s.subQ.erase (sub.inactiveAt, sub.id) } s1)
    (h : detachPayout (subToPending s1 sub delay).1 sub b = .ok s') :
    s'.allocs = s.allocs ∧ s'.sessions = s1.sessions ∧
    s'.subs = s.subs.set sub.id { sub with inactiveAt := s.time + delay, status := .StatusInactivePending, statusAt := s.time } := by
  obtain ⟨a, b, c⟩ := detachPayout_tables h
  refine ⟨b.trans ?_, c.trans rfl, a.trans ?_⟩
  · rw [hf]; rfl
  · rw [hf]; rfl

theorem subCancel_tables {s s' : State} {frm : Addr} {id : Nat} (h : subCancel s frm id = .ok s') :
    ∃ sub x, s.subs.get id = some sub ∧ x.kind = sub.kind ∧ s'.allocs = s.allocs ∧ s'.subs = s.subs.set sub.id x ∧
      (SessNonneg s → SessNonneg s') := by
  unfold subCancel at h
  simp only [bind_eq_ok, require_eq_ok, orReject_eq_ok] at h
  obtain ⟨sub, hsub, _, hst, _, _, s1, h1, h2⟩ := h
  obtain ⟨a, b, c⟩ := pending_tables (subscriptionInactivePendingHook_frame h1) h2
  refine ⟨sub, Sub.mk sub.id sub.addr (s.time + s.params.subDelay) .StatusInactivePending s.time sub.kind,
    hsub, rfl, a, c, fun hn => ?_⟩
  have := subscriptionInactivePendingHook_sessNonneg h1 (fun i x hx => hn i x hx)
  unfold SessNonneg; rw [b]; exact this

theorem removeAllocs_allocs_fold (l : List Addr) (S : State) (id : Nat) :
    (removeAllocs S id l).allocs = l.foldl (fun t a => t.erase (id, a)) S.allocs := by
  unfold removeAllocs
  induction l generalizing S with
  | nil => rfl
  | cons a rest ih => rw [List.foldl_cons, List.foldl_cons, ih]

/-- Removal erases allocations of the removed id only. -/
theorem removeSubRecords_allocs (s : State) (item : Sub) :
    ∃ l : List Addr, (removeSubRecords s item).allocs = l.foldl (fun t a => t.erase (item.id, a)) s.allocs := by
  unfold removeSubRecords
  cases item.kind with
  | node n gb hr dep => exact ⟨[item.addr], rfl⟩
  | plan pid d =>
    exact ⟨allocAddrsForSub { s with subForPlan := s.subForPlan.erase (pid, item.id) } item.id,
      removeAllocs_allocs_fold _ { s with subForPlan := s.subForPlan.erase (pid, item.id) } item.id⟩

theorem removeSubRecords_subs (s : State) (item : Sub) :
    (removeSubRecords s item).subs = s.subs.erase item.id ∧ (removeSubRecords s item).sessions = s.sessions := by
  unfold removeSubRecords
  cases item.kind with
  | node n gb hr dep => exact ⟨rfl, rfl⟩
  | plan pid d =>
    simp only [emit]
    rw [removeAllocs_frame]
    exact ⟨rfl, rfl⟩

theorem removePayout_tables {s s' : State} {item : Sub} (h : removePayout s item = .ok s') :
    s'.subs = s.subs ∧ s'.allocs = s.allocs ∧ s'.sessions = s.sessions := by
  unfold removePayout at h
  split at h
  · simp only [bind_eq_ok, pure_eq_ok, orPanic_eq_ok] at h
    obtain ⟨p, _, rfl⟩ := h
    exact ⟨rfl, rfl, rfl⟩
  · rw [pure_eq_ok] at h; rw [← h]; exact ⟨rfl, rfl, rfl⟩

theorem subscriptionStep_tables {s s' : State} {d : Dur} {k : Time × Nat} (h : subscriptionStep d s k = .ok s') :
    ∃ item, s.subs.get k.2 = some item ∧
      ((item.status = .StatusActive ∧ s'.allocs = s.allocs ∧ (SessNonneg s → SessNonneg s') ∧
          ∃ x, x.kind = item.kind ∧ s'.subs = s.subs.set item.id x) ∨
       (item.status ≠ .StatusActive ∧ s'.subs = s.subs.erase item.id ∧ s'.sessions = s.sessions ∧
          ∃ l : List Addr, s'.allocs = l.foldl (fun t a => t.erase (item.id, a)) s.allocs)) := by
  unfold subscriptionStep at h
  simp only [bind_eq_ok, orPanic_eq_ok] at h
  obtain ⟨item, hitem, h⟩ := h
  refine ⟨item, hitem, ?_⟩
  split at h
  · rename_i hs
    simp only [bind_eq_ok, panicIfErr_eq_ok] at h
    obtain ⟨s2, h2, h3⟩ := h
    obtain ⟨a, b, c⟩ := pending_tables (subscriptionInactivePendingHook_frame h2) h3
    left
    refine ⟨hs, a, fun hn => ?_, Sub.mk item.id item.addr (s.time + d) .StatusInactivePending s.time item.kind, rfl, c⟩
    have := subscriptionInactivePendingHook_sessNonneg h2 (fun i x hx => hn i x hx)
    unfold SessNonneg; rw [b]; exact this
  · rename_i hs
    simp only [bind_eq_ok] at h
    obtain ⟨s2, h2, h3⟩ := h
    obtain ⟨a, b, c⟩ := removePayout_tables h3
    obtain ⟨e1, e2⟩ := removeSubRecords_subs s2 item
    obtain ⟨l, hl⟩ := removeSubRecords_allocs s2 item
    have hfr := refundSub_frame h2
    right
    refine ⟨hs, ?_, ?_, l, ?_⟩
    · rw [a, e1, hfr.eq]
    · rw [c, e2, hfr.eq]
    · rw [b, hl, hfr.eq]

/-- What `sessionStep` does to `allocs` and `sessions`. -/
theorem sessionStep_tables {s s' : State} {k : Time × Nat} (h : sessionStep s k = .ok s') :
    ∃ item, s.sessions.get k.2 = some item ∧ s'.subs = s.subs ∧
      ((item.status = .StatusActive ∧ s'.allocs = s.allocs ∧ s'.sessions = s.sessions.set item.id
          { item with inactiveAt := s.time + s.params.sessDelay, status := .StatusInactivePending, statusAt := s.time }) ∨
       (item.status ≠ .StatusActive ∧ s'.sessions = s.sessions.erase item.id ∧
          (s'.allocs = s.allocs ∨
           ∃ x sub a, s.sessions.get item.id = some x ∧ s.subs.get x.sub = some sub ∧ isHourly sub = false ∧
             s.allocs.get (sub.id, item.addr) = some a ∧
             s'.allocs = s.allocs.set (a.id, a.addr) (allocAfterUse a (a.used + (item.up + item.down)))))) := by
  obtain ⟨item, hitem, ⟨hs, rfl⟩ | ⟨hs, s2, h2, rfl⟩⟩ := sessionStep_eff h
  · exact ⟨item, hitem, rfl, Or.inl ⟨hs, rfl, rfl⟩⟩
  · refine ⟨item, hitem, ?_⟩
    obtain ⟨x, sub, hx, _, hsub, h | ⟨hh, a, ha, hfr⟩⟩ := sessionInactiveHook_eff h2
    · rw [h.2]; exact ⟨rfl, Or.inr ⟨hs, rfl, Or.inl rfl⟩⟩
    · refine ⟨?_, Or.inr ⟨hs, ?_, ?_⟩⟩
      · show (removeSession s2 item).subs = s.subs
        rw [hfr.eq]; rfl
      · show (removeSession s2 item).sessions = s.sessions.erase item.id
        rw [hfr.eq]; rfl
      · right
        refine ⟨x, sub, a, hx, hsub, hh, ha, ?_⟩
        show (removeSession s2 item).allocs = _
        rw [hfr.eq]; rfl

/-! ### `AllocInv` is preserved -/

theorem gigabyte_pos : (0 : Int) < Gigabyte := by
  unfold Gigabyte Hub.Generated.Megabyte Hub.Generated.Kilobyte; decide

theorem allocAfterUse_spec (a : Alloc) (b : Int) :
    (allocAfterUse a (a.used + b)).id = a.id ∧ (allocAfterUse a (a.used + b)).addr = a.addr ∧
    (allocAfterUse a (a.used + b)).granted = a.granted ∧
    (allocAfterUse a (a.used + b)).used = (if a.used + b > a.granted then a.granted else a.used + b) := ⟨rfl, rfl, rfl, rfl⟩

theorem allocAfterUse_bounds {a : Alloc} {b : Int} (ha : 0 ≤ a.used ∧ a.used ≤ a.granted) (hb : 0 ≤ b) :
    0 ≤ (allocAfterUse a (a.used + b)).used ∧ (allocAfterUse a (a.used + b)).used ≤ (allocAfterUse a (a.used + b)).granted ∧
    a.used ≤ (allocAfterUse a (a.used + b)).used ∧ (allocAfterUse a (a.used + b)).used ≤ a.used + b := by
  obtain ⟨_, _, e3, e4⟩ := allocAfterUse_spec a b
  rw [e3, e4]
  split_ifs <;> omega

theorem AKt.setk {t : Tbl (Nat × Addr) Alloc} (h : AKt t) (k : Nat × Addr) (a : Alloc) (hk : (a.id, a.addr) = k) :
    AKt (t.set k a) := by
  subst hk; exact AKt.set h a

theorem nodeSubscribe_allocInv {s s' : State} {frm node : Addr} {gb hr : Int} {denom : Denom}
    (h : nodeSubscribe s frm node gb hr denom = .ok s') (hgb : 0 ≤ gb) (hi : AllocInv s) : AllocInv s' := by
  have hp := nodeSubscribe_psView h
  refine hi.mk' ?_ (psView_plans hp) (by rw [psView_sess hp]; exact hi.sessNonneg)
  rcases nodeSubscribe_tables h with ⟨_, x, dep, _, _, ea⟩ | ⟨_, x, dep, _, _, ea⟩
  · rw [ea]
    exact ⟨ABt.set hi.bounds _ _ ⟨le_refl _, Int.mul_nonneg (le_of_lt gigabyte_pos) hgb⟩, AKt.setk hi.keyed _ _ rfl⟩
  · rw [ea]; exact ⟨hi.bounds, hi.keyed⟩

theorem planSubscribe_allocInv {s s' : State} {frm : Addr} {id : Nat} {denom : Denom}
    (h : planSubscribe s frm id denom = .ok s') (hi : AllocInv s) : AllocInv s' := by
  have hp := planSubscribe_psView h
  refine hi.mk' ?_ (psView_plans hp) (by rw [psView_sess hp]; exact hi.sessNonneg)
  obtain ⟨plan, x, d, hplan, _, _, ea⟩ := planSubscribe_tables h
  have hpos := hi.planGb id plan (getPlan_mem hplan)
  rw [ea]
  exact ⟨ABt.set hi.bounds _ _ ⟨le_refl _, Int.mul_nonneg (le_of_lt gigabyte_pos) (le_of_lt hpos)⟩, AKt.setk hi.keyed _ _ rfl⟩

theorem subAllocate_allocInv {s s' : State} {frm toA : Addr} {id : Nat} {bytes : Int}
    (h : subAllocate s frm id toA bytes = .ok s') (hi : AllocInv s) : AllocInv s' := by
  have hp := subAllocate_psView h
  refine hi.mk' ?_ (psView_plans hp) (by rw [psView_sess hp]; exact hi.sessNonneg)
  obtain ⟨sub, fa, ta, hsub, _, _, hfa, _, hta, c1, c2, _, ea⟩ := subAllocate_tables h
  have bf := hi.bounds _ _ hfa
  have bt : 0 ≤ ta.used := by
    rw [hta]
    cases hg : s.allocs.get (id, toA) with
    | none => simp
    | some o => simpa using (hi.bounds _ _ hg).1
  rw [ea]
  refine ⟨ABt.set (ABt.set hi.bounds _ _ ?_) _ _ ?_, AKt.setk (AKt.setk hi.keyed _ _ ?_) _ _ ?_⟩
  · exact ⟨bf.1, c1⟩
  · exact ⟨bt, c2⟩
  · rfl
  · rfl

theorem subCancel_allocInv {s s' : State} {frm : Addr} {id : Nat} (h : subCancel s frm id = .ok s') (hi : AllocInv s) :
    AllocInv s' := by
  obtain ⟨sub, x, _, _, ea, _, hs⟩ := subCancel_tables h
  refine hi.mk' ?_ (subCancel_plans h) (hs hi.sessNonneg)
  rw [ea]; exact ⟨hi.bounds, hi.keyed⟩

theorem sessStart_allocInv {s s' : State} {frm : TextAddr} {id : Nat} {node : Addr}
    (h : sessStart s frm id node = .ok s') (hi : AllocInv s) : AllocInv s' := by
  have ea : s'.allocs = s.allocs := congrArg SubView.allocs (sessStart_subView h)
  refine hi.mk' (by rw [ea]; exact ⟨hi.bounds, hi.keyed⟩) (sessStart_plans h) ?_
  unfold sessStart at h
  simp only [bind_eq_ok, pure_eq_ok, require_eq_ok, orReject_eq_ok] at h
  obtain ⟨sub, _, _, _, n, _, _, _, _, _, _, _, latest, _, _, _, rfl⟩ := h
  exact SNt.set hi.sessNonneg _ _ ⟨le_refl _, le_refl _⟩

theorem sessUpdate_allocInv {s s' : State} {frm : Addr} {id : Nat} {up down dur : Int} {sig : SigSpec}
    (h : sessUpdate s frm id up down dur sig = .ok s') (hu : 0 ≤ up) (hd : 0 ≤ down) (hi : AllocInv s) : AllocInv s' := by
  have ea : s'.allocs = s.allocs := congrArg SubView.allocs (sessUpdate_subView h)
  refine hi.mk' (by rw [ea]; exact ⟨hi.bounds, hi.keyed⟩) (sessUpdate_plans h) ?_
  unfold sessUpdate at h
  simp only [bind_eq_ok, pure_eq_ok, require_eq_ok, orReject_eq_ok] at h
  obtain ⟨x, _, _, _, _, _, _, _, rfl⟩ := h
  simp only [emit]
  split <;> exact SNt.set hi.sessNonneg _ _ ⟨hu, hd⟩

theorem sessEnd_allocInv {s s' : State} {frm : Addr} {id : Nat} (h : sessEnd s frm id = .ok s') (hi : AllocInv s) :
    AllocInv s' := by
  have ea : s'.allocs = s.allocs := congrArg SubView.allocs (sessEnd_subView h)
  refine hi.mk' (by rw [ea]; exact ⟨hi.bounds, hi.keyed⟩) (sessEnd_plans h) ?_
  unfold sessEnd at h
  simp only [bind_eq_ok, pure_eq_ok, require_eq_ok, orReject_eq_ok] at h
  obtain ⟨x, hx, _, _, _, _, rfl⟩ := h
  exact sessionToPending_sessNonneg hi.sessNonneg hx

theorem setPlan_sessions {s s' : State} {p : Plan} (h : setPlan s p = .ok s') : s'.sessions = s.sessions := by
  unfold setPlan at h
  split at h <;> simp only [pure_eq_ok, gopanic_ne_ok] at h <;> (try subst h) <;> first | rfl | contradiction

theorem planCreate_allocInv {s s' : State} {frm : Addr} {dur : Dur} {gb : Int} {prices : Coins}
    (h : planCreate s frm dur gb prices = .ok s') (hgb : 0 < gb) (hi : AllocInv s) : AllocInv s' := by
  have ea : s'.allocs = s.allocs := congrArg SubView.allocs (planCreate_subView h)
  unfold planCreate at h
  simp only [bind_eq_ok, pure_eq_ok, require_eq_ok] at h
  obtain ⟨_, _, s1, h1, rfl⟩ := h
  refine ⟨by unfold AllocBounds; rw [ea]; exact hi.bounds, by unfold AllocKeyed; rw [ea]; exact hi.keyed, ?_, ?_⟩
  · intro i q hq
    rcases plans_setPlan h1 i q hq with e | e | e
    · rw [e]; exact hgb
    · exact hi.planGb i q (Or.inl e)
    · exact hi.planGb i q (Or.inr e)
  · have := setPlan_sessions h1
    intro i x hx
    exact hi.sessNonneg i x (by rw [← this]; exact hx)

theorem planStatus_allocInv {s s' : State} {frm : Addr} {id : Nat} {st : Status}
    (h : planStatus s frm id st = .ok s') (hi : AllocInv s) : AllocInv s' := by
  have ea : s'.allocs = s.allocs := congrArg SubView.allocs (planStatus_subView h)
  unfold planStatus at h
  simp only [bind_eq_ok, pure_eq_ok, require_eq_ok, orReject_eq_ok] at h
  obtain ⟨p, hp, _, _, s3, h3, rfl⟩ := h
  have hpp : 0 < p.gb := hi.planGb id p (getPlan_mem hp)
  refine ⟨by unfold AllocBounds; rw [ea]; exact hi.bounds, by unfold AllocKeyed; rw [ea]; exact hi.keyed, ?_, ?_⟩
  · intro id' q hq
    rcases plans_setPlan h3 id' q hq with e | e | e
    · rw [e]; exact hpp
    · refine hi.planGb id' q ?_
      revert e; split <;> split <;> intro e
      all_goals first
        | exact Or.inl e
        | (simp only [Tbl.get_erase] at e; split at e <;> first | contradiction | exact Or.inl e)
    · refine hi.planGb id' q ?_
      revert e; split <;> split <;> intro e
      all_goals first
        | exact Or.inr e
        | (simp only [Tbl.get_erase] at e; split at e <;> first | contradiction | exact Or.inr e)
  · have := setPlan_sessions h3
    intro i x hx
    refine hi.sessNonneg i x ?_
    have hx' : s3.sessions.get i = some x := hx
    rw [this] at hx'
    revert hx'; split <;> split <;> exact fun h => h

/-- Every handler keeps `AllocInv`; the sign conditions on message fields come from `ValidateBasic`. -/
theorem handle_allocInv {s s' : State} {m : Msg} (h : m.handle s = .ok s') (hv : m.validateBasic = .ok ())
    (hi : AllocInv s) : AllocInv s' := by
  cases m <;> simp only [Msg.handle] at h
  case provRegister => exact AllocInv.of_views (provRegister_subView h) (provRegister_psView h) hi
  case provUpdate => exact AllocInv.of_views (provUpdate_subView h) (provUpdate_psView h) hi
  case nodeRegister => exact AllocInv.of_views (nodeRegister_subView h) (nodeRegister_psView h) hi
  case nodeUpdate => exact AllocInv.of_views (nodeUpdate_subView h) (nodeUpdate_psView h) hi
  case nodeStatus => exact AllocInv.of_views (nodeStatus_subView h) (nodeStatus_psView h) hi
  case nodeSubscribe frm node gb hr denom =>
    have h0 : 0 ≤ gb := by
      unfold Msg.validateBasic at hv
      simp only [bind_eq_ok, require_eq_ok] at hv
      obtain ⟨_, _, _, _, _, _, _, _, _, h0, _⟩ := hv
      simpa using h0
    exact nodeSubscribe_allocInv h h0 hi
  case planCreate frm dur gb prices =>
    have h0 : 0 < gb := by
      unfold Msg.validateBasic at hv
      simp only [bind_eq_ok, require_eq_ok] at hv
      obtain ⟨_, _, _, _, _, _, _, h0, _, h1, _⟩ := hv
      have a : 0 ≤ gb := by simpa using h0
      have b : gb ≠ 0 := by simpa using h1
      omega
    exact planCreate_allocInv h h0 hi
  case planStatus => exact planStatus_allocInv h hi
  case planLink => exact AllocInv.of_views (planLink_subView h) (planLink_psView h) hi
  case planUnlink => exact AllocInv.of_views (planUnlink_subView h) (planUnlink_psView h) hi
  case planSubscribe => exact planSubscribe_allocInv h hi
  case subCancel => exact subCancel_allocInv h hi
  case subAllocate => exact subAllocate_allocInv h hi
  case sessStart => exact sessStart_allocInv h hi
  case sessUpdate frm id up down dur sig =>
    have h0 : 0 ≤ up ∧ 0 ≤ down := by
      unfold Msg.validateBasic at hv
      simp only [bind_eq_ok, require_eq_ok] at hv
      obtain ⟨_, _, _, _, _, h0, _⟩ := hv
      simpa using h0
    exact sessUpdate_allocInv h h0.1 h0.2 hi
  case sessEnd => exact sessEnd_allocInv h hi
  case swap => exact AllocInv.of_views (swap_subView h) (swap_psView h) hi

theorem AllocInv.clearEvents {s : State} (hi : AllocInv s) : AllocInv { s with events := [] } :=
  ⟨hi.bounds, hi.keyed, hi.planGb, hi.sessNonneg⟩

theorem deliver_allocInv (s : State) (m : Msg) (hi : AllocInv s) : AllocInv (deliver s m).1 := by
  unfold deliver
  simp only []
  cases hr : (do m.validateBasic; m.handle { s with events := [] } : M State) with
  | ok s' =>
    simp only [bind_eq_ok] at hr
    obtain ⟨u, hv, hh⟩ := hr
    exact handle_allocInv hh hv hi.clearEvents
  | error e => cases e <;> exact hi.clearEvents

theorem gov_allocInv (s : State) (c : ParamChange) (hi : AllocInv s) : AllocInv ((gov s c).getD s) := by
  cases hg : gov s c with
  | none => exact hi
  | some s' => exact AllocInv.of_views (gov_subView hg) (gov_psView hg) hi

theorem payoutStep_allocInv {s s' : State} {k : Time × Nat} (h : payoutStep s k = .ok s') (hi : AllocInv s) : AllocInv s' := by
  obtain ⟨item, _, hv⟩ := payoutStep_view h
  have ea : s'.allocs = s.allocs := by
    have := congrArg SubView.allocs hv
    exact this
  have hp := payoutStep_psView h
  refine hi.mk' (by rw [ea]; exact ⟨hi.bounds, hi.keyed⟩) (psView_plans hp) (by rw [psView_sess hp]; exact hi.sessNonneg)

theorem beginBlock_allocInv {s s' : State} {t : Time} (h : beginBlock s t = .ok s') (hi : AllocInv s) : AllocInv s' := by
  unfold beginBlock haltOf at h
  split at h <;> try contradiction
  rename_i s'' hs
  simp only [Except.ok.injEq] at h
  subst h
  unfold subscriptionBeginBlock at hs
  refine foldlM_inv AllocInv _ ?_ _ _ _ hs ?_
  · intro s0 k s1 h1 hp
    rw [panicIfErr_eq_ok] at h1
    exact payoutStep_allocInv h1 hp
  · refine AllocInv.of_views ?_ ?_ hi
    · rw [subView_distrSweep]; unfold mintBeginBlock; rw [subView_mintBeginBlock_go]; rfl
    · rw [psView_distrSweep]; unfold mintBeginBlock; rw [psView_mintBeginBlock_go]; rfl

theorem sessionStep_allocInv {s s' : State} {k : Time × Nat} (h : sessionStep s k = .ok s') (hi : AllocInv s) : AllocInv s' := by
  obtain ⟨item, hitem, _, ⟨_, ea, es⟩ | ⟨_, es, ha⟩⟩ := sessionStep_tables h
  · refine hi.mk' (by rw [ea]; exact ⟨hi.bounds, hi.keyed⟩) (sessionStep_plans h) ?_
    rw [es]; exact SNt.set hi.sessNonneg _ _ (hi.sessNonneg k.2 item hitem)
  · refine hi.mk' ?_ (sessionStep_plans h) (by rw [es]; exact SNt.erase hi.sessNonneg _)
    rcases ha with ea | ⟨x, sub, a, _, _, _, hga, ea⟩
    · rw [ea]; exact ⟨hi.bounds, hi.keyed⟩
    · have hb := hi.sessNonneg _ _ hitem
      obtain ⟨b1, b2, _, _⟩ := allocAfterUse_bounds (b := item.up + item.down) (hi.bounds _ _ hga) (by omega)
      rw [ea]
      exact ⟨ABt.set hi.bounds _ _ ⟨b1, b2⟩, AKt.setk hi.keyed _ _ rfl⟩

theorem foldl_erase_sub {κ α : Type} [DecidableEq κ] (f : Addr → κ) (l : List Addr) (t : Tbl κ α) (k : κ) (v : α)
    (h : (l.foldl (fun t a => t.erase (f a)) t).get k = some v) : t.get k = some v := by
  induction l generalizing t with
  | nil => exact h
  | cons a rest ih =>
    rw [List.foldl_cons] at h
    have := ih _ h
    rw [Tbl.get_erase] at this
    split_ifs at this
    exact this

theorem subscriptionStep_allocInv {s s' : State} {d : Dur} {k : Time × Nat} (h : subscriptionStep d s k = .ok s')
    (hi : AllocInv s) : AllocInv s' := by
  obtain ⟨item, hitem, ⟨_, ea, hs, _⟩ | ⟨_, _, es, l, ea⟩⟩ := subscriptionStep_tables h
  · exact hi.mk' (by rw [ea]; exact ⟨hi.bounds, hi.keyed⟩) (subscriptionStep_plans h) (hs hi.sessNonneg)
  · refine hi.mk' ?_ (subscriptionStep_plans h) (by rw [es]; exact hi.sessNonneg)
    rw [ea]
    have hsub := fun k al => foldl_erase_sub (fun a => (item.id, a)) l s.allocs k al
    exact ⟨ABt.sub hi.bounds hsub, AKt.sub hi.keyed hsub⟩

theorem endBlock_allocInv {s s' : State} (h : endBlock s = .ok s') (hi : AllocInv s) : AllocInv s' := by
  unfold endBlock haltOf at h
  split at h <;> try contradiction
  rename_i s2 hs
  split at hs <;> try contradiction
  rename_i s3 hs3
  simp only [Except.ok.injEq] at hs h
  subst hs; subst h
  unfold vpnEndBlock nodeEndBlock at hs3
  simp only [bind_eq_ok] at hs3
  obtain ⟨s1, ⟨sa, ha, hb⟩, sb, hc, hd⟩ := hs3
  have i1 : AllocInv s1 := by
    refine AllocInv.of_views ?_ ?_ hi
    · rw [nodeExpire_subView hb, nodeSweep_subView ha]; rfl
    · rw [nodeExpire_psView hb, nodeSweep_psView ha]; rfl
  have i2 : AllocInv sb := foldlM_inv AllocInv _ (fun s0 k s1 h1 hp => sessionStep_allocInv h1 hp) _ _ _ hc i1
  have i3 : AllocInv s3 := foldlM_inv AllocInv _ (fun s0 k s1 h1 hp => subscriptionStep_allocInv h1 hp) _ _ _ hd i2
  exact ⟨i3.bounds, i3.keyed, i3.planGb, i3.sessNonneg⟩

/-- `AllocInv` is kept by every operation — no outside hypothesis. -/
theorem step_allocInv {s s' : State} {op : Op} (h : step s op = some s') (hi : AllocInv s) : AllocInv s' := by
  cases op with
  | tx m =>
    simp only [step, Option.some.injEq] at h
    rw [← h]; exact deliver_allocInv s m hi
  | begin t =>
    simp only [step] at h
    split at h
    · rename_i s1 hb
      simp only [Option.some.injEq] at h; rw [← h]; exact beginBlock_allocInv hb hi
    · contradiction
  | endB =>
    simp only [step] at h
    split at h
    · rename_i s1 hb
      simp only [Option.some.injEq] at h; rw [← h]; exact endBlock_allocInv hb hi
    · contradiction
  | gov c =>
    simp only [step, Option.some.injEq] at h
    rw [← h]; exact gov_allocInv s c hi

theorem genesis_allocInv (g : Genesis) : AllocInv g.state := by
  have e1 : subView g.state = subView g.base := by
    unfold Genesis.state
    exact foldl_inv (fun s' => subView s' = subView g.base) addBalance
      (fun s0 b h => (subView_addBalance s0 b).trans h) _ _ rfl
  have e2 : psView g.state = psView g.base := by
    unfold Genesis.state
    exact foldl_inv (fun s' => psView s' = psView g.base) addBalance
      (fun s0 b h => (psView_addBalance s0 b).trans h) _ _ rfl
  refine AllocInv.of_views e1 e2 ?_
  clear e1 e2
  refine ⟨?_, ?_, ?_, ?_⟩
  · intro k al h; simp [Genesis.base, Tbl.get] at h
  · intro i a al h; simp [Genesis.base, Tbl.get] at h
  · intro i p h; simp [Genesis.base, Tbl.get] at h
  · intro i x h; simp [Genesis.base, Tbl.get] at h

theorem allocInv_all_histories (ops : List Op) (s : State) (hi : AllocInv s) : ∀ s' ∈ runTrace s ops, AllocInv s' := by
  induction ops generalizing s with
  | nil => intro s' h; simp [runTrace] at h
  | cons op rest ih =>
    intro s' h
    simp only [runTrace] at h
    cases hst : step s op with
    | none => simp [hst] at h
    | some s1 =>
      simp only [hst, List.mem_cons] at h
      have i1 := step_allocInv hst hi
      rcases h with h | h
      · rw [h]; exact i1
      · exact ih s1 i1 s' h

/-! ### conservation of the granted total -/

/-- Granted bytes of subscription `i` in an allocation table. -/
def gtot (t : Tbl (Nat × Addr) Alloc) (i : Nat) : Int := t.sumKV (fun k al => if k.1 = i then al.granted else 0)

theorem grantedTotal_eq (s : State) (i : Nat) : grantedTotal s i = gtot s.allocs i := rfl

theorem gtot_set_some {t : Tbl (Nat × Addr) Alloc} (hn : Tbl.Nodup t) {k : Nat × Addr} {o : Alloc} (hg : t.get k = some o)
    (a : Alloc) (i : Nat) :
    gtot (t.set k a) i = gtot t i - (if k.1 = i then o.granted else 0) + (if k.1 = i then a.granted else 0) := by
  have := Tbl.sumKV_set (fun k al => if k.1 = i then al.granted else 0) hn k a
  rw [hg] at this; exact this

theorem gtot_set_none {t : Tbl (Nat × Addr) Alloc} (hn : Tbl.Nodup t) {k : Nat × Addr} (hg : t.get k = none)
    (a : Alloc) (i : Nat) :
    gtot (t.set k a) i = gtot t i + (if k.1 = i then a.granted else 0) := by
  have := Tbl.sumKV_set (fun k al => if k.1 = i then al.granted else 0) hn k a
  rw [hg] at this; simp only [Int.sub_zero] at this; exact this

theorem gtot_erase_other {t : Tbl (Nat × Addr) Alloc} (hn : Tbl.Nodup t) (k : Nat × Addr) (i : Nat) (h : k.1 ≠ i) :
    gtot (t.erase k) i = gtot t i := by
  have := Tbl.sumKV_erase (fun k al => if k.1 = i then al.granted else 0) hn k
  unfold gtot; rw [this]
  cases t.get k <;> simp [h]

theorem gtot_set_other {t : Tbl (Nat × Addr) Alloc} (hn : Tbl.Nodup t) (k : Nat × Addr) (a : Alloc) (i : Nat) (h : k.1 ≠ i) :
    gtot (t.set k a) i = gtot t i := by
  cases hg : t.get k with
  | none => rw [gtot_set_none hn hg]; simp [h]
  | some o => rw [gtot_set_some hn hg]; simp [h]

theorem gtot_fresh (t : Tbl (Nat × Addr) Alloc) (i : Nat) (h : ∀ a, t.has (i, a) = false) : gtot t i = 0 := by
  refine Tbl.sumKV_eq_zero_of_keys _ t ?_
  rintro ⟨k1, k2⟩ hk v
  by_cases e : k1 = i
  · subst e; rw [h k2] at hk; contradiction
  · simp [e]

theorem gtot_foldl_erase {t : Tbl (Nat × Addr) Alloc} (hn : Tbl.Nodup t) (l : List Addr) (j i : Nat) (h : j ≠ i) :
    gtot (l.foldl (fun t a => t.erase (j, a)) t) i = gtot t i := by
  induction l generalizing t with
  | nil => rfl
  | cons a rest ih =>
    rw [List.foldl_cons, ih (Tbl.nodup_erase hn _), gtot_erase_other hn _ _ h]

theorem bought_congr {s s' : State} (h1 : s'.planActive = s.planActive) (h2 : s'.planInactive = s.planInactive) (x : Sub) :
    bought s' x = bought s x := by
  unfold bought getPlan; rw [h1, h2]

theorem bought_kind (s : State) {x x' : Sub} (h : x'.kind = x.kind) : bought s x' = bought s x := by
  unfold bought; rw [h]

theorem QuotaConserved.of_eqs {s s' : State} (hs : s'.subs = s.subs) (ha : s'.allocs = s.allocs)
    (hp : s'.planActive = s.planActive ∧ s'.planInactive = s.planInactive) (hq : QuotaConserved s) : QuotaConserved s' := by
  intro i x hx
  rw [hs] at hx
  rw [bought_congr hp.1 hp.2, grantedTotal_eq, ha]
  exact hq i x hx

theorem QuotaConserved.of_views {s s' : State} (h1 : subView s' = subView s) (h2 : psView s' = psView s)
    (hq : QuotaConserved s) : QuotaConserved s' :=
  hq.of_eqs (congrArg SubView.subs h1) (congrArg SubView.allocs h1) (psView_plans h2)

/-- A new subscription under an unused id, with at most one allocation whose grant is what was bought. -/
theorem quota_new {s s' : State} {j : Nat} {x : Sub} {acc : Addr} {al : Alloc} (hn : Tbl.Nodup s.allocs)
    (hf : ∀ a, s.allocs.has (j, a) = false) (hs : s'.subs = s.subs.set j x)
    (hp : s'.planActive = s.planActive ∧ s'.planInactive = s.planInactive)
    (ha : (s'.allocs = s.allocs.set (j, acc) al ∧ bought s x = some al.granted) ∨ (s'.allocs = s.allocs ∧ bought s x = some 0))
    (hq : QuotaConserved s) : QuotaConserved s' := by
  intro i y hy
  rw [hs, Tbl.get_set] at hy
  rw [bought_congr hp.1 hp.2, grantedTotal_eq]
  have h0 := gtot_fresh s.allocs j hf
  split_ifs at hy with hc
  · simp only [Option.some.injEq] at hy; subst hy; subst hc
    rcases ha with ⟨ea, hb⟩ | ⟨ea, hb⟩
    · rw [ea, gtot_set_none hn (Tbl.get_none_of_has (hf acc)), h0, hb]; simp
    · rw [ea, h0, hb]
  · have := hq i y hy
    rw [grantedTotal_eq] at this
    rcases ha with ⟨ea, _⟩ | ⟨ea, _⟩
    · rw [ea, gtot_set_other hn _ _ _ hc]; exact this
    · rw [ea]; exact this

/-- A subscription record rewritten in place with the same kind. -/
theorem quota_rewrite {s s' : State} {j : Nat} {x x' : Sub} (hx : s.subs.get j = some x) (hk : x'.kind = x.kind)
    (hs : s'.subs = s.subs.set j x') (ha : s'.allocs = s.allocs)
    (hp : s'.planActive = s.planActive ∧ s'.planInactive = s.planInactive) (hq : QuotaConserved s) : QuotaConserved s' := by
  intro i y hy
  rw [hs, Tbl.get_set] at hy
  rw [bought_congr hp.1 hp.2, grantedTotal_eq, ha]
  split_ifs at hy with hc
  · simp only [Option.some.injEq] at hy; subst hy; subst hc
    rw [bought_kind s hk]; exact hq _ _ hx
  · exact hq i y hy

/-- An existing allocation overwritten with the same grant. -/
theorem quota_sameGrant {s s' : State} {k : Nat × Addr} {a a' : Alloc} (hn : Tbl.Nodup s.allocs)
    (hk : s.allocs.get k = some a) (hg : a'.granted = a.granted) (hs : s'.subs = s.subs) (ha : s'.allocs = s.allocs.set k a')
    (hp : s'.planActive = s.planActive ∧ s'.planInactive = s.planInactive) (hq : QuotaConserved s) : QuotaConserved s' := by
  intro i y hy
  rw [hs] at hy
  rw [bought_congr hp.1 hp.2, grantedTotal_eq, ha, gtot_set_some hn hk, hg]
  have := hq i y hy
  rw [grantedTotal_eq] at this
  rw [this]; split_ifs <;> simp

/-- A subscription removed together with (some of) its own allocations. -/
theorem quota_remove {s s' : State} {j : Nat} {l : List Addr} (hn : Tbl.Nodup s.allocs)
    (hs : s'.subs = s.subs.erase j) (ha : s'.allocs = l.foldl (fun t a => t.erase (j, a)) s.allocs)
    (hp : s'.planActive = s.planActive ∧ s'.planInactive = s.planInactive) (hq : QuotaConserved s) : QuotaConserved s' := by
  intro i y hy
  rw [hs, Tbl.get_erase] at hy
  split_ifs at hy with hc
  rw [bought_congr hp.1 hp.2, grantedTotal_eq, ha, gtot_foldl_erase hn l j i hc]
  exact hq i y hy

/-- `MsgAllocate`: the two grants together stay what they were. -/
theorem quota_allocate {s s' : State} {j : Nat} {frm toA : Addr} {fa ta fa' ta' : Alloc} (hn : Tbl.Nodup s.allocs)
    (hne : frm ≠ toA) (hfa : s.allocs.get (j, frm) = some fa)
    (hta : ta = (s.allocs.get (j, toA)).getD { id := j, addr := toA, granted := 0, used := 0 })
    (hsum : fa'.granted + ta'.granted = fa.granted + ta.granted)
    (hs : s'.subs = s.subs) (ha : s'.allocs = (s.allocs.set (j, frm) fa').set (j, toA) ta')
    (hp : s'.planActive = s.planActive ∧ s'.planInactive = s.planInactive) (hq : QuotaConserved s) : QuotaConserved s' := by
  intro i y hy
  rw [hs] at hy
  rw [bought_congr hp.1 hp.2, grantedTotal_eq, ha]
  have := hq i y hy
  rw [grantedTotal_eq] at this
  rw [this]
  have hn1 := Tbl.nodup_set hn (j, frm) fa'
  have hget : (s.allocs.set (j, frm) fa').get (j, toA) = s.allocs.get (j, toA) :=
    Tbl.get_set_ne _ _ (by intro e; exact hne (Prod.mk.inj e).2)
  refine congrArg some ?_
  cases hg : s.allocs.get (j, toA) with
  | none =>
    rw [hg] at hta hget; simp only [Option.getD_none] at hta; subst hta
    rw [gtot_set_none hn1 hget, gtot_set_some hn hfa]
    simp only [] at hsum ⊢
    split_ifs <;> omega
  | some o =>
    rw [hg] at hta hget; simp only [Option.getD_some] at hta; subst hta
    rw [gtot_set_some hn1 hget, gtot_set_some hn hfa]
    simp only []
    split_ifs <;> omega

/-! ### what was bought never changes: plan records are never deleted and keep their gigabytes -/

/-- Every plan of `s` is still there in `s'` with the same gigabytes. -/
def PlanGbStable (s s' : State) : Prop := ∀ i pl, getPlan s i = some pl → ∃ pl', getPlan s' i = some pl' ∧ pl'.gb = pl.gb

theorem bought_stable {s s' : State} (h : PlanGbStable s s') {x : Sub} {g : Int} (hb : bought s x = some g) :
    bought s' x = some g := by
  unfold bought at hb ⊢
  cases hk : x.kind with
  | node n gb hr dep => rw [hk] at hb; exact hb
  | plan p d =>
    rw [hk] at hb
    simp only [] at hb ⊢
    cases hg : getPlan s p with
    | none => rw [hg] at hb; simp at hb
    | some pl =>
      rw [hg] at hb
      obtain ⟨pl', h1, h2⟩ := h p pl hg
      rw [h1]; simp only [Option.map_some, Option.some.injEq] at hb ⊢; rw [h2]; exact hb

theorem QuotaConserved.of_planStable {s s' : State} (hs : s'.subs = s.subs) (ha : s'.allocs = s.allocs)
    (hp : PlanGbStable s s') (hq : QuotaConserved s) : QuotaConserved s' := by
  intro i x hx
  rw [hs] at hx
  rw [grantedTotal_eq, ha]
  exact bought_stable hp (hq i x hx)

theorem planCreate_planStable {s s' : State} {frm : Addr} {dur : Dur} {gb : Int} {prices : Coins}
    (h : planCreate s frm dur gb prices = .ok s') (hc : CountInv s) : PlanGbStable s s' := by
  obtain ⟨_, rfl⟩ := planCreate_eff h
  intro i pl hg
  have hle := (hc.plans i pl (getPlan_mem hg)).2.2
  refine ⟨pl, ?_, rfl⟩
  unfold getPlan at hg ⊢
  simp only [emit]
  rw [Tbl.get_set_ne _ _ (by omega)]
  exact hg

theorem planStatus_planStable {s s' : State} {frm : Addr} {id : Nat} {st : Status}
    (h : planStatus s frm id st = .ok s') (hc : CountInv s) : PlanGbStable s s' := by
  unfold planStatus at h
  simp only [bind_eq_ok, pure_eq_ok, require_eq_ok, orReject_eq_ok] at h
  obtain ⟨p, hp, _, _, s3, h3, rfl⟩ := h
  have hpid : p.id = id := (hc.plans id p (getPlan_mem hp)).1
  intro i pl hg
  unfold getPlan at hg hp ⊢
  by_cases hi : id = i
  · subst hi
    have hpl : pl = p := by
      have : some pl = some p := hg.symm.trans hp
      exact Option.some.inj this
    subst hpl
    rcases setPlan_eff h3 with ⟨hs, e⟩ | ⟨hs, e⟩
    · rw [e]; simp only [emit, hpid, Tbl.get_set, if_true]
      exact ⟨_, rfl, rfl⟩
    · simp only [] at hs
      rw [e]; simp only [emit, hpid, Tbl.get_set, if_true]
      clear h3 e
      split_ifs with c2 c1 c1
      · exfalso; rw [hs] at c2; simp at c2
      · exfalso; rw [hs] at c2; simp at c2
      · simp only [Tbl.get_erase, if_true]; exact ⟨_, rfl, rfl⟩
      · skip
        cases ha : s.planActive.get id with
        | none => exact ⟨_, rfl, rfl⟩
        | some q =>
          rw [ha] at hp
          simp only [Option.some.injEq] at hp
          exact ⟨q, rfl, by rw [hp]⟩
  · refine ⟨pl, ?_, rfl⟩
    rcases setPlan_eff h3 with ⟨hs, e⟩ | ⟨hs, e⟩ <;> rw [e] <;> simp only [emit, hpid] <;>
      split_ifs <;> simp only [Tbl.get_set, Tbl.get_erase, hi, if_false] <;> exact hg

/-! ### `QuotaConserved` is preserved -/

theorem nodeSubscribe_quota {s s' : State} {frm node : Addr} {gb hr : Int} {denom : Denom}
    (h : nodeSubscribe s frm node gb hr denom = .ok s') (hc : CountInv s) (hn : Tbl.Nodup s.allocs)
    (hq : QuotaConserved s) : QuotaConserved s' := by
  have hp := psView_plans (nodeSubscribe_psView h)
  have hf : ∀ a, s.allocs.has (s.subCount.getD 0 + 1, a) = false := fun a => Tbl.has_false_of_get (hc.fresh.allocs a)
  rcases nodeSubscribe_tables h with ⟨_, x, dep, hk, es, ea⟩ | ⟨_, x, dep, hk, es, ea⟩
  · exact quota_new hn hf es hp (Or.inl ⟨ea, by unfold bought; rw [hk]⟩) hq
  · exact quota_new (acc := frm) (al := default) hn hf es hp (Or.inr ⟨ea, by unfold bought; rw [hk]; simp⟩) hq

theorem planSubscribe_quota {s s' : State} {frm : Addr} {id : Nat} {denom : Denom}
    (h : planSubscribe s frm id denom = .ok s') (hc : CountInv s) (hn : Tbl.Nodup s.allocs)
    (hq : QuotaConserved s) : QuotaConserved s' := by
  have hp := psView_plans (planSubscribe_psView h)
  have hf : ∀ a, s.allocs.has (s.subCount.getD 0 + 1, a) = false := fun a => Tbl.has_false_of_get (hc.fresh.allocs a)
  obtain ⟨plan, x, d, hplan, hk, es, ea⟩ := planSubscribe_tables h
  have hpid : plan.id = id := (hc.plans id plan (getPlan_mem hplan)).1
  refine quota_new hn hf es hp (Or.inl ⟨ea, ?_⟩) hq
  unfold bought; rw [hk]; simp only []; rw [hpid, hplan]; rfl

theorem subAllocate_quota {s s' : State} {frm toA : Addr} {id : Nat} {bytes : Int}
    (h : subAllocate s frm id toA bytes = .ok s') (hc : CountInv s) (hn : Tbl.Nodup s.allocs)
    (hq : QuotaConserved s) : QuotaConserved s' := by
  have hp := psView_plans (subAllocate_psView h)
  obtain ⟨sub, fa, ta, hsub, _, _, hfa, hne, hta, _, _, es, ea⟩ := subAllocate_tables h
  obtain ⟨f1, f2, _⟩ := hc.allocs _ _ _ hfa
  have t12 : ta.id = id ∧ ta.addr = toA := by
    rw [hta]
    cases hg : s.allocs.get (id, toA) with
    | none => exact ⟨rfl, rfl⟩
    | some o => obtain ⟨a, b, _⟩ := hc.allocs _ _ _ hg; exact ⟨a, b⟩
  rw [f1, f2, t12.1, t12.2] at ea
  refine quota_allocate hn hne hfa hta ?_ es ea hp hq
  simp only []; omega

theorem subCancel_quota {s s' : State} {frm : Addr} {id : Nat} (h : subCancel s frm id = .ok s') (hc : CountInv s)
    (hq : QuotaConserved s) : QuotaConserved s' := by
  obtain ⟨sub, x, hsub, hk, ea, es, _⟩ := subCancel_tables h
  have hid : sub.id = id := (hc.subs _ _ hsub).1
  rw [hid] at es
  exact quota_rewrite hsub hk es ea (subCancel_plans h) hq

theorem handle_quota {s s' : State} {m : Msg} (h : m.handle s = .ok s') (hc : CountInv s) (hn : Tbl.Nodup s.allocs)
    (hq : QuotaConserved s) : QuotaConserved s' := by
  cases m <;> simp only [Msg.handle] at h
  case provRegister => exact hq.of_views (provRegister_subView h) (provRegister_psView h)
  case provUpdate => exact hq.of_views (provUpdate_subView h) (provUpdate_psView h)
  case nodeRegister => exact hq.of_views (nodeRegister_subView h) (nodeRegister_psView h)
  case nodeUpdate => exact hq.of_views (nodeUpdate_subView h) (nodeUpdate_psView h)
  case nodeStatus => exact hq.of_views (nodeStatus_subView h) (nodeStatus_psView h)
  case nodeSubscribe => exact nodeSubscribe_quota h hc hn hq
  case planCreate =>
    exact hq.of_planStable (congrArg SubView.subs (planCreate_subView h)) (congrArg SubView.allocs (planCreate_subView h))
      (planCreate_planStable h hc)
  case planStatus =>
    exact hq.of_planStable (congrArg SubView.subs (planStatus_subView h)) (congrArg SubView.allocs (planStatus_subView h))
      (planStatus_planStable h hc)
  case planLink => exact hq.of_views (planLink_subView h) (planLink_psView h)
  case planUnlink => exact hq.of_views (planUnlink_subView h) (planUnlink_psView h)
  case planSubscribe => exact planSubscribe_quota h hc hn hq
  case subCancel => exact subCancel_quota h hc hq
  case subAllocate => exact subAllocate_quota h hc hn hq
  case sessStart =>
    exact hq.of_eqs (congrArg SubView.subs (sessStart_subView h)) (congrArg SubView.allocs (sessStart_subView h)) (sessStart_plans h)
  case sessUpdate =>
    exact hq.of_eqs (congrArg SubView.subs (sessUpdate_subView h)) (congrArg SubView.allocs (sessUpdate_subView h)) (sessUpdate_plans h)
  case sessEnd =>
    exact hq.of_eqs (congrArg SubView.subs (sessEnd_subView h)) (congrArg SubView.allocs (sessEnd_subView h)) (sessEnd_plans h)
  case swap => exact hq.of_views (swap_subView h) (swap_psView h)

theorem QuotaConserved.clearEvents {s : State} (hq : QuotaConserved s) : QuotaConserved { s with events := [] } :=
  hq.of_eqs rfl rfl ⟨rfl, rfl⟩

theorem deliver_quota (s : State) (m : Msg) (hc : CountInv s) (hn : Tbl.Nodup s.allocs) (hq : QuotaConserved s) :
    QuotaConserved (deliver s m).1 := by
  unfold deliver
  simp only []
  cases hr : (do m.validateBasic; m.handle { s with events := [] } : M State) with
  | ok s' =>
    simp only [bind_eq_ok] at hr
    obtain ⟨u, hv, hh⟩ := hr
    exact handle_quota hh hc.clearEvents hn hq.clearEvents
  | error e => cases e <;> exact hq.clearEvents

theorem gov_quota (s : State) (c : ParamChange) (hq : QuotaConserved s) : QuotaConserved ((gov s c).getD s) := by
  cases hg : gov s c with
  | none => exact hq
  | some s' => exact hq.of_views (gov_subView hg) (gov_psView hg)

theorem payoutStep_quota {s s' : State} {k : Time × Nat} (h : payoutStep s k = .ok s') (hq : QuotaConserved s) :
    QuotaConserved s' := by
  obtain ⟨item, _, hv⟩ := payoutStep_view h
  exact hq.of_eqs (congrArg SubView.subs hv) (congrArg SubView.allocs hv) (psView_plans (payoutStep_psView h))

theorem beginBlock_quota {s s' : State} {t : Time} (h : beginBlock s t = .ok s') (hq : QuotaConserved s) : QuotaConserved s' := by
  unfold beginBlock haltOf at h
  split at h <;> try contradiction
  rename_i s'' hs
  simp only [Except.ok.injEq] at h
  subst h
  unfold subscriptionBeginBlock at hs
  refine foldlM_inv QuotaConserved _ ?_ _ _ _ hs ?_
  · intro s0 k s1 h1 hp
    rw [panicIfErr_eq_ok] at h1
    exact payoutStep_quota h1 hp
  · refine hq.of_views ?_ ?_
    · rw [subView_distrSweep]; unfold mintBeginBlock; rw [subView_mintBeginBlock_go]; rfl
    · rw [psView_distrSweep]; unfold mintBeginBlock; rw [psView_mintBeginBlock_go]; rfl

theorem sessionStep_quota {s s' : State} {k : Time × Nat} (h : sessionStep s k = .ok s') (hk : Keyed s)
    (hn : Tbl.Nodup s.allocs) (hq : QuotaConserved s) : QuotaConserved s' := by
  obtain ⟨item, hitem, es, ⟨_, ea, _⟩ | ⟨_, _, ha⟩⟩ := sessionStep_tables h
  · exact hq.of_eqs es ea (sessionStep_plans h)
  · rcases ha with ea | ⟨x, sub, a, _, _, _, hga, ea⟩
    · exact hq.of_eqs es ea (sessionStep_plans h)
    · obtain ⟨k1, k2⟩ := hk.allocs _ _ _ hga
      rw [k1, k2] at ea
      exact quota_sameGrant (a' := allocAfterUse a (a.used + (item.up + item.down))) hn hga rfl es ea (sessionStep_plans h) hq

theorem subscriptionStep_quota {s s' : State} {d : Dur} {k : Time × Nat} (h : subscriptionStep d s k = .ok s') (hk : Keyed s)
    (hn : Tbl.Nodup s.allocs) (hq : QuotaConserved s) : QuotaConserved s' := by
  obtain ⟨item, hitem, ⟨_, ea, _, x, hx, es⟩ | ⟨_, es, _, l, ea⟩⟩ := subscriptionStep_tables h
  · have hid : item.id = k.2 := hk.subs _ _ hitem
    rw [hid] at es
    exact quota_rewrite hitem hx es ea (subscriptionStep_plans h) hq
  · exact quota_remove hn es ea (subscriptionStep_plans h) hq

theorem endBlock_quota {s s' : State} (h : endBlock s = .ok s') (hk : Keyed s) (hi : SubIdx s) (hq : QuotaConserved s) :
    QuotaConserved s' := by
  unfold endBlock haltOf at h
  split at h <;> try contradiction
  rename_i s2 hs
  split at hs <;> try contradiction
  rename_i s3 hs3
  simp only [Except.ok.injEq] at hs h
  subst hs; subst h
  unfold vpnEndBlock nodeEndBlock at hs3
  simp only [bind_eq_ok] at hs3
  obtain ⟨s1, ⟨sa, ha, hb⟩, sb, hc, hd⟩ := hs3
  have e1 : subView s1 = subView s := by rw [nodeExpire_subView hb, nodeSweep_subView ha]; rfl
  have e2 : psView s1 = psView s := by rw [nodeExpire_psView hb, nodeSweep_psView ha]; rfl
  have i1 : (SubIdx s1 ∧ Keyed s1) ∧ QuotaConserved s1 := ⟨⟨SubIdx.of_view e1 hi, Keyed.of_view e1 hk⟩, hq.of_views e1 e2⟩
  have i2 : (SubIdx sb ∧ Keyed sb) ∧ QuotaConserved sb :=
    foldlM_inv (fun s => (SubIdx s ∧ Keyed s) ∧ QuotaConserved s) _
      (fun s0 k s1 h1 hp => ⟨sessionStep_subIdx' h1 hp.1.2 hp.1.1, sessionStep_quota h1 hp.1.2 hp.1.1.nodup.2.2.2.2.2.1 hp.2⟩) _ _ _ hc i1
  have i3 : (SubIdx s3 ∧ Keyed s3) ∧ QuotaConserved s3 :=
    foldlM_inv (fun s => (SubIdx s ∧ Keyed s) ∧ QuotaConserved s) _
      (fun s0 k s1 h1 hp => ⟨subscriptionStep_subIdx h1 hp.1.2 hp.1.1, subscriptionStep_quota h1 hp.1.2 hp.1.1.nodup.2.2.2.2.2.1 hp.2⟩) _ _ _ hd i2
  exact i3.2.of_eqs rfl rfl ⟨rfl, rfl⟩

/-- `QuotaConserved` is kept by every operation, given `CountInv` and `SubIdx` of the pre-state. -/
theorem step_quota {s s' : State} {op : Op} (h : step s op = some s') (hc : CountInv s) (hi : SubIdx s)
    (hq : QuotaConserved s) : QuotaConserved s' := by
  cases op with
  | tx m =>
    simp only [step, Option.some.injEq] at h
    rw [← h]; exact deliver_quota s m hc hi.nodup.2.2.2.2.2.1 hq
  | begin t =>
    simp only [step] at h
    split at h
    · rename_i s1 hb
      simp only [Option.some.injEq] at h; rw [← h]; exact beginBlock_quota hb hq
    · contradiction
  | endB =>
    simp only [step] at h
    split at h
    · rename_i s1 hb
      simp only [Option.some.injEq] at h; rw [← h]; exact endBlock_quota hb hc.keyed hi hq
    · contradiction
  | gov c =>
    simp only [step, Option.some.injEq] at h
    rw [← h]; exact gov_quota s c hq

theorem genesis_quota (g : Genesis) : QuotaConserved g.state := by
  have e1 : subView g.state = subView g.base := by
    unfold Genesis.state
    exact foldl_inv (fun s' => subView s' = subView g.base) addBalance
      (fun s0 b h => (subView_addBalance s0 b).trans h) _ _ rfl
  intro i x hx
  have : g.state.subs = g.base.subs := congrArg SubView.subs e1
  rw [this] at hx
  simp [Genesis.base, Tbl.get] at hx

/-! ### `used` never decreases and grows only at settlement -/

/-- For every allocation present before and after, `used` did not decrease. -/
def UsedMono (s s' : State) : Prop :=
  ∀ k al al', s.allocs.get k = some al → s'.allocs.get k = some al' → al.used ≤ al'.used

/-- For every allocation present before and after, `used` is unchanged. -/
def UsedSame (s s' : State) : Prop :=
  ∀ k al al', s.allocs.get k = some al → s'.allocs.get k = some al' → al'.used = al.used

/-- Hook steps never create allocations: every allocation after the step was there before, unchanged. -/
def AllocsKept (s s' : State) : Prop := ∀ k al', s'.allocs.get k = some al' → s.allocs.get k = some al'

/-- … or was there before with no more `used` than now. -/
def AllocsGrown (s s' : State) : Prop :=
  ∀ k al', s'.allocs.get k = some al' → ∃ al, s.allocs.get k = some al ∧ al.used ≤ al'.used

theorem UsedSame.of_eq {s s' : State} (h : s'.allocs = s.allocs) : UsedSame s s' := by
  intro k al al' h1 h2; rw [h, h1] at h2; simp only [Option.some.injEq] at h2; rw [h2]

theorem UsedSame.mono {s s' : State} (h : UsedSame s s') : UsedMono s s' :=
  fun k al al' h1 h2 => le_of_eq (h k al al' h1 h2).symm

theorem AllocsKept.of_eq {s s' : State} (h : s'.allocs = s.allocs) : AllocsKept s s' := by
  intro k al' h1; rw [h] at h1; exact h1

theorem AllocsKept.trans {a b c : State} (h1 : AllocsKept a b) (h2 : AllocsKept b c) : AllocsKept a c :=
  fun k al' h => h1 k al' (h2 k al' h)

theorem AllocsKept.grown {s s' : State} (h : AllocsKept s s') : AllocsGrown s s' :=
  fun k al' h1 => ⟨al', h k al' h1, le_refl _⟩

theorem AllocsGrown.refl (s : State) : AllocsGrown s s := fun k al' h => ⟨al', h, le_refl _⟩

theorem AllocsGrown.trans {a b c : State} (h1 : AllocsGrown a b) (h2 : AllocsGrown b c) : AllocsGrown a c := by
  intro k al' h
  obtain ⟨al1, g1, l1⟩ := h2 k al' h
  obtain ⟨al0, g0, l0⟩ := h1 k al1 g1
  exact ⟨al0, g0, le_trans l0 l1⟩

theorem AllocsGrown.mono {s s' : State} (h : AllocsGrown s s') : UsedMono s s' := by
  intro k al al' h1 h2
  obtain ⟨al0, g0, l0⟩ := h k al' h2
  rw [h1] at g0; simp only [Option.some.injEq] at g0; rw [g0]; exact l0

theorem AllocsKept.same {s s' : State} (h : AllocsKept s s') : UsedSame s s' := by
  intro k al al' h1 h2
  have := h k al' h2
  rw [h1] at this; simp only [Option.some.injEq] at this; rw [this]

/-- Handlers never change `used` of an allocation that survives (sharing moves `granted` only). -/
theorem handle_usedSame {s s' : State} {m : Msg} (h : m.handle s = .ok s') (hc : CountInv s) : UsedSame s s' := by
  cases m <;> simp only [Msg.handle] at h
  case provRegister => exact UsedSame.of_eq (congrArg SubView.allocs (provRegister_subView h))
  case provUpdate => exact UsedSame.of_eq (congrArg SubView.allocs (provUpdate_subView h))
  case nodeRegister => exact UsedSame.of_eq (congrArg SubView.allocs (nodeRegister_subView h))
  case nodeUpdate => exact UsedSame.of_eq (congrArg SubView.allocs (nodeUpdate_subView h))
  case nodeStatus => exact UsedSame.of_eq (congrArg SubView.allocs (nodeStatus_subView h))
  case nodeSubscribe =>
    rcases nodeSubscribe_tables h with ⟨_, x, dep, hk, es, ea⟩ | ⟨_, x, dep, hk, es, ea⟩
    · intro k al al' h1 h2
      rw [ea, Tbl.get_set] at h2
      split_ifs at h2 with hcnd
      · rw [← hcnd, hc.fresh.allocs] at h1; contradiction
      · rw [h1] at h2; simp only [Option.some.injEq] at h2; rw [h2]
    · exact UsedSame.of_eq ea
  case planCreate => exact UsedSame.of_eq (congrArg SubView.allocs (planCreate_subView h))
  case planStatus => exact UsedSame.of_eq (congrArg SubView.allocs (planStatus_subView h))
  case planLink => exact UsedSame.of_eq (congrArg SubView.allocs (planLink_subView h))
  case planUnlink => exact UsedSame.of_eq (congrArg SubView.allocs (planUnlink_subView h))
  case planSubscribe =>
    obtain ⟨plan, x, d, hplan, hk, es, ea⟩ := planSubscribe_tables h
    intro k al al' h1 h2
    rw [ea, Tbl.get_set] at h2
    split_ifs at h2 with hcnd
    · rw [← hcnd, hc.fresh.allocs] at h1; contradiction
    · rw [h1] at h2; simp only [Option.some.injEq] at h2; rw [h2]
  case subCancel =>
    obtain ⟨sub, x, _, _, ea, _, _⟩ := subCancel_tables h
    exact UsedSame.of_eq ea
  case subAllocate frm id toA bytes =>
    obtain ⟨sub, fa, ta, hsub, _, _, hfa, hne, hta, _, _, es, ea⟩ := subAllocate_tables h
    obtain ⟨f1, f2, _⟩ := hc.allocs _ _ _ hfa
    intro k al al' h1 h2
    rw [ea, Tbl.get_set] at h2
    split_ifs at h2 with c1
    · simp only [Option.some.injEq] at h2; subst h2
      simp only []
      rw [hta] at c1 ⊢
      cases hg : s.allocs.get (id, toA.bytes) with
      | none =>
        rw [hg] at c1; simp only [Option.getD_none] at c1
        rw [← c1, hg] at h1; contradiction
      | some o =>
        obtain ⟨o1, o2, _⟩ := hc.allocs _ _ _ hg
        rw [hg] at c1; simp only [Option.getD_some] at c1
        rw [o1, o2] at c1
        rw [← c1, hg] at h1; simp only [Option.some.injEq] at h1
        simp only [Option.getD_some]; rw [h1]
    · rw [Tbl.get_set] at h2
      split_ifs at h2 with c2
      · simp only [Option.some.injEq] at h2; subst h2
        rw [f1, f2] at c2
        rw [← c2, hfa] at h1; simp only [Option.some.injEq] at h1
        rw [h1]
      · rw [h1] at h2; simp only [Option.some.injEq] at h2; rw [h2]
  case sessStart => exact UsedSame.of_eq (congrArg SubView.allocs (sessStart_subView h))
  case sessUpdate => exact UsedSame.of_eq (congrArg SubView.allocs (sessUpdate_subView h))
  case sessEnd => exact UsedSame.of_eq (congrArg SubView.allocs (sessEnd_subView h))
  case swap => exact UsedSame.of_eq (congrArg SubView.allocs (swap_subView h))

theorem deliver_usedSame (s : State) (m : Msg) (hc : CountInv s) : UsedSame s (deliver s m).1 := by
  unfold deliver
  simp only []
  cases hr : (do m.validateBasic; m.handle { s with events := [] } : M State) with
  | ok s' =>
    simp only [bind_eq_ok] at hr
    obtain ⟨u, hv, hh⟩ := hr
    have := handle_usedSame hh hc.clearEvents
    exact fun k al al' h1 h2 => this k al al' h1 h2
  | error e => cases e <;> exact UsedSame.of_eq rfl

theorem payoutStep_allocs {s s' : State} {k : Time × Nat} (h : payoutStep s k = .ok s') : s'.allocs = s.allocs := by
  obtain ⟨item, _, hv⟩ := payoutStep_view h
  exact congrArg SubView.allocs hv

theorem beginBlock_allocs {s s' : State} {t : Time} (h : beginBlock s t = .ok s') : s'.allocs = s.allocs := by
  unfold beginBlock haltOf at h
  split at h <;> try contradiction
  rename_i s'' hs
  simp only [Except.ok.injEq] at h
  subst h
  unfold subscriptionBeginBlock at hs
  have e0 : (distrSweep (mintBeginBlock { s with time := t, height := s.height + 1, events := [] })).allocs = s.allocs := by
    have : subView (distrSweep (mintBeginBlock { s with time := t, height := s.height + 1, events := [] })) = subView s := by
      rw [subView_distrSweep]; unfold mintBeginBlock; rw [subView_mintBeginBlock_go]; rfl
    exact congrArg SubView.allocs this
  refine foldlM_inv (fun s0 => s0.allocs = s.allocs) _ ?_ _ _ _ hs e0
  intro s0 k s1 h1 hp
  rw [panicIfErr_eq_ok] at h1
  rw [payoutStep_allocs h1]; exact hp

/-- **Settlement**: `sessionStep` for the session `item` changes at most the allocation the session was
opened on, leaves its grant, and raises `used` by at most the bytes the session reported. -/
theorem sessionStep_used {s s' : State} {k : Time × Nat} (h : sessionStep s k = .ok s') (hk : AllocKeyed s) :
    ∃ item, s.sessions.get k.2 = some item ∧
      ∀ key al', s'.allocs.get key = some al' → ∃ al, s.allocs.get key = some al ∧
        (al' = al ∨
         (item.status ≠ .StatusActive ∧ (∃ x sub, s.sessions.get item.id = some x ∧ s.subs.get x.sub = some sub ∧ key = (sub.id, item.addr)) ∧
          al'.granted = al.granted ∧
          al'.used = (if al.used + (item.up + item.down) > al.granted then al.granted else al.used + (item.up + item.down)))) := by
  obtain ⟨item, hitem, es, ⟨_, ea, _⟩ | ⟨hst, _, ha⟩⟩ := sessionStep_tables h
  · exact ⟨item, hitem, fun key al' hg => ⟨al', by rw [ea] at hg; exact hg, Or.inl rfl⟩⟩
  · refine ⟨item, hitem, fun key al' hg => ?_⟩
    rcases ha with ea | ⟨x, sub, a, hx, hsub, _, hga, ea⟩
    · exact ⟨al', by rw [ea] at hg; exact hg, Or.inl rfl⟩
    · obtain ⟨k1, k2⟩ := hk _ _ _ hga
      rw [ea, k1, k2, Tbl.get_set] at hg
      split_ifs at hg with hc
      · simp only [Option.some.injEq] at hg; subst hg
        exact ⟨a, by rw [← hc]; exact hga, Or.inr ⟨hst, ⟨x, sub, hx, hsub, hc.symm⟩, rfl, rfl⟩⟩
      · exact ⟨al', hg, Or.inl rfl⟩

theorem sessionStep_grown {s s' : State} {k : Time × Nat} (h : sessionStep s k = .ok s') (hi : AllocInv s) :
    AllocsGrown s s' := by
  obtain ⟨item, hitem, hu⟩ := sessionStep_used h hi.keyed
  intro key al' hg
  obtain ⟨al, hga, e | ⟨_, _, _, e⟩⟩ := hu key al' hg
  · exact ⟨al, hga, by rw [e]⟩
  · refine ⟨al, hga, ?_⟩
    have hb := hi.bounds _ _ hga
    have hn := hi.sessNonneg _ _ hitem
    rw [e]; split_ifs <;> omega

theorem subscriptionStep_kept {s s' : State} {d : Dur} {k : Time × Nat} (h : subscriptionStep d s k = .ok s') :
    AllocsKept s s' := by
  obtain ⟨item, hitem, ⟨_, ea, _, _⟩ | ⟨_, _, _, l, ea⟩⟩ := subscriptionStep_tables h
  · exact AllocsKept.of_eq ea
  · intro key al' hg
    rw [ea] at hg
    exact foldl_erase_sub (fun a => (item.id, a)) l s.allocs key al' hg

theorem endBlock_grown {s s' : State} (h : endBlock s = .ok s') (hi : AllocInv s) : AllocsGrown s s' := by
  unfold endBlock haltOf at h
  split at h <;> try contradiction
  rename_i s2 hs
  split at hs <;> try contradiction
  rename_i s3 hs3
  simp only [Except.ok.injEq] at hs h
  subst hs; subst h
  unfold vpnEndBlock nodeEndBlock at hs3
  simp only [bind_eq_ok] at hs3
  obtain ⟨s1, ⟨sa, ha, hb⟩, sb, hc, hd⟩ := hs3
  have e1 : subView s1 = subView s := by rw [nodeExpire_subView hb, nodeSweep_subView ha]; rfl
  have e2 : psView s1 = psView s := by rw [nodeExpire_psView hb, nodeSweep_psView ha]; rfl
  have i1 : AllocInv s1 ∧ AllocsGrown s s1 :=
    ⟨AllocInv.of_views e1 e2 hi, (AllocsKept.of_eq (congrArg SubView.allocs e1)).grown⟩
  have i2 : AllocInv sb ∧ AllocsGrown s sb :=
    foldlM_inv (fun s0 => AllocInv s0 ∧ AllocsGrown s s0) _
      (fun s0 k s1 h1 hp => ⟨sessionStep_allocInv h1 hp.1, hp.2.trans (sessionStep_grown h1 hp.1)⟩) _ _ _ hc i1
  have i3 : AllocsGrown s s3 :=
    foldlM_inv (fun s0 => AllocsGrown s s0) _
      (fun s0 k s1 h1 hp => hp.trans (subscriptionStep_kept h1).grown) _ _ _ hd i2.2
  exact i3

/-- **`used` never decreases**, over any single operation. -/
theorem step_usedMono {s s' : State} {op : Op} (h : step s op = some s') (hc : CountInv s) (hi : AllocInv s) : UsedMono s s' := by
  cases op with
  | tx m =>
    simp only [step, Option.some.injEq] at h
    rw [← h]; exact (deliver_usedSame s m hc).mono
  | begin t =>
    simp only [step] at h
    split at h
    · rename_i s1 hb
      simp only [Option.some.injEq] at h; rw [← h]; exact (UsedSame.of_eq (beginBlock_allocs hb)).mono
    · contradiction
  | endB =>
    simp only [step] at h
    split at h
    · rename_i s1 hb
      simp only [Option.some.injEq] at h; rw [← h]; exact (endBlock_grown hb hi).mono
    · contradiction
  | gov c =>
    simp only [step, Option.some.injEq] at h
    rw [← h]
    cases hg : gov s c with
    | none => exact (UsedSame.of_eq rfl).mono
    | some s1 => exact (UsedSame.of_eq (congrArg SubView.allocs (gov_subView hg))).mono

/-- **`used` grows only at settlement**: an operation that raises `used` of a surviving allocation is the
end of a block (whose session pass settles sessions, `sessionStep_used`). -/
theorem step_used_grows_only_endB {s s' : State} {op : Op} (h : step s op = some s') (hc : CountInv s)
    {k : Nat × Addr} {al al' : Alloc} (h1 : s.allocs.get k = some al) (h2 : s'.allocs.get k = some al')
    (hlt : al.used < al'.used) : op = .endB := by
  cases op with
  | tx m =>
    simp only [step, Option.some.injEq] at h
    rw [← h] at h2
    have := deliver_usedSame s m hc k al al' h1 h2
    omega
  | begin t =>
    simp only [step] at h
    split at h
    · rename_i s1 hb
      simp only [Option.some.injEq] at h; rw [← h] at h2
      have := UsedSame.of_eq (beginBlock_allocs hb) k al al' h1 h2
      omega
    · contradiction
  | endB => rfl
  | gov c =>
    simp only [step, Option.some.injEq] at h
    rw [← h] at h2
    have : UsedSame s ((gov s c).getD s) := by
      cases hg : gov s c with
      | none => exact UsedSame.of_eq rfl
      | some s1 => exact UsedSame.of_eq (congrArg SubView.allocs (gov_subView hg))
    have := this k al al' h1 h2
    omega

/-! ### sharing never leaves a holder below what they used; an exhausted holder cannot start -/

theorem share_never_below_used {s s' : State} {frm toA : Addr} {id : Nat} {bytes : Int}
    (h : subAllocate s frm id toA bytes = .ok s') (hi : AllocInv s) :
    ∀ k al', s'.allocs.get k = some al' → al'.used ≤ al'.granted :=
  fun k al' hg => ((subAllocate_allocInv h hi).bounds k al' hg).2

theorem exhausted_cannot_start {s s' : State} {frm : TextAddr} {id : Nat} {node : Addr}
    (h : sessStart s frm id node = .ok s') :
    ∃ sub, s.subs.get id = some sub ∧
      (isHourly sub = false → ∃ a, s.allocs.get (sub.id, frm.bytes) = some a ∧ a.used < a.granted) := by
  unfold sessStart at h
  simp only [bind_eq_ok, pure_eq_ok, require_eq_ok, orReject_eq_ok] at h
  obtain ⟨sub, hsub, _, _, n, _, _, _, _, _, _, hq, _⟩ := h
  refine ⟨sub, hsub, fun hh => ?_⟩
  unfold sessStartQuotaCheck at hq
  cases hkd : sub.kind with
  | node n gb hr dep =>
    rw [hkd] at hq
    simp only [bind_eq_ok, require_eq_ok, hh, Bool.false_eq_true, if_false, orReject_eq_ok] at hq
    obtain ⟨_, _, a, ha, hlt⟩ := hq
    exact ⟨a, ha, by simpa using hlt⟩
  | plan pid d =>
    rw [hkd] at hq
    simp only [bind_eq_ok, require_eq_ok, hh, Bool.false_eq_true, if_false, orReject_eq_ok] at hq
    obtain ⟨a, ha, hlt⟩ := hq
    exact ⟨a, ha, by simpa using hlt⟩

end Hub.Model
