import Hub.Lemmas.CalendarInvDefs
/- Quarter 2 of the second day-of-era table: entries [8 * 9131, 12 * 9131), evaluated by the kernel. -/
namespace Hub.Lemmas.Calendar

theorem invChunk8 : allFrom invOK (8 * 9131) 9131 = true := by decide +kernel
theorem invChunk9 : allFrom invOK (9 * 9131) 9131 = true := by decide +kernel
theorem invChunk10 : allFrom invOK (10 * 9131) 9131 = true := by decide +kernel
theorem invChunk11 : allFrom invOK (11 * 9131) 9131 = true := by decide +kernel

end Hub.Lemmas.Calendar
