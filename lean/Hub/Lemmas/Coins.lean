import Hub.SDK.Coins
/-
`amountOf` is additive under `addAmt` (hence `add`/`sub`) on every coin list.
-/
namespace Hub.SDK.Coins

theorem amountOf_nil (d : Denom) : amountOf [] d = 0 := rfl

theorem find?_insertSorted_self (cs : Coins) (c : Coin) (h : cs.find? (·.denom = c.denom) = none) :
    (insertSorted cs c).find? (·.denom = c.denom) = some c := by
  induction cs with
  | nil => simp [insertSorted]
  | cons x rest ih =>
    have hx : ¬ (x.denom = c.denom) := by
      intro e; simp [List.find?, e] at h
    have hr : rest.find? (·.denom = c.denom) = none := by
      simpa [List.find?, hx] using h
    unfold insertSorted
    by_cases hlt : c.denom < x.denom
    · simp [hlt]
    · simp only [hlt, if_false, List.find?, hx, decide_false]
      exact ih hr

theorem find?_insertSorted_ne (cs : Coins) (c : Coin) (d : Denom) (h : c.denom ≠ d) :
    (insertSorted cs c).find? (·.denom = d) = cs.find? (·.denom = d) := by
  induction cs with
  | nil => simp [insertSorted, h]
  | cons x rest ih =>
    unfold insertSorted
    by_cases hlt : c.denom < x.denom
    · simp [hlt, List.find?, h]
    · simp only [hlt, if_false, List.find?]
      by_cases hx : x.denom = d
      · simp [hx]
      · simp only [hx, decide_false]; exact ih

theorem find?_map_update (cs : Coins) (d d' : Denom) (a : Int) :
    (cs.map (fun x => if x.denom = d then (⟨d, x.amount + a⟩ : Coin) else x)).find? (·.denom = d')
      = (cs.find? (·.denom = d')).map (fun x => if x.denom = d then (⟨d, x.amount + a⟩ : Coin) else x) := by
  rw [List.find?_map]
  have : ((fun x : Coin => decide (x.denom = d')) ∘ fun x => if x.denom = d then (⟨d, x.amount + a⟩ : Coin) else x)
      = (fun x : Coin => decide (x.denom = d')) := by
    funext x
    simp only [Function.comp]
    by_cases hx : x.denom = d
    · simp [hx]
    · simp [hx]
  rw [this]

theorem find?_filter_ne (cs : Coins) (d d' : Denom) :
    (cs.filter (fun x => x.denom ≠ d)).find? (·.denom = d') = if d = d' then none else cs.find? (·.denom = d') := by
  induction cs with
  | nil => simp
  | cons x rest ih =>
    by_cases hx : x.denom = d
    · simp only [List.filter, hx, ne_eq, not_true_eq_false, decide_false, ih, List.find?]
      by_cases hd : d = d'
      · simp [hd]
      · simp [hd]
    · simp only [List.filter, ne_eq, hx, not_false_eq_true, decide_true, List.find?]
      by_cases hd : x.denom = d'
      · have : ¬ (d = d') := by rw [← hd]; exact fun e => hx e.symm
        simp [hd, this]
      · simp only [hd, decide_false, ih]

/-- The key fact: `amountOf` after adding `a` of `d`. -/
theorem amountOf_addAmt (cs : Coins) (d d' : Denom) (a : Int) :
    amountOf (addAmt cs d a) d' = amountOf cs d' + (if d = d' then a else 0) := by
  unfold addAmt amountOf
  cases hf : cs.find? (·.denom = d) with
  | none =>
    simp only []
    by_cases ha : a = 0
    · simp [ha]
    · simp only [ha, if_false]
      by_cases hd : d = d'
      · subst hd
        rw [find?_insertSorted_self cs ⟨d, a⟩ hf, hf]; simp
      · rw [find?_insertSorted_ne cs ⟨d, a⟩ d' hd]; simp [hd]
  | some c =>
    have hc : c.denom = d := by simpa using List.find?_some hf
    simp only []
    by_cases hz : c.amount + a = 0
    · simp only [hz, if_true, find?_filter_ne]
      by_cases hd : d = d'
      · subst hd; simp only [if_true, hf]; omega
      · simp [hd]
    · simp only [hz, if_false, find?_map_update]
      by_cases hd : d = d'
      · subst hd; simp [hf, hc]
      · cases hf' : cs.find? (·.denom = d') with
        | none => simp [hd]
        | some c' =>
          have hc' : c'.denom = d' := by simpa using List.find?_some hf'
          have : ¬ (c'.denom = d) := by rw [hc']; exact fun e => hd e.symm
          simp [this, hd]

theorem amountOf_add (cs : Coins) (c : Coin) (d : Denom) :
    amountOf (add cs c) d = amountOf cs d + (if c.denom = d then c.amount else 0) := amountOf_addAmt cs c.denom d c.amount

theorem amountOf_sub (cs : Coins) (c : Coin) (d : Denom) :
    amountOf (sub cs c) d = amountOf cs d - (if c.denom = d then c.amount else 0) := by
  unfold sub; rw [amountOf_addAmt]; split <;> omega

theorem nonneg_of_not_anyNegative {cs : Coins} (h : isAnyNegative cs = false) : Nonneg cs := by
  intro c hc
  unfold isAnyNegative at h
  have := List.any_eq_false.mp h c hc
  simpa using this

theorem amountOf_nonneg {cs : Coins} (h : Nonneg cs) (d : Denom) : 0 ≤ amountOf cs d := by
  unfold amountOf
  cases hf : cs.find? (·.denom = d) with
  | none => simp
  | some c => exact h c (List.mem_of_find?_eq_some hf)

theorem amountOf_of_isZero {cs : Coins} (h : isZero cs = true) (d : Denom) : amountOf cs d = 0 := by
  unfold amountOf
  cases hf : cs.find? (·.denom = d) with
  | none => rfl
  | some c =>
    have := List.all_eq_true.mp h c (List.mem_of_find?_eq_some hf)
    simpa using this

theorem nonneg_nil : Nonneg [] := by intro c hc; simp at hc

end Hub.SDK.Coins
