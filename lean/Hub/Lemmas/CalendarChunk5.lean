import Hub.Lemmas.CalendarDefs
/- Chunk 5 of the complete day-of-era table: entries [5 * 9131, (5 + 1) * 9131), evaluated by the kernel. -/
namespace Hub.Lemmas.Calendar

theorem chunk5 : allFrom entryOK (5 * 9131) 9131 = true := by decide +kernel

end Hub.Lemmas.Calendar
