import Hub.Lemmas.MoneyHandlers
import Hub.Lemmas.Bytes
/-
Helper lemmas for C15 (the custommint begin-of-block hook): stability of the store-order sort under
filtering, tables after erasing a list of keys, and a closed form of `mintBeginBlock.go`.
-/
namespace Hub.Model
open Hub.SDK

theorem append_split_unique {α : Type} (q : α → Bool) :
    ∀ {x₁ y₁ x₂ y₂ : List α}, x₁ ++ y₁ = x₂ ++ y₂ → (∀ b ∈ x₁, q b = true) → (∀ b ∈ y₁, q b = false) →
      (∀ b ∈ x₂, q b = true) → (∀ b ∈ y₂, q b = false) → x₁ = x₂ ∧ y₁ = y₂ := by
  intro x₁
  induction x₁ with
  | nil =>
    intro y₁ x₂ y₂ h _ hy1 hx2 _
    cases x₂ with
    | nil => exact ⟨rfl, by simpa using h⟩
    | cons c x₂' =>
      simp only [List.nil_append] at h
      have h1 := hy1 c (by rw [h]; simp)
      have h2 := hx2 c (by simp)
      rw [h1] at h2; contradiction
  | cons a x₁' ih =>
    intro y₁ x₂ y₂ h hx1 hy1 hx2 hy2
    cases x₂ with
    | nil =>
      simp only [List.nil_append] at h
      have h1 := hy2 a (by rw [← h]; simp)
      have h2 := hx1 a (by simp)
      rw [h1] at h2; contradiction
    | cons c x₂' =>
      simp only [List.cons_append, List.cons.injEq] at h
      obtain ⟨hac, h⟩ := h
      obtain ⟨e1, e2⟩ := ih h (fun b hb => hx1 b (by simp [hb])) hy1 (fun b hb => hx2 b (by simp [hb])) hy2
      exact ⟨by rw [hac, e1], e2⟩

theorem mergeSort_filter {α : Type} (le : α → α → Bool)
    (trans : ∀ (a b c : α), le a b → le b c → le a c)
    (total : ∀ (a b : α), le a b || le b a) (p : α → Bool) :
    ∀ l : List α, (l.filter p).mergeSort le = (l.mergeSort le).filter p := by
  intro l
  induction l with
  | nil => simp
  | cons a l ih =>
    obtain ⟨l₁, l₂, h₁, h₂, h₃⟩ := List.mergeSort_cons trans total a l
    have hs := List.pairwise_mergeSort trans total (a :: l)
    rw [h₁] at hs
    have h4 : ∀ b ∈ l₂, le a b = true := by
      intro b hb
      exact List.rel_of_pairwise_cons (List.pairwise_append.mp hs).2.1 hb
    by_cases hp : p a = true
    · rw [List.filter_cons_of_pos hp]
      obtain ⟨m₁, m₂, g₁, g₂, g₃⟩ := List.mergeSort_cons trans total a (l.filter p)
      have gs := List.pairwise_mergeSort trans total (a :: l.filter p)
      rw [g₁] at gs
      have g4 : ∀ b ∈ m₂, le a b = true := by
        intro b hb
        exact List.rel_of_pairwise_cons (List.pairwise_append.mp gs).2.1 hb
      rw [ih, h₂, List.filter_append] at g₂
      obtain ⟨e1, e2⟩ := append_split_unique (fun b => !le a b) g₂.symm
        (fun b hb => g₃ b hb) (fun b hb => by simp [g4 b hb])
        (fun b hb => h₃ b (List.mem_filter.mp hb).1) (fun b hb => by simp [h4 b (List.mem_filter.mp hb).1])
      rw [g₁, h₁, List.filter_append, List.filter_cons_of_pos hp, e1, e2]
    · rw [List.filter_cons_of_neg hp, ih, h₁, h₂, List.filter_append, List.filter_append, List.filter_cons_of_neg hp]

theorem bytesLe_total (a b : Bytes) : (bytesLe a b || bytesLe b a) = true := by
  cases h : bytesLt b a with
  | true => simp [bytesLe_of_lt h]
  | false => simp [(bytesLe_iff a b).mpr h]

theorem bytesLe_trans (a b c : Bytes) (h1 : bytesLe a b = true) (h2 : bytesLe b c = true) : bytesLe a c = true := by
  rw [bytesLe_iff_lt_or_eq] at h1 h2 ⊢
  rcases h1 with h1 | h1
  · rcases h2 with h2 | h2
    · left; exact bytesLt_trans h1 h2
    · left; rw [← h2]; exact h1
  · rw [h1]; exact h2

theorem sortKeys_filter {κ : Type} (enc : κ → Bytes) (p : κ → Bool) (ks : List κ) :
    sortKeys enc (ks.filter p) = (sortKeys enc ks).filter p :=
  mergeSort_filter (fun a b => bytesLe (enc a) (enc b)) (fun a b c => bytesLe_trans (enc a) (enc b) (enc c))
    (fun a b => bytesLe_total (enc a) (enc b)) p ks


/-! ### tables: keys and lookups after erasing a list of keys -/

theorem Tbl.keys_erase {κ α : Type} [DecidableEq κ] (t : Tbl κ α) (k : κ) :
    (t.erase k).keys = t.keys.filter (fun x => decide (x ≠ k)) := by
  unfold Tbl.erase Tbl.keys
  rw [List.filter_map]; rfl

def Tbl.eraseAll {κ α : Type} [DecidableEq κ] (t : Tbl κ α) (ks : List κ) : Tbl κ α :=
  ks.foldl (fun t k => t.erase k) t

theorem Tbl.eraseAll_nil {κ α : Type} [DecidableEq κ] (t : Tbl κ α) : Tbl.eraseAll t [] = t := rfl

theorem Tbl.eraseAll_cons {κ α : Type} [DecidableEq κ] (t : Tbl κ α) (k : κ) (ks : List κ) :
    Tbl.eraseAll t (k :: ks) = Tbl.eraseAll (t.erase k) ks := rfl

theorem Tbl.get_eraseAll {κ α : Type} [DecidableEq κ] (t : Tbl κ α) (ks : List κ) (k : κ) :
    (Tbl.eraseAll t ks).get k = if k ∈ ks then none else t.get k := by
  induction ks generalizing t with
  | nil => simp [Tbl.eraseAll]
  | cons a rest ih =>
    rw [Tbl.eraseAll_cons, ih, Tbl.get_erase]
    by_cases h1 : k ∈ rest
    · simp [h1]
    · by_cases h2 : a = k
      · simp [h2]
      · have : ¬ k = a := fun e => h2 e.symm
        simp [h1, h2, this]

theorem Tbl.keys_eraseAll {κ α : Type} [DecidableEq κ] (t : Tbl κ α) (ks : List κ) :
    (Tbl.eraseAll t ks).keys = t.keys.filter (fun x => decide (x ∉ ks)) := by
  induction ks generalizing t with
  | nil =>
    show t.keys = t.keys.filter _
    rw [List.filter_eq_self.mpr]; intro a _; simp
  | cons a rest ih =>
    rw [Tbl.eraseAll_cons, ih, Tbl.keys_erase, List.filter_filter]
    refine List.filter_congr ?_
    intro x _
    by_cases h1 : x ∈ rest <;> by_cases h2 : x = a <;> simp [h1, h2]

theorem Tbl.nodup_eraseAll {κ α : Type} [DecidableEq κ] {t : Tbl κ α} (h : Tbl.Nodup t) (ks : List κ) :
    Tbl.Nodup (Tbl.eraseAll t ks) := by
  induction ks generalizing t with
  | nil => exact h
  | cons a rest ih => rw [Tbl.eraseAll_cons]; exact ih (Tbl.nodup_erase h a)

theorem Tbl.length_eraseAll_prefix {κ α : Type} [DecidableEq κ] (t : Tbl κ α) (ks : List κ) :
    (Tbl.eraseAll t ks).length = (t.keys.filter (fun x => decide (x ∉ ks))).length := by
  rw [← Tbl.keys_eraseAll]; simp [Tbl.keys]

/-! ### the schedule in iteration order -/

/-- The keys of the schedule in store order. -/
def inflationKeys (s : State) : List Time := sortKeys Hub.Generated.Keys.mint.InflationKey s.inflations.keys

theorem inflationOrder_eq (s : State) : inflationOrder s = (inflationKeys s).filterMap (fun k => s.inflations.get k) := rfl

theorem inflationKeys_perm (s : State) : (inflationKeys s).Perm s.inflations.keys :=
  List.mergeSort_perm _ _

theorem mem_inflationKeys {s : State} {k : Time} : k ∈ inflationKeys s ↔ k ∈ s.inflations.keys :=
  (inflationKeys_perm s).mem_iff

theorem inflationKeys_nodup {s : State} (h : Tbl.Nodup s.inflations) : (inflationKeys s).Nodup :=
  (inflationKeys_perm s).nodup_iff.mpr h

/-- Schedule well-formedness: distinct keys, each entry stored under its own timestamp. -/
structure SchedWF (s : State) : Prop where
  nodup : Tbl.Nodup s.inflations
  keyed : ∀ k i, s.inflations.get k = some i → i.ts = k

theorem filterMap_get_map_ts (T : Tbl Time Inflation) (hk : ∀ k i, T.get k = some i → i.ts = k) :
    ∀ l : List Time, (∀ k ∈ l, k ∈ T.keys) → ((l.filterMap (fun k => T.get k)).map (·.ts)) = l := by
  intro l
  induction l with
  | nil => intro _; rfl
  | cons a rest ih =>
    intro hl
    obtain ⟨v, hv⟩ := Tbl.get_of_mem_keys (hl a (by simp))
    rw [List.filterMap_cons, hv]
    simp only [List.map_cons]
    rw [hk a v hv, ih (fun k hk' => hl k (by simp [hk']))]

theorem inflationOrder_map_ts {s : State} (hwf : SchedWF s) : (inflationOrder s).map (·.ts) = inflationKeys s :=
  filterMap_get_map_ts _ hwf.keyed _ (fun _ hk => mem_inflationKeys.mp hk)

theorem mem_inflationOrder {s : State} (hwf : SchedWF s) (i : Inflation) :
    i ∈ inflationOrder s ↔ s.inflations.get i.ts = some i := by
  rw [inflationOrder_eq, List.mem_filterMap]
  constructor
  · rintro ⟨k, _, hk⟩
    rw [hwf.keyed k i hk]; exact hk
  · intro h
    exact ⟨i.ts, mem_inflationKeys.mpr (Tbl.mem_keys_of_get h), h⟩

theorem inflationOrder_nodup {s : State} (hwf : SchedWF s) : (inflationOrder s).Nodup := by
  have := inflationKeys_nodup hwf.nodup
  rw [← inflationOrder_map_ts hwf] at this
  exact List.Pairwise.of_map (·.ts) (fun a b h e => h (by rw [e])) this

theorem takeWhile_map_ts (p : Time → Bool) (l : List Inflation) :
    (l.takeWhile (fun i => p i.ts)).map (·.ts) = (l.map (·.ts)).takeWhile p := by
  induction l with
  | nil => rfl
  | cons a rest ih =>
    by_cases h : p a.ts = true
    · simp [h, ih]
    · simp [h]

theorem filterMap_takeWhile (T : Tbl Time Inflation) (hk : ∀ k i, T.get k = some i → i.ts = k) (p : Time → Bool) :
    ∀ l : List Time, (∀ k ∈ l, k ∈ T.keys) →
      (l.filterMap (fun k => T.get k)).dropWhile (fun i => p i.ts) = (l.dropWhile p).filterMap (fun k => T.get k) := by
  intro l
  induction l with
  | nil => intro _; rfl
  | cons a rest ih =>
    intro hl
    obtain ⟨v, hv⟩ := Tbl.get_of_mem_keys (hl a (by simp))
    rw [List.filterMap_cons, hv]
    simp only []
    have hts := hk a v hv
    by_cases h : p a = true
    · rw [List.dropWhile_cons, List.dropWhile_cons, hts]
      simp only [h, if_true]
      exact ih (fun k hk' => hl k (by simp [hk']))
    · rw [List.dropWhile_cons, List.dropWhile_cons, hts]
      simp only [h]
      simp [hv]

theorem filterMap_congr' {α β : Type} (f g : α → Option β) (l : List α) (h : ∀ a ∈ l, f a = g a) :
    l.filterMap f = l.filterMap g := by
  induction l with
  | nil => rfl
  | cons a rest ih =>
    rw [List.filterMap_cons, List.filterMap_cons, h a (by simp), ih (fun b hb => h b (by simp [hb]))]

/-- Erasing the keys of a prefix (in store order) of the schedule leaves exactly the rest, in the same order. -/
theorem inflationOrder_erase_prefix (s : State) (hwf : SchedWF s) (p : Time → Bool) :
    inflationOrder { s with inflations := Tbl.eraseAll s.inflations ((inflationKeys s).takeWhile p) }
      = (inflationOrder s).dropWhile (fun i => p i.ts) := by
  rw [inflationOrder_eq s, filterMap_takeWhile _ hwf.keyed p _ (fun _ hk => mem_inflationKeys.mp hk)]
  have hS : inflationKeys s = (inflationKeys s).takeWhile p ++ (inflationKeys s).dropWhile p := List.takeWhile_append_dropWhile.symm
  have hnd := inflationKeys_nodup hwf.nodup
  rw [hS] at hnd
  have hdisj := (List.nodup_append.mp hnd).2.2
  have hkeys : inflationKeys { s with inflations := Tbl.eraseAll s.inflations ((inflationKeys s).takeWhile p) }
      = (inflationKeys s).dropWhile p := by
    show sortKeys _ (Tbl.eraseAll s.inflations ((inflationKeys s).takeWhile p)).keys = _
    rw [Tbl.keys_eraseAll, sortKeys_filter]
    show (inflationKeys s).filter _ = _
    conv => lhs; arg 2; rw [hS]
    rw [List.filter_append]
    have e1 : ((inflationKeys s).takeWhile p).filter (fun x => decide (x ∉ (inflationKeys s).takeWhile p)) = [] := by
      rw [List.filter_eq_nil_iff]; intro a ha; simp [ha]
    have e2 : ((inflationKeys s).dropWhile p).filter (fun x => decide (x ∉ (inflationKeys s).takeWhile p)) = (inflationKeys s).dropWhile p := by
      rw [List.filter_eq_self]; intro a ha
      have : a ∉ (inflationKeys s).takeWhile p := fun hm => hdisj a hm a ha rfl
      simp [this]
    rw [e1, e2]; rfl
  rw [inflationOrder_eq, hkeys]
  refine filterMap_congr' _ _ _ ?_
  intro k hk
  show (Tbl.eraseAll s.inflations ((inflationKeys s).takeWhile p)).get k = s.inflations.get k
  rw [Tbl.get_eraseAll]
  have : k ∉ (inflationKeys s).takeWhile p := fun hm => hdisj k hm k hk rfl
  simp [this]

/-! ### the hook -/

/-- Applying one schedule entry: parameters, the current rate, and the entry is deleted. -/
def applyInflation (s : State) (e : Inflation) (tbl : Tbl Time Inflation) : State :=
  { s with mintMax := e.max, mintMin := e.min, mintRate := e.rate, minterInfl := e.min, inflations := tbl }

theorem go_spec (l : List Inflation) (s : State) :
    mintBeginBlock.go s l =
      match (l.takeWhile (fun i => decide (i.ts ≤ s.time))).getLast? with
      | none => s
      | some e => applyInflation s e (Tbl.eraseAll s.inflations ((l.takeWhile (fun i => decide (i.ts ≤ s.time))).map (·.ts))) := by
  induction l generalizing s with
  | nil => rfl
  | cons item rest ih =>
    unfold mintBeginBlock.go
    by_cases h : item.ts > s.time
    · have h' : decide (item.ts ≤ s.time) = false := decide_eq_false (Int.not_le.mpr h)
      simp only [h, if_true, List.takeWhile_cons, h']
      rfl
    · have h' : decide (item.ts ≤ s.time) = true := decide_eq_true (Int.not_lt.mp h)
      simp only [h, if_false, List.takeWhile_cons, h', if_true]
      rw [ih]
      show (match (rest.takeWhile (fun i => decide (i.ts ≤ s.time))).getLast? with | none => _ | some e => _) = _
      cases hr : rest.takeWhile (fun i => decide (i.ts ≤ s.time)) with
      | nil => rfl
      | cons b tw =>
        rw [List.getLast?_cons_cons]
        cases hl : (b :: tw).getLast? with
        | none => simp at hl
        | some e => rfl

end Hub.Model
