import Hub.Lemmas.CountSteps
/-
`RecInv` (Hub/Model/Inv.lean) — provider, node and plan records sit under their own key in the
partition of their status and never in both — is preserved by every handler, every hook piece,
`deliver`, `beginBlock`, `endBlock`, `gov`, hence by every `step`; it holds in every genesis state.

Only `provRegister`, `provUpdate`, `nodeRegister`, `nodeUpdate`, `nodeStatus`, `planCreate`,
`planStatus`, `nodeSweep`, `nodeExpireStep` touch the six partition tables; every other step leaves the
nine node/provider/plan tables (`NView`, shared with `NodeIdxSteps.lean`) untouched.
-/
namespace Hub.Model
open Hub.SDK
open Hub.Generated (Status AmountForBytes GetProportionOfCoin Gigabyte)

/-! ### a partitioned table pair -/

section part
variable {κ α : Type} [DecidableEq κ]

/-- Records of `A` satisfy `PA`, records of `I` satisfy `PI`, every record sits under its own key, and
no key is in both tables. -/
structure Part (key : α → κ) (PA PI : α → Prop) (A I : Tbl κ α) : Prop where
  a : Tbl.All (fun k v => key v = k ∧ PA v) A
  i : Tbl.All (fun k v => key v = k ∧ PI v) I
  x : ∀ k, ¬ (A.has k = true ∧ I.has k = true)

variable {key : α → κ} {PA PI : α → Prop} {A I : Tbl κ α}

theorem Part.nil : Part key PA PI ([] : Tbl κ α) [] :=
  ⟨Tbl.All.nil _, Tbl.All.nil _, fun k h => by simp at h⟩

theorem Part.notI_of_getA (h : Part key PA PI A I) {k : κ} {v : α} (hg : A.get k = some v) : I.has k = false := by
  cases hh : I.has k with
  | false => rfl
  | true => exact absurd ⟨Tbl.has_of_get_A hg, hh⟩ (h.x k)

theorem Part.notA_of_getI (h : Part key PA PI A I) {k : κ} {v : α} (hg : I.get k = some v) : A.has k = false := by
  cases hh : A.has k with
  | false => rfl
  | true => exact absurd ⟨hh, Tbl.has_of_get_A hg⟩ (h.x k)

/-- move / write a record into the inactive partition -/
theorem Part.toI (h : Part key PA PI A I) {k k' : κ} {v : α} (hk : key v = k') (he : k' = k) (hv : PI v) :
    Part key PA PI (A.erase k) (I.set k' v) := by
  subst he
  refine ⟨h.a.erase, h.i.set ⟨hk, hv⟩, ?_⟩
  rintro j ⟨h1, h2⟩
  rw [Tbl.has_erase_iff_A] at h1; rw [Tbl.has_set_iff_A] at h2
  rcases h2 with e | h2
  · exact h1.1 e
  · exact h.x j ⟨h1.2, h2⟩

/-- move / write a record into the active partition -/
theorem Part.toA (h : Part key PA PI A I) {k k' : κ} {v : α} (hk : key v = k') (he : k' = k) (hv : PA v) :
    Part key PA PI (A.set k' v) (I.erase k) := by
  subst he
  refine ⟨h.a.set ⟨hk, hv⟩, h.i.erase, ?_⟩
  rintro j ⟨h1, h2⟩
  rw [Tbl.has_erase_iff_A] at h2; rw [Tbl.has_set_iff_A] at h1
  rcases h1 with e | h1
  · exact h2.1 e
  · exact h.x j ⟨h1, h2.2⟩

theorem Part.setA (h : Part key PA PI A I) {k : κ} {v : α} (hk : key v = k) (hv : PA v) (hn : I.has k = false) :
    Part key PA PI (A.set k v) I := by
  refine ⟨h.a.set ⟨hk, hv⟩, h.i, ?_⟩
  rintro j ⟨h1, h2⟩
  rw [Tbl.has_set_iff_A] at h1
  rcases h1 with e | h1
  · subst e; rw [hn] at h2; contradiction
  · exact h.x j ⟨h1, h2⟩

theorem Part.setI (h : Part key PA PI A I) {k : κ} {v : α} (hk : key v = k) (hv : PI v) (hn : A.has k = false) :
    Part key PA PI A (I.set k v) := by
  refine ⟨h.a, h.i.set ⟨hk, hv⟩, ?_⟩
  rintro j ⟨h1, h2⟩
  rw [Tbl.has_set_iff_A] at h2
  rcases h2 with e | h2
  · subst e; rw [hn] at h1; contradiction
  · exact h.x j ⟨h1, h2⟩

theorem Part.eraseA (h : Part key PA PI A I) (k : κ) : Part key PA PI (A.erase k) I :=
  ⟨h.a.erase, h.i, fun j ⟨h1, h2⟩ => h.x j ⟨((Tbl.has_erase_iff_A _ _ _).mp h1).2, h2⟩⟩

theorem Part.eraseI (h : Part key PA PI A I) (k : κ) : Part key PA PI A (I.erase k) :=
  ⟨h.a, h.i.erase, fun j ⟨h1, h2⟩ => h.x j ⟨h1, ((Tbl.has_erase_iff_A _ _ _).mp h2).2⟩⟩

theorem Tbl.has_erase_self (t : Tbl κ α) (k : κ) : (Tbl.erase t k).has k = false := by
  rw [Tbl.has_erase_A]; simp

end part

/-! ### `RecInv` as three partitions -/

def NodeA (n : Node) : Prop := n.status = .StatusActive
def NodeI (n : Node) : Prop := n.status = .StatusInactive ∧ n.inactiveAt = zeroTime
def ProvA (p : Provider) : Prop := p.status = .StatusActive
def ProvI (p : Provider) : Prop := p.status = .StatusInactive
def PlanA (p : Plan) : Prop := p.status = .StatusActive
def PlanI (p : Plan) : Prop := p.status = .StatusInactive

abbrev NodePart (s : State) : Prop := Part Node.addr NodeA NodeI s.nodeActive s.nodeInactive
abbrev ProvPart (s : State) : Prop := Part Provider.addr ProvA ProvI s.provActive s.provInactive
abbrev PlanPart (s : State) : Prop := Part Plan.id PlanA PlanI s.planActive s.planInactive

theorem recInv_iff (s : State) : RecInv s ↔ NodePart s ∧ ProvPart s ∧ PlanPart s := by
  constructor
  · intro h
    exact ⟨⟨h.nodeA, h.nodeI, h.nodeX⟩, ⟨h.provA, h.provI, h.provX⟩, ⟨h.planA, h.planI, h.planX⟩⟩
  · rintro ⟨hn, hp, hl⟩
    exact ⟨hn.a, hn.i, hn.x, hp.a, hp.i, hp.x, hl.a, hl.i, hl.x⟩

theorem RecInv.nodePart {s : State} (h : RecInv s) : NodePart s := ((recInv_iff s).mp h).1
theorem RecInv.provPart {s : State} (h : RecInv s) : ProvPart s := ((recInv_iff s).mp h).2.1
theorem RecInv.planPart {s : State} (h : RecInv s) : PlanPart s := ((recInv_iff s).mp h).2.2

/-- The node / provider / plan tables (records, queue, indices): what `RecInv` and `NodeIdx` read. -/
structure NView where
  nodeActive : Tbl Addr Node
  nodeInactive : Tbl Addr Node
  provActive : Tbl Addr Provider
  provInactive : Tbl Addr Provider
  planActive : Tbl Nat Plan
  planInactive : Tbl Nat Plan
  nodeQ : Tbl (Time × Addr) Unit
  planForProv : Tbl (Addr × Nat) Unit
  nodeForPlan : Tbl (Nat × Addr) Unit

def nview (s : State) : NView :=
  ⟨s.nodeActive, s.nodeInactive, s.provActive, s.provInactive, s.planActive, s.planInactive, s.nodeQ, s.planForProv, s.nodeForPlan⟩

theorem RecInv.of_tables {s s' : State} (hi : RecInv s) (h1 : s'.nodeActive = s.nodeActive) (h2 : s'.nodeInactive = s.nodeInactive)
    (h3 : s'.provActive = s.provActive) (h4 : s'.provInactive = s.provInactive) (h5 : s'.planActive = s.planActive)
    (h6 : s'.planInactive = s.planInactive) : RecInv s' := by
  rw [recInv_iff] at hi ⊢
  unfold NodePart ProvPart PlanPart
  rw [h1, h2, h3, h4, h5, h6]; exact hi

theorem RecInv.of_nview {s s' : State} (h : nview s' = nview s) (hi : RecInv s) : RecInv s' :=
  hi.of_tables (congrArg NView.nodeActive h) (congrArg NView.nodeInactive h) (congrArg NView.provActive h)
    (congrArg NView.provInactive h) (congrArg NView.planActive h) (congrArg NView.planInactive h)

theorem RecInv.of_node {s s' : State} (hi : RecInv s) (h3 : s'.provActive = s.provActive) (h4 : s'.provInactive = s.provInactive)
    (h5 : s'.planActive = s.planActive) (h6 : s'.planInactive = s.planInactive) (hn : NodePart s') : RecInv s' := by
  rw [recInv_iff] at hi ⊢
  refine ⟨hn, ?_, ?_⟩
  · unfold ProvPart; rw [h3, h4]; exact hi.2.1
  · unfold PlanPart; rw [h5, h6]; exact hi.2.2

theorem RecInv.of_prov {s s' : State} (hi : RecInv s) (h1 : s'.nodeActive = s.nodeActive) (h2 : s'.nodeInactive = s.nodeInactive)
    (h5 : s'.planActive = s.planActive) (h6 : s'.planInactive = s.planInactive) (hp : ProvPart s') : RecInv s' := by
  rw [recInv_iff] at hi ⊢
  refine ⟨?_, hp, ?_⟩
  · unfold NodePart; rw [h1, h2]; exact hi.1
  · unfold PlanPart; rw [h5, h6]; exact hi.2.2

theorem RecInv.of_plan {s s' : State} (hi : RecInv s) (h1 : s'.nodeActive = s.nodeActive) (h2 : s'.nodeInactive = s.nodeInactive)
    (h3 : s'.provActive = s.provActive) (h4 : s'.provInactive = s.provInactive) (hl : PlanPart s') : RecInv s' := by
  rw [recInv_iff] at hi ⊢
  refine ⟨?_, ?_, hl⟩
  · unfold NodePart; rw [h1, h2]; exact hi.1
  · unfold ProvPart; rw [h3, h4]; exact hi.2.1

theorem nview_of_mframe {s s' : State} (h : MFrame s s') : nview s' = nview s := by
  unfold MFrame at h; rw [h]; rfl

@[simp] theorem nview_emit (s : State) (e : Event) : nview (emit s e) = nview s := rfl
@[simp] theorem nview_setAllocation (s : State) (a : Alloc) : nview (setAllocation s a) = nview s := rfl
@[simp] theorem nview_insertPayout (s : State) (p : Payout) : nview (insertPayout s p) = nview s := rfl
@[simp] theorem nview_insertSession (s : State) (x : Session) : nview (insertSession s x) = nview s := rfl
@[simp] theorem nview_sessionToPending (s : State) (x : Session) : nview (sessionToPending s x) = nview s := rfl
@[simp] theorem nview_subToPending (s : State) (sub : Sub) (d : Dur) : nview (subToPending s sub d).1 = nview s := rfl
@[simp] theorem nview_detachPayoutRec (s : State) (p : Payout) : nview (detachPayoutRec s p) = nview s := rfl
@[simp] theorem nview_removeSession (s : State) (x : Session) : nview (removeSession s x) = nview s := rfl

@[simp] theorem nview_insertSub (s : State) (sub : Sub) : nview (insertSub s sub) = nview s := by
  unfold insertSub; cases sub.kind <;> rfl

/-! ### steps that leave the node/provider/plan tables alone -/

theorem nodeSubscribe_nview {s s' : State} {frm node : Addr} {gb hr : Int} {denom : Denom}
    (h : nodeSubscribe s frm node gb hr denom = .ok s') : nview s' = nview s := by
  unfold nodeSubscribe createSubscriptionForNode at h
  simp only [bind_eq_ok, pure_eq_ok, require_eq_ok, orReject_eq_ok] at h
  obtain ⟨_, _, _, _, r, ⟨n, _, _, _, hr'⟩, rfl⟩ := h
  rw [nview_emit]
  split at hr'
  · unfold createNodeSubGB at hr'
    simp only [bind_eq_ok, pure_eq_ok, orReject_eq_ok] at hr'
    obtain ⟨price, _, bytes, _, amt, _, dep, _, s1, h1, granted, _, rfl⟩ := hr'
    simp only [nview_emit, nview_setAllocation, nview_insertSub]
    exact nview_of_mframe (addDeposit_mframe h1)
  · unfold createNodeSubHr at hr'
    simp only [bind_eq_ok, pure_eq_ok, orReject_eq_ok] at hr'
    obtain ⟨price, _, amt, _, dep, _, s1, h1, pa, _, hourly, _, rfl⟩ := hr'
    simp only [nview_insertPayout, nview_insertSub]
    exact nview_of_mframe (addDeposit_mframe h1)

theorem planSubscribe_nview {s s' : State} {frm : Addr} {id : Nat} {denom : Denom}
    (h : planSubscribe s frm id denom = .ok s') : nview s' = nview s := by
  unfold planSubscribe createSubscriptionForPlan at h
  simp only [bind_eq_ok, pure_eq_ok, require_eq_ok, requireP_eq_ok, orReject_eq_ok] at h
  obtain ⟨r, ⟨plan, hplan, _, _, price, _, reward, _, s1, h1, payAmt, _, _, _, s2, h2, granted, _, rfl⟩, rfl⟩ := h
  simp only [nview_emit, nview_setAllocation, nview_insertSub]
  exact nview_of_mframe ((sendCoinFromAccountToModule_mframe h1).trans (sendCoin_mframe h2))

theorem subscriptionInactivePendingHook_nview {s s' : State} {id : Nat}
    (h : subscriptionInactivePendingHook s id = .ok s') : nview s' = nview s := by
  unfold subscriptionInactivePendingHook at h
  refine foldlM_inv (fun t => nview t = nview s) _ ?_ _ s s' h rfl
  intro s0 sid s1 h1 hp
  simp only [bind_eq_ok, pure_eq_ok, orPanic_eq_ok] at h1
  obtain ⟨x, _, rfl⟩ := h1
  split
  · rw [nview_sessionToPending]; exact hp
  · exact hp

theorem detachPayout_nview {s s' : State} {sub : Sub} {b : Bool} (h : detachPayout s sub b = .ok s') : nview s' = nview s := by
  unfold detachPayout at h
  split at h
  · simp only [bind_eq_ok, pure_eq_ok] at h
    obtain ⟨p, _, rfl⟩ := h
    rfl
  · rw [pure_eq_ok] at h; rw [h]

theorem subCancel_nview {s s' : State} {frm : Addr} {id : Nat} (h : subCancel s frm id = .ok s') : nview s' = nview s := by
  unfold subCancel at h
  simp only [bind_eq_ok, require_eq_ok, orReject_eq_ok] at h
  obtain ⟨sub, _, _, _, _, _, s1, h1, h2⟩ := h
  rw [detachPayout_nview h2, nview_subToPending, subscriptionInactivePendingHook_nview h1]
  rfl

theorem subAllocate_nview {s s' : State} {frm toA : Addr} {id : Nat} {bytes : Int}
    (h : subAllocate s frm id toA bytes = .ok s') : nview s' = nview s := by
  unfold subAllocate at h
  simp only [bind_eq_ok, pure_eq_ok, require_eq_ok, orReject_eq_ok] at h
  obtain ⟨sub, _, _, _, _, _, fa, _, _, _, g, _, u, _, av, _, _, _, fg, _, _, _, _, _, rfl⟩ := h
  simp only [nview_emit, nview_setAllocation]
  split <;> rfl

theorem sessStart_nview {s s' : State} {frm : TextAddr} {id : Nat} {node : Addr}
    (h : sessStart s frm id node = .ok s') : nview s' = nview s := by
  unfold sessStart at h
  simp only [bind_eq_ok, pure_eq_ok, require_eq_ok, orReject_eq_ok] at h
  obtain ⟨sub, _, _, _, n, _, _, _, _, _, _, _, latest, _, _, _, rfl⟩ := h
  rfl

theorem sessUpdate_nview {s s' : State} {frm : Addr} {id : Nat} {up down dur : Int} {sig : SigSpec}
    (h : sessUpdate s frm id up down dur sig = .ok s') : nview s' = nview s := by
  unfold sessUpdate at h
  simp only [bind_eq_ok, pure_eq_ok, require_eq_ok, orReject_eq_ok] at h
  obtain ⟨x, _, _, _, _, _, _, _, rfl⟩ := h
  rw [nview_emit]
  split <;> rfl

theorem sessEnd_nview {s s' : State} {frm : Addr} {id : Nat} (h : sessEnd s frm id = .ok s') : nview s' = nview s := by
  unfold sessEnd at h
  simp only [bind_eq_ok, pure_eq_ok, require_eq_ok, orReject_eq_ok] at h
  obtain ⟨x, _, _, _, _, _, rfl⟩ := h
  rfl

theorem swap_nview {s s' : State} {frm recv : Addr} {hash : Bytes} {amt : Int}
    (h : swap s frm hash recv amt = .ok s') : nview s' = nview s := by
  unfold swap at h
  simp only [bind_eq_ok, pure_eq_ok, require_eq_ok] at h
  obtain ⟨_, _, _, _, _, _, q, _, coin, _, s1, h1, s2, h2, rfl⟩ := h
  have e2 : nview s2 = nview s := nview_of_mframe ((mintCoins_mframe h1).trans (sendModuleToAccount_mframe h2))
  rw [← e2]; rfl

theorem nview_mintBeginBlock_go (l : List Inflation) (s : State) : nview (mintBeginBlock.go s l) = nview s := by
  induction l generalizing s with
  | nil => rfl
  | cons item rest ih =>
    unfold mintBeginBlock.go
    split
    · rfl
    · rw [ih]; rfl

theorem payoutStep_nview {s s' : State} {k : Time × Nat} (h : payoutStep s k = .ok s') : nview s' = nview s := by
  unfold payoutStep at h
  simp only [bind_eq_ok, pure_eq_ok, requireP_eq_ok, orPanic_eq_ok] at h
  obtain ⟨item, hitem, reward, _, s2, h2, payAmt, _, _, _, s3, h3, rfl⟩ := h
  have f3 := (sendCoinFromDepositToModule_mframe h2).trans (sendCoinFromDepositToAccount_mframe h3)
  have e3 : nview s3 = nview s := (nview_of_mframe f3).trans rfl
  rw [← e3]
  split <;> rfl

theorem sessionInactiveHook_nview {s s' : State} {id : Nat} {acc node : Addr} {bytes : Int}
    (h : sessionInactiveHook s id acc node bytes = .ok s') : nview s' = nview s := by
  unfold sessionInactiveHook at h
  simp only [bind_eq_ok, require_eq_ok, orReject_eq_ok] at h
  obtain ⟨x, _, _, _, sub, _, h⟩ := h
  split at h
  · rw [pure_eq_ok] at h; rw [h]
  · simp only [bind_eq_ok, orReject_eq_ok] at h
    obtain ⟨a, ha, used, _, h⟩ := h
    split at h
    · rw [nview_of_mframe (settleSession_mframe h)]; rfl
    · rw [pure_eq_ok] at h; rw [← h]; rfl

theorem sessionStep_nview {s s' : State} {k : Time × Nat} (h : sessionStep s k = .ok s') : nview s' = nview s := by
  unfold sessionStep at h
  simp only [bind_eq_ok, orPanic_eq_ok] at h
  obtain ⟨item, hitem, h⟩ := h
  split at h
  · rw [pure_eq_ok] at h; rw [← h]; rfl
  · simp only [bind_eq_ok, pure_eq_ok, panicIfErr_eq_ok] at h
    obtain ⟨bytes, _, s2, h2, rfl⟩ := h
    rw [nview_removeSession, sessionInactiveHook_nview h2]; rfl

theorem nview_removeAllocs (l : List Addr) (s : State) (id : Nat) : nview (removeAllocs s id l) = nview s := by
  unfold removeAllocs
  induction l generalizing s with
  | nil => rfl
  | cons a rest ih => rw [List.foldl_cons, ih]; rfl

theorem nview_removeSubRecords (s : State) (item : Sub) : nview (removeSubRecords s item) = nview s := by
  unfold removeSubRecords
  cases item.kind with
  | node n g h d => rfl
  | plan pid dn =>
    simp only [nview_emit]
    exact (rfl : nview { (removeAllocs _ _ _) with subs := _ } = nview (removeAllocs _ _ _)).trans (nview_removeAllocs _ _ _)

theorem removePayout_nview {s s' : State} {item : Sub} (h : removePayout s item = .ok s') : nview s' = nview s := by
  unfold removePayout at h
  split at h
  · simp only [bind_eq_ok, pure_eq_ok, orPanic_eq_ok] at h
    obtain ⟨p, _, rfl⟩ := h
    rfl
  · rw [pure_eq_ok] at h; rw [h]

theorem subscriptionStep_nview {s s' : State} {d : Dur} {k : Time × Nat} (h : subscriptionStep d s k = .ok s') :
    nview s' = nview s := by
  unfold subscriptionStep at h
  simp only [bind_eq_ok, orPanic_eq_ok] at h
  obtain ⟨item, hitem, h⟩ := h
  split at h
  · simp only [bind_eq_ok, panicIfErr_eq_ok] at h
    obtain ⟨s2, h2, h3⟩ := h
    rw [detachPayout_nview h3, nview_subToPending, subscriptionInactivePendingHook_nview h2]; rfl
  · simp only [bind_eq_ok] at h
    obtain ⟨s2, h2, h3⟩ := h
    rw [removePayout_nview h3, nview_removeSubRecords, nview_of_mframe (refundSub_mframe h2)]; rfl

theorem gov_nview {s s' : State} {c : ParamChange} (hg : gov s c = some s') : nview s' = nview s := by
  unfold gov at hg
  cases c <;> simp only [] at hg <;> (try split at hg) <;>
    first
      | (simp only [Option.some.injEq] at hg; rw [← hg]; rfl)
      | (simp only [reduceCtorEq] at hg)

/-! ### lookups -/

theorem getNode_mem {s : State} {a : Addr} {n : Node} (h : getNode s a = some n) :
    s.nodeActive.get a = some n ∨ s.nodeInactive.get a = some n := by
  unfold getNode at h
  cases ha : s.nodeActive.get a with
  | some x => simp only [ha] at h; left; exact h
  | none => simp only [ha] at h; right; exact h

theorem getProvider_mem {s : State} {a : Addr} {p : Provider} (h : getProvider s a = some p) :
    s.provActive.get a = some p ∨ s.provInactive.get a = some p := by
  unfold getProvider at h
  cases ha : s.provActive.get a with
  | some x => simp only [ha] at h; left; exact h
  | none => simp only [ha] at h; right; exact h

theorem hasProvider_false {s : State} {a : Addr} (h : hasProvider s a = false) :
    s.provActive.has a = false ∧ s.provInactive.has a = false := by
  unfold hasProvider at h; simpa using h

theorem hasNode_false {s : State} {a : Addr} (h : hasNode s a = false) :
    s.nodeActive.has a = false ∧ s.nodeInactive.has a = false := by
  unfold hasNode at h; simpa using h

/-! ### providers -/

theorem provRegister_rec {s s' : State} {frm : Addr} {n i w d : Bytes} (h : provRegister s frm n i w d = .ok s')
    (hi : RecInv s) : RecInv s' := by
  obtain ⟨hno, s1, f1, rfl⟩ := provRegister_eff h
  have e1 := nview_of_mframe f1.wide
  have i1 : RecInv s1 := RecInv.of_nview e1 hi
  have hA : s1.provActive.has frm = false := by
    rw [show s1.provActive = s.provActive from congrArg NView.provActive e1]; exact (hasProvider_false hno).1
  exact i1.of_prov rfl rfl rfl rfl (i1.provPart.setI rfl rfl hA)

theorem provUpdated_addr_A (p : Provider) (n i w d : Bytes) (st : Status) (now : Time) :
    (provUpdated p n i w d st now).addr = p.addr := by
  unfold provUpdated; simp only []; split <;> split <;> rfl

theorem provUpdated_status (p : Provider) (n i w d : Bytes) (st : Status) (now : Time) :
    (provUpdated p n i w d st now).status = if st ≠ .StatusUnspecified then st else p.status := by
  unfold provUpdated; simp only []; split <;> split <;> rfl

theorem provUpdate_rec {s s' : State} {frm : Addr} {n i w d : Bytes} {st : Status} (h : provUpdate s frm n i w d st = .ok s')
    (hi : RecInv s) : RecInv s' := by
  unfold provUpdate at h
  simp only [bind_eq_ok, pure_eq_ok, orReject_eq_ok] at h
  obtain ⟨p, hp, s3, h3, rfl⟩ := h
  have hP := hi.provPart
  have hst' := provUpdated_status p n i w d st s.time
  have hk := provUpdated_addr_A p n i w d st s.time
  rcases getProvider_mem hp with hg | hg
  · have hpa := hP.a frm p hg
    have hps : p.status = .StatusActive := hpa.2
    have hno := hP.notI_of_getA hg
    cases st <;>
      simp only [hps, ne_eq, reduceCtorEq, not_true_eq_false, not_false_eq_true, and_self, and_true,
        and_false, if_true, if_false] at h3 hst'
    all_goals
      rcases setProvider_eff h3 with ⟨hs3, e⟩ | ⟨hs3, e⟩ <;> subst e <;> rw [hst'] at hs3 <;>
      first
        | exact absurd hs3 (by decide)
        | exact hi.of_prov rfl rfl rfl rfl (hP.setA rfl hst' (by rw [hk, hpa.1]; exact hno))
        | exact hi.of_prov rfl rfl rfl rfl (hP.toI rfl (hk.trans hpa.1) hst')
  · have hpi := hP.i frm p hg
    have hps : p.status = .StatusInactive := hpi.2
    have hno := hP.notA_of_getI hg
    cases st <;>
      simp only [hps, ne_eq, reduceCtorEq, not_true_eq_false, not_false_eq_true, and_self, and_true,
        and_false, if_true, if_false] at h3 hst'
    all_goals
      rcases setProvider_eff h3 with ⟨hs3, e⟩ | ⟨hs3, e⟩ <;> subst e <;> rw [hst'] at hs3 <;>
      first
        | exact absurd hs3 (by decide)
        | exact hi.of_prov rfl rfl rfl rfl (hP.setI rfl hst' (by rw [hk, hpi.1]; exact hno))
        | exact hi.of_prov rfl rfl rfl rfl (hP.toA rfl (hk.trans hpi.1) hst')

/-! ### nodes -/

theorem nodeRegister_rec {s s' : State} {frm : Addr} {gb hr : Coins} {url : Bytes} (h : nodeRegister s frm gb hr url = .ok s')
    (hi : RecInv s) : RecInv s' := by
  obtain ⟨hno, _, _, s1, f1, rfl⟩ := nodeRegister_eff h
  have e1 := nview_of_mframe f1.wide
  have i1 : RecInv s1 := RecInv.of_nview e1 hi
  have hA : s1.nodeActive.has frm = false := by
    rw [show s1.nodeActive = s.nodeActive from congrArg NView.nodeActive e1]; exact (hasNode_false hno).1
  exact i1.of_node rfl rfl rfl rfl (i1.nodePart.setI rfl ⟨rfl, rfl⟩ hA)

/-- Writing back a looked-up node whose address, status and deadline are unchanged. -/
theorem setNode_same_rec {s s' : State} {a : Addr} {n n' : Node} (hi : RecInv s) (hg : getNode s a = some n)
    (h : setNode s n' = .ok s') (haddr : n'.addr = n.addr) (hst : n'.status = n.status) (hia : n'.inactiveAt = n.inactiveAt) :
    RecInv s' := by
  have hN := hi.nodePart
  rcases getNode_mem hg with hm | hm
  · have hna := hN.a a n hm
    have hno := hN.notI_of_getA hm
    rcases setNode_eff h with ⟨hs, e⟩ | ⟨hs, e⟩ <;> subst e
    · exact hi.of_node rfl rfl rfl rfl (hN.setA rfl hs (by rw [haddr, hna.1]; exact hno))
    · rw [hst, hna.2] at hs; exact absurd hs (by decide)
  · have hni := hN.i a n hm
    have hno := hN.notA_of_getI hm
    rcases setNode_eff h with ⟨hs, e⟩ | ⟨hs, e⟩ <;> subst e
    · rw [hst, hni.2.1] at hs; exact absurd hs (by decide)
    · exact hi.of_node rfl rfl rfl rfl (hN.setI rfl ⟨hs, by rw [hia]; exact hni.2.2⟩ (by rw [haddr, hni.1]; exact hno))

theorem nodeUpdated_same (n : Node) (gb hr : Option Coins) (url : Bytes) :
    (nodeUpdated n gb hr url).addr = n.addr ∧ (nodeUpdated n gb hr url).status = n.status ∧
    (nodeUpdated n gb hr url).inactiveAt = n.inactiveAt := by
  unfold nodeUpdated; cases gb <;> cases hr <;> simp only [] <;> split <;> exact ⟨rfl, rfl, rfl⟩

theorem nodeUpdate_rec {s s' : State} {frm : Addr} {gb hr : Option Coins} {url : Bytes} (h : nodeUpdate s frm gb hr url = .ok s')
    (hi : RecInv s) : RecInv s' := by
  unfold nodeUpdate at h
  simp only [bind_eq_ok, pure_eq_ok, require_eq_ok, orReject_eq_ok] at h
  obtain ⟨_, _, _, _, n, hn, s1, h1, rfl⟩ := h
  obtain ⟨e1, e2, e3⟩ := nodeUpdated_same n gb hr url
  exact RecInv.of_nview (s := s1) rfl (setNode_same_rec hi hn h1 e1 e2 e3)

theorem nodeStatus_rec {s s' : State} {frm : Addr} {st : Status} (h : nodeStatus s frm st = .ok s')
    (hi : RecInv s) : RecInv s' := by
  unfold nodeStatus at h
  simp only [bind_eq_ok, pure_eq_ok, orReject_eq_ok] at h
  obtain ⟨n, hn, s5, h5, rfl⟩ := h
  have hN := hi.nodePart
  rcases getNode_mem hn with hm | hm
  · have hna := hN.a frm n hm
    have hps : n.status = .StatusActive := hna.2
    have hno : s.nodeInactive.has n.addr = false := by rw [hna.1]; exact hN.notI_of_getA hm
    cases st <;>
      simp only [hps, reduceCtorEq, and_self, and_true, and_false, if_true, if_false] at h5
    all_goals
      rcases setNode_eff h5 with ⟨hs5, e⟩ | ⟨hs5, e⟩ <;> subst e <;>
      first
        | (simp only [reduceCtorEq] at hs5; done)
        | (refine hi.of_node rfl rfl rfl rfl ?_; apply Part.setA hN <;> first | rfl | exact hno)
        | (refine hi.of_node rfl rfl rfl rfl ?_; apply Part.toI hN <;> first | rfl | exact hna.1 | exact ⟨rfl, rfl⟩)
  · have hni := hN.i frm n hm
    have hps : n.status = .StatusInactive := hni.2.1
    have hno : s.nodeActive.has n.addr = false := by rw [hni.1]; exact hN.notA_of_getI hm
    cases st <;>
      simp only [hps, reduceCtorEq, and_self, and_true, and_false, if_true, if_false] at h5
    all_goals
      rcases setNode_eff h5 with ⟨hs5, e⟩ | ⟨hs5, e⟩ <;> subst e <;>
      first
        | (simp only [reduceCtorEq] at hs5; done)
        | (refine hi.of_node rfl rfl rfl rfl ?_; apply Part.setI hN <;> first | rfl | exact hno | exact ⟨rfl, rfl⟩)
        | (refine hi.of_node rfl rfl rfl rfl ?_; apply Part.toA hN <;> first | rfl | exact hni.1)

theorem nodeSweep_rec {s s' : State} (h : nodeSweep s = .ok s') (hi : RecInv s) : RecInv s' := by
  unfold nodeSweep at h
  split at h
  · rw [pure_eq_ok] at h; rw [← h]; exact hi
  · refine foldlM_inv RecInv _ ?_ _ s s' h hi
    intro s0 a s1 h1 hp
    simp only [bind_eq_ok, pure_eq_ok, orPanic_eq_ok] at h1
    obtain ⟨item, hitem, s2, h2, rfl⟩ := h1
    exact RecInv.of_nview (s := s2) rfl (setNode_same_rec hp hitem h2 rfl rfl rfl)

theorem nodeExpireStep_rec {s s' : State} {k : Time × Addr} (h : nodeExpireStep s k = .ok s') (hi : RecInv s) :
    RecInv s' := by
  unfold nodeExpireStep at h
  simp only [bind_eq_ok, pure_eq_ok, orPanic_eq_ok] at h
  obtain ⟨item, hitem, s3, h3, rfl⟩ := h
  have hN := hi.nodePart
  have hk : item.addr = k.2 := by
    rcases getNode_mem hitem with hm | hm
    · exact (hN.a _ _ hm).1
    · exact (hN.i _ _ hm).1
  rcases setNode_eff h3 with ⟨hs3, e⟩ | ⟨hs3, e⟩ <;> subst e
  · simp only [reduceCtorEq] at hs3
  · refine hi.of_node rfl rfl rfl rfl ?_
    apply Part.toI hN <;> first | rfl | exact ⟨rfl, rfl⟩

/-! ### plans -/

theorem planCreate_rec {s s' : State} {frm : Addr} {dur : Dur} {gb : Int} {prices : Coins}
    (h : planCreate s frm dur gb prices = .ok s') (hi : RecInv s) (hc : CountInv s) : RecInv s' := by
  obtain ⟨_, rfl⟩ := planCreate_eff h
  have hA : s.planActive.has (s.planCount.getD 0 + 1) = false := by
    cases hh : s.planActive.has (s.planCount.getD 0 + 1) with
    | false => rfl
    | true =>
      obtain ⟨p, hp⟩ := (Tbl.has_iff _ _).mp hh
      have := hc.plans _ p (Or.inl hp)
      omega
  exact hi.of_plan rfl rfl rfl rfl (hi.planPart.setI rfl rfl hA)

theorem planStatus_rec {s s' : State} {frm : Addr} {id : Nat} {st : Status}
    (h : planStatus s frm id st = .ok s') (hi : RecInv s) : RecInv s' := by
  unfold planStatus at h
  simp only [bind_eq_ok, pure_eq_ok, require_eq_ok, orReject_eq_ok] at h
  obtain ⟨p, hp, _, _, s3, h3, rfl⟩ := h
  have hL := hi.planPart
  rcases getPlan_mem hp with hm | hm
  · have hpa := hL.a id p hm
    have hps : p.status = .StatusActive := hpa.2
    have hno : s.planInactive.has p.id = false := by rw [hpa.1]; exact hL.notI_of_getA hm
    cases st <;>
      simp only [hps, reduceCtorEq, and_self, and_true, and_false, if_true, if_false] at h3
    all_goals
      rcases setPlan_eff h3 with ⟨hs3, e⟩ | ⟨hs3, e⟩ <;> subst e <;>
      first
        | (simp only [reduceCtorEq] at hs3; done)
        | (refine hi.of_plan rfl rfl rfl rfl ?_; apply Part.setA hL <;> first | rfl | exact hno)
        | (refine hi.of_plan rfl rfl rfl rfl ?_; apply Part.toI hL <;> first | rfl | exact hpa.1)
  · have hpi := hL.i id p hm
    have hps : p.status = .StatusInactive := hpi.2
    have hno : s.planActive.has p.id = false := by rw [hpi.1]; exact hL.notA_of_getI hm
    cases st <;>
      simp only [hps, reduceCtorEq, and_self, and_true, and_false, if_true, if_false] at h3
    all_goals
      rcases setPlan_eff h3 with ⟨hs3, e⟩ | ⟨hs3, e⟩ <;> subst e <;>
      first
        | (simp only [reduceCtorEq] at hs3; done)
        | (refine hi.of_plan rfl rfl rfl rfl ?_; apply Part.setI hL <;> first | rfl | exact hno)
        | (refine hi.of_plan rfl rfl rfl rfl ?_; apply Part.toA hL <;> first | rfl | exact hpi.1)

theorem planLink_rec {s s' : State} {frm : Addr} {id : Nat} {node : Addr}
    (h : planLink s frm id node = .ok s') (hi : RecInv s) : RecInv s' := by
  unfold planLink at h
  simp only [bind_eq_ok, pure_eq_ok, require_eq_ok, orReject_eq_ok] at h
  obtain ⟨p, _, _, _, _, _, rfl⟩ := h
  exact hi.of_tables rfl rfl rfl rfl rfl rfl

theorem planUnlink_rec {s s' : State} {frm : Addr} {id : Nat} {node : Addr}
    (h : planUnlink s frm id node = .ok s') (hi : RecInv s) : RecInv s' := by
  unfold planUnlink at h
  simp only [bind_eq_ok, pure_eq_ok, require_eq_ok, orReject_eq_ok] at h
  obtain ⟨p, _, _, _, rfl⟩ := h
  exact hi.of_tables rfl rfl rfl rfl rfl rfl

/-! ### the remaining steps: nothing `RecInv` reads is touched -/

theorem nodeSubscribe_rec {s s' : State} {frm node : Addr} {gb hr : Int} {denom : Denom}
    (h : nodeSubscribe s frm node gb hr denom = .ok s') (hi : RecInv s) : RecInv s' := RecInv.of_nview (nodeSubscribe_nview h) hi
theorem planSubscribe_rec {s s' : State} {frm : Addr} {id : Nat} {denom : Denom}
    (h : planSubscribe s frm id denom = .ok s') (hi : RecInv s) : RecInv s' := RecInv.of_nview (planSubscribe_nview h) hi
theorem subCancel_rec {s s' : State} {frm : Addr} {id : Nat} (h : subCancel s frm id = .ok s') (hi : RecInv s) : RecInv s' :=
  RecInv.of_nview (subCancel_nview h) hi
theorem subAllocate_rec {s s' : State} {frm toA : Addr} {id : Nat} {bytes : Int}
    (h : subAllocate s frm id toA bytes = .ok s') (hi : RecInv s) : RecInv s' := RecInv.of_nview (subAllocate_nview h) hi
theorem sessStart_rec {s s' : State} {frm : TextAddr} {id : Nat} {node : Addr}
    (h : sessStart s frm id node = .ok s') (hi : RecInv s) : RecInv s' := RecInv.of_nview (sessStart_nview h) hi
theorem sessUpdate_rec {s s' : State} {frm : Addr} {id : Nat} {up down dur : Int} {sig : SigSpec}
    (h : sessUpdate s frm id up down dur sig = .ok s') (hi : RecInv s) : RecInv s' := RecInv.of_nview (sessUpdate_nview h) hi
theorem sessEnd_rec {s s' : State} {frm : Addr} {id : Nat} (h : sessEnd s frm id = .ok s') (hi : RecInv s) : RecInv s' :=
  RecInv.of_nview (sessEnd_nview h) hi
theorem swap_rec {s s' : State} {frm recv : Addr} {hash : Bytes} {amt : Int}
    (h : swap s frm hash recv amt = .ok s') (hi : RecInv s) : RecInv s' := RecInv.of_nview (swap_nview h) hi
theorem mintBeginBlock_rec (s : State) (hi : RecInv s) : RecInv (mintBeginBlock s) :=
  RecInv.of_nview (nview_mintBeginBlock_go _ s) hi
theorem distrSweep_rec (s : State) (hi : RecInv s) : RecInv (distrSweep s) :=
  RecInv.of_nview (nview_of_mframe (distrSweep_mframe s)) hi
theorem payoutStep_rec {s s' : State} {k : Time × Nat} (h : payoutStep s k = .ok s') (hi : RecInv s) : RecInv s' :=
  RecInv.of_nview (payoutStep_nview h) hi
theorem sessionStep_rec {s s' : State} {k : Time × Nat} (h : sessionStep s k = .ok s') (hi : RecInv s) : RecInv s' :=
  RecInv.of_nview (sessionStep_nview h) hi
theorem subscriptionStep_rec {s s' : State} {d : Dur} {k : Time × Nat} (h : subscriptionStep d s k = .ok s')
    (hi : RecInv s) : RecInv s' := RecInv.of_nview (subscriptionStep_nview h) hi

/-! ### whole operations -/

theorem handle_rec {s s' : State} {m : Msg} (h : m.handle s = .ok s') (hi : RecInv s) (hc : CountInv s) : RecInv s' := by
  cases m <;> simp only [Msg.handle] at h
  case provRegister => exact provRegister_rec h hi
  case provUpdate => exact provUpdate_rec h hi
  case nodeRegister => exact nodeRegister_rec h hi
  case nodeUpdate => exact nodeUpdate_rec h hi
  case nodeStatus => exact nodeStatus_rec h hi
  case nodeSubscribe => exact nodeSubscribe_rec h hi
  case planCreate => exact planCreate_rec h hi hc
  case planStatus => exact planStatus_rec h hi
  case planLink => exact planLink_rec h hi
  case planUnlink => exact planUnlink_rec h hi
  case planSubscribe => exact planSubscribe_rec h hi
  case subCancel => exact subCancel_rec h hi
  case subAllocate => exact subAllocate_rec h hi
  case sessStart => exact sessStart_rec h hi
  case sessUpdate => exact sessUpdate_rec h hi
  case sessEnd => exact sessEnd_rec h hi
  case swap => exact swap_rec h hi

theorem deliver_rec (s : State) (m : Msg) (hi : RecInv s) (hc : CountInv s) : RecInv (deliver s m).1 := by
  have h0 : RecInv { s with events := [] } := RecInv.of_nview (s := s) rfl hi
  have c0 : CountInv { s with events := [] } := CountInv.of_view (s := s) rfl hc
  unfold deliver
  simp only []
  cases hr : (do m.validateBasic; m.handle { s with events := [] } : M State) with
  | ok s' =>
    simp only [bind_eq_ok] at hr
    obtain ⟨_, _, hh⟩ := hr
    exact handle_rec hh h0 c0
  | error e => cases e <;> exact h0

theorem beginBlock_rec {s s' : State} {t : Time} (h : beginBlock s t = .ok s') (hi : RecInv s) : RecInv s' := by
  unfold beginBlock haltOf at h
  split at h <;> try contradiction
  rename_i s'' hs
  simp only [Except.ok.injEq] at h
  subst h
  unfold subscriptionBeginBlock at hs
  refine foldlM_inv RecInv _ ?_ _ _ _ hs ?_
  · intro s0 k s1 h1 hp
    rw [panicIfErr_eq_ok] at h1
    exact payoutStep_rec h1 hp
  · exact distrSweep_rec _ (mintBeginBlock_rec _ (RecInv.of_nview (s := s) rfl hi))

theorem endBlock_rec {s s' : State} (h : endBlock s = .ok s') (hi : RecInv s) : RecInv s' := by
  unfold endBlock haltOf at h
  split at h <;> try contradiction
  rename_i s2 hs
  split at hs <;> try contradiction
  rename_i s3 hs3
  simp only [Except.ok.injEq] at hs h
  subst hs; subst h
  unfold vpnEndBlock nodeEndBlock nodeExpire sessionEndBlock subscriptionEndBlock at hs3
  simp only [bind_eq_ok] at hs3
  obtain ⟨s1, ⟨sa, ha, hb⟩, sb, hc, hd⟩ := hs3
  have i0 : RecInv sa := nodeSweep_rec ha (RecInv.of_nview (s := s) rfl hi)
  have i1 : RecInv s1 := foldlM_inv RecInv _ (fun s0 k s1 h1 hp => nodeExpireStep_rec h1 hp) _ _ _ hb i0
  have i2 : RecInv sb := foldlM_inv RecInv _ (fun s0 k s1 h1 hp => sessionStep_rec h1 hp) _ _ _ hc i1
  have i3 : RecInv s3 := foldlM_inv RecInv _ (fun s0 k s1 h1 hp => subscriptionStep_rec h1 hp) _ _ _ hd i2
  exact RecInv.of_nview (s := s3) rfl i3

theorem gov_rec (s : State) (c : ParamChange) (hi : RecInv s) : RecInv ((gov s c).getD s) := by
  cases hg : gov s c with
  | none => exact hi
  | some s' => exact RecInv.of_nview (gov_nview hg) hi

theorem step_rec {s s' : State} {op : Op} (h : step s op = some s') (hi : RecInv s) (hc : CountInv s) : RecInv s' := by
  cases op with
  | tx m =>
    simp only [step, Option.some.injEq] at h
    rw [← h]; exact deliver_rec s m hi hc
  | begin t =>
    simp only [step] at h
    split at h
    · rename_i s1 hb
      simp only [Option.some.injEq] at h; rw [← h]; exact beginBlock_rec hb hi
    · contradiction
  | endB =>
    simp only [step] at h
    split at h
    · rename_i s1 hb
      simp only [Option.some.injEq] at h; rw [← h]; exact endBlock_rec hb hi
    · contradiction
  | gov c =>
    simp only [step, Option.some.injEq] at h
    rw [← h]; exact gov_rec s c hi

theorem genesis_base_rec (g : Genesis) : RecInv g.base := by
  rw [recInv_iff]; exact ⟨Part.nil, Part.nil, Part.nil⟩

theorem genesis_rec (g : Genesis) : RecInv g.state :=
  RecInv.of_nview (nview_of_mframe (genesis_mframe g)) (genesis_base_rec g)

/-- `RecInv` (together with `CountInv`) holds after every operation of every history from a state that
satisfies both. -/
theorem rec_all_histories (ops : List Op) (s : State) (hi : RecInv s) (hc : CountInv s) :
    ∀ s' ∈ runTrace s ops, RecInv s' := by
  induction ops generalizing s with
  | nil => intro s' h; simp [runTrace] at h
  | cons op rest ih =>
    intro s' h
    simp only [runTrace] at h
    cases hst : step s op with
    | none => simp [hst] at h
    | some s1 =>
      simp only [hst, List.mem_cons] at h
      have i1 := step_rec hst hi hc
      rcases h with h | h
      · rw [h]; exact i1
      · exact ih s1 i1 (step_count hst hc) s' h

theorem rec_genesis_histories (g : Genesis) (ops : List Op) : ∀ s ∈ runTrace g.state ops, RecInv s :=
  rec_all_histories ops g.state (genesis_rec g) (genesis_count g)

end Hub.Model
