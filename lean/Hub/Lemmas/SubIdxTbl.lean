import Hub.Lemmas.Effects
import Mathlib.Tactic.SplitIfs
import Mathlib.Data.List.Nodup
import Aesop
/-
Helper lemmas about tables used by the `SubIdx` (C09, subscription side) and C06 proofs:
membership (`has`) of `set`/`erase`, keys, sums that vanish or agree, snapshots of due keys.
-/
namespace Hub.Model.Tbl
variable {κ α : Type} [DecidableEq κ]

theorem has_set_B (t : Tbl κ α) (k k' : κ) (v : α) : has (set t k v) k' = (decide (k = k') || has t k') := by
  unfold has; rw [get_set]; by_cases h : k = k' <;> simp [h]

theorem has_erase_B (t : Tbl κ α) (k k' : κ) : has (erase t k) k' = (!decide (k = k') && has t k') := by
  unfold has; rw [get_erase]; by_cases h : k = k' <;> simp [h]

theorem has_set_iff_B (t : Tbl κ α) (k k' : κ) (v : α) : has (set t k v) k' = true ↔ k = k' ∨ has t k' = true := by
  rw [has_set_B]; simp

theorem has_erase_iff_B (t : Tbl κ α) (k k' : κ) : has (erase t k) k' = true ↔ k ≠ k' ∧ has t k' = true := by
  rw [has_erase_B]; simp

theorem has_of_get_B {t : Tbl κ α} {k : κ} {v : α} (h : get t k = some v) : has t k = true := by
  unfold has; rw [h]; rfl

theorem has_false_of_get {t : Tbl κ α} {k : κ} (h : get t k = none) : has t k = false := by
  unfold has; rw [h]; rfl

theorem get_none_of_has {t : Tbl κ α} {k : κ} (h : has t k = false) : get t k = none :=
  (has_eq_false_iff t k).mp h

theorem has_iff_mem_keys (t : Tbl κ α) (k : κ) : has t k = true ↔ k ∈ t.keys := by
  rw [has_iff]
  exact ⟨fun ⟨_, hv⟩ => mem_keys_of_get hv, fun h => get_of_mem_keys h⟩

omit [DecidableEq κ] in
theorem mem_keys_of_mem {t : Tbl κ α} {k : κ} {v : α} (h : (k, v) ∈ t) : k ∈ t.keys :=
  List.mem_map.mpr ⟨(k, v), h, rfl⟩

omit [DecidableEq κ] in
theorem nodup_keys_B {t : Tbl κ α} (h : Nodup t) : t.keys.Nodup := h

/-- A sum all of whose terms vanish. -/
theorem sumKV_eq_zero (f : κ → α → Int) (t : Tbl κ α) (h : ∀ k v, (k, v) ∈ t → f k v = 0) : sumKV f t = 0 := by
  induction t with
  | nil => rfl
  | cons p rest ih =>
    obtain ⟨k, v⟩ := p
    rw [sumKV_cons, h k v (by simp), ih (fun k' v' hm => h k' v' (by simp [hm]))]; rfl

theorem sumKV_congr (f g : κ → α → Int) (t : Tbl κ α) (h : ∀ k v, (k, v) ∈ t → f k v = g k v) : sumKV f t = sumKV g t := by
  induction t with
  | nil => rfl
  | cons p rest ih =>
    obtain ⟨k, v⟩ := p
    rw [sumKV_cons, sumKV_cons, h k v (by simp), ih (fun k' v' hm => h k' v' (by simp [hm]))]

/-- A sum whose terms vanish at every key that is present (stated through `has`). -/
theorem sumKV_eq_zero_of_keys (f : κ → α → Int) (t : Tbl κ α) (h : ∀ k, has t k = true → ∀ v, f k v = 0) : sumKV f t = 0 :=
  sumKV_eq_zero f t (fun k v hm => h k ((has_iff_mem_keys t k).mpr (mem_keys_of_mem hm)) v)

theorem mem_of_get {t : Tbl κ α} {k : κ} {v : α} (h : get t k = some v) : (k, v) ∈ t := by
  induction t with
  | nil => simp [get] at h
  | cons p rest ih =>
    obtain ⟨k', v'⟩ := p
    rw [get_cons] at h
    by_cases h1 : k' = k
    · simp only [h1, if_true, Option.some.injEq] at h; subst h; subst h1; simp
    · simp only [h1, if_false] at h; simp [ih h]

theorem get_of_mem {t : Tbl κ α} (hn : Nodup t) {k : κ} {v : α} (h : (k, v) ∈ t) : get t k = some v := by
  induction t with
  | nil => simp at h
  | cons p rest ih =>
    obtain ⟨k', v'⟩ := p
    have hr : Nodup rest := (List.nodup_cons.mp hn).2
    have hk' : k' ∉ rest.map (·.1) := (List.nodup_cons.mp hn).1
    rw [get_cons]
    rcases List.mem_cons.mp h with h | h
    · simp only [Prod.mk.injEq] at h; obtain ⟨rfl, rfl⟩ := h; simp
    · have : k' ≠ k := by
        intro e; subst e; exact hk' (mem_keys_of_mem h)
      simp only [this, if_false]; exact ih hr h

/-- Terms of a sum may be compared through `get` when keys are unique. -/
theorem sumKV_congr_get (f g : κ → α → Int) {t : Tbl κ α} (hn : Nodup t)
    (h : ∀ k v, get t k = some v → f k v = g k v) : sumKV f t = sumKV g t :=
  sumKV_congr f g t (fun k v hm => h k v (get_of_mem hn hm))

theorem sumKV_single (f : κ → α → Int) {t : Tbl κ α} (hn : Nodup t) (k : κ) (v : α) (hg : get t k = some v)
    (h : ∀ k' v', get t k' = some v' → k' ≠ k → f k' v' = 0) : sumKV f t = f k v := by
  have := sumKV_erase f hn k
  rw [hg] at this
  simp only [] at this
  have hz : sumKV f (erase t k) = 0 := by
    refine sumKV_eq_zero f _ (fun k' v' hm => ?_)
    have hg' := get_of_mem (nodup_erase hn k) hm
    rw [get_erase] at hg'
    by_cases e : k = k'
    · simp [e] at hg'
    · simp only [e, if_false] at hg'
      exact h k' v' hg' (Ne.symm e)
  omega

end Hub.Model.Tbl

namespace Hub.Model
open Hub.SDK

/-- The keys of a due-queue snapshot are keys of the queue. -/
theorem mem_sortKeys {κ : Type} (enc : κ → Bytes) (ks : List κ) (k : κ) : k ∈ sortKeys enc ks ↔ k ∈ ks := by
  unfold sortKeys; exact List.mem_mergeSort

theorem nodup_sortKeys {κ : Type} (enc : κ → Bytes) {ks : List κ} (h : ks.Nodup) : (sortKeys enc ks).Nodup := by
  unfold sortKeys; exact (List.mergeSort_perm _ _).nodup_iff.mpr h

theorem mem_dueIds {enc : Time → Nat → Bytes} {q : Tbl (Time × Nat) Unit} {t : Time} {k : Time × Nat}
    (h : k ∈ dueIds enc q t) : q.has k = true := by
  unfold dueIds at h
  rw [mem_sortKeys] at h
  exact (Tbl.has_iff_mem_keys q k).mpr (List.mem_filter.mp h).1

theorem nodup_dueIds (enc : Time → Nat → Bytes) {q : Tbl (Time × Nat) Unit} (t : Time) (h : Tbl.Nodup q) :
    (dueIds enc q t).Nodup := by
  unfold dueIds
  exact nodup_sortKeys _ (List.Nodup.filter _ (Tbl.nodup_keys_B h))

end Hub.Model
