import Hub.Props.C01
import Hub.Props.C02
import Hub.Props.C04All
import Mathlib.Tactic.SplitIfs
/-
C03 (partial) — definitions and primitive lemmas.

* the NEW inductive invariant `NH` (what the block hooks need beyond the invariants already proved:
  sane parameters, non-negative balances, duplicate-free escrow records, unblocked node / owner
  addresses, valid deposit coins, bounded usage reports, a session's allocation exists);
* the amount hypothesis `AmountsOK` (recorded supply below 2^255, grants below 2^192 bytes);
* *totality* lemmas for the bank / escrow primitives and the metering arithmetic: under these facts
  `sendCoins`, `depositToModule`, `depositToAccount`, `GetProportionOfCoin`, `AmountForBytes` return.
-/
set_option linter.unusedSimpArgs false
set_option linter.unusedVariables false
set_option linter.unnecessarySeqFocus false
set_option linter.unusedTactic false
set_option linter.unreachableTactic false

namespace Hub.Model.NoHalt
open Hub.SDK Hub.Model Hub.Model.Escrow
open Hub.Generated (Status AmountForBytes GetProportionOfCoin Gigabyte)

/-! ### definitions -/

/-- 2^192: the bound on granted bytes under which the metering intermediates fit in 256 bits. -/
def GrantMax : Int := 6277101735386680763835789423207666416102355444464034512896

/-- 2^128, the bound `ValidateBasic` puts on a usage report (each direction). -/
def ReportMax : Int := 340282366920938463463374607431768211456

/-- The parameters the hooks and the money handlers read are in the range their governance validators
enforce (so only a genesis could violate this): deposits non-negative, the staking share in [0, 1]. -/
structure ParamsOK (p : Params) : Prop where
  provDep : 0 ≤ p.provDeposit.amount
  nodeDep : 0 ≤ p.nodeDeposit.amount
  share0 : 0 ≤ p.nodeShare
  share1 : p.nodeShare ≤ 1000000000000000000

/-- No stored balance is negative. -/
def BankNonneg (s : State) : Prop := ∀ k v, s.bank.get k = some v → 0 ≤ v

/-- No denomination occurs twice in a coin set. -/
def DenomsNodup (cs : Coins) : Prop := (cs.map (·.denom)).Nodup

/-- Escrow records are duplicate-free coin sets. -/
def DepUniq (s : State) : Prop := ∀ a cs, s.deposits.get a = some cs → DenomsNodup cs

/-- A stored subscription: the owner (and the node of a node subscription) can receive funds from a
module account, the deposit coin of a node subscription is a valid coin below 2^255. -/
def SubOK (y : Sub) : Prop :=
  isBlocked y.addr = false ∧
  match y.kind with
  | .node n _ _ dep => isBlocked n = false ∧ validDenom dep.denom = true ∧ dep.amount < B255
  | .plan _ _ => True

/-- A stored session: its node can receive funds, its usage report is within `ValidateBasic`'s range. -/
structure SessOK (x : Session) : Prop where
  node : isBlocked x.node = false
  up0 : 0 ≤ x.up
  up1 : x.up < ReportMax
  down0 : 0 ≤ x.down
  down1 : x.down < ReportMax

/-- **The new inductive invariant.** -/
structure NH (s : State) : Prop where
  params : ParamsOK s.params
  bank : BankNonneg s
  depUniq : DepUniq s
  nodes : ∀ a n, (s.nodeActive.get a = some n ∨ s.nodeInactive.get a = some n) → isBlocked a = false
  subs : ∀ i y, s.subs.get i = some y → SubOK y
  sess : ∀ i x, s.sessions.get i = some x → SessOK x
  sessAlloc : ∀ i x y, s.sessions.get i = some x → s.subs.get x.sub = some y → isHourly y = false →
    s.allocs.has (x.sub, x.addr) = true

/-- **H_amounts**, per state: every denomination's recorded supply is below 2^255 and every
allocation grants fewer than 2^192 bytes. -/
structure AmountsOK (s : State) : Prop where
  supply : ∀ d, supplyOf s d < B255
  grants : ∀ k al, s.allocs.get k = some al → al.granted < GrantMax

/-- What the bank / escrow primitives need. -/
structure MG (s : State) : Prop where
  money : MoneyInv s.supply s
  bank : BankNonneg s
  depUniq : DepUniq s
  supply : ∀ d, supplyOf s d < B255

/-! ### sums of non-negative entries -/

theorem sumKV_nonneg' {κ α : Type} [DecidableEq κ] (f : κ → α → Int) (t : Tbl κ α)
    (h : ∀ k v, (k, v) ∈ t → 0 ≤ f k v) : 0 ≤ Tbl.sumKV f t := by
  induction t with
  | nil => simp [Tbl.sumKV]
  | cons p rest ih =>
    obtain ⟨k, v⟩ := p
    rw [Tbl.sumKV_cons]
    have h1 := h k v (by simp)
    have h2 := ih (fun k' v' hm => h k' v' (by simp [hm]))
    omega

theorem le_sumKV {κ α : Type} [DecidableEq κ] (f : κ → α → Int) {t : Tbl κ α} (hn : Tbl.Nodup t)
    (hnn : ∀ k v, t.get k = some v → 0 ≤ f k v) {k : κ} {v : α} (hg : t.get k = some v) :
    f k v ≤ Tbl.sumKV f t := by
  have he := Tbl.sumKV_erase f hn k
  rw [hg] at he
  simp only [] at he
  have h0 : 0 ≤ Tbl.sumKV f (t.erase k) := by
    refine sumKV_nonneg' f _ (fun k' v' hm => ?_)
    have hg' := Tbl.get_of_mem (Tbl.nodup_erase hn k) hm
    rw [Tbl.get_erase] at hg'
    split_ifs at hg' with hc
    exact hnn k' v' hg'
  omega

/-! ### balances and the supply -/

theorem balance_nonneg {s : State} (hb : BankNonneg s) (a : Addr) (d : Denom) : 0 ≤ balance s a d := by
  unfold balance
  cases hg : s.bank.get (a, d) with
  | none => simp
  | some v => simpa using hb _ _ hg

theorem balance_le_supply {s : State} {σ : Tbl Denom Int} (hm : MoneyInv σ s) (hb : BankNonneg s) (a : Addr) (d : Denom) :
    balance s a d ≤ supplyOf s d := by
  rw [hm.supplyOK d]
  have h0 : 0 ≤ bankTotal s d := by
    unfold bankTotal
    refine sumKV_nonneg' _ _ (fun k v hmem => ?_)
    have := hb k v (Tbl.get_of_mem hm.bankNodup hmem)
    split <;> omega
  unfold balance
  cases hg : s.bank.get (a, d) with
  | none => simpa using h0
  | some v =>
    simp only [Option.getD_some]
    unfold bankTotal
    have := le_sumKV (fun (k : Addr × Denom) (v : Int) => if k.2 = d then v else 0) hm.bankNodup
      (fun k v hg => by have := hb k v hg; split <;> omega) hg
    simpa using this

theorem balance_lt {s : State} (hm : MG s) (a : Addr) (d : Denom) : balance s a d < B255 :=
  lt_of_le_of_lt (balance_le_supply hm.money hm.bank a d) (hm.supply d)

/-- An escrow record is covered by the escrow account's balance. -/
theorem escrowOf_le_balance {s : State} {σ : Tbl Denom Int} (hm : MoneyInv σ s) (a : Addr) (d : Denom) :
    escrowOf s a d ≤ balance s depositAddr d := by
  rw [hm.backed d]
  unfold escrowOf totalDeposits
  cases hg : s.deposits.get a with
  | none =>
    simp only [Option.getD_none, Coins.amountOf_nil]
    exact sumKV_nonneg' _ _ (fun k v hmem => Coins.amountOf_nonneg (hm.depNonneg k v (Tbl.get_of_mem hm.depNodup hmem)) d)
  | some cs =>
    simp only [Option.getD_some]
    exact le_sumKV (fun (_ : Addr) (cs : Coins) => cs.amountOf d) hm.depNodup
      (fun k v hg => Coins.amountOf_nonneg (hm.depNonneg k v hg) d) hg

/-! ### `intOverflows` on small integers -/

theorem not_overflow {i : Int} (h0 : 0 ≤ i) (h1 : i < B256) : intOverflows i = false := by
  have e : ((i.toNat : Nat) : Int) = i := Int.toNat_of_nonneg h0
  rw [← e]
  exact intOverflows_natCast _ (by omega)

theorem add_total {a b : Int} (ha : 0 ≤ a) (hb : 0 ≤ b) (h : a + b < B256) : SInt.add a b = .ok (a + b) := by
  unfold SInt.add; rw [not_overflow (by omega) h]; rfl

theorem sub_total {a b : Int} (hb : 0 ≤ b) (hle : b ≤ a) (h : a < B256) : SInt.sub a b = .ok (a - b) := by
  unfold SInt.sub; rw [not_overflow (by omega) (by omega)]; rfl

theorem mul_total {a b : Int} (h0 : 0 ≤ a * b) (h : a * b < B256) : SInt.mul a b = .ok (a * b) := by
  unfold SInt.mul; rw [not_overflow h0 h]; rfl

/-! ### `sendCoins` -/

theorem sendCoins_total {s : State} (hm : MG s) (f t : Addr) {c : Coin} (h0 : 0 ≤ c.amount)
    (hb : c.amount ≤ balance s f c.denom) : ∃ s', sendCoins s f t c = .ok s' := by
  unfold sendCoins
  have hr : require (!decide (balance s f c.denom < c.amount)) "insufficient funds" = .ok () := by
    rw [require_eq_ok]; simp; omega
  rw [hr, ok_bind]
  simp only []
  have hbt : balance (setBalance s f c.denom (balance s f c.denom - c.amount)) t c.denom ≤ balance s t c.denom := by
    rw [balance_setBalance]
    split
    · rename_i hc; rw [hc.1]; omega
    · exact le_refl _
  have hbt0 : 0 ≤ balance (setBalance s f c.denom (balance s f c.denom - c.amount)) t c.denom := by
    rw [balance_setBalance]
    split
    · omega
    · exact balance_nonneg hm.bank t c.denom
  have h1 := balance_lt hm t c.denom
  have h2 := balance_lt hm f c.denom
  rw [add_total hbt0 h0 (by omega), ok_bind]
  exact ⟨_, rfl⟩

theorem sendCoins_bankNonneg {s s' : State} {f t : Addr} {c : Coin} (h : sendCoins s f t c = .ok s')
    (hb : BankNonneg s) (h0 : 0 ≤ c.amount) : BankNonneg s' := by
  have hbal := (sendCoins_ok h).1
  unfold sendCoins at h
  simp only [bind_eq_ok, pure_eq_ok, require_eq_ok] at h
  obtain ⟨_, hle, _, _, _⟩ := h
  simp only [Bool.not_eq_true', decide_eq_false_iff_not, not_lt] at hle
  intro k v hg
  obtain ⟨a, d⟩ := k
  have hv : balance s' a d = v := by unfold balance; rw [hg]; rfl
  rw [← hv, hbal a d]
  have := balance_nonneg hb a d
  split_ifs with h1 h2 h2
  · omega
  · rw [← h1.1, ← h1.2]; omega
  · omega
  · omega


/-! ### coin sets -/

theorem denoms_inj {cs : Coins} (hu : DenomsNodup cs) {x y : Coin} (hx : x ∈ cs) (hy : y ∈ cs) (e : x.denom = y.denom) :
    x = y := by
  unfold DenomsNodup at hu
  induction cs with
  | nil => simp at hx
  | cons c rest ih =>
    simp only [List.map_cons, List.nodup_cons, List.mem_map, not_exists, not_and] at hu
    simp only [List.mem_cons] at hx hy
    rcases hx with rfl | hx <;> rcases hy with rfl | hy
    · rfl
    · exact absurd e.symm (hu.1 y hy)
    · exact absurd e (hu.1 x hx)
    · exact ih hu.2 hx hy

theorem insertSorted_mem (cs : Coins) (c x : Coin) : x ∈ Coins.insertSorted cs c ↔ x = c ∨ x ∈ cs := by
  induction cs with
  | nil => simp [Coins.insertSorted]
  | cons y rest ih =>
    unfold Coins.insertSorted
    split
    · simp
    · simp only [List.mem_cons, ih]; tauto

theorem insertSorted_denomsNodup {cs : Coins} {c : Coin} (hu : DenomsNodup cs) (hn : ∀ x ∈ cs, x.denom ≠ c.denom) :
    DenomsNodup (Coins.insertSorted cs c) := by
  unfold DenomsNodup at *
  induction cs with
  | nil => simp [Coins.insertSorted]
  | cons y rest ih =>
    simp only [List.map_cons, List.nodup_cons, List.mem_map, not_exists, not_and] at hu
    unfold Coins.insertSorted
    split
    · simp only [List.map_cons, List.nodup_cons, List.mem_cons, List.mem_map, not_or, not_exists, not_and]
      refine ⟨⟨fun e => hn y (by simp) e.symm, fun x hx e => hn x (by simp [hx]) e⟩, ?_, hu.2⟩
      exact hu.1
    · simp only [List.map_cons, List.nodup_cons, List.mem_map, not_exists, not_and]
      refine ⟨?_, ih hu.2 (fun x hx => hn x (by simp [hx]))⟩
      intro x hx e
      rw [insertSorted_mem] at hx
      rcases hx with rfl | hx
      · exact hn y (by simp) e.symm
      · exact hu.1 x hx e

theorem addAmt_denomsNodup {cs : Coins} (hu : DenomsNodup cs) (d : Denom) (a : Int) : DenomsNodup (Coins.addAmt cs d a) := by
  unfold Coins.addAmt
  cases hf : cs.find? (·.denom = d) with
  | none =>
    simp only []
    split
    · exact hu
    · refine insertSorted_denomsNodup hu (fun x hx e => ?_)
      have := List.find?_eq_none.mp hf x hx
      simp at this; exact this e
  | some c =>
    simp only []
    split
    · unfold DenomsNodup at *
      exact hu.sublist (List.Sublist.map _ List.filter_sublist)
    · unfold DenomsNodup at *
      have e : (cs.map (fun x => if x.denom = d then (⟨d, x.amount + a⟩ : Coin) else x)).map (·.denom) = cs.map (·.denom) := by
        rw [List.map_map]
        refine List.map_congr_left (fun x _ => ?_)
        simp only [Function.comp]
        split
        · rename_i h; exact h.symm
        · rfl
      rw [e]; exact hu

theorem nonneg_of_all {cs : Coins} (h : ∀ x ∈ cs, 0 ≤ x.amount) : Coins.isAnyNegative cs = false := by
  unfold Coins.isAnyNegative
  rw [List.any_eq_false]
  intro x hx
  have := h x hx
  simp; omega

/-- Taking out no more than the record holds leaves no negative coin. -/
theorem sub_not_anyNegative {cs : Coins} {c : Coin} (hn : Coins.Nonneg cs) (hu : DenomsNodup cs) (h0 : 0 ≤ c.amount)
    (hle : c.amount ≤ cs.amountOf c.denom) : (cs.sub c).isAnyNegative = false := by
  apply nonneg_of_all
  unfold Coins.sub Coins.addAmt
  unfold Coins.amountOf at hle
  cases hf : cs.find? (·.denom = c.denom) with
  | none =>
    rw [hf] at hle
    simp only [] at hle ⊢
    have hz : -c.amount = 0 := by omega
    rw [if_pos hz]
    exact hn
  | some c' =>
    rw [hf] at hle
    simp only [] at hle ⊢
    have hc' : c'.denom = c.denom := by simpa using List.find?_some hf
    have hm' : c' ∈ cs := List.mem_of_find?_eq_some hf
    split
    · intro x hx
      exact hn x (List.mem_filter.mp hx).1
    · intro x hx
      obtain ⟨y, hy, rfl⟩ := List.mem_map.mp hx
      split
      · rename_i hyd
        have : y = c' := denoms_inj hu hy hm' (hyd.trans hc'.symm)
        subst this
        show 0 ≤ y.amount + -c.amount
        omega
      · exact hn y hy

/-! ### escrow primitives: totality and what they keep -/

theorem getDeposit_of_pos {s : State} {a : Addr} {d : Denom} (h : 0 < escrowOf s a d) :
    ∃ cur, getDeposit s a = some cur ∧ cur.amountOf d = escrowOf s a d := by
  unfold escrowOf at h ⊢
  unfold getDeposit
  cases hg : s.deposits.get a with
  | none => rw [hg] at h; simp [Coins.amountOf_nil] at h
  | some cur => exact ⟨cur, rfl, rfl⟩

theorem depositToModule_total {s : State} (hm : MG s) (f m : Addr) {c : Coin} (h0 : 0 < c.amount)
    (hle : c.amount ≤ escrowOf s f c.denom) : ∃ s', depositToModule s f m c = .ok s' := by
  obtain ⟨cur, hcur, hamt⟩ := getDeposit_of_pos (lt_of_lt_of_le h0 hle)
  unfold depositToModule
  have hg : s.deposits.get f = some cur := hcur
  rw [hcur]
  simp only [orReject, pure_bind']
  have hneg := sub_not_anyNegative (c := c) (hm.money.depNonneg f cur hg) (hm.depUniq f cur hg) (le_of_lt h0) (by rw [hamt]; exact hle)
  have hr : require (!(cur.sub c).isAnyNegative) "insufficient deposit" = .ok () := by
    rw [require_eq_ok, hneg]; rfl
  rw [hr, ok_bind]
  obtain ⟨s1, h1⟩ := sendCoins_total hm depositAddr m (le_of_lt h0)
    (le_trans hle (escrowOf_le_balance hm.money f c.denom))
  rw [h1, ok_bind]
  exact ⟨_, rfl⟩

theorem depositToAccount_total {s : State} (hm : MG s) (f t : Addr) {c : Coin} (h0 : 0 < c.amount)
    (hle : c.amount ≤ escrowOf s f c.denom) (hb : isBlocked t = false) : ∃ s', depositToAccount s f t c = .ok s' := by
  obtain ⟨cur, hcur, hamt⟩ := getDeposit_of_pos (lt_of_lt_of_le h0 hle)
  unfold depositToAccount
  have hg : s.deposits.get f = some cur := hcur
  rw [hcur]
  simp only [orReject, pure_bind']
  have hneg := sub_not_anyNegative (c := c) (hm.money.depNonneg f cur hg) (hm.depUniq f cur hg) (le_of_lt h0) (by rw [hamt]; exact hle)
  have hr : require (!(cur.sub c).isAnyNegative) "insufficient deposit" = .ok () := by
    rw [require_eq_ok, hneg]; rfl
  rw [hr, ok_bind]
  obtain ⟨s1, h1⟩ := sendCoins_total hm depositAddr t (le_of_lt h0)
    (le_trans hle (escrowOf_le_balance hm.money f c.denom))
  unfold sendModuleToAccount
  rw [hb]
  simp only [Bool.false_eq_true, if_false]
  rw [h1, ok_bind]
  exact ⟨_, rfl⟩

theorem sendCoinFromDepositToModule_total {s : State} (hm : MG s) (f m : Addr) {c : Coin} (h0 : 0 ≤ c.amount)
    (hle : c.amount ≤ escrowOf s f c.denom) : ∃ s', sendCoinFromDepositToModule s f m c = .ok s' := by
  unfold sendCoinFromDepositToModule
  split
  · exact ⟨s, rfl⟩
  · rename_i hz
    exact depositToModule_total hm f m (by omega) hle

theorem sendCoinFromDepositToAccount_total {s : State} (hm : MG s) (f t : Addr) {c : Coin} (h0 : 0 ≤ c.amount)
    (hle : c.amount ≤ escrowOf s f c.denom) (hb : isBlocked t = false) :
    ∃ s', sendCoinFromDepositToAccount s f t c = .ok s' := by
  unfold sendCoinFromDepositToAccount
  split
  · exact ⟨s, rfl⟩
  · rename_i hz
    exact depositToAccount_total hm f t (by omega) hle hb

theorem subtractDeposit_total {s : State} (hm : MG s) (a : Addr) {c : Coin} (h0 : 0 ≤ c.amount)
    (hle : c.amount ≤ escrowOf s a c.denom) (hb : isBlocked a = false) : ∃ s', subtractDeposit s a c = .ok s' := by
  unfold subtractDeposit
  split
  · exact ⟨s, rfl⟩
  · rename_i hz
    exact depositToAccount_total hm a a (by omega) hle hb

/-- The bank after `putDeposit … ; emit …` is the bank before. -/
theorem depUniq_putDeposit {s : State} (hu : DepUniq s) (a : Addr) {cs : Coins} (hcs : DenomsNodup cs) :
    DepUniq (putDeposit s a cs) := by
  unfold putDeposit
  split
  · intro a' cs' hg
    unfold deleteDeposit at hg
    simp only [Tbl.get_erase] at hg
    split_ifs at hg
    exact hu a' cs' hg
  · intro a' cs' hg
    unfold setDeposit at hg
    simp only [Tbl.get_set] at hg
    split_ifs at hg
    · simp only [Option.some.injEq] at hg; rw [← hg]; exact hcs
    · exact hu a' cs' hg

theorem depositOut_mg {s s1 : State} {f t : Addr} {c : Coin} {cur : Coins} {e : Event}
    (h1 : sendCoins s depositAddr t c = .ok s1) (hcur : getDeposit s f = some cur) (h0 : 0 ≤ c.amount)
    (hb : BankNonneg s) (hu : DepUniq s) :
    BankNonneg (emit (putDeposit s1 f (cur.sub c)) e) ∧ DepUniq (emit (putDeposit s1 f (cur.sub c)) e) := by
  have b1 := sendCoins_bankNonneg h1 hb h0
  have d1 : s1.deposits = s.deposits := sendCoins_deposits h1
  constructor
  · intro k v hg
    have : (emit (putDeposit s1 f (cur.sub c)) e).bank = s1.bank := bank_putDeposit s1 f _
    rw [this] at hg
    exact b1 k v hg
  · have u1 : DepUniq s1 := by intro a cs hg; rw [d1] at hg; exact hu a cs hg
    have := depUniq_putDeposit u1 f (cs := cur.sub c) (addAmt_denomsNodup (hu f cur hcur) _ _)
    exact this

theorem depositToModule_keeps {s s' : State} {f m : Addr} {c : Coin} (h : depositToModule s f m c = .ok s')
    (h0 : 0 ≤ c.amount) (hb : BankNonneg s) (hu : DepUniq s) : BankNonneg s' ∧ DepUniq s' := by
  unfold depositToModule at h
  simp only [bind_eq_ok, pure_eq_ok, require_eq_ok, orReject_eq_ok] at h
  obtain ⟨cur, hcur, _, _, s1, hs1, rfl⟩ := h
  exact depositOut_mg hs1 hcur h0 hb hu

theorem depositToAccount_keeps {s s' : State} {f t : Addr} {c : Coin} (h : depositToAccount s f t c = .ok s')
    (h0 : 0 ≤ c.amount) (hb : BankNonneg s) (hu : DepUniq s) : BankNonneg s' ∧ DepUniq s' := by
  unfold depositToAccount sendModuleToAccount at h
  simp only [bind_eq_ok, pure_eq_ok, require_eq_ok, orReject_eq_ok] at h
  obtain ⟨cur, hcur, _, _, s1, hs1, rfl⟩ := h
  split at hs1
  · simp [reject] at hs1
  · exact depositOut_mg hs1 hcur h0 hb hu

theorem sendCoinFromDepositToModule_keeps {s s' : State} {f m : Addr} {c : Coin}
    (h : sendCoinFromDepositToModule s f m c = .ok s') (h0 : 0 ≤ c.amount) (hb : BankNonneg s) (hu : DepUniq s) :
    BankNonneg s' ∧ DepUniq s' := by
  unfold sendCoinFromDepositToModule at h
  split at h
  · rw [pure_eq_ok] at h; subst h; exact ⟨hb, hu⟩
  · exact depositToModule_keeps h h0 hb hu

theorem sendCoinFromDepositToAccount_keeps {s s' : State} {f t : Addr} {c : Coin}
    (h : sendCoinFromDepositToAccount s f t c = .ok s') (h0 : 0 ≤ c.amount) (hb : BankNonneg s) (hu : DepUniq s) :
    BankNonneg s' ∧ DepUniq s' := by
  unfold sendCoinFromDepositToAccount at h
  split at h
  · rw [pure_eq_ok] at h; subst h; exact ⟨hb, hu⟩
  · exact depositToAccount_keeps h h0 hb hu

theorem subtractDeposit_keeps {s s' : State} {a : Addr} {c : Coin}
    (h : subtractDeposit s a c = .ok s') (h0 : 0 ≤ c.amount) (hb : BankNonneg s) (hu : DepUniq s) :
    BankNonneg s' ∧ DepUniq s' := by
  unfold subtractDeposit at h
  split at h
  · rw [pure_eq_ok] at h; subst h; exact ⟨hb, hu⟩
  · exact depositToAccount_keeps h h0 hb hu

theorem MG.of_step {s s' : State} (hm : MG s) (hmi : MoneyInv s.supply s') (hb : BankNonneg s') (hu : DepUniq s') : MG s' := by
  have e : s'.supply = s.supply := hmi.supplyEq
  refine ⟨e ▸ hmi, hb, hu, ?_⟩
  intro d; rw [supplyOf_frame e]; exact hm.supply d

theorem sendCoinFromDepositToModule_mg {s s' : State} {f m : Addr} {c : Coin}
    (h : sendCoinFromDepositToModule s f m c = .ok s') (h0 : 0 ≤ c.amount) (hne : m ≠ depositAddr) (hm : MG s) : MG s' := by
  obtain ⟨b, u⟩ := sendCoinFromDepositToModule_keeps h h0 hm.bank hm.depUniq
  exact hm.of_step (sendCoinFromDepositToModule_inv h hm.money hne).1 b u

theorem sendCoinFromDepositToAccount_mg {s s' : State} {f t : Addr} {c : Coin}
    (h : sendCoinFromDepositToAccount s f t c = .ok s') (h0 : 0 ≤ c.amount) (hm : MG s) : MG s' := by
  obtain ⟨b, u⟩ := sendCoinFromDepositToAccount_keeps h h0 hm.bank hm.depUniq
  exact hm.of_step (sendCoinFromDepositToAccount_inv h hm.money).1 b u

theorem subtractDeposit_mg {s s' : State} {a : Addr} {c : Coin}
    (h : subtractDeposit s a c = .ok s') (h0 : 0 ≤ c.amount) (hm : MG s) : MG s' := by
  obtain ⟨b, u⟩ := subtractDeposit_keeps h h0 hm.bank hm.depUniq
  exact hm.of_step (subtractDeposit_inv h hm.money).1 b u

/-! ### coins and metering -/

theorem newCoin_total {d : Denom} {a : Int} (hd : validDenom d = true) (ha : 0 ≤ a) : newCoin d a = .ok ⟨d, a⟩ := by
  unfold newCoin
  simp only [hd, Bool.not_true, Bool.false_eq_true, if_false]
  rw [if_neg (by omega)]
  rfl

/-- `GetProportionOfCoin` returns for a valid coin below 2^255 and a share in [0, 1]; the share of the
coin is between 0 and the coin. -/
theorem proportion_total {c : Coin} {sh : Int} (hd : validDenom c.denom = true) (h0 : 0 ≤ c.amount) (h1 : c.amount < B255)
    (hs0 : 0 ≤ sh) (hs1 : sh ≤ 1000000000000000000) :
    ∃ r, GetProportionOfCoin c sh = .ok r ∧ r.denom = c.denom ∧ 0 ≤ r.amount ∧ r.amount ≤ c.amount := by
  have e1 : ((c.amount.toNat : Nat) : Int) = c.amount := Int.toNat_of_nonneg h0
  have e2 : ((sh.toNat : Nat) : Int) = sh := Int.toNat_of_nonneg hs0
  have hs0' : (0 : Int) ≤ (sh : Int) := hs0
  have hs1' : (sh : Int) ≤ 1000000000000000000 := hs1
  have hsn : (sh : Int).toNat ≤ 10 ^ 18 := by
    have : (10 : Nat) ^ 18 = 1000000000000000000 := by norm_num
    omega
  have := Hub.Props.C16.proportion_exact c.denom c.amount.toNat sh.toNat hd (by omega) hsn
  rw [e1, e2] at this
  have hc : (⟨c.denom, c.amount⟩ : Coin) = c := rfl
  rw [hc] at this
  refine ⟨_, this, rfl, by simp, ?_⟩
  have hle := Hub.Props.C16.proportion_le c.amount.toNat sh.toNat hsn
  simp only
  omega

theorem quo_total {a b : Int} (hb : b ≠ 0) : SInt.quo a b = .ok (Int.tdiv a b) := by
  unfold SInt.quo; rw [if_neg hb]; rfl

/-- `AmountForBytes` returns the charge when price and bytes are non-negative and the three
intermediates fit in 256 bits. -/
theorem afb_total {p b : Int} (hp : 0 ≤ p) (hb : 0 ≤ b) (h1 : p / 1000000000 * b < B256)
    (h2 : p % 1000000000 * b + 1000000000 < B256) (h3 : charge p b < B256) :
    AmountForBytes p b = .ok (charge p b) := by
  have e1 : ((p.toNat : Nat) : Int) = p := Int.toNat_of_nonneg hp
  have e2 : ((b.toNat : Nat) : Int) = b := Int.toNat_of_nonneg hb
  have k : (10 : Nat) ^ 9 = 1000000000 := by norm_num
  have := Hub.Props.C16.afb_exact_fits p.toNat b.toNat
    (by
      have : ((p.toNat / 10 ^ 9 * b.toNat : Nat) : Int) = p / 1000000000 * b := by
        push_cast; rw [e1, e2]
      have h : ((p.toNat / 10 ^ 9 * b.toNat : Nat) : Int) < (B256 : Int) := by rw [this]; exact h1
      exact_mod_cast h)
    (by
      have : ((p.toNat % 10 ^ 9 * b.toNat + 10 ^ 9 : Nat) : Int) = p % 1000000000 * b + 1000000000 := by
        push_cast; rw [e1, e2]
      have h : ((p.toNat % 10 ^ 9 * b.toNat + 10 ^ 9 : Nat) : Int) < (B256 : Int) := by rw [this]; exact h2
      exact_mod_cast h)
    (by
      unfold charge at h3
      exact_mod_cast h3)
  rw [e1, e2] at this
  exact this

end Hub.Model.NoHalt
