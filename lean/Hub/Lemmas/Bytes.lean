import Hub.SDK.Bytes
/-
General facts about the byte-level vocabulary of the store keys (`Hub/SDK/Bytes.lean`):
big-endian integers, length prefixes, the lexicographic order, prefix ends, slices, and one
injectivity / prefix-freedom lemma per *shape* of store key.  Core Lean only (no Mathlib).
-/
namespace Hub.SDK

/-- `2^64` written as a literal. -/
notation "B64" => (18446744073709551616 : Nat)

/-! ## UInt8 -/

theorem u8_lt_iff (a b : UInt8) : a < b ↔ a.toNat < b.toNat := UInt8.lt_iff_toNat_lt

theorem u8_toNat_lt (a : UInt8) : a.toNat < 256 := by
  have := UInt8.toNat_lt a; omega

theorem u8_toNat_ofNat (n : Nat) : (UInt8.ofNat n).toNat = n % 256 := by
  have := @UInt8.toNat_ofNat' n; omega

theorem u8_toNat_ofNat_of_lt (n : Nat) (h : n < 256) : (UInt8.ofNat n).toNat = n := by
  rw [u8_toNat_ofNat]; omega

theorem u8_eq_of_toNat_eq {a b : UInt8} (h : a.toNat = b.toNat) : a = b := UInt8.toNat_inj.mp h

theorem u8_ofNat_inj {n m : Nat} (hn : n < 256) (hm : m < 256) (h : UInt8.ofNat n = UInt8.ofNat m) : n = m := by
  have := congrArg UInt8.toNat h
  rw [u8_toNat_ofNat_of_lt n hn, u8_toNat_ofNat_of_lt m hm] at this
  exact this

theorem u8_toNat_255 : (255 : UInt8).toNat = 255 := rfl

theorem u8_ne_255_iff (x : UInt8) : x ≠ 255 ↔ x.toNat < 255 := by
  constructor
  · intro h
    have h1 := u8_toNat_lt x
    have h2 : x.toNat ≠ 255 := fun e => h (u8_eq_of_toNat_eq (by rw [e]; rfl))
    omega
  · intro h e
    rw [e] at h
    exact absurd h (by decide)

theorem u8_toNat_succ (x : UInt8) (h : x ≠ 255) : (x + 1).toNat = x.toNat + 1 := by
  have h1 := (u8_ne_255_iff x).mp h
  have h2 := UInt8.toNat_add x 1
  have h3 : (1 : UInt8).toNat = 1 := rfl
  rw [h3] at h2
  omega

/-! ## `bytesLt` : a strict total order -/

@[simp] theorem bytesLt_nil_nil : bytesLt [] [] = false := rfl
@[simp] theorem bytesLt_nil_cons (y : UInt8) (ys : Bytes) : bytesLt [] (y :: ys) = true := rfl
@[simp] theorem bytesLt_cons_nil (x : UInt8) (xs : Bytes) : bytesLt (x :: xs) [] = false := rfl
theorem bytesLt_cons_cons (x y : UInt8) (xs ys : Bytes) :
    bytesLt (x :: xs) (y :: ys) = if x < y then true else if y < x then false else bytesLt xs ys := rfl

theorem bytesLt_nil_right (a : Bytes) : bytesLt a [] = false := by
  cases a <;> rfl

theorem bytesLt_cons_cons_iff (x y : UInt8) (xs ys : Bytes) :
    bytesLt (x :: xs) (y :: ys) = true ↔ x.toNat < y.toNat ∨ (x = y ∧ bytesLt xs ys = true) := by
  rw [bytesLt_cons_cons]
  by_cases h1 : x < y
  · simp only [h1, if_true, true_iff]
    exact Or.inl ((u8_lt_iff x y).mp h1)
  · by_cases h2 : y < x
    · simp only [h1, h2, if_true, if_false]
      have h1' := (u8_lt_iff y x).mp h2
      constructor
      · intro h; exact absurd h (by decide)
      · rintro (h | ⟨h, _⟩)
        · omega
        · rw [h] at h1'; omega
    · simp only [h1, h2, if_false]
      have e : x = y := by
        apply u8_eq_of_toNat_eq
        have a1 : ¬ x.toNat < y.toNat := fun h => h1 ((u8_lt_iff x y).mpr h)
        have a2 : ¬ y.toNat < x.toNat := fun h => h2 ((u8_lt_iff y x).mpr h)
        omega
      constructor
      · intro h; exact Or.inr ⟨e, h⟩
      · rintro (h | ⟨_, h⟩)
        · exact absurd ((u8_lt_iff x y).mpr h) h1
        · exact h

theorem bytesLt_cons_same (x : UInt8) (xs ys : Bytes) : bytesLt (x :: xs) (x :: ys) = bytesLt xs ys := by
  rw [bytesLt_cons_cons]
  have : ¬ x < x := by rw [u8_lt_iff]; omega
  simp only [this, if_false]

theorem bytesLt_irrefl (a : Bytes) : bytesLt a a = false := by
  induction a with
  | nil => rfl
  | cons x xs ih => rw [bytesLt_cons_same]; exact ih

theorem bytesLt_trans {a b c : Bytes} (h1 : bytesLt a b = true) (h2 : bytesLt b c = true) : bytesLt a c = true := by
  induction a generalizing b c with
  | nil =>
    cases c with
    | nil => rw [bytesLt_nil_right] at h2; exact h2
    | cons z zs => rfl
  | cons x xs ih =>
    cases b with
    | nil => exact absurd h1 (by simp)
    | cons y ys =>
      cases c with
      | nil => exact absurd h2 (by simp)
      | cons z zs =>
        rw [bytesLt_cons_cons_iff] at h1 h2 ⊢
        rcases h1 with h1 | ⟨e1, h1⟩
        · rcases h2 with h2 | ⟨e2, h2⟩
          · left; omega
          · left; rw [← e2]; exact h1
        · rcases h2 with h2 | ⟨e2, h2⟩
          · left; rw [e1]; exact h2
          · right; exact ⟨e1.trans e2, ih h1 h2⟩

theorem bytesLt_trichotomy (a b : Bytes) : bytesLt a b = true ∨ a = b ∨ bytesLt b a = true := by
  induction a generalizing b with
  | nil =>
    cases b with
    | nil => right; left; rfl
    | cons y ys => left; rfl
  | cons x xs ih =>
    cases b with
    | nil => right; right; rfl
    | cons y ys =>
      rw [bytesLt_cons_cons_iff, bytesLt_cons_cons_iff]
      by_cases h1 : x.toNat < y.toNat
      · left; left; exact h1
      · by_cases h2 : y.toNat < x.toNat
        · right; right; left; exact h2
        · have e : x = y := u8_eq_of_toNat_eq (by omega)
          rcases ih ys with h | h | h
          · left; right; exact ⟨e, h⟩
          · right; left; rw [e, h]
          · right; right; right; exact ⟨e.symm, h⟩

theorem bytesLt_asymm {a b : Bytes} (h : bytesLt a b = true) : bytesLt b a = false := by
  cases h' : bytesLt b a with
  | false => rfl
  | true =>
    have := bytesLt_trans h h'
    rw [bytesLt_irrefl] at this
    exact absurd this (by decide)

theorem bytesLt_ne {a b : Bytes} (h : bytesLt a b = true) : a ≠ b := by
  intro e; rw [e, bytesLt_irrefl] at h; exact absurd h (by decide)

/-- A common prefix does not change the order. -/
theorem bytesLt_append_left (p x y : Bytes) : bytesLt (p ++ x) (p ++ y) = bytesLt x y := by
  induction p with
  | nil => rfl
  | cons c cs ih => rw [List.cons_append, List.cons_append, bytesLt_cons_same]; exact ih

theorem bytesLe_iff (a b : Bytes) : bytesLe a b = true ↔ bytesLt b a = false := by
  unfold bytesLe; cases bytesLt b a <;> simp

theorem bytesLe_refl (a : Bytes) : bytesLe a a = true := by
  rw [bytesLe_iff]; exact bytesLt_irrefl a

theorem bytesLe_of_lt {a b : Bytes} (h : bytesLt a b = true) : bytesLe a b = true := by
  rw [bytesLe_iff]; exact bytesLt_asymm h

theorem bytesLe_iff_lt_or_eq (a b : Bytes) : bytesLe a b = true ↔ bytesLt a b = true ∨ a = b := by
  rw [bytesLe_iff]
  constructor
  · intro h
    rcases bytesLt_trichotomy a b with h1 | h1 | h1
    · exact Or.inl h1
    · exact Or.inr h1
    · rw [h] at h1; exact absurd h1 (by decide)
  · rintro (h | h)
    · exact bytesLt_asymm h
    · rw [h]; exact bytesLt_irrefl b

theorem bytesLe_append_left (p x y : Bytes) : bytesLe (p ++ x) (p ++ y) = bytesLe x y := by
  unfold bytesLe; rw [bytesLt_append_left]

/-- Everything that extends `p` is at or above `p`. -/
theorem bytesLe_append_right (p s : Bytes) : bytesLe p (p ++ s) = true := by
  have := bytesLe_append_left p [] s
  rw [List.append_nil] at this
  rw [this, bytesLe_iff]; exact bytesLt_nil_right s

/-- For two blocks of the same length the first block decides unless the blocks are equal. -/
theorem bytesLt_append_of_length_eq {a b : Bytes} (h : a.length = b.length) (x y : Bytes) :
    bytesLt (a ++ x) (b ++ y) = true ↔ bytesLt a b = true ∨ (a = b ∧ bytesLt x y = true) := by
  induction a generalizing b with
  | nil =>
    cases b with
    | nil => simp
    | cons y ys => simp at h
  | cons c cs ih =>
    cases b with
    | nil => simp at h
    | cons d ds =>
      have hl : cs.length = ds.length := by simpa using h
      rw [List.cons_append, List.cons_append, bytesLt_cons_cons_iff, bytesLt_cons_cons_iff, ih hl]
      constructor
      · rintro (h1 | ⟨e, h1 | ⟨e2, h2⟩⟩)
        · exact Or.inl (Or.inl h1)
        · exact Or.inl (Or.inr ⟨e, h1⟩)
        · exact Or.inr ⟨by rw [e, e2], h2⟩
      · rintro ((h1 | ⟨e, h1⟩) | ⟨e, h2⟩)
        · exact Or.inl h1
        · exact Or.inr ⟨e, Or.inl h1⟩
        · injection e with e1 e2
          exact Or.inr ⟨e1, Or.inr ⟨e2, h2⟩⟩

/-! ## Big-endian numbers -/

theorem foldl_be (b : Bytes) (acc : Nat) :
    b.foldl (fun acc x => acc * 256 + x.toNat) acc = acc * 256 ^ b.length + beToNat b := by
  unfold beToNat
  induction b generalizing acc with
  | nil => simp
  | cons x xs ih =>
    rw [List.foldl_cons, List.foldl_cons, ih, ih (0 * 256 + x.toNat), List.length_cons, Nat.pow_succ]
    rw [Nat.zero_mul, Nat.zero_add, Nat.add_mul, Nat.mul_assoc, Nat.mul_comm 256, Nat.add_assoc]

theorem beToNat_nil : beToNat [] = 0 := rfl

theorem beToNat_cons (x : UInt8) (xs : Bytes) : beToNat (x :: xs) = x.toNat * 256 ^ xs.length + beToNat xs := by
  have := foldl_be xs (0 * 256 + x.toNat)
  rw [Nat.zero_mul, Nat.zero_add] at this
  rw [← this]
  unfold beToNat
  rw [List.foldl_cons, Nat.zero_mul, Nat.zero_add]

theorem beToNat_lt (b : Bytes) : beToNat b < 256 ^ b.length := by
  induction b with
  | nil => decide
  | cons x xs ih =>
    rw [beToNat_cons, List.length_cons, Nat.pow_succ]
    have hx := u8_toNat_lt x
    have : x.toNat * 256 ^ xs.length + 256 ^ xs.length ≤ 256 ^ xs.length * 256 := by
      rw [Nat.mul_comm (256 ^ xs.length) 256, ← Nat.succ_mul]
      exact Nat.mul_le_mul_right _ hx
    omega

/-- On byte strings of one length the lexicographic order is the order of the big-endian values. -/
theorem bytesLt_iff_beToNat_lt {a b : Bytes} (h : a.length = b.length) :
    bytesLt a b = true ↔ beToNat a < beToNat b := by
  induction a generalizing b with
  | nil =>
    cases b with
    | nil => simp [beToNat_nil]
    | cons y ys => simp at h
  | cons x xs ih =>
    cases b with
    | nil => simp at h
    | cons y ys =>
      have hl : xs.length = ys.length := by simpa using h
      rw [bytesLt_cons_cons_iff, beToNat_cons, beToNat_cons, ih hl, hl]
      have hx := beToNat_lt xs
      have hy := beToNat_lt ys
      rw [hl] at hx
      generalize 256 ^ ys.length = P at hx hy
      generalize beToNat xs = A at hx
      generalize beToNat ys = B at hy
      constructor
      · rintro (h1 | ⟨e, h1⟩)
        · have : (x.toNat + 1) * P ≤ y.toNat * P := Nat.mul_le_mul_right _ h1
          rw [Nat.succ_mul] at this
          omega
        · rw [e]; omega
      · intro h1
        by_cases h2 : x.toNat < y.toNat
        · exact Or.inl h2
        · by_cases h3 : y.toNat < x.toNat
          · have : (y.toNat + 1) * P ≤ x.toNat * P := Nat.mul_le_mul_right _ h3
            rw [Nat.succ_mul] at this
            omega
          · have e : x.toNat = y.toNat := by omega
            right
            refine ⟨u8_eq_of_toNat_eq e, ?_⟩
            rw [e] at h1; omega

/-- Equal-length byte strings with the same big-endian value are equal. -/
theorem beToNat_injective {a b : Bytes} (h : a.length = b.length) (hv : beToNat a = beToNat b) : a = b := by
  rcases bytesLt_trichotomy a b with h1 | h1 | h1
  · have := (bytesLt_iff_beToNat_lt h).mp h1; omega
  · exact h1
  · have := (bytesLt_iff_beToNat_lt h.symm).mp h1; omega

/-! ## `u64be` -/

theorem u64be_length (n : Nat) : (u64be n).length = 8 := rfl

theorem beToNat_u64be (n : Nat) (h : n < B64) : beToNat (u64be n) = n := by
  have e : ∀ a b c d e f g k : UInt8, beToNat [a, b, c, d, e, f, g, k] =
      ((((((a.toNat * 256 + b.toNat) * 256 + c.toNat) * 256 + d.toNat) * 256 + e.toNat) * 256 + f.toNat) * 256
        + g.toNat) * 256 + k.toNat := by
    intro a b c d e f g k
    unfold beToNat
    simp only [List.foldl_cons, List.foldl_nil, Nat.zero_mul, Nat.zero_add]
  unfold u64be
  rw [e]
  simp only [u8_toNat_ofNat]
  have p56 : (2:Nat) ^ 56 = 72057594037927936 := by decide
  have p48 : (2:Nat) ^ 48 = 281474976710656 := by decide
  have p40 : (2:Nat) ^ 40 = 1099511627776 := by decide
  have p32 : (2:Nat) ^ 32 = 4294967296 := by decide
  have p24 : (2:Nat) ^ 24 = 16777216 := by decide
  have p16 : (2:Nat) ^ 16 = 65536 := by decide
  have p8 : (2:Nat) ^ 8 = 256 := by decide
  rw [p56, p48, p40, p32, p24, p16, p8]
  simp only [Nat.mod_mod]
  have d2 : n / 65536 = n / 256 / 256 := by rw [Nat.div_div_eq_div_mul]
  have d3 : n / 16777216 = n / 65536 / 256 := by rw [Nat.div_div_eq_div_mul]
  have d4 : n / 4294967296 = n / 16777216 / 256 := by rw [Nat.div_div_eq_div_mul]
  have d5 : n / 1099511627776 = n / 4294967296 / 256 := by rw [Nat.div_div_eq_div_mul]
  have d6 : n / 281474976710656 = n / 1099511627776 / 256 := by rw [Nat.div_div_eq_div_mul]
  have d7 : n / 72057594037927936 = n / 281474976710656 / 256 := by rw [Nat.div_div_eq_div_mul]
  have d8 : n / 72057594037927936 < 256 := by omega
  clear p56 p48 p40 p32 p24 p16 p8
  generalize n / 72057594037927936 = a7 at *
  generalize n / 281474976710656 = a6 at *
  generalize n / 1099511627776 = a5 at *
  generalize n / 4294967296 = a4 at *
  generalize n / 16777216 = a3 at *
  generalize n / 65536 = a2 at *
  generalize d1 : n / 256 = a1 at *
  omega

theorem u64be_injective {n m : Nat} (hn : n < B64) (hm : m < B64) (h : u64be n = u64be m) : n = m := by
  have := congrArg beToNat h
  rw [beToNat_u64be n hn, beToNat_u64be m hm] at this
  exact this

theorem bigEndianToUint64_u64be (n : Nat) (h : n < B64) : bigEndianToUint64 (u64be n) = .ok n := by
  unfold bigEndianToUint64
  have h8 : (u64be n).length = 8 := rfl
  have ht : (u64be n).take 8 = u64be n := by
    rw [← h8]; exact List.take_length
  simp only [h8, ht, beToNat_u64be n h]
  rfl

/-- `u64be` is strictly order preserving: byte order of the keys is numeric order of the ids. -/
theorem bytesLt_u64be {n m : Nat} (hn : n < B64) (hm : m < B64) :
    bytesLt (u64be n) (u64be m) = true ↔ n < m := by
  rw [bytesLt_iff_beToNat_lt (by rfl), beToNat_u64be n hn, beToNat_u64be m hm]

/-! ## `Except` plumbing for the decoders -/

theorem ok_bind' {ε α β : Type} (a : α) (f : α → Except ε β) : ((Except.ok a : Except ε α) >>= f) = f a := rfl

/-! ## Prefixes -/

theorem isPrefixOf_eq (p b : Bytes) : isPrefixOf p b = List.isPrefixOf p b := rfl

theorem isPrefixOf_iff (p b : Bytes) : List.isPrefixOf p b = true ↔ p <+: b := List.isPrefixOf_iff_prefix

theorem isPrefixOf_iff_exists (p b : Bytes) : List.isPrefixOf p b = true ↔ ∃ s, b = p ++ s := by
  rw [isPrefixOf_iff]
  constructor
  · rintro ⟨s, h⟩; exact ⟨s, h.symm⟩
  · rintro ⟨s, h⟩; exact ⟨s, h.symm⟩

theorem prefix_of_length_eq {a b : Bytes} (h : a.length = b.length) : a <+: b ↔ a = b := by
  constructor
  · rintro ⟨t, ht⟩
    have hl := congrArg List.length ht
    rw [List.length_append] at hl
    have : t = [] := List.eq_nil_of_length_eq_zero (by omega)
    rw [this, List.append_nil] at ht
    exact ht
  · intro e; rw [e]; exact List.prefix_refl b

/-- Same-length leading blocks: a prefix relation splits into equality of the blocks and a prefix
relation of the rests. -/
theorem prefix_append_fixed {a b : Bytes} (h : a.length = b.length) (x y : Bytes) :
    a ++ x <+: b ++ y ↔ a = b ∧ x <+: y := by
  constructor
  · rintro ⟨t, ht⟩
    rw [List.append_assoc] at ht
    obtain ⟨e1, e2⟩ := List.append_inj ht h
    exact ⟨e1, ⟨t, e2⟩⟩
  · rintro ⟨e, hp⟩
    rw [e]; exact (List.prefix_append_right_inj b).mpr hp

theorem append_fixed_inj {a b x y : Bytes} (h : a.length = b.length) (e : a ++ x = b ++ y) : a = b ∧ x = y :=
  List.append_inj e h

/-- Keys under prefixes that are not prefix-related are not prefix-related (in particular differ). -/
theorem not_prefix_of_unrelated {P Q : Bytes} (h1 : List.isPrefixOf P Q = false) (h2 : List.isPrefixOf Q P = false)
    (x y : Bytes) : ¬ (P ++ x <+: Q ++ y) := by
  intro h
  have hP : P <+: Q ++ y := List.IsPrefix.trans (List.prefix_append P x) h
  have hQ : Q <+: Q ++ y := List.prefix_append Q y
  rcases Nat.le_total P.length Q.length with hl | hl
  · have := (isPrefixOf_iff P Q).mpr (List.prefix_of_prefix_length_le hP hQ hl)
    rw [h1] at this; exact absurd this (by decide)
  · have := (isPrefixOf_iff Q P).mpr (List.prefix_of_prefix_length_le hQ hP hl)
    rw [h2] at this; exact absurd this (by decide)

theorem ne_of_unrelated {P Q : Bytes} (h1 : List.isPrefixOf P Q = false) (h2 : List.isPrefixOf Q P = false)
    (x y : Bytes) : P ++ x ≠ Q ++ y := by
  intro e
  exact not_prefix_of_unrelated h1 h2 x y (by rw [e]; exact List.prefix_refl _)

/-! ## `u64be` as a key block -/

theorem u64be_append_inj {i j : Nat} (hi : i < B64) (hj : j < B64) {x y : Bytes}
    (h : u64be i ++ x = u64be j ++ y) : i = j ∧ x = y := by
  obtain ⟨e1, e2⟩ := List.append_inj h (by rfl)
  exact ⟨u64be_injective hi hj e1, e2⟩

theorem u64be_append_prefix {i j : Nat} (hi : i < B64) (hj : j < B64) (x y : Bytes) :
    u64be i ++ x <+: u64be j ++ y ↔ i = j ∧ x <+: y := by
  rw [prefix_append_fixed (by rfl)]
  constructor
  · rintro ⟨e, h⟩; exact ⟨u64be_injective hi hj e, h⟩
  · rintro ⟨e, h⟩; exact ⟨by rw [e], h⟩

theorem u64be_prefix {i j : Nat} (hi : i < B64) (hj : j < B64) : u64be i <+: u64be j ↔ i = j := by
  rw [prefix_of_length_eq (by rfl)]
  exact ⟨u64be_injective hi hj, fun e => by rw [e]⟩

/-! ## Length prefixes -/

/-- The address lengths the chain allows (`address.MustLengthPrefix` panics above 255; the empty
address is rejected by every message validation). -/
def AddrOK (a : Bytes) : Prop := 1 ≤ a.length ∧ a.length ≤ 255

theorem lp_eq {a : Bytes} (h : AddrOK a) : lp a = UInt8.ofNat a.length :: a := by
  unfold lp
  have : ¬ a.length = 0 := by have := h.1; omega
  simp only [this, if_false]

theorem lp_length {a : Bytes} (h : AddrOK a) : (lp a).length = 1 + a.length := by
  rw [lp_eq h, List.length_cons]; omega

/-- **Prefix freedom** of length-prefixed addresses: what follows a length-prefixed address is
determined, even when one address is a prefix of the other. -/
theorem lp_append_inj {a b : Bytes} (ha : AddrOK a) (hb : AddrOK b) {x y : Bytes}
    (h : lp a ++ x = lp b ++ y) : a = b ∧ x = y := by
  rw [lp_eq ha, lp_eq hb, List.cons_append, List.cons_append] at h
  injection h with h1 h2
  have hl : a.length = b.length := u8_ofNat_inj (by have := ha.2; omega) (by have := hb.2; omega) h1
  exact List.append_inj h2 hl

theorem lp_injective {a b : Bytes} (ha : AddrOK a) (hb : AddrOK b) (h : lp a = lp b) : a = b := by
  have : lp a ++ [] = lp b ++ [] := by rw [h]
  exact (lp_append_inj ha hb this).1

theorem lp_append_prefix {a b : Bytes} (ha : AddrOK a) (hb : AddrOK b) (x y : Bytes) :
    lp a ++ x <+: lp b ++ y ↔ a = b ∧ x <+: y := by
  constructor
  · rintro ⟨t, ht⟩
    rw [List.append_assoc] at ht
    obtain ⟨e1, e2⟩ := lp_append_inj ha hb ht
    exact ⟨e1, ⟨t, e2⟩⟩
  · rintro ⟨e, hp⟩
    rw [e]; exact (List.prefix_append_right_inj (lp b)).mpr hp

theorem lp_prefix {a b : Bytes} (ha : AddrOK a) (hb : AddrOK b) : lp a <+: lp b ↔ a = b := by
  have := lp_append_prefix ha hb [] []
  rw [List.append_nil, List.append_nil] at this
  rw [this]
  exact ⟨fun h => h.1, fun h => ⟨h, List.prefix_refl _⟩⟩

/-! ## Indexing and slicing appended lists -/

theorem idx_of_eq {k x y : Bytes} {c : UInt8} {n : Nat} (h : k = x ++ c :: y) (hn : x.length = n) :
    idx k n = .ok c.toNat := by
  unfold idx
  rw [h, ← hn, List.getElem?_append_right (Nat.le_refl _), Nat.sub_self]
  rfl

theorem sliceFrom_of_eq {k x y : Bytes} {n : Nat} (h : k = x ++ y) (hn : x.length = n) :
    sliceFrom k n = .ok y := by
  unfold sliceFrom
  rw [h, ← hn, List.drop_left]
  have : x.length ≤ (x ++ y).length := by rw [List.length_append]; omega
  simp only [this, if_true]

theorem slice_of_eq {k x y z : Bytes} {lo hi : Nat} (h : k = x ++ (y ++ z)) (hlo : x.length = lo)
    (hhi : lo + y.length = hi) : slice k lo hi = .ok y := by
  unfold slice
  have h1 : lo ≤ hi ∧ hi ≤ k.length := by
    rw [h, List.length_append, List.length_append]; omega
  have h2 : hi - lo = y.length := by omega
  simp only [h1, and_self, if_true]
  rw [h, ← hlo, List.drop_left, ← hlo] at *
  rw [h2, List.take_left]

/-- The length byte of a length-prefixed address placed right after `P`. -/
theorem idx_lp {P a rest : Bytes} {n : Nat} (ha : AddrOK a) (hn : P.length = n) :
    idx (P ++ (lp a ++ rest)) n = .ok a.length := by
  have := idx_of_eq (k := P ++ (lp a ++ rest)) (x := P) (c := UInt8.ofNat a.length) (y := a ++ rest) (n := n)
    (by rw [lp_eq ha]; rfl) hn
  rw [this, u8_toNat_ofNat_of_lt _ (by have := ha.2; omega)]

theorem idx_lp' {P Q a rest : Bytes} {n : Nat} (ha : AddrOK a) (hn : P.length + Q.length = n) :
    idx (P ++ (Q ++ (lp a ++ rest))) n = .ok a.length := by
  rw [← List.append_assoc]
  exact idx_lp ha (by rw [List.length_append]; exact hn)

/-! ## `prefixEnd` -/

theorem prefixEnd_go_append (l : List UInt8) (x : UInt8) :
    prefixEnd.go (l ++ [x]) =
      match prefixEnd.go l with
      | some r => some (r ++ [x])
      | none => if x = 255 then none else some [x + 1] := by
  induction l with
  | nil =>
    simp only [List.nil_append, prefixEnd.go]
  | cons c cs ih =>
    rw [List.cons_append, prefixEnd.go, prefixEnd.go]
    by_cases hc : c = 255
    · simp only [hc, if_true]; exact ih
    · simp only [hc, if_false, List.cons_append]

theorem prefixEnd_nil : prefixEnd [] = none := rfl

/-- `sdk.PrefixEndBytes` as a recursion from the front of the string. -/
theorem prefixEnd_cons (x : UInt8) (xs : Bytes) :
    prefixEnd (x :: xs) =
      match prefixEnd xs with
      | some e => some (x :: e)
      | none => if x = 255 then none else some [x + 1] := by
  have hgo : ∀ l : Bytes, prefixEnd l = (prefixEnd.go l.reverse).map List.reverse := by
    intro l; cases l with
    | nil => rfl
    | cons c cs => rfl
  rw [hgo (x :: xs), hgo xs, List.reverse_cons, prefixEnd_go_append]
  cases prefixEnd.go xs.reverse with
  | none =>
    by_cases hx : x = 255
    · simp only [hx, if_true, Option.map_none]
    · simp only [hx, if_false, Option.map_some, Option.map_none, List.reverse_cons, List.reverse_nil, List.nil_append]
  | some r =>
    simp only [Option.map_some, List.reverse_append, List.reverse_cons, List.reverse_nil, List.nil_append,
      List.cons_append]

theorem prefixEnd_eq_none_iff (p : Bytes) : prefixEnd p = none ↔ p.all (· = 255) = true := by
  induction p with
  | nil => simp [prefixEnd_nil]
  | cons x xs ih =>
    rw [prefixEnd_cons, List.all_cons]
    cases h : prefixEnd xs with
    | some e =>
      have : ¬ (xs.all (· = 255) = true) := fun hh => by rw [ih.mpr hh] at h; exact absurd h (by simp)
      simp [this]
    | none =>
      have := ih.mp h
      by_cases hx : x = 255
      · simp [hx, this]
      · simp [hx]

/-- A non-empty prefix that does not consist of `0xff` bytes only has an end. -/
theorem prefixEnd_isSome_of_head_ne (x : UInt8) (xs : Bytes) (hx : x ≠ 255) : ∃ e, prefixEnd (x :: xs) = some e := by
  rw [prefixEnd_cons]
  cases prefixEnd xs with
  | some e => exact ⟨_, rfl⟩
  | none => simp only [hx, if_false]; exact ⟨_, rfl⟩

/-- Above a string of `0xff` bytes there are only its extensions. -/
theorem isPrefix_of_all255_le (r k : Bytes) (hr : r.all (· = 255) = true) (h : bytesLe r k = true) : r <+: k := by
  induction r generalizing k with
  | nil => exact List.nil_prefix
  | cons x xs ih =>
    rw [List.all_cons, Bool.and_eq_true, decide_eq_true_eq] at hr
    obtain ⟨hx, hxs⟩ := hr
    rw [bytesLe_iff] at h
    cases k with
    | nil => exact absurd h (by simp)
    | cons c cs =>
      have hlt : ¬ (bytesLt (c :: cs) (x :: xs) = true) := by rw [h]; decide
      rw [bytesLt_cons_cons_iff] at hlt
      have hc := u8_toNat_lt c
      have hx' : x.toNat = 255 := by rw [hx]; rfl
      have e : c = x := u8_eq_of_toNat_eq (by
        have : ¬ c.toNat < x.toNat := fun hh => hlt (Or.inl hh)
        omega)
      have h2 : bytesLe xs cs = true := by
        rw [bytesLe_iff]
        cases hb : bytesLt cs xs with
        | false => rfl
        | true => exact absurd (Or.inr ⟨e, hb⟩) hlt
      rw [e]
      exact (List.prefix_cons_inj x).mpr (ih cs hxs h2)

/-- **Characterisation of `prefixEnd`**: the half-open range `[p, prefixEnd p)` of the key order holds
exactly the strings that start with `p`. -/
theorem prefixEnd_range {p e : Bytes} (h : prefixEnd p = some e) (k : Bytes) :
    (bytesLe p k = true ∧ bytesLt k e = true) ↔ p <+: k := by
  induction p generalizing e k with
  | nil => rw [prefixEnd_nil] at h; exact absurd h (by simp)
  | cons x xs ih =>
    rw [prefixEnd_cons] at h
    cases k with
    | nil =>
      constructor
      · rintro ⟨h1, _⟩
        rw [bytesLe_iff] at h1; exact absurd h1 (by simp)
      · intro hp; exact absurd (List.prefix_nil.mp hp) (by simp)
    | cons c cs =>
      rw [bytesLe_iff]
      cases hxs : prefixEnd xs with
      | some e' =>
        rw [hxs] at h
        have he : e = x :: e' := by simpa using h.symm
        rw [he]
        have ih' := ih hxs cs
        rw [bytesLe_iff] at ih'
        constructor
        · rintro ⟨h1, h2⟩
          have hlt : ¬ (bytesLt (c :: cs) (x :: xs) = true) := by rw [h1]; decide
          rw [bytesLt_cons_cons_iff] at hlt h2
          have hc : c = x := by
            rcases h2 with h2 | ⟨h2, _⟩
            · exact absurd (Or.inl h2) hlt
            · exact h2
          have h3 : bytesLt cs e' = true := by
            rcases h2 with h2 | ⟨_, h2⟩
            · exact absurd (Or.inl h2) hlt
            · exact h2
          have h4 : bytesLt cs xs = false := by
            cases hb : bytesLt cs xs with
            | false => rfl
            | true => exact absurd (Or.inr ⟨hc, hb⟩) hlt
          rw [hc]
          exact (List.prefix_cons_inj x).mpr (ih'.mp ⟨h4, h3⟩)
        · intro hp
          obtain ⟨hc, hp'⟩ := List.cons_prefix_cons.mp hp
          obtain ⟨h4, h3⟩ := ih'.mpr hp'
          rw [← hc, bytesLt_cons_same, bytesLt_cons_same]
          exact ⟨h4, h3⟩
      | none =>
        rw [hxs] at h
        have h255 := (prefixEnd_eq_none_iff xs).mp hxs
        by_cases hx : x = 255
        · simp only [hx, if_true] at h; exact absurd h (by simp)
        · simp only [hx, if_false] at h
          have he : e = [x + 1] := by simpa using h.symm
          rw [he]
          have hsucc := u8_toNat_succ x hx
          constructor
          · rintro ⟨h1, h2⟩
            have hlt : ¬ (bytesLt (c :: cs) (x :: xs) = true) := by rw [h1]; decide
            rw [bytesLt_cons_cons_iff] at hlt h2
            have hc : c = x := by
              apply u8_eq_of_toNat_eq
              have a1 : ¬ c.toNat < x.toNat := fun hh => hlt (Or.inl hh)
              rcases h2 with h2 | ⟨_, h2⟩
              · omega
              · rw [bytesLt_nil_right] at h2; exact absurd h2 (by decide)
            have h4 : bytesLe xs cs = true := by
              rw [bytesLe_iff]
              cases hb : bytesLt cs xs with
              | false => rfl
              | true => exact absurd (Or.inr ⟨hc, hb⟩) hlt
            rw [hc]
            exact (List.prefix_cons_inj x).mpr (isPrefix_of_all255_le xs cs h255 h4)
          · intro hp
            obtain ⟨hc, hp'⟩ := List.cons_prefix_cons.mp hp
            obtain ⟨s, hs⟩ := hp'
            rw [← hc, bytesLt_cons_same, bytesLt_cons_cons_iff]
            refine ⟨?_, Or.inl (by omega)⟩
            have := bytesLe_append_right xs s
            rw [hs, bytesLe_iff] at this
            exact this

theorem prefixEnd_range' {p e : Bytes} (h : prefixEnd p = some e) (k : Bytes) :
    (bytesLe p k = true ∧ bytesLt k e = true) ↔ List.isPrefixOf p k = true := by
  rw [isPrefixOf_iff]; exact prefixEnd_range h k

/-- Everything that starts with `p` is below `prefixEnd p`. -/
theorem lt_prefixEnd_of_prefix {p e : Bytes} (h : prefixEnd p = some e) (s : Bytes) : bytesLt (p ++ s) e = true :=
  ((prefixEnd_range h (p ++ s)).mpr (List.prefix_append p s)).2

/-- What is at or above `p` without starting with `p` is at or above `prefixEnd p`. -/
theorem prefixEnd_le_of_not_prefix {p e k : Bytes} (h : prefixEnd p = some e) (h1 : bytesLe p k = true)
    (h2 : ¬ p <+: k) : bytesLe e k = true := by
  rw [bytesLe_iff]
  cases hb : bytesLt k e with
  | false => rfl
  | true => exact absurd ((prefixEnd_range h k).mp ⟨h1, hb⟩) h2

/-! ## One lemma per *shape* of store key

All shapes are written right-associated (`P ++ (x ++ (y ++ z))`), which is the normal form reached by
`simp only [List.append_assoc]`.  `P` is the table prefix.  The `pre_*` lemmas say when one key of a
table is a prefix of another (never, unless equal); `inj_*` are the injectivity corollaries; the `iso_*`
lemmas say when a listing prefix matches a key. -/

theorem pfx_left (P x y : Bytes) : List.isPrefixOf (P ++ x) (P ++ y) = true ↔ x <+: y := by
  rw [isPrefixOf_iff, List.prefix_append_right_inj]

section shapes
variable (P : Bytes) {a b a' b' : Bytes} {i j i' j' : Nat}

theorem pre_raw {h h' : Bytes} (hl : h.length = h'.length) :
    List.isPrefixOf (P ++ h) (P ++ h') = true ↔ h = h' := by
  rw [pfx_left, prefix_of_length_eq hl]

theorem pre_lp (ha : AddrOK a) (hb : AddrOK b) :
    List.isPrefixOf (P ++ lp a) (P ++ lp b) = true ↔ a = b := by
  rw [pfx_left, lp_prefix ha hb]

theorem pre_u64 (hi : i < B64) (hj : j < B64) :
    List.isPrefixOf (P ++ u64be i) (P ++ u64be j) = true ↔ i = j := by
  rw [pfx_left, u64be_prefix hi hj]

theorem pre_lp_u64 (ha : AddrOK a) (hb : AddrOK b) (hi : i < B64) (hj : j < B64) :
    List.isPrefixOf (P ++ (lp a ++ u64be i)) (P ++ (lp b ++ u64be j)) = true ↔ a = b ∧ i = j := by
  rw [pfx_left, lp_append_prefix ha hb, u64be_prefix hi hj]

theorem pre_u64_lp (hi : i < B64) (hj : j < B64) (ha : AddrOK a) (hb : AddrOK b) :
    List.isPrefixOf (P ++ (u64be i ++ lp a)) (P ++ (u64be j ++ lp b)) = true ↔ i = j ∧ a = b := by
  rw [pfx_left, u64be_append_prefix hi hj, lp_prefix ha hb]

theorem pre_u64_u64 (hi : i < B64) (hj : j < B64) (hi' : i' < B64) (hj' : j' < B64) :
    List.isPrefixOf (P ++ (u64be i ++ u64be i')) (P ++ (u64be j ++ u64be j')) = true ↔ i = j ∧ i' = j' := by
  rw [pfx_left, u64be_append_prefix hi hj, u64be_prefix hi' hj']

theorem pre_fix_u64 {F G : Bytes} (hl : F.length = G.length) (hi : i < B64) (hj : j < B64) :
    List.isPrefixOf (P ++ (F ++ u64be i)) (P ++ (G ++ u64be j)) = true ↔ F = G ∧ i = j := by
  rw [pfx_left, prefix_append_fixed hl, u64be_prefix hi hj]

theorem pre_fix_lp {F G : Bytes} (hl : F.length = G.length) (ha : AddrOK a) (hb : AddrOK b) :
    List.isPrefixOf (P ++ (F ++ lp a)) (P ++ (G ++ lp b)) = true ↔ F = G ∧ a = b := by
  rw [pfx_left, prefix_append_fixed hl, lp_prefix ha hb]

theorem pre_lp_lp (ha : AddrOK a) (hb : AddrOK b) (ha' : AddrOK a') (hb' : AddrOK b') :
    List.isPrefixOf (P ++ (lp a ++ lp a')) (P ++ (lp b ++ lp b')) = true ↔ a = b ∧ a' = b' := by
  rw [pfx_left, lp_append_prefix ha hb, lp_prefix ha' hb']

theorem pre_lp_lp_u64 (ha : AddrOK a) (hb : AddrOK b) (ha' : AddrOK a') (hb' : AddrOK b')
    (hi : i < B64) (hj : j < B64) :
    List.isPrefixOf (P ++ (lp a ++ (lp a' ++ u64be i))) (P ++ (lp b ++ (lp b' ++ u64be j))) = true
      ↔ a = b ∧ a' = b' ∧ i = j := by
  rw [pfx_left, lp_append_prefix ha hb, lp_append_prefix ha' hb', u64be_prefix hi hj]

theorem pre_u64_lp_u64 (hi : i < B64) (hj : j < B64) (ha : AddrOK a) (hb : AddrOK b)
    (hi' : i' < B64) (hj' : j' < B64) :
    List.isPrefixOf (P ++ (u64be i ++ (lp a ++ u64be i'))) (P ++ (u64be j ++ (lp b ++ u64be j'))) = true
      ↔ i = j ∧ a = b ∧ i' = j' := by
  rw [pfx_left, u64be_append_prefix hi hj, lp_append_prefix ha hb, u64be_prefix hi' hj']

/-- Equal keys are in prefix relation: every `pre_*` lemma gives the injectivity of its shape. -/
theorem isPrefixOf_of_eq {x y : Bytes} (h : x = y) : List.isPrefixOf x y = true := by
  rw [h, isPrefixOf_iff]; exact List.prefix_refl y

theorem inj_raw {h h' : Bytes} (e : P ++ h = P ++ h') : h = h' := List.append_cancel_left e

theorem inj_lp (ha : AddrOK a) (hb : AddrOK b) (e : P ++ lp a = P ++ lp b) : a = b :=
  (pre_lp P ha hb).mp (isPrefixOf_of_eq e)

theorem inj_u64 (hi : i < B64) (hj : j < B64) (e : P ++ u64be i = P ++ u64be j) : i = j :=
  (pre_u64 P hi hj).mp (isPrefixOf_of_eq e)

theorem inj_lp_u64 (ha : AddrOK a) (hb : AddrOK b) (hi : i < B64) (hj : j < B64)
    (e : P ++ (lp a ++ u64be i) = P ++ (lp b ++ u64be j)) : a = b ∧ i = j :=
  (pre_lp_u64 P ha hb hi hj).mp (isPrefixOf_of_eq e)

theorem inj_u64_lp (hi : i < B64) (hj : j < B64) (ha : AddrOK a) (hb : AddrOK b)
    (e : P ++ (u64be i ++ lp a) = P ++ (u64be j ++ lp b)) : i = j ∧ a = b :=
  (pre_u64_lp P hi hj ha hb).mp (isPrefixOf_of_eq e)

theorem inj_u64_u64 (hi : i < B64) (hj : j < B64) (hi' : i' < B64) (hj' : j' < B64)
    (e : P ++ (u64be i ++ u64be i') = P ++ (u64be j ++ u64be j')) : i = j ∧ i' = j' :=
  (pre_u64_u64 P hi hj hi' hj').mp (isPrefixOf_of_eq e)

theorem inj_fix_u64 {F G : Bytes} (hl : F.length = G.length) (hi : i < B64) (hj : j < B64)
    (e : P ++ (F ++ u64be i) = P ++ (G ++ u64be j)) : F = G ∧ i = j :=
  (pre_fix_u64 P hl hi hj).mp (isPrefixOf_of_eq e)

theorem inj_fix_lp {F G : Bytes} (hl : F.length = G.length) (ha : AddrOK a) (hb : AddrOK b)
    (e : P ++ (F ++ lp a) = P ++ (G ++ lp b)) : F = G ∧ a = b :=
  (pre_fix_lp P hl ha hb).mp (isPrefixOf_of_eq e)

theorem inj_lp_lp (ha : AddrOK a) (hb : AddrOK b) (ha' : AddrOK a') (hb' : AddrOK b')
    (e : P ++ (lp a ++ lp a') = P ++ (lp b ++ lp b')) : a = b ∧ a' = b' :=
  (pre_lp_lp P ha hb ha' hb').mp (isPrefixOf_of_eq e)

theorem inj_lp_lp_u64 (ha : AddrOK a) (hb : AddrOK b) (ha' : AddrOK a') (hb' : AddrOK b')
    (hi : i < B64) (hj : j < B64)
    (e : P ++ (lp a ++ (lp a' ++ u64be i)) = P ++ (lp b ++ (lp b' ++ u64be j))) : a = b ∧ a' = b' ∧ i = j :=
  (pre_lp_lp_u64 P ha hb ha' hb' hi hj).mp (isPrefixOf_of_eq e)

theorem inj_u64_lp_u64 (hi : i < B64) (hj : j < B64) (ha : AddrOK a) (hb : AddrOK b)
    (hi' : i' < B64) (hj' : j' < B64)
    (e : P ++ (u64be i ++ (lp a ++ u64be i')) = P ++ (u64be j ++ (lp b ++ u64be j'))) : i = j ∧ a = b ∧ i' = j' :=
  (pre_u64_lp_u64 P hi hj ha hb hi' hj').mp (isPrefixOf_of_eq e)

/-! ### Listing prefixes -/

theorem iso_lp (ha : AddrOK a) (hb : AddrOK b) (rest : Bytes) :
    List.isPrefixOf (P ++ lp a) (P ++ (lp b ++ rest)) = true ↔ a = b := by
  have := lp_append_prefix ha hb [] rest
  rw [List.append_nil] at this
  rw [pfx_left, this]
  exact ⟨fun h => h.1, fun h => ⟨h, List.nil_prefix⟩⟩

theorem iso_u64 (hi : i < B64) (hj : j < B64) (rest : Bytes) :
    List.isPrefixOf (P ++ u64be i) (P ++ (u64be j ++ rest)) = true ↔ i = j := by
  have := u64be_append_prefix hi hj [] rest
  rw [List.append_nil] at this
  rw [pfx_left, this]
  exact ⟨fun h => h.1, fun h => ⟨h, List.nil_prefix⟩⟩

theorem iso_fix {F G : Bytes} (hl : F.length = G.length) (rest : Bytes) :
    List.isPrefixOf (P ++ F) (P ++ (G ++ rest)) = true ↔ F = G := by
  have := prefix_append_fixed hl [] rest
  rw [List.append_nil] at this
  rw [pfx_left, this]
  exact ⟨fun h => h.1, fun h => ⟨h, List.nil_prefix⟩⟩

theorem iso_u64_lp (hi : i < B64) (hj : j < B64) (ha : AddrOK a) (hb : AddrOK b) (rest : Bytes) :
    List.isPrefixOf (P ++ (u64be i ++ lp a)) (P ++ (u64be j ++ (lp b ++ rest))) = true ↔ i = j ∧ a = b := by
  have := lp_append_prefix ha hb [] rest
  rw [List.append_nil] at this
  rw [pfx_left, u64be_append_prefix hi hj, this]
  exact ⟨fun h => ⟨h.1, h.2.1⟩, fun h => ⟨h.1, h.2, List.nil_prefix⟩⟩

theorem iso_lp_lp (ha : AddrOK a) (hb : AddrOK b) (ha' : AddrOK a') (hb' : AddrOK b') (rest : Bytes) :
    List.isPrefixOf (P ++ (lp a ++ lp a')) (P ++ (lp b ++ (lp b' ++ rest))) = true ↔ a = b ∧ a' = b' := by
  have := lp_append_prefix ha' hb' [] rest
  rw [List.append_nil] at this
  rw [pfx_left, lp_append_prefix ha hb, this]
  exact ⟨fun h => ⟨h.1, h.2.1⟩, fun h => ⟨h.1, h.2, List.nil_prefix⟩⟩

/-! ### What the decoders read (table prefix of one byte)

For each key shape: the bytes found at the fixed offsets the Go decoders use (`key[1]`, `key[9]`,
`key[30]`, `key[2+addrLen:]`, ...) and the total length they check. -/

theorem facts_lp_u64 {k : Bytes} (hk : k = P ++ (lp a ++ u64be i)) (hP : P.length = 1) (ha : AddrOK a) :
    idx k 1 = .ok a.length ∧ k.length = 10 + a.length ∧ sliceFrom k (2 + a.length) = .ok (u64be i)
      ∧ slice k 2 (2 + a.length) = .ok a := by
  refine ⟨?_, ?_, ?_, ?_⟩
  · rw [hk]; exact idx_lp ha hP
  · rw [hk]; simp only [List.length_append, hP, lp_length ha, u64be_length]; omega
  · rw [hk, ← List.append_assoc]
    exact sliceFrom_of_eq rfl (by simp only [List.length_append, hP, lp_length ha]; omega)
  · have : k = (P ++ [UInt8.ofNat a.length]) ++ (a ++ u64be i) := by
      rw [hk, lp_eq ha]; simp only [List.append_assoc, List.cons_append, List.nil_append]
    exact slice_of_eq this (by simp only [List.length_append, hP, List.length_cons, List.length_nil]) rfl

theorem facts_u64_u64 {k : Bytes} (hk : k = P ++ (u64be i ++ u64be j)) (hP : P.length = 1) :
    k.length = 17 ∧ sliceFrom k 9 = .ok (u64be j) := by
  refine ⟨?_, ?_⟩
  · rw [hk]; simp only [List.length_append, hP, u64be_length]
  · rw [hk, ← List.append_assoc]
    exact sliceFrom_of_eq rfl (by simp only [List.length_append, hP, u64be_length])

theorem facts_fix_u64 {k F : Bytes} (hk : k = P ++ (F ++ u64be i)) (hP : P.length = 1) (hF : F.length = 29) :
    k.length = 38 ∧ sliceFrom k 30 = .ok (u64be i) := by
  refine ⟨?_, ?_⟩
  · rw [hk]; simp only [List.length_append, hP, hF, u64be_length]
  · rw [hk, ← List.append_assoc]
    exact sliceFrom_of_eq rfl (by simp only [List.length_append, hP, hF])

theorem facts_lp_lp_u64 {k : Bytes} (hk : k = P ++ (lp a ++ (lp b ++ u64be i))) (hP : P.length = 1)
    (ha : AddrOK a) (hb : AddrOK b) :
    idx k 1 = .ok a.length ∧ idx k (2 + a.length) = .ok b.length ∧ k.length = 11 + a.length + b.length
      ∧ sliceFrom k (3 + a.length + b.length) = .ok (u64be i) := by
  refine ⟨?_, ?_, ?_, ?_⟩
  · rw [hk]; exact idx_lp ha hP
  · rw [hk]; exact idx_lp' hb (by rw [hP, lp_length ha]; omega)
  · rw [hk]; simp only [List.length_append, hP, lp_length ha, lp_length hb, u64be_length]; omega
  · rw [hk, ← List.append_assoc, ← List.append_assoc]
    exact sliceFrom_of_eq rfl (by simp only [List.length_append, hP, lp_length ha, lp_length hb]; omega)

theorem facts_u64_lp_u64 {k : Bytes} (hk : k = P ++ (u64be i ++ (lp a ++ u64be j))) (hP : P.length = 1)
    (ha : AddrOK a) :
    idx k 9 = .ok a.length ∧ k.length = 18 + a.length ∧ sliceFrom k (10 + a.length) = .ok (u64be j) := by
  refine ⟨?_, ?_, ?_⟩
  · rw [hk]; exact idx_lp' ha (by rw [hP, u64be_length])
  · rw [hk]; simp only [List.length_append, hP, lp_length ha, u64be_length]; omega
  · rw [hk, ← List.append_assoc, ← List.append_assoc]
    exact sliceFrom_of_eq rfl (by simp only [List.length_append, hP, lp_length ha, u64be_length]; omega)

theorem facts_fix_lp {k F : Bytes} {n : Nat} (hk : k = P ++ (F ++ lp a)) (hP : P.length = 1) (hF : F.length = n)
    (ha : AddrOK a) :
    idx k (1 + n) = .ok a.length ∧ k.length = 2 + n + a.length ∧ sliceFrom k (2 + n) = .ok a := by
  refine ⟨?_, ?_, ?_⟩
  · have := idx_lp' (P := P) (Q := F) (rest := []) (n := 1 + n) ha (by rw [hP, hF])
    rw [List.append_nil] at this
    rw [hk]; exact this
  · rw [hk]; simp only [List.length_append, hP, hF, lp_length ha]; omega
  · have : k = (P ++ (F ++ [UInt8.ofNat a.length])) ++ a := by
      rw [hk, lp_eq ha]; simp only [List.append_assoc, List.cons_append, List.nil_append]
    exact sliceFrom_of_eq this (by
      simp only [List.length_append, hP, hF, List.length_cons, List.length_nil]; omega)

/-! ### Deadline queues: `P ++ (time ++ rest)` -/

/-- Order of two queue keys: the fixed-width time block first, then the rest. -/
theorem lt_fix {F G : Bytes} (hl : F.length = G.length) (x y : Bytes) :
    bytesLt (P ++ (F ++ x)) (P ++ (G ++ y)) = true ↔ bytesLt F G = true ∨ (F = G ∧ bytesLt x y = true) := by
  rw [bytesLt_append_left, bytesLt_append_of_length_eq hl]

/-- The range `[P, prefixEnd (P ++ F))` holds exactly the queue keys whose time block is at or below `F`
(`F` **included**: this is why the end-blocker sweeps deadlines `≤` block time). -/
theorem scan_range {F G e : Bytes} (hl : G.length = F.length) (rest : Bytes)
    (he : prefixEnd (P ++ F) = some e) :
    (bytesLe P (P ++ (G ++ rest)) = true ∧ bytesLt (P ++ (G ++ rest)) e = true)
      ↔ (bytesLt G F = true ∨ G = F) := by
  constructor
  · rintro ⟨_, h2⟩
    rcases bytesLt_trichotomy G F with h | h | h
    · exact Or.inl h
    · exact Or.inr h
    · exfalso
      have h3 : bytesLt (P ++ (F ++ [])) (P ++ (G ++ rest)) = true := (lt_fix P hl.symm [] rest).mpr (Or.inl h)
      rw [List.append_nil] at h3
      have h4 : ¬ (P ++ F <+: P ++ (G ++ rest)) := by
        intro hp
        have := (iso_fix P hl.symm rest).mp ((isPrefixOf_iff _ _).mpr hp)
        exact bytesLt_ne h this
      have h5 := prefixEnd_le_of_not_prefix he (bytesLe_of_lt h3) h4
      rw [bytesLe_iff, h2] at h5
      exact absurd h5 (by decide)
  · intro h
    refine ⟨bytesLe_append_right P _, ?_⟩
    rcases h with h | h
    · have h3 : bytesLt (P ++ (G ++ rest)) (P ++ (F ++ [])) = true := (lt_fix P hl rest []).mpr (Or.inl h)
      rw [List.append_nil] at h3
      have h4 := lt_prefixEnd_of_prefix he []
      rw [List.append_nil] at h4
      exact bytesLt_trans h3 h4
    · rw [h, ← List.append_assoc]
      exact lt_prefixEnd_of_prefix he rest

/-- The scanned range `[P, prefixEnd (P ++ F))` stays inside table `P`: everything in it starts with `P`. -/
theorem scan_within_table {F eP e k : Bytes} (hP : prefixEnd P = some eP) (he : prefixEnd (P ++ F) = some e)
    (h1 : bytesLe P k = true) (h2 : bytesLt k e = true) : P <+: k := by
  have hle : bytesLt eP e = false := by
    cases hb : bytesLt eP e with
    | false => rfl
    | true =>
      exfalso
      have h3 : bytesLt (P ++ F) eP = true := lt_prefixEnd_of_prefix hP F
      have h4 : P ++ F <+: eP := (prefixEnd_range he eP).mp ⟨bytesLe_of_lt h3, hb⟩
      have h5 : P <+: eP := List.IsPrefix.trans (List.prefix_append P F) h4
      have h6 := ((prefixEnd_range hP eP).mpr h5).2
      rw [bytesLt_irrefl] at h6
      exact absurd h6 (by decide)
  have h7 : bytesLt k eP = true := by
    rcases bytesLt_trichotomy e eP with h | h | h
    · exact bytesLt_trans h2 h
    · rw [← h]; exact h2
    · rw [hle] at h; exact absurd h (by decide)
  exact (prefixEnd_range hP k).mp ⟨h1, h7⟩

end shapes

end Hub.SDK
