import Hub.Lemmas.CalendarDefs
/- Chunk 0 of the complete day-of-era table: entries [0 * 9131, (0 + 1) * 9131), evaluated by the kernel. -/
namespace Hub.Lemmas.Calendar

theorem chunk0 : allFrom entryOK (0 * 9131) 9131 = true := by decide +kernel

end Hub.Lemmas.Calendar
