import Hub.Lemmas.CalendarDefs
/- Chunk 7 of the complete day-of-era table: entries [7 * 9131, (7 + 1) * 9131), evaluated by the kernel. -/
namespace Hub.Lemmas.Calendar

theorem chunk7 : allFrom entryOK (7 * 9131) 9131 = true := by decide +kernel

end Hub.Lemmas.Calendar
