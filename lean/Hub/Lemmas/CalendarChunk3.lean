import Hub.Lemmas.CalendarDefs
/- Chunk 3 of the complete day-of-era table: entries [3 * 9131, (3 + 1) * 9131), evaluated by the kernel. -/
namespace Hub.Lemmas.Calendar

theorem chunk3 : allFrom entryOK (3 * 9131) 9131 = true := by decide +kernel

end Hub.Lemmas.Calendar
