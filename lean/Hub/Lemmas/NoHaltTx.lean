import Hub.Lemmas.NoHaltInv
import Mathlib.Tactic.SplitIfs
/-
C03 (partial) — the invariant `NH` of `Hub/Lemmas/NoHaltInv.lean` is preserved by every delivered
message (`deliver_nh`), by every governance parameter change (`gov_nh`), and holds in every genesis
state with sane parameters and non-negative balances (`genesis_nh`).

Helper lemmas carry the suffix `_tx`: the sibling files `NoHaltHooks` / `NoHaltCore` / `NoHaltEnd` live in
the same namespace and use the same `X_nh` naming scheme for the hook steps.
-/
set_option linter.unusedSimpArgs false
set_option linter.unusedVariables false
set_option linter.unnecessarySeqFocus false
set_option linter.unusedTactic false
set_option linter.unreachableTactic false

namespace Hub.Model.NoHalt
open Hub.SDK Hub.Model Hub.Model.Escrow
open Hub.Generated (Status AmountForBytes GetProportionOfCoin Gigabyte)

/-! ### transfer of `NH` along equal tables -/

/-- `NH` reads eight components of the state. -/
theorem NH.of_eqs {s s' : State} (hi : NH s) (hp : s'.params = s.params) (hb : s'.bank = s.bank)
    (hd : s'.deposits = s.deposits) (hna : s'.nodeActive = s.nodeActive) (hni : s'.nodeInactive = s.nodeInactive)
    (hsu : s'.subs = s.subs) (hse : s'.sessions = s.sessions) (hal : s'.allocs = s.allocs) : NH s' := by
  refine ⟨?_, ?_, ?_, ?_, ?_, ?_, ?_⟩
  · rw [hp]; exact hi.params
  · intro k v hg; rw [hb] at hg; exact hi.bank k v hg
  · intro a cs hg; rw [hd] at hg; exact hi.depUniq a cs hg
  · intro a n hg; rw [hna, hni] at hg; exact hi.nodes a n hg
  · intro i y hg; rw [hsu] at hg; exact hi.subs i y hg
  · intro i x hg; rw [hse] at hg; exact hi.sess i x hg
  · intro i x y hx hy hh; rw [hse] at hx; rw [hsu] at hy; rw [hal]; exact hi.sessAlloc i x y hx hy hh

/-- A step inside the wide money frame: only the bank and the escrow records have to be re-checked. -/
theorem NH.of_mframe {s s' : State} (hi : NH s) (hf : MFrame s s') (hb : BankNonneg s') (hd : DepUniq s') : NH s' := by
  unfold MFrame at hf
  have hp : s'.params = s.params := by rw [hf]
  have hna : s'.nodeActive = s.nodeActive := by rw [hf]
  have hni : s'.nodeInactive = s.nodeInactive := by rw [hf]
  have hsu : s'.subs = s.subs := by rw [hf]
  have hse : s'.sessions = s.sessions := by rw [hf]
  have hal : s'.allocs = s.allocs := by rw [hf]
  refine ⟨?_, hb, hd, ?_, ?_, ?_, ?_⟩
  · rw [hp]; exact hi.params
  · intro a n hg; rw [hna, hni] at hg; exact hi.nodes a n hg
  · intro i y hg; rw [hsu] at hg; exact hi.subs i y hg
  · intro i x hg; rw [hse] at hg; exact hi.sess i x hg
  · intro i x y hx hy hh; rw [hse] at hx; rw [hsu] at hy; rw [hal]; exact hi.sessAlloc i x y hx hy hh

theorem NH.emit {s : State} (hi : NH s) (e : Event) : NH (emit s e) :=
  hi.of_eqs rfl rfl rfl rfl rfl rfl rfl rfl

theorem NH.clearEvents {s : State} (hi : NH s) : NH { s with events := [] } :=
  hi.of_eqs rfl rfl rfl rfl rfl rfl rfl rfl

theorem DepUniq.of_eq {s s' : State} (hu : DepUniq s) (hd : s'.deposits = s.deposits) : DepUniq s' := by
  intro a cs hg; rw [hd] at hg; exact hu a cs hg

theorem BankNonneg.of_eq {s s' : State} (hb : BankNonneg s) (he : s'.bank = s.bank) : BankNonneg s' := by
  intro k v hg; rw [he] at hg; exact hb k v hg

/-! ### bank primitives -/

theorem newCoin_ok_tx {d : Denom} {a : Int} {c : Coin} (h : newCoin d a = .ok c) :
    c = ⟨d, a⟩ ∧ validDenom c.denom = true ∧ 0 ≤ c.amount := by
  unfold newCoin at h
  split at h
  · simp [gopanic] at h
  · rename_i hv
    split at h
    · simp [gopanic] at h
    · rename_i hneg
      simp only [pure, Except.pure, Except.ok.injEq] at h
      subst h
      refine ⟨rfl, by simpa using hv, ?_⟩
      show (0 : Int) ≤ a
      omega

theorem proportion_nonneg_tx {c r : Coin} {sh : Dec} (h : GetProportionOfCoin c sh = .ok r) : 0 ≤ r.amount := by
  unfold GetProportionOfCoin at h
  simp only [bind_eq_ok] at h
  obtain ⟨t1, _, t2, _, h3⟩ := h
  exact (newCoin_ok_tx h3).2.2

theorem setBalance_bankNonneg_tx {s : State} (hb : BankNonneg s) (a : Addr) (d : Denom) {v : Int} (hv : 0 ≤ v) :
    BankNonneg (setBalance s a d v) := by
  intro k w hg
  unfold setBalance at hg
  simp only [] at hg
  split_ifs at hg with h0
  · rw [Tbl.get_erase] at hg
    split_ifs at hg
    exact hb k w hg
  · rw [Tbl.get_set] at hg
    split_ifs at hg
    · simp only [Option.some.injEq] at hg; omega
    · exact hb k w hg

theorem fundCommunityPool_bankNonneg_tx {s s' : State} {f : Addr} {c : Coin} (h : fundCommunityPool s f c = .ok s')
    (hb : BankNonneg s) (h0 : 0 ≤ c.amount) : BankNonneg s' := by
  unfold fundCommunityPool at h
  split at h
  · rw [pure_eq_ok] at h; rw [← h]; exact hb
  · exact sendCoins_bankNonneg h hb h0

theorem sendCoin_bankNonneg_tx {s s' : State} {f t : Addr} {c : Coin} (h : sendCoin s f t c = .ok s')
    (hb : BankNonneg s) (h0 : 0 ≤ c.amount) : BankNonneg s' := by
  unfold sendCoin at h
  split at h
  · rw [pure_eq_ok] at h; rw [← h]; exact hb
  · exact sendCoins_bankNonneg h hb h0

theorem sendCoinFromAccountToModule_bankNonneg_tx {s s' : State} {f t : Addr} {c : Coin}
    (h : sendCoinFromAccountToModule s f t c = .ok s') (hb : BankNonneg s) (h0 : 0 ≤ c.amount) : BankNonneg s' := by
  unfold sendCoinFromAccountToModule at h
  split at h
  · rw [pure_eq_ok] at h; rw [← h]; exact hb
  · exact sendCoins_bankNonneg h hb h0

theorem mintCoins_bankNonneg_tx {s s' : State} {m : Addr} {c : Coin} (h : mintCoins s m c = .ok s')
    (hb : BankNonneg s) (h0 : 0 ≤ c.amount) : BankNonneg s' := by
  unfold mintCoins at h
  simp only [bind_eq_ok, pure_eq_ok] at h
  obtain ⟨nb, hnb, ns, _, rfl⟩ := h
  have e := SInt.add_eq_ok hnb
  have h1 := balance_nonneg hb m c.denom
  have : BankNonneg (setBalance s m c.denom nb) := setBalance_bankNonneg_tx hb m c.denom (by omega)
  exact this.of_eq rfl

/-- `SendCoinsFromAccountToDeposit`: balances stay non-negative, the credited escrow record stays
duplicate-free, and the sender could afford the coin. -/
theorem depositAdd_keeps_tx {s s' : State} {f t : Addr} {c : Coin} (h : depositAdd s f t c = .ok s')
    (h0 : 0 ≤ c.amount) (hb : BankNonneg s) (hu : DepUniq s) :
    BankNonneg s' ∧ DepUniq s' ∧ c.amount ≤ balance s f c.denom := by
  unfold depositAdd at h
  simp only [bind_eq_ok, pure_eq_ok, require_eq_ok] at h
  obtain ⟨s1, hs1, _, _, rfl⟩ := h
  have b1 := sendCoins_bankNonneg hs1 hb h0
  have d1 : s1.deposits = s.deposits := sendCoins_deposits hs1
  have u1 : DepUniq s1 := hu.of_eq d1
  refine ⟨b1.of_eq rfl, ?_, ?_⟩
  · intro a cs hg
    have hg' : (s1.deposits.set t (((getDeposit s1 t).getD []).add c)).get a = some cs := hg
    rw [Tbl.get_set] at hg'
    split_ifs at hg' with hc
    · simp only [Option.some.injEq] at hg'
      rw [← hg']
      refine addAmt_denomsNodup ?_ _ _
      unfold getDeposit
      cases hg0 : s1.deposits.get t with
      | none => simp [DenomsNodup]
      | some cur => exact u1 t cur hg0
    · exact u1 a cs hg'
  · unfold sendCoins at hs1
    simp only [bind_eq_ok, pure_eq_ok, require_eq_ok] at hs1
    obtain ⟨_, hle, _⟩ := hs1
    simp only [Bool.not_eq_true', decide_eq_false_iff_not, not_lt] at hle
    exact hle

theorem addDeposit_keeps_tx {s s' : State} {a : Addr} {c : Coin} (h : addDeposit s a c = .ok s')
    (h0 : 0 ≤ c.amount) (hb : BankNonneg s) (hu : DepUniq s) :
    BankNonneg s' ∧ DepUniq s' ∧ c.amount ≤ balance s a c.denom := by
  unfold addDeposit at h
  split at h
  · rename_i hz
    rw [pure_eq_ok] at h; subst h
    exact ⟨hb, hu, by rw [hz]; exact balance_nonneg hb a c.denom⟩
  · exact depositAdd_keeps_tx h h0 hb hu

/-! ### the part of the state `NH` reads -/

structure NHV where
  params : Params
  bank : Tbl (Addr × Denom) Int
  deposits : Tbl Addr Coins
  nodeActive : Tbl Addr Node
  nodeInactive : Tbl Addr Node
  subs : Tbl Nat Sub
  sessions : Tbl Nat Session
  allocs : Tbl (Nat × Addr) Alloc

def nhv (s : State) : NHV :=
  ⟨s.params, s.bank, s.deposits, s.nodeActive, s.nodeInactive, s.subs, s.sessions, s.allocs⟩

theorem NH.of_nhv {s s' : State} (h : nhv s' = nhv s) (hi : NH s) : NH s' :=
  hi.of_eqs (congrArg NHV.params h) (congrArg NHV.bank h) (congrArg NHV.deposits h) (congrArg NHV.nodeActive h)
    (congrArg NHV.nodeInactive h) (congrArg NHV.subs h) (congrArg NHV.sessions h) (congrArg NHV.allocs h)

theorem setProvider_nhv_tx {s s' : State} {p : Provider} (h : setProvider s p = .ok s') : nhv s' = nhv s := by
  rcases setProvider_eff h with ⟨_, e⟩ | ⟨_, e⟩ <;> rw [e] <;> rfl

theorem setPlan_nhv_tx {s s' : State} {p : Plan} (h : setPlan s p = .ok s') : nhv s' = nhv s := by
  rcases setPlan_eff h with ⟨_, e⟩ | ⟨_, e⟩ <;> rw [e] <;> rfl

/-- Only the node tables changed. -/
theorem NH.of_nodes {s s' : State} (hi : NH s) (hp : s'.params = s.params) (hb : s'.bank = s.bank)
    (hd : s'.deposits = s.deposits) (hsu : s'.subs = s.subs) (hse : s'.sessions = s.sessions) (hal : s'.allocs = s.allocs)
    (hn : ∀ a n, (s'.nodeActive.get a = some n ∨ s'.nodeInactive.get a = some n) → isBlocked a = false) : NH s' := by
  refine ⟨?_, ?_, ?_, hn, ?_, ?_, ?_⟩
  · rw [hp]; exact hi.params
  · intro k v hg; rw [hb] at hg; exact hi.bank k v hg
  · intro a cs hg; rw [hd] at hg; exact hi.depUniq a cs hg
  · intro i y hg; rw [hsu] at hg; exact hi.subs i y hg
  · intro i x hg; rw [hse] at hg; exact hi.sess i x hg
  · intro i x y hx hy hh; rw [hse] at hx; rw [hsu] at hy; rw [hal]; exact hi.sessAlloc i x y hx hy hh

theorem setNode_nh_tx {s s' : State} {n : Node} (h : setNode s n = .ok s') (hi : NH s) (hb : isBlocked n.addr = false) :
    NH s' := by
  rcases setNode_eff h with ⟨_, e⟩ | ⟨_, e⟩ <;> subst e
  · refine hi.of_nodes rfl rfl rfl rfl rfl rfl ?_
    intro a m hg
    rcases hg with hg | hg
    · have hg' : (s.nodeActive.set n.addr n).get a = some m := hg
      rw [Tbl.get_set] at hg'
      split_ifs at hg' with hc
      · rw [← hc]; exact hb
      · exact hi.nodes a m (Or.inl hg')
    · exact hi.nodes a m (Or.inr hg)
  · refine hi.of_nodes rfl rfl rfl rfl rfl rfl ?_
    intro a m hg
    rcases hg with hg | hg
    · exact hi.nodes a m (Or.inl hg)
    · have hg' : (s.nodeInactive.set n.addr n).get a = some m := hg
      rw [Tbl.get_set] at hg'
      split_ifs at hg' with hc
      · rw [← hc]; exact hb
      · exact hi.nodes a m (Or.inr hg')

theorem NH.eraseNodeActive {s : State} (hi : NH s) (k : Addr) : NH { s with nodeActive := s.nodeActive.erase k } := by
  refine hi.of_nodes rfl rfl rfl rfl rfl rfl ?_
  intro a m hg
  rcases hg with hg | hg
  · have hg' : (s.nodeActive.erase k).get a = some m := hg
    rw [Tbl.get_erase] at hg'
    split_ifs at hg'
    exact hi.nodes a m (Or.inl hg')
  · exact hi.nodes a m (Or.inr hg)

theorem NH.eraseNodeInactive {s : State} (hi : NH s) (k : Addr) : NH { s with nodeInactive := s.nodeInactive.erase k } := by
  refine hi.of_nodes rfl rfl rfl rfl rfl rfl ?_
  intro a m hg
  rcases hg with hg | hg
  · exact hi.nodes a m (Or.inl hg)
  · have hg' : (s.nodeInactive.erase k).get a = some m := hg
    rw [Tbl.get_erase] at hg'
    split_ifs at hg'
    exact hi.nodes a m (Or.inr hg')

theorem NH.setNodeQ {s : State} (hi : NH s) (q : Tbl (Time × Addr) Unit) : NH { s with nodeQ := q } :=
  hi.of_eqs rfl rfl rfl rfl rfl rfl rfl rfl

/-! ### provider, node and plan handlers -/

theorem provRegister_nh_tx {s s' : State} {frm : Addr} {n i w d : Bytes} (h : provRegister s frm n i w d = .ok s')
    (hi : NH s) : NH s' := by
  unfold provRegister at h
  simp only [bind_eq_ok, pure_eq_ok, require_eq_ok] at h
  obtain ⟨_, _, s1, h1, s2, h2, rfl⟩ := h
  have n1 : NH s1 := hi.of_mframe (fundCommunityPool_mframe h1)
    (fundCommunityPool_bankNonneg_tx h1 hi.bank hi.params.provDep) (hi.depUniq.of_eq (fundCommunityPool_deposits h1))
  exact (NH.of_nhv (setProvider_nhv_tx h2) n1).emit _

theorem provUpdate_nh_tx {s s' : State} {frm : Addr} {n i w d : Bytes} {st : Status}
    (h : provUpdate s frm n i w d st = .ok s') (hi : NH s) : NH s' := by
  unfold provUpdate at h
  simp only [bind_eq_ok, pure_eq_ok, orReject_eq_ok] at h
  obtain ⟨p, _, s3, h3, rfl⟩ := h
  refine (NH.of_nhv (setProvider_nhv_tx h3) ?_).emit _
  split <;> split <;> exact hi.of_eqs rfl rfl rfl rfl rfl rfl rfl rfl

theorem nodeRegister_nh_tx {s s' : State} {frm : Addr} {gb hr : Coins} {url : Bytes}
    (h : nodeRegister s frm gb hr url = .ok s') (hs : isBlocked frm = false) (hi : NH s) : NH s' := by
  unfold nodeRegister at h
  simp only [bind_eq_ok, pure_eq_ok, require_eq_ok] at h
  obtain ⟨_, _, _, _, _, _, s1, h1, s2, h2, rfl⟩ := h
  have n1 : NH s1 := hi.of_mframe (fundCommunityPool_mframe h1)
    (fundCommunityPool_bankNonneg_tx h1 hi.bank hi.params.nodeDep) (hi.depUniq.of_eq (fundCommunityPool_deposits h1))
  exact (setNode_nh_tx h2 n1 hs).emit _

theorem getNode_unblocked_tx {s : State} {a : Addr} {n : Node} (hi : NH s) (hr : RecInv s) (h : getNode s a = some n) :
    n.addr = a ∧ isBlocked a = false := by
  have hb := hi.nodes a n (getNode_mem h)
  rcases getNode_mem h with hm | hm
  · exact ⟨(hr.nodeA a n hm).1, hb⟩
  · exact ⟨(hr.nodeI a n hm).1, hb⟩

theorem nodeUpdate_nh_tx {s s' : State} {frm : Addr} {gb hr : Option Coins} {url : Bytes}
    (h : nodeUpdate s frm gb hr url = .ok s') (hr' : RecInv s) (hi : NH s) : NH s' := by
  unfold nodeUpdate at h
  simp only [bind_eq_ok, pure_eq_ok, require_eq_ok, orReject_eq_ok] at h
  obtain ⟨_, _, _, _, n, hn, s1, h1, rfl⟩ := h
  obtain ⟨e1, hb⟩ := getNode_unblocked_tx hi hr' hn
  refine (setNode_nh_tx h1 hi ?_).emit _
  rw [(nodeUpdated_same n gb hr url).1, e1]; exact hb

theorem nodeStatus_nh_tx {s s' : State} {frm : Addr} {st : Status}
    (h : nodeStatus s frm st = .ok s') (hr' : RecInv s) (hi : NH s) : NH s' := by
  unfold nodeStatus at h
  simp only [bind_eq_ok, pure_eq_ok, orReject_eq_ok] at h
  obtain ⟨n, hn, s5, h5, rfl⟩ := h
  obtain ⟨e1, hb⟩ := getNode_unblocked_tx hi hr' hn
  refine (setNode_nh_tx h5 ?_ (by show isBlocked n.addr = false; rw [e1]; exact hb)).emit _
  have n1 : NH (if n.status = .StatusActive then { s with nodeQ := s.nodeQ.erase (n.inactiveAt, frm) } else s) := by
    split
    · exact hi.setNodeQ _
    · exact hi
  generalize (if n.status = .StatusActive then { s with nodeQ := s.nodeQ.erase (n.inactiveAt, frm) } else s) = t1 at n1 ⊢
  have n2 : NH (if n.status = .StatusActive ∧ st = .StatusInactive then { t1 with nodeActive := t1.nodeActive.erase frm } else t1) := by
    split
    · exact n1.eraseNodeActive _
    · exact n1
  generalize (if n.status = .StatusActive ∧ st = .StatusInactive then { t1 with nodeActive := t1.nodeActive.erase frm } else t1) = t2 at n2 ⊢
  have n3 : NH (if n.status = .StatusInactive ∧ st = .StatusActive then { t2 with nodeInactive := t2.nodeInactive.erase frm } else t2) := by
    split
    · exact n2.eraseNodeInactive _
    · exact n2
  generalize (if n.status = .StatusInactive ∧ st = .StatusActive then { t2 with nodeInactive := t2.nodeInactive.erase frm } else t2) = t3 at n3 ⊢
  split
  · exact n3.setNodeQ _
  · exact n3

theorem planCreate_nh_tx {s s' : State} {frm : Addr} {dur : Dur} {gb : Int} {prices : Coins}
    (h : planCreate s frm dur gb prices = .ok s') (hi : NH s) : NH s' := by
  unfold planCreate at h
  simp only [bind_eq_ok, pure_eq_ok, require_eq_ok] at h
  obtain ⟨_, _, s1, h1, rfl⟩ := h
  have n0 : NH { s with planCount := some (s.planCount.getD 0 + 1) } := hi.of_eqs rfl rfl rfl rfl rfl rfl rfl rfl
  have n1 : NH s1 := NH.of_nhv (setPlan_nhv_tx h1) n0
  exact (n1.of_eqs (s' := { s1 with planForProv := s1.planForProv.set (frm, s.planCount.getD 0 + 1) () })
    rfl rfl rfl rfl rfl rfl rfl rfl).emit _

theorem planStatus_nh_tx {s s' : State} {frm : Addr} {id : Nat} {st : Status}
    (h : planStatus s frm id st = .ok s') (hi : NH s) : NH s' := by
  unfold planStatus at h
  simp only [bind_eq_ok, pure_eq_ok, require_eq_ok, orReject_eq_ok] at h
  obtain ⟨p, hp, _, _, s3, h3, rfl⟩ := h
  refine (NH.of_nhv (setPlan_nhv_tx h3) ?_).emit _
  split <;> split <;> exact hi.of_eqs rfl rfl rfl rfl rfl rfl rfl rfl

theorem planLink_nh_tx {s s' : State} {frm : Addr} {id : Nat} {node : Addr}
    (h : planLink s frm id node = .ok s') (hi : NH s) : NH s' := by
  unfold planLink at h
  simp only [bind_eq_ok, pure_eq_ok, require_eq_ok, orReject_eq_ok] at h
  obtain ⟨p, _, _, _, _, _, rfl⟩ := h
  exact hi.of_eqs rfl rfl rfl rfl rfl rfl rfl rfl

theorem planUnlink_nh_tx {s s' : State} {frm : Addr} {id : Nat} {node : Addr}
    (h : planUnlink s frm id node = .ok s') (hi : NH s) : NH s' := by
  unfold planUnlink at h
  simp only [bind_eq_ok, pure_eq_ok, require_eq_ok, orReject_eq_ok] at h
  obtain ⟨p, _, _, _, rfl⟩ := h
  exact hi.of_eqs rfl rfl rfl rfl rfl rfl rfl rfl

/-! ### swap -/

theorem swap_nh_tx {s s' : State} {frm recv : Addr} {hash : Bytes} {amt : Int}
    (h : swap s frm hash recv amt = .ok s') (hi : NH s) : NH s' := by
  unfold swap at h
  simp only [bind_eq_ok, pure_eq_ok, require_eq_ok] at h
  obtain ⟨_, _, _, _, _, _, q, _, coin, hcoin, s1, h1, s2, h2, rfl⟩ := h
  have h0 : 0 ≤ coin.amount := (newCoin_ok_tx hcoin).2.2
  have hd1 : s1.deposits = s.deposits := by
    unfold mintCoins at h1
    simp only [bind_eq_ok, pure_eq_ok] at h1
    obtain ⟨nb, _, ns, _, rfl⟩ := h1
    rfl
  have n1 : NH s1 := hi.of_mframe (mintCoins_mframe h1) (mintCoins_bankNonneg_tx h1 hi.bank h0) (hi.depUniq.of_eq hd1)
  have n2 : NH s2 := by
    unfold sendModuleToAccount at h2
    split at h2
    · simp [reject] at h2
    · exact n1.of_mframe (sendCoins_mframe h2) (sendCoins_bankNonneg h2 n1.bank h0) (n1.depUniq.of_eq (sendCoins_deposits h2))
  exact (n2.of_eqs (s' := { s2 with swaps := s2.swaps.set hash { hash := hash, recv := recv, amt := coin } })
    rfl rfl rfl rfl rfl rfl rfl rfl).emit _

/-! ### sessions -/

/-- Writing one session record whose allocation (if its subscription needs one) exists. -/
theorem NH.setSession' {s : State} (hi : NH s) (j : Nat) (x' : Session) (hok : SessOK x')
    (hal : ∀ y, s.subs.get x'.sub = some y → isHourly y = false → s.allocs.has (x'.sub, x'.addr) = true) :
    NH { s with sessions := s.sessions.set j x' } := by
  refine ⟨hi.params, hi.bank, hi.depUniq, hi.nodes, hi.subs, ?_, ?_⟩
  · intro i x hg
    have hg' : (s.sessions.set j x').get i = some x := hg
    rw [Tbl.get_set] at hg'
    split_ifs at hg' with hc
    · simp only [Option.some.injEq] at hg'; rw [← hg']; exact hok
    · exact hi.sess i x hg'
  · intro i x y hg hy hh
    have hg' : (s.sessions.set j x').get i = some x := hg
    rw [Tbl.get_set] at hg'
    split_ifs at hg' with hc
    · simp only [Option.some.injEq] at hg'; subst hg'; exact hal y hy hh
    · exact hi.sessAlloc i x y hg' hy hh

/-- Rewriting a stored session, keeping its subscription and account. -/
theorem NH.setSession {s : State} (hi : NH s) {i : Nat} (j : Nat) {x x' : Session} (hx : s.sessions.get i = some x)
    (hsub : x'.sub = x.sub) (haddr : x'.addr = x.addr) (hok : SessOK x') :
    NH { s with sessions := s.sessions.set j x' } := by
  refine hi.setSession' j x' hok ?_
  intro y hy hh
  rw [hsub, haddr]
  rw [hsub] at hy
  exact hi.sessAlloc i x y hx hy hh

theorem sessionToPending_nh_tx {s : State} (hi : NH s) {i : Nat} {x : Session} (hx : s.sessions.get i = some x) :
    NH (sessionToPending s x) := by
  have ho := hi.sess i x hx
  have := hi.setSession x.id
    (x' := { x with inactiveAt := s.time + s.params.sessDelay, status := Status.StatusInactivePending, statusAt := s.time })
    hx rfl rfl ⟨ho.node, ho.up0, ho.up1, ho.down0, ho.down1⟩
  exact this.of_eqs rfl rfl rfl rfl rfl rfl rfl rfl

theorem sessEnd_nh_tx {s s' : State} {frm : Addr} {id : Nat} (h : sessEnd s frm id = .ok s') (hi : NH s) : NH s' := by
  unfold sessEnd at h
  simp only [bind_eq_ok, pure_eq_ok, require_eq_ok, orReject_eq_ok] at h
  obtain ⟨x, hx, _, _, _, _, rfl⟩ := h
  exact sessionToPending_nh_tx hi hx

theorem sessUpdate_nh_tx {s s' : State} {frm : Addr} {id : Nat} {up down dur : Int} {sig : SigSpec}
    (h : sessUpdate s frm id up down dur sig = .ok s') (hu0 : 0 ≤ up) (hu1 : up < ReportMax) (hd0 : 0 ≤ down)
    (hd1 : down < ReportMax) (hi : NH s) : NH s' := by
  unfold sessUpdate at h
  simp only [bind_eq_ok, pure_eq_ok, require_eq_ok, orReject_eq_ok] at h
  obtain ⟨x, hx, _, _, _, _, _, _, rfl⟩ := h
  refine NH.emit ?_ _
  have ho := hi.sess id x hx
  by_cases hst : x.status = .StatusActive
  · simp only [hst, if_true]
    have := hi.setSession x.id (x' := { x with inactiveAt := s.time + s.params.sessDelay, up := up, down := down, dur := dur })
      hx rfl rfl ⟨ho.node, hu0, hu1, hd0, hd1⟩
    refine this.of_eqs rfl rfl rfl rfl rfl rfl ?_ rfl
    show s.sessions.set x.id _ = s.sessions.set x.id _
    refine congrArg _ ?_
    rw [hst]
  · simp only [hst, if_false]
    exact hi.setSession x.id (x' := { x with inactiveAt := x.inactiveAt, up := up, down := down, dur := dur })
      hx rfl rfl ⟨ho.node, hu0, hu1, hd0, hd1⟩

theorem sessStart_nh_tx {s s' : State} {frm : TextAddr} {id : Nat} {node : Addr}
    (h : sessStart s frm id node = .ok s') (hc : CountInv s) (hi : NH s) : NH s' := by
  unfold sessStart at h
  simp only [bind_eq_ok, pure_eq_ok, require_eq_ok, orReject_eq_ok] at h
  obtain ⟨sub, hsub, _, hst, n, hn, _, _, _, hnc, _, hqc, latest, _, _, _, rfl⟩ := h
  refine NH.emit ?_ _
  have hnb : isBlocked node = false := hi.nodes node n (getNode_mem hn)
  have hid : sub.id = id := (hc.subs id sub hsub).1
  have := hi.setSession' (s.sessCount.getD 0 + 1)
    { id := s.sessCount.getD 0 + 1, sub := id, node := node, addr := frm.bytes, up := 0, down := 0, dur := 0,
      inactiveAt := s.time + s.params.sessDelay, status := .StatusActive, statusAt := s.time }
    ⟨hnb, le_refl _, (by unfold ReportMax; decide : (0 : Int) < ReportMax), le_refl _,
      (by unfold ReportMax; decide : (0 : Int) < ReportMax)⟩ ?_
  · exact this.of_eqs rfl rfl rfl rfl rfl rfl rfl rfl
  · intro y hy hh
    have hy' : s.subs.get id = some y := hy
    rw [hsub] at hy'
    simp only [Option.some.injEq] at hy'
    subst hy'
    unfold sessStartQuotaCheck at hqc
    rw [hh] at hqc
    simp only [Bool.false_eq_true, if_false] at hqc
    split at hqc
    · simp only [Bool.false_eq_true, if_false, bind_eq_ok, orReject_eq_ok, require_eq_ok] at hqc
      obtain ⟨_, _, a, ha, _⟩ := hqc
      rw [hid] at ha
      exact Tbl.has_of_get_A ha
    · simp only [Bool.false_eq_true, if_false, bind_eq_ok, orReject_eq_ok, require_eq_ok, pure_bind'] at hqc
      obtain ⟨a, ha, _⟩ := hqc
      rw [hid] at ha
      exact Tbl.has_of_get_A ha

/-! ### allocations -/

theorem NH.setAlloc {s : State} (hi : NH s) (a : Alloc) : NH (setAllocation s a) := by
  refine ⟨hi.params, hi.bank, hi.depUniq, hi.nodes, hi.subs, hi.sess, ?_⟩
  intro i x y hx hy hh
  show (s.allocs.set (a.id, a.addr) a).has (x.sub, x.addr) = true
  rw [Tbl.has_set_iff_A]
  exact Or.inr (hi.sessAlloc i x y hx hy hh)

theorem subAllocate_nh_tx {s s' : State} {frm toA : Addr} {id : Nat} {bytes : Int}
    (h : subAllocate s frm id toA bytes = .ok s') (hi : NH s) : NH s' := by
  unfold subAllocate at h
  simp only [bind_eq_ok, pure_eq_ok, require_eq_ok, orReject_eq_ok] at h
  obtain ⟨sub, _, _, _, _, _, fa, _, _, _, g, _, u, _, av, _, _, _, fg, _, _, _, _, _, rfl⟩ := h
  have n1 : NH (if (s.allocs.get (id, toA)).isNone then { s with subForAcc := s.subForAcc.set (toA, id) () } else s) := by
    split
    · exact hi.of_eqs rfl rfl rfl rfl rfl rfl rfl rfl
    · exact hi
  exact (((n1.setAlloc _).emit _).setAlloc _).emit _

/-! ### cancellation -/

theorem subscriptionInactivePendingHook_nh_tx {s s' : State} {id : Nat}
    (h : subscriptionInactivePendingHook s id = .ok s') (hi : NH s) : NH s' := by
  unfold subscriptionInactivePendingHook at h
  refine foldlM_inv NH _ ?_ _ s s' h hi
  intro s0 sid s1 h1 hp
  simp only [bind_eq_ok, pure_eq_ok, orPanic_eq_ok] at h1
  obtain ⟨x, hx, rfl⟩ := h1
  split
  · exact sessionToPending_nh_tx hp hx
  · exact hp

theorem isHourly_kind_tx {y y' : Sub} (h : y'.kind = y.kind) : isHourly y' = isHourly y := by
  unfold isHourly; rw [h]

/-- Rewriting a stored subscription under its key, keeping owner and kind. -/
theorem NH.setSub_same {s : State} (hi : NH s) {i : Nat} {y y' : Sub} (hy : s.subs.get i = some y)
    (haddr : y'.addr = y.addr) (hkind : y'.kind = y.kind) : NH { s with subs := s.subs.set i y' } := by
  refine ⟨hi.params, hi.bank, hi.depUniq, hi.nodes, ?_, hi.sess, ?_⟩
  · intro j z hg
    have hg' : (s.subs.set i y').get j = some z := hg
    rw [Tbl.get_set] at hg'
    split_ifs at hg' with hc
    · simp only [Option.some.injEq] at hg'; subst hg'
      have := hi.subs i y hy
      unfold SubOK at this ⊢
      rw [haddr, hkind]; exact this
    · exact hi.subs j z hg'
  · intro j x z hx hz hh
    have hz' : (s.subs.set i y').get x.sub = some z := hz
    rw [Tbl.get_set] at hz'
    split_ifs at hz' with hc
    · simp only [Option.some.injEq] at hz'; subst hz'
      rw [isHourly_kind_tx hkind] at hh
      exact hi.sessAlloc j x y hx (by rw [← hc]; exact hy) hh
    · exact hi.sessAlloc j x z hx hz' hh

theorem detachPayout_nhv_tx {s s' : State} {sub : Sub} {b : Bool} (h : detachPayout s sub b = .ok s') : nhv s' = nhv s := by
  unfold detachPayout at h
  split at h
  · simp only [bind_eq_ok, pure_eq_ok] at h
    obtain ⟨p, _, rfl⟩ := h
    rfl
  · rw [pure_eq_ok] at h; rw [h]

theorem subCancel_nh_tx {s s' : State} {frm : Addr} {id : Nat} (h : subCancel s frm id = .ok s')
    (hc : CountInv s) (hi : NH s) : NH s' := by
  unfold subCancel at h
  simp only [bind_eq_ok, require_eq_ok, orReject_eq_ok] at h
  obtain ⟨sub, hsub, _, hst, _, _, s1, h1, h2⟩ := h
  have hid : sub.id = id := (hc.subs id sub hsub).1
  have n0 : NH { s with subQ := s.subQ.erase (sub.inactiveAt, sub.id) } := hi.of_eqs rfl rfl rfl rfl rfl rfl rfl rfl
  have n1 : NH s1 := subscriptionInactivePendingHook_nh_tx h1 n0
  have hf := subscriptionInactivePendingHook_frame h1
  have hsub1 : s1.subs.get sub.id = some sub := by
    have : s1.subs = s.subs := by rw [hf]
    rw [this, hid]; exact hsub
  refine NH.of_nhv (detachPayout_nhv_tx h2) ?_
  have := n1.setSub_same
    (y' := { sub with inactiveAt := s1.time + s.params.subDelay, status := Status.StatusInactivePending, statusAt := s1.time })
    hsub1 rfl rfl
  exact this.of_eqs rfl rfl rfl rfl rfl rfl rfl rfl

/-! ### purchases -/

theorem nhv_insertSub_tx (s : State) (sub : Sub) : nhv (insertSub s sub) = nhv { s with subs := s.subs.set sub.id sub } := by
  unfold insertSub; cases sub.kind <;> rfl

/-- Storing a subscription no session refers to. -/
theorem NH.addSub {s : State} (hi : NH s) (sub : Sub) (hok : SubOK sub)
    (hnos : ∀ i x, s.sessions.get i = some x → x.sub ≠ sub.id) : NH { s with subs := s.subs.set sub.id sub } := by
  refine ⟨hi.params, hi.bank, hi.depUniq, hi.nodes, ?_, hi.sess, ?_⟩
  · intro j z hg
    have hg' : (s.subs.set sub.id sub).get j = some z := hg
    rw [Tbl.get_set] at hg'
    split_ifs at hg' with hc
    · simp only [Option.some.injEq] at hg'; rw [← hg']; exact hok
    · exact hi.subs j z hg'
  · intro j x z hx hz hh
    have hz' : (s.subs.set sub.id sub).get x.sub = some z := hz
    rw [Tbl.get_set_ne _ _ (Ne.symm (hnos j x hx))] at hz'
    exact hi.sessAlloc j x z hx hz' hh

theorem NH.insertSub {s : State} (hi : NH s) (sub : Sub) (hok : SubOK sub)
    (hnos : ∀ i x, s.sessions.get i = some x → x.sub ≠ sub.id) : NH (insertSub s sub) :=
  NH.of_nhv (nhv_insertSub_tx s sub) (hi.addSub sub hok hnos)

theorem planSubscribe_nh_tx {s s' : State} {frm : Addr} {id : Nat} {denom : Denom}
    (h : planSubscribe s frm id denom = .ok s') (hs : isBlocked frm = false) (hc : CountInv s) (hi : NH s) : NH s' := by
  unfold planSubscribe createSubscriptionForPlan at h
  simp only [bind_eq_ok, pure_eq_ok, require_eq_ok, requireP_eq_ok, orReject_eq_ok] at h
  obtain ⟨r, ⟨plan, hplan, _, _, price, _, reward, hrew, s1, h1, payAmt, hpa, _, hpos, s2, h2, granted, hg, rfl⟩, rfl⟩ := h
  have n1 : NH s1 := hi.of_mframe (sendCoinFromAccountToModule_mframe h1)
    (sendCoinFromAccountToModule_bankNonneg_tx h1 hi.bank (proportion_nonneg_tx hrew))
    (hi.depUniq.of_eq (sendCoinFromAccountToModule_deposits h1))
  have hp0 : (0 : Int) ≤ payAmt := by simpa using hpos
  have n2 : NH s2 := n1.of_mframe (sendCoin_mframe h2) (sendCoin_bankNonneg_tx h2 n1.bank hp0)
    (n1.depUniq.of_eq (sendCoin_deposits h2))
  have hf : MFrame s s2 := (sendCoinFromAccountToModule_mframe h1).trans (sendCoin_mframe h2)
  have e_sess : s2.sessions = s.sessions := by unfold MFrame at hf; rw [hf]
  refine NH.emit ?_ _
  refine NH.emit ?_ _
  refine NH.setAlloc ?_ _
  refine (n2.emit _).insertSub _ ?_ ?_
  · unfold SubOK; exact ⟨hs, trivial⟩
  · intro i x hx
    have hx' : s2.sessions.get i = some x := hx
    rw [e_sess] at hx'
    have := (hc.sessions i x hx').2.2.2.2
    show x.sub ≠ s.subCount.getD 0 + 1
    omega

theorem nodeSubscribe_nh_tx {s s' : State} {frm node : Addr} {gb hr : Int} {denom : Denom}
    (h : nodeSubscribe s frm node gb hr denom = .ok s') (hs : isBlocked frm = false) (hc : CountInv s) (hmg : MG s)
    (hi : NH s) : NH s' := by
  unfold nodeSubscribe createSubscriptionForNode at h
  simp only [bind_eq_ok, pure_eq_ok, require_eq_ok, orReject_eq_ok] at h
  obtain ⟨_, _, _, _, r, ⟨n, hn, _, _, hr'⟩, rfl⟩ := h
  have hnb : isBlocked node = false := hi.nodes node n (getNode_mem hn)
  refine NH.emit ?_ _
  split at hr'
  · unfold createNodeSubGB at hr'
    simp only [bind_eq_ok, pure_eq_ok, orReject_eq_ok] at hr'
    obtain ⟨price, _, bytes, _, amt, _, dep, hdep, s1, h1, granted, hg, rfl⟩ := hr'
    obtain ⟨_, hvd, h0⟩ := newCoin_ok_tx hdep
    obtain ⟨b1, u1, hle⟩ := addDeposit_keeps_tx h1 h0 hi.bank hi.depUniq
    have n1 : NH s1 := hi.of_mframe (addDeposit_mframe h1) b1 u1
    have hlt : dep.amount < B255 := lt_of_le_of_lt hle (balance_lt hmg frm dep.denom)
    have hf := addDeposit_mframe h1
    have e_sess : s1.sessions = s.sessions := by unfold MFrame at hf; rw [hf]
    refine NH.emit ?_ _
    refine NH.setAlloc ?_ _
    refine n1.insertSub _ ?_ ?_
    · unfold SubOK; exact ⟨hs, hnb, hvd, hlt⟩
    · intro i x hx
      rw [e_sess] at hx
      have := (hc.sessions i x hx).2.2.2.2
      show x.sub ≠ s.subCount.getD 0 + 1
      omega
  · unfold createNodeSubHr at hr'
    simp only [bind_eq_ok, pure_eq_ok, orReject_eq_ok] at hr'
    obtain ⟨price, _, amt, _, dep, hdep, s1, h1, pa, _, hourly, _, rfl⟩ := hr'
    obtain ⟨_, hvd, h0⟩ := newCoin_ok_tx hdep
    obtain ⟨b1, u1, hle⟩ := addDeposit_keeps_tx h1 h0 hi.bank hi.depUniq
    have n1 : NH s1 := hi.of_mframe (addDeposit_mframe h1) b1 u1
    have hlt : dep.amount < B255 := lt_of_le_of_lt hle (balance_lt hmg frm dep.denom)
    have hf := addDeposit_mframe h1
    have e_sess : s1.sessions = s.sessions := by unfold MFrame at hf; rw [hf]
    have n2 := n1.insertSub
      (Sub.mk (s.subCount.getD 0 + 1) frm (s.time + hr * hour) Status.StatusActive s.time (SubKind.node node 0 hr dep))
      (by unfold SubOK; exact ⟨hs, hnb, hvd, hlt⟩)
      (by
        intro i x hx
        rw [e_sess] at hx
        have := (hc.sessions i x hx).2.2.2.2
        show x.sub ≠ s.subCount.getD 0 + 1
        omega)
    exact n2.of_eqs rfl rfl rfl rfl rfl rfl rfl rfl

/-! ### every message -/

theorem handle_nh {s s' : State} {m : Msg} (h : m.handle s = .ok s') (hv : m.validateBasic = .ok ())
    (hs : isBlocked m.sender = false) (hc : CountInv s) (hr : RecInv s) (hmg : MG s) (hi : NH s) : NH s' := by
  cases m <;> simp only [Msg.handle] at h <;> simp only [Msg.sender] at hs
  case provRegister => exact provRegister_nh_tx h hi
  case provUpdate => exact provUpdate_nh_tx h hi
  case nodeRegister => exact nodeRegister_nh_tx h hs hi
  case nodeUpdate => exact nodeUpdate_nh_tx h hr hi
  case nodeStatus => exact nodeStatus_nh_tx h hr hi
  case nodeSubscribe => exact nodeSubscribe_nh_tx h hs hc hmg hi
  case planCreate => exact planCreate_nh_tx h hi
  case planStatus => exact planStatus_nh_tx h hi
  case planLink => exact planLink_nh_tx h hi
  case planUnlink => exact planUnlink_nh_tx h hi
  case planSubscribe => exact planSubscribe_nh_tx h hs hc hi
  case subCancel => exact subCancel_nh_tx h hc hi
  case subAllocate => exact subAllocate_nh_tx h hi
  case sessStart => exact sessStart_nh_tx h hc hi
  case sessUpdate frm id up down dur sig =>
    have hb : 0 ≤ up ∧ 0 ≤ down ∧ up < ReportMax ∧ down < ReportMax := by
      unfold Msg.validateBasic at hv
      simp only [bind_eq_ok, require_eq_ok] at hv
      obtain ⟨_, _, _, _, _, hnn, _, hb, _⟩ := hv
      simp only [Bool.and_eq_true, decide_eq_true_eq] at hnn hb
      unfold ReportMax
      omega
    exact sessUpdate_nh_tx h hb.1 hb.2.2.1 hb.2.1 hb.2.2.2 hi
  case sessEnd => exact sessEnd_nh_tx h hi
  case swap => exact swap_nh_tx h hi

/-- every delivered message (accepted or rejected) keeps NH, when the sender is not a blocked (module) address -/
theorem deliver_nh (s : State) (m : Msg) (hs : isBlocked m.sender = false) (hst : StructInv s)
    (hm : MoneyInv s.supply s) (ha : AmountsOK s) (hi : NH s) : NH (deliver s m).1 := by
  have hc0 : CountInv { s with events := [] } := hst.count.clearEvents
  have hr0 : RecInv { s with events := [] } := RecInv.of_nview (s := s) rfl hst.recs
  have hm0 : MoneyInv s.supply { s with events := [] } := MoneyInv.of_view (s := s) rfl hm
  have hi0 : NH { s with events := [] } := hi.clearEvents
  have hmg0 : MG { s with events := [] } := ⟨hm0, hi0.bank, hi0.depUniq, ha.supply⟩
  unfold deliver
  simp only []
  cases hr : (do m.validateBasic; m.handle { s with events := [] } : M State) with
  | ok s' =>
    simp only [bind_eq_ok] at hr
    obtain ⟨u, hv, hh⟩ := hr
    exact handle_nh hh hv hs hc0 hr0 hmg0 hi0
  | error e => cases e <;> exact hi0

/-! ### governance -/

theorem NH.setParams {s : State} (hi : NH s) (p : Params) (hp : ParamsOK p) (m : Modified) :
    NH { s with params := p, modified := m } :=
  ⟨hp, hi.bank, hi.depUniq, hi.nodes, hi.subs, hi.sess, hi.sessAlloc⟩

theorem gov_nh (s : State) (c : ParamChange) (hi : NH s) : NH ((gov s c).getD s) := by
  have hp := hi.params
  cases hg : gov s c with
  | none => exact hi
  | some s' =>
    simp only [Option.getD_some]
    unfold gov at hg
    cases c <;> simp only [] at hg
    case provDeposit c =>
      split at hg
      · rename_i hv
        simp only [Option.some.injEq] at hg; subst hg
        unfold validCoinParam at hv
        simp only [Bool.and_eq_true, decide_eq_true_eq] at hv
        have h0 : (0 : Int) ≤ c.amount := by have := hv.1; omega
        exact hi.setParams { s.params with provDeposit := c } ⟨h0, hp.nodeDep, hp.share0, hp.share1⟩ s.modified
      · simp only [reduceCtorEq] at hg
    case nodeDeposit c =>
      split at hg
      · rename_i hv
        simp only [Option.some.injEq] at hg; subst hg
        unfold validCoinParam at hv
        simp only [Bool.and_eq_true, decide_eq_true_eq] at hv
        have h0 : (0 : Int) ≤ c.amount := by have := hv.1; omega
        exact hi.setParams { s.params with nodeDeposit := c } ⟨hp.provDep, h0, hp.share0, hp.share1⟩ s.modified
      · simp only [reduceCtorEq] at hg
    case nodeShare d =>
      split at hg
      · rename_i hv
        simp only [Option.some.injEq] at hg; subst hg
        unfold validShare decUnit at hv
        simp only [Bool.and_eq_true, decide_eq_true_eq] at hv
        have h1 : (d : Int) ≥ 0 := hv.1
        have h2 : (d : Int) ≤ 10 ^ 18 := hv.2
        have k : (10 : Int) ^ 18 = 1000000000000000000 := by norm_num
        have h3 : (0 : Int) ≤ d := by omega
        have h4 : (d : Int) ≤ 1000000000000000000 := by rw [← k]; exact h2
        exact hi.setParams { s.params with nodeShare := d } ⟨hp.provDep, hp.nodeDep, h3, h4⟩ s.modified
      · simp only [reduceCtorEq] at hg
    all_goals
      (try split at hg) <;>
      first
        | (simp only [Option.some.injEq] at hg; subst hg
           refine ⟨?_, hi.bank, hi.depUniq, hi.nodes, hi.subs, hi.sess, hi.sessAlloc⟩
           exact ⟨hp.provDep, hp.nodeDep, hp.share0, hp.share1⟩)
        | (simp only [reduceCtorEq] at hg)

/-! ### genesis -/

theorem addBalance_bankNonneg_tx {s : State} (hb : BankNonneg s) (b : Addr × Denom × Int) (h0 : 0 ≤ b.2.2) :
    BankNonneg (addBalance s b) := by
  unfold addBalance
  split
  · exact hb
  · have h1 := balance_nonneg hb b.1 b.2.1
    have : BankNonneg (setBalance s b.1 b.2.1 (balance s b.1 b.2.1 + b.2.2)) :=
      setBalance_bankNonneg_tx hb b.1 b.2.1 (by omega)
    exact this.of_eq rfl

theorem foldl_addBalance_keeps_tx (l : List (Addr × Denom × Int)) (hl : ∀ b ∈ l, 0 ≤ b.2.2) (s : State)
    (hb : BankNonneg s) (hd : s.deposits = []) :
    BankNonneg (l.foldl addBalance s) ∧ (l.foldl addBalance s).deposits = [] := by
  induction l generalizing s with
  | nil => exact ⟨hb, hd⟩
  | cons b rest ih =>
    rw [List.foldl_cons]
    refine ih (fun b' hb' => hl b' (by simp [hb'])) (addBalance s b) (addBalance_bankNonneg_tx hb b (hl b (by simp))) ?_
    rw [deposits_addBalance]; exact hd

/-- genesis: sane parameters and non-negative balances -/
theorem genesis_nh (g : Genesis) (hp : ParamsOK g.params) (hb : ∀ b ∈ g.balances, 0 ≤ b.2.2) : NH g.state := by
  have n0 : NH g.base := by
    refine ⟨hp, ?_, ?_, ?_, ?_, ?_, ?_⟩
    · intro k v hg; simp [Genesis.base] at hg
    · intro a cs hg; simp [Genesis.base] at hg
    · intro a n hg; simp [Genesis.base] at hg
    · intro i y hg; simp [Genesis.base] at hg
    · intro i x hg; simp [Genesis.base] at hg
    · intro i x y hg; simp [Genesis.base] at hg
  obtain ⟨b1, d1⟩ := foldl_addBalance_keeps_tx g.balances hb g.base n0.bank rfl
  refine n0.of_mframe (genesis_mframe g) b1 ?_
  intro a cs hg
  have hg' : (g.balances.foldl addBalance g.base).deposits.get a = some cs := hg
  rw [d1] at hg'
  simp at hg'

end Hub.Model.NoHalt
