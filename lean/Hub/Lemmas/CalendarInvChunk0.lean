import Hub.Lemmas.CalendarInvDefs
/- Quarter 0 of the second day-of-era table: entries [0 * 9131, 4 * 9131), evaluated by the kernel. -/
namespace Hub.Lemmas.Calendar

theorem invChunk0 : allFrom invOK (0 * 9131) 9131 = true := by decide +kernel
theorem invChunk1 : allFrom invOK (1 * 9131) 9131 = true := by decide +kernel
theorem invChunk2 : allFrom invOK (2 * 9131) 9131 = true := by decide +kernel
theorem invChunk3 : allFrom invOK (3 * 9131) 9131 = true := by decide +kernel

end Hub.Lemmas.Calendar
