import Hub.Lemmas.CalendarDefs
import Hub.SDK.ProtoJson
/-
Definitions for the second finite calendar table (C19, JSON: an RFC 3339 date is read back to the day it was
written for): `invN` is Hinnant's `days_from_civil` restricted to one 400-year era, over `Nat`; `invOK k` is the
per-day fact the chunk modules `CalendarInvChunk*` evaluate with `decide +kernel` for every day of era.
-/
namespace Hub.Lemmas.Calendar
open Hub.SDK.ProtoJson (daysInMonth)

/-- Month counted from March. -/
def mpOf (m : Nat) : Nat := if m > 2 then m - 3 else m + 9

/-- Year of era counted from March, of a (year of era counted from January, month, day). -/
def yoeOf (c : Nat × Nat × Nat) : Nat := if c.2.1 ≤ 2 then c.1 - 1 else c.1

/-- Day of era of a date of the era. -/
def invN (c : Nat × Nat × Nat) : Nat :=
  yoeOf c * 365 + yoeOf c / 4 - yoeOf c / 100 + ((153 * mpOf c.2.1 + 2) / 5 + c.2.2 - 1)

/-- The fact checked for every day of era: the date computed for the day leads back to the day; the year of era
counted from March is below 400 (and the subtraction in it does not underflow); the day exists in its month. -/
def invOK (k : Nat) : Bool :=
  decide (invN (civilN k) = k) && decide (yoeOf (civilN k) < 400) &&
  decide ((civilN k).2.1 ≤ 2 → 1 ≤ (civilN k).1) && decide ((civilN k).2.2 ≤ daysInMonth (civilN k).1 (civilN k).2.1)

end Hub.Lemmas.Calendar
