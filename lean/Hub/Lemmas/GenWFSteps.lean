import Hub.Lemmas.AllInv
import Hub.Lemmas.Genesis
import Hub.Lemmas.GenWFStepsCoins
/-
`RV` ("records valid"): every stored provider / node / plan / session / deposit / inflation record and
the parameter set pass the genesis `Validate` modelled in `Hub/Model/Genesis.lean`; swap records pass
everything of `Swap.Validate` except the `amount ≥ 100` check (finding F4); deposits, swaps and the
inflation schedule are duplicate-free and keyed by their own key; the plan counter is an existing plan
identifier (or 0).  `RV` holds in the genesis state of every valid genesis (`GenesisValid`) and is
preserved by every handler, hook and governance change, as long as block times are after Go's zero
time (`TimesOK`; D4 of DESIGN.md §5) — `status_at`/`inactive_at` are validated against the zero time.

Method (as in `Hub/Lemmas/CountSteps.lean` / `Listings.lean`): `RV s` is `RVOK (rview s)`, a conjunction
of `Tbl.All P t` facts over the part of the state it reads.
-/
set_option linter.unusedSimpArgs false
set_option linter.unusedVariables false
set_option linter.unnecessarySeqFocus false
set_option linter.unusedTactic false
set_option linter.unreachableTactic false

namespace Hub.Model.GenWFSteps
open Hub.SDK Hub.Model Hub.Model.Gen
open Hub.Generated (Status AmountForBytes GetProportionOfCoin Gigabyte)

/-! ### `Validate() == nil`, spelled out -/

local macro "vsimp" : tactic => `(tactic| simp only [firstOf_eq_none, List.forall_mem_cons, List.not_mem_nil, chk_eq_none, addrOK,
    Status.IsOneOf, Status.Equal, List.any_cons, List.any_nil, Bool.or_false, Bool.and_eq_true, Bool.or_eq_true,
    decide_eq_true_eq, beq_iff_eq, ne_eq, decide_not, Bool.not_eq_true', decide_eq_false_iff_not, IsEmpty.forall_iff,
    implies_true, and_true])

/-- `omega` after unfolding the `Time`/`Dur` abbreviations. -/
local macro "tom" : tactic => `(tactic| ((try simp only [Hub.SDK.Time, Hub.SDK.Dur] at *); omega))

/-- A stored address has 1..255 bytes. -/
def AOK (a : Addr) : Prop := ¬ a.length = 0 ∧ a.length ≤ 255

theorem prov_valid_iff (p : Provider) : p.validate = none ↔
    ¬ p.addr.length = 0 ∧ AOK p.addr ∧ ¬ p.name.length = 0 ∧ p.name.length ≤ 64 ∧ p.identity.length ≤ 64 ∧
    p.website.length ≤ 64 ∧ p.desc.length ≤ 256 ∧ (p.status = .StatusActive ∨ p.status = .StatusInactive) := by
  unfold Provider.validate AOK; vsimp

theorem node_valid_iff (p : Node) : p.validate = none ↔
    ¬ p.addr.length = 0 ∧ AOK p.addr ∧ (¬ p.gb.length = 0 ∧ p.gb.isValid = true) ∧ (¬ p.hr.length = 0 ∧ p.hr.isValid = true) ∧
    ¬ p.url.length = 0 ∧ p.url.length ≤ 64 ∧ (¬ p.inactiveAt = zeroTime ∨ p.status = .StatusInactive) ∧
    (p.inactiveAt = zeroTime ∨ p.status = .StatusActive) ∧ (p.status = .StatusActive ∨ p.status = .StatusInactive) ∧
    ¬ p.statusAt = zeroTime := by
  unfold Node.validate coinsField AOK; vsimp

theorem plan_valid_iff (p : Plan) : p.validate = none ↔
    ¬ p.id = 0 ∧ ¬ p.prov.length = 0 ∧ AOK p.prov ∧ 0 ≤ p.dur ∧ ¬ p.dur = 0 ∧ 0 ≤ p.gb ∧ ¬ p.gb = 0 ∧
    (¬ p.prices.length = 0 ∧ p.prices.isValid = true) ∧ (p.status = .StatusActive ∨ p.status = .StatusInactive) ∧
    ¬ p.statusAt = zeroTime := by
  unfold Plan.validate coinsField AOK; vsimp

theorem sess_valid_iff (p : Session) : p.validate = none ↔
    ¬ p.id = 0 ∧ ¬ p.sub = 0 ∧ ¬ p.node.length = 0 ∧ AOK p.node ∧ ¬ p.addr.length = 0 ∧ AOK p.addr ∧
    (0 ≤ p.up ∧ 0 ≤ p.down) ∧ 0 ≤ p.dur ∧ ¬ p.inactiveAt = zeroTime ∧
    (p.status = .StatusActive ∨ p.status = .StatusInactivePending) ∧ ¬ p.statusAt = zeroTime := by
  unfold Session.validate AOK; vsimp

theorem dep_valid_iff (p : Addr × Coins) : validateDeposit p = none ↔
    ¬ p.1.length = 0 ∧ AOK p.1 ∧ ¬ p.2.length = 0 ∧ p.2.isValid = true := by
  unfold validateDeposit AOK; vsimp

theorem swap_valid_iff (p : Swap) : p.validate = none ↔
    ¬ p.hash.length = 0 ∧ 32 ≤ p.hash.length ∧ p.hash.length ≤ 32 ∧ ¬ p.recv.length = 0 ∧ AOK p.recv ∧
    0 ≤ p.amt.amount ∧ ¬ p.amt.amount = 0 ∧ 100 ≤ p.amt.amount ∧ validDenom p.amt.denom = true := by
  unfold Swap.validate AOK; vsimp

theorem provParams_valid_iff (p : ProviderParams) : p.validate = none ↔
    0 ≤ p.deposit.amount ∧ (p.deposit.amount ≥ 0 ∧ validDenom p.deposit.denom = true) ∧ 0 ≤ p.share ∧ p.share ≥ 0 ∧
    p.share ≤ decUnit := by
  unfold ProviderParams.validate validCoinParam validShare; vsimp

theorem nodeParams_valid_iff (p : NodeParams) : p.validate = none ↔
    0 ≤ p.deposit.amount ∧ (p.deposit.amount ≥ 0 ∧ validDenom p.deposit.denom = true) ∧ 0 < p.activeDur ∧
    p.maxGB.isValid = true ∧ p.minGB.isValid = true ∧ p.maxHr.isValid = true ∧ p.minHr.isValid = true ∧
    0 < p.maxSubGB ∧ 0 < p.minSubGB ∧ 0 < p.maxSubHr ∧ 0 < p.minSubHr ∧ 0 ≤ p.share ∧ p.share ≥ 0 ∧ p.share ≤ decUnit := by
  unfold NodeParams.validate validCoinParam validShare; vsimp

theorem subParams_valid_iff (p : SubscriptionParams) : p.validate = none ↔ 0 ≤ p.delay ∧ ¬ p.delay = 0 := by
  unfold SubscriptionParams.validate; vsimp

theorem sessParams_valid_iff (p : SessionParams) : p.validate = none ↔ 0 ≤ p.delay ∧ ¬ p.delay = 0 := by
  unfold SessionParams.validate; vsimp

theorem swapParams_valid_iff (p : SwapParams) : p.validate = none ↔
    ¬ p.denom = "" ∧ validDenom p.denom = true ∧ ¬ p.approveBy.length = 0 ∧ AOK p.approveBy := by
  unfold SwapParams.validate AOK; vsimp

/-! ### the invariant -/

/-- The part of the state `RV` reads. -/
structure RView where
  time : Time
  params : Params
  provActive : Tbl Addr Provider
  provInactive : Tbl Addr Provider
  nodeActive : Tbl Addr Node
  nodeInactive : Tbl Addr Node
  planActive : Tbl Nat Plan
  planInactive : Tbl Nat Plan
  planCount : Option Nat
  sessions : Tbl Nat Session
  deposits : Tbl Addr Coins
  swaps : Tbl Bytes Swap
  inflations : Tbl Time Inflation

def rview (s : State) : RView :=
  { time := s.time, params := s.params, provActive := s.provActive, provInactive := s.provInactive,
    nodeActive := s.nodeActive, nodeInactive := s.nodeInactive, planActive := s.planActive,
    planInactive := s.planInactive, planCount := s.planCount, sessions := s.sessions, deposits := s.deposits,
    swaps := s.swaps, inflations := s.inflations }

/-- All five parameter sets pass their `Validate`. -/
def ParamsV (p : Params) : Prop :=
  p.provider.validate = none ∧ p.node.validate = none ∧ p.subscription.validate = none ∧
  p.session.validate = none ∧ p.swap.validate = none

def ProvV (_ : Addr) (p : Provider) : Prop := p.validate = none
def NodeV (_ : Addr) (n : Node) : Prop := n.validate = none
def PlanV (i : Nat) (p : Plan) : Prop := p.id = i ∧ p.validate = none
def SessV (_ : Nat) (x : Session) : Prop := x.validate = none
def DepV (a : Addr) (cs : Coins) : Prop := validateDeposit (a, cs) = none
/-- `Swap.Validate` without the three amount checks (which follow from `100 ≤ amount`, F4), plus the key. -/
def SwapV (h : Bytes) (w : Swap) : Prop := w.hash = h ∧ w.hash.length = 32 ∧ AOK w.recv ∧ validDenom w.amt.denom = true
def InflV (t : Time) (i : Inflation) : Prop := i.ts = t ∧ i.validate = none

/-- `c` is 0 or the identifier of a stored plan. -/
def PM (pa pi : Tbl Nat Plan) (c : Nat) : Prop := c = 0 ∨ ∃ p, pa.get c = some p ∨ pi.get c = some p

structure RVOK (v : RView) : Prop where
  time : zeroTime < v.time
  params : ParamsV v.params
  provActive : Tbl.All ProvV v.provActive
  provInactive : Tbl.All ProvV v.provInactive
  nodeActive : Tbl.All NodeV v.nodeActive
  nodeInactive : Tbl.All NodeV v.nodeInactive
  planActive : Tbl.All PlanV v.planActive
  planInactive : Tbl.All PlanV v.planInactive
  sessions : Tbl.All SessV v.sessions
  deposits : Tbl.All DepV v.deposits
  swaps : Tbl.All SwapV v.swaps
  inflations : Tbl.All InflV v.inflations
  depNodup : Tbl.Nodup v.deposits
  swapNodup : Tbl.Nodup v.swaps
  inflNodup : Tbl.Nodup v.inflations
  /-- the plan counter is written and is an existing plan identifier, or 0 -/
  planMax : ∃ c, v.planCount = some c ∧ PM v.planActive v.planInactive c

/-- **The invariant**: stored records and parameters are genesis-valid. -/
def RV (s : State) : Prop := RVOK (rview s)

theorem RV.of_view {s s' : State} (h : rview s' = rview s) (hi : RV s) : RV s' := by
  unfold RV; rw [h]; exact hi

theorem emit_rv {s : State} (e : Event) (hi : RV s) : RV (emit s e) := RV.of_view (s := s) rfl hi

/-- Close every remaining field goal that is an old fact, possibly after an `erase`. -/
local macro "rv_rest " hi:ident : tactic =>
  `(tactic| all_goals first
      | exact ($hi).time | exact ($hi).params
      | exact ($hi).provActive | exact ($hi).provInactive | exact ($hi).nodeActive | exact ($hi).nodeInactive
      | exact ($hi).planActive | exact ($hi).planInactive | exact ($hi).sessions | exact ($hi).deposits
      | exact ($hi).swaps | exact ($hi).inflations | exact ($hi).depNodup | exact ($hi).swapNodup | exact ($hi).inflNodup
      | exact ($hi).planMax
      | exact ($hi).provActive.erase | exact ($hi).provInactive.erase | exact ($hi).nodeActive.erase
      | exact ($hi).nodeInactive.erase | exact ($hi).sessions.erase)

/-! ### what the invariant says about the parameters and the clock -/

theorem RV.sessDelay_pos {s : State} (hi : RV s) : 0 < s.params.sessDelay := by
  have h := hi.params.2.2.2.1
  rw [sessParams_valid_iff] at h
  have h1 : (0 : Int) ≤ (s.params.sessDelay : Int) := h.1
  have h2 : ¬ (s.params.sessDelay : Int) = (0 : Int) := h.2
  tom

theorem RV.activeDur_pos {s : State} (hi : RV s) : 0 < s.params.activeDur := by
  have h := hi.params.2.1
  rw [nodeParams_valid_iff] at h
  exact h.2.2.1

theorem RV.time_ne {s : State} (hi : RV s) : ¬ s.time = zeroTime := by
  have h : (zeroTime : Int) < (s.time : Int) := hi.time
  tom

theorem RV.time_add_ne {s : State} (hi : RV s) {d : Dur} (hd : 0 < d) : ¬ s.time + d = zeroTime := by
  have h : (zeroTime : Int) < (s.time : Int) := hi.time
  have hd' : (0 : Int) < (d : Int) := hd
  tom

theorem RV.bounds {s : State} (hi : RV s) :
    IsV s.params.maxGB ∧ IsV s.params.minGB ∧ IsV s.params.maxHr ∧ IsV s.params.minHr := by
  have h := hi.params.2.1
  rw [nodeParams_valid_iff] at h
  obtain ⟨_, _, _, h1, h2, h3, h4, _⟩ := h
  exact ⟨(isValid_iff _).mp h1, (isValid_iff _).mp h2, (isValid_iff _).mp h3, (isValid_iff _).mp h4⟩

theorem RV.getNode {s : State} (hi : RV s) {a : Addr} {n : Node} (h : getNode s a = some n) : n.validate = none := by
  rcases getNode_mem h with h | h
  · exact hi.nodeActive a n h
  · exact hi.nodeInactive a n h

theorem RV.getProvider {s : State} (hi : RV s) {a : Addr} {p : Provider} (h : getProvider s a = some p) : p.validate = none := by
  rcases getProvider_mem h with h | h
  · exact hi.provActive a p h
  · exact hi.provInactive a p h

theorem RV.getPlan {s : State} (hi : RV s) {i : Nat} {p : Plan} (h : getPlan s i = some p) : p.id = i ∧ p.validate = none := by
  rcases getPlan_mem h with h | h
  · exact hi.planActive i p h
  · exact hi.planInactive i p h

/-! ### steps that touch only bank, supply and events -/

/-- `s'` differs from `s` at most in bank, supply and events. -/
def BF (s s' : State) : Prop := s' = { s with bank := s'.bank, supply := s'.supply, events := s'.events }

theorem BF.refl (s : State) : BF s s := rfl

theorem BF.trans {a b c : State} (h1 : BF a b) (h2 : BF b c) : BF a c := by
  unfold BF at *; rw [h2, h1]

theorem rview_of_bf {s s' : State} (h : BF s s') : rview s' = rview s := by
  unfold BF at h; rw [h]; rfl

theorem RV.of_bf {s s' : State} (h : BF s s') (hi : RV s) : RV s' := RV.of_view (rview_of_bf h) hi

theorem sendCoins_bf {s s' : State} {f t : Addr} {c : Coin} (h : sendCoins s f t c = .ok s') : BF s s' := by
  have := (sendCoins_ok h).2.1
  unfold BF; rw [this]

theorem fundCommunityPool_bf {s s' : State} {f : Addr} {c : Coin} (h : fundCommunityPool s f c = .ok s') : BF s s' := by
  unfold fundCommunityPool at h
  split at h
  · rw [pure_eq_ok] at h; rw [← h]; exact BF.refl s
  · exact sendCoins_bf h

theorem sendModuleToAccount_bf {s s' : State} {m t : Addr} {c : Coin} (h : sendModuleToAccount s m t c = .ok s') : BF s s' := by
  unfold sendModuleToAccount at h
  split at h
  · simp [reject] at h
  · exact sendCoins_bf h

theorem sendCoin_bf {s s' : State} {f t : Addr} {c : Coin} (h : sendCoin s f t c = .ok s') : BF s s' := by
  unfold sendCoin at h
  split at h
  · rw [pure_eq_ok] at h; rw [← h]; exact BF.refl s
  · exact sendCoins_bf h

theorem sendCoinFromAccountToModule_bf {s s' : State} {f t : Addr} {c : Coin}
    (h : sendCoinFromAccountToModule s f t c = .ok s') : BF s s' := by
  unfold sendCoinFromAccountToModule at h
  split at h
  · rw [pure_eq_ok] at h; rw [← h]; exact BF.refl s
  · exact sendCoins_bf h

theorem mintCoins_bf {s s' : State} {m : Addr} {c : Coin} (h : mintCoins s m c = .ok s') : BF s s' := by
  unfold mintCoins at h
  simp only [bind_eq_ok, pure_eq_ok] at h
  obtain ⟨nb, _, ns, _, rfl⟩ := h
  rfl

theorem distrSweep_bf (s : State) : BF s (distrSweep s) := by
  unfold distrSweep
  exact foldl_inv (BF s) sweepDenom (fun s1 d h => h.trans (by rfl)) _ s (BF.refl s)

theorem addBalance_bf (s : State) (b : Addr × Denom × Int) : BF s (addBalance s b) := by
  unfold addBalance
  split
  · exact BF.refl s
  · rfl

theorem genesis_bf (g : Genesis) : BF g.base g.state := by
  unfold Genesis.state
  exact foldl_inv (BF g.base) addBalance (fun s1 b h => h.trans (addBalance_bf s1 b)) _ _ (BF.refl _)

/-! ### deposit records -/

theorem newCoin_facts {d : Denom} {a : Int} {c : Coin} (h : newCoin d a = .ok c) :
    c = ⟨d, a⟩ ∧ validDenom c.denom = true ∧ 0 ≤ c.amount := by
  unfold newCoin at h
  split at h
  · simp [gopanic] at h
  · rename_i hd
    split at h
    · simp [gopanic] at h
    · rename_i ha
      rw [pure_eq_ok] at h
      subst h
      refine ⟨rfl, by simpa using hd, by show 0 ≤ a; omega⟩

theorem depV_facts {a : Addr} {cs : Coins} (h : DepV a cs) : AOK a ∧ IsV cs := by
  unfold DepV at h
  rw [dep_valid_iff] at h
  exact ⟨h.2.1, (isValid_iff _).mp h.2.2.2⟩

theorem depV_mk {a : Addr} {cs : Coins} (ha : AOK a) (hv : IsV cs) (hne : cs.length ≠ 0) : DepV a cs := by
  unfold DepV
  rw [dep_valid_iff]
  exact ⟨ha.1, ha, hne, (isValid_iff _).mpr hv⟩

theorem setDeposit_rv {s : State} {a : Addr} {cs : Coins} (hi : RV s) (ha : AOK a) (hv : IsV cs) (hne : cs.length ≠ 0) :
    RV (setDeposit s a cs) := by
  constructor
  case deposits => exact hi.deposits.set (depV_mk ha hv hne)
  case depNodup => exact Tbl.nodup_set hi.depNodup _ _
  rv_rest hi

theorem putDeposit_rv {s : State} {a : Addr} {cs : Coins} (hi : RV s) (ha : AOK a) (hv : IsV cs) : RV (putDeposit s a cs) := by
  unfold putDeposit
  split
  · constructor
    case deposits => exact hi.deposits.erase
    case depNodup => exact Tbl.nodup_erase hi.depNodup _
    rv_rest hi
  · rename_i hz
    exact setDeposit_rv hi ha hv (length_ne_zero_of_not_isZero (by simpa using hz))

theorem depositAdd_rv {s s' : State} {f t : Addr} {c : Coin} (h : depositAdd s f t c = .ok s') (hi : RV s)
    (ht : AOK t) (hd : validDenom c.denom = true) (ha : 0 < c.amount) : RV s' := by
  unfold depositAdd at h
  simp only [bind_eq_ok, pure_eq_ok, require_eq_ok] at h
  obtain ⟨s1, hs1, _, _, rfl⟩ := h
  have i1 : RV s1 := RV.of_bf (sendCoins_bf hs1) hi
  have hcur : IsV ((getDeposit s1 t).getD []) := by
    unfold getDeposit
    cases hg : s1.deposits.get t with
    | none => exact isV_nil
    | some cs => exact (depV_facts (i1.deposits t cs hg)).2
  obtain ⟨h1, h2⟩ := add_isV hcur hd ha
  exact emit_rv _ (setDeposit_rv i1 ht h1 h2)

theorem depositToAccount_rv {s s' : State} {f t : Addr} {c : Coin} (h : depositToAccount s f t c = .ok s') (hi : RV s)
    (ha : 0 ≤ c.amount) : RV s' := by
  unfold depositToAccount at h
  simp only [bind_eq_ok, pure_eq_ok, require_eq_ok, orReject_eq_ok] at h
  obtain ⟨cur, hcur, _, hneg, s1, hs1, rfl⟩ := h
  obtain ⟨hf, hv⟩ := depV_facts (hi.deposits f cur hcur)
  have i1 : RV s1 := RV.of_bf (sendModuleToAccount_bf hs1) hi
  exact emit_rv _ (putDeposit_rv i1 hf (sub_isV hv ha (by simpa using hneg)))

theorem depositToModule_rv {s s' : State} {f m : Addr} {c : Coin} (h : depositToModule s f m c = .ok s') (hi : RV s)
    (ha : 0 ≤ c.amount) : RV s' := by
  unfold depositToModule at h
  simp only [bind_eq_ok, pure_eq_ok, require_eq_ok, orReject_eq_ok] at h
  obtain ⟨cur, hcur, _, hneg, s1, hs1, rfl⟩ := h
  obtain ⟨hf, hv⟩ := depV_facts (hi.deposits f cur hcur)
  have i1 : RV s1 := RV.of_bf (sendCoins_bf hs1) hi
  exact emit_rv _ (putDeposit_rv i1 hf (sub_isV hv ha (by simpa using hneg)))

theorem addDeposit_rv {s s' : State} {a : Addr} {c : Coin} (h : addDeposit s a c = .ok s') (hi : RV s)
    (ht : AOK a) (hd : validDenom c.denom = true) (ha : 0 ≤ c.amount) : RV s' := by
  unfold addDeposit at h
  split at h
  · rw [pure_eq_ok] at h; rw [← h]; exact hi
  · exact depositAdd_rv h hi ht hd (by omega)

theorem subtractDeposit_rv {s s' : State} {a : Addr} {c : Coin} (h : subtractDeposit s a c = .ok s') (hi : RV s)
    (ha : 0 ≤ c.amount) : RV s' := by
  unfold subtractDeposit at h
  split at h
  · rw [pure_eq_ok] at h; rw [← h]; exact hi
  · exact depositToAccount_rv h hi ha

theorem sendCoinFromDepositToAccount_rv {s s' : State} {f t : Addr} {c : Coin}
    (h : sendCoinFromDepositToAccount s f t c = .ok s') (hi : RV s) (ha : 0 ≤ c.amount) : RV s' := by
  unfold sendCoinFromDepositToAccount at h
  split at h
  · rw [pure_eq_ok] at h; rw [← h]; exact hi
  · exact depositToAccount_rv h hi ha

theorem sendCoinFromDepositToModule_rv {s s' : State} {f t : Addr} {c : Coin}
    (h : sendCoinFromDepositToModule s f t c = .ok s') (hi : RV s) (ha : 0 ≤ c.amount) : RV s' := by
  unfold sendCoinFromDepositToModule at h
  split at h
  · rw [pure_eq_ok] at h; rw [← h]; exact hi
  · exact depositToModule_rv h hi ha

theorem getProportion_nonneg {c r : Coin} {d : Dec} (h : GetProportionOfCoin c d = .ok r) : 0 ≤ r.amount := by
  unfold GetProportionOfCoin at h
  simp only [bind_eq_ok] at h
  obtain ⟨t1, _, t2, _, h3⟩ := h
  exact (newCoin_facts h3).2.2


/-! ### building blocks -/

/-- Both partitions change at most at key `k`, where a plan is stored afterwards. -/
theorem PM.update {pa pi pa' pi' : Tbl Nat Plan} {k c : Nat} (hA : ∀ j, k ≠ j → pa'.get j = pa.get j)
    (hI : ∀ j, k ≠ j → pi'.get j = pi.get j) (hk : ∃ v, pa'.get k = some v ∨ pi'.get k = some v)
    (h : PM pa pi c) : PM pa' pi' c := by
  rcases h with h | ⟨p, hp⟩
  · exact Or.inl h
  · right
    by_cases e : k = c
    · subst e; exact hk
    · rw [← hA c e, ← hI c e] at hp; exact ⟨p, hp⟩

theorem setNode_rv {s s' : State} {n : Node} (h : setNode s n = .ok s') (hn : n.validate = none) (hi : RV s) : RV s' := by
  rcases setNode_eff h with ⟨_, e⟩ | ⟨_, e⟩ <;> subst e
  · constructor
    case nodeActive => exact hi.nodeActive.set hn
    rv_rest hi
  · constructor
    case nodeInactive => exact hi.nodeInactive.set hn
    rv_rest hi

theorem setProvider_rv {s s' : State} {p : Provider} (h : setProvider s p = .ok s') (hp : p.validate = none) (hi : RV s) :
    RV s' := by
  rcases setProvider_eff h with ⟨_, e⟩ | ⟨_, e⟩ <;> subst e
  · constructor
    case provActive => exact hi.provActive.set hp
    rv_rest hi
  · constructor
    case provInactive => exact hi.provInactive.set hp
    rv_rest hi

theorem rview_insertSub (s : State) (sub : Sub) : rview (insertSub s sub) = rview s := by
  unfold insertSub; cases sub.kind <;> rfl

theorem sessionToPending_rv {s : State} {x : Session} (hx : x.validate = none) (hi : RV s) : RV (sessionToPending s x) := by
  have hv : SessV x.id { x with inactiveAt := s.time + s.params.sessDelay, status := .StatusInactivePending, statusAt := s.time } := by
    unfold SessV
    rw [sess_valid_iff] at hx ⊢
    obtain ⟨h1, h2, h3, h4, h5, h6, h7, h8, _, _, _⟩ := hx
    exact ⟨h1, h2, h3, h4, h5, h6, h7, h8, hi.time_add_ne hi.sessDelay_pos, Or.inr rfl, hi.time_ne⟩
  constructor
  case sessions => exact hi.sessions.set hv
  rv_rest hi

theorem subscriptionInactivePendingHook_rv {s s' : State} {id : Nat}
    (h : subscriptionInactivePendingHook s id = .ok s') (hi : RV s) : RV s' := by
  unfold subscriptionInactivePendingHook at h
  refine foldlM_inv RV _ ?_ _ s s' h hi
  intro s0 sid s1 h1 hp
  simp only [bind_eq_ok, pure_eq_ok, orPanic_eq_ok] at h1
  obtain ⟨x, hx, rfl⟩ := h1
  split
  · exact sessionToPending_rv (hp.sessions _ _ hx) hp
  · exact hp

theorem detachPayout_rview {s s' : State} {sub : Sub} {b : Bool} (h : detachPayout s sub b = .ok s') : rview s' = rview s := by
  unfold detachPayout at h
  split at h
  · simp only [bind_eq_ok, pure_eq_ok] at h
    obtain ⟨p, hp, rfl⟩ := h
    rfl
  · rw [pure_eq_ok] at h; rw [← h]

/-! ### provider, node, plan messages -/

theorem provRegister_rv {s s' : State} {frm : Addr} {n i w d : Bytes} (h : provRegister s frm n i w d = .ok s')
    (hf : AOK frm) (hn : ¬ n.length = 0 ∧ n.length ≤ 64) (hid : i.length ≤ 64) (hw : w.length ≤ 64) (hd : d.length ≤ 256)
    (hi : RV s) : RV s' := by
  unfold provRegister at h
  simp only [bind_eq_ok, pure_eq_ok, require_eq_ok] at h
  obtain ⟨_, _, s1, h1, s2, h2, rfl⟩ := h
  have i1 := RV.of_bf (fundCommunityPool_bf h1) hi
  refine emit_rv _ (setProvider_rv h2 ?_ i1)
  rw [prov_valid_iff]
  exact ⟨hf.1, hf, hn.1, hn.2, hid, hw, hd, Or.inr rfl⟩

theorem provUpdated_valid {p : Provider} {n i w d : Bytes} {st : Status} {now : Time} (hp : p.validate = none)
    (hn : n.length ≤ 64) (hid : i.length ≤ 64) (hw : w.length ≤ 64) (hd : d.length ≤ 256)
    (hst : st = .StatusUnspecified ∨ st = .StatusActive ∨ st = .StatusInactive) :
    (provUpdated p n i w d st now).validate = none := by
  rw [prov_valid_iff] at hp ⊢
  obtain ⟨h1, h2, h3, h4, _, _, _, h8⟩ := hp
  unfold provUpdated
  simp only []
  by_cases hl : n.length > 0
  · simp only [hl, if_true]
    by_cases hs : st = .StatusUnspecified
    · simp only [hs, ne_eq, not_true_eq_false, if_false]
      exact ⟨h1, h2, by omega, hn, hid, hw, hd, h8⟩
    · simp only [ne_eq, hs, not_false_eq_true, if_true]
      exact ⟨h1, h2, by omega, hn, hid, hw, hd, by tauto⟩
  · simp only [hl, if_false]
    by_cases hs : st = .StatusUnspecified
    · simp only [hs, ne_eq, not_true_eq_false, if_false]
      exact ⟨h1, h2, h3, h4, hid, hw, hd, h8⟩
    · simp only [ne_eq, hs, not_false_eq_true, if_true]
      exact ⟨h1, h2, h3, h4, hid, hw, hd, by tauto⟩

theorem provUpdate_rv {s s' : State} {frm : Addr} {n i w d : Bytes} {st : Status} (h : provUpdate s frm n i w d st = .ok s')
    (hn : n.length ≤ 64) (hid : i.length ≤ 64) (hw : w.length ≤ 64) (hd : d.length ≤ 256)
    (hst : st = .StatusUnspecified ∨ st = .StatusActive ∨ st = .StatusInactive) (hi : RV s) : RV s' := by
  unfold provUpdate at h
  simp only [bind_eq_ok, pure_eq_ok, orReject_eq_ok] at h
  obtain ⟨p, hp, s3, h3, rfl⟩ := h
  refine emit_rv _ (setProvider_rv h3 (provUpdated_valid (hi.getProvider hp) hn hid hw hd hst) ?_)
  split <;> split <;>
  · constructor
    rv_rest hi

theorem nodeRegister_rv {s s' : State} {frm : Addr} {gb hr : Coins} {url : Bytes} (h : nodeRegister s frm gb hr url = .ok s')
    (hf : AOK frm) (hgb : ¬ gb.length = 0 ∧ gb.isValid = true) (hhr : ¬ hr.length = 0 ∧ hr.isValid = true)
    (hurl : ¬ url.length = 0 ∧ url.length ≤ 64) (hi : RV s) : RV s' := by
  unfold nodeRegister at h
  simp only [bind_eq_ok, pure_eq_ok, require_eq_ok] at h
  obtain ⟨_, _, _, _, _, _, s1, h1, s2, h2, rfl⟩ := h
  have i1 := RV.of_bf (fundCommunityPool_bf h1) hi
  refine emit_rv _ (setNode_rv h2 ?_ i1)
  rw [node_valid_iff]
  exact ⟨hf.1, hf, hgb, hhr, hurl.1, hurl.2, Or.inr rfl, Or.inl rfl, Or.inr rfl, hi.time_ne⟩

theorem nodeUpdated_valid {n : Node} {gb hr : Option Coins} {url : Bytes} (hv : n.validate = none)
    (hgb : ∀ g, gb = some g → ¬ g.length = 0 ∧ g.isValid = true) (hhr : ∀ g, hr = some g → ¬ g.length = 0 ∧ g.isValid = true)
    (hurl : url.length = 0 ∨ url.length ≤ 64) : (nodeUpdated n gb hr url).validate = none := by
  rw [node_valid_iff] at hv ⊢
  obtain ⟨h1, h2, h3, h4, h5, h6, h7, h8, h9, h10⟩ := hv
  unfold nodeUpdated
  cases gb with
  | none =>
    cases hr with
    | none =>
      simp only []
      split
      · rename_i hu
        exact ⟨h1, h2, h3, h4, (show ¬ url.length = 0 from hu), (show url.length ≤ 64 by omega), h7, h8, h9, h10⟩
      · exact ⟨h1, h2, h3, h4, h5, h6, h7, h8, h9, h10⟩
    | some h =>
      simp only []
      split
      · rename_i hu
        exact ⟨h1, h2, h3, hhr h rfl, (show ¬ url.length = 0 from hu), (show url.length ≤ 64 by omega), h7, h8, h9, h10⟩
      · exact ⟨h1, h2, h3, hhr h rfl, h5, h6, h7, h8, h9, h10⟩
  | some g =>
    cases hr with
    | none =>
      simp only []
      split
      · rename_i hu
        exact ⟨h1, h2, hgb g rfl, h4, (show ¬ url.length = 0 from hu), (show url.length ≤ 64 by omega), h7, h8, h9, h10⟩
      · exact ⟨h1, h2, hgb g rfl, h4, h5, h6, h7, h8, h9, h10⟩
    | some h =>
      simp only []
      split
      · rename_i hu
        exact ⟨h1, h2, hgb g rfl, hhr h rfl, (show ¬ url.length = 0 from hu), (show url.length ≤ 64 by omega), h7, h8, h9, h10⟩
      · exact ⟨h1, h2, hgb g rfl, hhr h rfl, h5, h6, h7, h8, h9, h10⟩

theorem nodeUpdate_rv {s s' : State} {frm : Addr} {gb hr : Option Coins} {url : Bytes} (h : nodeUpdate s frm gb hr url = .ok s')
    (hgb : ∀ g, gb = some g → ¬ g.length = 0 ∧ g.isValid = true) (hhr : ∀ g, hr = some g → ¬ g.length = 0 ∧ g.isValid = true)
    (hurl : url.length = 0 ∨ url.length ≤ 64) (hi : RV s) : RV s' := by
  unfold nodeUpdate at h
  simp only [bind_eq_ok, pure_eq_ok, require_eq_ok, orReject_eq_ok] at h
  obtain ⟨_, _, _, _, n, hn, s1, h1, rfl⟩ := h
  exact emit_rv _ (setNode_rv h1 (nodeUpdated_valid (hi.getNode hn) hgb hhr hurl) hi)

theorem nodeStatus_rv {s s' : State} {frm : Addr} {st : Status} (h : nodeStatus s frm st = .ok s')
    (hst : st = .StatusActive ∨ st = .StatusInactive) (hi : RV s) : RV s' := by
  unfold nodeStatus at h
  simp only [bind_eq_ok, pure_eq_ok, orReject_eq_ok] at h
  obtain ⟨n, hn, s5, hs5, rfl⟩ := h
  have hv := hi.getNode hn
  refine emit_rv _ (setNode_rv hs5 ?_ ?_)
  · rw [node_valid_iff] at hv ⊢
    obtain ⟨h1, h2, h3, h4, h5, h6, _, _, _, _⟩ := hv
    rcases hst with e | e
    · subst e
      exact ⟨h1, h2, h3, h4, h5, h6, Or.inl (hi.time_add_ne hi.activeDur_pos), Or.inr rfl, Or.inl rfl, hi.time_ne⟩
    · subst e
      exact ⟨h1, h2, h3, h4, h5, h6, Or.inr rfl, Or.inl rfl, Or.inr rfl, hi.time_ne⟩
  · split <;> split <;> split <;> split <;>
    · constructor
      rv_rest hi

theorem setPlan_rv {s s' : State} {p : Plan} (h : setPlan s p = .ok s') (hp : p.validate = none) (hi : RV s) : RV s' := by
  obtain ⟨c, hc, hm⟩ := hi.planMax
  rcases setPlan_eff h with ⟨_, e⟩ | ⟨_, e⟩ <;> subst e
  · constructor
    case planActive => exact hi.planActive.set ⟨rfl, hp⟩
    case planMax =>
      refine ⟨c, hc, hm.update (k := p.id) (fun j hj => Tbl.get_set_ne _ _ hj) (fun j _ => rfl) ⟨p, Or.inl (Tbl.get_set_eq _ _ _)⟩⟩
    rv_rest hi
  · constructor
    case planInactive => exact hi.planInactive.set ⟨rfl, hp⟩
    case planMax =>
      refine ⟨c, hc, hm.update (k := p.id) (fun j _ => rfl) (fun j hj => Tbl.get_set_ne _ _ hj) ⟨p, Or.inr (Tbl.get_set_eq _ _ _)⟩⟩
    rv_rest hi

theorem planCreate_rv {s s' : State} {frm : Addr} {dur : Dur} {gb : Int} {prices : Coins}
    (h : planCreate s frm dur gb prices = .ok s') (hf : AOK frm) (hdur : 0 ≤ dur ∧ ¬ dur = 0) (hgb : 0 ≤ gb ∧ ¬ gb = 0)
    (hpr : ¬ prices.length = 0 ∧ prices.isValid = true) (hi : RV s) : RV s' := by
  obtain ⟨_, rfl⟩ := planCreate_eff h
  refine emit_rv _ ?_
  constructor
  case planInactive =>
    refine hi.planInactive.set ⟨rfl, ?_⟩
    rw [plan_valid_iff]
    exact ⟨by simp, hf.1, hf, hdur.1, hdur.2, hgb.1, hgb.2, hpr, Or.inr rfl, hi.time_ne⟩
  case planMax =>
    exact ⟨_, rfl, Or.inr ⟨_, Or.inr (Tbl.get_set_eq _ _ _)⟩⟩
  rv_rest hi

theorem planStatus_rv {s s' : State} {frm : Addr} {id : Nat} {st : Status}
    (h : planStatus s frm id st = .ok s') (hi : RV s) : RV s' := by
  unfold planStatus at h
  simp only [bind_eq_ok, pure_eq_ok, require_eq_ok, orReject_eq_ok] at h
  obtain ⟨p, hp, _, _, s3, h3, rfl⟩ := h
  obtain ⟨hid, hv⟩ := hi.getPlan hp
  subst hid
  obtain ⟨c, hc, hm⟩ := hi.planMax
  refine emit_rv _ ?_
  have hst : st = .StatusActive ∨ st = .StatusInactive := by
    rcases setPlan_eff h3 with ⟨e, _⟩ | ⟨e, _⟩
    · exact Or.inl e
    · exact Or.inr e
  have hv' : ({ p with status := st, statusAt := s.time } : Plan).validate = none := by
    rw [plan_valid_iff] at hv ⊢
    obtain ⟨h1, h2, h3', h4, h5, h6, h7, h8, _, _⟩ := hv
    exact ⟨h1, h2, h3', h4, h5, h6, h7, h8, hst, hi.time_ne⟩
  have hps : p.status = .StatusActive ∨ p.status = .StatusInactive := by
    rw [plan_valid_iff] at hv; exact hv.2.2.2.2.2.2.2.2.1
  have hV : PlanV p.id { p with status := st, statusAt := s.time } := ⟨rfl, hv'⟩
  unfold setPlan at h3
  rcases hps with e1 | e1 <;> rcases hst with e2 | e2 <;> subst e2 <;>
    simp only [e1, reduceCtorEq, and_false, and_true, and_self, ↓reduceIte, pure_eq_ok] at h3 <;> subst h3
  · constructor
    case planActive => exact hi.planActive.set hV
    case planMax =>
      exact ⟨c, hc, hm.update (k := p.id) (fun j hj => Tbl.get_set_ne _ _ hj) (fun j _ => rfl) ⟨_, Or.inl (Tbl.get_set_eq _ _ _)⟩⟩
    rv_rest hi
  · constructor
    case planActive => exact hi.planActive.erase
    case planInactive => exact hi.planInactive.set hV
    case planMax =>
      exact ⟨c, hc, hm.update (k := p.id) (fun j hj => Tbl.get_erase_ne _ hj) (fun j hj => Tbl.get_set_ne _ _ hj)
        ⟨_, Or.inr (Tbl.get_set_eq _ _ _)⟩⟩
    rv_rest hi
  · constructor
    case planInactive => exact hi.planInactive.erase
    case planActive => exact hi.planActive.set hV
    case planMax =>
      exact ⟨c, hc, hm.update (k := p.id) (fun j hj => Tbl.get_set_ne _ _ hj) (fun j hj => Tbl.get_erase_ne _ hj)
        ⟨_, Or.inl (Tbl.get_set_eq _ _ _)⟩⟩
    rv_rest hi
  · constructor
    case planInactive => exact hi.planInactive.set hV
    case planMax =>
      exact ⟨c, hc, hm.update (k := p.id) (fun j _ => rfl) (fun j hj => Tbl.get_set_ne _ _ hj) ⟨_, Or.inr (Tbl.get_set_eq _ _ _)⟩⟩
    rv_rest hi

theorem planLink_rv {s s' : State} {frm : Addr} {id : Nat} {node : Addr}
    (h : planLink s frm id node = .ok s') (hi : RV s) : RV s' := by
  unfold planLink at h
  simp only [bind_eq_ok, pure_eq_ok, require_eq_ok, orReject_eq_ok] at h
  obtain ⟨p, _, _, _, _, _, rfl⟩ := h
  exact RV.of_view (s := s) rfl hi

theorem planUnlink_rv {s s' : State} {frm : Addr} {id : Nat} {node : Addr}
    (h : planUnlink s frm id node = .ok s') (hi : RV s) : RV s' := by
  unfold planUnlink at h
  simp only [bind_eq_ok, pure_eq_ok, require_eq_ok, orReject_eq_ok] at h
  obtain ⟨p, _, _, _, rfl⟩ := h
  exact RV.of_view (s := s) rfl hi

/-! ### subscription creation -/

theorem setAllocation_rv {s : State} {a : Alloc} (hi : RV s) : RV (setAllocation s a) := RV.of_view (s := s) rfl hi

theorem insertSub_rv {s : State} {sub : Sub} (hi : RV s) : RV (insertSub s sub) := RV.of_view (rview_insertSub s sub) hi

theorem insertPayout_rv {s : State} {p : Payout} (hi : RV s) : RV (insertPayout s p) := RV.of_view (s := s) rfl hi

theorem subToPending_rv {s : State} {sub : Sub} {d : Dur} (hi : RV s) : RV (subToPending s sub d).1 :=
  RV.of_view (s := s) rfl hi

theorem createNodeSubGB_rv {s : State} {acc node : Addr} {n : Node} {gb : Int} {denom : Denom} {r : State × Sub}
    (h : createNodeSubGB s acc node n gb denom = .ok r) (ha : AOK acc) (hi : RV s) : RV r.1 := by
  unfold createNodeSubGB at h
  simp only [bind_eq_ok, pure_eq_ok, orReject_eq_ok] at h
  obtain ⟨price, _, bytes, _, amt, _, dep, hdep, s1, h1, granted, _, rfl⟩ := h
  obtain ⟨_, hd, h0⟩ := newCoin_facts hdep
  have i1 := addDeposit_rv h1 hi ha hd h0
  exact emit_rv _ (setAllocation_rv (insertSub_rv i1))

theorem createNodeSubHr_rv {s : State} {acc node : Addr} {n : Node} {hr : Int} {denom : Denom} {r : State × Sub}
    (h : createNodeSubHr s acc node n hr denom = .ok r) (ha : AOK acc) (hi : RV s) : RV r.1 := by
  unfold createNodeSubHr at h
  simp only [bind_eq_ok, pure_eq_ok, orReject_eq_ok] at h
  obtain ⟨price, _, amt, _, dep, hdep, s1, h1, pa, _, hourly, _, rfl⟩ := h
  obtain ⟨_, hd, h0⟩ := newCoin_facts hdep
  have i1 := addDeposit_rv h1 hi ha hd h0
  exact insertPayout_rv (insertSub_rv i1)

theorem nodeSubscribe_rv {s s' : State} {frm node : Addr} {gb hr : Int} {denom : Denom}
    (h : nodeSubscribe s frm node gb hr denom = .ok s') (ha : AOK frm) (hi : RV s) : RV s' := by
  unfold nodeSubscribe createSubscriptionForNode at h
  simp only [bind_eq_ok, pure_eq_ok, require_eq_ok, orReject_eq_ok] at h
  obtain ⟨_, _, _, _, r, ⟨n, hn, _, _, hr'⟩, rfl⟩ := h
  refine emit_rv _ ?_
  split at hr'
  · exact createNodeSubGB_rv hr' ha hi
  · exact createNodeSubHr_rv hr' ha hi

theorem planSubscribe_rv {s s' : State} {frm : Addr} {id : Nat} {denom : Denom}
    (h : planSubscribe s frm id denom = .ok s') (hi : RV s) : RV s' := by
  unfold planSubscribe createSubscriptionForPlan at h
  simp only [bind_eq_ok, pure_eq_ok, require_eq_ok, requireP_eq_ok, orReject_eq_ok] at h
  obtain ⟨r, ⟨plan, hplan, _, _, price, _, reward, _, s1, h1, payAmt, _, _, _, s2, h2, granted, _, rfl⟩, rfl⟩ := h
  have i2 := RV.of_bf ((sendCoinFromAccountToModule_bf h1).trans (sendCoin_bf h2)) hi
  exact emit_rv _ (emit_rv _ (setAllocation_rv (insertSub_rv (emit_rv _ i2))))

/-! ### subscription and session messages -/

theorem subCancel_rv {s s' : State} {frm : Addr} {id : Nat} (h : subCancel s frm id = .ok s') (hi : RV s) : RV s' := by
  unfold subCancel at h
  simp only [bind_eq_ok, require_eq_ok, orReject_eq_ok] at h
  obtain ⟨sub, hsub, _, _, _, _, s1, h1, h2⟩ := h
  have i0 : RV { s with subQ := s.subQ.erase (sub.inactiveAt, sub.id) } := RV.of_view (s := s) rfl hi
  have i1 := subscriptionInactivePendingHook_rv h1 i0
  exact RV.of_view (detachPayout_rview h2) (subToPending_rv i1)

theorem subAllocate_rv {s s' : State} {frm toA : Addr} {id : Nat} {bytes : Int}
    (h : subAllocate s frm id toA bytes = .ok s') (hi : RV s) : RV s' := by
  unfold subAllocate at h
  simp only [bind_eq_ok, pure_eq_ok, require_eq_ok, orReject_eq_ok] at h
  obtain ⟨sub, hsub, _, _, _, _, fa, hfa, _, _, g, _, u, _, av, _, _, _, fg, _, _, _, _, _, rfl⟩ := h
  have i1 : RV (if (s.allocs.get (id, toA)).isNone then { s with subForAcc := s.subForAcc.set (toA, id) () } else s) := by
    split
    · exact RV.of_view (s := s) rfl hi
    · exact hi
  exact emit_rv _ (setAllocation_rv (emit_rv _ (setAllocation_rv i1)))

theorem sessStart_rv {s s' : State} {frm : TextAddr} {id : Nat} {node : Addr}
    (h : sessStart s frm id node = .ok s') (hf : AOK frm.bytes) (hid : ¬ id = 0) (hnode : AOK node) (hi : RV s) : RV s' := by
  unfold sessStart at h
  simp only [bind_eq_ok, pure_eq_ok, require_eq_ok, orReject_eq_ok] at h
  obtain ⟨sub, hsub, _, _, n, hn, _, _, _, _, _, _, latest, _, _, _, rfl⟩ := h
  refine emit_rv _ ?_
  constructor
  case sessions =>
    refine hi.sessions.set ?_
    unfold SessV
    rw [sess_valid_iff]
    exact ⟨by simp, hid, hnode.1, hnode, hf.1, hf, ⟨Int.le_refl _, Int.le_refl _⟩, Int.le_refl _,
      hi.time_add_ne hi.sessDelay_pos, Or.inl rfl, hi.time_ne⟩
  rv_rest hi

theorem sessUpdate_rv {s s' : State} {frm : Addr} {id : Nat} {up down dur : Int} {sig : SigSpec}
    (h : sessUpdate s frm id up down dur sig = .ok s') (hud : 0 ≤ up ∧ 0 ≤ down) (hdur : 0 ≤ dur) (hi : RV s) : RV s' := by
  unfold sessUpdate at h
  simp only [bind_eq_ok, pure_eq_ok, require_eq_ok, orReject_eq_ok] at h
  obtain ⟨x, hx, _, _, _, _, _, _, rfl⟩ := h
  have hv : x.validate = none := hi.sessions _ _ hx
  have hv' : SessV x.id { x with inactiveAt := (if x.status = .StatusActive then s.time + s.params.sessDelay else x.inactiveAt),
                                  up := up, down := down, dur := dur } := by
    unfold SessV
    rw [sess_valid_iff] at hv ⊢
    obtain ⟨h1, h2, h3, h4, h5, h6, _, _, h9, h10, h11⟩ := hv
    refine ⟨h1, h2, h3, h4, h5, h6, hud, hdur, ?_, h10, h11⟩
    show ¬ (if x.status = .StatusActive then s.time + s.params.sessDelay else x.inactiveAt) = zeroTime
    split
    · exact hi.time_add_ne hi.sessDelay_pos
    · exact h9
  refine emit_rv _ ?_
  by_cases hc : x.status = .StatusActive
  · simp only [hc, ↓reduceIte] at hv' ⊢
    constructor
    case sessions => exact hi.sessions.set hv'
    rv_rest hi
  · simp only [hc, ↓reduceIte] at hv' ⊢
    constructor
    case sessions => exact hi.sessions.set hv'
    rv_rest hi

theorem sessEnd_rv {s s' : State} {frm : Addr} {id : Nat} (h : sessEnd s frm id = .ok s') (hi : RV s) : RV s' := by
  unfold sessEnd at h
  simp only [bind_eq_ok, pure_eq_ok, require_eq_ok, orReject_eq_ok] at h
  obtain ⟨x, hx, _, _, _, _, rfl⟩ := h
  exact sessionToPending_rv (hi.sessions _ _ hx) hi

theorem swap_rv {s s' : State} {frm recv : Addr} {hash : Bytes} {amt : Int}
    (h : swap s frm hash recv amt = .ok s') (hh : hash.length = 32) (hr : AOK recv) (hi : RV s) : RV s' := by
  unfold swap at h
  simp only [bind_eq_ok, pure_eq_ok, require_eq_ok] at h
  obtain ⟨_, _, _, _, _, _, q, _, coin, hcoin, s1, h1, s2, h2, rfl⟩ := h
  have i2 : RV s2 := RV.of_bf ((mintCoins_bf h1).trans (sendModuleToAccount_bf h2)) hi
  refine emit_rv _ ?_
  constructor
  case swaps => exact i2.swaps.set ⟨rfl, hh, hr, (newCoin_facts hcoin).2.1⟩
  case swapNodup => exact Tbl.nodup_set i2.swapNodup _ _
  rv_rest i2

/-! ### `ValidateBasic` supplies the field conditions -/

theorem needAddr_aok {want : Role} {t : TextAddr} {a : Addr} (h : needAddr want t = .ok a) : AOK t.bytes := by
  unfold needAddr at h
  simp only [bind_eq_ok, require_eq_ok, orReject_eq_ok] at h
  obtain ⟨_, _, hp⟩ := h
  unfold TextAddr.parse at hp
  split at hp
  · cases hp
  · rename_i hc
    simp only [not_or, Decidable.not_not, Bool.not_eq_true] at hc
    exact ⟨hc.2.2.1, by have := hc.2.2.2; omega⟩

theorem validCoinsField_req {name : String} {c : Option Coins} {u : Unit} (h : validCoinsField name c true = .ok u) :
    ¬ (c.getD []).length = 0 ∧ (c.getD []).isValid = true := by
  unfold validCoinsField at h
  cases c with
  | none => simp [require_eq_ok] at h
  | some cs =>
    simp only [bind_eq_ok, require_eq_ok] at h
    obtain ⟨_, h1, h2⟩ := h
    exact ⟨by simpa using h1, h2⟩

theorem validCoinsField_opt {name : String} {c : Option Coins} {u : Unit} (h : validCoinsField name c false = .ok u) :
    ∀ g, c = some g → ¬ g.length = 0 ∧ g.isValid = true := by
  intro g hg
  subst hg
  unfold validCoinsField at h
  simp only [bind_eq_ok, require_eq_ok] at h
  obtain ⟨_, h1, h2⟩ := h
  exact ⟨by simpa using h1, h2⟩

theorem validStatus_mem {i : Int} {l : List Status} {u : Unit} (h : validStatus i l = .ok u) :
    ∃ st, statusOfInt i = some st ∧ st.IsOneOf l = true := by
  unfold validStatus at h
  cases hs : statusOfInt i with
  | none => rw [hs] at h; simp [reject] at h
  | some st =>
    rw [hs] at h
    simp only [require_eq_ok] at h
    exact ⟨st, rfl, h⟩

theorem handle_rv {s s' : State} {m : Msg} (h : m.handle s = .ok s') (hv : m.validateBasic = .ok ())
    (hi : RV s) : RV s' := by
  cases m <;> simp only [Msg.handle] at h <;> unfold Msg.validateBasic at hv <;>
    simp only [bind_eq_ok, require_eq_ok] at hv
  case provRegister =>
    obtain ⟨_, ha, _, h1, _, h2, _, h3, _, h4, _, _, h6⟩ := hv
    exact provRegister_rv h (needAddr_aok ha) ⟨by simpa using h1, by simpa using h2⟩ (by simpa using h3) (by simpa using h4)
      (by simpa using h6) hi
  case provUpdate =>
    obtain ⟨_, ha, _, h2, _, h3, _, h4, _, _, _, h6, h7⟩ := hv
    obtain ⟨st, hs, hone⟩ := validStatus_mem h7
    refine provUpdate_rv h (by simpa using h2) (by simpa using h3) (by simpa using h4) (by simpa using h6) ?_ hi
    rw [hs]
    cases st <;> simp [Status.IsOneOf, Status.Equal] at hone ⊢
  case nodeRegister =>
    obtain ⟨_, ha, _, hg, _, hh, _, h1, _, h2, _⟩ := hv
    exact nodeRegister_rv h (needAddr_aok ha) (validCoinsField_req hg) (validCoinsField_req hh)
      ⟨by simpa using h1, by simpa using h2⟩ hi
  case nodeUpdate =>
    obtain ⟨_, ha, _, hg, _, hh, _, h1, _⟩ := hv
    refine nodeUpdate_rv h (validCoinsField_opt hg) (validCoinsField_opt hh) ?_ hi
    simpa using h1
  case nodeStatus =>
    obtain ⟨_, ha, h7⟩ := hv
    obtain ⟨st, hs, hone⟩ := validStatus_mem h7
    refine nodeStatus_rv h ?_ hi
    rw [hs]
    cases st <;> simp [Status.IsOneOf, Status.Equal] at hone ⊢
  case nodeSubscribe =>
    obtain ⟨_, ha, _⟩ := hv
    exact nodeSubscribe_rv h (needAddr_aok ha) hi
  case planCreate =>
    obtain ⟨_, ha, _, h1, _, h2, _, h3, _, h4, h5⟩ := hv
    exact planCreate_rv h (needAddr_aok ha) ⟨by simpa using h1, by simpa using h2⟩ ⟨by simpa using h3, by simpa using h4⟩
      (validCoinsField_req h5) hi
  case planStatus => exact planStatus_rv h hi
  case planLink => exact planLink_rv h hi
  case planUnlink => exact planUnlink_rv h hi
  case planSubscribe => exact planSubscribe_rv h hi
  case subCancel => exact subCancel_rv h hi
  case subAllocate => exact subAllocate_rv h hi
  case sessStart =>
    obtain ⟨_, ha, _, h1, _, hn, _⟩ := hv
    exact sessStart_rv h (needAddr_aok ha) (by simpa using h1) (needAddr_aok hn) hi
  case sessUpdate =>
    obtain ⟨_, ha, _, _, _, h2, _, _, _, h4, _⟩ := hv
    exact sessUpdate_rv h (by simpa using h2) (by simpa using h4) hi
  case sessEnd => exact sessEnd_rv h hi
  case swap =>
    obtain ⟨_, ha, _, hr, _, h1, _⟩ := hv
    exact swap_rv h (by simpa using h1) (needAddr_aok hr) hi

theorem deliver_rv (s : State) (m : Msg) (hi : RV s) : RV (deliver s m).1 := by
  have h0 : RV { s with events := [] } := RV.of_view (s := s) rfl hi
  unfold deliver
  simp only []
  cases hr : (do m.validateBasic; m.handle { s with events := [] } : M State) with
  | ok s' =>
    simp only [bind_eq_ok] at hr
    obtain ⟨u, hv, hh⟩ := hr
    exact handle_rv hh hv h0
  | error e => cases e <;> exact h0

/-! ### begin-block hooks -/

theorem mintGo_rv (l : List Inflation) (s : State) (hi : RV s) : RV (mintBeginBlock.go s l) := by
  induction l generalizing s with
  | nil => unfold mintBeginBlock.go; exact hi
  | cons item rest ih =>
    unfold mintBeginBlock.go
    split
    · exact hi
    · apply ih
      constructor
      case inflations => exact hi.inflations.erase
      case inflNodup => exact Tbl.nodup_erase hi.inflNodup _
      rv_rest hi

theorem payoutStep_rv {s s' : State} {k : Time × Nat} (h : payoutStep s k = .ok s') (hi : RV s) : RV s' := by
  unfold payoutStep at h
  simp only [bind_eq_ok, pure_eq_ok, requireP_eq_ok, orPanic_eq_ok] at h
  obtain ⟨item, hitem, reward, hrew, s2, h2, payAmt, _, _, hpay, s3, h3, rfl⟩ := h
  have i1 : RV { s with payQ := s.payQ.erase (item.nextAt, item.id) } := RV.of_view (s := s) rfl hi
  have i2 := sendCoinFromDepositToModule_rv h2 i1 (getProportion_nonneg hrew)
  have i3 := sendCoinFromDepositToAccount_rv h3 i2 (show 0 ≤ payAmt by simpa using hpay)
  split <;> exact RV.of_view (s := s3) rfl i3

theorem beginBlock_rv {s s' : State} {t : Time} (h : beginBlock s t = .ok s') (ht : zeroTime < t) (hi : RV s) : RV s' := by
  unfold beginBlock haltOf at h
  split at h <;> try contradiction
  rename_i s'' hs
  simp only [Except.ok.injEq] at h
  subst h
  unfold subscriptionBeginBlock at hs
  refine foldlM_inv RV _ ?_ _ _ _ hs ?_
  · intro s0 k s1 h1 hp
    rw [panicIfErr_eq_ok] at h1
    exact payoutStep_rv h1 hp
  · refine RV.of_bf (distrSweep_bf _) (mintGo_rv _ _ ?_)
    constructor
    case time => exact ht
    rv_rest hi

/-! ### end-block hooks -/

theorem clampIf_isV (viol : Int → Int → Bool) {b x : Coins} (c : Bool) (hb : IsV b) (hx : IsV x ∧ x.length ≠ 0) :
    IsV (if c = true then clampPrices viol b x else x) ∧ (if c = true then clampPrices viol b x else x).length ≠ 0 := by
  split
  · exact clampPrices_isV viol b hb x hx.1 hx.2
  · exact hx

theorem sweepNode_valid {p : Params} {m : Modified} {n : Node} (hv : n.validate = none)
    (hb : IsV p.maxGB ∧ IsV p.minGB ∧ IsV p.maxHr ∧ IsV p.minHr) : (sweepNode p m n).validate = none := by
  rw [node_valid_iff] at hv ⊢
  obtain ⟨h1, h2, h3, h4, h5, h6, h7, h8, h9, h10⟩ := hv
  have g1 := clampIf_isV (· < ·) m.minGB hb.2.1 (clampIf_isV (· > ·) m.maxGB hb.1 ⟨(isValid_iff _).mp h3.2, h3.1⟩)
  have g2 := clampIf_isV (· < ·) m.minHr hb.2.2.2 (clampIf_isV (· > ·) m.maxHr hb.2.2.1 ⟨(isValid_iff _).mp h4.2, h4.1⟩)
  exact ⟨h1, h2, ⟨g1.2, (isValid_iff _).mpr g1.1⟩, ⟨g2.2, (isValid_iff _).mpr g2.1⟩, h5, h6, h7, h8, h9, h10⟩

theorem nodeSweep_rv {s s' : State} (h : nodeSweep s = .ok s') (hi : RV s) : RV s' := by
  unfold nodeSweep at h
  split at h
  · rw [pure_eq_ok] at h; rw [← h]; exact hi
  · refine foldlM_inv RV _ ?_ _ s s' h hi
    intro s0 a s1 h1 hp
    simp only [bind_eq_ok, pure_eq_ok, orPanic_eq_ok] at h1
    obtain ⟨item, hitem, s2, h2, rfl⟩ := h1
    exact emit_rv _ (setNode_rv h2 (sweepNode_valid (hp.getNode hitem) hp.bounds) hp)

theorem nodeExpireStep_rv {s s' : State} {k : Time × Addr} (h : nodeExpireStep s k = .ok s') (hi : RV s) : RV s' := by
  unfold nodeExpireStep at h
  simp only [bind_eq_ok, pure_eq_ok, orPanic_eq_ok] at h
  obtain ⟨item, hitem, s3, h3, rfl⟩ := h
  have hv := hi.getNode hitem
  refine emit_rv _ (setNode_rv h3 ?_ ?_)
  · rw [node_valid_iff] at hv ⊢
    obtain ⟨h1, h2, h3', h4, h5, h6, _, _, _, _⟩ := hv
    exact ⟨h1, h2, h3', h4, h5, h6, Or.inr rfl, Or.inl rfl, Or.inr rfl, hi.time_ne⟩
  · constructor
    rv_rest hi

theorem settleSession_rv {s s' : State} {x : Session} {acc node : Addr} {dep : Coin} {gb b a : Int}
    (h : settleSession s x acc node dep gb b a = .ok s') (hi : RV s) : RV s' := by
  unfold settleSession at h
  simp only [bind_eq_ok, pure_eq_ok, requireP_eq_ok] at h
  obtain ⟨price, _, prev, _, cur, _, payAmt, _, payment, _, reward, hrew, s1, h1, netAmt, _, _, hnet, s2, h2, rfl⟩ := h
  have i1 := sendCoinFromDepositToModule_rv h1 hi (getProportion_nonneg hrew)
  have i2 := sendCoinFromDepositToAccount_rv h2 i1 (show 0 ≤ netAmt by simpa using hnet)
  exact emit_rv _ i2

theorem sessionInactiveHook_rv {s s' : State} {id : Nat} {acc node : Addr} {bytes : Int}
    (h : sessionInactiveHook s id acc node bytes = .ok s') (hi : RV s) : RV s' := by
  unfold sessionInactiveHook at h
  simp only [bind_eq_ok, require_eq_ok, orReject_eq_ok] at h
  obtain ⟨x, _, _, _, sub, _, h⟩ := h
  split at h
  · rw [pure_eq_ok] at h; rw [← h]; exact hi
  · simp only [bind_eq_ok, orReject_eq_ok] at h
    obtain ⟨a, ha, used, _, h⟩ := h
    have i1 : RV (emit (setAllocation s (allocAfterUse a used)) (evAllocate (allocAfterUse a used))) :=
      emit_rv _ (setAllocation_rv hi)
    split at h
    · exact settleSession_rv h i1
    · rw [pure_eq_ok] at h; rw [← h]; exact i1

theorem removeSession_rv {s : State} {item : Session} (hi : RV s) : RV (removeSession s item) := by
  refine emit_rv _ ?_
  constructor
  rv_rest hi

theorem sessionStep_rv {s s' : State} {k : Time × Nat} (h : sessionStep s k = .ok s') (hi : RV s) : RV s' := by
  unfold sessionStep at h
  simp only [bind_eq_ok, orPanic_eq_ok] at h
  obtain ⟨item, hitem, h⟩ := h
  split at h
  · rw [pure_eq_ok] at h; rw [← h]; exact sessionToPending_rv (hi.sessions _ _ hitem) hi
  · simp only [bind_eq_ok, pure_eq_ok, panicIfErr_eq_ok] at h
    obtain ⟨bytes, _, s2, h2, rfl⟩ := h
    have i1 : RV { s with sessQ := s.sessQ.erase (item.inactiveAt, item.id) } := RV.of_view (s := s) rfl hi
    exact removeSession_rv (sessionInactiveHook_rv h2 i1)

theorem refundSub_rv {s s' : State} {item : Sub} (h : refundSub s item = .ok s') (hi : RV s) : RV s' := by
  unfold refundSub at h
  split at h
  · simp only [bind_eq_ok] at h
    obtain ⟨s1, h1, h2⟩ := h
    have i1 : RV s1 := by
      split at h1
      · unfold refundGB at h1
        simp only [bind_eq_ok, pure_eq_ok, orPanic_eq_ok, panicIfErr_eq_ok] at h1
        obtain ⟨price, _, a, _, paid, _, ra, _, refund, href, s2, h2', rfl⟩ := h1
        exact emit_rv _ (subtractDeposit_rv h2' hi (newCoin_facts href).2.2)
      · rw [pure_eq_ok] at h1; rw [← h1]; exact hi
    split at h2
    · unfold refundHr at h2
      simp only [bind_eq_ok, pure_eq_ok, orPanic_eq_ok, panicIfErr_eq_ok] at h2
      obtain ⟨p, _, ra, _, refund, href, s2, h2', rfl⟩ := h2
      exact emit_rv _ (subtractDeposit_rv h2' i1 (newCoin_facts href).2.2)
    · rw [pure_eq_ok] at h2; rw [← h2]; exact i1
  · rw [pure_eq_ok] at h; rw [← h]; exact hi

theorem removeAllocs_rv (l : List Addr) (s : State) (id : Nat) (hi : RV s) : RV (removeAllocs s id l) := by
  unfold removeAllocs
  refine foldl_inv RV _ ?_ l s hi
  intro s0 a h0
  exact RV.of_view (s := s0) rfl h0

theorem removeSubRecords_rv {s : State} {item : Sub} (hi : RV s) : RV (removeSubRecords s item) := by
  unfold removeSubRecords
  cases item.kind with
  | node n g h d =>
    refine emit_rv _ ?_
    exact RV.of_view (s := s) rfl hi
  | plan pid dn =>
    refine emit_rv _ ?_
    have i1 : RV { s with subForPlan := s.subForPlan.erase (pid, item.id) } := RV.of_view (s := s) rfl hi
    have i2 := removeAllocs_rv (allocAddrsForSub { s with subForPlan := s.subForPlan.erase (pid, item.id) } item.id) _ item.id i1
    exact RV.of_view (s := removeAllocs _ _ _) rfl i2

theorem removePayout_rv {s s' : State} {item : Sub} (h : removePayout s item = .ok s') (hi : RV s) : RV s' := by
  unfold removePayout at h
  split at h
  · simp only [bind_eq_ok, pure_eq_ok, orPanic_eq_ok] at h
    obtain ⟨p, _, rfl⟩ := h
    exact RV.of_view (s := s) rfl hi
  · rw [pure_eq_ok] at h; rw [← h]; exact hi

theorem subscriptionStep_rv {s s' : State} {d : Dur} {k : Time × Nat} (h : subscriptionStep d s k = .ok s')
    (hi : RV s) : RV s' := by
  unfold subscriptionStep at h
  simp only [bind_eq_ok, orPanic_eq_ok] at h
  obtain ⟨item, hitem, h⟩ := h
  have i1 : RV { s with subQ := s.subQ.erase (item.inactiveAt, item.id) } := RV.of_view (s := s) rfl hi
  split at h
  · simp only [bind_eq_ok, panicIfErr_eq_ok] at h
    obtain ⟨s2, h2, h3⟩ := h
    exact RV.of_view (detachPayout_rview h3) (subToPending_rv (subscriptionInactivePendingHook_rv h2 i1))
  · simp only [bind_eq_ok] at h
    obtain ⟨s2, h2, h3⟩ := h
    exact removePayout_rv h3 (removeSubRecords_rv (refundSub_rv h2 i1))

theorem endBlock_rv {s s' : State} (h : endBlock s = .ok s') (hi : RV s) : RV s' := by
  unfold endBlock haltOf at h
  split at h <;> try contradiction
  rename_i s2 hs
  split at hs <;> try contradiction
  rename_i s3 hs3
  simp only [Except.ok.injEq] at hs h
  subst hs; subst h
  unfold vpnEndBlock nodeEndBlock nodeExpire sessionEndBlock subscriptionEndBlock at hs3
  simp only [bind_eq_ok] at hs3
  obtain ⟨s1, ⟨sa, ha, hb⟩, sb, hc, hd⟩ := hs3
  have i0 : RV sa := nodeSweep_rv ha (RV.of_view (s := s) rfl hi)
  have i1 : RV s1 := foldlM_inv RV _ (fun s0 k s1 h1 hp => nodeExpireStep_rv h1 hp) _ _ _ hb i0
  have i2 : RV sb := foldlM_inv RV _ (fun s0 k s1 h1 hp => sessionStep_rv h1 hp) _ _ _ hc i1
  have i3 : RV s3 := foldlM_inv RV _ (fun s0 k s1 h1 hp => subscriptionStep_rv h1 hp) _ _ _ hd i2
  exact RV.of_view (s := s3) rfl i3

/-! ### governance -/

theorem validCoinParam_facts {c : Coin} (h : validCoinParam c = true) : c.amount ≥ 0 ∧ validDenom c.denom = true := by
  unfold validCoinParam at h
  simpa using h

theorem validShare_facts {d : Dec} (h : validShare d = true) : d ≥ 0 ∧ d ≤ decUnit := by
  unfold validShare at h
  simpa using h

theorem validPriceParam_facts {c : Option Coins} (h : validPriceParam c = true) : (c.getD []).isValid = true := by
  cases c with
  | none => rfl
  | some cs => exact h

theorem gov_rv {s s' : State} {c : ParamChange} (hg : gov s c = some s') (hi : RV s) : RV s' := by
  obtain ⟨hp1, hp2, hp3, hp4, hp5⟩ := hi.params
  have mk : ∀ p' : Params, ParamsV p' → ∀ m : Modified, RV { s with params := p', modified := m } := by
    intro p' hp' m
    constructor
    case params => exact hp'
    rv_rest hi
  rw [provParams_valid_iff] at hp1
  rw [nodeParams_valid_iff] at hp2
  rw [subParams_valid_iff] at hp3
  rw [sessParams_valid_iff] at hp4
  rw [swapParams_valid_iff] at hp5
  have back : ∀ p' : Params,
      (0 ≤ p'.provider.deposit.amount ∧ (p'.provider.deposit.amount ≥ 0 ∧ validDenom p'.provider.deposit.denom = true) ∧
        0 ≤ p'.provider.share ∧ p'.provider.share ≥ 0 ∧ p'.provider.share ≤ decUnit) →
      (0 ≤ p'.node.deposit.amount ∧ (p'.node.deposit.amount ≥ 0 ∧ validDenom p'.node.deposit.denom = true) ∧ 0 < p'.node.activeDur ∧
        p'.node.maxGB.isValid = true ∧ p'.node.minGB.isValid = true ∧ p'.node.maxHr.isValid = true ∧ p'.node.minHr.isValid = true ∧
        0 < p'.node.maxSubGB ∧ 0 < p'.node.minSubGB ∧ 0 < p'.node.maxSubHr ∧ 0 < p'.node.minSubHr ∧ 0 ≤ p'.node.share ∧
        p'.node.share ≥ 0 ∧ p'.node.share ≤ decUnit) →
      (0 ≤ p'.subscription.delay ∧ ¬ p'.subscription.delay = 0) →
      (0 ≤ p'.session.delay ∧ ¬ p'.session.delay = 0) →
      (¬ p'.swap.denom = "" ∧ validDenom p'.swap.denom = true ∧ ¬ p'.swap.approveBy.length = 0 ∧ AOK p'.swap.approveBy) →
      ParamsV p' := by
    intro p' a1 a2 a3 a4 a5
    exact ⟨(provParams_valid_iff _).mpr a1, (nodeParams_valid_iff _).mpr a2, (subParams_valid_iff _).mpr a3,
      (sessParams_valid_iff _).mpr a4, (swapParams_valid_iff _).mpr a5⟩
  obtain ⟨n1, n2, n3, n4, n5, n6, n7, n8, n9, n10, n11, n12, n13, n14⟩ := hp2
  unfold gov at hg
  cases c <;> simp only [] at hg
  case provDeposit c =>
    split at hg
    · rename_i hc
      simp only [Option.some.injEq] at hg; subst hg
      obtain ⟨c1, c2⟩ := validCoinParam_facts hc
      exact mk { s.params with provDeposit := c } (back { s.params with provDeposit := c } ⟨c1, ⟨c1, c2⟩, hp1.2.2⟩ ⟨n1, n2, n3, n4, n5, n6, n7, n8, n9, n10, n11, n12, n13, n14⟩ hp3 hp4 hp5) s.modified
    · cases hg
  case provShare d =>
    split at hg
    · rename_i hc
      simp only [Option.some.injEq] at hg; subst hg
      obtain ⟨c1, c2⟩ := validShare_facts hc
      exact mk { s.params with provShare := d } (back { s.params with provShare := d } ⟨hp1.1, hp1.2.1, c1, c1, c2⟩ ⟨n1, n2, n3, n4, n5, n6, n7, n8, n9, n10, n11, n12, n13, n14⟩ hp3 hp4 hp5) s.modified
    · cases hg
  case nodeDeposit c =>
    split at hg
    · rename_i hc
      simp only [Option.some.injEq] at hg; subst hg
      obtain ⟨c1, c2⟩ := validCoinParam_facts hc
      exact mk { s.params with nodeDeposit := c } (back { s.params with nodeDeposit := c } hp1 ⟨c1, ⟨c1, c2⟩, n3, n4, n5, n6, n7, n8, n9, n10, n11, n12, n13, n14⟩ hp3 hp4 hp5) s.modified
    · cases hg
  case activeDur d =>
    split at hg
    · rename_i hc
      simp only [Option.some.injEq] at hg; subst hg
      exact mk { s.params with activeDur := d } (back { s.params with activeDur := d } hp1 ⟨n1, n2, hc, n4, n5, n6, n7, n8, n9, n10, n11, n12, n13, n14⟩ hp3 hp4 hp5) s.modified
    · cases hg
  case maxGB c =>
    split at hg
    · rename_i hc
      simp only [Option.some.injEq] at hg; subst hg
      exact mk { s.params with maxGB := c.getD [] } (back { s.params with maxGB := c.getD [] } hp1 ⟨n1, n2, n3, validPriceParam_facts hc, n5, n6, n7, n8, n9, n10, n11, n12, n13, n14⟩ hp3 hp4 hp5) _
    · cases hg
  case minGB c =>
    split at hg
    · rename_i hc
      simp only [Option.some.injEq] at hg; subst hg
      exact mk { s.params with minGB := c.getD [] } (back { s.params with minGB := c.getD [] } hp1 ⟨n1, n2, n3, n4, validPriceParam_facts hc, n6, n7, n8, n9, n10, n11, n12, n13, n14⟩ hp3 hp4 hp5) _
    · cases hg
  case maxHr c =>
    split at hg
    · rename_i hc
      simp only [Option.some.injEq] at hg; subst hg
      exact mk { s.params with maxHr := c.getD [] } (back { s.params with maxHr := c.getD [] } hp1 ⟨n1, n2, n3, n4, n5, validPriceParam_facts hc, n7, n8, n9, n10, n11, n12, n13, n14⟩ hp3 hp4 hp5) _
    · cases hg
  case minHr c =>
    split at hg
    · rename_i hc
      simp only [Option.some.injEq] at hg; subst hg
      exact mk { s.params with minHr := c.getD [] } (back { s.params with minHr := c.getD [] } hp1 ⟨n1, n2, n3, n4, n5, n6, validPriceParam_facts hc, n8, n9, n10, n11, n12, n13, n14⟩ hp3 hp4 hp5) _
    · cases hg
  case maxSubGB i =>
    split at hg
    · rename_i hc
      simp only [Option.some.injEq] at hg; subst hg
      exact mk { s.params with maxSubGB := i } (back { s.params with maxSubGB := i } hp1 ⟨n1, n2, n3, n4, n5, n6, n7, hc, n9, n10, n11, n12, n13, n14⟩ hp3 hp4 hp5) s.modified
    · cases hg
  case minSubGB i =>
    split at hg
    · rename_i hc
      simp only [Option.some.injEq] at hg; subst hg
      exact mk { s.params with minSubGB := i } (back { s.params with minSubGB := i } hp1 ⟨n1, n2, n3, n4, n5, n6, n7, n8, hc, n10, n11, n12, n13, n14⟩ hp3 hp4 hp5) s.modified
    · cases hg
  case maxSubHr i =>
    split at hg
    · rename_i hc
      simp only [Option.some.injEq] at hg; subst hg
      exact mk { s.params with maxSubHr := i } (back { s.params with maxSubHr := i } hp1 ⟨n1, n2, n3, n4, n5, n6, n7, n8, n9, hc, n11, n12, n13, n14⟩ hp3 hp4 hp5) s.modified
    · cases hg
  case minSubHr i =>
    split at hg
    · rename_i hc
      simp only [Option.some.injEq] at hg; subst hg
      exact mk { s.params with minSubHr := i } (back { s.params with minSubHr := i } hp1 ⟨n1, n2, n3, n4, n5, n6, n7, n8, n9, n10, hc, n12, n13, n14⟩ hp3 hp4 hp5) s.modified
    · cases hg
  case nodeShare d =>
    split at hg
    · rename_i hc
      simp only [Option.some.injEq] at hg; subst hg
      obtain ⟨c1, c2⟩ := validShare_facts hc
      exact mk { s.params with nodeShare := d } (back { s.params with nodeShare := d } hp1 ⟨n1, n2, n3, n4, n5, n6, n7, n8, n9, n10, n11, c1, c1, c2⟩ hp3 hp4 hp5) s.modified
    · cases hg
  case subDelay d =>
    split at hg
    · rename_i hc
      simp only [Option.some.injEq] at hg; subst hg
      have c1 : (0 : Int) ≤ d ∧ ¬ d = 0 := by
        have hpos : (0 : Int) < d := hc
        exact ⟨Int.le_of_lt hpos, fun e => by rw [e] at hpos; exact Int.lt_irrefl _ hpos⟩
      exact mk { s.params with subDelay := d } (back { s.params with subDelay := d } hp1 ⟨n1, n2, n3, n4, n5, n6, n7, n8, n9, n10, n11, n12, n13, n14⟩ c1 hp4 hp5) s.modified
    · cases hg
  case sessDelay d =>
    split at hg
    · rename_i hc
      simp only [Option.some.injEq] at hg; subst hg
      have c1 : (0 : Int) ≤ d ∧ ¬ d = 0 := by
        have hpos : (0 : Int) < d := hc
        exact ⟨Int.le_of_lt hpos, fun e => by rw [e] at hpos; exact Int.lt_irrefl _ hpos⟩
      exact mk { s.params with sessDelay := d } (back { s.params with sessDelay := d } hp1 ⟨n1, n2, n3, n4, n5, n6, n7, n8, n9, n10, n11, n12, n13, n14⟩ hp3 c1 hp5) s.modified
    · cases hg
  case proof b =>
    simp only [Option.some.injEq] at hg; subst hg
    exact mk { s.params with proof := b } (back { s.params with proof := b } hp1 ⟨n1, n2, n3, n4, n5, n6, n7, n8, n9, n10, n11, n12, n13, n14⟩ hp3 hp4 hp5) s.modified
  case swapOn b =>
    simp only [Option.some.injEq] at hg; subst hg
    exact mk { s.params with swapOn := b } (back { s.params with swapOn := b } hp1 ⟨n1, n2, n3, n4, n5, n6, n7, n8, n9, n10, n11, n12, n13, n14⟩ hp3 hp4 hp5) s.modified
  case swapDenom d =>
    split at hg
    · rename_i hc
      simp only [Option.some.injEq] at hg; subst hg
      have hne : ¬ d = "" := by
        intro e; subst e; simp [validDenom] at hc
      exact mk { s.params with swapDenom := d } (back { s.params with swapDenom := d } hp1 ⟨n1, n2, n3, n4, n5, n6, n7, n8, n9, n10, n11, n12, n13, n14⟩ hp3 hp4 ⟨hne, hc, hp5.2.2⟩) s.modified
    · cases hg
  case approveBy a =>
    split at hg
    · rename_i b hb
      simp only [Option.some.injEq] at hg; subst hg
      have hb' : AOK b := by
        unfold TextAddr.parse at hb
        split at hb
        · cases hb
        · rename_i hc
          simp only [not_or, Decidable.not_not, Bool.not_eq_true] at hc
          simp only [Option.some.injEq] at hb
          subst hb
          exact ⟨hc.2.2.1, by have := hc.2.2.2; omega⟩
      exact mk { s.params with approveBy := b } (back { s.params with approveBy := b } hp1 ⟨n1, n2, n3, n4, n5, n6, n7, n8, n9, n10, n11, n12, n13, n14⟩ hp3 hp4 ⟨hp5.1, hp5.2.1, hb'.1, hb'⟩) s.modified
    · cases hg

/-! ### every step, every history -/

/-- Block times are after Go's zero time (D4: block times lie in years 2000..3000). -/
def TimesOK (ops : List Op) : Prop := ∀ t, Op.begin t ∈ ops → zeroTime < t

theorem step_rv {s s' : State} {op : Op} (h : step s op = some s') (ht : ∀ t, op = .begin t → zeroTime < t) (hi : RV s) :
    RV s' := by
  cases op with
  | tx m =>
    simp only [step, Option.some.injEq] at h
    rw [← h]; exact deliver_rv s m hi
  | begin t =>
    simp only [step] at h
    split at h
    · rename_i s1 hb
      simp only [Option.some.injEq] at h; rw [← h]; exact beginBlock_rv hb (ht t rfl) hi
    · contradiction
  | endB =>
    simp only [step] at h
    split at h
    · rename_i s1 hb
      simp only [Option.some.injEq] at h; rw [← h]; exact endBlock_rv hb hi
    · contradiction
  | gov c =>
    simp only [step, Option.some.injEq] at h
    rw [← h]
    cases hg : gov s c with
    | none => exact hi
    | some s1 => exact gov_rv hg hi

/-- A genesis of the configuration domain as far as genesis validity goes: the block time is after
Go's zero time, the five parameter sets and every scheduled inflation pass their `Validate`. (The
`Genesis` type itself does not imply any of this: `params` and `inflations` are arbitrary values.) -/
structure GenesisValid (g : Genesis) : Prop where
  time : zeroTime < g.time
  params : ParamsV g.params
  inflations : ∀ i ∈ g.inflations, i.validate = none

theorem inflations_import (l : List Inflation) (hl : ∀ i ∈ l, i.validate = none) (t0 : Tbl Time Inflation)
    (h0 : Tbl.All InflV t0) (hn : Tbl.Nodup t0) :
    Tbl.All InflV (l.foldl (fun t i => t.set i.ts i) t0) ∧ Tbl.Nodup (l.foldl (fun t i => t.set i.ts i) t0) := by
  induction l generalizing t0 with
  | nil => exact ⟨h0, hn⟩
  | cons i rest ih =>
    simp only [List.foldl_cons]
    exact ih (fun x hx => hl x (List.mem_cons_of_mem _ hx)) _ (h0.set ⟨rfl, hl i (List.mem_cons_self ..)⟩) (Tbl.nodup_set hn _ _)

theorem genesis_rv (g : Genesis) (hg : GenesisValid g) : RV g.state := by
  refine RV.of_bf (genesis_bf g) ?_
  obtain ⟨h1, h2⟩ := inflations_import g.inflations hg.inflations [] (Tbl.All.nil _) Tbl.nodup_nil
  constructor
  case time => exact hg.time
  case params => exact hg.params
  case inflations => exact h1
  case inflNodup => exact h2
  case planMax => exact ⟨0, rfl, Or.inl rfl⟩
  all_goals first | exact Tbl.All.nil _ | exact Tbl.nodup_nil

theorem rv_all_histories (ops : List Op) (s : State) (hi : RV s) (ht : TimesOK ops) : ∀ s' ∈ runTrace s ops, RV s' := by
  induction ops generalizing s with
  | nil => intro s' h; simp [runTrace] at h
  | cons op rest ih =>
    intro s' h
    simp only [runTrace] at h
    cases hst : step s op with
    | none => simp [hst] at h
    | some s1 =>
      simp only [hst, List.mem_cons] at h
      have i1 := step_rv hst (fun t e => ht t (by rw [e]; exact List.mem_cons_self ..)) hi
      rcases h with h | h
      · rw [h]; exact i1
      · exact ih s1 i1 (fun t hm => ht t (List.mem_cons_of_mem _ hm)) s' h

/-- **Every state of every history with block times after the zero time, from every valid genesis,
holds only genesis-valid records and parameters.** -/
theorem rv_of_history {g : Genesis} {ops : List Op} (hg : GenesisValid g) (ht : TimesOK ops) {s : State}
    (hs : s = g.state ∨ s ∈ runTrace g.state ops) : RV s := by
  rcases hs with h | h
  · rw [h]; exact genesis_rv g hg
  · exact rv_all_histories ops g.state (genesis_rv g hg) ht s h

end Hub.Model.GenWFSteps
