import Hub.Lemmas.AllInv
import Hub.Lemmas.Genesis
import Hub.Lemmas.GenWFStepsCoins
/-
`RV` ("records valid"): every stored provider / node / plan / session / deposit / inflation record and
the parameter set pass the genesis `Validate` modelled in `Hub/Model/Genesis.lean`; swap records pass
everything of `Swap.Validate` except the `amount ≥ 100` check (finding F4); deposits, swaps and the
inflation schedule are duplicate-free and keyed by their own key; the plan counter is an existing plan
identifier (or 0).  `RV` holds in the genesis state of every valid genesis (`GenesisValid`) and is
preserved by every handler, hook and governance change, as long as block times are after Go's zero
time (`TimesOK`; D4 of DESIGN.md §5) — `status_at`/`inactive_at` are validated against the zero time.

Method (as in `Hub/Lemmas/CountSteps.lean` / `Listings.lean`): `RV s` is `RVOK (rview s)`, a conjunction
of `Tbl.All P t` facts over the part of the state it reads.
-/
set_option linter.unusedSimpArgs false
set_option linter.unusedVariables false
set_option linter.unnecessarySeqFocus false
set_option linter.unusedTactic false
set_option linter.unreachableTactic false

namespace Hub.Model.GenWFSteps
open Hub.SDK Hub.Model Hub.Model.Gen
open Hub.Generated (Status AmountForBytes GetProportionOfCoin Gigabyte)

/-! ### `Validate() == nil`, spelled out -/

local macro "vsimp" : tactic => `(tactic| simp only [firstOf_eq_none, List.forall_mem_cons, List.not_mem_nil, chk_eq_none, addrOK,
    Status.IsOneOf, Status.Equal, List.any_cons, List.any_nil, Bool.or_false, Bool.and_eq_true, Bool.or_eq_true,
    decide_eq_true_eq, beq_iff_eq, ne_eq, decide_not, Bool.not_eq_true', decide_eq_false_iff_not, IsEmpty.forall_iff,
    implies_true, and_true])

/-- `omega` after unfolding the `Time`/`Dur` abbreviations. -/
local macro "tom" : tactic => `(tactic| ((try simp only [Hub.SDK.Time, Hub.SDK.Dur] at *); omega))

/-- A stored address has 1..255 bytes. -/
def AOK (a : Addr) : Prop := ¬ a.length = 0 ∧ a.length ≤ 255

theorem prov_valid_iff (p : Provider) : p.validate = none ↔
    ¬ p.addr.length = 0 ∧ AOK p.addr ∧ ¬ p.name.length = 0 ∧ p.name.length ≤ 64 ∧ p.identity.length ≤ 64 ∧
    p.website.length ≤ 64 ∧ p.desc.length ≤ 256 ∧ (p.status = .StatusActive ∨ p.status = .StatusInactive) := by
  unfold Provider.validate AOK; vsimp

theorem node_valid_iff (p : Node) : p.validate = none ↔
    ¬ p.addr.length = 0 ∧ AOK p.addr ∧ (¬ p.gb.length = 0 ∧ p.gb.isValid = true) ∧ (¬ p.hr.length = 0 ∧ p.hr.isValid = true) ∧
    ¬ p.url.length = 0 ∧ p.url.length ≤ 64 ∧ (¬ p.inactiveAt = zeroTime ∨ p.status = .StatusInactive) ∧
    (p.inactiveAt = zeroTime ∨ p.status = .StatusActive) ∧ (p.status = .StatusActive ∨ p.status = .StatusInactive) ∧
    ¬ p.statusAt = zeroTime := by
  unfold Node.validate coinsField AOK; vsimp

theorem plan_valid_iff (p : Plan) : p.validate = none ↔
    ¬ p.id = 0 ∧ ¬ p.prov.length = 0 ∧ AOK p.prov ∧ 0 ≤ p.dur ∧ ¬ p.dur = 0 ∧ 0 ≤ p.gb ∧ ¬ p.gb = 0 ∧
    (¬ p.prices.length = 0 ∧ p.prices.isValid = true) ∧ (p.status = .StatusActive ∨ p.status = .StatusInactive) ∧
    ¬ p.statusAt = zeroTime := by
  unfold Plan.validate coinsField AOK; vsimp

theorem sess_valid_iff (p : Session) : p.validate = none ↔
    ¬ p.id = 0 ∧ ¬ p.sub = 0 ∧ ¬ p.node.length = 0 ∧ AOK p.node ∧ ¬ p.addr.length = 0 ∧ AOK p.addr ∧
    (0 ≤ p.up ∧ 0 ≤ p.down) ∧ 0 ≤ p.dur ∧ ¬ p.inactiveAt = zeroTime ∧
    (p.status = .StatusActive ∨ p.status = .StatusInactivePending) ∧ ¬ p.statusAt = zeroTime := by
  unfold Session.validate AOK; vsimp

theorem dep_valid_iff (p : Addr × Coins) : validateDeposit p = none ↔
    ¬ p.1.length = 0 ∧ AOK p.1 ∧ ¬ p.2.length = 0 ∧ p.2.isValid = true := by
  unfold validateDeposit AOK; vsimp

theorem swap_valid_iff (p : Swap) : p.validate = none ↔
    ¬ p.hash.length = 0 ∧ 32 ≤ p.hash.length ∧ p.hash.length ≤ 32 ∧ ¬ p.recv.length = 0 ∧ AOK p.recv ∧
    0 ≤ p.amt.amount ∧ ¬ p.amt.amount = 0 ∧ 100 ≤ p.amt.amount ∧ validDenom p.amt.denom = true := by
  unfold Swap.validate AOK; vsimp

theorem provParams_valid_iff (p : ProviderParams) : p.validate = none ↔
    0 ≤ p.deposit.amount ∧ (p.deposit.amount ≥ 0 ∧ validDenom p.deposit.denom = true) ∧ 0 ≤ p.share ∧ p.share ≥ 0 ∧
    p.share ≤ decUnit := by
  unfold ProviderParams.validate validCoinParam validShare; vsimp

theorem nodeParams_valid_iff (p : NodeParams) : p.validate = none ↔
    0 ≤ p.deposit.amount ∧ (p.deposit.amount ≥ 0 ∧ validDenom p.deposit.denom = true) ∧ 0 < p.activeDur ∧
    p.maxGB.isValid = true ∧ p.minGB.isValid = true ∧ p.maxHr.isValid = true ∧ p.minHr.isValid = true ∧
    0 < p.maxSubGB ∧ 0 < p.minSubGB ∧ 0 < p.maxSubHr ∧ 0 < p.minSubHr ∧ 0 ≤ p.share ∧ p.share ≥ 0 ∧ p.share ≤ decUnit := by
  unfold NodeParams.validate validCoinParam validShare; vsimp

theorem subParams_valid_iff (p : SubscriptionParams) : p.validate = none ↔ 0 ≤ p.delay ∧ ¬ p.delay = 0 := by
  unfold SubscriptionParams.validate; vsimp

theorem sessParams_valid_iff (p : SessionParams) : p.validate = none ↔ 0 ≤ p.delay ∧ ¬ p.delay = 0 := by
  unfold SessionParams.validate; vsimp

theorem swapParams_valid_iff (p : SwapParams) : p.validate = none ↔
    ¬ p.denom = "" ∧ validDenom p.denom = true ∧ ¬ p.approveBy.length = 0 ∧ AOK p.approveBy := by
  unfold SwapParams.validate AOK; vsimp

/-! ### the invariant -/

/-- The part of the state `RV` reads. -/
structure RView where
  time : Time
  params : Params
  provActive : Tbl Addr Provider
  provInactive : Tbl Addr Provider
  nodeActive : Tbl Addr Node
  nodeInactive : Tbl Addr Node
  planActive : Tbl Nat Plan
  planInactive : Tbl Nat Plan
  planCount : Option Nat
  sessions : Tbl Nat Session
  deposits : Tbl Addr Coins
  swaps : Tbl Bytes Swap
  inflations : Tbl Time Inflation

def rview (s : State) : RView :=
  { time := s.time, params := s.params, provActive := s.provActive, provInactive := s.provInactive,
    nodeActive := s.nodeActive, nodeInactive := s.nodeInactive, planActive := s.planActive,
    planInactive := s.planInactive, planCount := s.planCount, sessions := s.sessions, deposits := s.deposits,
    swaps := s.swaps, inflations := s.inflations }

/-- All five parameter sets pass their `Validate`. -/
def ParamsV (p : Params) : Prop :=
  p.provider.validate = none ∧ p.node.validate = none ∧ p.subscription.validate = none ∧
  p.session.validate = none ∧ p.swap.validate = none

def ProvV (_ : Addr) (p : Provider) : Prop := p.validate = none
def NodeV (_ : Addr) (n : Node) : Prop := n.validate = none
def PlanV (i : Nat) (p : Plan) : Prop := p.id = i ∧ p.validate = none
def SessV (_ : Nat) (x : Session) : Prop := x.validate = none
def DepV (a : Addr) (cs : Coins) : Prop := validateDeposit (a, cs) = none
/-- `Swap.Validate` without the three amount checks (which follow from `100 ≤ amount`, F4), plus the key. -/
def SwapV (h : Bytes) (w : Swap) : Prop := w.hash = h ∧ w.hash.length = 32 ∧ AOK w.recv ∧ validDenom w.amt.denom = true
def InflV (t : Time) (i : Inflation) : Prop := i.ts = t ∧ i.validate = none

/-- `c` is 0 or the identifier of a stored plan. -/
def PM (pa pi : Tbl Nat Plan) (c : Nat) : Prop := c = 0 ∨ ∃ p, pa.get c = some p ∨ pi.get c = some p

structure RVOK (v : RView) : Prop where
  time : zeroTime < v.time
  params : ParamsV v.params
  provActive : Tbl.All ProvV v.provActive
  provInactive : Tbl.All ProvV v.provInactive
  nodeActive : Tbl.All NodeV v.nodeActive
  nodeInactive : Tbl.All NodeV v.nodeInactive
  planActive : Tbl.All PlanV v.planActive
  planInactive : Tbl.All PlanV v.planInactive
  sessions : Tbl.All SessV v.sessions
  deposits : Tbl.All DepV v.deposits
  swaps : Tbl.All SwapV v.swaps
  inflations : Tbl.All InflV v.inflations
  depNodup : Tbl.Nodup v.deposits
  swapNodup : Tbl.Nodup v.swaps
  inflNodup : Tbl.Nodup v.inflations
  /-- the plan counter is written and is an existing plan identifier, or 0 -/
  planMax : ∃ c, v.planCount = some c ∧ PM v.planActive v.planInactive c

/-- **The invariant**: stored records and parameters are genesis-valid. -/
def RV (s : State) : Prop := RVOK (rview s)

theorem RV.of_view {s s' : State} (h : rview s' = rview s) (hi : RV s) : RV s' := by
  unfold RV; rw [h]; exact hi

theorem emit_rv {s : State} (e : Event) (hi : RV s) : RV (emit s e) := RV.of_view (s := s) rfl hi

/-- Close every remaining field goal that is an old fact, possibly after an `erase`. -/
local macro "rv_rest " hi:ident : tactic =>
  `(tactic| all_goals first
      | exact ($hi).time | exact ($hi).params
      | exact ($hi).provActive | exact ($hi).provInactive | exact ($hi).nodeActive | exact ($hi).nodeInactive
      | exact ($hi).planActive | exact ($hi).planInactive | exact ($hi).sessions | exact ($hi).deposits
      | exact ($hi).swaps | exact ($hi).inflations | exact ($hi).depNodup | exact ($hi).swapNodup | exact ($hi).inflNodup
      | exact ($hi).planMax
      | exact ($hi).provActive.erase | exact ($hi).provInactive.erase | exact ($hi).nodeActive.erase
      | exact ($hi).nodeInactive.erase | exact ($hi).sessions.erase)

/-! ### what the invariant says about the parameters and the clock -/

theorem RV.sessDelay_pos {s : State} (hi : RV s) : 0 < s.params.sessDelay := by
  have h := hi.params.2.2.2.1
  rw [sessParams_valid_iff] at h
  have h1 : (0 : Int) ≤ (s.params.sessDelay : Int) := h.1
  have h2 : ¬ (s.params.sessDelay : Int) = (0 : Int) := h.2
  tom

theorem RV.activeDur_pos {s : State} (hi : RV s) : 0 < s.params.activeDur := by
  have h := hi.params.2.1
  rw [nodeParams_valid_iff] at h
  exact h.2.2.1

theorem RV.time_ne {s : State} (hi : RV s) : ¬ s.time = zeroTime := by
  have h : (zeroTime : Int) < (s.time : Int) := hi.time
  tom

theorem RV.time_add_ne {s : State} (hi : RV s) {d : Dur} (hd : 0 < d) : ¬ s.time + d = zeroTime := by
  have h : (zeroTime : Int) < (s.time : Int) := hi.time
  have hd' : (0 : Int) < (d : Int) := hd
  tom

theorem RV.bounds {s : State} (hi : RV s) :
    IsV s.params.maxGB ∧ IsV s.params.minGB ∧ IsV s.params.maxHr ∧ IsV s.params.minHr := by
  have h := hi.params.2.1
  rw [nodeParams_valid_iff] at h
  obtain ⟨_, _, _, h1, h2, h3, h4, _⟩ := h
  exact ⟨(isValid_iff _).mp h1, (isValid_iff _).mp h2, (isValid_iff _).mp h3, (isValid_iff _).mp h4⟩

theorem RV.getNode {s : State} (hi : RV s) {a : Addr} {n : Node} (h : getNode s a = some n) : n.validate = none := by
  rcases getNode_mem h with h | h
  · exact hi.nodeActive a n h
  · exact hi.nodeInactive a n h

theorem RV.getProvider {s : State} (hi : RV s) {a : Addr} {p : Provider} (h : getProvider s a = some p) : p.validate = none := by
  rcases getProvider_mem h with h | h
  · exact hi.provActive a p h
  · exact hi.provInactive a p h

theorem RV.getPlan {s : State} (hi : RV s) {i : Nat} {p : Plan} (h : getPlan s i = some p) : p.id = i ∧ p.validate = none := by
  rcases getPlan_mem h with h | h
  · exact hi.planActive i p h
  · exact hi.planInactive i p h

/-! ### steps that touch only bank, supply and events -/

/-- `s'` differs from `s` at most in bank, supply and events. -/
def BF (s s' : State) : Prop := s' = { s with bank := s'.bank, supply := s'.supply, events := s'.events }

theorem BF.refl (s : State) : BF s s := rfl

theorem BF.trans {a b c : State} (h1 : BF a b) (h2 : BF b c) : BF a c := by
  unfold BF at *; rw [h2, h1]

theorem rview_of_bf {s s' : State} (h : BF s s') : rview s' = rview s := by
  unfold BF at h; rw [h]; rfl

theorem RV.of_bf {s s' : State} (h : BF s s') (hi : RV s) : RV s' := RV.of_view (rview_of_bf h) hi

theorem sendCoins_bf {s s' : State} {f t : Addr} {c : Coin} (h : sendCoins s f t c = .ok s') : BF s s' := by
  have := (sendCoins_ok h).2.1
  unfold BF; rw [this]

theorem fundCommunityPool_bf {s s' : State} {f : Addr} {c : Coin} (h : fundCommunityPool s f c = .ok s') : BF s s' := by
  unfold fundCommunityPool at h
  split at h
  · rw [pure_eq_ok] at h; rw [← h]; exact BF.refl s
  · exact sendCoins_bf h

theorem sendModuleToAccount_bf {s s' : State} {m t : Addr} {c : Coin} (h : sendModuleToAccount s m t c = .ok s') : BF s s' := by
  unfold sendModuleToAccount at h
  split at h
  · simp [reject] at h
  · exact sendCoins_bf h

theorem sendCoin_bf {s s' : State} {f t : Addr} {c : Coin} (h : sendCoin s f t c = .ok s') : BF s s' := by
  unfold sendCoin at h
  split at h
  · rw [pure_eq_ok] at h; rw [← h]; exact BF.refl s
  · exact sendCoins_bf h

theorem sendCoinFromAccountToModule_bf {s s' : State} {f t : Addr} {c : Coin}
    (h : sendCoinFromAccountToModule s f t c = .ok s') : BF s s' := by
  unfold sendCoinFromAccountToModule at h
  split at h
  · rw [pure_eq_ok] at h; rw [← h]; exact BF.refl s
  · exact sendCoins_bf h

theorem mintCoins_bf {s s' : State} {m : Addr} {c : Coin} (h : mintCoins s m c = .ok s') : BF s s' := by
  unfold mintCoins at h
  simp only [bind_eq_ok, pure_eq_ok] at h
  obtain ⟨nb, _, ns, _, rfl⟩ := h
  rfl

theorem distrSweep_bf (s : State) : BF s (distrSweep s) := by
  unfold distrSweep
  exact foldl_inv (BF s) sweepDenom (fun s1 d h => h.trans (by rfl)) _ s (BF.refl s)

theorem addBalance_bf (s : State) (b : Addr × Denom × Int) : BF s (addBalance s b) := by
  unfold addBalance
  split
  · exact BF.refl s
  · rfl

theorem genesis_bf (g : Genesis) : BF g.base g.state := by
  unfold Genesis.state
  exact foldl_inv (BF g.base) addBalance (fun s1 b h => h.trans (addBalance_bf s1 b)) _ _ (BF.refl _)

/-! ### deposit records -/

theorem newCoin_facts {d : Denom} {a : Int} {c : Coin} (h : newCoin d a = .ok c) :
    c = ⟨d, a⟩ ∧ validDenom c.denom = true ∧ 0 ≤ c.amount := by
  unfold newCoin at h
  split at h
  · simp [gopanic] at h
  · rename_i hd
    split at h
    · simp [gopanic] at h
    · rename_i ha
      rw [pure_eq_ok] at h
      subst h
      refine ⟨rfl, by simpa using hd, by show 0 ≤ a; omega⟩

theorem depV_facts {a : Addr} {cs : Coins} (h : DepV a cs) : AOK a ∧ IsV cs := by
  unfold DepV at h
  rw [dep_valid_iff] at h
  exact ⟨h.2.1, (isValid_iff _).mp h.2.2.2⟩

theorem depV_mk {a : Addr} {cs : Coins} (ha : AOK a) (hv : IsV cs) (hne : cs.length ≠ 0) : DepV a cs := by
  unfold DepV
  rw [dep_valid_iff]
  exact ⟨ha.1, ha, hne, (isValid_iff _).mpr hv⟩

theorem setDeposit_rv {s : State} {a : Addr} {cs : Coins} (hi : RV s) (ha : AOK a) (hv : IsV cs) (hne : cs.length ≠ 0) :
    RV (setDeposit s a cs) := by
  constructor
  case deposits => exact hi.deposits.set (depV_mk ha hv hne)
  case depNodup => exact Tbl.nodup_set hi.depNodup _ _
  rv_rest hi

theorem putDeposit_rv {s : State} {a : Addr} {cs : Coins} (hi : RV s) (ha : AOK a) (hv : IsV cs) : RV (putDeposit s a cs) := by
  unfold putDeposit
  split
  · constructor
    case deposits => exact hi.deposits.erase
    case depNodup => exact Tbl.nodup_erase hi.depNodup _
    rv_rest hi
  · rename_i hz
    exact setDeposit_rv hi ha hv (length_ne_zero_of_not_isZero (by simpa using hz))

theorem depositAdd_rv {s s' : State} {f t : Addr} {c : Coin} (h : depositAdd s f t c = .ok s') (hi : RV s)
    (ht : AOK t) (hd : validDenom c.denom = true) (ha : 0 < c.amount) : RV s' := by
  unfold depositAdd at h
  simp only [bind_eq_ok, pure_eq_ok, require_eq_ok] at h
  obtain ⟨s1, hs1, _, _, rfl⟩ := h
  have i1 : RV s1 := RV.of_bf (sendCoins_bf hs1) hi
  have hcur : IsV ((getDeposit s1 t).getD []) := by
    unfold getDeposit
    cases hg : s1.deposits.get t with
    | none => exact isV_nil
    | some cs => exact (depV_facts (i1.deposits t cs hg)).2
  obtain ⟨h1, h2⟩ := add_isV hcur hd ha
  exact emit_rv _ (setDeposit_rv i1 ht h1 h2)

theorem depositToAccount_rv {s s' : State} {f t : Addr} {c : Coin} (h : depositToAccount s f t c = .ok s') (hi : RV s)
    (ha : 0 ≤ c.amount) : RV s' := by
  unfold depositToAccount at h
  simp only [bind_eq_ok, pure_eq_ok, require_eq_ok, orReject_eq_ok] at h
  obtain ⟨cur, hcur, _, hneg, s1, hs1, rfl⟩ := h
  obtain ⟨hf, hv⟩ := depV_facts (hi.deposits f cur hcur)
  have i1 : RV s1 := RV.of_bf (sendModuleToAccount_bf hs1) hi
  exact emit_rv _ (putDeposit_rv i1 hf (sub_isV hv ha (by simpa using hneg)))

theorem depositToModule_rv {s s' : State} {f m : Addr} {c : Coin} (h : depositToModule s f m c = .ok s') (hi : RV s)
    (ha : 0 ≤ c.amount) : RV s' := by
  unfold depositToModule at h
  simp only [bind_eq_ok, pure_eq_ok, require_eq_ok, orReject_eq_ok] at h
  obtain ⟨cur, hcur, _, hneg, s1, hs1, rfl⟩ := h
  obtain ⟨hf, hv⟩ := depV_facts (hi.deposits f cur hcur)
  have i1 : RV s1 := RV.of_bf (sendCoins_bf hs1) hi
  exact emit_rv _ (putDeposit_rv i1 hf (sub_isV hv ha (by simpa using hneg)))

theorem addDeposit_rv {s s' : State} {a : Addr} {c : Coin} (h : addDeposit s a c = .ok s') (hi : RV s)
    (ht : AOK a) (hd : validDenom c.denom = true) (ha : 0 ≤ c.amount) : RV s' := by
  unfold addDeposit at h
  split at h
  · rw [pure_eq_ok] at h; rw [← h]; exact hi
  · exact depositAdd_rv h hi ht hd (by omega)

theorem subtractDeposit_rv {s s' : State} {a : Addr} {c : Coin} (h : subtractDeposit s a c = .ok s') (hi : RV s)
    (ha : 0 ≤ c.amount) : RV s' := by
  unfold subtractDeposit at h
  split at h
  · rw [pure_eq_ok] at h; rw [← h]; exact hi
  · exact depositToAccount_rv h hi ha

theorem sendCoinFromDepositToAccount_rv {s s' : State} {f t : Addr} {c : Coin}
    (h : sendCoinFromDepositToAccount s f t c = .ok s') (hi : RV s) (ha : 0 ≤ c.amount) : RV s' := by
  unfold sendCoinFromDepositToAccount at h
  split at h
  · rw [pure_eq_ok] at h; rw [← h]; exact hi
  · exact depositToAccount_rv h hi ha

theorem sendCoinFromDepositToModule_rv {s s' : State} {f t : Addr} {c : Coin}
    (h : sendCoinFromDepositToModule s f t c = .ok s') (hi : RV s) (ha : 0 ≤ c.amount) : RV s' := by
  unfold sendCoinFromDepositToModule at h
  split at h
  · rw [pure_eq_ok] at h; rw [← h]; exact hi
  · exact depositToModule_rv h hi ha

theorem getProportion_nonneg {c r : Coin} {d : Dec} (h : GetProportionOfCoin c d = .ok r) : 0 ≤ r.amount := by
  unfold GetProportionOfCoin at h
  simp only [bind_eq_ok] at h
  obtain ⟨t1, _, t2, _, h3⟩ := h
  exact (newCoin_facts h3).2.2


/-! ### building blocks -/

/-- Both partitions change at most at key `k`, where a plan is stored afterwards. -/
theorem PM.update {pa pi pa' pi' : Tbl Nat Plan} {k c : Nat} (hA : ∀ j, k ≠ j → pa'.get j = pa.get j)
    (hI : ∀ j, k ≠ j → pi'.get j = pi.get j) (hk : ∃ v, pa'.get k = some v ∨ pi'.get k = some v)
    (h : PM pa pi c) : PM pa' pi' c := by
  rcases h with h | ⟨p, hp⟩
  · exact Or.inl h
  · right
    by_cases e : k = c
    · subst e; exact hk
    · rw [← hA c e, ← hI c e] at hp; exact ⟨p, hp⟩

theorem setNode_rv {s s' : State} {n : Node} (h : setNode s n = .ok s') (hn : n.validate = none) (hi : RV s) : RV s' := by
  rcases setNode_eff h with ⟨_, e⟩ | ⟨_, e⟩ <;> subst e
  · constructor
    case nodeActive => exact hi.nodeActive.set hn
    rv_rest hi
  · constructor
    case nodeInactive => exact hi.nodeInactive.set hn
    rv_rest hi

theorem setProvider_rv {s s' : State} {p : Provider} (h : setProvider s p = .ok s') (hp : p.validate = none) (hi : RV s) :
    RV s' := by
  rcases setProvider_eff h with ⟨_, e⟩ | ⟨_, e⟩ <;> subst e
  · constructor
    case provActive => exact hi.provActive.set hp
    rv_rest hi
  · constructor
    case provInactive => exact hi.provInactive.set hp
    rv_rest hi

theorem rview_insertSub (s : State) (sub : Sub) : rview (insertSub s sub) = rview s := by
  unfold insertSub; cases sub.kind <;> rfl

theorem sessionToPending_rv {s : State} {x : Session} (hx : x.validate = none) (hi : RV s) : RV (sessionToPending s x) := by
  have hv : SessV x.id { x with inactiveAt := s.time + s.params.sessDelay, status := .StatusInactivePending, statusAt := s.time } := by
    unfold SessV
    rw [sess_valid_iff] at hx ⊢
    obtain ⟨h1, h2, h3, h4, h5, h6, h7, h8, _, _, _⟩ := hx
    exact ⟨h1, h2, h3, h4, h5, h6, h7, h8, hi.time_add_ne hi.sessDelay_pos, Or.inr rfl, hi.time_ne⟩
  constructor
  case sessions => exact hi.sessions.set hv
  rv_rest hi

theorem subscriptionInactivePendingHook_rv {s s' : State} {id : Nat}
    (h : subscriptionInactivePendingHook s id = .ok s') (hi : RV s) : RV s' := by
  unfold subscriptionInactivePendingHook at h
  refine foldlM_inv RV _ ?_ _ s s' h hi
  intro s0 sid s1 h1 hp
  simp only [bind_eq_ok, pure_eq_ok, orPanic_eq_ok] at h1
  obtain ⟨x, hx, rfl⟩ := h1
  split
  · exact sessionToPending_rv (hp.sessions _ _ hx) hp
  · exact hp

theorem detachPayout_rview {s s' : State} {sub : Sub} {b : Bool} (h : detachPayout s sub b = .ok s') : rview s' = rview s := by
  unfold detachPayout at h
  split at h
  · simp only [bind_eq_ok, pure_eq_ok] at h
    obtain ⟨p, hp, rfl⟩ := h
    rfl
  · rw [pure_eq_ok] at h; rw [← h]

/-! ### provider, node, plan messages -/

theorem provRegister_rv {s s' : State} {frm : Addr} {n i w d : Bytes} (h : provRegister s frm n i w d = .ok s')
    (hf : AOK frm) (hn : ¬ n.length = 0 ∧ n.length ≤ 64) (hid : i.length ≤ 64) (hw : w.length ≤ 64) (hd : d.length ≤ 256)
    (hi : RV s) : RV s' := by
  unfold provRegister at h
  simp only [bind_eq_ok, pure_eq_ok, require_eq_ok] at h
  obtain ⟨_, _, s1, h1, s2, h2, rfl⟩ := h
  have i1 := RV.of_bf (fundCommunityPool_bf h1) hi
  refine emit_rv _ (setProvider_rv h2 ?_ i1)
  rw [prov_valid_iff]
  exact ⟨hf.1, hf, hn.1, hn.2, hid, hw, hd, Or.inr rfl⟩

theorem provUpdated_valid {p : Provider} {n i w d : Bytes} {st : Status} {now : Time} (hp : p.validate = none)
    (hn : n.length ≤ 64) (hid : i.length ≤ 64) (hw : w.length ≤ 64) (hd : d.length ≤ 256)
    (hst : st = .StatusUnspecified ∨ st = .StatusActive ∨ st = .StatusInactive) :
    (provUpdated p n i w d st now).validate = none := by
  rw [prov_valid_iff] at hp ⊢
  obtain ⟨h1, h2, h3, h4, _, _, _, h8⟩ := hp
  unfold provUpdated
  simp only []
  by_cases hl : n.length > 0
  · simp only [hl, if_true]
    by_cases hs : st = .StatusUnspecified
    · simp only [hs, ne_eq, not_true_eq_false, if_false]
      exact ⟨h1, h2, by omega, hn, hid, hw, hd, h8⟩
    · simp only [ne_eq, hs, not_false_eq_true, if_true]
      exact ⟨h1, h2, by omega, hn, hid, hw, hd, by tauto⟩
  · simp only [hl, if_false]
    by_cases hs : st = .StatusUnspecified
    · simp only [hs, ne_eq, not_true_eq_false, if_false]
      exact ⟨h1, h2, h3, h4, hid, hw, hd, h8⟩
    · simp only [ne_eq, hs, not_false_eq_true, if_true]
      exact ⟨h1, h2, h3, h4, hid, hw, hd, by tauto⟩

theorem provUpdate_rv {s s' : State} {frm : Addr} {n i w d : Bytes} {st : Status} (h : provUpdate s frm n i w d st = .ok s')
    (hn : n.length ≤ 64) (hid : i.length ≤ 64) (hw : w.length ≤ 64) (hd : d.length ≤ 256)
    (hst : st = .StatusUnspecified ∨ st = .StatusActive ∨ st = .StatusInactive) (hi : RV s) : RV s' := by
  unfold provUpdate at h
  simp only [bind_eq_ok, pure_eq_ok, orReject_eq_ok] at h
  obtain ⟨p, hp, s3, h3, rfl⟩ := h
  refine emit_rv _ (setProvider_rv h3 (provUpdated_valid (hi.getProvider hp) hn hid hw hd hst) ?_)
  split <;> split <;>
  · constructor
    rv_rest hi

theorem nodeRegister_rv {s s' : State} {frm : Addr} {gb hr : Coins} {url : Bytes} (h : nodeRegister s frm gb hr url = .ok s')
    (hf : AOK frm) (hgb : ¬ gb.length = 0 ∧ gb.isValid = true) (hhr : ¬ hr.length = 0 ∧ hr.isValid = true)
    (hurl : ¬ url.length = 0 ∧ url.length ≤ 64) (hi : RV s) : RV s' := by
  unfold nodeRegister at h
  simp only [bind_eq_ok, pure_eq_ok, require_eq_ok] at h
  obtain ⟨_, _, _, _, _, _, s1, h1, s2, h2, rfl⟩ := h
  have i1 := RV.of_bf (fundCommunityPool_bf h1) hi
  refine emit_rv _ (setNode_rv h2 ?_ i1)
  rw [node_valid_iff]
  exact ⟨hf.1, hf, hgb, hhr, hurl.1, hurl.2, Or.inr rfl, Or.inl rfl, Or.inr rfl, hi.time_ne⟩

theorem nodeUpdated_valid {n : Node} {gb hr : Option Coins} {url : Bytes} (hv : n.validate = none)
    (hgb : ∀ g, gb = some g → ¬ g.length = 0 ∧ g.isValid = true) (hhr : ∀ g, hr = some g → ¬ g.length = 0 ∧ g.isValid = true)
    (hurl : url.length = 0 ∨ url.length ≤ 64) : (nodeUpdated n gb hr url).validate = none := by
  rw [node_valid_iff] at hv ⊢
  obtain ⟨h1, h2, h3, h4, h5, h6, h7, h8, h9, h10⟩ := hv
  unfold nodeUpdated
  cases gb with
  | none =>
    cases hr with
    | none =>
      simp only []
      split
      · rename_i hu
        exact ⟨h1, h2, h3, h4, (show ¬ url.length = 0 from hu), (show url.length ≤ 64 by omega), h7, h8, h9, h10⟩
      · exact ⟨h1, h2, h3, h4, h5, h6, h7, h8, h9, h10⟩
    | some h =>
      simp only []
      split
      · rename_i hu
        exact ⟨h1, h2, h3, hhr h rfl, (show ¬ url.length = 0 from hu), (show url.length ≤ 64 by omega), h7, h8, h9, h10⟩
      · exact ⟨h1, h2, h3, hhr h rfl, h5, h6, h7, h8, h9, h10⟩
  | some g =>
    cases hr with
    | none =>
      simp only []
      split
      · rename_i hu
        exact ⟨h1, h2, hgb g rfl, h4, (show ¬ url.length = 0 from hu), (show url.length ≤ 64 by omega), h7, h8, h9, h10⟩
      · exact ⟨h1, h2, hgb g rfl, h4, h5, h6, h7, h8, h9, h10⟩
    | some h =>
      simp only []
      split
      · rename_i hu
        exact ⟨h1, h2, hgb g rfl, hhr h rfl, (show ¬ url.length = 0 from hu), (show url.length ≤ 64 by omega), h7, h8, h9, h10⟩
      · exact ⟨h1, h2, hgb g rfl, hhr h rfl, h5, h6, h7, h8, h9, h10⟩

theorem nodeUpdate_rv {s s' : State} {frm : Addr} {gb hr : Option Coins} {url : Bytes} (h : nodeUpdate s frm gb hr url = .ok s')
    (hgb : ∀ g, gb = some g → ¬ g.length = 0 ∧ g.isValid = true) (hhr : ∀ g, hr = some g → ¬ g.length = 0 ∧ g.isValid = true)
    (hurl : url.length = 0 ∨ url.length ≤ 64) (hi : RV s) : RV s' := by
  unfold nodeUpdate at h
  simp only [bind_eq_ok, pure_eq_ok, require_eq_ok, orReject_eq_ok] at h
  obtain ⟨_, _, _, _, n, hn, s1, h1, rfl⟩ := h
  exact emit_rv _ (setNode_rv h1 (nodeUpdated_valid (hi.getNode hn) hgb hhr hurl) hi)

theorem nodeStatus_rv {s s' : State} {frm : Addr} {st : Status} (h : nodeStatus s frm st = .ok s')
    (hst : st = .StatusActive ∨ st = .StatusInactive) (hi : RV s) : RV s' := by
  unfold nodeStatus at h
  simp only [bind_eq_ok, pure_eq_ok, orReject_eq_ok] at h
  obtain ⟨n, hn, s5, hs5, rfl⟩ := h
  have hv := hi.getNode hn
  refine emit_rv _ (setNode_rv hs5 ?_ ?_)
  · rw [node_valid_iff] at hv ⊢
    obtain ⟨h1, h2, h3, h4, h5, h6, _, _, _, _⟩ := hv
    rcases hst with e | e
    · subst e
      exact ⟨h1, h2, h3, h4, h5, h6, Or.inl (hi.time_add_ne hi.activeDur_pos), Or.inr rfl, Or.inl rfl, hi.time_ne⟩
    · subst e
      exact ⟨h1, h2, h3, h4, h5, h6, Or.inr rfl, Or.inl rfl, Or.inr rfl, hi.time_ne⟩
  · split <;> split <;> split <;> split <;>
    · constructor
      rv_rest hi

theorem setPlan_rv {s s' : State} {p : Plan} (h : setPlan s p = .ok s') (hp : p.validate = none) (hi : RV s) : RV s' := by
  obtain ⟨c, hc, hm⟩ := hi.planMax
  rcases setPlan_eff h with ⟨_, e⟩ | ⟨_, e⟩ <;> subst e
  · constructor
    case planActive => exact hi.planActive.set ⟨rfl, hp⟩
    case planMax =>
      refine ⟨c, hc, hm.update (k := p.id) (fun j hj => Tbl.get_set_ne _ _ hj) (fun j _ => rfl) ⟨p, Or.inl (Tbl.get_set_eq _ _ _)⟩⟩
    rv_rest hi
  · constructor
    case planInactive => exact hi.planInactive.set ⟨rfl, hp⟩
    case planMax =>
      refine ⟨c, hc, hm.update (k := p.id) (fun j _ => rfl) (fun j hj => Tbl.get_set_ne _ _ hj) ⟨p, Or.inr (Tbl.get_set_eq _ _ _)⟩⟩
    rv_rest hi

theorem planCreate_rv {s s' : State} {frm : Addr} {dur : Dur} {gb : Int} {prices : Coins}
    (h : planCreate s frm dur gb prices = .ok s') (hf : AOK frm) (hdur : 0 ≤ dur ∧ ¬ dur = 0) (hgb : 0 ≤ gb ∧ ¬ gb = 0)
    (hpr : ¬ prices.length = 0 ∧ prices.isValid = true) (hi : RV s) : RV s' := by
  obtain ⟨_, rfl⟩ := planCreate_eff h
  refine emit_rv _ ?_
  constructor
  case planInactive =>
    refine hi.planInactive.set ⟨rfl, ?_⟩
    rw [plan_valid_iff]
    exact ⟨by simp, hf.1, hf, hdur.1, hdur.2, hgb.1, hgb.2, hpr, Or.inr rfl, hi.time_ne⟩
  case planMax =>
    exact ⟨_, rfl, Or.inr ⟨_, Or.inr (Tbl.get_set_eq _ _ _)⟩⟩
  rv_rest hi

theorem planStatus_rv {s s' : State} {frm : Addr} {id : Nat} {st : Status}
    (h : planStatus s frm id st = .ok s') (hi : RV s) : RV s' := by
  unfold planStatus at h
  simp only [bind_eq_ok, pure_eq_ok, require_eq_ok, orReject_eq_ok] at h
  obtain ⟨p, hp, _, _, s3, h3, rfl⟩ := h
  obtain ⟨hid, hv⟩ := hi.getPlan hp
  subst hid
  obtain ⟨c, hc, hm⟩ := hi.planMax
  refine emit_rv _ ?_
  have hst : st = .StatusActive ∨ st = .StatusInactive := by
    rcases setPlan_eff h3 with ⟨e, _⟩ | ⟨e, _⟩
    · exact Or.inl e
    · exact Or.inr e
  have hv' : ({ p with status := st, statusAt := s.time } : Plan).validate = none := by
    rw [plan_valid_iff] at hv ⊢
    obtain ⟨h1, h2, h3', h4, h5, h6, h7, h8, _, _⟩ := hv
    exact ⟨h1, h2, h3', h4, h5, h6, h7, h8, hst, hi.time_ne⟩
  have hps : p.status = .StatusActive ∨ p.status = .StatusInactive := by
    rw [plan_valid_iff] at hv; exact hv.2.2.2.2.2.2.2.2.1
  have hV : PlanV p.id { p with status := st, statusAt := s.time } := ⟨rfl, hv'⟩
  unfold setPlan at h3
  rcases hps with e1 | e1 <;> rcases hst with e2 | e2 <;> subst e2 <;>
    simp only [e1, reduceCtorEq, and_false, and_true, and_self, ↓reduceIte, pure_eq_ok] at h3 <;> subst h3
  · constructor
    case planActive => exact hi.planActive.set hV
    case planMax =>
      exact ⟨c, hc, hm.update (k := p.id) (fun j hj => Tbl.get_set_ne _ _ hj) (fun j _ => rfl) ⟨_, Or.inl (Tbl.get_set_eq _ _ _)⟩⟩
    rv_rest hi
  · constructor
    case planActive => exact hi.planActive.erase
    case planInactive => exact hi.planInactive.set hV
    case planMax =>
      exact ⟨c, hc, hm.update (k := p.id) (fun j hj => Tbl.get_erase_ne _ hj) (fun j hj => Tbl.get_set_ne _ _ hj)
        ⟨_, Or.inr (Tbl.get_set_eq _ _ _)⟩⟩
    rv_rest hi
  · constructor
    case planInactive => exact hi.planInactive.erase
    case planActive => exact hi.planActive.set hV
    case planMax =>
      exact ⟨c, hc, hm.update (k := p.id) (fun j hj => Tbl.get_set_ne _ _ hj) (fun j hj => Tbl.get_erase_ne _ hj)
        ⟨_, Or.inl (Tbl.get_set_eq _ _ _)⟩⟩
    rv_rest hi
  · constructor
    case planInactive => exact hi.planInactive.set hV
    case planMax =>
      exact ⟨c, hc, hm.update (k := p.id) (fun j _ => rfl) (fun j hj => Tbl.get_set_ne _ _ hj) ⟨_, Or.inr (Tbl.get_set_eq _ _ _)⟩⟩
    rv_rest hi

theorem planLink_rv {s s' : State} {frm : Addr} {id : Nat} {node : Addr}
    (h : planLink s frm id node = .ok s') (hi : RV s) : RV s' := by
  unfold planLink at h
  simp only [bind_eq_ok, pure_eq_ok, require_eq_ok, orReject_eq_ok] at h
  obtain ⟨p, _, _, _, _, _, rfl⟩ := h
  exact RV.of_view (s := s) rfl hi

theorem planUnlink_rv {s s' : State} {frm : Addr} {id : Nat} {node : Addr}
    (h : planUnlink s frm id node = .ok s') (hi : RV s) : RV s' := by
  unfold planUnlink at h
  simp only [bind_eq_ok, pure_eq_ok, require_eq_ok, orReject_eq_ok] at h
  obtain ⟨p, _, _, _, rfl⟩ := h
  exact RV.of_view (s := s) rfl hi

end Hub.Model.GenWFSteps
