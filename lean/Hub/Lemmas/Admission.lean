import Hub.Lemmas.Authz
/-
Admission lemmas (C08): the checks of `MsgStart` (the reverse-iterator lookups of the latest
session of an allocation and of the latest lease of a provider on a node) in terms of the index
tables, and what the subscription-creating keeper functions have checked when they succeed.
-/
namespace Hub.Model
open Hub.SDK
open Hub.Generated (Status AmountForBytes GetProportionOfCoin Gigabyte)

/-! ### the last element of a sorted list of ids is its maximum -/

theorem sortedNat_pairwise (l : List Nat) : (l.mergeSort (· ≤ ·)).Pairwise (· ≤ ·) := by
  have := List.pairwise_mergeSort (le := fun a b : Nat => decide (a ≤ b))
    (by intro a b c; simp only [decide_eq_true_eq]; omega)
    (by intro a b; simp only [Bool.or_eq_true, decide_eq_true_eq]; omega) l
  simpa using this

theorem getLast?_mergeSort_le {l : List Nat} {m : Nat} (h : (l.mergeSort (· ≤ ·)).getLast? = some m) :
    m ∈ l ∧ ∀ x ∈ l, x ≤ m := by
  obtain ⟨ys, hys⟩ := List.getLast?_eq_some_iff.mp h
  have hperm := List.mergeSort_perm l (· ≤ ·)
  have hp := sortedNat_pairwise l
  rw [hys] at hperm hp
  refine ⟨hperm.mem_iff.mp (by simp), ?_⟩
  intro x hx
  have hx' : x ∈ ys ++ [m] := hperm.mem_iff.mpr hx
  rw [List.pairwise_append] at hp
  rcases List.mem_append.mp hx' with h1 | h1
  · exact hp.2.2 x h1 m (by simp)
  · simp at h1; omega

theorem getLast?_mergeSort_eq_none {l : List Nat} (h : (l.mergeSort (· ≤ ·)).getLast? = none) : l = [] := by
  have hperm := List.mergeSort_perm l (· ≤ ·)
  rw [List.getLast?_eq_none_iff] at h
  rw [h] at hperm
  exact (List.Perm.nil_eq hperm).symm

theorem getLast?_mergeSort_of_max {l : List Nat} {m : Nat} (hm : m ∈ l) (hmax : ∀ x ∈ l, x ≤ m) :
    (l.mergeSort (· ≤ ·)).getLast? = some m := by
  cases hg : (l.mergeSort (· ≤ ·)).getLast? with
  | none => rw [getLast?_mergeSort_eq_none hg] at hm; simp at hm
  | some k =>
    obtain ⟨hk, hkmax⟩ := getLast?_mergeSort_le hg
    have := hmax k hk
    have := hkmax m hm
    congr 1; omega

/-! ### the two reverse-iterator lookups of `MsgStart` -/

/-- Session ids indexed under the allocation (subscription, account). -/
def allocSessIds (s : State) (id : Nat) (acc : Addr) : List Nat :=
  (s.sessForAlloc.keys.filter (fun k => k.1 = id ∧ k.2.1 = acc)).map (·.2.2)

theorem mem_allocSessIds {s : State} {id : Nat} {acc : Addr} {sid : Nat} :
    sid ∈ allocSessIds s id acc ↔ (id, acc, sid) ∈ s.sessForAlloc.keys := by
  unfold allocSessIds
  simp only [List.mem_map, List.mem_filter, decide_eq_true_eq]
  constructor
  · rintro ⟨⟨a, b, c⟩, ⟨hk, h1, h2⟩, rfl⟩
    simp only at h1 h2
    subst h1; subst h2; exact hk
  · intro h
    exact ⟨(id, acc, sid), ⟨h, rfl, rfl⟩, rfl⟩

/-- Lease ids indexed under (account, node). -/
def leaseIds (s : State) (acc node : Addr) : List Nat :=
  (s.payForAccNode.keys.filter (fun k => k.1 = acc ∧ k.2.1 = node)).map (·.2.2)

theorem mem_leaseIds {s : State} {acc node : Addr} {pid : Nat} :
    pid ∈ leaseIds s acc node ↔ (acc, node, pid) ∈ s.payForAccNode.keys := by
  unfold leaseIds
  simp only [List.mem_map, List.mem_filter, decide_eq_true_eq]
  constructor
  · rintro ⟨⟨a, b, c⟩, ⟨hk, h1, h2⟩, rfl⟩
    simp only at h1 h2
    subst h1; subst h2; exact hk
  · intro h
    exact ⟨(acc, node, pid), ⟨h, rfl, rfl⟩, rfl⟩

theorem latestSessionForAllocation_ok {s : State} {id : Nat} {acc : Addr} {r : Option Session}
    (h : latestSessionForAllocation s id acc = .ok r) :
    (r = none ∧ allocSessIds s id acc = []) ∨
    (∃ sid x, r = some x ∧ s.sessions.get sid = some x ∧ sid ∈ allocSessIds s id acc ∧
       ∀ k ∈ allocSessIds s id acc, k ≤ sid) := by
  unfold latestSessionForAllocation at h
  split at h
  · rename_i hn
    left
    rw [pure_eq_ok] at h
    exact ⟨h.symm, getLast?_mergeSort_eq_none hn⟩
  · rename_i sid hs
    right
    simp only [bind_eq_ok, pure_eq_ok, orPanic_eq_ok] at h
    obtain ⟨x, hx, rfl⟩ := h
    obtain ⟨h1, h2⟩ := getLast?_mergeSort_le hs
    exact ⟨sid, x, rfl, hx, h1, h2⟩

theorem latestSessionForAllocation_none {s : State} {id : Nat} {acc : Addr} (h : allocSessIds s id acc = []) :
    latestSessionForAllocation s id acc = .ok none := by
  unfold latestSessionForAllocation
  have : (((s.sessForAlloc.keys.filter (fun k => k.1 = id ∧ k.2.1 = acc)).map (·.2.2)).mergeSort (· ≤ ·)).getLast? = none := by
    show ((allocSessIds s id acc).mergeSort (· ≤ ·)).getLast? = none
    rw [h]; simp
  rw [this]; rfl

theorem latestSessionForAllocation_some {s : State} {id : Nat} {acc : Addr} {sid : Nat} {x : Session}
    (hm : sid ∈ allocSessIds s id acc) (hmax : ∀ k ∈ allocSessIds s id acc, k ≤ sid) (hx : s.sessions.get sid = some x) :
    latestSessionForAllocation s id acc = .ok (some x) := by
  unfold latestSessionForAllocation
  have : (((s.sessForAlloc.keys.filter (fun k => k.1 = id ∧ k.2.1 = acc)).map (·.2.2)).mergeSort (· ≤ ·)).getLast? = some sid :=
    getLast?_mergeSort_of_max (l := allocSessIds s id acc) hm hmax
  rw [this]
  simp only [hx, orPanic]
  rfl

theorem hasPayoutForAccountByNode_true {s : State} {acc node : Addr} (h : hasPayoutForAccountByNode s acc node = .ok true) :
    ∃ pid, (acc, node, pid) ∈ s.payForAccNode.keys := by
  unfold hasPayoutForAccountByNode at h
  split at h
  · rw [pure_eq_ok] at h; cases h
  · rename_i pid hs
    exact ⟨pid, mem_leaseIds.mp (getLast?_mergeSort_le hs).1⟩

/-- With no dangling lease-index entry the lookup succeeds and says whether a lease exists. -/
theorem hasPayoutForAccountByNode_of {s : State} {acc node : Addr} {pid : Nat}
    (hm : (acc, node, pid) ∈ s.payForAccNode.keys)
    (hidx : ∀ k, (acc, node, k) ∈ s.payForAccNode.keys → (s.payouts.get k).isSome) :
    hasPayoutForAccountByNode s acc node = .ok true := by
  unfold hasPayoutForAccountByNode
  cases hg : (((s.payForAccNode.keys.filter (fun k => k.1 = acc ∧ k.2.1 = node)).map (·.2.2)).mergeSort (· ≤ ·)).getLast? with
  | none =>
    have : leaseIds s acc node = [] := getLast?_mergeSort_eq_none hg
    have hm' := mem_leaseIds.mpr hm
    rw [this] at hm'; simp at hm'
  | some k =>
    have hk := mem_leaseIds.mp (getLast?_mergeSort_le (l := leaseIds s acc node) hg).1
    have := hidx k hk
    obtain ⟨p, hp⟩ := Option.isSome_iff_exists.mp this
    simp only [hp, orPanic]
    rfl

/-! ### the checks of `MsgStart` -/

theorem sessStartNodeCheck_ok {s : State} {sub : Sub} {n : Node} {node : Addr} (h : sessStartNodeCheck s sub n node = .ok ()) :
    match sub.kind with
    | .node snode _ _ _ => n.addr = snode
    | .plan pid _ => ∃ p, getPlan s pid = some p ∧ (∃ k, (p.prov, node, k) ∈ s.payForAccNode.keys) ∧
        s.nodeForPlan.has (pid, node) = true := by
  unfold sessStartNodeCheck at h
  cases hk : sub.kind with
  | node snode gb hr dep =>
    simp only [hk, require_eq_ok, decide_eq_true_eq] at h
    exact h
  | plan pid dn =>
    simp only [hk, bind_eq_ok, require_eq_ok, orReject_eq_ok] at h
    obtain ⟨p, hp, leased, hl, _, hlt, hlink⟩ := h
    subst hlt
    exact ⟨p, hp, hasPayoutForAccountByNode_true hl, hlink⟩

theorem quotaTail_ok {s : State} {sub : Sub} {acc : Addr}
    (h : (if isHourly sub = true then pure () else do
            let a ← orReject (s.allocs.get (sub.id, acc)) "allocation not found"
            require (decide (a.used < a.granted)) "invalid allocation" : M Unit) = .ok ()) :
    isHourly sub = true ∨ ∃ a, s.allocs.get (sub.id, acc) = some a ∧ a.used < a.granted := by
  split at h
  · left; assumption
  · right
    simp only [bind_eq_ok, require_eq_ok, orReject_eq_ok, decide_eq_true_eq] at h
    exact h

theorem sessStartQuotaCheck_ok {s : State} {sub : Sub} {acc : Addr} (h : sessStartQuotaCheck s sub acc = .ok ()) :
    (match sub.kind with | .node _ _ _ _ => acc = sub.addr | .plan _ _ => True) ∧
    (isHourly sub = true ∨ ∃ a, s.allocs.get (sub.id, acc) = some a ∧ a.used < a.granted) := by
  unfold sessStartQuotaCheck at h
  cases hk : sub.kind with
  | node snode gb hr dep =>
    simp only [hk, bind_eq_ok, require_eq_ok, decide_eq_true_eq] at h
    obtain ⟨_, h1, h2⟩ := h
    exact ⟨h1, quotaTail_ok h2⟩
  | plan pid dn =>
    simp only [hk] at h
    exact ⟨trivial, quotaTail_ok h⟩

theorem sessStart_guard {s s' : State} {frmT : TextAddr} {id : Nat} {node : Addr} (h : sessStart s frmT id node = .ok s') :
    ∃ sub n, s.subs.get id = some sub ∧ sub.status = .StatusActive ∧ getNode s node = some n ∧ n.status = .StatusActive ∧
      sessStartNodeCheck s sub n node = .ok () ∧ sessStartQuotaCheck s sub frmT.bytes = .ok () ∧
      ∃ latest, latestSessionForAllocation s id frmT.bytes = .ok latest ∧ (∀ x, latest = some x → x.status ≠ .StatusActive) := by
  unfold sessStart at h
  simp only [bind_eq_ok, pure_eq_ok, require_eq_ok, orReject_eq_ok] at h
  obtain ⟨sub, hs, _, h1, n, hn, _, h2, _, h3, _, h4, latest, hl, _, h5, _⟩ := h
  refine ⟨sub, n, hs, by simpa using h1, hn, by simpa using h2, h3, h4, latest, hl, ?_⟩
  intro x hx
  subst hx
  simpa using h5

/-! ### purchases -/

theorem nodeSubscribe_guard {s s' : State} {frm node : Addr} {gb hr : Int} {denom : Denom}
    (h : nodeSubscribe s frm node gb hr denom = .ok s') :
    (gb = 0 ∨ (s.params.minSubGB ≤ gb ∧ gb ≤ s.params.maxSubGB)) ∧
    (hr = 0 ∨ (s.params.minSubHr ≤ hr ∧ hr ≤ s.params.maxSubHr)) ∧
    ∃ n, getNode s node = some n ∧ n.status = .StatusActive ∧
      (gb ≠ 0 → ∃ price, n.gigabytePrice denom = some price) ∧
      (gb = 0 → ∃ price, n.hourlyPrice denom = some price) := by
  unfold nodeSubscribe createSubscriptionForNode at h
  simp only [bind_eq_ok, pure_eq_ok, require_eq_ok, orReject_eq_ok] at h
  obtain ⟨_, h1, _, h2, r, ⟨n, hn, _, hst, hr'⟩, _⟩ := h
  refine ⟨?_, ?_, n, hn, by simpa using hst, ?_, ?_⟩
  · simpa using h1
  · simpa using h2
  · intro hg
    simp only [hg, ne_eq, not_false_eq_true, if_true] at hr'
    unfold createNodeSubGB at hr'
    simp only [bind_eq_ok, orReject_eq_ok] at hr'
    obtain ⟨price, hp, _⟩ := hr'
    exact ⟨price, hp⟩
  · intro hg
    simp only [hg, ne_eq, not_true_eq_false, if_false] at hr'
    unfold createNodeSubHr at hr'
    simp only [bind_eq_ok, orReject_eq_ok] at hr'
    obtain ⟨price, hp, _⟩ := hr'
    exact ⟨price, hp⟩

theorem planSubscribe_guard {s s' : State} {frm : Addr} {id : Nat} {denom : Denom}
    (h : planSubscribe s frm id denom = .ok s') :
    ∃ plan, getPlan s id = some plan ∧ plan.status = .StatusActive ∧ ∃ price, plan.price denom = some price := by
  unfold planSubscribe createSubscriptionForPlan at h
  simp only [bind_eq_ok, pure_eq_ok, require_eq_ok, orReject_eq_ok] at h
  obtain ⟨r, ⟨plan, hplan, _, hst, price, hp, _⟩, _⟩ := h
  exact ⟨plan, hplan, by simpa using hst, price, hp⟩

/-! ### the converse direction: the checks succeed when their conditions hold -/

theorem require_true' (m : String) : require true m = .ok () := rfl

theorem sessStartNodeCheck_node {s : State} {sub : Sub} {n : Node} {node snode : Addr} {gb hr : Int} {dep : Coin}
    (hk : sub.kind = .node snode gb hr dep) (h : n.addr = snode) : sessStartNodeCheck s sub n node = .ok () := by
  unfold sessStartNodeCheck
  simp only [hk, h, decide_true]
  rfl

theorem sessStartNodeCheck_plan {s : State} {sub : Sub} {n : Node} {node : Addr} {pid : Nat} {dn : Denom} {p : Plan}
    (hk : sub.kind = .plan pid dn) (hp : getPlan s pid = some p)
    (hl : hasPayoutForAccountByNode s p.prov node = .ok true) (hlink : s.nodeForPlan.has (pid, node) = true) :
    sessStartNodeCheck s sub n node = .ok () := by
  unfold sessStartNodeCheck
  simp only [hk, hp, orReject, pure_bind', hl, ok_bind, hlink, require_true']

theorem sessStartQuotaCheck_of {s : State} {sub : Sub} {acc : Addr}
    (h1 : match sub.kind with | .node _ _ _ _ => acc = sub.addr | .plan _ _ => True)
    (h2 : isHourly sub = true ∨ ∃ a, s.allocs.get (sub.id, acc) = some a ∧ a.used < a.granted) :
    sessStartQuotaCheck s sub acc = .ok () := by
  have tail : (if isHourly sub = true then pure () else do
            let a ← orReject (s.allocs.get (sub.id, acc)) "allocation not found"
            require (decide (a.used < a.granted)) "invalid allocation" : M Unit) = .ok () := by
    rcases h2 with h2 | ⟨a, ha, hlt⟩
    · simp only [h2, if_true]; rfl
    · split
      · rfl
      · simp only [ha, orReject, pure_bind', hlt, decide_true, require_true']
  unfold sessStartQuotaCheck
  cases hk : sub.kind with
  | node snode gb hr dep =>
    simp only [hk] at h1 ⊢
    have hd : decide (acc = sub.addr) = true := by simp [h1]
    simp only [hd, require_true', ok_bind]
    exact tail
  | plan pid dn =>
    simp only []
    exact tail

/-- The pending hook cannot panic when every indexed session exists; it touches no payout. -/
theorem hookFold_ok (l : List Nat) :
    ∀ (s : State), (∀ sid ∈ l, (s.sessions.get sid).isSome) →
      ∃ s', l.foldlM (fun (s : State) (sid : Nat) => do
        let x ← orPanic (s.sessions.get sid) "session for subscription key does not exist"
        pure (if x.status = Status.StatusActive then sessionToPending s x else s)) s = .ok s' ∧ s'.payouts = s.payouts := by
  induction l with
  | nil => intro s _; exact ⟨s, rfl, rfl⟩
  | cons a rest ih =>
    intro s hs
    obtain ⟨x, hx⟩ := Option.isSome_iff_exists.mp (hs a (by simp))
    have hrest : ∀ sid ∈ rest, ((if x.status = Status.StatusActive then sessionToPending s x else s).sessions.get sid).isSome := by
      intro sid hm
      have h0 := hs sid (by simp [hm])
      split
      · show ((s.sessions.set x.id _).get sid).isSome
        rw [Tbl.get_set]
        split
        · rfl
        · exact h0
      · exact h0
    obtain ⟨s', h1, h2⟩ := ih _ hrest
    refine ⟨s', ?_, ?_⟩
    · simp only [List.foldlM, hx, orPanic]
      exact h1
    · rw [h2]; split <;> rfl

/-! ### records are never deleted by a message -/

theorem getProvider_setProvider_some {s s' : State} {p : Provider} (h : setProvider s p = .ok s') :
    ∃ q, getProvider s' p.addr = some q := by
  unfold setProvider at h
  split at h <;> simp only [pure_eq_ok, gopanic_ne_ok] at h
  · subst h
    refine ⟨p, ?_⟩
    unfold getProvider
    simp only [Tbl.get_set_eq]
  · subst h
    unfold getProvider
    cases hg : s.provActive.get p.addr with
    | some q => exact ⟨q, rfl⟩
    | none => exact ⟨p, by simp only [Tbl.get_set_eq]⟩

theorem getNode_setNode_some {s s' : State} {n : Node} (h : setNode s n = .ok s') :
    ∃ q, getNode s' n.addr = some q := by
  unfold setNode at h
  split at h <;> simp only [pure_eq_ok, gopanic_ne_ok] at h
  · subst h
    refine ⟨n, ?_⟩
    unfold getNode
    simp only [Tbl.get_set_eq]
  · subst h
    unfold getNode
    cases hg : s.nodeActive.get n.addr with
    | some q => exact ⟨q, rfl⟩
    | none => exact ⟨n, by simp only [Tbl.get_set_eq]⟩

theorem provRegister_exists {s s' : State} {frm : Addr} {n i w d : Bytes} (h : provRegister s frm n i w d = .ok s') :
    ∃ q, getProvider s' frm = some q := by
  unfold provRegister at h
  simp only [bind_eq_ok, pure_eq_ok, require_eq_ok] at h
  obtain ⟨_, _, s1, h1, s2, h2, rfl⟩ := h
  exact getProvider_setProvider_some h2

theorem provUpdate_exists {s s' : State} {frm : Addr} {n i w d : Bytes} {st : Status} (hk : KeysOK s)
    (h : provUpdate s frm n i w d st = .ok s') : ∃ q, getProvider s' frm = some q := by
  unfold provUpdate at h
  simp only [bind_eq_ok, pure_eq_ok, orReject_eq_ok] at h
  obtain ⟨p, hp, s3, h3, rfl⟩ := h
  have := getProvider_setProvider_some h3
  rw [provUpdated_addr, hk.getProvider hp] at this
  exact this

theorem nodeRegister_exists {s s' : State} {frm : Addr} {gb hr : Coins} {url : Bytes} (h : nodeRegister s frm gb hr url = .ok s') :
    ∃ q, getNode s' frm = some q := by
  unfold nodeRegister at h
  simp only [bind_eq_ok, pure_eq_ok, require_eq_ok] at h
  obtain ⟨_, _, _, _, _, _, s1, h1, s2, h2, rfl⟩ := h
  exact getNode_setNode_some h2

theorem nodeUpdate_exists {s s' : State} {frm : Addr} {gb hr : Option Coins} {url : Bytes} (hk : KeysOK s)
    (h : nodeUpdate s frm gb hr url = .ok s') : ∃ q, getNode s' frm = some q := by
  unfold nodeUpdate at h
  simp only [bind_eq_ok, pure_eq_ok, require_eq_ok, orReject_eq_ok] at h
  obtain ⟨_, _, _, _, n, hn, s1, h1, rfl⟩ := h
  have := getNode_setNode_some h1
  rw [nodeUpdated_addr_D, hk.getNode hn] at this
  exact this

theorem nodeStatus_exists {s s' : State} {frm : Addr} {st : Status} (hk : KeysOK s)
    (h : nodeStatus s frm st = .ok s') : ∃ q, getNode s' frm = some q := by
  unfold nodeStatus at h
  simp only [bind_eq_ok, pure_eq_ok, orReject_eq_ok] at h
  obtain ⟨n, hn, s5, h5, rfl⟩ := h
  have := getNode_setNode_some h5
  simp only [hk.getNode hn] at this
  exact this

end Hub.Model
