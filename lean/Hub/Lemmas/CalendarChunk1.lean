import Hub.Lemmas.CalendarDefs
/- Chunk 1 of the complete day-of-era table: entries [1 * 9131, (1 + 1) * 9131), evaluated by the kernel. -/
namespace Hub.Lemmas.Calendar

theorem chunk1 : allFrom entryOK (1 * 9131) 9131 = true := by decide +kernel

end Hub.Lemmas.Calendar
