import Hub.Lemmas.CalendarInvDefs
/- Quarter 3 of the second day-of-era table: entries [12 * 9131, 16 * 9131), evaluated by the kernel. -/
namespace Hub.Lemmas.Calendar

theorem invChunk12 : allFrom invOK (12 * 9131) 9131 = true := by decide +kernel
theorem invChunk13 : allFrom invOK (13 * 9131) 9131 = true := by decide +kernel
theorem invChunk14 : allFrom invOK (14 * 9131) 9131 = true := by decide +kernel
theorem invChunk15 : allFrom invOK (15 * 9131) 9131 = true := by decide +kernel

end Hub.Lemmas.Calendar
