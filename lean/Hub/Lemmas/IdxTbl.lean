import Hub.Lemmas.Effects
import Hub.Model.Run
/-
Helper lemmas for the structural invariants (`CountInv`, `RecInv`, `NodeIdx`):
* `Tbl.has` after `set` / `erase` (index tables are `Tbl κ Unit`);
* `Tbl.All P t`: every entry of a table satisfies `P key value`, with the closure lemmas for
  `set`, `erase`, weakening;
* the *wide* money frame `MFrame` (a step that touches only bank, supply, deposits, events) and the
  frame lemma of every money-moving sub-step, proved without any `MoneyInv` hypothesis.
-/
namespace Hub.Model
open Hub.SDK

namespace Tbl
variable {κ α : Type} [DecidableEq κ]

theorem has_set_A (t : Tbl κ α) (k k' : κ) (v : α) : has (set t k v) k' = (decide (k = k') || has t k') := by
  unfold has; rw [get_set]
  by_cases h : k = k' <;> simp [h]

theorem has_erase_A (t : Tbl κ α) (k k' : κ) : has (erase t k) k' = (!decide (k = k') && has t k') := by
  unfold has; rw [get_erase]
  by_cases h : k = k' <;> simp [h]

theorem has_set_iff_A (t : Tbl κ α) (k k' : κ) (v : α) : has (set t k v) k' = true ↔ (k = k' ∨ has t k' = true) := by
  rw [has_set_A]; simp

theorem has_erase_iff_A (t : Tbl κ α) (k k' : κ) : has (erase t k) k' = true ↔ (k ≠ k' ∧ has t k' = true) := by
  rw [has_erase_A]; simp

@[simp] theorem has_nil_A (k : κ) : has ([] : Tbl κ α) k = false := rfl

theorem has_of_get_A {t : Tbl κ α} {k : κ} {v : α} (h : get t k = some v) : has t k = true := by
  unfold has; rw [h]; rfl

theorem has_unit_iff (t : Tbl κ Unit) (k : κ) : has t k = true ↔ get t k = some () := by
  rw [has_iff]; constructor
  · rintro ⟨v, hv⟩; exact hv
  · intro h; exact ⟨(), h⟩

theorem mem_keys_iff_has_A (t : Tbl κ α) (k : κ) : k ∈ t.keys ↔ has t k = true := by
  rw [has_iff]; unfold keys
  exact ⟨get_of_mem_keys, fun ⟨_, hv⟩ => mem_keys_of_get hv⟩

/-- Every entry of the table satisfies `P key value`. -/
def All (P : κ → α → Prop) (t : Tbl κ α) : Prop := ∀ k v, get t k = some v → P k v

theorem All.nil (P : κ → α → Prop) : All P ([] : Tbl κ α) := by
  intro k v h; simp at h

theorem All.set {P : κ → α → Prop} {t : Tbl κ α} {k : κ} {v : α} (h : All P t) (hk : P k v) : All P (set t k v) := by
  intro k' v' hg
  rw [get_set] at hg
  by_cases e : k = k'
  · simp only [e, if_true, Option.some.injEq] at hg; subst hg; subst e; exact hk
  · simp only [e, if_false] at hg; exact h k' v' hg

theorem All.erase {P : κ → α → Prop} {t : Tbl κ α} {k : κ} (h : All P t) : All P (erase t k) := by
  intro k' v' hg
  rw [get_erase] at hg
  by_cases e : k = k'
  · simp [e] at hg
  · simp only [e, if_false] at hg; exact h k' v' hg

theorem All.mono {P Q : κ → α → Prop} {t : Tbl κ α} (h : All P t) (hpq : ∀ k v, P k v → Q k v) : All Q t :=
  fun k v hg => hpq k v (h k v hg)

theorem All.ite {P : κ → α → Prop} {c : Prop} [Decidable c] {a b : Tbl κ α} (ha : All P a) (hb : All P b) :
    All P (if c then a else b) := by
  split <;> assumption

/-- For an index table the `has` form of a bound is the `All` form. -/
theorem all_iff_has (P : κ → Prop) (t : Tbl κ α) : All (fun k _ => P k) t ↔ ∀ k, has t k = true → P k := by
  constructor
  · intro h k hk
    obtain ⟨v, hv⟩ := (has_iff t k).mp hk
    exact h k v hv
  · intro h k v hv
    exact h k (has_of_get_A hv)

end Tbl

/-! ### the wide money frame -/

/-- `s'` differs from `s` at most in bank, supply, deposits and events. -/
def MFrame (s s' : State) : Prop :=
  s' = { s with bank := s'.bank, supply := s'.supply, deposits := s'.deposits, events := s'.events }

theorem MFrame.refl (s : State) : MFrame s s := rfl

theorem MFrame.trans {a b c : State} (h1 : MFrame a b) (h2 : MFrame b c) : MFrame a c := by
  unfold MFrame at *
  rw [h2, h1]

theorem MoneyFrame.wide {s s' : State} (h : MoneyFrame s s') : MFrame s s' := by
  unfold MoneyFrame at h; unfold MFrame; rw [h]

theorem MFrame.emit (s : State) (e : Event) : MFrame s (emit s e) := rfl

theorem sendCoins_mframe {s s' : State} {f t : Addr} {c : Coin} (h : sendCoins s f t c = .ok s') : MFrame s s' :=
  (sendCoins_frame h).wide

theorem fundCommunityPool_mframe {s s' : State} {f : Addr} {c : Coin} (h : fundCommunityPool s f c = .ok s') :
    MFrame s s' := by
  unfold fundCommunityPool at h
  split at h
  · rw [pure_eq_ok] at h; rw [← h]; exact MFrame.refl s
  · exact sendCoins_mframe h

theorem depositAdd_mframe {s s' : State} {f t : Addr} {c : Coin} (h : depositAdd s f t c = .ok s') : MFrame s s' := by
  unfold depositAdd at h
  simp only [bind_eq_ok, pure_eq_ok, require_eq_ok] at h
  obtain ⟨s1, hs1, _, _, rfl⟩ := h
  exact (sendCoins_mframe hs1).trans rfl

theorem putDeposit_mframe (s : State) (a : Addr) (cs : Coins) : MFrame s (putDeposit s a cs) := by
  unfold putDeposit; split <;> rfl

theorem sendModuleToAccount_mframe {s s' : State} {m t : Addr} {c : Coin} (h : sendModuleToAccount s m t c = .ok s') :
    MFrame s s' := by
  unfold sendModuleToAccount at h
  split at h
  · simp [reject] at h
  · exact sendCoins_mframe h

theorem depositToAccount_mframe {s s' : State} {f t : Addr} {c : Coin} (h : depositToAccount s f t c = .ok s') :
    MFrame s s' := by
  unfold depositToAccount at h
  simp only [bind_eq_ok, pure_eq_ok, require_eq_ok, orReject_eq_ok] at h
  obtain ⟨cur, _, _, _, s1, hs1, rfl⟩ := h
  exact (sendModuleToAccount_mframe hs1).trans ((putDeposit_mframe s1 f _).trans (MFrame.emit _ _))

theorem depositToModule_mframe {s s' : State} {f m : Addr} {c : Coin} (h : depositToModule s f m c = .ok s') :
    MFrame s s' := by
  unfold depositToModule at h
  simp only [bind_eq_ok, pure_eq_ok, require_eq_ok, orReject_eq_ok] at h
  obtain ⟨cur, _, _, _, s1, hs1, rfl⟩ := h
  exact (sendCoins_mframe hs1).trans ((putDeposit_mframe s1 f _).trans (MFrame.emit _ _))

theorem sendCoin_mframe {s s' : State} {f t : Addr} {c : Coin} (h : sendCoin s f t c = .ok s') : MFrame s s' := by
  unfold sendCoin at h
  split at h
  · rw [pure_eq_ok] at h; rw [← h]; exact MFrame.refl s
  · exact sendCoins_mframe h

theorem sendCoinFromAccountToModule_mframe {s s' : State} {f t : Addr} {c : Coin}
    (h : sendCoinFromAccountToModule s f t c = .ok s') : MFrame s s' := by
  unfold sendCoinFromAccountToModule at h
  split at h
  · rw [pure_eq_ok] at h; rw [← h]; exact MFrame.refl s
  · exact sendCoins_mframe h

theorem addDeposit_mframe {s s' : State} {a : Addr} {c : Coin} (h : addDeposit s a c = .ok s') : MFrame s s' := by
  unfold addDeposit at h
  split at h
  · rw [pure_eq_ok] at h; rw [← h]; exact MFrame.refl s
  · exact depositAdd_mframe h

theorem subtractDeposit_mframe {s s' : State} {a : Addr} {c : Coin} (h : subtractDeposit s a c = .ok s') :
    MFrame s s' := by
  unfold subtractDeposit at h
  split at h
  · rw [pure_eq_ok] at h; rw [← h]; exact MFrame.refl s
  · exact depositToAccount_mframe h

theorem sendCoinFromDepositToAccount_mframe {s s' : State} {f t : Addr} {c : Coin}
    (h : sendCoinFromDepositToAccount s f t c = .ok s') : MFrame s s' := by
  unfold sendCoinFromDepositToAccount at h
  split at h
  · rw [pure_eq_ok] at h; rw [← h]; exact MFrame.refl s
  · exact depositToAccount_mframe h

theorem sendCoinFromDepositToModule_mframe {s s' : State} {f t : Addr} {c : Coin}
    (h : sendCoinFromDepositToModule s f t c = .ok s') : MFrame s s' := by
  unfold sendCoinFromDepositToModule at h
  split at h
  · rw [pure_eq_ok] at h; rw [← h]; exact MFrame.refl s
  · exact depositToModule_mframe h

theorem setBalance_mframe (s : State) (a : Addr) (d : Denom) (v : Int) : MFrame s (setBalance s a d v) := rfl

theorem setSupply_mframe (s : State) (d : Denom) (v : Int) : MFrame s (setSupply s d v) := rfl

theorem mintCoins_mframe {s s' : State} {m : Addr} {c : Coin} (h : mintCoins s m c = .ok s') : MFrame s s' := by
  unfold mintCoins at h
  simp only [bind_eq_ok, pure_eq_ok] at h
  obtain ⟨nb, _, ns, _, rfl⟩ := h
  rfl

theorem sweepDenom_mframe (s : State) (d : Denom) : MFrame s (sweepDenom s d) := rfl

theorem distrSweep_mframe (s : State) : MFrame s (distrSweep s) := by
  unfold distrSweep
  exact foldl_inv (MFrame s) sweepDenom (fun s1 d h => h.trans (sweepDenom_mframe s1 d)) _ s (MFrame.refl s)

theorem addBalance_mframe (s : State) (b : Addr × Denom × Int) : MFrame s (addBalance s b) := by
  unfold addBalance
  split
  · exact MFrame.refl s
  · rfl

theorem genesis_mframe (g : Genesis) : MFrame g.base g.state := by
  unfold Genesis.state
  exact foldl_inv (MFrame g.base) addBalance (fun s1 b h => h.trans (addBalance_mframe s1 b)) _ _ (MFrame.refl _)

end Hub.Model
