import Hub.Lemmas.Money
/-
Every message handler and every hook step preserves the money invariant (C01).
-/
namespace Hub.Model
open Hub.SDK
variable {σ : Tbl Denom Int}
open Hub.Generated (Status AmountForBytes GetProportionOfCoin Gigabyte)

/-- The part of the state `MoneyInv` reads. -/
structure MoneyView where
  bank : Tbl (Addr × Denom) Int
  supply : Tbl Denom Int
  deposits : Tbl Addr Coins
  planActive : Tbl Nat Plan
  planInactive : Tbl Nat Plan

def view (s : State) : MoneyView := ⟨s.bank, s.supply, s.deposits, s.planActive, s.planInactive⟩

theorem MoneyInv.of_view {s s' : State} (h : view s' = view s) (hi : MoneyInv σ s) : MoneyInv σ s' := by
  have hb : s'.bank = s.bank := congrArg MoneyView.bank h
  have hs : s'.supply = s.supply := congrArg MoneyView.supply h
  have hd : s'.deposits = s.deposits := congrArg MoneyView.deposits h
  have hpa : s'.planActive = s.planActive := congrArg MoneyView.planActive h
  have hpi : s'.planInactive = s.planInactive := congrArg MoneyView.planInactive h
  refine ⟨?_, ?_, ?_, ?_, ?_, ?_, hs.trans hi.supplyEq⟩
  · intro d
    have := hi.backed d
    unfold balance totalDeposits at *
    rw [hb, hd]; exact this
  · rw [hd]; exact hi.depNodup
  · intro a cs hg; rw [hd] at hg; exact hi.depNonneg a cs hg
  · rw [hb]; exact hi.bankNodup
  · intro d
    have := hi.supplyOK d
    unfold supplyOf bankTotal at *
    rw [hb, hs]; exact this
  · intro id p hp
    rw [hpa, hpi] at hp; exact hi.provOK id p hp

@[simp] theorem view_emit (s : State) (e : Event) : view (emit s e) = view s := rfl
@[simp] theorem view_setAllocation (s : State) (a : Alloc) : view (setAllocation s a) = view s := rfl
@[simp] theorem view_insertPayout (s : State) (p : Payout) : view (insertPayout s p) = view s := rfl

theorem view_of_moneyFrame {s s' : State} (h : MoneyFrame s s') :
    (view s').planActive = (view s).planActive ∧ (view s').planInactive = (view s).planInactive := by
  unfold MoneyFrame at h; rw [h]; exact ⟨rfl, rfl⟩

theorem setProvider_view {s s' : State} {p : Provider} (h : setProvider s p = .ok s') : view s' = view s := by
  unfold setProvider at h
  split at h <;> simp only [pure_eq_ok, gopanic_ne_ok] at h <;> (try subst h) <;> first | rfl | contradiction

theorem setNode_view {s s' : State} {n : Node} (h : setNode s n = .ok s') : view s' = view s := by
  unfold setNode at h
  split at h <;> simp only [pure_eq_ok, gopanic_ne_ok] at h <;> (try subst h) <;> first | rfl | contradiction

/-- the zero-coin short-circuit wrappers -/
theorem fundCommunityPool_inv {s s' : State} {f : Addr} {c : Coin} (h : fundCommunityPool s f c = .ok s') (hi : MoneyInv σ s)
    (hf : f ≠ depositAddr) : MoneyInv σ s' ∧ MoneyFrame s s' := by
  unfold fundCommunityPool at h
  split at h
  · rw [pure_eq_ok] at h; subst h; exact ⟨hi, rfl⟩
  · exact ⟨sendCoins_inv h hi hf (by decide), sendCoins_frame h⟩

theorem addDeposit_inv {s s' : State} {a : Addr} {c : Coin} (h : addDeposit s a c = .ok s') (hi : MoneyInv σ s)
    (ha : a ≠ depositAddr) : MoneyInv σ s' ∧ MoneyFrame s s' := by
  unfold addDeposit at h
  split at h
  · rw [pure_eq_ok] at h; subst h; exact ⟨hi, rfl⟩
  · exact depositAdd_inv h hi ha

theorem subtractDeposit_inv {s s' : State} {a : Addr} {c : Coin} (h : subtractDeposit s a c = .ok s') (hi : MoneyInv σ s) :
    MoneyInv σ s' ∧ MoneyFrame s s' := by
  unfold subtractDeposit at h
  split at h
  · rw [pure_eq_ok] at h; subst h; exact ⟨hi, rfl⟩
  · exact depositToAccount_inv h hi

theorem sendCoinFromDepositToAccount_inv {s s' : State} {f t : Addr} {c : Coin}
    (h : sendCoinFromDepositToAccount s f t c = .ok s') (hi : MoneyInv σ s) : MoneyInv σ s' ∧ MoneyFrame s s' := by
  unfold sendCoinFromDepositToAccount at h
  split at h
  · rw [pure_eq_ok] at h; subst h; exact ⟨hi, rfl⟩
  · exact depositToAccount_inv h hi

theorem sendCoinFromDepositToModule_inv {s s' : State} {f m : Addr} {c : Coin}
    (h : sendCoinFromDepositToModule s f m c = .ok s') (hi : MoneyInv σ s) (hm : m ≠ depositAddr) :
    MoneyInv σ s' ∧ MoneyFrame s s' := by
  unfold sendCoinFromDepositToModule at h
  split at h
  · rw [pure_eq_ok] at h; subst h; exact ⟨hi, rfl⟩
  · exact depositToModule_inv h hi hm

theorem sendCoin_inv {s s' : State} {f t : Addr} {c : Coin} (h : sendCoin s f t c = .ok s') (hi : MoneyInv σ s)
    (hf : f ≠ depositAddr) (ht : t ≠ depositAddr) : MoneyInv σ s' ∧ MoneyFrame s s' := by
  unfold sendCoin at h
  split at h
  · rw [pure_eq_ok] at h; subst h; exact ⟨hi, rfl⟩
  · exact ⟨sendCoins_inv h hi hf ht, sendCoins_frame h⟩

theorem sendCoinFromAccountToModule_inv {s s' : State} {f m : Addr} {c : Coin}
    (h : sendCoinFromAccountToModule s f m c = .ok s') (hi : MoneyInv σ s) (hf : f ≠ depositAddr) (hm : m ≠ depositAddr) :
    MoneyInv σ s' ∧ MoneyFrame s s' := by
  unfold sendCoinFromAccountToModule at h
  split at h
  · rw [pure_eq_ok] at h; subst h; exact ⟨hi, rfl⟩
  · exact ⟨sendCoins_inv h hi hf hm, sendCoins_frame h⟩

/-! ### handlers that do not move money: the view is unchanged -/

theorem provRegister_inv {s s' : State} {frm : Addr} {n i w d : Bytes} (h : provRegister s frm n i w d = .ok s')
    (hi : MoneyInv σ s) (hf : frm ≠ depositAddr) : MoneyInv σ s' := by
  unfold provRegister at h
  simp only [bind_eq_ok, pure_eq_ok, require_eq_ok] at h
  obtain ⟨_, _, s1, h1, s2, h2, rfl⟩ := h
  have i1 := (fundCommunityPool_inv h1 hi hf).1
  exact MoneyInv.of_view (s := s1) (by rw [← setProvider_view h2]; rfl) i1

theorem provUpdate_inv {s s' : State} {frm : Addr} {n i w d : Bytes} {st : Status} (h : provUpdate s frm n i w d st = .ok s')
    (hi : MoneyInv σ s) : MoneyInv σ s' := by
  unfold provUpdate at h
  simp only [bind_eq_ok, pure_eq_ok, orReject_eq_ok] at h
  obtain ⟨p, _, s3, h3, rfl⟩ := h
  refine MoneyInv.of_view (s := s) ?_ hi
  have := setProvider_view h3
  rw [show view (emit s3 _) = view s3 from rfl, this]
  split <;> split <;> rfl

theorem nodeRegister_inv {s s' : State} {frm : Addr} {gb hr : Coins} {url : Bytes} (h : nodeRegister s frm gb hr url = .ok s')
    (hi : MoneyInv σ s) (hf : frm ≠ depositAddr) : MoneyInv σ s' := by
  unfold nodeRegister at h
  simp only [bind_eq_ok, pure_eq_ok, require_eq_ok] at h
  obtain ⟨_, _, _, _, _, _, s1, h1, s2, h2, rfl⟩ := h
  have i1 := (fundCommunityPool_inv h1 hi hf).1
  exact MoneyInv.of_view (s := s1) (by rw [← setNode_view h2]; rfl) i1

theorem nodeUpdate_inv {s s' : State} {frm : Addr} {gb hr : Option Coins} {url : Bytes} (h : nodeUpdate s frm gb hr url = .ok s')
    (hi : MoneyInv σ s) : MoneyInv σ s' := by
  unfold nodeUpdate at h
  simp only [bind_eq_ok, pure_eq_ok, require_eq_ok, orReject_eq_ok] at h
  obtain ⟨_, _, _, _, n, _, s1, h1, rfl⟩ := h
  exact MoneyInv.of_view (s := s) (by rw [← setNode_view h1]; rfl) hi

theorem nodeStatus_inv {s s' : State} {frm : Addr} {st : Status} (h : nodeStatus s frm st = .ok s')
    (hi : MoneyInv σ s) : MoneyInv σ s' := by
  unfold nodeStatus at h
  simp only [bind_eq_ok, pure_eq_ok, orReject_eq_ok] at h
  obtain ⟨n, _, s5, h5, rfl⟩ := h
  refine MoneyInv.of_view (s := s) ?_ hi
  rw [show view (emit s5 _) = view s5 from rfl, setNode_view h5]
  split <;> split <;> split <;> split <;> rfl


/-! ### subscriptions on nodes -/

theorem view_insertSub (s : State) (sub : Sub) : view (insertSub s sub) = view s := by
  unfold insertSub; cases sub.kind <;> rfl

theorem createNodeSubGB_inv {s : State} {acc node : Addr} {n : Node} {gb : Int} {denom : Denom} {r : State × Sub}
    (h : createNodeSubGB s acc node n gb denom = .ok r) (hi : MoneyInv σ s) (ha : acc ≠ depositAddr) : MoneyInv σ r.1 := by
  unfold createNodeSubGB at h
  simp only [bind_eq_ok, pure_eq_ok, orReject_eq_ok] at h
  obtain ⟨price, _, bytes, _, amt, _, dep, _, s1, h1, granted, _, rfl⟩ := h
  have i1 := (addDeposit_inv h1 hi ha).1
  exact MoneyInv.of_view (s := s1) (by simp only [view_emit, view_setAllocation, view_insertSub]) i1

theorem createNodeSubHr_inv {s : State} {acc node : Addr} {n : Node} {hr : Int} {denom : Denom} {r : State × Sub}
    (h : createNodeSubHr s acc node n hr denom = .ok r) (hi : MoneyInv σ s) (ha : acc ≠ depositAddr) : MoneyInv σ r.1 := by
  unfold createNodeSubHr at h
  simp only [bind_eq_ok, pure_eq_ok, orReject_eq_ok] at h
  obtain ⟨price, _, amt, _, dep, _, s1, h1, pa, _, hourly, _, rfl⟩ := h
  have i1 := (addDeposit_inv h1 hi ha).1
  exact MoneyInv.of_view (s := s1) (by simp only [view_insertPayout, view_insertSub]) i1

theorem nodeSubscribe_inv {s s' : State} {frm node : Addr} {gb hr : Int} {denom : Denom}
    (h : nodeSubscribe s frm node gb hr denom = .ok s') (hi : MoneyInv σ s) (hf : frm ≠ depositAddr) : MoneyInv σ s' := by
  unfold nodeSubscribe createSubscriptionForNode at h
  simp only [bind_eq_ok, pure_eq_ok, require_eq_ok, orReject_eq_ok] at h
  obtain ⟨_, _, _, _, r, ⟨n, _, _, _, hr'⟩, rfl⟩ := h
  refine MoneyInv.of_view (s := r.1) rfl ?_
  split at hr'
  · exact createNodeSubGB_inv hr' hi hf
  · exact createNodeSubHr_inv hr' hi hf

/-! ### plans -/

theorem plans_setPlan {s s' : State} {p : Plan} (h : setPlan s p = .ok s') (id : Nat) (q : Plan)
    (hq : s'.planActive.get id = some q ∨ s'.planInactive.get id = some q) :
    q = p ∨ s.planActive.get id = some q ∨ s.planInactive.get id = some q := by
  unfold setPlan at h
  split at h <;> simp only [pure_eq_ok, gopanic_ne_ok] at h
  · subst h
    simp only [Tbl.get_set] at hq
    by_cases e : p.id = id
    · simp only [e, if_true] at hq
      rcases hq with hq | hq
      · left; exact (Option.some.inj hq).symm
      · right; right; exact hq
    · simp only [e, if_false] at hq; right; exact hq
  · subst h
    simp only [Tbl.get_set] at hq
    by_cases e : p.id = id
    · simp only [e, if_true] at hq
      rcases hq with hq | hq
      · right; left; exact hq
      · left; exact (Option.some.inj hq).symm
    · simp only [e, if_false] at hq; right; exact hq

theorem setPlan_money {s s' : State} {p : Plan} (h : setPlan s p = .ok s') :
    s'.bank = s.bank ∧ s'.supply = s.supply ∧ s'.deposits = s.deposits := by
  unfold setPlan at h
  split at h <;> simp only [pure_eq_ok, gopanic_ne_ok] at h <;> (try subst h) <;> first | exact ⟨rfl, rfl, rfl⟩ | contradiction

/-- A state whose money tables are those of `s` and whose plans all have acceptable providers. -/
theorem MoneyInv.of_money {s s' : State} (hb : s'.bank = s.bank) (hs : s'.supply = s.supply) (hd : s'.deposits = s.deposits)
    (hp : ∀ id p, (s'.planActive.get id = some p ∨ s'.planInactive.get id = some p) → p.prov ≠ depositAddr) (hi : MoneyInv σ s) : MoneyInv σ s' := by
  refine ⟨?_, ?_, ?_, ?_, ?_, hp, hs.trans hi.supplyEq⟩
  · intro d
    have := hi.backed d
    unfold balance totalDeposits at *
    rw [hb, hd]; exact this
  · rw [hd]; exact hi.depNodup
  · intro a cs hg; rw [hd] at hg; exact hi.depNonneg a cs hg
  · rw [hb]; exact hi.bankNodup
  · intro d
    have := hi.supplyOK d
    unfold supplyOf bankTotal at *
    rw [hb, hs]; exact this

theorem planCreate_inv {s s' : State} {frm : Addr} {dur : Dur} {gb : Int} {prices : Coins}
    (h : planCreate s frm dur gb prices = .ok s') (hi : MoneyInv σ s) (hf : frm ≠ depositAddr) : MoneyInv σ s' := by
  unfold planCreate at h
  simp only [bind_eq_ok, pure_eq_ok, require_eq_ok] at h
  obtain ⟨_, _, s1, h1, rfl⟩ := h
  obtain ⟨mb, ms, md⟩ := setPlan_money h1
  refine MoneyInv.of_money (s := s) mb ms md ?_ hi
  intro id q hq
  rcases plans_setPlan h1 id q hq with e | e | e
  · rw [e]; exact hf
  · exact hi.provOK id q (Or.inl e)
  · exact hi.provOK id q (Or.inr e)

theorem planStatus_inv {s s' : State} {frm : Addr} {id : Nat} {st : Status}
    (h : planStatus s frm id st = .ok s') (hi : MoneyInv σ s) : MoneyInv σ s' := by
  unfold planStatus at h
  simp only [bind_eq_ok, pure_eq_ok, require_eq_ok, orReject_eq_ok] at h
  obtain ⟨p, hp, _, _, s3, h3, rfl⟩ := h
  obtain ⟨mb, ms, md⟩ := setPlan_money h3
  have hpp : p.prov ≠ depositAddr := hi.provOK id p (getPlan_mem hp)
  refine MoneyInv.of_money (s := s) ?_ ?_ ?_ ?_ hi
  · rw [show (emit s3 _).bank = s3.bank from rfl, mb]; split <;> split <;> rfl
  · rw [show (emit s3 _).supply = s3.supply from rfl, ms]; split <;> split <;> rfl
  · rw [show (emit s3 _).deposits = s3.deposits from rfl, md]; split <;> split <;> rfl
  · intro id' q hq
    rcases plans_setPlan h3 id' q hq with e | e | e
    · rw [e]; exact hpp
    · refine hi.provOK id' q ?_
      revert e; split <;> split <;> intro e
      all_goals first
        | exact Or.inl e
        | (simp only [Tbl.get_erase] at e; split at e <;> first | contradiction | exact Or.inl e)
    · refine hi.provOK id' q ?_
      revert e; split <;> split <;> intro e
      all_goals first
        | exact Or.inr e
        | (simp only [Tbl.get_erase] at e; split at e <;> first | contradiction | exact Or.inr e)

theorem planLink_inv {s s' : State} {frm : Addr} {id : Nat} {node : Addr}
    (h : planLink s frm id node = .ok s') (hi : MoneyInv σ s) : MoneyInv σ s' := by
  unfold planLink at h
  simp only [bind_eq_ok, pure_eq_ok, require_eq_ok, orReject_eq_ok] at h
  obtain ⟨p, _, _, _, _, _, rfl⟩ := h
  exact MoneyInv.of_view (s := s) rfl hi

theorem planUnlink_inv {s s' : State} {frm : Addr} {id : Nat} {node : Addr}
    (h : planUnlink s frm id node = .ok s') (hi : MoneyInv σ s) : MoneyInv σ s' := by
  unfold planUnlink at h
  simp only [bind_eq_ok, pure_eq_ok, require_eq_ok, orReject_eq_ok] at h
  obtain ⟨p, _, _, _, rfl⟩ := h
  exact MoneyInv.of_view (s := s) rfl hi


theorem planSubscribe_inv {s s' : State} {frm : Addr} {id : Nat} {denom : Denom}
    (h : planSubscribe s frm id denom = .ok s') (hi : MoneyInv σ s) (hf : frm ≠ depositAddr) : MoneyInv σ s' := by
  unfold planSubscribe createSubscriptionForPlan at h
  simp only [bind_eq_ok, pure_eq_ok, require_eq_ok, requireP_eq_ok, orReject_eq_ok] at h
  obtain ⟨r, ⟨plan, hplan, _, _, price, _, reward, _, s1, h1, payAmt, _, _, _, s2, h2, granted, _, rfl⟩, rfl⟩ := h
  have hpp : plan.prov ≠ depositAddr := hi.provOK id plan (getPlan_mem hplan)
  have i1 := (sendCoinFromAccountToModule_inv h1 hi hf (by decide)).1
  have i2 := (sendCoin_inv h2 i1 hf hpp).1
  exact MoneyInv.of_view (s := s2) (by simp only [view_emit, view_setAllocation, view_insertSub]) i2

/-! ### the session-pending hook and subscription messages -/

theorem view_sessionToPending (s : State) (x : Session) : view (sessionToPending s x) = view s := rfl

theorem foldlM_view {α : Type} (f : State → α → M State) (hf : ∀ s a s', f s a = .ok s' → view s' = view s)
    (l : List α) (s s' : State) (h : l.foldlM f s = .ok s') : view s' = view s := by
  induction l generalizing s with
  | nil => simp only [List.foldlM, pure_eq_ok] at h; rw [h]
  | cons a rest ih =>
    simp only [List.foldlM, bind_eq_ok] at h
    obtain ⟨s1, h1, h2⟩ := h
    rw [ih s1 h2, hf s a s1 h1]

theorem subscriptionInactivePendingHook_view {s s' : State} {id : Nat}
    (h : subscriptionInactivePendingHook s id = .ok s') : view s' = view s := by
  unfold subscriptionInactivePendingHook at h
  refine foldlM_view _ ?_ _ s s' h
  intro s0 sid s1 h1
  simp only [bind_eq_ok, pure_eq_ok, orPanic_eq_ok] at h1
  obtain ⟨x, _, rfl⟩ := h1
  split <;> rfl

theorem detachPayout_view {s s' : State} {sub : Sub} {b : Bool} (h : detachPayout s sub b = .ok s') : view s' = view s := by
  unfold detachPayout at h
  split at h
  · simp only [bind_eq_ok, pure_eq_ok] at h
    obtain ⟨p, _, rfl⟩ := h
    rfl
  · rw [pure_eq_ok] at h; rw [h]

theorem view_subToPending (s : State) (sub : Sub) (d : Dur) : view (subToPending s sub d).1 = view s := rfl

theorem subCancel_inv {s s' : State} {frm : Addr} {id : Nat} (h : subCancel s frm id = .ok s') (hi : MoneyInv σ s) : MoneyInv σ s' := by
  unfold subCancel at h
  simp only [bind_eq_ok, require_eq_ok, orReject_eq_ok] at h
  obtain ⟨sub, _, _, _, _, _, s1, h1, h2⟩ := h
  refine MoneyInv.of_view (s := s) ?_ hi
  rw [detachPayout_view h2, view_subToPending, subscriptionInactivePendingHook_view h1]
  rfl

theorem subAllocate_inv {s s' : State} {frm toA : Addr} {id : Nat} {bytes : Int}
    (h : subAllocate s frm id toA bytes = .ok s') (hi : MoneyInv σ s) : MoneyInv σ s' := by
  unfold subAllocate at h
  simp only [bind_eq_ok, pure_eq_ok, require_eq_ok, orReject_eq_ok] at h
  obtain ⟨sub, _, _, _, _, _, fa, _, _, _, g, _, u, _, av, _, _, _, fg, _, _, _, _, _, rfl⟩ := h
  refine MoneyInv.of_view (s := s) ?_ hi
  simp only [view_emit, view_setAllocation]
  split <;> rfl

theorem sessStart_inv {s s' : State} {frm : TextAddr} {id : Nat} {node : Addr}
    (h : sessStart s frm id node = .ok s') (hi : MoneyInv σ s) : MoneyInv σ s' := by
  unfold sessStart at h
  simp only [bind_eq_ok, pure_eq_ok, require_eq_ok, orReject_eq_ok] at h
  obtain ⟨sub, _, _, _, n, _, _, _, _, _, _, _, latest, _, _, _, rfl⟩ := h
  exact MoneyInv.of_view (s := s) rfl hi

theorem sessUpdate_inv {s s' : State} {frm : Addr} {id : Nat} {up down dur : Int} {sig : SigSpec}
    (h : sessUpdate s frm id up down dur sig = .ok s') (hi : MoneyInv σ s) : MoneyInv σ s' := by
  unfold sessUpdate at h
  simp only [bind_eq_ok, pure_eq_ok, require_eq_ok, orReject_eq_ok] at h
  obtain ⟨x, _, _, _, _, _, _, _, rfl⟩ := h
  refine MoneyInv.of_view (s := s) ?_ hi
  simp only [view_emit]
  split <;> rfl

theorem sessEnd_inv {s s' : State} {frm : Addr} {id : Nat} (h : sessEnd s frm id = .ok s') (hi : MoneyInv σ s) : MoneyInv σ s' := by
  unfold sessEnd at h
  simp only [bind_eq_ok, pure_eq_ok, require_eq_ok, orReject_eq_ok] at h
  obtain ⟨x, _, _, _, _, _, rfl⟩ := h
  exact MoneyInv.of_view (s := s) rfl hi


/-! ### swap: the only place coins are created -/

theorem supplyOf_setSupply (s : State) (d d' : Denom) (v : Int) :
    supplyOf (setSupply s d v) d' = if d = d' then v else supplyOf s d' := by
  unfold supplyOf setSupply
  by_cases hv : v = 0
  · simp only [hv, if_true, Tbl.get_erase]
    by_cases h : d = d' <;> simp [h]
  · simp only [hv, if_false, Tbl.get_set]
    by_cases h : d = d' <;> simp [h]

/-- `MintCoins` into a module account other than the escrow: supply and the sum of balances grow by
the same amount; nothing else changes. -/
theorem mintCoins_inv {s s' : State} {m : Addr} {c : Coin} (h : mintCoins s m c = .ok s') (hi : MoneyInv σ s)
    (hm : m ≠ depositAddr) : MoneyInv s'.supply s' ∧ (∀ d, supplyOf s' d = supplyOf s d + (if c.denom = d then c.amount else 0)) := by
  unfold mintCoins at h
  simp only [bind_eq_ok, pure_eq_ok] at h
  obtain ⟨nb, hnb, ns, hns, rfl⟩ := h
  have e1 := SInt.add_eq_ok hnb
  have e2 := SInt.add_eq_ok hns
  refine ⟨⟨?_, ?_, ?_, ?_, ?_, ?_, rfl⟩, ?_⟩
  · intro d
    show balance (setBalance s m c.denom nb) depositAddr d = totalDeposits s d
    rw [balance_setBalance, ← hi.backed d]
    simp [hm]
  · exact hi.depNodup
  · exact hi.depNonneg
  · exact bankNodup_setBalance hi.bankNodup _ _ _
  · intro d
    rw [supplyOf_setSupply]
    show _ = bankTotal (setBalance s m c.denom nb) d
    rw [bankTotal_setBalance hi.bankNodup, e1, e2, ← hi.supplyOK d]
    by_cases hd : c.denom = d
    · subst hd; simp
    · simp [hd]; rfl
  · exact hi.provOK
  · intro d
    rw [supplyOf_setSupply, e2]
    by_cases hd : c.denom = d
    · subst hd; simp
    · simp [hd]; rfl

theorem swap_inv {s s' : State} {frm recv : Addr} {hash : Bytes} {amt : Int}
    (h : swap s frm hash recv amt = .ok s') (hi : MoneyInv σ s) : MoneyInv s'.supply s' := by
  unfold swap sendModuleToAccount at h
  simp only [bind_eq_ok, pure_eq_ok, require_eq_ok] at h
  obtain ⟨_, _, _, _, _, _, q, _, coin, _, s1, h1, s2, h2, rfl⟩ := h
  have i1 := (mintCoins_inv h1 hi (by decide)).1
  by_cases hb : isBlocked recv = true
  · simp [hb, reject] at h2
  · simp only [hb, if_false] at h2
    have hr : recv ≠ depositAddr := by
      intro e; rw [e] at hb; exact hb isBlocked_depositAddr
    have i2 := sendCoins_inv h2 i1 (by decide) hr
    have e : s2.supply = s1.supply := i2.supplyEq
    exact MoneyInv.of_view (s := s2) rfl (e ▸ i2)


/-! ### hooks -/

theorem foldlM_inv {α : Type} (P : State → Prop) (f : State → α → M State)
    (hf : ∀ s a s', f s a = .ok s' → P s → P s') (l : List α) (s s' : State)
    (h : l.foldlM f s = .ok s') (hp : P s) : P s' := by
  induction l generalizing s with
  | nil => simp only [List.foldlM, pure_eq_ok] at h; rw [← h]; exact hp
  | cons a rest ih =>
    simp only [List.foldlM, bind_eq_ok] at h
    obtain ⟨s1, h1, h2⟩ := h
    exact ih s1 h2 (hf s a s1 h1 hp)

theorem foldl_inv {α : Type} (P : State → Prop) (f : State → α → State)
    (hf : ∀ s a, P s → P (f s a)) (l : List α) (s : State) (hp : P s) : P (l.foldl f s) := by
  induction l generalizing s with
  | nil => exact hp
  | cons a rest ih => exact ih (f s a) (hf s a hp)

theorem sweepDenom_inv (s : State) (d : Denom) (hi : MoneyInv σ s) : MoneyInv σ (sweepDenom s d) := by
  unfold sweepDenom
  have hn1 := bankNodup_setBalance hi.bankNodup feeCollectorAddr d 0
  refine ⟨?_, hi.depNodup, hi.depNonneg, bankNodup_setBalance hn1 _ _ _, ?_, hi.provOK, hi.supplyEq⟩
  · intro d'
    rw [balance_setBalance, balance_setBalance]
    have h1 : ¬ (distrAddr = depositAddr ∧ d = d') := by intro h; exact absurd h.1 (by decide)
    have h2 : ¬ (feeCollectorAddr = depositAddr ∧ d = d') := by intro h; exact absurd h.1 (by decide)
    simp only [h1, h2, if_false]
    exact hi.backed d'
  · intro d'
    have hbd : balance (setBalance s feeCollectorAddr d 0) distrAddr d = balance s distrAddr d := by
      rw [balance_setBalance]
      have h3 : ¬ (feeCollectorAddr = distrAddr) := by decide
      simp [h3]
    rw [bankTotal_setBalance hn1, bankTotal_setBalance hi.bankNodup, hbd]
    have := hi.supplyOK d'
    show supplyOf s d' = _
    by_cases hd : d = d'
    · subst hd; simp only [if_true]; omega
    · simp only [hd, if_false]; omega

theorem distrSweep_inv (s : State) (hi : MoneyInv σ s) : MoneyInv σ (distrSweep s) := by
  unfold distrSweep
  exact foldl_inv (MoneyInv σ) sweepDenom (fun s d h => sweepDenom_inv s d h) _ s hi

theorem view_mintBeginBlock_go (l : List Inflation) (s : State) : view (mintBeginBlock.go s l) = view s := by
  induction l generalizing s with
  | nil => rfl
  | cons item rest ih =>
    unfold mintBeginBlock.go
    split
    · rfl
    · rw [ih]; rfl

theorem mintBeginBlock_inv (s : State) (hi : MoneyInv σ s) : MoneyInv σ (mintBeginBlock s) :=
  MoneyInv.of_view (view_mintBeginBlock_go _ s) hi

theorem payoutStep_inv {s s' : State} {k : Time × Nat} (h : payoutStep s k = .ok s') (hi : MoneyInv σ s) : MoneyInv σ s' := by
  unfold payoutStep at h
  simp only [bind_eq_ok, pure_eq_ok, requireP_eq_ok, orPanic_eq_ok] at h
  obtain ⟨item, _, reward, _, s2, h2, payAmt, _, _, _, s3, h3, rfl⟩ := h
  have i1 : MoneyInv σ { s with payQ := s.payQ.erase (item.nextAt, item.id) } := MoneyInv.of_view (s := s) rfl hi
  have i2 := (sendCoinFromDepositToModule_inv h2 i1 (by decide)).1
  have i3 := (sendCoinFromDepositToAccount_inv h3 i2).1
  refine MoneyInv.of_view (s := s3) ?_ i3
  split <;> rfl

theorem beginBlock_inv {s s' : State} {t : Time} (h : beginBlock s t = .ok s') (hi : MoneyInv σ s) : MoneyInv σ s' := by
  unfold beginBlock haltOf at h
  split at h <;> try contradiction
  rename_i s'' hs
  simp only [Except.ok.injEq] at h
  subst h
  unfold subscriptionBeginBlock at hs
  refine foldlM_inv (MoneyInv σ) _ ?_ _ _ _ hs ?_
  · intro s0 k s1 h1 hp
    rw [panicIfErr_eq_ok] at h1
    exact payoutStep_inv h1 hp
  · exact distrSweep_inv _ (mintBeginBlock_inv _ (MoneyInv.of_view (s := s) rfl hi))


/-! ### end of block -/

theorem nodeSweep_view {s s' : State} (h : nodeSweep s = .ok s') : view s' = view s := by
  unfold nodeSweep at h
  split at h
  · rw [pure_eq_ok] at h; rw [h]
  · refine foldlM_view _ ?_ _ s s' h
    intro s0 a s1 h1
    simp only [bind_eq_ok, pure_eq_ok, orPanic_eq_ok] at h1
    obtain ⟨item, _, s2, h2, rfl⟩ := h1
    rw [view_emit, setNode_view h2]

theorem nodeExpire_view {s s' : State} (h : nodeExpire s = .ok s') : view s' = view s := by
  unfold nodeExpire at h
  refine foldlM_view _ ?_ _ s s' h
  intro s0 k s1 h1
  unfold nodeExpireStep at h1
  simp only [bind_eq_ok, pure_eq_ok, orPanic_eq_ok] at h1
  obtain ⟨item, _, s3, h3, rfl⟩ := h1
  rw [view_emit, setNode_view h3]; rfl

theorem settleSession_inv {s s' : State} {x : Session} {acc node : Addr} {dep : Coin} {gb b a : Int}
    (h : settleSession s x acc node dep gb b a = .ok s') (hi : MoneyInv σ s) : MoneyInv σ s' := by
  unfold settleSession at h
  simp only [bind_eq_ok, pure_eq_ok, requireP_eq_ok] at h
  obtain ⟨price, _, prev, _, cur, _, payAmt, _, payment, _, reward, _, s1, h1, netAmt, _, _, _, s2, h2, rfl⟩ := h
  have i1 := (sendCoinFromDepositToModule_inv h1 hi (by decide)).1
  have i2 := (sendCoinFromDepositToAccount_inv h2 i1).1
  exact MoneyInv.of_view (s := s2) rfl i2

theorem sessionInactiveHook_inv {s s' : State} {id : Nat} {acc node : Addr} {bytes : Int}
    (h : sessionInactiveHook s id acc node bytes = .ok s') (hi : MoneyInv σ s) : MoneyInv σ s' := by
  unfold sessionInactiveHook at h
  simp only [bind_eq_ok, require_eq_ok, orReject_eq_ok] at h
  obtain ⟨x, _, _, _, sub, _, h⟩ := h
  split at h
  · rw [pure_eq_ok] at h; rw [← h]; exact hi
  · simp only [bind_eq_ok, orReject_eq_ok] at h
    obtain ⟨a, _, used, _, h⟩ := h
    split at h
    · exact settleSession_inv h (MoneyInv.of_view (s := s) rfl hi)
    · rw [pure_eq_ok] at h; rw [← h]; exact MoneyInv.of_view (s := s) rfl hi

theorem sessionStep_inv {s s' : State} {k : Time × Nat} (h : sessionStep s k = .ok s') (hi : MoneyInv σ s) : MoneyInv σ s' := by
  unfold sessionStep at h
  simp only [bind_eq_ok, orPanic_eq_ok] at h
  obtain ⟨item, _, h⟩ := h
  split at h
  · rw [pure_eq_ok] at h; rw [← h]; exact MoneyInv.of_view (s := s) rfl hi
  · simp only [bind_eq_ok, pure_eq_ok, panicIfErr_eq_ok] at h
    obtain ⟨bytes, _, s2, h2, rfl⟩ := h
    exact MoneyInv.of_view (s := s2) rfl (sessionInactiveHook_inv h2 (MoneyInv.of_view (s := s) rfl hi))

theorem refundSub_inv {s s' : State} {item : Sub} (h : refundSub s item = .ok s') (hi : MoneyInv σ s) : MoneyInv σ s' := by
  unfold refundSub at h
  split at h
  · simp only [bind_eq_ok] at h
    obtain ⟨s1, h1, h2⟩ := h
    have i1 : MoneyInv σ s1 := by
      split at h1
      · unfold refundGB at h1
        simp only [bind_eq_ok, pure_eq_ok, orPanic_eq_ok, panicIfErr_eq_ok] at h1
        obtain ⟨price, _, a, _, paid, _, ra, _, refund, _, s2, h2', rfl⟩ := h1
        exact MoneyInv.of_view (s := s2) rfl (subtractDeposit_inv h2' hi).1
      · rw [pure_eq_ok] at h1; rw [← h1]; exact hi
    split at h2
    · unfold refundHr at h2
      simp only [bind_eq_ok, pure_eq_ok, orPanic_eq_ok, panicIfErr_eq_ok] at h2
      obtain ⟨p, _, ra, _, refund, _, s2, h2', rfl⟩ := h2
      exact MoneyInv.of_view (s := s2) rfl (subtractDeposit_inv h2' i1).1
    · rw [pure_eq_ok] at h2; rw [← h2]; exact i1
  · rw [pure_eq_ok] at h; rw [← h]; exact hi

theorem view_removeAllocs (l : List Addr) (s : State) (id : Nat) : view (removeAllocs s id l) = view s := by
  unfold removeAllocs
  induction l generalizing s with
  | nil => rfl
  | cons a rest ih => rw [List.foldl_cons, ih]; rfl

theorem view_removeSubRecords (s : State) (item : Sub) : view (removeSubRecords s item) = view s := by
  unfold removeSubRecords
  cases item.kind with
  | node n g h d => rfl
  | plan pid dn =>
    simp only [view_emit]
    exact (rfl : view { (removeAllocs _ _ _) with subs := _ } = view (removeAllocs _ _ _)).trans (view_removeAllocs _ _ _)

theorem removePayout_view {s s' : State} {item : Sub} (h : removePayout s item = .ok s') : view s' = view s := by
  unfold removePayout at h
  split at h
  · simp only [bind_eq_ok, pure_eq_ok, orPanic_eq_ok] at h
    obtain ⟨p, _, rfl⟩ := h
    rfl
  · rw [pure_eq_ok] at h; rw [h]

theorem subscriptionStep_inv {s s' : State} {d : Dur} {k : Time × Nat} (h : subscriptionStep d s k = .ok s')
    (hi : MoneyInv σ s) : MoneyInv σ s' := by
  unfold subscriptionStep at h
  simp only [bind_eq_ok, orPanic_eq_ok] at h
  obtain ⟨item, _, h⟩ := h
  split at h
  · simp only [bind_eq_ok, panicIfErr_eq_ok] at h
    obtain ⟨s2, h2, h3⟩ := h
    refine MoneyInv.of_view (s := s) ?_ hi
    rw [detachPayout_view h3, view_subToPending, subscriptionInactivePendingHook_view h2]; rfl
  · simp only [bind_eq_ok] at h
    obtain ⟨s2, h2, h3⟩ := h
    have i2 := refundSub_inv h2 (MoneyInv.of_view (s := s) rfl hi)
    exact MoneyInv.of_view (s := s2) (by rw [removePayout_view h3, view_removeSubRecords]) i2

theorem endBlock_inv {s s' : State} (h : endBlock s = .ok s') (hi : MoneyInv σ s) : MoneyInv σ s' := by
  unfold endBlock haltOf at h
  split at h <;> try contradiction
  rename_i s2 hs
  split at hs <;> try contradiction
  rename_i s3 hs3
  simp only [Except.ok.injEq] at hs h
  subst hs; subst h
  unfold vpnEndBlock nodeEndBlock at hs3
  simp only [bind_eq_ok] at hs3
  obtain ⟨s1, ⟨sa, ha, hb⟩, sb, hc, hd⟩ := hs3
  have i1 : MoneyInv σ s1 := MoneyInv.of_view (s := s) (by rw [nodeExpire_view hb, nodeSweep_view ha]; rfl) hi
  have i2 : MoneyInv σ sb := foldlM_inv (MoneyInv σ) _ (fun s0 k s1 h1 hp => sessionStep_inv h1 hp) _ _ _ hc i1
  have i3 : MoneyInv σ s3 := foldlM_inv (MoneyInv σ) _ (fun s0 k s1 h1 hp => subscriptionStep_inv h1 hp) _ _ _ hd i2
  exact MoneyInv.of_view (s := s3) rfl i3

end Hub.Model
