import Hub.Lemmas.Money
/-
Every message handler and every hook step preserves the money invariant (C01).
-/
namespace Hub.Model
open Hub.SDK
open Hub.Generated (Status AmountForBytes GetProportionOfCoin Gigabyte)

/-- The part of the state `MoneyInv` reads. -/
structure MoneyView where
  bank : Tbl (Addr × Denom) Int
  supply : Tbl Denom Int
  deposits : Tbl Addr Coins
  planActive : Tbl Nat Plan
  planInactive : Tbl Nat Plan

def view (s : State) : MoneyView := ⟨s.bank, s.supply, s.deposits, s.planActive, s.planInactive⟩

theorem MoneyInv.of_view {s s' : State} (h : view s' = view s) (hi : MoneyInv s) : MoneyInv s' := by
  have hb : s'.bank = s.bank := congrArg MoneyView.bank h
  have hs : s'.supply = s.supply := congrArg MoneyView.supply h
  have hd : s'.deposits = s.deposits := congrArg MoneyView.deposits h
  have hpa : s'.planActive = s.planActive := congrArg MoneyView.planActive h
  have hpi : s'.planInactive = s.planInactive := congrArg MoneyView.planInactive h
  refine ⟨?_, ?_, ?_, ?_, ?_, ?_⟩
  · intro d
    have := hi.backed d
    unfold balance totalDeposits at *
    rw [hb, hd]; exact this
  · rw [hd]; exact hi.depNodup
  · intro a cs hg; rw [hd] at hg; exact hi.depNonneg a cs hg
  · rw [hb]; exact hi.bankNodup
  · intro d
    have := hi.supplyOK d
    unfold supplyOf bankTotal at *
    rw [hb, hs]; exact this
  · intro id p hp
    rw [hpa, hpi] at hp; exact hi.provOK id p hp

@[simp] theorem view_emit (s : State) (e : Event) : view (emit s e) = view s := rfl
@[simp] theorem view_setAllocation (s : State) (a : Alloc) : view (setAllocation s a) = view s := rfl
@[simp] theorem view_insertPayout (s : State) (p : Payout) : view (insertPayout s p) = view s := rfl

theorem view_of_moneyFrame {s s' : State} (h : MoneyFrame s s') :
    (view s').planActive = (view s).planActive ∧ (view s').planInactive = (view s).planInactive := by
  unfold MoneyFrame at h; rw [h]; exact ⟨rfl, rfl⟩

theorem setProvider_view {s s' : State} {p : Provider} (h : setProvider s p = .ok s') : view s' = view s := by
  unfold setProvider at h
  split at h <;> simp only [pure_eq_ok, gopanic_ne_ok] at h <;> (try subst h) <;> first | rfl | contradiction

theorem setNode_view {s s' : State} {n : Node} (h : setNode s n = .ok s') : view s' = view s := by
  unfold setNode at h
  split at h <;> simp only [pure_eq_ok, gopanic_ne_ok] at h <;> (try subst h) <;> first | rfl | contradiction

/-- the zero-coin short-circuit wrappers -/
theorem fundCommunityPool_inv {s s' : State} {f : Addr} {c : Coin} (h : fundCommunityPool s f c = .ok s') (hi : MoneyInv s)
    (hf : f ≠ depositAddr) : MoneyInv s' ∧ MoneyFrame s s' := by
  unfold fundCommunityPool at h
  split at h
  · rw [pure_eq_ok] at h; subst h; exact ⟨hi, rfl⟩
  · exact ⟨sendCoins_inv h hi hf (by decide), sendCoins_frame h⟩

theorem addDeposit_inv {s s' : State} {a : Addr} {c : Coin} (h : addDeposit s a c = .ok s') (hi : MoneyInv s)
    (ha : a ≠ depositAddr) : MoneyInv s' ∧ MoneyFrame s s' := by
  unfold addDeposit at h
  split at h
  · rw [pure_eq_ok] at h; subst h; exact ⟨hi, rfl⟩
  · exact depositAdd_inv h hi ha

theorem subtractDeposit_inv {s s' : State} {a : Addr} {c : Coin} (h : subtractDeposit s a c = .ok s') (hi : MoneyInv s) :
    MoneyInv s' ∧ MoneyFrame s s' := by
  unfold subtractDeposit at h
  split at h
  · rw [pure_eq_ok] at h; subst h; exact ⟨hi, rfl⟩
  · exact depositToAccount_inv h hi

theorem sendCoinFromDepositToAccount_inv {s s' : State} {f t : Addr} {c : Coin}
    (h : sendCoinFromDepositToAccount s f t c = .ok s') (hi : MoneyInv s) : MoneyInv s' ∧ MoneyFrame s s' := by
  unfold sendCoinFromDepositToAccount at h
  split at h
  · rw [pure_eq_ok] at h; subst h; exact ⟨hi, rfl⟩
  · exact depositToAccount_inv h hi

theorem sendCoinFromDepositToModule_inv {s s' : State} {f m : Addr} {c : Coin}
    (h : sendCoinFromDepositToModule s f m c = .ok s') (hi : MoneyInv s) (hm : m ≠ depositAddr) :
    MoneyInv s' ∧ MoneyFrame s s' := by
  unfold sendCoinFromDepositToModule at h
  split at h
  · rw [pure_eq_ok] at h; subst h; exact ⟨hi, rfl⟩
  · exact depositToModule_inv h hi hm

theorem sendCoin_inv {s s' : State} {f t : Addr} {c : Coin} (h : sendCoin s f t c = .ok s') (hi : MoneyInv s)
    (hf : f ≠ depositAddr) (ht : t ≠ depositAddr) : MoneyInv s' ∧ MoneyFrame s s' := by
  unfold sendCoin at h
  split at h
  · rw [pure_eq_ok] at h; subst h; exact ⟨hi, rfl⟩
  · exact ⟨sendCoins_inv h hi hf ht, sendCoins_frame h⟩

theorem sendCoinFromAccountToModule_inv {s s' : State} {f m : Addr} {c : Coin}
    (h : sendCoinFromAccountToModule s f m c = .ok s') (hi : MoneyInv s) (hf : f ≠ depositAddr) (hm : m ≠ depositAddr) :
    MoneyInv s' ∧ MoneyFrame s s' := by
  unfold sendCoinFromAccountToModule at h
  split at h
  · rw [pure_eq_ok] at h; subst h; exact ⟨hi, rfl⟩
  · exact ⟨sendCoins_inv h hi hf hm, sendCoins_frame h⟩

/-! ### handlers that do not move money: the view is unchanged -/

theorem provRegister_inv {s s' : State} {frm : Addr} {n i w d : Bytes} (h : provRegister s frm n i w d = .ok s')
    (hi : MoneyInv s) (hf : frm ≠ depositAddr) : MoneyInv s' := by
  unfold provRegister at h
  simp only [bind_eq_ok, pure_eq_ok, require_eq_ok] at h
  obtain ⟨_, _, s1, h1, s2, h2, rfl⟩ := h
  have i1 := (fundCommunityPool_inv h1 hi hf).1
  exact MoneyInv.of_view (s := s1) (by rw [← setProvider_view h2]; rfl) i1

theorem provUpdate_inv {s s' : State} {frm : Addr} {n i w d : Bytes} {st : Status} (h : provUpdate s frm n i w d st = .ok s')
    (hi : MoneyInv s) : MoneyInv s' := by
  unfold provUpdate at h
  simp only [bind_eq_ok, pure_eq_ok, orReject_eq_ok] at h
  obtain ⟨p, _, s3, h3, rfl⟩ := h
  refine MoneyInv.of_view (s := s) ?_ hi
  have := setProvider_view h3
  rw [show view (emit s3 _) = view s3 from rfl, this]
  split <;> split <;> rfl

theorem nodeRegister_inv {s s' : State} {frm : Addr} {gb hr : Coins} {url : Bytes} (h : nodeRegister s frm gb hr url = .ok s')
    (hi : MoneyInv s) (hf : frm ≠ depositAddr) : MoneyInv s' := by
  unfold nodeRegister at h
  simp only [bind_eq_ok, pure_eq_ok, require_eq_ok] at h
  obtain ⟨_, _, _, _, _, _, s1, h1, s2, h2, rfl⟩ := h
  have i1 := (fundCommunityPool_inv h1 hi hf).1
  exact MoneyInv.of_view (s := s1) (by rw [← setNode_view h2]; rfl) i1

theorem nodeUpdate_inv {s s' : State} {frm : Addr} {gb hr : Option Coins} {url : Bytes} (h : nodeUpdate s frm gb hr url = .ok s')
    (hi : MoneyInv s) : MoneyInv s' := by
  unfold nodeUpdate at h
  simp only [bind_eq_ok, pure_eq_ok, require_eq_ok, orReject_eq_ok] at h
  obtain ⟨_, _, _, _, n, _, s1, h1, rfl⟩ := h
  exact MoneyInv.of_view (s := s) (by rw [← setNode_view h1]; rfl) hi

theorem nodeStatus_inv {s s' : State} {frm : Addr} {st : Status} (h : nodeStatus s frm st = .ok s')
    (hi : MoneyInv s) : MoneyInv s' := by
  unfold nodeStatus at h
  simp only [bind_eq_ok, pure_eq_ok, orReject_eq_ok] at h
  obtain ⟨n, _, s5, h5, rfl⟩ := h
  refine MoneyInv.of_view (s := s) ?_ hi
  rw [show view (emit s5 _) = view s5 from rfl, setNode_view h5]
  split <;> split <;> split <;> split <;> rfl


/-! ### subscriptions on nodes -/

theorem view_insertSub (s : State) (sub : Sub) : view (insertSub s sub) = view s := by
  unfold insertSub; cases sub.kind <;> rfl

theorem createNodeSubGB_inv {s : State} {acc node : Addr} {n : Node} {gb : Int} {denom : Denom} {r : State × Sub}
    (h : createNodeSubGB s acc node n gb denom = .ok r) (hi : MoneyInv s) (ha : acc ≠ depositAddr) : MoneyInv r.1 := by
  unfold createNodeSubGB at h
  simp only [bind_eq_ok, pure_eq_ok, orReject_eq_ok] at h
  obtain ⟨price, _, bytes, _, amt, _, dep, _, s1, h1, granted, _, rfl⟩ := h
  have i1 := (addDeposit_inv h1 hi ha).1
  exact MoneyInv.of_view (s := s1) (by simp only [view_emit, view_setAllocation, view_insertSub]) i1

theorem createNodeSubHr_inv {s : State} {acc node : Addr} {n : Node} {hr : Int} {denom : Denom} {r : State × Sub}
    (h : createNodeSubHr s acc node n hr denom = .ok r) (hi : MoneyInv s) (ha : acc ≠ depositAddr) : MoneyInv r.1 := by
  unfold createNodeSubHr at h
  simp only [bind_eq_ok, pure_eq_ok, orReject_eq_ok] at h
  obtain ⟨price, _, amt, _, dep, _, s1, h1, pa, _, hourly, _, rfl⟩ := h
  have i1 := (addDeposit_inv h1 hi ha).1
  exact MoneyInv.of_view (s := s1) (by simp only [view_insertPayout, view_insertSub]) i1

theorem nodeSubscribe_inv {s s' : State} {frm node : Addr} {gb hr : Int} {denom : Denom}
    (h : nodeSubscribe s frm node gb hr denom = .ok s') (hi : MoneyInv s) (hf : frm ≠ depositAddr) : MoneyInv s' := by
  unfold nodeSubscribe createSubscriptionForNode at h
  simp only [bind_eq_ok, pure_eq_ok, require_eq_ok, orReject_eq_ok] at h
  obtain ⟨_, _, _, _, r, ⟨n, _, _, _, hr'⟩, rfl⟩ := h
  refine MoneyInv.of_view (s := r.1) rfl ?_
  split at hr'
  · exact createNodeSubGB_inv hr' hi hf
  · exact createNodeSubHr_inv hr' hi hf

/-! ### plans -/

theorem plans_setPlan {s s' : State} {p : Plan} (h : setPlan s p = .ok s') (id : Nat) (q : Plan)
    (hq : s'.planActive.get id = some q ∨ s'.planInactive.get id = some q) :
    q = p ∨ s.planActive.get id = some q ∨ s.planInactive.get id = some q := by
  unfold setPlan at h
  split at h <;> simp only [pure_eq_ok, gopanic_ne_ok] at h
  · subst h
    simp only [Tbl.get_set] at hq
    by_cases e : p.id = id
    · simp only [e, if_true] at hq
      rcases hq with hq | hq
      · left; exact (Option.some.inj hq).symm
      · right; right; exact hq
    · simp only [e, if_false] at hq; right; exact hq
  · subst h
    simp only [Tbl.get_set] at hq
    by_cases e : p.id = id
    · simp only [e, if_true] at hq
      rcases hq with hq | hq
      · right; left; exact hq
      · left; exact (Option.some.inj hq).symm
    · simp only [e, if_false] at hq; right; exact hq

theorem setPlan_money {s s' : State} {p : Plan} (h : setPlan s p = .ok s') :
    s'.bank = s.bank ∧ s'.supply = s.supply ∧ s'.deposits = s.deposits := by
  unfold setPlan at h
  split at h <;> simp only [pure_eq_ok, gopanic_ne_ok] at h <;> (try subst h) <;> first | exact ⟨rfl, rfl, rfl⟩ | contradiction

/-- A state whose money tables are those of `s` and whose plans all have acceptable providers. -/
theorem MoneyInv.of_money {s s' : State} (hb : s'.bank = s.bank) (hs : s'.supply = s.supply) (hd : s'.deposits = s.deposits)
    (hp : ∀ id p, (s'.planActive.get id = some p ∨ s'.planInactive.get id = some p) → p.prov ≠ depositAddr) (hi : MoneyInv s) : MoneyInv s' := by
  refine ⟨?_, ?_, ?_, ?_, ?_, hp⟩
  · intro d
    have := hi.backed d
    unfold balance totalDeposits at *
    rw [hb, hd]; exact this
  · rw [hd]; exact hi.depNodup
  · intro a cs hg; rw [hd] at hg; exact hi.depNonneg a cs hg
  · rw [hb]; exact hi.bankNodup
  · intro d
    have := hi.supplyOK d
    unfold supplyOf bankTotal at *
    rw [hb, hs]; exact this

theorem planCreate_inv {s s' : State} {frm : Addr} {dur : Dur} {gb : Int} {prices : Coins}
    (h : planCreate s frm dur gb prices = .ok s') (hi : MoneyInv s) (hf : frm ≠ depositAddr) : MoneyInv s' := by
  unfold planCreate at h
  simp only [bind_eq_ok, pure_eq_ok, require_eq_ok] at h
  obtain ⟨_, _, s1, h1, rfl⟩ := h
  obtain ⟨mb, ms, md⟩ := setPlan_money h1
  refine MoneyInv.of_money (s := s) mb ms md ?_ hi
  intro id q hq
  rcases plans_setPlan h1 id q hq with e | e | e
  · rw [e]; exact hf
  · exact hi.provOK id q (Or.inl e)
  · exact hi.provOK id q (Or.inr e)

theorem planStatus_inv {s s' : State} {frm : Addr} {id : Nat} {st : Status}
    (h : planStatus s frm id st = .ok s') (hi : MoneyInv s) : MoneyInv s' := by
  unfold planStatus at h
  simp only [bind_eq_ok, pure_eq_ok, require_eq_ok, orReject_eq_ok] at h
  obtain ⟨p, hp, _, _, s3, h3, rfl⟩ := h
  obtain ⟨mb, ms, md⟩ := setPlan_money h3
  have hpp : p.prov ≠ depositAddr := hi.provOK id p (getPlan_mem hp)
  refine MoneyInv.of_money (s := s) ?_ ?_ ?_ ?_ hi
  · rw [show (emit s3 _).bank = s3.bank from rfl, mb]; split <;> split <;> rfl
  · rw [show (emit s3 _).supply = s3.supply from rfl, ms]; split <;> split <;> rfl
  · rw [show (emit s3 _).deposits = s3.deposits from rfl, md]; split <;> split <;> rfl
  · intro id' q hq
    rcases plans_setPlan h3 id' q hq with e | e | e
    · rw [e]; exact hpp
    · refine hi.provOK id' q ?_
      revert e; split <;> split <;> intro e
      all_goals first
        | exact Or.inl e
        | (simp only [Tbl.get_erase] at e; split at e <;> first | contradiction | exact Or.inl e)
    · refine hi.provOK id' q ?_
      revert e; split <;> split <;> intro e
      all_goals first
        | exact Or.inr e
        | (simp only [Tbl.get_erase] at e; split at e <;> first | contradiction | exact Or.inr e)

theorem planLink_inv {s s' : State} {frm : Addr} {id : Nat} {node : Addr}
    (h : planLink s frm id node = .ok s') (hi : MoneyInv s) : MoneyInv s' := by
  unfold planLink at h
  simp only [bind_eq_ok, pure_eq_ok, require_eq_ok, orReject_eq_ok] at h
  obtain ⟨p, _, _, _, _, _, rfl⟩ := h
  exact MoneyInv.of_view (s := s) rfl hi

theorem planUnlink_inv {s s' : State} {frm : Addr} {id : Nat} {node : Addr}
    (h : planUnlink s frm id node = .ok s') (hi : MoneyInv s) : MoneyInv s' := by
  unfold planUnlink at h
  simp only [bind_eq_ok, pure_eq_ok, require_eq_ok, orReject_eq_ok] at h
  obtain ⟨p, _, _, _, rfl⟩ := h
  exact MoneyInv.of_view (s := s) rfl hi


theorem planSubscribe_inv {s s' : State} {frm : Addr} {id : Nat} {denom : Denom}
    (h : planSubscribe s frm id denom = .ok s') (hi : MoneyInv s) (hf : frm ≠ depositAddr) : MoneyInv s' := by
  unfold planSubscribe createSubscriptionForPlan at h
  simp only [bind_eq_ok, pure_eq_ok, require_eq_ok, requireP_eq_ok, orReject_eq_ok] at h
  obtain ⟨r, ⟨plan, hplan, _, _, price, _, reward, _, s1, h1, payAmt, _, _, _, s2, h2, granted, _, rfl⟩, rfl⟩ := h
  have hpp : plan.prov ≠ depositAddr := hi.provOK id plan (getPlan_mem hplan)
  have i1 := (sendCoinFromAccountToModule_inv h1 hi hf (by decide)).1
  have i2 := (sendCoin_inv h2 i1 hf hpp).1
  exact MoneyInv.of_view (s := s2) (by simp only [view_emit, view_setAllocation, view_insertSub]) i2

/-! ### the session-pending hook and subscription messages -/

theorem view_sessionToPending (s : State) (x : Session) : view (sessionToPending s x) = view s := rfl

theorem foldlM_view {α : Type} (f : State → α → M State) (hf : ∀ s a s', f s a = .ok s' → view s' = view s)
    (l : List α) (s s' : State) (h : l.foldlM f s = .ok s') : view s' = view s := by
  induction l generalizing s with
  | nil => simp only [List.foldlM, pure_eq_ok] at h; rw [h]
  | cons a rest ih =>
    simp only [List.foldlM, bind_eq_ok] at h
    obtain ⟨s1, h1, h2⟩ := h
    rw [ih s1 h2, hf s a s1 h1]

theorem subscriptionInactivePendingHook_view {s s' : State} {id : Nat}
    (h : subscriptionInactivePendingHook s id = .ok s') : view s' = view s := by
  unfold subscriptionInactivePendingHook at h
  refine foldlM_view _ ?_ _ s s' h
  intro s0 sid s1 h1
  simp only [bind_eq_ok, pure_eq_ok, orPanic_eq_ok] at h1
  obtain ⟨x, _, rfl⟩ := h1
  split <;> rfl

theorem detachPayout_view {s s' : State} {sub : Sub} {b : Bool} (h : detachPayout s sub b = .ok s') : view s' = view s := by
  unfold detachPayout at h
  split at h
  · simp only [bind_eq_ok, pure_eq_ok] at h
    obtain ⟨p, _, rfl⟩ := h
    rfl
  · rw [pure_eq_ok] at h; rw [h]

theorem view_subToPending (s : State) (sub : Sub) (d : Dur) : view (subToPending s sub d).1 = view s := rfl

theorem subCancel_inv {s s' : State} {frm : Addr} {id : Nat} (h : subCancel s frm id = .ok s') (hi : MoneyInv s) : MoneyInv s' := by
  unfold subCancel at h
  simp only [bind_eq_ok, require_eq_ok, orReject_eq_ok] at h
  obtain ⟨sub, _, _, _, _, _, s1, h1, h2⟩ := h
  refine MoneyInv.of_view (s := s) ?_ hi
  rw [detachPayout_view h2, view_subToPending, subscriptionInactivePendingHook_view h1]
  rfl

theorem subAllocate_inv {s s' : State} {frm toA : Addr} {id : Nat} {bytes : Int}
    (h : subAllocate s frm id toA bytes = .ok s') (hi : MoneyInv s) : MoneyInv s' := by
  unfold subAllocate at h
  simp only [bind_eq_ok, pure_eq_ok, require_eq_ok, orReject_eq_ok] at h
  obtain ⟨sub, _, _, _, _, _, fa, _, g, _, u, _, av, _, _, _, fg, _, _, _, _, _, rfl⟩ := h
  refine MoneyInv.of_view (s := s) ?_ hi
  simp only [view_emit, view_setAllocation]
  split <;> rfl

theorem sessStart_inv {s s' : State} {frm : TextAddr} {id : Nat} {node : Addr}
    (h : sessStart s frm id node = .ok s') (hi : MoneyInv s) : MoneyInv s' := by
  unfold sessStart at h
  simp only [bind_eq_ok, pure_eq_ok, require_eq_ok, orReject_eq_ok] at h
  obtain ⟨sub, _, _, _, n, _, _, _, _, _, _, _, latest, _, _, _, rfl⟩ := h
  exact MoneyInv.of_view (s := s) rfl hi

theorem sessUpdate_inv {s s' : State} {frm : Addr} {id : Nat} {up down dur : Int} {sig : SigSpec}
    (h : sessUpdate s frm id up down dur sig = .ok s') (hi : MoneyInv s) : MoneyInv s' := by
  unfold sessUpdate at h
  simp only [bind_eq_ok, pure_eq_ok, require_eq_ok, orReject_eq_ok] at h
  obtain ⟨x, _, _, _, _, _, _, _, rfl⟩ := h
  refine MoneyInv.of_view (s := s) ?_ hi
  simp only [view_emit]
  split <;> rfl

theorem sessEnd_inv {s s' : State} {frm : Addr} {id : Nat} (h : sessEnd s frm id = .ok s') (hi : MoneyInv s) : MoneyInv s' := by
  unfold sessEnd at h
  simp only [bind_eq_ok, pure_eq_ok, require_eq_ok, orReject_eq_ok] at h
  obtain ⟨x, _, _, _, _, _, rfl⟩ := h
  exact MoneyInv.of_view (s := s) rfl hi


/-! ### swap: the only place coins are created -/

theorem supplyOf_setSupply (s : State) (d d' : Denom) (v : Int) :
    supplyOf (setSupply s d v) d' = if d = d' then v else supplyOf s d' := by
  unfold supplyOf setSupply
  by_cases hv : v = 0
  · simp only [hv, if_true, Tbl.get_erase]
    by_cases h : d = d' <;> simp [h]
  · simp only [hv, if_false, Tbl.get_set]
    by_cases h : d = d' <;> simp [h]

/-- `MintCoins` into a module account other than the escrow: supply and the sum of balances grow by
the same amount; nothing else changes. -/
theorem mintCoins_inv {s s' : State} {m : Addr} {c : Coin} (h : mintCoins s m c = .ok s') (hi : MoneyInv s)
    (hm : m ≠ depositAddr) : MoneyInv s' ∧ (∀ d, supplyOf s' d = supplyOf s d + (if c.denom = d then c.amount else 0)) := by
  unfold mintCoins at h
  simp only [bind_eq_ok, pure_eq_ok] at h
  obtain ⟨nb, hnb, ns, hns, rfl⟩ := h
  have e1 := SInt.add_eq_ok hnb
  have e2 := SInt.add_eq_ok hns
  refine ⟨⟨?_, ?_, ?_, ?_, ?_, ?_⟩, ?_⟩
  · intro d
    show balance (setBalance s m c.denom nb) depositAddr d = totalDeposits s d
    rw [balance_setBalance, ← hi.backed d]
    simp [hm]
  · exact hi.depNodup
  · exact hi.depNonneg
  · exact bankNodup_setBalance hi.bankNodup _ _ _
  · intro d
    rw [supplyOf_setSupply]
    show _ = bankTotal (setBalance s m c.denom nb) d
    rw [bankTotal_setBalance hi.bankNodup, e1, e2, ← hi.supplyOK d]
    by_cases hd : c.denom = d
    · subst hd; simp
    · simp [hd]; rfl
  · exact hi.provOK
  · intro d
    rw [supplyOf_setSupply, e2]
    by_cases hd : c.denom = d
    · subst hd; simp
    · simp [hd]; rfl

theorem swap_inv {s s' : State} {frm recv : Addr} {hash : Bytes} {amt : Int}
    (h : swap s frm hash recv amt = .ok s') (hi : MoneyInv s) : MoneyInv s' := by
  unfold swap sendModuleToAccount at h
  simp only [bind_eq_ok, pure_eq_ok, require_eq_ok] at h
  obtain ⟨_, _, _, _, _, _, q, _, coin, _, s1, h1, s2, h2, rfl⟩ := h
  have i1 := (mintCoins_inv h1 hi (by decide)).1
  by_cases hb : isBlocked recv = true
  · simp [hb, reject] at h2
  · simp only [hb, if_false] at h2
    have hr : recv ≠ depositAddr := by
      intro e; rw [e] at hb; exact hb isBlocked_depositAddr
    exact MoneyInv.of_view (s := s2) rfl (sendCoins_inv h2 i1 (by decide) hr)

end Hub.Model
