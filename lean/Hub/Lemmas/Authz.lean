import Hub.Lemmas.MoneyHandlers
import Hub.Model.Run
/-
Authorisation lemmas (C07): what `deliver` does with a handler result, what an accepted
`ValidateBasic` says about the address texts, who the sender of an accepted message must be, and
which records each handler can touch (frames).
-/
namespace Hub.Model
open Hub.SDK
open Hub.Generated (Status AmountForBytes GetProportionOfCoin Gigabyte)

/-! ### `deliver` -/

/-- The state a handler runs in: the event buffer is cleared first. -/
abbrev clr (s : State) : State := { s with events := [] }

/-- `deliver` either commits the handler's result (when `ValidateBasic` and the handler both
succeed) or returns the untouched state (with the event buffer cleared) and a rejection. -/
theorem deliver_cases (s : State) (m : Msg) :
    (∃ s', m.validateBasic = .ok () ∧ m.handle (clr s) = .ok s' ∧ deliver s m = (s', .accept)) ∨
    (∃ msg, deliver s m = (clr s, .reject msg) ∧
      ¬ (m.validateBasic = .ok () ∧ ∃ s', m.handle (clr s) = .ok s')) := by
  unfold deliver
  simp only []
  cases hr : (do m.validateBasic; m.handle { s with events := [] } : M State) with
  | ok s' =>
    left
    simp only [bind_eq_ok] at hr
    obtain ⟨u, hu, hh⟩ := hr
    exact ⟨s', hu, hh, rfl⟩
  | error e =>
    right
    have hno : ¬ (m.validateBasic = .ok () ∧ ∃ s', m.handle (clr s) = .ok s') := by
      rintro ⟨hv, s', hh⟩
      have : (do m.validateBasic; m.handle { s with events := [] } : M State) = .ok s' :=
        bind_eq_ok.mpr ⟨(), hv, hh⟩
      rw [this] at hr
      cases hr
    cases e with
    | reject msg => exact ⟨msg, rfl, hno⟩
    | panic msg => exact ⟨"panic: " ++ msg, rfl, hno⟩

theorem deliver_accept {s : State} {m : Msg} (h : (deliver s m).2 = .accept) :
    m.validateBasic = .ok () ∧ m.handle (clr s) = .ok (deliver s m).1 := by
  rcases deliver_cases s m with ⟨s', hv, hh, hd⟩ | ⟨msg, hd, _⟩
  · rw [hd]; exact ⟨hv, hh⟩
  · rw [hd] at h; cases h

theorem deliver_not_accept {s : State} {m : Msg} (h : (deliver s m).2 ≠ .accept) :
    (deliver s m).1 = clr s := by
  rcases deliver_cases s m with ⟨s', hv, hh, hd⟩ | ⟨msg, hd, _⟩
  · rw [hd] at h; exact absurd rfl h
  · rw [hd]

/-- If the handler cannot succeed, the message is rejected and nothing changes. -/
theorem deliver_of_handle_fails {s : State} {m : Msg}
    (h : m.validateBasic = .ok () → ∀ s', m.handle (clr s) ≠ .ok s') :
    (deliver s m).2 ≠ .accept ∧ (deliver s m).1 = clr s := by
  rcases deliver_cases s m with ⟨s', hv, hh, hd⟩ | ⟨msg, hd, _⟩
  · exact absurd hh (h hv s')
  · rw [hd]; exact ⟨by simp, rfl⟩

/-- If `ValidateBasic` and the handler succeed, the message is accepted with the handler's state. -/
theorem deliver_of_ok {s s' : State} {m : Msg} (hv : m.validateBasic = .ok ()) (hh : m.handle (clr s) = .ok s') :
    deliver s m = (s', .accept) := by
  rcases deliver_cases s m with ⟨s'', _, hh', hd⟩ | ⟨msg, _, hno⟩
  · rw [hh] at hh'; cases hh'; exact hd
  · exact absurd ⟨hv, s', hh⟩ hno

/-! ### address texts -/

theorem needAddr_eq_ok {want : Role} {t : TextAddr} {a : Addr} (h : needAddr want t = .ok a) :
    t.role = want ∧ t.bad = false ∧ a = t.bytes ∧ t.bytes.length ≠ 0 ∧ t.bytes.length ≤ 255 := by
  unfold needAddr at h
  simp only [bind_eq_ok, require_eq_ok, orReject_eq_ok] at h
  obtain ⟨_, _, hp⟩ := h
  unfold TextAddr.parse at hp
  split at hp
  · cases hp
  · rename_i hc
    simp only [not_or, Decidable.not_not, Bool.not_eq_true] at hc
    obtain ⟨h1, h2, h3, h4⟩ := hc
    refine ⟨h2, h1, ?_, h3, by omega⟩
    cases hp; rfl

theorem needAddr_ok_of {want : Role} {t : TextAddr} (hr : t.role = want) (hb : t.bad = false)
    (h0 : t.bytes.length ≠ 0) (h255 : t.bytes.length ≤ 255) : needAddr want t = .ok t.bytes := by
  unfold needAddr
  have hne : (!t.bytes.isEmpty) = true := by
    cases hbs : t.bytes with
    | nil => simp [hbs] at h0
    | cons x r => rfl
  have hp : t.parse want = some t.bytes := by
    unfold TextAddr.parse
    have : ¬ (t.bad = true ∨ t.role ≠ want ∨ t.bytes.length = 0 ∨ t.bytes.length > 255) := by
      simp only [not_or, Decidable.not_not, Bool.not_eq_true]
      exact ⟨hb, hr, h0, by omega⟩
    simp only [this, if_false]
  simp only [hne, hp, require, orReject, if_true]
  rfl

/-- The text of the sender field. -/
def Msg.frm : Msg → TextAddr
  | .provRegister f .. | .provUpdate f .. | .nodeRegister f .. | .nodeUpdate f .. | .nodeStatus f ..
  | .nodeSubscribe f .. | .planCreate f .. | .planStatus f .. | .planLink f .. | .planUnlink f ..
  | .planSubscribe f .. | .subCancel f .. | .subAllocate f .. | .sessStart f .. | .sessUpdate f ..
  | .sessEnd f .. | .swap f .. => f

theorem Msg.sender_eq (m : Msg) : m.sender = m.frm.bytes := by cases m <;> rfl

/-! ### records are stored under their own key -/

/-- Well-formedness of the primary tables: every record is stored under the key it carries
(`SetNode` writes under `node.Address`, `SetPlan` under `plan.ID`, …).  True in every genesis state
of the domain (tables empty) and preserved by every message (`KeysOK_deliver`). -/
structure KeysOK (s : State) : Prop where
  provA : ∀ a p, s.provActive.get a = some p → p.addr = a
  provI : ∀ a p, s.provInactive.get a = some p → p.addr = a
  nodeA : ∀ a n, s.nodeActive.get a = some n → n.addr = a
  nodeI : ∀ a n, s.nodeInactive.get a = some n → n.addr = a
  planA : ∀ i p, s.planActive.get i = some p → p.id = i
  planI : ∀ i p, s.planInactive.get i = some p → p.id = i
  subs : ∀ i x, s.subs.get i = some x → x.id = i
  sess : ∀ i x, s.sessions.get i = some x → x.id = i
  allocs : ∀ k a, s.allocs.get k = some a → a.id = k.1 ∧ a.addr = k.2
  payouts : ∀ i p, s.payouts.get i = some p → p.id = i

theorem KeysOK.getProvider {s : State} (h : KeysOK s) {a : Addr} {p : Provider} (hp : getProvider s a = some p) : p.addr = a := by
  unfold Hub.Model.getProvider at hp
  cases ha : s.provActive.get a with
  | some q => simp only [ha] at hp; cases hp; exact h.provA a _ ha
  | none => simp only [ha] at hp; exact h.provI a p hp

theorem KeysOK.getNode {s : State} (h : KeysOK s) {a : Addr} {n : Node} (hn : getNode s a = some n) : n.addr = a := by
  unfold Hub.Model.getNode at hn
  cases ha : s.nodeActive.get a with
  | some q => simp only [ha] at hn; cases hn; exact h.nodeA a _ ha
  | none => simp only [ha] at hn; exact h.nodeI a n hn

theorem KeysOK.getPlan {s : State} (h : KeysOK s) {i : Nat} {p : Plan} (hp : getPlan s i = some p) : p.id = i := by
  rcases getPlan_mem hp with h1 | h1
  · exact h.planA i p h1
  · exact h.planI i p h1

theorem KeysOK.clr {s : State} (h : KeysOK s) : KeysOK (clr s) :=
  ⟨h.provA, h.provI, h.nodeA, h.nodeI, h.planA, h.planI, h.subs, h.sess, h.allocs, h.payouts⟩

/-! ### what an accepting handler has checked (guards) -/

theorem hasProvider_iff (s : State) (a : Addr) : hasProvider s a = true ↔ ∃ p, getProvider s a = some p := by
  unfold hasProvider getProvider Tbl.has
  cases s.provActive.get a <;> cases s.provInactive.get a <;> simp

theorem hasNode_iff (s : State) (a : Addr) : hasNode s a = true ↔ ∃ n, getNode s a = some n := by
  unfold hasNode getNode Tbl.has
  cases s.nodeActive.get a <;> cases s.nodeInactive.get a <;> simp

theorem hasProvider_eq_false_iff (s : State) (a : Addr) : hasProvider s a = false ↔ getProvider s a = none := by
  unfold hasProvider getProvider Tbl.has
  cases s.provActive.get a <;> cases s.provInactive.get a <;> simp

theorem hasNode_eq_false_iff (s : State) (a : Addr) : hasNode s a = false ↔ getNode s a = none := by
  unfold hasNode getNode Tbl.has
  cases s.nodeActive.get a <;> cases s.nodeInactive.get a <;> simp

theorem provRegister_guard {s s' : State} {frm : Addr} {n i w d : Bytes} (h : provRegister s frm n i w d = .ok s') :
    getProvider s frm = none ∧ ∃ s1, fundCommunityPool s frm s.params.provDeposit = .ok s1 := by
  unfold provRegister at h
  simp only [bind_eq_ok, pure_eq_ok, require_eq_ok] at h
  obtain ⟨_, hc, s1, h1, _⟩ := h
  exact ⟨(hasProvider_eq_false_iff s frm).mp (by simpa using hc), s1, h1⟩

theorem provUpdate_guard {s s' : State} {frm : Addr} {n i w d : Bytes} {st : Status} (h : provUpdate s frm n i w d st = .ok s') :
    ∃ p, getProvider s frm = some p := by
  unfold provUpdate at h
  simp only [bind_eq_ok, pure_eq_ok, orReject_eq_ok] at h
  obtain ⟨p, hp, _⟩ := h
  exact ⟨p, hp⟩

theorem nodeRegister_guard {s s' : State} {frm : Addr} {gb hr : Coins} {url : Bytes} (h : nodeRegister s frm gb hr url = .ok s') :
    pricesWithin s.params.maxGB s.params.minGB gb = true ∧ pricesWithin s.params.maxHr s.params.minHr hr = true ∧
    getNode s frm = none ∧ ∃ s1, fundCommunityPool s frm s.params.nodeDeposit = .ok s1 := by
  unfold nodeRegister at h
  simp only [bind_eq_ok, pure_eq_ok, require_eq_ok] at h
  obtain ⟨_, h1, _, h2, _, h3, s1, hs1, _⟩ := h
  exact ⟨h1, h2, (hasNode_eq_false_iff s frm).mp (by simpa using h3), s1, hs1⟩

theorem nodeUpdate_guard {s s' : State} {frm : Addr} {gb hr : Option Coins} {url : Bytes} (h : nodeUpdate s frm gb hr url = .ok s') :
    (∀ g, gb = some g → pricesWithin s.params.maxGB s.params.minGB g = true) ∧
    (∀ g, hr = some g → pricesWithin s.params.maxHr s.params.minHr g = true) ∧
    ∃ n, getNode s frm = some n := by
  unfold nodeUpdate at h
  simp only [bind_eq_ok, pure_eq_ok, require_eq_ok, orReject_eq_ok] at h
  obtain ⟨_, h1, _, h2, n, hn, _⟩ := h
  refine ⟨?_, ?_, n, hn⟩
  · intro g hg; subst hg; exact h1
  · intro g hg; subst hg; exact h2

theorem nodeStatus_guard {s s' : State} {frm : Addr} {st : Status} (h : nodeStatus s frm st = .ok s') :
    ∃ n, getNode s frm = some n := by
  unfold nodeStatus at h
  simp only [bind_eq_ok, pure_eq_ok, orReject_eq_ok] at h
  obtain ⟨n, hn, _⟩ := h
  exact ⟨n, hn⟩

theorem planCreate_guard {s s' : State} {frm : Addr} {dur : Dur} {gb : Int} {prices : Coins}
    (h : planCreate s frm dur gb prices = .ok s') : ∃ p, getProvider s frm = some p := by
  unfold planCreate at h
  simp only [bind_eq_ok, pure_eq_ok, require_eq_ok] at h
  obtain ⟨_, hc, _⟩ := h
  exact (hasProvider_iff s frm).mp hc

theorem planStatus_guard {s s' : State} {frm : Addr} {id : Nat} {st : Status} (h : planStatus s frm id st = .ok s') :
    ∃ p, getPlan s id = some p ∧ frm = p.prov := by
  unfold planStatus at h
  simp only [bind_eq_ok, pure_eq_ok, require_eq_ok, orReject_eq_ok] at h
  obtain ⟨p, hp, _, hf, _⟩ := h
  exact ⟨p, hp, by simpa using hf⟩

theorem planLink_guard {s s' : State} {frm : Addr} {id : Nat} {node : Addr} (h : planLink s frm id node = .ok s') :
    ∃ p, getPlan s id = some p ∧ frm = p.prov ∧ ∃ n, getNode s node = some n := by
  unfold planLink at h
  simp only [bind_eq_ok, pure_eq_ok, require_eq_ok, orReject_eq_ok] at h
  obtain ⟨p, hp, _, hf, _, hn, _⟩ := h
  exact ⟨p, hp, by simpa using hf, (hasNode_iff s node).mp hn⟩

theorem planUnlink_guard {s s' : State} {frm : Addr} {id : Nat} {node : Addr} (h : planUnlink s frm id node = .ok s') :
    ∃ p, getPlan s id = some p ∧ frm = p.prov := by
  unfold planUnlink at h
  simp only [bind_eq_ok, pure_eq_ok, require_eq_ok, orReject_eq_ok] at h
  obtain ⟨p, hp, _, hf, _⟩ := h
  exact ⟨p, hp, by simpa using hf⟩

theorem subCancel_guard {s s' : State} {frm : Addr} {id : Nat} (h : subCancel s frm id = .ok s') :
    ∃ sub, s.subs.get id = some sub ∧ sub.status = .StatusActive ∧ frm = sub.addr := by
  unfold subCancel at h
  simp only [bind_eq_ok, require_eq_ok, orReject_eq_ok] at h
  obtain ⟨sub, hs, _, h1, _, h2, _⟩ := h
  exact ⟨sub, hs, by simpa using h1, by simpa using h2⟩

theorem subAllocate_guard {s s' : State} {frm toA : Addr} {id : Nat} {bytes : Int}
    (h : subAllocate s frm id toA bytes = .ok s') :
    ∃ sub, s.subs.get id = some sub ∧ isPlanSub sub = true ∧ frm = sub.addr ∧ frm ≠ toA ∧
      ∃ a, s.allocs.get (id, frm) = some a := by
  unfold subAllocate at h
  simp only [bind_eq_ok, pure_eq_ok, require_eq_ok, orReject_eq_ok] at h
  obtain ⟨sub, hs, _, h1, _, h2, fa, hfa, _, h3, _⟩ := h
  exact ⟨sub, hs, h1, by simpa using h2, by simpa using h3, fa, hfa⟩

theorem sessUpdate_guard {s s' : State} {frm : Addr} {id : Nat} {up down dur : Int} {sig : SigSpec}
    (h : sessUpdate s frm id up down dur sig = .ok s') :
    ∃ x, s.sessions.get id = some x ∧ x.status ≠ .StatusInactive ∧ frm = x.node ∧
      (s.params.proof = true → signatureOk s x.addr sig = true) := by
  unfold sessUpdate at h
  simp only [bind_eq_ok, pure_eq_ok, require_eq_ok, orReject_eq_ok] at h
  obtain ⟨x, hx, _, h1, _, h2, _, h3, _⟩ := h
  refine ⟨x, hx, by simpa using h1, by simpa using h2, ?_⟩
  intro hp
  simpa [hp] using h3

theorem sessEnd_guard {s s' : State} {frm : Addr} {id : Nat} (h : sessEnd s frm id = .ok s') :
    ∃ x, s.sessions.get id = some x ∧ x.status = .StatusActive ∧ frm = x.addr := by
  unfold sessEnd at h
  simp only [bind_eq_ok, pure_eq_ok, require_eq_ok, orReject_eq_ok] at h
  obtain ⟨x, hx, _, h1, _, h2, _⟩ := h
  exact ⟨x, hx, by simpa using h1, by simpa using h2⟩

theorem swap_guard {s s' : State} {frm recv : Addr} {hash : Bytes} {amt : Int} (h : swap s frm hash recv amt = .ok s') :
    s.params.swapOn = true ∧ s.params.approveBy = frm ∧ s.swaps.get hash = none := by
  unfold swap at h
  simp only [bind_eq_ok, pure_eq_ok, require_eq_ok] at h
  obtain ⟨_, h1, _, h2, _, h3, _⟩ := h
  exact ⟨h1, by simpa using h2, (Tbl.has_eq_false_iff _ _).mp (by simpa using h3)⟩

end Hub.Model
