import Hub.Lemmas.MoneyHandlers
import Hub.Model.Run
/-
Authorisation lemmas (C07): what `deliver` does with a handler result, what an accepted
`ValidateBasic` says about the address texts, who the sender of an accepted message must be, and
which records each handler can touch (frames).
-/
namespace Hub.Model
open Hub.SDK
open Hub.Generated (Status AmountForBytes GetProportionOfCoin Gigabyte)

/-! ### `deliver` -/

/-- The state a handler runs in: the event buffer is cleared first. -/
abbrev clr (s : State) : State := { s with events := [] }

/-- `deliver` either commits the handler's result (when `ValidateBasic` and the handler both
succeed) or returns the untouched state (with the event buffer cleared) and a rejection. -/
theorem deliver_cases_D (s : State) (m : Msg) :
    (∃ s', m.validateBasic = .ok () ∧ m.handle (clr s) = .ok s' ∧ deliver s m = (s', .accept)) ∨
    (∃ msg, deliver s m = (clr s, .reject msg) ∧
      ¬ (m.validateBasic = .ok () ∧ ∃ s', m.handle (clr s) = .ok s')) := by
  unfold deliver
  simp only []
  cases hr : (do m.validateBasic; m.handle { s with events := [] } : M State) with
  | ok s' =>
    left
    simp only [bind_eq_ok] at hr
    obtain ⟨u, hu, hh⟩ := hr
    exact ⟨s', hu, hh, rfl⟩
  | error e =>
    right
    have hno : ¬ (m.validateBasic = .ok () ∧ ∃ s', m.handle (clr s) = .ok s') := by
      rintro ⟨hv, s', hh⟩
      have : (do m.validateBasic; m.handle { s with events := [] } : M State) = .ok s' :=
        bind_eq_ok.mpr ⟨(), hv, hh⟩
      rw [this] at hr
      cases hr
    cases e with
    | reject msg => exact ⟨msg, rfl, hno⟩
    | panic msg => exact ⟨"panic: " ++ msg, rfl, hno⟩

theorem deliver_accept {s : State} {m : Msg} (h : (deliver s m).2 = .accept) :
    m.validateBasic = .ok () ∧ m.handle (clr s) = .ok (deliver s m).1 := by
  rcases deliver_cases_D s m with ⟨s', hv, hh, hd⟩ | ⟨msg, hd, _⟩
  · rw [hd]; exact ⟨hv, hh⟩
  · rw [hd] at h; cases h

theorem deliver_not_accept {s : State} {m : Msg} (h : (deliver s m).2 ≠ .accept) :
    (deliver s m).1 = clr s := by
  rcases deliver_cases_D s m with ⟨s', hv, hh, hd⟩ | ⟨msg, hd, _⟩
  · rw [hd] at h; exact absurd rfl h
  · rw [hd]

/-- If the handler cannot succeed, the message is rejected and nothing changes. -/
theorem deliver_of_handle_fails {s : State} {m : Msg}
    (h : m.validateBasic = .ok () → ∀ s', m.handle (clr s) ≠ .ok s') :
    (deliver s m).2 ≠ .accept ∧ (deliver s m).1 = clr s := by
  rcases deliver_cases_D s m with ⟨s', hv, hh, hd⟩ | ⟨msg, hd, _⟩
  · exact absurd hh (h hv s')
  · rw [hd]; exact ⟨by simp, rfl⟩

/-- If `ValidateBasic` and the handler succeed, the message is accepted with the handler's state. -/
theorem deliver_of_ok {s s' : State} {m : Msg} (hv : m.validateBasic = .ok ()) (hh : m.handle (clr s) = .ok s') :
    deliver s m = (s', .accept) := by
  rcases deliver_cases_D s m with ⟨s'', _, hh', hd⟩ | ⟨msg, _, hno⟩
  · rw [hh] at hh'; cases hh'; exact hd
  · exact absurd ⟨hv, s', hh⟩ hno

/-! ### address texts -/

theorem needAddr_eq_ok {want : Role} {t : TextAddr} {a : Addr} (h : needAddr want t = .ok a) :
    t.role = want ∧ t.bad = false ∧ a = t.bytes ∧ t.bytes.length ≠ 0 ∧ t.bytes.length ≤ 255 := by
  unfold needAddr at h
  simp only [bind_eq_ok, require_eq_ok, orReject_eq_ok] at h
  obtain ⟨_, _, hp⟩ := h
  unfold TextAddr.parse at hp
  split at hp
  · cases hp
  · rename_i hc
    simp only [not_or, Decidable.not_not, Bool.not_eq_true] at hc
    obtain ⟨h1, h2, h3, h4⟩ := hc
    refine ⟨h2, h1, ?_, h3, by omega⟩
    cases hp; rfl

theorem needAddr_ok_of {want : Role} {t : TextAddr} (hr : t.role = want) (hb : t.bad = false)
    (h0 : t.bytes.length ≠ 0) (h255 : t.bytes.length ≤ 255) : needAddr want t = .ok t.bytes := by
  unfold needAddr
  have hne : (!t.bytes.isEmpty) = true := by
    cases hbs : t.bytes with
    | nil => simp [hbs] at h0
    | cons x r => rfl
  have hp : t.parse want = some t.bytes := by
    unfold TextAddr.parse
    have : ¬ (t.bad = true ∨ t.role ≠ want ∨ t.bytes.length = 0 ∨ t.bytes.length > 255) := by
      simp only [not_or, Decidable.not_not, Bool.not_eq_true]
      exact ⟨hb, hr, h0, by omega⟩
    simp only [this, if_false]
  simp only [hne, hp, require, orReject, if_true]
  rfl

/-- The text of the sender field. -/
def Msg.frm : Msg → TextAddr
  | .provRegister f .. | .provUpdate f .. | .nodeRegister f .. | .nodeUpdate f .. | .nodeStatus f ..
  | .nodeSubscribe f .. | .planCreate f .. | .planStatus f .. | .planLink f .. | .planUnlink f ..
  | .planSubscribe f .. | .subCancel f .. | .subAllocate f .. | .sessStart f .. | .sessUpdate f ..
  | .sessEnd f .. | .swap f .. => f

theorem Msg.sender_eq (m : Msg) : m.sender = m.frm.bytes := by cases m <;> rfl

/-! ### records are stored under their own key -/

/-- Well-formedness of the primary tables: every record is stored under the key it carries
(`SetNode` writes under `node.Address`, `SetPlan` under `plan.ID`, …).  True in every genesis state
of the domain (tables empty) and preserved by every message (`KeysOK_deliver`). -/
structure KeysOK (s : State) : Prop where
  provA : ∀ a p, s.provActive.get a = some p → p.addr = a
  provI : ∀ a p, s.provInactive.get a = some p → p.addr = a
  nodeA : ∀ a n, s.nodeActive.get a = some n → n.addr = a
  nodeI : ∀ a n, s.nodeInactive.get a = some n → n.addr = a
  planA : ∀ i p, s.planActive.get i = some p → p.id = i
  planI : ∀ i p, s.planInactive.get i = some p → p.id = i
  subs : ∀ i x, s.subs.get i = some x → x.id = i
  sess : ∀ i x, s.sessions.get i = some x → x.id = i
  allocs : ∀ k a, s.allocs.get k = some a → a.id = k.1 ∧ a.addr = k.2
  payouts : ∀ i p, s.payouts.get i = some p → p.id = i

theorem KeysOK.getProvider {s : State} (h : KeysOK s) {a : Addr} {p : Provider} (hp : getProvider s a = some p) : p.addr = a := by
  unfold Hub.Model.getProvider at hp
  cases ha : s.provActive.get a with
  | some q => simp only [ha] at hp; cases hp; exact h.provA a _ ha
  | none => simp only [ha] at hp; exact h.provI a p hp

theorem KeysOK.getNode {s : State} (h : KeysOK s) {a : Addr} {n : Node} (hn : getNode s a = some n) : n.addr = a := by
  unfold Hub.Model.getNode at hn
  cases ha : s.nodeActive.get a with
  | some q => simp only [ha] at hn; cases hn; exact h.nodeA a _ ha
  | none => simp only [ha] at hn; exact h.nodeI a n hn

theorem KeysOK.getPlan {s : State} (h : KeysOK s) {i : Nat} {p : Plan} (hp : getPlan s i = some p) : p.id = i := by
  rcases getPlan_mem hp with h1 | h1
  · exact h.planA i p h1
  · exact h.planI i p h1

theorem KeysOK.clr {s : State} (h : KeysOK s) : KeysOK (clr s) :=
  ⟨h.provA, h.provI, h.nodeA, h.nodeI, h.planA, h.planI, h.subs, h.sess, h.allocs, h.payouts⟩

/-! ### what an accepting handler has checked (guards) -/

theorem hasProvider_iff (s : State) (a : Addr) : hasProvider s a = true ↔ ∃ p, getProvider s a = some p := by
  unfold hasProvider getProvider Tbl.has
  cases s.provActive.get a <;> cases s.provInactive.get a <;> simp

theorem hasNode_iff (s : State) (a : Addr) : hasNode s a = true ↔ ∃ n, getNode s a = some n := by
  unfold hasNode getNode Tbl.has
  cases s.nodeActive.get a <;> cases s.nodeInactive.get a <;> simp

theorem hasProvider_eq_false_iff (s : State) (a : Addr) : hasProvider s a = false ↔ getProvider s a = none := by
  unfold hasProvider getProvider Tbl.has
  cases s.provActive.get a <;> cases s.provInactive.get a <;> simp

theorem hasNode_eq_false_iff (s : State) (a : Addr) : hasNode s a = false ↔ getNode s a = none := by
  unfold hasNode getNode Tbl.has
  cases s.nodeActive.get a <;> cases s.nodeInactive.get a <;> simp

theorem provRegister_guard {s s' : State} {frm : Addr} {n i w d : Bytes} (h : provRegister s frm n i w d = .ok s') :
    getProvider s frm = none ∧ ∃ s1, fundCommunityPool s frm s.params.provDeposit = .ok s1 := by
  unfold provRegister at h
  simp only [bind_eq_ok, pure_eq_ok, require_eq_ok] at h
  obtain ⟨_, hc, s1, h1, _⟩ := h
  exact ⟨(hasProvider_eq_false_iff s frm).mp (by simpa using hc), s1, h1⟩

theorem provUpdate_guard {s s' : State} {frm : Addr} {n i w d : Bytes} {st : Status} (h : provUpdate s frm n i w d st = .ok s') :
    ∃ p, getProvider s frm = some p := by
  unfold provUpdate at h
  simp only [bind_eq_ok, pure_eq_ok, orReject_eq_ok] at h
  obtain ⟨p, hp, _⟩ := h
  exact ⟨p, hp⟩

theorem nodeRegister_guard {s s' : State} {frm : Addr} {gb hr : Coins} {url : Bytes} (h : nodeRegister s frm gb hr url = .ok s') :
    pricesWithin s.params.maxGB s.params.minGB gb = true ∧ pricesWithin s.params.maxHr s.params.minHr hr = true ∧
    getNode s frm = none ∧ ∃ s1, fundCommunityPool s frm s.params.nodeDeposit = .ok s1 := by
  unfold nodeRegister at h
  simp only [bind_eq_ok, pure_eq_ok, require_eq_ok] at h
  obtain ⟨_, h1, _, h2, _, h3, s1, hs1, _⟩ := h
  exact ⟨h1, h2, (hasNode_eq_false_iff s frm).mp (by simpa using h3), s1, hs1⟩

theorem nodeUpdate_guard {s s' : State} {frm : Addr} {gb hr : Option Coins} {url : Bytes} (h : nodeUpdate s frm gb hr url = .ok s') :
    (∀ g, gb = some g → pricesWithin s.params.maxGB s.params.minGB g = true) ∧
    (∀ g, hr = some g → pricesWithin s.params.maxHr s.params.minHr g = true) ∧
    ∃ n, getNode s frm = some n := by
  unfold nodeUpdate at h
  simp only [bind_eq_ok, pure_eq_ok, require_eq_ok, orReject_eq_ok] at h
  obtain ⟨_, h1, _, h2, n, hn, _⟩ := h
  refine ⟨?_, ?_, n, hn⟩
  · intro g hg; subst hg; exact h1
  · intro g hg; subst hg; exact h2

theorem nodeStatus_guard {s s' : State} {frm : Addr} {st : Status} (h : nodeStatus s frm st = .ok s') :
    ∃ n, getNode s frm = some n := by
  unfold nodeStatus at h
  simp only [bind_eq_ok, pure_eq_ok, orReject_eq_ok] at h
  obtain ⟨n, hn, _⟩ := h
  exact ⟨n, hn⟩

theorem planCreate_guard {s s' : State} {frm : Addr} {dur : Dur} {gb : Int} {prices : Coins}
    (h : planCreate s frm dur gb prices = .ok s') : ∃ p, getProvider s frm = some p := by
  unfold planCreate at h
  simp only [bind_eq_ok, pure_eq_ok, require_eq_ok] at h
  obtain ⟨_, hc, _⟩ := h
  exact (hasProvider_iff s frm).mp hc

theorem planStatus_guard {s s' : State} {frm : Addr} {id : Nat} {st : Status} (h : planStatus s frm id st = .ok s') :
    ∃ p, getPlan s id = some p ∧ frm = p.prov := by
  unfold planStatus at h
  simp only [bind_eq_ok, pure_eq_ok, require_eq_ok, orReject_eq_ok] at h
  obtain ⟨p, hp, _, hf, _⟩ := h
  exact ⟨p, hp, by simpa using hf⟩

theorem planLink_guard {s s' : State} {frm : Addr} {id : Nat} {node : Addr} (h : planLink s frm id node = .ok s') :
    ∃ p, getPlan s id = some p ∧ frm = p.prov ∧ ∃ n, getNode s node = some n := by
  unfold planLink at h
  simp only [bind_eq_ok, pure_eq_ok, require_eq_ok, orReject_eq_ok] at h
  obtain ⟨p, hp, _, hf, _, hn, _⟩ := h
  exact ⟨p, hp, by simpa using hf, (hasNode_iff s node).mp hn⟩

theorem planUnlink_guard {s s' : State} {frm : Addr} {id : Nat} {node : Addr} (h : planUnlink s frm id node = .ok s') :
    ∃ p, getPlan s id = some p ∧ frm = p.prov := by
  unfold planUnlink at h
  simp only [bind_eq_ok, pure_eq_ok, require_eq_ok, orReject_eq_ok] at h
  obtain ⟨p, hp, _, hf, _⟩ := h
  exact ⟨p, hp, by simpa using hf⟩

theorem subCancel_guard {s s' : State} {frm : Addr} {id : Nat} (h : subCancel s frm id = .ok s') :
    ∃ sub, s.subs.get id = some sub ∧ sub.status = .StatusActive ∧ frm = sub.addr := by
  unfold subCancel at h
  simp only [bind_eq_ok, require_eq_ok, orReject_eq_ok] at h
  obtain ⟨sub, hs, _, h1, _, h2, _⟩ := h
  exact ⟨sub, hs, by simpa using h1, by simpa using h2⟩

theorem subAllocate_guard {s s' : State} {frm toA : Addr} {id : Nat} {bytes : Int}
    (h : subAllocate s frm id toA bytes = .ok s') :
    ∃ sub, s.subs.get id = some sub ∧ isPlanSub sub = true ∧ frm = sub.addr ∧ frm ≠ toA ∧
      ∃ a, s.allocs.get (id, frm) = some a := by
  unfold subAllocate at h
  simp only [bind_eq_ok, pure_eq_ok, require_eq_ok, orReject_eq_ok] at h
  obtain ⟨sub, hs, _, h1, _, h2, fa, hfa, _, h3, _⟩ := h
  exact ⟨sub, hs, h1, by simpa using h2, by simpa using h3, fa, hfa⟩

theorem sessUpdate_guard {s s' : State} {frm : Addr} {id : Nat} {up down dur : Int} {sig : SigSpec}
    (h : sessUpdate s frm id up down dur sig = .ok s') :
    ∃ x, s.sessions.get id = some x ∧ x.status ≠ .StatusInactive ∧ frm = x.node ∧
      (s.params.proof = true → signatureOk s x.addr sig = true) := by
  unfold sessUpdate at h
  simp only [bind_eq_ok, pure_eq_ok, require_eq_ok, orReject_eq_ok] at h
  obtain ⟨x, hx, _, h1, _, h2, _, h3, _⟩ := h
  refine ⟨x, hx, by simpa using h1, by simpa using h2, ?_⟩
  intro hp
  simpa [hp] using h3

theorem sessEnd_guard {s s' : State} {frm : Addr} {id : Nat} (h : sessEnd s frm id = .ok s') :
    ∃ x, s.sessions.get id = some x ∧ x.status = .StatusActive ∧ frm = x.addr := by
  unfold sessEnd at h
  simp only [bind_eq_ok, pure_eq_ok, require_eq_ok, orReject_eq_ok] at h
  obtain ⟨x, hx, _, h1, _, h2, _⟩ := h
  exact ⟨x, hx, by simpa using h1, by simpa using h2⟩

theorem swap_guard {s s' : State} {frm recv : Addr} {hash : Bytes} {amt : Int} (h : swap s frm hash recv amt = .ok s') :
    s.params.swapOn = true ∧ s.params.approveBy = frm ∧ s.swaps.get hash = none := by
  unfold swap at h
  simp only [bind_eq_ok, pure_eq_ok, require_eq_ok] at h
  obtain ⟨_, h1, _, h2, _, h3, _⟩ := h
  exact ⟨h1, by simpa using h2, (Tbl.has_eq_false_iff _ _).mp (by simpa using h3)⟩

/-! ### frames: which records a step can touch -/

/-- The primary record tables of the marketplace. -/
structure Recs where
  provActive : Tbl Addr Provider
  provInactive : Tbl Addr Provider
  nodeActive : Tbl Addr Node
  nodeInactive : Tbl Addr Node
  planActive : Tbl Nat Plan
  planInactive : Tbl Nat Plan
  nodeForPlan : Tbl (Nat × Addr) Unit
  subs : Tbl Nat Sub
  allocs : Tbl (Nat × Addr) Alloc
  payouts : Tbl Nat Payout
  sessions : Tbl Nat Session

def recs (s : State) : Recs :=
  ⟨s.provActive, s.provInactive, s.nodeActive, s.nodeInactive, s.planActive, s.planInactive, s.nodeForPlan,
   s.subs, s.allocs, s.payouts, s.sessions⟩

/-- A set of records, table by table: provider records (by address), node records, plans (by id),
plan–node links, subscriptions, allocations (subscription, holder), payouts and sessions. -/
structure Footprint where
  prov : Addr → Prop
  node : Addr → Prop
  plan : Nat → Prop
  link : Nat × Addr → Prop
  sub : Nat → Prop
  alloc : Nat × Addr → Prop
  payout : Nat → Prop
  sess : Nat → Prop

def Footprint.empty : Footprint :=
  ⟨fun _ => False, fun _ => False, fun _ => False, fun _ => False, fun _ => False, fun _ => False, fun _ => False, fun _ => False⟩

/-- Every record outside the footprint `F` is the same in `s'` as in `s` (present with the same
content, or absent in both), in every primary table. -/
structure ChangesWithin (F : Footprint) (s s' : State) : Prop where
  provA : ∀ a, ¬ F.prov a → s'.provActive.get a = s.provActive.get a
  provI : ∀ a, ¬ F.prov a → s'.provInactive.get a = s.provInactive.get a
  nodeA : ∀ a, ¬ F.node a → s'.nodeActive.get a = s.nodeActive.get a
  nodeI : ∀ a, ¬ F.node a → s'.nodeInactive.get a = s.nodeInactive.get a
  planA : ∀ i, ¬ F.plan i → s'.planActive.get i = s.planActive.get i
  planI : ∀ i, ¬ F.plan i → s'.planInactive.get i = s.planInactive.get i
  link : ∀ k, ¬ F.link k → s'.nodeForPlan.get k = s.nodeForPlan.get k
  sub : ∀ i, ¬ F.sub i → s'.subs.get i = s.subs.get i
  alloc : ∀ k, ¬ F.alloc k → s'.allocs.get k = s.allocs.get k
  payout : ∀ i, ¬ F.payout i → s'.payouts.get i = s.payouts.get i
  sess : ∀ i, ¬ F.sess i → s'.sessions.get i = s.sessions.get i

variable {F : Footprint}

theorem cw_of_recs {s s' : State} (h : recs s' = recs s) : ChangesWithin F s s' := by
  have h1 : s'.provActive = s.provActive := congrArg Recs.provActive h
  have h2 : s'.provInactive = s.provInactive := congrArg Recs.provInactive h
  have h3 : s'.nodeActive = s.nodeActive := congrArg Recs.nodeActive h
  have h4 : s'.nodeInactive = s.nodeInactive := congrArg Recs.nodeInactive h
  have h5 : s'.planActive = s.planActive := congrArg Recs.planActive h
  have h6 : s'.planInactive = s.planInactive := congrArg Recs.planInactive h
  have h7 : s'.nodeForPlan = s.nodeForPlan := congrArg Recs.nodeForPlan h
  have h8 : s'.subs = s.subs := congrArg Recs.subs h
  have h9 : s'.allocs = s.allocs := congrArg Recs.allocs h
  have h10 : s'.payouts = s.payouts := congrArg Recs.payouts h
  have h11 : s'.sessions = s.sessions := congrArg Recs.sessions h
  exact ⟨fun _ _ => by rw [h1], fun _ _ => by rw [h2], fun _ _ => by rw [h3], fun _ _ => by rw [h4],
    fun _ _ => by rw [h5], fun _ _ => by rw [h6], fun _ _ => by rw [h7], fun _ _ => by rw [h8],
    fun _ _ => by rw [h9], fun _ _ => by rw [h10], fun _ _ => by rw [h11]⟩

theorem cw_refl (s : State) : ChangesWithin F s s := cw_of_recs rfl

theorem ChangesWithin.trans {a b c : State} (h1 : ChangesWithin F a b) (h2 : ChangesWithin F b c) : ChangesWithin F a c :=
  ⟨fun k hk => (h2.provA k hk).trans (h1.provA k hk), fun k hk => (h2.provI k hk).trans (h1.provI k hk),
   fun k hk => (h2.nodeA k hk).trans (h1.nodeA k hk), fun k hk => (h2.nodeI k hk).trans (h1.nodeI k hk),
   fun k hk => (h2.planA k hk).trans (h1.planA k hk), fun k hk => (h2.planI k hk).trans (h1.planI k hk),
   fun k hk => (h2.link k hk).trans (h1.link k hk), fun k hk => (h2.sub k hk).trans (h1.sub k hk),
   fun k hk => (h2.alloc k hk).trans (h1.alloc k hk), fun k hk => (h2.payout k hk).trans (h1.payout k hk),
   fun k hk => (h2.sess k hk).trans (h1.sess k hk)⟩

theorem recs_of_moneyFrame {s s' : State} (h : MoneyFrame s s') : recs s' = recs s := by
  unfold MoneyFrame at h; rw [h]; rfl

/-- A table after `set k v` / `erase k` agrees with the old one at every other key. -/
theorem get_set_other {κ α : Type} [DecidableEq κ] (t : Tbl κ α) (k : κ) (v : α) (P : κ → Prop) (hk : P k) :
    ∀ k', ¬ P k' → (t.set k v).get k' = t.get k' := by
  intro k' hk'
  exact Tbl.get_set_ne t v (by rintro rfl; exact hk' hk)

theorem get_erase_other {κ α : Type} [DecidableEq κ] (t : Tbl κ α) (k : κ) (P : κ → Prop) (hk : P k) :
    ∀ k', ¬ P k' → (t.erase k).get k' = t.get k' := by
  intro k' hk'
  exact Tbl.get_erase_ne t (by rintro rfl; exact hk' hk)

/-! #### money primitives touch no record -/

theorem recs_fundCommunityPool {s s' : State} {f : Addr} {c : Coin} (h : fundCommunityPool s f c = .ok s') : recs s' = recs s := by
  unfold fundCommunityPool at h
  split at h
  · rw [pure_eq_ok] at h; rw [h]
  · exact recs_of_moneyFrame (sendCoins_frame h)

theorem recs_depositAdd {s s' : State} {f t : Addr} {c : Coin} (h : depositAdd s f t c = .ok s') : recs s' = recs s := by
  unfold depositAdd at h
  simp only [bind_eq_ok, pure_eq_ok, require_eq_ok] at h
  obtain ⟨s1, hs1, _, _, rfl⟩ := h
  have e : recs s1 = recs s := recs_of_moneyFrame (sendCoins_frame hs1)
  rw [← e]; rfl

theorem recs_addDeposit {s s' : State} {a : Addr} {c : Coin} (h : addDeposit s a c = .ok s') : recs s' = recs s := by
  unfold addDeposit at h
  split at h
  · rw [pure_eq_ok] at h; rw [h]
  · exact recs_depositAdd h

theorem recs_sendCoin {s s' : State} {f t : Addr} {c : Coin} (h : sendCoin s f t c = .ok s') : recs s' = recs s := by
  unfold sendCoin at h
  split at h
  · rw [pure_eq_ok] at h; rw [h]
  · exact recs_of_moneyFrame (sendCoins_frame h)

theorem recs_sendCoinFromAccountToModule {s s' : State} {f t : Addr} {c : Coin}
    (h : sendCoinFromAccountToModule s f t c = .ok s') : recs s' = recs s := by
  unfold sendCoinFromAccountToModule at h
  split at h
  · rw [pure_eq_ok] at h; rw [h]
  · exact recs_of_moneyFrame (sendCoins_frame h)

theorem recs_mintCoins {s s' : State} {m : Addr} {c : Coin} (h : mintCoins s m c = .ok s') : recs s' = recs s := by
  unfold mintCoins at h
  simp only [bind_eq_ok, pure_eq_ok] at h
  obtain ⟨nb, _, ns, _, rfl⟩ := h
  rfl

theorem recs_sendModuleToAccount {s s' : State} {m t : Addr} {c : Coin} (h : sendModuleToAccount s m t c = .ok s') :
    recs s' = recs s := by
  unfold sendModuleToAccount at h
  split at h
  · simp [reject] at h
  · exact recs_of_moneyFrame (sendCoins_frame h)

/-! #### record writers -/

theorem cw_setProvider {s s' : State} {p : Provider} (h : setProvider s p = .ok s') (hF : F.prov p.addr) :
    ChangesWithin F s s' := by
  unfold setProvider at h
  split at h <;> simp only [pure_eq_ok, gopanic_ne_ok] at h
  · subst h
    exact { cw_refl s with provA := get_set_other _ _ _ F.prov hF }
  · subst h
    exact { cw_refl s with provI := get_set_other _ _ _ F.prov hF }

theorem cw_setNode {s s' : State} {n : Node} (h : setNode s n = .ok s') (hF : F.node n.addr) :
    ChangesWithin F s s' := by
  unfold setNode at h
  split at h <;> simp only [pure_eq_ok, gopanic_ne_ok] at h
  · subst h
    exact { cw_refl s with nodeA := get_set_other _ _ _ F.node hF }
  · subst h
    exact { cw_refl s with nodeI := get_set_other _ _ _ F.node hF }

theorem cw_setPlan {s s' : State} {p : Plan} (h : setPlan s p = .ok s') (hF : F.plan p.id) :
    ChangesWithin F s s' := by
  unfold setPlan at h
  split at h <;> simp only [pure_eq_ok, gopanic_ne_ok] at h
  · subst h
    exact { cw_refl s with planA := get_set_other _ _ _ F.plan hF }
  · subst h
    exact { cw_refl s with planI := get_set_other _ _ _ F.plan hF }

/-! #### handlers -/

theorem provUpdated_addr (p : Provider) (n i w d : Bytes) (st : Status) (t : Time) : (provUpdated p n i w d st t).addr = p.addr := by
  unfold provUpdated
  simp only []
  split <;> split <;> rfl

theorem nodeUpdated_addr_D (n : Node) (gb hr : Option Coins) (url : Bytes) : (nodeUpdated n gb hr url).addr = n.addr := by
  unfold nodeUpdated
  cases gb <;> cases hr <;> simp only [] <;> split <;> rfl

theorem cw_provRegister {s s' : State} {frm : Addr} {n i w d : Bytes} (h : provRegister s frm n i w d = .ok s')
    (hF : F.prov frm) : ChangesWithin F s s' := by
  unfold provRegister at h
  simp only [bind_eq_ok, pure_eq_ok, require_eq_ok] at h
  obtain ⟨_, _, s1, h1, s2, h2, rfl⟩ := h
  exact ((cw_of_recs (recs_fundCommunityPool h1)).trans (cw_setProvider h2 hF)).trans (cw_of_recs rfl)

theorem cw_provUpdate {s s' : State} {frm : Addr} {n i w d : Bytes} {st : Status} (h : provUpdate s frm n i w d st = .ok s')
    (hk : KeysOK s) (hF : F.prov frm) : ChangesWithin F s s' := by
  unfold provUpdate at h
  simp only [bind_eq_ok, pure_eq_ok, orReject_eq_ok] at h
  obtain ⟨p, hp, s3, h3, rfl⟩ := h
  have ha : F.prov (provUpdated p n i w d st s.time).addr := by rw [provUpdated_addr, hk.getProvider hp]; exact hF
  refine (ChangesWithin.trans ?_ (cw_setProvider h3 ha)).trans (cw_of_recs rfl)
  split <;> split <;>
    first
      | exact cw_of_recs rfl
      | exact { cw_refl s with provA := get_erase_other _ _ F.prov hF }
      | exact { cw_refl s with provI := get_erase_other _ _ F.prov hF }
      | exact { cw_refl s with provA := get_erase_other _ _ F.prov hF, provI := get_erase_other _ _ F.prov hF }

theorem cw_nodeRegister {s s' : State} {frm : Addr} {gb hr : Coins} {url : Bytes} (h : nodeRegister s frm gb hr url = .ok s')
    (hF : F.node frm) : ChangesWithin F s s' := by
  unfold nodeRegister at h
  simp only [bind_eq_ok, pure_eq_ok, require_eq_ok] at h
  obtain ⟨_, _, _, _, _, _, s1, h1, s2, h2, rfl⟩ := h
  exact ((cw_of_recs (recs_fundCommunityPool h1)).trans (cw_setNode h2 hF)).trans (cw_of_recs rfl)

theorem cw_nodeUpdate {s s' : State} {frm : Addr} {gb hr : Option Coins} {url : Bytes} (h : nodeUpdate s frm gb hr url = .ok s')
    (hk : KeysOK s) (hF : F.node frm) : ChangesWithin F s s' := by
  unfold nodeUpdate at h
  simp only [bind_eq_ok, pure_eq_ok, require_eq_ok, orReject_eq_ok] at h
  obtain ⟨_, _, _, _, n, hn, s1, h1, rfl⟩ := h
  have ha : F.node (nodeUpdated n gb hr url).addr := by rw [nodeUpdated_addr_D, hk.getNode hn]; exact hF
  exact (cw_setNode h1 ha).trans (cw_of_recs rfl)

theorem cw_nodeStatus {s s' : State} {frm : Addr} {st : Status} (h : nodeStatus s frm st = .ok s')
    (hk : KeysOK s) (hF : F.node frm) : ChangesWithin F s s' := by
  unfold nodeStatus at h
  simp only [bind_eq_ok, pure_eq_ok, orReject_eq_ok] at h
  obtain ⟨n, hn, s5, h5, rfl⟩ := h
  have ha : F.node n.addr := by rw [hk.getNode hn]; exact hF
  refine (ChangesWithin.trans ?_ (cw_setNode h5 ha)).trans (cw_of_recs rfl)
  split <;> split <;> split <;> split <;>
    first
      | exact cw_of_recs rfl
      | exact { cw_refl s with nodeA := get_erase_other _ _ F.node hF }
      | exact { cw_refl s with nodeI := get_erase_other _ _ F.node hF }
      | exact { cw_refl s with nodeA := get_erase_other _ _ F.node hF, nodeI := get_erase_other _ _ F.node hF }

theorem cw_insertSub (s : State) (sub : Sub) (hF : F.sub sub.id) : ChangesWithin F s (insertSub s sub) := by
  unfold insertSub
  cases sub.kind <;> exact { cw_refl s with sub := get_set_other _ _ _ F.sub hF }

theorem cw_setAllocation (s : State) (a : Alloc) (hF : F.alloc (a.id, a.addr)) : ChangesWithin F s (setAllocation s a) :=
  { cw_refl s with alloc := get_set_other _ _ _ F.alloc hF }

theorem cw_insertPayout (s : State) (p : Payout) (hF : F.payout p.id) : ChangesWithin F s (insertPayout s p) :=
  { cw_refl s with payout := get_set_other _ _ _ F.payout hF }

theorem cw_emit (s : State) (e : Event) : ChangesWithin F s (emit s e) := cw_of_recs rfl

/-- The id the next subscription / plan / session gets. -/
def newSubId (s : State) : Nat := s.subCount.getD 0 + 1
def newPlanId (s : State) : Nat := s.planCount.getD 0 + 1
def newSessId (s : State) : Nat := s.sessCount.getD 0 + 1

theorem cw_nodeSubscribe {s s' : State} {frm node : Addr} {gb hr : Int} {denom : Denom}
    (h : nodeSubscribe s frm node gb hr denom = .ok s')
    (hS : F.sub (newSubId s)) (hA : F.alloc (newSubId s, frm)) (hP : F.payout (newSubId s)) : ChangesWithin F s s' := by
  unfold nodeSubscribe createSubscriptionForNode at h
  simp only [bind_eq_ok, pure_eq_ok, require_eq_ok, orReject_eq_ok] at h
  obtain ⟨_, _, _, _, r, ⟨n, _, _, _, hr'⟩, rfl⟩ := h
  refine ChangesWithin.trans ?_ (cw_emit _ _)
  split at hr'
  · unfold createNodeSubGB at hr'
    simp only [bind_eq_ok, pure_eq_ok, orReject_eq_ok] at hr'
    obtain ⟨price, _, bytes, _, amt, _, dep, _, s1, h1, granted, _, rfl⟩ := hr'
    refine ((cw_of_recs (recs_addDeposit h1)).trans (cw_insertSub _ _ hS)).trans
      ((cw_setAllocation _ _ hA).trans (cw_emit _ _))
  · unfold createNodeSubHr at hr'
    simp only [bind_eq_ok, pure_eq_ok, orReject_eq_ok] at hr'
    obtain ⟨price, _, amt, _, dep, _, s1, h1, pa, _, hourly, _, rfl⟩ := hr'
    exact ((cw_of_recs (recs_addDeposit h1)).trans (cw_insertSub _ _ hS)).trans (cw_insertPayout _ _ hP)

theorem cw_planCreate {s s' : State} {frm : Addr} {dur : Dur} {gb : Int} {prices : Coins}
    (h : planCreate s frm dur gb prices = .ok s') (hF : F.plan (newPlanId s)) : ChangesWithin F s s' := by
  unfold planCreate at h
  simp only [bind_eq_ok, pure_eq_ok, require_eq_ok] at h
  obtain ⟨_, _, s1, h1, rfl⟩ := h
  have c1 : ChangesWithin F s { s with planCount := some (s.planCount.getD 0 + 1) } := cw_of_recs rfl
  exact (c1.trans (cw_setPlan h1 hF)).trans (cw_of_recs rfl)

theorem cw_planStatus {s s' : State} {frm : Addr} {id : Nat} {st : Status} (h : planStatus s frm id st = .ok s')
    (hk : KeysOK s) (hF : F.plan id) : ChangesWithin F s s' := by
  unfold planStatus at h
  simp only [bind_eq_ok, pure_eq_ok, require_eq_ok, orReject_eq_ok] at h
  obtain ⟨p, hp, _, _, s3, h3, rfl⟩ := h
  have ha : F.plan p.id := by rw [hk.getPlan hp]; exact hF
  refine (ChangesWithin.trans ?_ (cw_setPlan (p := { p with status := st, statusAt := s.time }) h3 ha)).trans (cw_of_recs rfl)
  split <;> split <;>
    first
      | exact cw_of_recs rfl
      | exact { cw_refl s with planA := get_erase_other _ _ F.plan hF }
      | exact { cw_refl s with planI := get_erase_other _ _ F.plan hF }
      | exact { cw_refl s with planA := get_erase_other _ _ F.plan hF, planI := get_erase_other _ _ F.plan hF }

theorem cw_planLink {s s' : State} {frm : Addr} {id : Nat} {node : Addr} (h : planLink s frm id node = .ok s')
    (hF : F.link (id, node)) : ChangesWithin F s s' := by
  unfold planLink at h
  simp only [bind_eq_ok, pure_eq_ok, require_eq_ok, orReject_eq_ok] at h
  obtain ⟨p, _, _, _, _, _, rfl⟩ := h
  exact { cw_refl s with link := get_set_other _ _ _ F.link hF }

theorem cw_planUnlink {s s' : State} {frm : Addr} {id : Nat} {node : Addr} (h : planUnlink s frm id node = .ok s')
    (hF : F.link (id, node)) : ChangesWithin F s s' := by
  unfold planUnlink at h
  simp only [bind_eq_ok, pure_eq_ok, require_eq_ok, orReject_eq_ok] at h
  obtain ⟨p, _, _, _, rfl⟩ := h
  exact { cw_refl s with link := get_erase_other _ _ F.link hF }

theorem subCount_of_recsFrame {s s' : State} (h : MoneyFrame s s') : s'.subCount = s.subCount := by
  unfold MoneyFrame at h; rw [h]

theorem cw_planSubscribe {s s' : State} {frm : Addr} {id : Nat} {denom : Denom}
    (h : planSubscribe s frm id denom = .ok s')
    (hS : F.sub (newSubId s)) (hA : F.alloc (newSubId s, frm)) : ChangesWithin F s s' := by
  unfold planSubscribe createSubscriptionForPlan at h
  simp only [bind_eq_ok, pure_eq_ok, require_eq_ok, requireP_eq_ok, orReject_eq_ok] at h
  obtain ⟨r, ⟨plan, hplan, _, _, price, _, reward, _, s1, h1, payAmt, _, _, _, s2, h2, granted, _, rfl⟩, rfl⟩ := h
  refine ChangesWithin.trans ?_ (cw_emit _ _)
  refine ((cw_of_recs (recs_sendCoinFromAccountToModule h1)).trans (cw_of_recs (recs_sendCoin h2))).trans ?_
  exact ((cw_emit _ _).trans (cw_insertSub _ _ hS)).trans ((cw_setAllocation _ _ hA).trans (cw_emit _ _))

theorem cw_sessionToPending (s : State) (x : Session) (hF : F.sess x.id) : ChangesWithin F s (sessionToPending s x) :=
  { cw_refl s with sess := get_set_other _ _ _ F.sess hF }

/-- Session records are stored under their own id (the part of `KeysOK` the pending hook needs). -/
def SessKeys (s : State) : Prop := ∀ i x, s.sessions.get i = some x → x.id = i

theorem sessKeys_sessionToPending {s : State} {x : Session} (h : SessKeys s) : SessKeys (sessionToPending s x) := by
  intro i y hy
  have : (s.sessions.set x.id { x with inactiveAt := s.time + s.params.sessDelay, status := .StatusInactivePending, statusAt := s.time }).get i = some y := hy
  rw [Tbl.get_set] at this
  split at this
  · rename_i e; cases this; exact e
  · exact h i y this

theorem mem_sessionIdsForSub {s : State} {subId sid : Nat} :
    sid ∈ sessionIdsForSub s subId ↔ (subId, sid) ∈ s.sessForSub.keys := by
  unfold sessionIdsForSub
  rw [List.mem_reverse, (List.mergeSort_perm _ _).mem_iff]
  simp only [List.mem_map, List.mem_filter, decide_eq_true_eq]
  constructor
  · rintro ⟨⟨a, b⟩, ⟨hk, h1⟩, rfl⟩
    simp only at h1
    subst h1; exact hk
  · intro h
    exact ⟨(subId, sid), ⟨h, rfl⟩, rfl⟩

theorem hookFold_frame (l : List Nat) (hl : ∀ sid ∈ l, F.sess sid) :
    ∀ (s s' : State), l.foldlM (fun (s : State) (sid : Nat) => do
        let x ← orPanic (s.sessions.get sid) "session for subscription key does not exist"
        pure (if x.status = Status.StatusActive then sessionToPending s x else s)) s = .ok s' →
      SessKeys s → SessKeys s' ∧ ChangesWithin F s s' := by
  induction l with
  | nil =>
    intro s s' h hk
    simp only [List.foldlM, pure_eq_ok] at h
    subst h; exact ⟨hk, cw_refl s⟩
  | cons a rest ih =>
    intro s s' h hk
    simp only [List.foldlM, bind_eq_ok, pure_eq_ok, orPanic_eq_ok] at h
    obtain ⟨s1, ⟨x, hx, rfl⟩, h2⟩ := h
    have hxid : x.id = a := hk a x hx
    have hFa : F.sess x.id := by rw [hxid]; exact hl a (by simp)
    have step : SessKeys (if x.status = .StatusActive then sessionToPending s x else s) ∧
        ChangesWithin F s (if x.status = .StatusActive then sessionToPending s x else s) := by
      split
      · exact ⟨sessKeys_sessionToPending hk, cw_sessionToPending s x hFa⟩
      · exact ⟨hk, cw_refl s⟩
    obtain ⟨k2, c2⟩ := ih (fun sid hs => hl sid (by simp [hs])) _ s' h2 step.1
    exact ⟨k2, step.2.trans c2⟩

theorem cw_subCancel {s s' : State} {frm : Addr} {id : Nat} (h : subCancel s frm id = .ok s') (hk : KeysOK s)
    (hS : F.sub id) (hP : F.payout id) (hX : ∀ sid, (id, sid) ∈ s.sessForSub.keys → F.sess sid) : ChangesWithin F s s' := by
  unfold subCancel at h
  simp only [bind_eq_ok, require_eq_ok, orReject_eq_ok] at h
  obtain ⟨sub, hsub, _, _, _, _, s1, h1, h2⟩ := h
  have hid : sub.id = id := hk.subs id sub hsub
  rw [hid] at h1
  unfold subscriptionInactivePendingHook at h1
  have hfold := hookFold_frame (F := F) (sessionIdsForSub { s with subQ := s.subQ.erase (sub.inactiveAt, id) } id)
    (fun sid hs => hX sid (mem_sessionIdsForSub.mp hs)) _ s1 h1 hk.sess
  have c0 : ChangesWithin F s { s with subQ := s.subQ.erase (sub.inactiveAt, id) } := cw_of_recs rfl
  have c1 : ChangesWithin F s s1 := c0.trans hfold.2
  have c2 : ChangesWithin F s1 (subToPending s1 sub s.params.subDelay).1 := by
    unfold subToPending
    exact { cw_refl s1 with sub := get_set_other _ _ _ F.sub (by rw [hid]; exact hS) }
  refine (c1.trans c2).trans ?_
  unfold detachPayout at h2
  split at h2
  · simp only [Bool.false_eq_true, if_false, bind_eq_ok, pure_eq_ok, orReject_eq_ok] at h2
    obtain ⟨p, hp, rfl⟩ := h2
    have hp' : s1.payouts.get sub.id = some p := hp
    have hp0 : s.payouts.get sub.id = some p := by
      -- the hook touches no payout at all: use a footprint with sessions only
      have hfold0 := hookFold_frame
        (F := ⟨fun _ => False, fun _ => False, fun _ => False, fun _ => False, fun _ => False, fun _ => False,
               fun _ => False, fun _ => True⟩)
        (sessionIdsForSub { s with subQ := s.subQ.erase (sub.inactiveAt, id) } id) (fun _ _ => trivial) _ s1 h1 hk.sess
      have := hfold0.2.payout sub.id (fun h => h)
      rw [← hp']; exact this.symm
    have hpid : p.id = id := by rw [← hid]; exact hk.payouts sub.id p hp0
    unfold detachPayoutRec
    exact { cw_refl _ with payout := get_set_other _ _ _ F.payout (by rw [hpid]; exact hP) }
  · rw [pure_eq_ok] at h2; subst h2; exact cw_refl _

theorem cw_subAllocate {s s' : State} {frm toA : Addr} {id : Nat} {bytes : Int}
    (h : subAllocate s frm id toA bytes = .ok s') (hk : KeysOK s)
    (hA : F.alloc (id, frm)) (hB : F.alloc (id, toA)) : ChangesWithin F s s' := by
  unfold subAllocate at h
  simp only [bind_eq_ok, pure_eq_ok, require_eq_ok, orReject_eq_ok] at h
  obtain ⟨sub, _, _, _, _, _, fa, hfa, _, _, g, _, u, _, av, _, _, _, fg, _, _, _, _, _, rfl⟩ := h
  have hfk := hk.allocs (id, frm) fa hfa
  have hFa : F.alloc (fa.id, fa.addr) := by rw [hfk.1, hfk.2]; exact hA
  have hFb : F.alloc (((s.allocs.get (id, toA)).getD { id := id, addr := toA, granted := 0, used := 0 }).id,
      ((s.allocs.get (id, toA)).getD { id := id, addr := toA, granted := 0, used := 0 }).addr) := by
    cases hg : s.allocs.get (id, toA) with
    | none => exact hB
    | some b =>
      have := hk.allocs (id, toA) b hg
      simp only [Option.getD_some]
      rw [this.1, this.2]; exact hB
  have c1 : ChangesWithin F s (if (s.allocs.get (id, toA)).isNone = true then { s with subForAcc := s.subForAcc.set (toA, id) () } else s) := by
    split <;> exact cw_of_recs rfl
  exact (c1.trans ((cw_setAllocation _ { fa with granted := fg } hFa).trans (cw_emit _ _))).trans
    ((cw_setAllocation _ { ((s.allocs.get (id, toA)).getD { id := id, addr := toA, granted := 0, used := 0 }) with granted := bytes } hFb).trans (cw_emit _ _))

theorem cw_insertSession (s : State) (x : Session) (hF : F.sess x.id) : ChangesWithin F s (insertSession s x) :=
  { cw_refl s with sess := get_set_other _ _ _ F.sess hF }

theorem cw_sessStart {s s' : State} {frm : TextAddr} {id : Nat} {node : Addr}
    (h : sessStart s frm id node = .ok s') (hF : F.sess (newSessId s)) : ChangesWithin F s s' := by
  unfold sessStart at h
  simp only [bind_eq_ok, pure_eq_ok, require_eq_ok, orReject_eq_ok] at h
  obtain ⟨sub, _, _, _, n, _, _, _, _, _, _, _, latest, _, _, _, rfl⟩ := h
  exact (cw_insertSession _ _ hF).trans (cw_emit _ _)

theorem cw_sessUpdate {s s' : State} {frm : Addr} {id : Nat} {up down dur : Int} {sig : SigSpec}
    (h : sessUpdate s frm id up down dur sig = .ok s') (hk : KeysOK s) (hF : F.sess id) : ChangesWithin F s s' := by
  unfold sessUpdate at h
  simp only [bind_eq_ok, pure_eq_ok, require_eq_ok, orReject_eq_ok] at h
  obtain ⟨x, hx, _, _, _, _, _, _, rfl⟩ := h
  have hid : x.id = id := hk.sess id x hx
  refine ChangesWithin.trans ?_ (cw_emit _ _)
  split
  · exact { cw_refl s with sess := get_set_other _ _ _ F.sess (by rw [hid]; exact hF) }
  · exact { cw_refl s with sess := get_set_other _ _ _ F.sess (by rw [hid]; exact hF) }

theorem cw_sessEnd {s s' : State} {frm : Addr} {id : Nat} (h : sessEnd s frm id = .ok s') (hk : KeysOK s)
    (hF : F.sess id) : ChangesWithin F s s' := by
  unfold sessEnd at h
  simp only [bind_eq_ok, pure_eq_ok, require_eq_ok, orReject_eq_ok] at h
  obtain ⟨x, hx, _, _, _, _, rfl⟩ := h
  exact cw_sessionToPending s x (by rw [hk.sess id x hx]; exact hF)

theorem cw_swap {s s' : State} {frm recv : Addr} {hash : Bytes} {amt : Int}
    (h : swap s frm hash recv amt = .ok s') : ChangesWithin F s s' := by
  unfold swap at h
  simp only [bind_eq_ok, pure_eq_ok, require_eq_ok] at h
  obtain ⟨_, _, _, _, _, _, q, _, coin, _, s1, h1, s2, h2, rfl⟩ := h
  refine cw_of_recs ?_
  have e1 := recs_mintCoins h1
  have e2 := recs_sendModuleToAccount h2
  rw [← e1, ← e2]; rfl

/-! ### `KeysOK` is preserved by every handler -/

theorem keyed_set {κ α : Type} [DecidableEq κ] {t : Tbl κ α} {P : κ → α → Prop} (h : ∀ k v, t.get k = some v → P k v)
    (k : κ) (v : α) (hv : P k v) : ∀ k' v', (t.set k v).get k' = some v' → P k' v' := by
  intro k' v' hg
  rw [Tbl.get_set] at hg
  split at hg
  · rename_i e; cases hg; rw [← e]; exact hv
  · exact h k' v' hg

theorem keyed_erase {κ α : Type} [DecidableEq κ] {t : Tbl κ α} {P : κ → α → Prop} (h : ∀ k v, t.get k = some v → P k v)
    (k : κ) : ∀ k' v', (t.erase k).get k' = some v' → P k' v' := by
  intro k' v' hg
  rw [Tbl.get_erase] at hg
  split at hg
  · cases hg
  · exact h k' v' hg

theorem KeysOK.of_recs {s s' : State} (h : recs s' = recs s) (hk : KeysOK s) : KeysOK s' := by
  have h1 : s'.provActive = s.provActive := congrArg Recs.provActive h
  have h2 : s'.provInactive = s.provInactive := congrArg Recs.provInactive h
  have h3 : s'.nodeActive = s.nodeActive := congrArg Recs.nodeActive h
  have h4 : s'.nodeInactive = s.nodeInactive := congrArg Recs.nodeInactive h
  have h5 : s'.planActive = s.planActive := congrArg Recs.planActive h
  have h6 : s'.planInactive = s.planInactive := congrArg Recs.planInactive h
  have h8 : s'.subs = s.subs := congrArg Recs.subs h
  have h9 : s'.allocs = s.allocs := congrArg Recs.allocs h
  have h10 : s'.payouts = s.payouts := congrArg Recs.payouts h
  have h11 : s'.sessions = s.sessions := congrArg Recs.sessions h
  exact ⟨by rw [h1]; exact hk.provA, by rw [h2]; exact hk.provI, by rw [h3]; exact hk.nodeA, by rw [h4]; exact hk.nodeI,
    by rw [h5]; exact hk.planA, by rw [h6]; exact hk.planI, by rw [h8]; exact hk.subs, by rw [h11]; exact hk.sess,
    by rw [h9]; exact hk.allocs, by rw [h10]; exact hk.payouts⟩

theorem keysOK_setProvider {s s' : State} {p : Provider} (hk : KeysOK s) (h : setProvider s p = .ok s') : KeysOK s' := by
  unfold setProvider at h
  split at h <;> simp only [pure_eq_ok, gopanic_ne_ok] at h
  · subst h; exact { hk with provA := keyed_set hk.provA _ _ rfl }
  · subst h; exact { hk with provI := keyed_set hk.provI _ _ rfl }

theorem keysOK_setNode {s s' : State} {n : Node} (hk : KeysOK s) (h : setNode s n = .ok s') : KeysOK s' := by
  unfold setNode at h
  split at h <;> simp only [pure_eq_ok, gopanic_ne_ok] at h
  · subst h; exact { hk with nodeA := keyed_set hk.nodeA _ _ rfl }
  · subst h; exact { hk with nodeI := keyed_set hk.nodeI _ _ rfl }

theorem keysOK_setPlan {s s' : State} {p : Plan} (hk : KeysOK s) (h : setPlan s p = .ok s') : KeysOK s' := by
  unfold setPlan at h
  split at h <;> simp only [pure_eq_ok, gopanic_ne_ok] at h
  · subst h; exact { hk with planA := keyed_set hk.planA _ _ rfl }
  · subst h; exact { hk with planI := keyed_set hk.planI _ _ rfl }

theorem keysOK_insertSub {s : State} (hk : KeysOK s) (sub : Sub) : KeysOK (insertSub s sub) := by
  unfold insertSub
  cases sub.kind <;> exact { hk with subs := keyed_set hk.subs _ _ rfl }

theorem keysOK_setAllocation {s : State} (hk : KeysOK s) (a : Alloc) : KeysOK (setAllocation s a) :=
  { hk with allocs := keyed_set hk.allocs _ _ ⟨rfl, rfl⟩ }

theorem keysOK_insertPayout {s : State} (hk : KeysOK s) (p : Payout) : KeysOK (insertPayout s p) :=
  { hk with payouts := keyed_set hk.payouts _ _ rfl }

theorem keysOK_insertSession {s : State} (hk : KeysOK s) (x : Session) : KeysOK (insertSession s x) :=
  { hk with sess := keyed_set hk.sess _ _ rfl }

theorem keysOK_sessionToPending {s : State} (hk : KeysOK s) (x : Session) : KeysOK (sessionToPending s x) :=
  { hk with sess := keyed_set hk.sess _ _ rfl }

theorem keysOK_emit {s : State} (hk : KeysOK s) (e : Event) : KeysOK (emit s e) := hk.of_recs (by rfl)

theorem keysOK_provRegister {s s' : State} {frm : Addr} {n i w d : Bytes} (hk : KeysOK s)
    (h : provRegister s frm n i w d = .ok s') : KeysOK s' := by
  unfold provRegister at h
  simp only [bind_eq_ok, pure_eq_ok, require_eq_ok] at h
  obtain ⟨_, _, s1, h1, s2, h2, rfl⟩ := h
  exact keysOK_emit (keysOK_setProvider (hk.of_recs (recs_fundCommunityPool h1)) h2) _

theorem keysOK_provUpdate {s s' : State} {frm : Addr} {n i w d : Bytes} {st : Status} (hk : KeysOK s)
    (h : provUpdate s frm n i w d st = .ok s') : KeysOK s' := by
  unfold provUpdate at h
  simp only [bind_eq_ok, pure_eq_ok, orReject_eq_ok] at h
  obtain ⟨p, hp, s3, h3, rfl⟩ := h
  refine keysOK_emit (keysOK_setProvider ?_ h3) _
  split <;> split <;>
    first
      | exact hk
      | exact { hk with provA := keyed_erase hk.provA _ }
      | exact { hk with provI := keyed_erase hk.provI _ }
      | exact { hk with provA := keyed_erase hk.provA _, provI := keyed_erase hk.provI _ }

theorem keysOK_nodeRegister {s s' : State} {frm : Addr} {gb hr : Coins} {url : Bytes} (hk : KeysOK s)
    (h : nodeRegister s frm gb hr url = .ok s') : KeysOK s' := by
  unfold nodeRegister at h
  simp only [bind_eq_ok, pure_eq_ok, require_eq_ok] at h
  obtain ⟨_, _, _, _, _, _, s1, h1, s2, h2, rfl⟩ := h
  exact keysOK_emit (keysOK_setNode (hk.of_recs (recs_fundCommunityPool h1)) h2) _

theorem keysOK_nodeUpdate {s s' : State} {frm : Addr} {gb hr : Option Coins} {url : Bytes} (hk : KeysOK s)
    (h : nodeUpdate s frm gb hr url = .ok s') : KeysOK s' := by
  unfold nodeUpdate at h
  simp only [bind_eq_ok, pure_eq_ok, require_eq_ok, orReject_eq_ok] at h
  obtain ⟨_, _, _, _, n, hn, s1, h1, rfl⟩ := h
  exact keysOK_emit (keysOK_setNode hk h1) _

theorem keysOK_nodeStatus {s s' : State} {frm : Addr} {st : Status} (hk : KeysOK s)
    (h : nodeStatus s frm st = .ok s') : KeysOK s' := by
  unfold nodeStatus at h
  simp only [bind_eq_ok, pure_eq_ok, orReject_eq_ok] at h
  obtain ⟨n, hn, s5, h5, rfl⟩ := h
  refine keysOK_emit (keysOK_setNode ?_ h5) _
  split <;> split <;> split <;> split <;>
    first
      | exact hk
      | exact hk.of_recs (by rfl)
      | exact { hk with nodeA := keyed_erase hk.nodeA _ }
      | exact { hk with nodeI := keyed_erase hk.nodeI _ }
      | exact { hk with nodeA := keyed_erase hk.nodeA _, nodeI := keyed_erase hk.nodeI _ }

theorem keysOK_nodeSubscribe {s s' : State} {frm node : Addr} {gb hr : Int} {denom : Denom} (hk : KeysOK s)
    (h : nodeSubscribe s frm node gb hr denom = .ok s') : KeysOK s' := by
  unfold nodeSubscribe createSubscriptionForNode at h
  simp only [bind_eq_ok, pure_eq_ok, require_eq_ok, orReject_eq_ok] at h
  obtain ⟨_, _, _, _, r, ⟨n, _, _, _, hr'⟩, rfl⟩ := h
  refine keysOK_emit ?_ _
  split at hr'
  · unfold createNodeSubGB at hr'
    simp only [bind_eq_ok, pure_eq_ok, orReject_eq_ok] at hr'
    obtain ⟨price, _, bytes, _, amt, _, dep, _, s1, h1, granted, _, rfl⟩ := hr'
    exact keysOK_emit (keysOK_setAllocation (keysOK_insertSub (hk.of_recs (recs_addDeposit h1)) _) _) _
  · unfold createNodeSubHr at hr'
    simp only [bind_eq_ok, pure_eq_ok, orReject_eq_ok] at hr'
    obtain ⟨price, _, amt, _, dep, _, s1, h1, pa, _, hourly, _, rfl⟩ := hr'
    exact keysOK_insertPayout (keysOK_insertSub (hk.of_recs (recs_addDeposit h1)) _) _

theorem keysOK_planCreate {s s' : State} {frm : Addr} {dur : Dur} {gb : Int} {prices : Coins} (hk : KeysOK s)
    (h : planCreate s frm dur gb prices = .ok s') : KeysOK s' := by
  unfold planCreate at h
  simp only [bind_eq_ok, pure_eq_ok, require_eq_ok] at h
  obtain ⟨_, _, s1, h1, rfl⟩ := h
  have k0 : KeysOK { s with planCount := some (s.planCount.getD 0 + 1) } := hk.of_recs (by rfl)
  exact (keysOK_setPlan k0 h1).of_recs (by rfl)

theorem keysOK_planStatus {s s' : State} {frm : Addr} {id : Nat} {st : Status} (hk : KeysOK s)
    (h : planStatus s frm id st = .ok s') : KeysOK s' := by
  unfold planStatus at h
  simp only [bind_eq_ok, pure_eq_ok, require_eq_ok, orReject_eq_ok] at h
  obtain ⟨p, hp, _, _, s3, h3, rfl⟩ := h
  refine keysOK_emit (keysOK_setPlan ?_ h3) _
  split <;> split <;>
    first
      | exact hk
      | exact { hk with planA := keyed_erase hk.planA _ }
      | exact { hk with planI := keyed_erase hk.planI _ }
      | exact { hk with planA := keyed_erase hk.planA _, planI := keyed_erase hk.planI _ }

theorem keysOK_planLink {s s' : State} {frm : Addr} {id : Nat} {node : Addr} (hk : KeysOK s)
    (h : planLink s frm id node = .ok s') : KeysOK s' := by
  unfold planLink at h
  simp only [bind_eq_ok, pure_eq_ok, require_eq_ok, orReject_eq_ok] at h
  obtain ⟨p, _, _, _, _, _, rfl⟩ := h
  exact ⟨hk.provA, hk.provI, hk.nodeA, hk.nodeI, hk.planA, hk.planI, hk.subs, hk.sess, hk.allocs, hk.payouts⟩

theorem keysOK_planUnlink {s s' : State} {frm : Addr} {id : Nat} {node : Addr} (hk : KeysOK s)
    (h : planUnlink s frm id node = .ok s') : KeysOK s' := by
  unfold planUnlink at h
  simp only [bind_eq_ok, pure_eq_ok, require_eq_ok, orReject_eq_ok] at h
  obtain ⟨p, _, _, _, rfl⟩ := h
  exact ⟨hk.provA, hk.provI, hk.nodeA, hk.nodeI, hk.planA, hk.planI, hk.subs, hk.sess, hk.allocs, hk.payouts⟩

theorem keysOK_planSubscribe {s s' : State} {frm : Addr} {id : Nat} {denom : Denom} (hk : KeysOK s)
    (h : planSubscribe s frm id denom = .ok s') : KeysOK s' := by
  unfold planSubscribe createSubscriptionForPlan at h
  simp only [bind_eq_ok, pure_eq_ok, require_eq_ok, requireP_eq_ok, orReject_eq_ok] at h
  obtain ⟨r, ⟨plan, hplan, _, _, price, _, reward, _, s1, h1, payAmt, _, _, _, s2, h2, granted, _, rfl⟩, rfl⟩ := h
  have k2 : KeysOK s2 := (hk.of_recs (recs_sendCoinFromAccountToModule h1)).of_recs (recs_sendCoin h2)
  exact keysOK_emit (keysOK_emit (keysOK_setAllocation (keysOK_insertSub (keysOK_emit k2 _) _) _) _) _

theorem keysOK_hookFold (l : List Nat) :
    ∀ (s s' : State), l.foldlM (fun (s : State) (sid : Nat) => do
        let x ← orPanic (s.sessions.get sid) "session for subscription key does not exist"
        pure (if x.status = Status.StatusActive then sessionToPending s x else s)) s = .ok s' →
      KeysOK s → KeysOK s' := by
  induction l with
  | nil =>
    intro s s' h hk
    simp only [List.foldlM, pure_eq_ok] at h
    subst h; exact hk
  | cons a rest ih =>
    intro s s' h hk
    simp only [List.foldlM, bind_eq_ok, pure_eq_ok, orPanic_eq_ok] at h
    obtain ⟨s1, ⟨x, hx, rfl⟩, h2⟩ := h
    refine ih _ s' h2 ?_
    split
    · exact keysOK_sessionToPending hk x
    · exact hk

theorem keysOK_subCancel {s s' : State} {frm : Addr} {id : Nat} (hk : KeysOK s)
    (h : subCancel s frm id = .ok s') : KeysOK s' := by
  unfold subCancel at h
  simp only [bind_eq_ok, require_eq_ok, orReject_eq_ok] at h
  obtain ⟨sub, hsub, _, _, _, _, s1, h1, h2⟩ := h
  unfold subscriptionInactivePendingHook at h1
  have k0 : KeysOK { s with subQ := s.subQ.erase (sub.inactiveAt, sub.id) } := hk.of_recs (by rfl)
  have k1 : KeysOK s1 := keysOK_hookFold _ _ s1 h1 k0
  have k2 : KeysOK (subToPending s1 sub s.params.subDelay).1 := by
    unfold subToPending
    exact { k1 with subs := keyed_set k1.subs _ _ rfl }
  unfold detachPayout at h2
  split at h2
  · simp only [Bool.false_eq_true, if_false, bind_eq_ok, pure_eq_ok, orReject_eq_ok] at h2
    obtain ⟨p, hp, rfl⟩ := h2
    unfold detachPayoutRec
    exact { k2 with payouts := keyed_set k2.payouts _ _ rfl }
  · rw [pure_eq_ok] at h2; subst h2; exact k2

theorem keysOK_subAllocate {s s' : State} {frm toA : Addr} {id : Nat} {bytes : Int} (hk : KeysOK s)
    (h : subAllocate s frm id toA bytes = .ok s') : KeysOK s' := by
  unfold subAllocate at h
  simp only [bind_eq_ok, pure_eq_ok, require_eq_ok, orReject_eq_ok] at h
  obtain ⟨sub, _, _, _, _, _, fa, hfa, _, _, g, _, u, _, av, _, _, _, fg, _, _, _, _, _, rfl⟩ := h
  have k1 : KeysOK (if (s.allocs.get (id, toA)).isNone = true then { s with subForAcc := s.subForAcc.set (toA, id) () } else s) := by
    split
    · exact hk.of_recs (by rfl)
    · exact hk
  exact keysOK_emit (keysOK_setAllocation (keysOK_emit (keysOK_setAllocation k1 _) _) _) _

theorem keysOK_sessStart {s s' : State} {frm : TextAddr} {id : Nat} {node : Addr} (hk : KeysOK s)
    (h : sessStart s frm id node = .ok s') : KeysOK s' := by
  unfold sessStart at h
  simp only [bind_eq_ok, pure_eq_ok, require_eq_ok, orReject_eq_ok] at h
  obtain ⟨sub, _, _, _, n, _, _, _, _, _, _, _, latest, _, _, _, rfl⟩ := h
  exact keysOK_emit (keysOK_insertSession hk _) _

theorem keysOK_sessUpdate {s s' : State} {frm : Addr} {id : Nat} {up down dur : Int} {sig : SigSpec} (hk : KeysOK s)
    (h : sessUpdate s frm id up down dur sig = .ok s') : KeysOK s' := by
  unfold sessUpdate at h
  simp only [bind_eq_ok, pure_eq_ok, require_eq_ok, orReject_eq_ok] at h
  obtain ⟨x, hx, _, _, _, _, _, _, rfl⟩ := h
  refine keysOK_emit ?_ _
  split
  · exact { hk with sess := keyed_set hk.sess _ _ rfl }
  · exact { hk with sess := keyed_set hk.sess _ _ rfl }

theorem keysOK_sessEnd {s s' : State} {frm : Addr} {id : Nat} (hk : KeysOK s) (h : sessEnd s frm id = .ok s') : KeysOK s' := by
  unfold sessEnd at h
  simp only [bind_eq_ok, pure_eq_ok, require_eq_ok, orReject_eq_ok] at h
  obtain ⟨x, hx, _, _, _, _, rfl⟩ := h
  exact keysOK_sessionToPending hk x

theorem keysOK_swap {s s' : State} {frm recv : Addr} {hash : Bytes} {amt : Int} (hk : KeysOK s)
    (h : swap s frm hash recv amt = .ok s') : KeysOK s' := by
  unfold swap at h
  simp only [bind_eq_ok, pure_eq_ok, require_eq_ok] at h
  obtain ⟨_, _, _, _, _, _, q, _, coin, _, s1, h1, s2, h2, rfl⟩ := h
  have k2 : KeysOK s2 := (hk.of_recs (recs_mintCoins h1)).of_recs (recs_sendModuleToAccount h2)
  exact k2.of_recs (by rfl)

theorem keysOK_handle {s s' : State} {m : Msg} (hk : KeysOK s) (h : m.handle s = .ok s') : KeysOK s' := by
  cases m <;> simp only [Msg.handle] at h
  case provRegister => exact keysOK_provRegister hk h
  case provUpdate => exact keysOK_provUpdate hk h
  case nodeRegister => exact keysOK_nodeRegister hk h
  case nodeUpdate => exact keysOK_nodeUpdate hk h
  case nodeStatus => exact keysOK_nodeStatus hk h
  case nodeSubscribe => exact keysOK_nodeSubscribe hk h
  case planCreate => exact keysOK_planCreate hk h
  case planStatus => exact keysOK_planStatus hk h
  case planLink => exact keysOK_planLink hk h
  case planUnlink => exact keysOK_planUnlink hk h
  case planSubscribe => exact keysOK_planSubscribe hk h
  case subCancel => exact keysOK_subCancel hk h
  case subAllocate => exact keysOK_subAllocate hk h
  case sessStart => exact keysOK_sessStart hk h
  case sessUpdate => exact keysOK_sessUpdate hk h
  case sessEnd => exact keysOK_sessEnd hk h
  case swap => exact keysOK_swap hk h

/-- Every delivered message — accepted or rejected — keeps records under their own keys. -/
theorem KeysOK_deliver (s : State) (m : Msg) (hk : KeysOK s) : KeysOK (deliver s m).1 := by
  rcases deliver_cases_D s m with ⟨s', _, hh, hd⟩ | ⟨msg, hd, _⟩
  · rw [hd]; exact keysOK_handle hk.clr hh
  · rw [hd]; exact hk.clr

/-! ### genesis -/

theorem recs_addBalance (s : State) (b : Addr × Denom × Int) : recs (addBalance s b) = recs s := by
  unfold addBalance
  split <;> rfl

theorem keysOK_genesis (g : Genesis) : KeysOK g.state := by
  have h0 : KeysOK g.base := by
    refine ⟨?_, ?_, ?_, ?_, ?_, ?_, ?_, ?_, ?_, ?_⟩ <;> intro k v h <;> simp [Genesis.base] at h
  unfold Genesis.state
  have key : ∀ (l : List (Addr × Denom × Int)) (s0 : State), KeysOK s0 → KeysOK (l.foldl addBalance s0) := by
    intro l
    induction l with
    | nil => intro s0 h; exact h
    | cons b rest ih => intro s0 h; exact ih _ (h.of_recs (recs_addBalance s0 b))
  exact key g.balances g.base h0

/-! ### block hooks and governance keep `KeysOK` (so it holds in every reachable state) -/

theorem recs_putDeposit (s : State) (a : Addr) (c : Coins) : recs (putDeposit s a c) = recs s := by
  unfold putDeposit; split <;> rfl

theorem recs_depositToAccount {s s' : State} {f t : Addr} {c : Coin} (h : depositToAccount s f t c = .ok s') : recs s' = recs s := by
  unfold depositToAccount at h
  simp only [bind_eq_ok, pure_eq_ok, require_eq_ok, orReject_eq_ok] at h
  obtain ⟨cur, _, _, _, s1, hs1, rfl⟩ := h
  have e := recs_sendModuleToAccount hs1
  rw [← e]
  exact (rfl : recs (emit (putDeposit s1 f (cur.sub c)) _) = recs (putDeposit s1 f (cur.sub c))).trans (recs_putDeposit _ _ _)

theorem recs_depositToModule {s s' : State} {f m : Addr} {c : Coin} (h : depositToModule s f m c = .ok s') : recs s' = recs s := by
  unfold depositToModule at h
  simp only [bind_eq_ok, pure_eq_ok, require_eq_ok, orReject_eq_ok] at h
  obtain ⟨cur, _, _, _, s1, hs1, rfl⟩ := h
  have e := recs_of_moneyFrame (sendCoins_frame hs1)
  rw [← e]
  exact (rfl : recs (emit (putDeposit s1 f (cur.sub c)) _) = recs (putDeposit s1 f (cur.sub c))).trans (recs_putDeposit _ _ _)

theorem recs_sendCoinFromDepositToAccount {s s' : State} {f t : Addr} {c : Coin}
    (h : sendCoinFromDepositToAccount s f t c = .ok s') : recs s' = recs s := by
  unfold sendCoinFromDepositToAccount at h
  split at h
  · rw [pure_eq_ok] at h; rw [h]
  · exact recs_depositToAccount h

theorem recs_sendCoinFromDepositToModule {s s' : State} {f m : Addr} {c : Coin}
    (h : sendCoinFromDepositToModule s f m c = .ok s') : recs s' = recs s := by
  unfold sendCoinFromDepositToModule at h
  split at h
  · rw [pure_eq_ok] at h; rw [h]
  · exact recs_depositToModule h

theorem recs_subtractDeposit {s s' : State} {a : Addr} {c : Coin} (h : subtractDeposit s a c = .ok s') : recs s' = recs s := by
  unfold subtractDeposit at h
  split at h
  · rw [pure_eq_ok] at h; rw [h]
  · exact recs_depositToAccount h

theorem recs_mintBeginBlock_go (l : List Inflation) (s : State) : recs (mintBeginBlock.go s l) = recs s := by
  induction l generalizing s with
  | nil => rfl
  | cons item rest ih =>
    unfold mintBeginBlock.go
    split
    · rfl
    · rw [ih]; rfl

theorem recs_distrSweep (s : State) : recs (distrSweep s) = recs s := by
  unfold distrSweep
  have key : ∀ (l : List Denom) (s0 : State), recs (l.foldl sweepDenom s0) = recs s0 := by
    intro l
    induction l with
    | nil => intro s0; rfl
    | cons d rest ih =>
      intro s0
      rw [List.foldl_cons, ih]
      unfold sweepDenom setBalance
      rfl
  exact key _ s

theorem keysOK_foldlM {α : Type} (f : State → α → M State) (hf : ∀ s a s', f s a = .ok s' → KeysOK s → KeysOK s')
    (l : List α) (s s' : State) (h : l.foldlM f s = .ok s') (hk : KeysOK s) : KeysOK s' :=
  foldlM_inv KeysOK f hf l s s' h hk

theorem keysOK_payoutStep {s s' : State} {k : Time × Nat} (hk : KeysOK s) (h : payoutStep s k = .ok s') : KeysOK s' := by
  unfold payoutStep at h
  simp only [bind_eq_ok, pure_eq_ok, requireP_eq_ok, orPanic_eq_ok] at h
  obtain ⟨item, hitem, reward, _, s2, h2, payAmt, _, _, _, s3, h3, rfl⟩ := h
  have k1 : KeysOK { s with payQ := s.payQ.erase (item.nextAt, item.id) } := hk.of_recs (by rfl)
  have k3 : KeysOK s3 := (k1.of_recs (recs_sendCoinFromDepositToModule h2)).of_recs (recs_sendCoinFromDepositToAccount h3)
  have k4 : KeysOK (emit s3 (ev "sentinel.subscription.v2.EventPayForPayout"
      [("address", addrTxt .acc item.addr), ("node_address", addrTxt .node item.node),
       ("payment", (⟨item.price.denom, payAmt⟩ : Coin).sdkString), ("staking_reward", reward.sdkString), ("id", toString item.id)])) :=
    keysOK_emit k3 _
  have hid : (payoutAdvance item).id = item.id := by unfold payoutAdvance; simp only []; split <;> rfl
  split
  · exact { k4 with payouts := keyed_set k4.payouts _ _ rfl }
  · exact { k4 with payouts := keyed_set k4.payouts _ _ rfl }

theorem keysOK_beginBlock {s s' : State} {t : Time} (hk : KeysOK s) (h : beginBlock s t = .ok s') : KeysOK s' := by
  unfold beginBlock haltOf at h
  split at h <;> try contradiction
  rename_i s'' hs
  simp only [Except.ok.injEq] at h
  subst h
  unfold subscriptionBeginBlock at hs
  refine keysOK_foldlM _ ?_ _ _ _ hs ?_
  · intro s0 k s1 h1 hp
    rw [panicIfErr_eq_ok] at h1
    exact keysOK_payoutStep hp h1
  · have k0 : KeysOK { s with time := t, height := s.height + 1, events := [] } := hk.of_recs (by rfl)
    exact (k0.of_recs (recs_mintBeginBlock_go _ _)).of_recs (recs_distrSweep _)

theorem keysOK_nodeSweep {s s' : State} (hk : KeysOK s) (h : nodeSweep s = .ok s') : KeysOK s' := by
  unfold nodeSweep at h
  split at h
  · rw [pure_eq_ok] at h; rw [← h]; exact hk
  · refine keysOK_foldlM _ ?_ _ s s' h hk
    intro s0 a s1 h1 hp
    simp only [bind_eq_ok, pure_eq_ok, orPanic_eq_ok] at h1
    obtain ⟨item, _, s2, h2, rfl⟩ := h1
    exact keysOK_emit (keysOK_setNode hp h2) _

theorem keysOK_nodeExpire {s s' : State} (hk : KeysOK s) (h : nodeExpire s = .ok s') : KeysOK s' := by
  unfold nodeExpire at h
  refine keysOK_foldlM _ ?_ _ s s' h hk
  intro s0 k s1 h1 hp
  unfold nodeExpireStep at h1
  simp only [bind_eq_ok, pure_eq_ok, orPanic_eq_ok] at h1
  obtain ⟨item, _, s3, h3, rfl⟩ := h1
  have k2 : KeysOK { { s0 with nodeActive := s0.nodeActive.erase item.addr } with
      nodeQ := s0.nodeQ.erase (item.inactiveAt, item.addr) } :=
    { hp with nodeA := keyed_erase hp.nodeA _ }
  exact keysOK_emit (keysOK_setNode k2 h3) _

theorem keysOK_settleSession {s s' : State} {x : Session} {acc node : Addr} {dep : Coin} {gb b a : Int} (hk : KeysOK s)
    (h : settleSession s x acc node dep gb b a = .ok s') : KeysOK s' := by
  unfold settleSession at h
  simp only [bind_eq_ok, pure_eq_ok, requireP_eq_ok] at h
  obtain ⟨price, _, prev, _, cur, _, payAmt, _, payment, _, reward, _, s1, h1, netAmt, _, _, _, s2, h2, rfl⟩ := h
  exact keysOK_emit ((hk.of_recs (recs_sendCoinFromDepositToModule h1)).of_recs (recs_sendCoinFromDepositToAccount h2)) _

theorem keysOK_sessionInactiveHook {s s' : State} {id : Nat} {acc node : Addr} {bytes : Int} (hk : KeysOK s)
    (h : sessionInactiveHook s id acc node bytes = .ok s') : KeysOK s' := by
  unfold sessionInactiveHook at h
  simp only [bind_eq_ok, require_eq_ok, orReject_eq_ok] at h
  obtain ⟨x, _, _, _, sub, _, h⟩ := h
  split at h
  · rw [pure_eq_ok] at h; rw [← h]; exact hk
  · simp only [bind_eq_ok, orReject_eq_ok] at h
    obtain ⟨a, ha, used, _, h⟩ := h
    have k1 : KeysOK (emit (setAllocation s (allocAfterUse a used)) (evAllocate (allocAfterUse a used))) :=
      keysOK_emit (keysOK_setAllocation hk _) _
    split at h
    · exact keysOK_settleSession k1 h
    · rw [pure_eq_ok] at h; rw [← h]; exact k1

theorem keysOK_removeSession {s : State} (hk : KeysOK s) (item : Session) : KeysOK (removeSession s item) := by
  unfold removeSession
  refine keysOK_emit ?_ _
  exact { hk with sess := keyed_erase hk.sess _ }

theorem keysOK_sessionStep {s s' : State} {k : Time × Nat} (hk : KeysOK s) (h : sessionStep s k = .ok s') : KeysOK s' := by
  unfold sessionStep at h
  simp only [bind_eq_ok, orPanic_eq_ok] at h
  obtain ⟨item, _, h⟩ := h
  split at h
  · rw [pure_eq_ok] at h; rw [← h]; exact keysOK_sessionToPending hk item
  · simp only [bind_eq_ok, pure_eq_ok, panicIfErr_eq_ok] at h
    obtain ⟨bytes, _, s2, h2, rfl⟩ := h
    have k1 : KeysOK { s with sessQ := s.sessQ.erase (item.inactiveAt, item.id) } := hk.of_recs (by rfl)
    exact keysOK_removeSession (keysOK_sessionInactiveHook k1 h2) item

theorem keysOK_refundSub {s s' : State} {item : Sub} (hk : KeysOK s) (h : refundSub s item = .ok s') : KeysOK s' := by
  unfold refundSub at h
  split at h
  · simp only [bind_eq_ok] at h
    obtain ⟨s1, h1, h2⟩ := h
    have i1 : KeysOK s1 := by
      split at h1
      · unfold refundGB at h1
        simp only [bind_eq_ok, pure_eq_ok, orPanic_eq_ok, panicIfErr_eq_ok] at h1
        obtain ⟨price, _, a, _, paid, _, ra, _, refund, _, s2, h2', rfl⟩ := h1
        exact keysOK_emit (hk.of_recs (recs_subtractDeposit h2')) _
      · rw [pure_eq_ok] at h1; rw [← h1]; exact hk
    split at h2
    · unfold refundHr at h2
      simp only [bind_eq_ok, pure_eq_ok, orPanic_eq_ok, panicIfErr_eq_ok] at h2
      obtain ⟨p, _, ra, _, refund, _, s2, h2', rfl⟩ := h2
      exact keysOK_emit (i1.of_recs (recs_subtractDeposit h2')) _
    · rw [pure_eq_ok] at h2; rw [← h2]; exact i1
  · rw [pure_eq_ok] at h; rw [← h]; exact hk

theorem keysOK_removeAllocs (l : List Addr) : ∀ (s : State) (id : Nat), KeysOK s → KeysOK (removeAllocs s id l) := by
  unfold removeAllocs
  induction l with
  | nil => intro s id h; exact h
  | cons a rest ih =>
    intro s id h
    rw [List.foldl_cons]
    exact ih _ id { h with allocs := keyed_erase h.allocs _ }

theorem keysOK_removeSubRecords {s : State} (hk : KeysOK s) (item : Sub) : KeysOK (removeSubRecords s item) := by
  unfold removeSubRecords
  cases item.kind with
  | node n g h d =>
    refine keysOK_emit ?_ _
    exact { hk with allocs := keyed_erase hk.allocs _, subs := keyed_erase hk.subs _ }
  | plan pid dn =>
    simp only []
    have k1 : KeysOK { s with subForPlan := s.subForPlan.erase (pid, item.id) } := hk.of_recs (by rfl)
    have k2 := keysOK_removeAllocs (allocAddrsForSub { s with subForPlan := s.subForPlan.erase (pid, item.id) } item.id) _ item.id k1
    refine keysOK_emit ?_ _
    exact { k2 with subs := keyed_erase k2.subs _ }

theorem keysOK_removePayout {s s' : State} {item : Sub} (hk : KeysOK s) (h : removePayout s item = .ok s') : KeysOK s' := by
  unfold removePayout at h
  split at h
  · simp only [bind_eq_ok, pure_eq_ok, orPanic_eq_ok] at h
    obtain ⟨p, _, rfl⟩ := h
    exact { hk with payouts := keyed_erase hk.payouts _ }
  · rw [pure_eq_ok] at h; rw [← h]; exact hk

theorem keysOK_detachPayout {s s' : State} {sub : Sub} {b : Bool} (hk : KeysOK s) (h : detachPayout s sub b = .ok s') : KeysOK s' := by
  unfold detachPayout at h
  split at h
  · simp only [bind_eq_ok, pure_eq_ok] at h
    obtain ⟨p, _, rfl⟩ := h
    unfold detachPayoutRec
    exact { hk with payouts := keyed_set hk.payouts _ _ rfl }
  · rw [pure_eq_ok] at h; rw [← h]; exact hk

theorem keysOK_subToPending {s : State} (hk : KeysOK s) (sub : Sub) (d : Dur) : KeysOK (subToPending s sub d).1 := by
  unfold subToPending
  exact { hk with subs := keyed_set hk.subs _ _ rfl }

theorem keysOK_subscriptionStep {s s' : State} {d : Dur} {k : Time × Nat} (hk : KeysOK s)
    (h : subscriptionStep d s k = .ok s') : KeysOK s' := by
  unfold subscriptionStep at h
  simp only [bind_eq_ok, orPanic_eq_ok] at h
  obtain ⟨item, _, h⟩ := h
  have k1 : KeysOK { s with subQ := s.subQ.erase (item.inactiveAt, item.id) } := hk.of_recs (by rfl)
  split at h
  · simp only [bind_eq_ok, panicIfErr_eq_ok] at h
    obtain ⟨s2, h2, h3⟩ := h
    unfold subscriptionInactivePendingHook at h2
    have k2 : KeysOK s2 := keysOK_hookFold _ _ s2 h2 k1
    exact keysOK_detachPayout (keysOK_subToPending k2 item d) h3
  · simp only [bind_eq_ok] at h
    obtain ⟨s2, h2, h3⟩ := h
    exact keysOK_removePayout (keysOK_removeSubRecords (keysOK_refundSub k1 h2) item) h3

theorem keysOK_endBlock {s s' : State} (hk : KeysOK s) (h : endBlock s = .ok s') : KeysOK s' := by
  unfold endBlock haltOf at h
  split at h <;> try contradiction
  rename_i s2 hs
  split at hs <;> try contradiction
  rename_i s3 hs3
  simp only [Except.ok.injEq] at hs h
  subst hs; subst h
  unfold vpnEndBlock nodeEndBlock at hs3
  simp only [bind_eq_ok] at hs3
  obtain ⟨s1, ⟨sa, ha, hb⟩, sb, hc, hd⟩ := hs3
  have k0 : KeysOK { s with events := [] } := hk.of_recs (by rfl)
  have i1 : KeysOK s1 := keysOK_nodeExpire (keysOK_nodeSweep k0 ha) hb
  have i2 : KeysOK sb := keysOK_foldlM _ (fun s0 k s1 h1 hp => keysOK_sessionStep hp h1) _ _ _ hc i1
  have i3 : KeysOK s3 := keysOK_foldlM _ (fun s0 k s1 h1 hp => keysOK_subscriptionStep hp h1) _ _ _ hd i2
  exact i3.of_recs (by rfl)

theorem keysOK_gov (s : State) (c : ParamChange) (hk : KeysOK s) : KeysOK ((gov s c).getD s) := by
  cases hg : gov s c with
  | none => exact hk
  | some s' =>
    simp only [Option.getD]
    refine hk.of_recs ?_
    unfold gov at hg
    cases c <;> simp only [] at hg <;> (try split at hg) <;>
      first
        | (simp only [Option.some.injEq] at hg; rw [← hg]; rfl)
        | (simp only [reduceCtorEq] at hg)

theorem keysOK_step (s s' : State) (op : Op) (h : step s op = some s') (hk : KeysOK s) : KeysOK s' := by
  cases op with
  | tx m =>
    simp only [step, Option.some.injEq] at h
    rw [← h]; exact KeysOK_deliver s m hk
  | begin t =>
    simp only [step] at h
    split at h
    · rename_i s1 hb
      simp only [Option.some.injEq] at h; rw [← h]; exact keysOK_beginBlock hk hb
    · contradiction
  | endB =>
    simp only [step] at h
    split at h
    · rename_i s1 hb
      simp only [Option.some.injEq] at h; rw [← h]; exact keysOK_endBlock hk hb
    · contradiction
  | gov c =>
    simp only [step, Option.some.injEq] at h
    rw [← h]; exact keysOK_gov s c hk

/-- `KeysOK` holds in every state of every history that starts from a genesis state of the domain. -/
theorem keysOK_all_histories (ops : List Op) (s : State) (hk : KeysOK s) : ∀ s' ∈ runTrace s ops, KeysOK s' := by
  induction ops generalizing s with
  | nil => intro s' h; simp [runTrace] at h
  | cons op rest ih =>
    intro s' h
    simp only [runTrace] at h
    cases hst : step s op with
    | none => simp [hst] at h
    | some s1 =>
      simp only [hst, List.mem_cons] at h
      have k1 := keysOK_step s s1 op hst hk
      rcases h with h | h
      · rw [h]; exact k1
      · exact ih s1 k1 s' h

/-- The state after delivering a list of messages (accepted or rejected). -/
def deliverAll (s : State) (ms : List Msg) : State := ms.foldl (fun st m => (deliver st m).1) s

theorem keysOK_deliverAll (ms : List Msg) : ∀ s, KeysOK s → KeysOK (deliverAll s ms) := by
  induction ms with
  | nil => intro s h; exact h
  | cons m rest ih => intro s h; exact ih _ (KeysOK_deliver s m h)

end Hub.Model
