import Hub.Lemmas.CalendarDefs
/- Chunk 14 of the complete day-of-era table: entries [14 * 9131, (14 + 1) * 9131), evaluated by the kernel. -/
namespace Hub.Lemmas.Calendar

theorem chunk14 : allFrom entryOK (14 * 9131) 9131 = true := by decide +kernel

end Hub.Lemmas.Calendar
