import Hub.Lemmas.CalendarDefs
/- Chunk 2 of the complete day-of-era table: entries [2 * 9131, (2 + 1) * 9131), evaluated by the kernel. -/
namespace Hub.Lemmas.Calendar

theorem chunk2 : allFrom entryOK (2 * 9131) 9131 = true := by decide +kernel

end Hub.Lemmas.Calendar
