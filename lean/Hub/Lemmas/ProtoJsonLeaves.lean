import Hub.Lemmas.ProtoJson
import Hub.Lemmas.CalendarBytes
import Hub.Lemmas.CalendarInv
/-
The concrete leaves of the JSON model (`goLeaves`, `Hub/SDK/ProtoJson.lean`) are read back by their parsers:
how much of `LeavesOK goLeaves` is PROVED.  Core Lean only.
-/
namespace Hub.SDK.ProtoJson
open Hub.SDK Hub.SDK.ProtoWire

/-! ## digits -/

def AllDigits (b : Bytes) : Prop := ∀ c ∈ b, (digitVal c).isSome = true

theorem digitVal_digit' (n : Nat) : (digitVal (UInt8.ofNat (48 + n % 10))).isSome = true := by
  rw [digitVal_digit (n % 10) (Nat.mod_lt _ (by omega))]; rfl

theorem allDigits_digitsLE (f : Nat) : ∀ n, AllDigits (digitsLE f n) := by
  induction f with
  | zero => intro n c hc; simp [digitsLE] at hc
  | succ k ih =>
    intro n c hc
    unfold digitsLE at hc
    split at hc
    · simp at hc
    · simp only [List.mem_cons] at hc
      cases hc with
      | inl h => rw [h]; exact digitVal_digit' n
      | inr h => exact ih _ c h

theorem allDigits_natText (n : Nat) : AllDigits (natText n) := by
  unfold natText
  split
  · intro c hc; simp only [List.mem_singleton] at hc; rw [hc]; rfl
  · intro c hc; exact allDigits_digitsLE n n c (List.mem_reverse.1 hc)

theorem allDigits_padDigits : ∀ (w n : Nat), AllDigits (padDigits w n) := by
  intro w
  induction w with
  | zero => intro n c hc; simp [padDigits] at hc
  | succ w ih =>
    intro n c hc
    simp only [padDigits, List.mem_append, List.mem_singleton] at hc
    cases hc with
    | inl h => exact ih _ c h
    | inr h => rw [h]; exact digitVal_digit' n

theorem allDigits_append {a b : Bytes} (ha : AllDigits a) (hb : AllDigits b) : AllDigits (a ++ b) := by
  intro c hc
  cases List.mem_append.1 hc with
  | inl h => exact ha c h
  | inr h => exact hb c h

theorem allDigits_replicate (z : Nat) : AllDigits (List.replicate z 48) := by
  intro c hc
  rw [(List.mem_replicate.1 hc).2]; rfl

theorem spanDigits_append : ∀ (xs : Bytes), AllDigits xs → ∀ (c : UInt8), (digitVal c).isSome = false → ∀ ys,
    spanDigits (xs ++ c :: ys) = (xs, c :: ys) := by
  intro xs
  induction xs with
  | nil => intro _ c hc ys; simp [spanDigits, hc]
  | cons x xs ih =>
    intro h c hc ys
    have hx := h x (List.mem_cons_self)
    simp only [List.cons_append, spanDigits, hx, if_true, ih (fun y hy => h y (List.mem_cons_of_mem _ hy)) c hc ys]

theorem spanDigits_all : ∀ (xs : Bytes), AllDigits xs → spanDigits xs = (xs, []) := by
  intro xs
  induction xs with
  | nil => intro _; rfl
  | cons x xs ih =>
    intro h
    have hx := h x (List.mem_cons_self)
    simp only [spanDigits, hx, if_true, ih (fun y hy => h y (List.mem_cons_of_mem _ hy))]

theorem parseDigits_zeros (z : Nat) (bs : Bytes) : parseDigits (List.replicate z 48 ++ bs) 0 = parseDigits bs 0 := by
  induction z with
  | zero => rfl
  | succ z ih =>
    have : digitVal 48 = some 0 := by decide
    simp only [List.replicate_succ, List.cons_append, parseDigits, this, Nat.zero_mul, Nat.add_zero, ih]

theorem parseDigits_natText (n : Nat) : parseDigits (natText n) 0 = some n := by
  have h := parseNatText_natText n
  cases hr : natText n with
  | nil => exact absurd hr (natText_ne_nil n)
  | cons c cs =>
    rw [hr] at h
    simp only [parseNatText] at h
    split at h
    · exact absurd h (by simp)
    · exact h

/-! ## `LegacyDec` -/

theorem decBody_decDigits (n : Nat) : decBody (decDigits n) = some n := by
  unfold decDigits
  simp only
  generalize hds : List.replicate (19 - (natText n).length) 48 ++ natText n = ds
  have hall : AllDigits ds := by rw [← hds]; exact allDigits_append (allDigits_replicate _) (allDigits_natText n)
  have hlen : 19 ≤ ds.length := by rw [← hds]; simp only [List.length_append, List.length_replicate]; omega
  have hparse : parseDigits ds 0 = some n := by rw [← hds, parseDigits_zeros, parseDigits_natText]
  have htake : AllDigits (ds.take (ds.length - 18)) := fun c hc => hall c (List.mem_of_mem_take hc)
  have h46 : (digitVal 46).isSome = false := by decide
  have hspan := spanDigits_append _ htake 46 h46 (ds.drop (ds.length - 18))
  have hne : (ds.take (ds.length - 18)).isEmpty = false := by
    cases hh : ds.take (ds.length - 18) with
    | nil =>
      have : (ds.take (ds.length - 18)).length = 0 := by rw [hh]; rfl
      rw [List.length_take] at this
      omega
    | cons _ _ => rfl
  have hdl : (ds.drop (ds.length - 18)).length = 18 := by rw [List.length_drop]; omega
  have hdne : (ds.drop (ds.length - 18)).isEmpty = false := by
    cases hh : ds.drop (ds.length - 18) with
    | nil => rw [hh] at hdl; simp at hdl
    | cons _ _ => rfl
  unfold decBody
  simp only [hspan, hne, Bool.false_eq_true, if_false]
  have h46' : (46 : UInt8).toNat = 46 := rfl
  simp only [h46', hdne, Bool.not_false, hdl, Nat.le_refl, and_self, if_true, Nat.sub_self, List.replicate_zero,
    List.append_nil, List.take_append_drop, hparse]

theorem decDigits_head (n : Nat) : ∃ c r, decDigits n = c :: r ∧ c.toNat ≠ 45 := by
  unfold decDigits
  simp only
  generalize hds : List.replicate (19 - (natText n).length) 48 ++ natText n = ds
  have hall : AllDigits ds := by rw [← hds]; exact allDigits_append (allDigits_replicate _) (allDigits_natText n)
  have hlen : 19 ≤ ds.length := by rw [← hds]; simp only [List.length_append, List.length_replicate]; omega
  cases hh : ds.take (ds.length - 18) with
  | nil =>
    have : (ds.take (ds.length - 18)).length = 0 := by rw [hh]; rfl
    rw [List.length_take] at this
    omega
  | cons c r =>
    refine ⟨c, r ++ 46 :: ds.drop (ds.length - 18), rfl, ?_⟩
    have hc : (digitVal c).isSome = true := hall c (List.mem_of_mem_take (by rw [hh]; exact List.mem_cons_self))
    intro h45
    unfold digitVal at hc
    rw [h45] at hc
    simp at hc

/-- **Leaf 4 (`LegacyDec`) is proved**: `LegacyNewDecFromStr(d.String()) = d` for every underlying integer. -/
theorem parseDec_decText (i : Int) : goLeaves.parseDec (goLeaves.decText i) = some i := by
  show parseDecBytes (unlatin1 (latin1 (decBytes i))) = some i
  rw [unlatin1_latin1]
  unfold parseDecBytes decBytes
  by_cases hi : i < 0
  · have h45 : (45 : UInt8).toNat = 45 := rfl
    simp only [hi, if_true, List.singleton_append, stripMinus, h45, decBody_decDigits]
    congr 1
    omega
  · obtain ⟨c, r, hcr, hc⟩ := decDigits_head i.natAbs
    have hb := decBody_decDigits i.natAbs
    simp only [hi, if_false, List.nil_append]
    rw [hcr] at hb ⊢
    simp only [stripMinus, hc, if_false, hb, Bool.false_eq_true]
    congr 1
    omega

/-! ## base64 -/

theorem b64_table : ∀ n, n < 64 → b64Val (b64Byte n) = some n ∧ (b64Byte n).toNat ≠ 61 := by decide +kernel

theorem u8_of (a : UInt8) (n : Nat) (h : n = a.toNat) : UInt8.ofNat n = a := by
  rw [h]; exact UInt8.ofNat_toNat

/-- **Leaf 1 (base64) is proved**: `StdEncoding.DecodeString(StdEncoding.EncodeToString(b)) = b`. -/
theorem unb64_b64 : ∀ b : Bytes, unb64Bytes (b64Bytes b) = some b
  | [] => rfl
  | [a] => by
    have ha : a.toNat < 256 := a.toNat_lt
    have t1 := b64_table (a.toNat * 65536 / 262144) (by omega)
    have t2 := b64_table (a.toNat * 65536 / 4096 % 64) (by omega)
    have h61 : (61 : UInt8).toNat = 61 := rfl
    simp only [b64Bytes, unb64Bytes, h61, if_true, List.isEmpty_nil, Bool.not_true, Bool.false_eq_true, if_false, t1.1, t2.1]
    have : a.toNat * 65536 / 4096 % 64 % 16 = 0 := by omega
    simp only [this, if_true]
    congr 2
    exact u8_of a _ (by omega)
  | [a, b] => by
    have ha : a.toNat < 256 := a.toNat_lt
    have hb : b.toNat < 256 := b.toNat_lt
    have t1 := b64_table ((a.toNat * 65536 + b.toNat * 256) / 262144) (by omega)
    have t2 := b64_table ((a.toNat * 65536 + b.toNat * 256) / 4096 % 64) (by omega)
    have t3 := b64_table ((a.toNat * 65536 + b.toNat * 256) / 64 % 64) (by omega)
    have h61 : (61 : UInt8).toNat = 61 := rfl
    simp only [b64Bytes, unb64Bytes, h61, if_true, List.isEmpty_nil, Bool.not_true, Bool.false_eq_true, if_false, t1.1, t2.1,
      t3.1, t3.2]
    have : (a.toNat * 65536 + b.toNat * 256) / 64 % 64 % 4 = 0 := by omega
    simp only [this, if_true]
    congr 2
    · exact u8_of a _ (by omega)
    · congr 1
      exact u8_of b _ (by omega)
  | a :: b :: c :: r => by
    have ih := unb64_b64 r
    have ha : a.toNat < 256 := a.toNat_lt
    have hb : b.toNat < 256 := b.toNat_lt
    have hc : c.toNat < 256 := c.toNat_lt
    have t1 := b64_table ((a.toNat * 65536 + b.toNat * 256 + c.toNat) / 262144) (by omega)
    have t2 := b64_table ((a.toNat * 65536 + b.toNat * 256 + c.toNat) / 4096 % 64) (by omega)
    have t3 := b64_table ((a.toNat * 65536 + b.toNat * 256 + c.toNat) / 64 % 64) (by omega)
    have t4 := b64_table ((a.toNat * 65536 + b.toNat * 256 + c.toNat) % 64) (by omega)
    simp only [b64Bytes, unb64Bytes, t4.2, if_false, t1.1, t2.1, t3.1, t4.1, ih]
    congr 2
    · exact u8_of a _ (by omega)
    · congr 1
      · exact u8_of b _ (by omega)
      · congr 1
        exact u8_of c _ (by omega)

/-! ## fractions of a second -/

open Hub.Lemmas.Calendar in
theorem parseDigits_padDigits : ∀ (w n : Nat), parseDigits (padDigits w n) 0 = some (n % 10 ^ w) := by
  intro w
  induction w with
  | zero => intro n; simp [padDigits, parseDigits, Nat.mod_one]
  | succ w ih =>
    intro n
    have hd : digitVal (digit n) = some (n % 10) := digitVal_digit (n % 10) (Nat.mod_lt _ (by omega))
    simp only [padDigits, parseDigits_append, ih (n / 10), parseDigits, hd]
    congr 1
    rw [Nat.pow_succ, Nat.mul_comm (10 ^ w) 10, Nat.mod_mul]
    omega

theorem fracTail_head (m : Nat) (stop : UInt8) (hs : (digitVal stop).isSome = false) :
    ∃ c r, fracBytes m ++ [stop] = c :: r ∧ (digitVal c).isSome = false := by
  have h46 : (digitVal 46).isSome = false := by decide
  unfold fracBytes
  split
  · exact ⟨stop, [], rfl, hs⟩
  · split
    · exact ⟨46, _, rfl, h46⟩
    · split
      · exact ⟨46, _, rfl, h46⟩
      · exact ⟨46, _, rfl, h46⟩

open Hub.Lemmas.Calendar in
theorem parseFrac_digits (stop : UInt8) (hs : (digitVal stop).isSome = false) (w v : Nat) (hw : 1 ≤ w ∧ w ≤ 9) (hv : v < 10 ^ w) :
    parseFrac stop.toNat (46 :: padDigits w v ++ [stop]) = some (v * 10 ^ (9 - w)) := by
  have hne : (padDigits w v ++ [stop]).isEmpty = false := by
    cases hh : padDigits w v ++ [stop] with
    | nil => simp at hh
    | cons _ _ => rfl
  have h46 : (46 : UInt8).toNat = 46 := rfl
  have hspan := spanDigits_append (padDigits w v) (allDigits_padDigits w v) stop hs []
  simp only [parseFrac, List.cons_append, hne, Bool.false_eq_true, if_false, h46, if_true, hspan, padDigits_length,
    hw.1, hw.2, and_self, parseDigits_padDigits, Nat.mod_eq_of_lt hv]

/-- The fraction written for `m` nanoseconds is read back as `m`. -/
theorem parseFrac_fracBytes (stop : UInt8) (hs : (digitVal stop).isSome = false) (m : Nat) (hm : m < 1000000000) :
    parseFrac stop.toNat (fracBytes m ++ [stop]) = some m := by
  unfold fracBytes
  split
  · rename_i h0
    simp only [List.nil_append, parseFrac, List.isEmpty_nil, if_true, h0]
  · split
    · rw [parseFrac_digits stop hs 3 (m / 1000000) (by omega) (by omega)]
      congr 1; omega
    · split
      · rw [parseFrac_digits stop hs 6 (m / 1000) (by omega) (by omega)]
        congr 1; omega
      · rw [parseFrac_digits stop hs 9 m (by omega) (by omega)]
        congr 1; omega

/-! ## `time.Duration` -/

theorem tdiv_signs (S N : Int) (hN : -1000000000 < N ∧ N < 1000000000) (h1 : ¬ (S < 0 ∧ N > 0)) (h2 : ¬ (S > 0 ∧ N < 0)) :
    Int.tdiv (S * 1000000000 + N) 1000000000 = S := by
  rcases tdiv_cases (S * 1000000000 + N) with ⟨_, h⟩ | ⟨_, h⟩ <;> rw [h] <;> omega

theorem dur_unsigned (A F : Nat) (hF : F < 1000000000) :
    spanDigits (natText A ++ (fracBytes F ++ [115])) = (natText A, fracBytes F ++ [115]) ∧
    (natText A).isEmpty = false ∧ parseFrac 115 (fracBytes F ++ [115]) = some F := by
  have h115 : (digitVal 115).isSome = false := by decide
  obtain ⟨c, r, hcr, hc⟩ := fracTail_head F 115 h115
  have hspan := spanDigits_append (natText A) (allDigits_natText A) c hc r
  have hne : (natText A).isEmpty = false := by
    cases hh : natText A with
    | nil => exact absurd hh (natText_ne_nil A)
    | cons _ _ => rfl
  have hfr := parseFrac_fracBytes 115 h115 F hF
  have e115 : (115 : UInt8).toNat = 115 := rfl
  rw [e115] at hfr
  rw [hcr, hspan]
  exact ⟨rfl, hne, by rw [← hcr]; exact hfr⟩

/-- **Leaf 3 (durations) is proved**: the text jsonpb writes for a valid `(seconds, nanos)` is read back as the same pair. -/
theorem parseDur_durText (s n : Nat) (h : durValid s n = true) : goLeaves.parseDur (goLeaves.durText s n) = some (s, n) := by
  simp only [goLeaves, unlatin1_latin1]
  unfold durValid at h
  simp only [Bool.and_eq_true, decide_eq_true_eq, Bool.not_eq_true', Bool.and_eq_false_iff, decide_eq_false_iff_not] at h
  obtain ⟨⟨⟨⟨⟨⟨⟨⟨⟨hs, hn⟩, b1⟩, b2⟩, b3⟩, b4⟩, g1⟩, g2⟩, r1⟩, r2⟩ := h
  have es := ofInt_toInt s hs
  have en := ofInt_toInt n hn
  generalize hS : toInt s = S at *
  generalize hN : toInt n = N at *
  have hF : N.natAbs < 1000000000 := by omega
  obtain ⟨hspan, hne, hfr⟩ := dur_unsigned S.natAbs N.natAbs hF
  have h45 : (45 : UInt8).toNat = 45 := rfl
  have hdiv := tdiv_signs S N ⟨b3, b4⟩ (by omega) (by omega)
  unfold parseDurBytes durBytes
  simp only [hS, hN]
  by_cases hneg : S < 0 ∨ (S = 0 ∧ N < 0)
  · -- one leading `-`
    have hb : ((if S = 0 ∧ N < 0 then [45] else []) ++ (if S < 0 then [45] else []) ++ natText S.natAbs ++ fracBytes N.natAbs ++ [115] : Bytes)
        = 45 :: (natText S.natAbs ++ (fracBytes N.natAbs ++ [115])) := by
      by_cases h0 : S < 0
      · have : ¬ (S = 0 ∧ N < 0) := by omega
        simp [h0, this]
      · have : S = 0 ∧ N < 0 := by omega
        simp [this]
    rw [hb]
    have htot : -(((S.natAbs : Nat) : Int) * 1000000000 + ((N.natAbs : Nat) : Int)) = S * 1000000000 + N := by omega
    simp only [stripMinus, h45, if_true, hspan, hne, Bool.false_eq_true, if_false, parseDigits_natText, hfr, htot, inRange]
    have hr1 : decide (-9223372036854775808 ≤ S * 1000000000 + N) = true := by simp only [decide_eq_true_eq]; omega
    have hr2 : decide (S * 1000000000 + N < 9223372036854775808) = true := by simp only [decide_eq_true_eq]; omega
    simp only [hr1, hr2, Bool.and_self, if_true, hdiv, es]
    have : S * 1000000000 + N - S * 1000000000 = N := by omega
    rw [this, en]
  · have hS0 : 0 ≤ S := by omega
    have hN0 : 0 ≤ N := by omega
    have hb : ((if S = 0 ∧ N < 0 then [45] else []) ++ (if S < 0 then [45] else []) ++ natText S.natAbs ++ fracBytes N.natAbs ++ [115] : Bytes)
        = natText S.natAbs ++ (fracBytes N.natAbs ++ [115]) := by
      have a1 : ¬ (S = 0 ∧ N < 0) := by omega
      have a2 : ¬ S < 0 := by omega
      simp [a1, a2]
    rw [hb]
    cases hnt : natText S.natAbs with
    | nil => exact absurd hnt (natText_ne_nil _)
    | cons c cs =>
      have hc := natText_head _ c cs hnt
      have hstrip : stripMinus (c :: cs ++ (fracBytes N.natAbs ++ [115])) = (false, c :: cs ++ (fracBytes N.natAbs ++ [115])) := by
        simp only [List.cons_append, stripMinus, hc, if_false]
      rw [hstrip, ← hnt]
      have htot : (((S.natAbs : Nat) : Int) * 1000000000 + ((N.natAbs : Nat) : Int)) = S * 1000000000 + N := by omega
      simp only [hspan, hne, Bool.false_eq_true, if_false, parseDigits_natText, hfr, htot, inRange]
      have hr1 : decide (-9223372036854775808 ≤ S * 1000000000 + N) = true := by simp only [decide_eq_true_eq]; omega
      have hr2 : decide (S * 1000000000 + N < 9223372036854775808) = true := by simp only [decide_eq_true_eq]; omega
      simp only [hr1, hr2, Bool.and_self, if_true, hdiv, es]
      have : S * 1000000000 + N - S * 1000000000 = N := by omega
      rw [this, en]

/-! ## `time.Time` -/

open Hub.Lemmas.Calendar in
theorem readN_pad (w n : Nat) (rest : Bytes) (hn : n < 10 ^ w) : readN w (padDigits w n ++ rest) = some (n, rest) := by
  have hl := padDigits_length w n
  have h1 : w ≤ (padDigits w n ++ rest).length := by rw [List.length_append, hl]; omega
  have h2 : (padDigits w n ++ rest).take w = padDigits w n := List.take_left' hl
  have h3 : (padDigits w n ++ rest).drop w = rest := List.drop_left' hl
  simp only [readN, h1, if_true, h2, h3, parseDigits_padDigits, Nat.mod_eq_of_lt hn]

theorem expect_cons (c : Nat) (x : UInt8) (rest : Bytes) (hx : x.toNat = c) : expect c (x :: rest) = some rest := by
  simp only [expect, hx, if_true]

/-- The eleven pieces before the fraction. -/
def timeHead (y m d hh mi ss : Nat) (rest : Bytes) : Bytes :=
  padDigits 4 y ++ 45 :: (padDigits 2 m ++ 45 :: (padDigits 2 d ++ 84 :: (padDigits 2 hh ++
    58 :: (padDigits 2 mi ++ 58 :: (padDigits 2 ss ++ rest)))))

open Hub.Lemmas.Calendar in
theorem timeBytes_eq (t : Int) :
    (formatTimeBytes t).take 19 ++ fracBytes (t % 1000000000).toNat ++ [90] =
      timeHead (civilFromDays (t / nsPerDay)).1.toNat (civilFromDays (t / nsPerDay)).2.1.toNat
        (civilFromDays (t / nsPerDay)).2.2.toNat (t % nsPerDay / nsPerSec / 3600).toNat
        (t % nsPerDay / nsPerSec % 3600 / 60).toNat (t % nsPerDay / nsPerSec % 60).toNat
        (fracBytes (t % 1000000000).toNat ++ [90]) := by
  have hf : formatTimeBytes t =
      timeHead (civilFromDays (t / nsPerDay)).1.toNat (civilFromDays (t / nsPerDay)).2.1.toNat
        (civilFromDays (t / nsPerDay)).2.2.toNat (t % nsPerDay / nsPerSec / 3600).toNat
        (t % nsPerDay / nsPerSec % 3600 / 60).toNat (t % nsPerDay / nsPerSec % 60).toNat [] ++
      (46 :: padDigits 9 (t % nsPerDay % nsPerSec).toNat) := by
    simp only [formatTimeBytes, timeFields, timeHead, List.append_assoc, List.cons_append, List.nil_append, List.append_nil]
  have hl : ∀ y m d hh mi ss, (timeHead y m d hh mi ss []).length = 19 := by
    intro y m d hh mi ss
    simp only [timeHead, List.length_append, List.length_cons, List.length_nil, padDigits_length]
  rw [hf, List.take_left' (hl _ _ _ _ _ _)]
  simp only [timeHead, List.append_assoc, List.cons_append, List.nil_append]

theorem parseTime_head (y m d hh mi ss : Nat) (rest : Bytes) (hy : y < 10000) (hm : m < 100) (hd : d < 100) (hh' : hh < 100)
    (hmi : mi < 100) (hss : ss < 100) :
    parseTimeBytes (timeHead y m d hh mi ss rest) =
      (parseFrac 90 rest).bind fun ns =>
        if 1 ≤ m ∧ m ≤ 12 ∧ 1 ≤ d ∧ d ≤ daysInMonth y m ∧ hh < 24 ∧ mi < 60 ∧ ss < 60 then
          some (ofInt (daysFromCivil y m d * 86400 + hh * 3600 + mi * 60 + ss), ns)
        else none := by
  have e45 : (45 : UInt8).toNat = 45 := rfl
  have e84 : (84 : UInt8).toNat = 84 := rfl
  have e58 : (58 : UInt8).toNat = 58 := rfl
  simp only [parseTimeBytes, timeHead, readN_pad 4 y _ (by omega), readN_pad 2 m _ (by omega), readN_pad 2 d _ (by omega),
    readN_pad 2 hh _ (by omega), readN_pad 2 mi _ (by omega), readN_pad 2 ss _ (by omega), Option.bind,
    expect_cons 45 45 _ e45, expect_cons 84 84 _ e84, expect_cons 58 58 _ e58]

open Hub.Lemmas.Calendar in
/-- **Leaf 2 (times) is proved**: the RFC 3339 text written for an instant of the years 1 … 9999 is read back as the same
`(seconds, nanos)`. -/
theorem parseTime_timeText (s n : Nat) (h : timeValid s n = true) : goLeaves.parseTime (goLeaves.timeText s n) = some (s, n) := by
  simp only [goLeaves, unlatin1_latin1]
  unfold timeValid at h
  simp only [Bool.and_eq_true, Bool.or_eq_true, decide_eq_true_eq] at h
  obtain ⟨hs, hn⟩ := h
  have hs64 : s < P64 := by omega
  have es := ofInt_toInt s hs64
  have hS : -62135596800 ≤ toInt s ∧ toInt s < 253402300800 := by
    unfold toInt; split <;> omega
  unfold timeBytes
  simp only
  generalize toInt s = S at *
  generalize ht : S * 1000000000 + (n : Int) = t
  -- the fields of the instant
  have hz : t / nsPerDay = S / 86400 := by unfold nsPerDay; omega
  have hrem : t % nsPerDay / nsPerSec = S % 86400 := by unfold nsPerDay nsPerSec; omega
  have hns : (t % 1000000000).toNat = n := by omega
  rw [timeBytes_eq, hz, hrem, hns]
  have zr : -719162 ≤ S / 86400 ∧ S / 86400 < 2932897 := by omega
  have yr := civil_year_range (S / 86400) zr.1 zr.2
  have mr := civil_range (S / 86400)
  have dim := civil_day_in_month (S / 86400) (by omega)
  have inv := daysFromCivil_civilFromDays (S / 86400)
  generalize (civilFromDays (S / 86400)).1 = Y at *
  generalize (civilFromDays (S / 86400)).2.1 = M at *
  generalize (civilFromDays (S / 86400)).2.2 = D at *
  have h90 : (digitVal 90).isSome = false := by decide
  have hfr := parseFrac_fracBytes 90 h90 n hn
  have e90 : (90 : UInt8).toNat = 90 := rfl
  rw [e90] at hfr
  rw [parseTime_head _ _ _ _ _ _ _ (by omega) (by omega) (by omega) (by omega) (by omega) (by omega), hfr]
  simp only [Option.bind]
  have c1 : (1 ≤ M.toNat ∧ M.toNat ≤ 12 ∧ 1 ≤ D.toNat ∧ D.toNat ≤ daysInMonth Y.toNat M.toNat ∧
      (S % 86400 / 3600).toNat < 24 ∧ (S % 86400 % 3600 / 60).toNat < 60 ∧ (S % 86400 % 60).toNat < 60) :=
    ⟨by omega, by omega, by omega, dim.2, by omega, by omega, by omega⟩
  simp only [c1, and_self, if_true]
  have eY : ((Y.toNat : Nat) : Int) = Y := by omega
  have eM : ((M.toNat : Nat) : Int) = M := by omega
  have eD : ((D.toNat : Nat) : Int) = D := by omega
  rw [eY, eM, eD, inv]
  have : S / 86400 * 86400 + (((S % 86400 / 3600).toNat : Nat) : Int) * 3600 + (((S % 86400 % 3600 / 60).toNat : Nat) : Int) * 60 +
      (((S % 86400 % 60).toNat : Nat) : Int) = S := by omega
  rw [this, es]

/-- **All four leaves are proved for the executable instance**: the hypothesis `LeavesOK` of the JSON theorems holds
of `goLeaves`, the renderings the probe compares with the real codec. -/
theorem goLeaves_ok : LeavesOK goLeaves where
  b64 b := by simp only [goLeaves, unlatin1_latin1, unb64_b64]
  time := parseTime_timeText
  dur := parseDur_durText
  dec i _ := parseDec_decText i

end Hub.SDK.ProtoJson
