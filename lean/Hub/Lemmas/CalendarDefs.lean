import Hub.SDK.Time
/-
Definitions for the finite calendar table behind C17 (byte order of formatted times = time order).

`civilFromDays` (Hinnant) splits a day number into a 400-year era and a day-of-era
`doe ∈ [0, 146097)`; everything but the final `+ era * 400` depends on `doe` only.  `civilN` is that
era-independent part over `Nat` (the kernel evaluates `Nat` arithmetic with GMP, which makes the
complete table of 146097 entries cheap), `entryOK k` is the per-day fact the table checks, and
`allFrom` is the Bool fold the chunk modules evaluate with `decide +kernel`.
-/
namespace Hub.Lemmas.Calendar

/-- `P` holds for every `k < n` (a Bool fold the kernel can evaluate). -/
def allBelow (P : Nat → Bool) : Nat → Bool
  | 0 => true
  | n + 1 => P n && allBelow P n

theorem allBelow_spec {P : Nat → Bool} : ∀ {n : Nat}, allBelow P n = true → ∀ k, k < n → P k = true
  | 0, _, k, hk => absurd hk (Nat.not_lt_zero k)
  | n + 1, h, k, hk => by
    simp only [allBelow, Bool.and_eq_true] at h
    rcases Nat.lt_succ_iff_lt_or_eq.mp hk with hlt | heq
    · exact allBelow_spec h.2 k hlt
    · exact heq ▸ h.1

/-- `P` holds for every `k` in `[lo, lo + n)`. -/
def allFrom (P : Nat → Bool) (lo n : Nat) : Bool := allBelow (fun k => P (lo + k)) n

theorem allFrom_spec {P : Nat → Bool} {lo n : Nat} (h : allFrom P lo n = true) (k : Nat)
    (h1 : lo ≤ k) (h2 : k < lo + n) : P k = true := by
  have := allBelow_spec h (k - lo) (by omega)
  have e : lo + (k - lo) = k := by omega
  simpa only [e] using this

/-- Year of era of a day of era (Hinnant's formula), over `Nat`. -/
def yoeN (k : Nat) : Nat := (k - k / 1460 + k / 36524 - k / 146096) / 365

/-- First day of era of a year of era. -/
def startN (y : Nat) : Nat := 365 * y + y / 4 - y / 100

/-- The era-independent part of `civilFromDays` over `Nat`: (year of era counted from January,
month, day) of a day of era. -/
def civilN (k : Nat) : Nat × Nat × Nat :=
  let yoe := yoeN k
  let doy := k - startN yoe
  let mp := (5 * doy + 2) / 153
  let d := doy - (153 * mp + 2) / 5 + 1
  let m := if mp < 10 then mp + 3 else mp - 9
  (if m ≤ 2 then yoe + 1 else yoe, m, d)

/-- A single number ordered like the (year, month, day) triple when month ≤ 99 and day ≤ 99. -/
def keyN (c : Nat × Nat × Nat) : Nat := c.1 * 10000 + c.2.1 * 100 + c.2.2

/-- Field ranges of one era: year of era 0..400, month 1..12, day 1..31. -/
def rangeN (c : Nat × Nat × Nat) : Bool :=
  decide (c.1 ≤ 400) && decide (1 ≤ c.2.1) && decide (c.2.1 ≤ 12) && decide (1 ≤ c.2.2) && decide (c.2.2 ≤ 31)

/-- The fact checked for every day of era `k < 146096`: the truncated subtraction in `civilN` does
not underflow, the fields are in range, and the next day has a strictly larger key. -/
def entryOK (k : Nat) : Bool :=
  decide (startN (yoeN k) ≤ k) && rangeN (civilN k) && decide (keyN (civilN k) < keyN (civilN (k + 1)))

/-- Number of table entries per chunk module; 16 chunks cover `[0, 146096)`. -/
def chunkSize : Nat := 9131

end Hub.Lemmas.Calendar
