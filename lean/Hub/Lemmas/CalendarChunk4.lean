import Hub.Lemmas.CalendarDefs
/- Chunk 4 of the complete day-of-era table: entries [4 * 9131, (4 + 1) * 9131), evaluated by the kernel. -/
namespace Hub.Lemmas.Calendar

theorem chunk4 : allFrom entryOK (4 * 9131) 9131 = true := by decide +kernel

end Hub.Lemmas.Calendar
