import Hub.Lemmas.Swap
import Hub.Lemmas.AllInv
/-
C01, destination clause: which accounts a step of the model can credit.

`CreditsOnly s s' R` says that every (account, denomination) balance that is larger in `s'` than in
`s` belongs to an account in `R`.  The relation is transitive for a FIXED `R`, so a step is walked
through primitive by primitive:

* the bank / escrow primitives credit only their target (`sendCoins_pay`, `depositAdd_pay`,
  `depositToAccount_pay`, `depositToModule_pay` and the zero-coin wrappers) — provided the coin is not
  negative, which every coin of the hub is by construction (`newCoin`, `GetProportionOfCoin`, a checked
  difference) except the two deposit parameters (`DepositParamsOK`);
* the message handlers (`handle_credits`);
* the hook iterations (`payoutStep_acc`, `sessionStep_acc`, `subscriptionStep_acc`), which read their
  records live from intermediate states: `Known R s` says that the owner of every stored
  subscription, the node and the owner of every stored payout and the node of every stored session
  are in `R`; every iteration keeps it (records are rewritten with the same addresses or deleted);
* the blocks (`beginBlock_credits`, `endBlock_credits`) and `step` (`step_credits`).
-/
namespace Hub.Model
open Hub.SDK
open Hub.Generated (Status AmountForBytes GetProportionOfCoin Gigabyte)

/-! ### statements -/

/-- The node of a node subscription. -/
def subNodeAddr (x : Sub) : Option Addr :=
  match x.kind with
  | .node n _ _ _ => some n
  | .plan _ _ => none

/-- The accounts the property allows a marketplace step to credit, read off the PRE-state of the
step: the escrow, the fee collector, the community pool (the distribution module account), the
provider of a stored plan, the owner of a stored subscription, the node of a stored node
subscription, of a stored payout or of a stored session. -/
def Payee (s : State) (a : Addr) : Prop :=
  a = depositAddr ∨ a = feeCollectorAddr ∨ a = distrAddr ∨
  (∃ i p, (s.planActive.get i = some p ∨ s.planInactive.get i = some p) ∧ p.prov = a) ∨
  (∃ i x, s.subs.get i = some x ∧ x.addr = a) ∨
  (∃ i x, s.subs.get i = some x ∧ subNodeAddr x = some a) ∨
  (∃ i p, s.payouts.get i = some p ∧ p.node = a) ∨
  (∃ i x, s.sessions.get i = some x ∧ x.node = a)

/-- Every balance that grew from `s` to `s'` belongs to an account in `R`. -/
def CreditsOnly (s s' : State) (R : Addr → Prop) : Prop := ∀ a d, balance s a d < balance s' a d → R a

/-- The two deposit parameters are not negative (their governance validator `validCoinParam` enforces
it, so only a genesis could violate it). -/
def DepositParamsOK (s : State) : Prop := 0 ≤ s.params.provDeposit.amount ∧ 0 ≤ s.params.nodeDeposit.amount

/-- The account a stored payout draws on is the owner of a stored subscription (a consequence of
`SubIdx`, hence true in every reachable state). -/
def PayoutOwned (s : State) : Prop := ∀ i p, s.payouts.get i = some p → ∃ j x, s.subs.get j = some x ∧ x.addr = p.addr

/-! ### the relation -/

theorem CreditsOnly.of_bank {s s' : State} {R : Addr → Prop} (h : s'.bank = s.bank) : CreditsOnly s s' R := by
  intro a d hlt
  unfold balance at hlt
  rw [h] at hlt
  exact absurd hlt (Int.lt_irrefl _)

theorem CreditsOnly.refl (s : State) (R : Addr → Prop) : CreditsOnly s s R := CreditsOnly.of_bank rfl

/-- A balance that grew from `a` to `c` grew from `a` to `b` or from `b` to `c`. -/
theorem CreditsOnly.trans {a b c : State} {R : Addr → Prop} (h1 : CreditsOnly a b R) (h2 : CreditsOnly b c R) :
    CreditsOnly a c R := by
  intro x d hlt
  by_cases h : balance a x d < balance b x d
  · exact h1 x d h
  · exact h2 x d (by omega)

theorem CreditsOnly.mono {s s' : State} {R R' : Addr → Prop} (h : CreditsOnly s s' R) (hr : ∀ a, R a → R' a) :
    CreditsOnly s s' R' := fun a d hlt => hr a (h a d hlt)

theorem CreditsOnly.bank_right {a b c : State} {R : Addr → Prop} (h1 : CreditsOnly a b R) (h : c.bank = b.bank) :
    CreditsOnly a c R := h1.trans (CreditsOnly.of_bank h)

theorem CreditsOnly.bank_left {a b c : State} {R : Addr → Prop} (h1 : CreditsOnly b c R) (h : b.bank = a.bank) :
    CreditsOnly a c R := (CreditsOnly.of_bank h).trans h1

/-- The three record tables the hooks read their payees from are unchanged. -/
structure Same (s s' : State) : Prop where
  subs : s'.subs = s.subs
  payouts : s'.payouts = s.payouts
  sessions : s'.sessions = s.sessions

theorem Same.refl (s : State) : Same s s := ⟨rfl, rfl, rfl⟩

theorem Same.trans {a b c : State} (h1 : Same a b) (h2 : Same b c) : Same a c :=
  ⟨h2.subs.trans h1.subs, h2.payouts.trans h1.payouts, h2.sessions.trans h1.sessions⟩

theorem Same.of_moneyFrame {s s' : State} (h : MoneyFrame s s') : Same s s' := by
  unfold MoneyFrame at h
  have : s'.subs = s.subs ∧ s'.payouts = s.payouts ∧ s'.sessions = s.sessions := by rw [h]; exact ⟨rfl, rfl, rfl⟩
  exact ⟨this.1, this.2.1, this.2.2⟩

/-- A monetary sub-step: credits only `R`, leaves the record tables alone. -/
def Pay (R : Addr → Prop) (s s' : State) : Prop := CreditsOnly s s' R ∧ Same s s'

theorem Pay.refl (R : Addr → Prop) (s : State) : Pay R s s := ⟨CreditsOnly.refl s R, Same.refl s⟩

theorem Pay.trans {R : Addr → Prop} {a b c : State} (h1 : Pay R a b) (h2 : Pay R b c) : Pay R a c :=
  ⟨h1.1.trans h2.1, h1.2.trans h2.2⟩

/-! ### signs -/

theorem newCoin_nonneg {d : Denom} {a : Int} {c : Coin} (h : newCoin d a = .ok c) : 0 ≤ c.amount := by
  unfold newCoin at h
  split at h
  · simp [gopanic] at h
  · split at h
    · simp [gopanic] at h
    · rw [pure_eq_ok] at h; subst h; simp only []; omega

theorem proportion_nonneg {coin c : Coin} {share : Dec} (h : GetProportionOfCoin coin share = .ok c) : 0 ≤ c.amount := by
  unfold GetProportionOfCoin at h
  simp only [bind_eq_ok] at h
  obtain ⟨_, _, _, _, h⟩ := h
  exact newCoin_nonneg h

/-! ### bank and escrow primitives -/

/-- `bank.SendCoins` of a non-negative coin credits only the recipient. -/
theorem sendCoins_pay {R : Addr → Prop} {s s' : State} {f t : Addr} {c : Coin} (h : sendCoins s f t c = .ok s')
    (h0 : 0 ≤ c.amount) (ht : R t) : Pay R s s' := by
  obtain ⟨hb, _, _⟩ := sendCoins_ok h
  refine ⟨?_, Same.of_moneyFrame (sendCoins_frame h)⟩
  intro a d hlt
  rw [hb] at hlt
  by_cases hta : t = a
  · subst hta; exact ht
  · exfalso
    simp only [hta, false_and, if_false] at hlt
    split at hlt <;> omega

theorem fundCommunityPool_pay {R : Addr → Prop} {s s' : State} {f : Addr} {c : Coin} (h : fundCommunityPool s f c = .ok s')
    (h0 : 0 ≤ c.amount) (hR : R distrAddr) : Pay R s s' := by
  unfold fundCommunityPool at h
  split at h
  · rw [pure_eq_ok] at h; subst h; exact Pay.refl R s
  · exact sendCoins_pay h h0 hR

theorem sendCoin_pay {R : Addr → Prop} {s s' : State} {f t : Addr} {c : Coin} (h : sendCoin s f t c = .ok s')
    (h0 : 0 ≤ c.amount) (hR : R t) : Pay R s s' := by
  unfold sendCoin at h
  split at h
  · rw [pure_eq_ok] at h; subst h; exact Pay.refl R s
  · exact sendCoins_pay h h0 hR

theorem sendCoinFromAccountToModule_pay {R : Addr → Prop} {s s' : State} {f m : Addr} {c : Coin}
    (h : sendCoinFromAccountToModule s f m c = .ok s') (h0 : 0 ≤ c.amount) (hR : R m) : Pay R s s' := by
  unfold sendCoinFromAccountToModule at h
  split at h
  · rw [pure_eq_ok] at h; subst h; exact Pay.refl R s
  · exact sendCoins_pay h h0 hR

/-- `SendCoinsFromAccountToDeposit` credits only the escrow account. -/
theorem depositAdd_pay {R : Addr → Prop} {s s' : State} {f t : Addr} {c : Coin} (h : depositAdd s f t c = .ok s')
    (h0 : 0 ≤ c.amount) (hR : R depositAddr) : Pay R s s' := by
  unfold depositAdd at h
  simp only [bind_eq_ok, pure_eq_ok, require_eq_ok] at h
  obtain ⟨s1, hs1, _, _, rfl⟩ := h
  have p1 := sendCoins_pay hs1 h0 hR
  exact ⟨p1.1.bank_right rfl, ⟨p1.2.subs, p1.2.payouts, p1.2.sessions⟩⟩

/-- Common core of the two escrow withdrawals. -/
theorem depositOut_pay {R : Addr → Prop} {s s1 : State} {f t : Addr} {c : Coin} {cur : Coins} {e : Event}
    (hs1 : sendCoins s depositAddr t c = .ok s1) (h0 : 0 ≤ c.amount) (hR : R t) :
    Pay R s (emit (putDeposit s1 f cur) e) := by
  have p1 := sendCoins_pay hs1 h0 hR
  have hpf := putDeposit_frame s1 f cur
  have hbank : (putDeposit s1 f cur).bank = s1.bank := by rw [hpf]
  have hsubs : (putDeposit s1 f cur).subs = s1.subs := by rw [hpf]
  have hpay : (putDeposit s1 f cur).payouts = s1.payouts := by rw [hpf]
  have hses : (putDeposit s1 f cur).sessions = s1.sessions := by rw [hpf]
  exact ⟨p1.1.bank_right hbank, ⟨hsubs.trans p1.2.subs, hpay.trans p1.2.payouts, hses.trans p1.2.sessions⟩⟩

/-- `SendCoinsFromDepositToAccount` credits only the recipient. -/
theorem depositToAccount_pay {R : Addr → Prop} {s s' : State} {f t : Addr} {c : Coin} (h : depositToAccount s f t c = .ok s')
    (h0 : 0 ≤ c.amount) (hR : R t) : Pay R s s' := by
  unfold depositToAccount sendModuleToAccount at h
  simp only [bind_eq_ok, pure_eq_ok, require_eq_ok, orReject_eq_ok] at h
  obtain ⟨cur, _, _, _, s1, hs1, rfl⟩ := h
  split at hs1
  · simp [reject] at hs1
  · exact depositOut_pay hs1 h0 hR

/-- `SendCoinsFromDepositToModule` credits only the module account. -/
theorem depositToModule_pay {R : Addr → Prop} {s s' : State} {f m : Addr} {c : Coin} (h : depositToModule s f m c = .ok s')
    (h0 : 0 ≤ c.amount) (hR : R m) : Pay R s s' := by
  unfold depositToModule at h
  simp only [bind_eq_ok, pure_eq_ok, require_eq_ok, orReject_eq_ok] at h
  obtain ⟨cur, _, _, _, s1, hs1, rfl⟩ := h
  exact depositOut_pay hs1 h0 hR

theorem addDeposit_pay {R : Addr → Prop} {s s' : State} {a : Addr} {c : Coin} (h : addDeposit s a c = .ok s')
    (h0 : 0 ≤ c.amount) (hR : R depositAddr) : Pay R s s' := by
  unfold addDeposit at h
  split at h
  · rw [pure_eq_ok] at h; subst h; exact Pay.refl R s
  · exact depositAdd_pay h h0 hR

theorem subtractDeposit_pay {R : Addr → Prop} {s s' : State} {a : Addr} {c : Coin} (h : subtractDeposit s a c = .ok s')
    (h0 : 0 ≤ c.amount) (hR : R a) : Pay R s s' := by
  unfold subtractDeposit at h
  split at h
  · rw [pure_eq_ok] at h; subst h; exact Pay.refl R s
  · exact depositToAccount_pay h h0 hR

theorem sendCoinFromDepositToAccount_pay {R : Addr → Prop} {s s' : State} {f t : Addr} {c : Coin}
    (h : sendCoinFromDepositToAccount s f t c = .ok s') (h0 : 0 ≤ c.amount) (hR : R t) : Pay R s s' := by
  unfold sendCoinFromDepositToAccount at h
  split at h
  · rw [pure_eq_ok] at h; subst h; exact Pay.refl R s
  · exact depositToAccount_pay h h0 hR

theorem sendCoinFromDepositToModule_pay {R : Addr → Prop} {s s' : State} {f m : Addr} {c : Coin}
    (h : sendCoinFromDepositToModule s f m c = .ok s') (h0 : 0 ≤ c.amount) (hR : R m) : Pay R s s' := by
  unfold sendCoinFromDepositToModule at h
  split at h
  · rw [pure_eq_ok] at h; subst h; exact Pay.refl R s
  · exact depositToModule_pay h h0 hR

/-! ### message handlers -/

theorem bank_of_view {s s' : State} (h : view s' = view s) : s'.bank = s.bank := congrArg MoneyView.bank h

theorem provRegister_credits {R : Addr → Prop} {s s' : State} {frm : Addr} {n i w d : Bytes}
    (h : provRegister s frm n i w d = .ok s') (h0 : 0 ≤ s.params.provDeposit.amount) (hR : R distrAddr) :
    CreditsOnly s s' R := by
  unfold provRegister at h
  simp only [bind_eq_ok, pure_eq_ok, require_eq_ok] at h
  obtain ⟨_, _, s1, h1, s2, h2, rfl⟩ := h
  exact (fundCommunityPool_pay h1 h0 hR).1.bank_right (bank_of_view ((view_emit _ _).trans (setProvider_view h2)))

theorem provUpdate_bank {s s' : State} {frm : Addr} {n i w d : Bytes} {st : Status}
    (h : provUpdate s frm n i w d st = .ok s') : s'.bank = s.bank := by
  unfold provUpdate at h
  simp only [bind_eq_ok, pure_eq_ok, orReject_eq_ok] at h
  obtain ⟨p, _, s3, h3, rfl⟩ := h
  refine bank_of_view ?_
  rw [show view (emit s3 _) = view s3 from rfl, setProvider_view h3]
  split <;> split <;> rfl

theorem nodeRegister_credits {R : Addr → Prop} {s s' : State} {frm : Addr} {gb hr : Coins} {url : Bytes}
    (h : nodeRegister s frm gb hr url = .ok s') (h0 : 0 ≤ s.params.nodeDeposit.amount) (hR : R distrAddr) :
    CreditsOnly s s' R := by
  unfold nodeRegister at h
  simp only [bind_eq_ok, pure_eq_ok, require_eq_ok] at h
  obtain ⟨_, _, _, _, _, _, s1, h1, s2, h2, rfl⟩ := h
  exact (fundCommunityPool_pay h1 h0 hR).1.bank_right (bank_of_view ((view_emit _ _).trans (setNode_view h2)))

theorem nodeUpdate_bank {s s' : State} {frm : Addr} {gb hr : Option Coins} {url : Bytes}
    (h : nodeUpdate s frm gb hr url = .ok s') : s'.bank = s.bank := by
  unfold nodeUpdate at h
  simp only [bind_eq_ok, pure_eq_ok, require_eq_ok, orReject_eq_ok] at h
  obtain ⟨_, _, _, _, n, _, s1, h1, rfl⟩ := h
  exact bank_of_view ((view_emit _ _).trans (setNode_view h1))

theorem nodeStatus_bank {s s' : State} {frm : Addr} {st : Status} (h : nodeStatus s frm st = .ok s') : s'.bank = s.bank := by
  unfold nodeStatus at h
  simp only [bind_eq_ok, pure_eq_ok, orReject_eq_ok] at h
  obtain ⟨n, _, s5, h5, rfl⟩ := h
  refine bank_of_view ?_
  rw [show view (emit s5 _) = view s5 from rfl, setNode_view h5]
  split <;> split <;> split <;> split <;> rfl

theorem createNodeSubGB_credits {R : Addr → Prop} {s : State} {acc node : Addr} {n : Node} {gb : Int} {denom : Denom}
    {r : State × Sub} (h : createNodeSubGB s acc node n gb denom = .ok r) (hR : R depositAddr) : CreditsOnly s r.1 R := by
  unfold createNodeSubGB at h
  simp only [bind_eq_ok, pure_eq_ok, orReject_eq_ok] at h
  obtain ⟨price, _, bytes, _, amt, _, dep, hdep, s1, h1, granted, _, rfl⟩ := h
  refine (addDeposit_pay h1 (newCoin_nonneg hdep) hR).1.bank_right (bank_of_view ?_)
  simp only [view_emit, view_setAllocation, view_insertSub]

theorem createNodeSubHr_credits {R : Addr → Prop} {s : State} {acc node : Addr} {n : Node} {hr : Int} {denom : Denom}
    {r : State × Sub} (h : createNodeSubHr s acc node n hr denom = .ok r) (hR : R depositAddr) : CreditsOnly s r.1 R := by
  unfold createNodeSubHr at h
  simp only [bind_eq_ok, pure_eq_ok, orReject_eq_ok] at h
  obtain ⟨price, _, amt, _, dep, hdep, s1, h1, pa, _, hourly, _, rfl⟩ := h
  refine (addDeposit_pay h1 (newCoin_nonneg hdep) hR).1.bank_right (bank_of_view ?_)
  simp only [view_insertPayout, view_insertSub]

theorem nodeSubscribe_credits {R : Addr → Prop} {s s' : State} {frm node : Addr} {gb hr : Int} {denom : Denom}
    (h : nodeSubscribe s frm node gb hr denom = .ok s') (hR : R depositAddr) : CreditsOnly s s' R := by
  unfold nodeSubscribe createSubscriptionForNode at h
  simp only [bind_eq_ok, pure_eq_ok, require_eq_ok, orReject_eq_ok] at h
  obtain ⟨_, _, _, _, r, ⟨n, _, _, _, hr'⟩, rfl⟩ := h
  refine CreditsOnly.bank_right (b := r.1) ?_ rfl
  split at hr'
  · exact createNodeSubGB_credits hr' hR
  · exact createNodeSubHr_credits hr' hR

theorem planCreate_bank {s s' : State} {frm : Addr} {dur : Dur} {gb : Int} {prices : Coins}
    (h : planCreate s frm dur gb prices = .ok s') : s'.bank = s.bank := by
  unfold planCreate at h
  simp only [bind_eq_ok, pure_eq_ok, require_eq_ok] at h
  obtain ⟨_, _, s1, h1, rfl⟩ := h
  exact (setPlan_money h1).1

theorem planStatus_bank {s s' : State} {frm : Addr} {id : Nat} {st : Status}
    (h : planStatus s frm id st = .ok s') : s'.bank = s.bank := by
  unfold planStatus at h
  simp only [bind_eq_ok, pure_eq_ok, require_eq_ok, orReject_eq_ok] at h
  obtain ⟨p, hp, _, _, s3, h3, rfl⟩ := h
  rw [show (emit s3 _).bank = s3.bank from rfl, (setPlan_money h3).1]
  split <;> split <;> rfl

theorem planLink_bank {s s' : State} {frm : Addr} {id : Nat} {node : Addr}
    (h : planLink s frm id node = .ok s') : s'.bank = s.bank := by
  unfold planLink at h
  simp only [bind_eq_ok, pure_eq_ok, require_eq_ok, orReject_eq_ok] at h
  obtain ⟨p, _, _, _, _, _, rfl⟩ := h
  rfl

theorem planUnlink_bank {s s' : State} {frm : Addr} {id : Nat} {node : Addr}
    (h : planUnlink s frm id node = .ok s') : s'.bank = s.bank := by
  unfold planUnlink at h
  simp only [bind_eq_ok, pure_eq_ok, require_eq_ok, orReject_eq_ok] at h
  obtain ⟨p, _, _, _, rfl⟩ := h
  rfl

/-- `MsgSubscribe` to a plan credits the fee collector and the plan's provider. -/
theorem planSubscribe_credits {R : Addr → Prop} {s s' : State} {frm : Addr} {id : Nat} {denom : Denom}
    (h : planSubscribe s frm id denom = .ok s') (hfee : R feeCollectorAddr)
    (hprov : ∀ p, getPlan s id = some p → R p.prov) : CreditsOnly s s' R := by
  unfold planSubscribe createSubscriptionForPlan at h
  simp only [bind_eq_ok, pure_eq_ok, require_eq_ok, requireP_eq_ok, orReject_eq_ok] at h
  obtain ⟨r, ⟨plan, hplan, _, _, price, _, reward, hrew, s1, h1, payAmt, _, _, hnn, s2, h2, granted, _, rfl⟩, rfl⟩ := h
  have p1 := sendCoinFromAccountToModule_pay h1 (proportion_nonneg hrew) hfee
  have p2 := sendCoin_pay (c := ⟨price.denom, payAmt⟩) h2 (by simpa using hnn) (hprov plan hplan)
  refine (p1.1.trans p2.1).bank_right (bank_of_view ?_)
  simp only [view_emit, view_setAllocation, view_insertSub]

theorem subCancel_bank {s s' : State} {frm : Addr} {id : Nat} (h : subCancel s frm id = .ok s') : s'.bank = s.bank := by
  unfold subCancel at h
  simp only [bind_eq_ok, require_eq_ok, orReject_eq_ok] at h
  obtain ⟨sub, _, _, _, _, _, s1, h1, h2⟩ := h
  refine bank_of_view ?_
  rw [detachPayout_view h2, view_subToPending, subscriptionInactivePendingHook_view h1]
  rfl

theorem subAllocate_bank {s s' : State} {frm toA : Addr} {id : Nat} {bytes : Int}
    (h : subAllocate s frm id toA bytes = .ok s') : s'.bank = s.bank := by
  unfold subAllocate at h
  simp only [bind_eq_ok, pure_eq_ok, require_eq_ok, orReject_eq_ok] at h
  obtain ⟨sub, _, _, _, _, _, fa, _, _, _, g, _, u, _, av, _, _, _, fg, _, _, _, _, _, rfl⟩ := h
  refine bank_of_view ?_
  simp only [view_emit, view_setAllocation]
  split <;> rfl

theorem sessStart_bank {s s' : State} {frm : TextAddr} {id : Nat} {node : Addr}
    (h : sessStart s frm id node = .ok s') : s'.bank = s.bank := by
  unfold sessStart at h
  simp only [bind_eq_ok, pure_eq_ok, require_eq_ok, orReject_eq_ok] at h
  obtain ⟨sub, _, _, _, n, _, _, _, _, _, _, _, latest, _, _, _, rfl⟩ := h
  rfl

theorem sessUpdate_bank {s s' : State} {frm : Addr} {id : Nat} {up down dur : Int} {sig : SigSpec}
    (h : sessUpdate s frm id up down dur sig = .ok s') : s'.bank = s.bank := by
  unfold sessUpdate at h
  simp only [bind_eq_ok, pure_eq_ok, require_eq_ok, orReject_eq_ok] at h
  obtain ⟨x, _, _, _, _, _, _, _, rfl⟩ := h
  refine bank_of_view ?_
  simp only [view_emit]
  split <;> rfl

theorem sessEnd_bank {s s' : State} {frm : Addr} {id : Nat} (h : sessEnd s frm id = .ok s') : s'.bank = s.bank := by
  unfold sessEnd at h
  simp only [bind_eq_ok, pure_eq_ok, require_eq_ok, orReject_eq_ok] at h
  obtain ⟨x, _, _, _, _, _, rfl⟩ := h
  rfl

theorem Payee.deposit (s : State) : Payee s depositAddr := Or.inl rfl
theorem Payee.fee (s : State) : Payee s feeCollectorAddr := Or.inr (Or.inl rfl)
theorem Payee.distr (s : State) : Payee s distrAddr := Or.inr (Or.inr (Or.inl rfl))
theorem Payee.provider {s : State} {i : Nat} {p : Plan} (h : getPlan s i = some p) : Payee s p.prov :=
  Or.inr (Or.inr (Or.inr (Or.inl ⟨i, p, getPlan_mem h, rfl⟩)))

/-- Every handler but the swap credits only payees of its pre-state. -/
theorem handle_credits {s s' : State} {m : Msg} (h : m.handle s = .ok s') (hsw : (Op.tx m).isSwap = false)
    (hp : DepositParamsOK s) : CreditsOnly s s' (Payee s) := by
  cases m <;> simp only [Msg.handle] at h
  case provRegister => exact provRegister_credits h hp.1 (Payee.distr s)
  case provUpdate => exact CreditsOnly.of_bank (provUpdate_bank h)
  case nodeRegister => exact nodeRegister_credits h hp.2 (Payee.distr s)
  case nodeUpdate => exact CreditsOnly.of_bank (nodeUpdate_bank h)
  case nodeStatus => exact CreditsOnly.of_bank (nodeStatus_bank h)
  case nodeSubscribe => exact nodeSubscribe_credits h (Payee.deposit s)
  case planCreate => exact CreditsOnly.of_bank (planCreate_bank h)
  case planStatus => exact CreditsOnly.of_bank (planStatus_bank h)
  case planLink => exact CreditsOnly.of_bank (planLink_bank h)
  case planUnlink => exact CreditsOnly.of_bank (planUnlink_bank h)
  case planSubscribe => exact planSubscribe_credits h (Payee.fee s) (fun p hp => Payee.provider hp)
  case subCancel => exact CreditsOnly.of_bank (subCancel_bank h)
  case subAllocate => exact CreditsOnly.of_bank (subAllocate_bank h)
  case sessStart => exact CreditsOnly.of_bank (sessStart_bank h)
  case sessUpdate => exact CreditsOnly.of_bank (sessUpdate_bank h)
  case sessEnd => exact CreditsOnly.of_bank (sessEnd_bank h)
  case swap => simp [Op.isSwap] at hsw

theorem deliver_credits (s : State) (m : Msg) (hsw : (Op.tx m).isSwap = false) (hp : DepositParamsOK s) :
    CreditsOnly s (deliver s m).1 (Payee s) := by
  rcases deliver_cases s m with ⟨_, _, h⟩ | ⟨_, h, _⟩
  · exact handle_credits (s := { s with events := [] }) h hsw hp
  · exact CreditsOnly.of_bank (by rw [h])

/-- An accepted swap credits only its receiver: the swap module account is credited with the minted
coin and debited by the same coin in the same step. -/
theorem swap_credits {s s' : State} {frm recv : Addr} {hash : Bytes} {amt : Int}
    (h : swap s frm hash recv amt = .ok s') : CreditsOnly s s' (fun a => a = recv) := by
  unfold swap sendModuleToAccount mintCoins at h
  simp only [bind_eq_ok, pure_eq_ok, require_eq_ok] at h
  obtain ⟨_, _, _, _, _, _, q, _, coin, _, s1, ⟨nb, hnb, ns, _, rfl⟩, s2, h2, rfl⟩ := h
  split at h2
  · simp [reject] at h2
  · obtain ⟨hb, _, _⟩ := sendCoins_ok h2
    have e1 := SInt.add_eq_ok hnb
    intro a d hlt
    by_cases hra : recv = a
    · exact hra.symm
    · exfalso
      have hlt' : balance s a d < balance s2 a d := hlt
      rw [hb] at hlt'
      have hm : balance (setSupply (setBalance s swapAddr coin.denom nb) coin.denom ns) a d
          = balance (setBalance s swapAddr coin.denom nb) a d := rfl
      rw [hm, balance_setBalance, e1] at hlt'
      simp only [hra, false_and, if_false] at hlt'
      by_cases hc : swapAddr = a ∧ coin.denom = d
      · obtain ⟨rfl, rfl⟩ := hc
        simp only [and_self, if_true] at hlt'
        omega
      · simp only [hc, if_false] at hlt'
        omega

theorem deliver_swap_credits (s : State) (frm recv : TextAddr) (hash : Bytes) (amt : Int) :
    CreditsOnly s (deliver s (.swap frm hash recv amt)).1 (fun a => a = recv.bytes) := by
  rcases deliver_cases s (.swap frm hash recv amt) with ⟨_, _, h⟩ | ⟨_, h, _⟩
  · simp only [Msg.handle] at h
    exact swap_credits (s := { s with events := [] }) h
  · exact CreditsOnly.of_bank (by rw [h])

/-! ### what the hooks know about the records they read live -/

/-- The three module accounts the marketplace pays into are in `R`. -/
structure Mods (R : Addr → Prop) : Prop where
  dep : R depositAddr
  fee : R feeCollectorAddr
  distr : R distrAddr

/-- Every address a hook can read a payee from is in `R`: owners of stored subscriptions, node and
owner of stored payouts, nodes of stored sessions. -/
structure Known (R : Addr → Prop) (s : State) : Prop where
  subs : ∀ i x, s.subs.get i = some x → R x.addr
  payouts : ∀ i p, s.payouts.get i = some p → R p.node ∧ R p.addr
  sessions : ∀ i x, s.sessions.get i = some x → R x.node

theorem Known.of_same {R : Addr → Prop} {s s' : State} (h : Same s s') (k : Known R s) : Known R s' :=
  ⟨by rw [h.subs]; exact k.subs, by rw [h.payouts]; exact k.payouts, by rw [h.sessions]; exact k.sessions⟩

theorem get_set_cases {κ α : Type} [DecidableEq κ] {t : Tbl κ α} {k k' : κ} {v w : α}
    (h : (t.set k v).get k' = some w) : w = v ∨ t.get k' = some w := by
  rw [Tbl.get_set] at h
  split at h
  · left; exact (Option.some.inj h).symm
  · right; exact h

theorem get_erase_some {κ α : Type} [DecidableEq κ] {t : Tbl κ α} {k k' : κ} {w : α}
    (h : (t.erase k).get k' = some w) : t.get k' = some w := by
  rw [Tbl.get_erase] at h
  split at h
  · contradiction
  · exact h

/-- The part of the state `CreditsOnly` and `Known` read. -/
structure RecView where
  bank : Tbl (Addr × Denom) Int
  subs : Tbl Nat Sub
  payouts : Tbl Nat Payout
  sessions : Tbl Nat Session

def rv (s : State) : RecView := ⟨s.bank, s.subs, s.payouts, s.sessions⟩

theorem rv_bank {s s' : State} (h : rv s' = rv s) : s'.bank = s.bank := congrArg RecView.bank h

theorem Same.of_rv {s s' : State} (h : rv s' = rv s) : Same s s' :=
  ⟨congrArg RecView.subs h, congrArg RecView.payouts h, congrArg RecView.sessions h⟩

theorem Pay.of_rv {R : Addr → Prop} {s s' : State} (h : rv s' = rv s) : Pay R s s' :=
  ⟨CreditsOnly.of_bank (rv_bank h), Same.of_rv h⟩

/-- The invariant of a hook loop started in `s0`. -/
def Acc (R : Addr → Prop) (s0 s : State) : Prop := CreditsOnly s0 s R ∧ Known R s

theorem Acc.step {R : Addr → Prop} {s0 s s' : State} (h : Acc R s0 s) (h' : CreditsOnly s s' R ∧ Known R s') : Acc R s0 s' :=
  ⟨h.1.trans h'.1, h'.2⟩

theorem Acc.pay {R : Addr → Prop} {s0 s s' : State} (h : Acc R s0 s) (h' : Pay R s s') : Acc R s0 s' :=
  ⟨h.1.trans h'.1, h.2.of_same h'.2⟩

/-! ### begin of block -/

theorem rv_mintBeginBlock_go (l : List Inflation) (s : State) : rv (mintBeginBlock.go s l) = rv s := by
  induction l generalizing s with
  | nil => rfl
  | cons item rest ih =>
    unfold mintBeginBlock.go
    split
    · rfl
    · rw [ih]; rfl

/-- The distribution sweep of one denomination touches only the fee collector and the community pool. -/
theorem sweepDenom_pay {R : Addr → Prop} (hm : Mods R) (s : State) (d : Denom) : Pay R s (sweepDenom s d) := by
  refine ⟨?_, ⟨rfl, rfl, rfl⟩⟩
  intro a d' hlt
  unfold sweepDenom at hlt
  rw [balance_setBalance, balance_setBalance] at hlt
  by_cases h1 : distrAddr = a
  · subst h1; exact hm.distr
  · by_cases h2 : feeCollectorAddr = a
    · subst h2; exact hm.fee
    · simp [h1, h2] at hlt

theorem distrSweep_pay {R : Addr → Prop} (hm : Mods R) (s : State) : Pay R s (distrSweep s) := by
  unfold distrSweep
  exact foldl_inv (fun t => Pay R s t) sweepDenom (fun t d h => h.trans (sweepDenom_pay hm t d)) _ s (Pay.refl R s)

theorem payoutAdvance_addrs (p : Payout) : (payoutAdvance p).node = p.node ∧ (payoutAdvance p).addr = p.addr := by
  unfold payoutAdvance
  simp only []
  split <;> exact ⟨rfl, rfl⟩

/-- One hourly payout credits the fee collector and the payout's node. -/
theorem payoutStep_acc {R : Addr → Prop} (hm : Mods R) {s s' : State} {k : Time × Nat} (h : payoutStep s k = .ok s')
    (hk : Known R s) : CreditsOnly s s' R ∧ Known R s' := by
  unfold payoutStep at h
  simp only [bind_eq_ok, pure_eq_ok, requireP_eq_ok, orPanic_eq_ok] at h
  obtain ⟨item, hitem, reward, hrew, s2, h2, payAmt, _, _, hnn, s3, h3, rfl⟩ := h
  have hR := hk.payouts _ _ hitem
  have p2 := sendCoinFromDepositToModule_pay h2 (proportion_nonneg hrew) hm.fee
  have p3 := sendCoinFromDepositToAccount_pay (c := ⟨item.price.denom, payAmt⟩) h3 (by simpa using hnn) hR.1
  have p23 := p2.trans p3
  have hsub : s3.subs = s.subs := p23.2.subs
  have hpay : s3.payouts = s.payouts := p23.2.payouts
  have hses : s3.sessions = s.sessions := p23.2.sessions
  refine ⟨?_, ?_, ?_, ?_⟩
  · refine (p23.1.bank_left (a := s) rfl).bank_right ?_
    split <;> rfl
  · intro i x hx
    have hx' : s3.subs.get i = some x := by split at hx <;> exact hx
    rw [hsub] at hx'; exact hk.subs i x hx'
  · intro i p hp
    have hp' : (s3.payouts.set (payoutAdvance item).id (payoutAdvance item)).get i = some p := by split at hp <;> exact hp
    rcases get_set_cases hp' with rfl | hp''
    · rw [(payoutAdvance_addrs item).1, (payoutAdvance_addrs item).2]; exact hR
    · rw [hpay] at hp''; exact hk.payouts i p hp''
  · intro i x hx
    have hx' : s3.sessions.get i = some x := by split at hx <;> exact hx
    rw [hses] at hx'; exact hk.sessions i x hx'

/-- The whole begin-of-block credits only `R`. -/
theorem beginBlock_credits {R : Addr → Prop} (hm : Mods R) {s s' : State} {t : Time} (h : beginBlock s t = .ok s')
    (hk : Known R s) : CreditsOnly s s' R := by
  unfold beginBlock haltOf at h
  split at h <;> try contradiction
  rename_i s'' hs
  simp only [Except.ok.injEq] at h
  subst h
  unfold subscriptionBeginBlock at hs
  have e1 : rv (mintBeginBlock { s with time := t, height := s.height + 1, events := [] }) = rv s :=
    (rv_mintBeginBlock_go _ _).trans rfl
  have a0 : Acc R s (mintBeginBlock { s with time := t, height := s.height + 1, events := [] }) :=
    Acc.pay ⟨CreditsOnly.refl s R, hk⟩ (Pay.of_rv e1)
  have a1 := a0.pay (distrSweep_pay hm _)
  refine (foldlM_inv (Acc R s) _ ?_ _ _ _ hs a1).1
  intro s0 k s1 h1 hp
  rw [panicIfErr_eq_ok] at h1
  exact hp.step (payoutStep_acc hm h1 hp.2)

/-! ### end of block: the node pass -/

theorem setNode_rv {s s' : State} {n : Node} (h : setNode s n = .ok s') : rv s' = rv s := by
  unfold setNode at h
  split at h <;> simp only [pure_eq_ok, gopanic_ne_ok] at h <;> (try subst h) <;> rfl

theorem foldlM_rv {α : Type} (f : State → α → M State) (hf : ∀ s a s', f s a = .ok s' → rv s' = rv s)
    (l : List α) (s s' : State) (h : l.foldlM f s = .ok s') : rv s' = rv s :=
  foldlM_inv (fun t => rv t = rv s) f (fun t a t' h1 hp => (hf t a t' h1).trans hp) l s s' h rfl

theorem nodeSweep_rv {s s' : State} (h : nodeSweep s = .ok s') : rv s' = rv s := by
  unfold nodeSweep at h
  split at h
  · rw [pure_eq_ok] at h; rw [h]
  · refine foldlM_rv _ ?_ _ s s' h
    intro s0 a s1 h1
    simp only [bind_eq_ok, pure_eq_ok, orPanic_eq_ok] at h1
    obtain ⟨item, _, s2, h2, rfl⟩ := h1
    exact Eq.trans (b := rv s2) rfl (setNode_rv h2)

theorem nodeExpire_rv {s s' : State} (h : nodeExpire s = .ok s') : rv s' = rv s := by
  unfold nodeExpire at h
  refine foldlM_rv _ ?_ _ s s' h
  intro s0 k s1 h1
  unfold nodeExpireStep at h1
  simp only [bind_eq_ok, pure_eq_ok, orPanic_eq_ok] at h1
  obtain ⟨item, _, s3, h3, rfl⟩ := h1
  exact Eq.trans (b := rv s3) rfl ((setNode_rv h3).trans rfl)

/-! ### end of block: the session pass -/

/-- A session going inactive-pending keeps its node. -/
theorem sessionToPending_acc {R : Addr → Prop} {s : State} {x : Session} (hk : Known R s) (hx : R x.node) :
    CreditsOnly s (sessionToPending s x) R ∧ Known R (sessionToPending s x) := by
  refine ⟨CreditsOnly.of_bank rfl, ⟨hk.subs, hk.payouts, ?_⟩⟩
  intro i y hy
  unfold sessionToPending at hy
  simp only [emit] at hy
  rcases get_set_cases hy with rfl | hy'
  · exact hx
  · exact hk.sessions i y hy'

/-- The payment of `SessionInactiveHook` credits the fee collector and the node it is given. -/
theorem settleSession_pay {R : Addr → Prop} (hm : Mods R) {s s' : State} {x : Session} {acc node : Addr} {dep : Coin} {gb b a : Int}
    (h : settleSession s x acc node dep gb b a = .ok s') (hn : R node) : Pay R s s' := by
  unfold settleSession at h
  simp only [bind_eq_ok, pure_eq_ok, requireP_eq_ok] at h
  obtain ⟨price, _, prev, _, cur, _, payAmt, _, payment, _, reward, hrew, s1, h1, netAmt, _, _, hnn, s2, h2, rfl⟩ := h
  have p1 := sendCoinFromDepositToModule_pay h1 (proportion_nonneg hrew) hm.fee
  have p2 := sendCoinFromDepositToAccount_pay (c := ⟨payment.denom, netAmt⟩) h2 (by simpa using hnn) hn
  have p := p1.trans p2
  exact ⟨p.1.bank_right rfl, ⟨p.2.subs, p.2.payouts, p.2.sessions⟩⟩

theorem sessionInactiveHook_pay {R : Addr → Prop} (hm : Mods R) {s s' : State} {id : Nat} {acc node : Addr} {bytes : Int}
    (h : sessionInactiveHook s id acc node bytes = .ok s') (hn : R node) : Pay R s s' := by
  unfold sessionInactiveHook at h
  simp only [bind_eq_ok, require_eq_ok, orReject_eq_ok] at h
  obtain ⟨x, _, _, _, sub, _, h⟩ := h
  split at h
  · rw [pure_eq_ok] at h; rw [← h]; exact Pay.refl R s
  · simp only [bind_eq_ok, orReject_eq_ok] at h
    obtain ⟨a, _, used, _, h⟩ := h
    split at h
    · have p0 : Pay R s (emit (setAllocation s (allocAfterUse a used)) (evAllocate (allocAfterUse a used))) :=
        Pay.of_rv rfl
      exact p0.trans (settleSession_pay hm h hn)
    · rw [pure_eq_ok] at h; rw [← h]; exact Pay.of_rv rfl

/-- One iteration of the session pass credits the fee collector and the node of the stored session. -/
theorem sessionStep_acc {R : Addr → Prop} (hm : Mods R) {s s' : State} {k : Time × Nat} (h : sessionStep s k = .ok s')
    (hk : Known R s) : CreditsOnly s s' R ∧ Known R s' := by
  unfold sessionStep at h
  simp only [bind_eq_ok, orPanic_eq_ok] at h
  obtain ⟨item, hitem, h⟩ := h
  have hn := hk.sessions _ _ hitem
  split at h
  · rw [pure_eq_ok] at h; rw [← h]; exact sessionToPending_acc hk hn
  · simp only [bind_eq_ok, pure_eq_ok, panicIfErr_eq_ok] at h
    obtain ⟨bytes, _, s2, h2, rfl⟩ := h
    have p := sessionInactiveHook_pay hm h2 hn
    have k2 : Known R s2 := hk.of_same (s := s) ⟨p.2.subs, p.2.payouts, p.2.sessions⟩
    refine ⟨(p.1.bank_left (a := s) rfl).bank_right rfl, ⟨k2.subs, k2.payouts, ?_⟩⟩
    intro i y hy
    unfold removeSession at hy
    simp only [emit] at hy
    exact k2.sessions i y (get_erase_some hy)

/-! ### end of block: the subscription pass -/

theorem subscriptionInactivePendingHook_acc {R : Addr → Prop} {s s' : State} {id : Nat}
    (h : subscriptionInactivePendingHook s id = .ok s') (hk : Known R s) : CreditsOnly s s' R ∧ Known R s' := by
  unfold subscriptionInactivePendingHook at h
  refine foldlM_inv (Acc R s) _ ?_ _ _ _ h ⟨CreditsOnly.refl s R, hk⟩
  intro s0 sid s1 h1 hp
  simp only [bind_eq_ok, pure_eq_ok, orPanic_eq_ok] at h1
  obtain ⟨x, hx, rfl⟩ := h1
  split
  · exact hp.step (sessionToPending_acc hp.2 (hp.2.sessions _ _ hx))
  · exact hp

theorem subToPending_acc {R : Addr → Prop} {s : State} {sub : Sub} (d : Dur) (hk : Known R s) (hx : R sub.addr) :
    CreditsOnly s (subToPending s sub d).1 R ∧ Known R (subToPending s sub d).1 := by
  refine ⟨CreditsOnly.of_bank rfl, ⟨?_, hk.payouts, hk.sessions⟩⟩
  intro i y hy
  unfold subToPending at hy
  simp only [emit] at hy
  rcases get_set_cases hy with rfl | hy'
  · exact hx
  · exact hk.subs i y hy'

theorem detachPayout_acc {R : Addr → Prop} {s s' : State} {sub : Sub} {b : Bool} (h : detachPayout s sub b = .ok s')
    (hk : Known R s) : CreditsOnly s s' R ∧ Known R s' := by
  unfold detachPayout at h
  split at h
  · simp only [bind_eq_ok, pure_eq_ok] at h
    obtain ⟨p, hp, rfl⟩ := h
    have hp' : s.payouts.get sub.id = some p := by
      split at hp
      · exact orPanic_eq_ok.mp hp
      · exact orReject_eq_ok.mp hp
    have hR := hk.payouts _ _ hp'
    refine ⟨CreditsOnly.of_bank rfl, ⟨hk.subs, ?_, hk.sessions⟩⟩
    intro i q hq
    unfold detachPayoutRec at hq
    simp only [] at hq
    rcases get_set_cases hq with rfl | hq'
    · exact hR
    · exact hk.payouts i q hq'
  · rw [pure_eq_ok] at h; rw [← h]; exact ⟨CreditsOnly.refl s R, hk⟩

/-- The refund of a removed node subscription credits its owner (per-gigabyte) or the account the
payout draws on (per-hour). -/
theorem refundSub_pay {R : Addr → Prop} {s s' : State} {item : Sub} (h : refundSub s item = .ok s')
    (hk : Known R s) (hx : R item.addr) : Pay R s s' := by
  unfold refundSub at h
  split at h
  · simp only [bind_eq_ok] at h
    obtain ⟨s1, h1, h2⟩ := h
    have p1 : Pay R s s1 := by
      split at h1
      · unfold refundGB at h1
        simp only [bind_eq_ok, pure_eq_ok, orPanic_eq_ok, panicIfErr_eq_ok] at h1
        obtain ⟨price, _, a, _, paid, _, ra, _, refund, hre, s2, h2', rfl⟩ := h1
        have p := subtractDeposit_pay h2' (newCoin_nonneg hre) hx
        exact ⟨p.1.bank_right rfl, ⟨p.2.subs, p.2.payouts, p.2.sessions⟩⟩
      · rw [pure_eq_ok] at h1; rw [← h1]; exact Pay.refl R s
    refine p1.trans ?_
    split at h2
    · unfold refundHr at h2
      simp only [bind_eq_ok, pure_eq_ok, orPanic_eq_ok, panicIfErr_eq_ok] at h2
      obtain ⟨p, hp, ra, _, refund, hre, s2, h2', rfl⟩ := h2
      have hR := (hk.of_same p1.2).payouts _ _ hp
      have q := subtractDeposit_pay h2' (newCoin_nonneg hre) hR.2
      exact ⟨q.1.bank_right rfl, ⟨q.2.subs, q.2.payouts, q.2.sessions⟩⟩
    · rw [pure_eq_ok] at h2; rw [← h2]; exact Pay.refl R s1
  · rw [pure_eq_ok] at h; rw [← h]; exact Pay.refl R s

theorem removeAllocs_same (l : List Addr) (s : State) (id : Nat) : Same s (removeAllocs s id l) := by
  unfold removeAllocs
  refine foldl_inv (fun t => Same s t) _ ?_ l s (Same.refl s)
  intro t a h
  exact h.trans ⟨rfl, rfl, rfl⟩

theorem removeSubRecords_tables (s : State) (item : Sub) :
    (removeSubRecords s item).subs = s.subs.erase item.id ∧ (removeSubRecords s item).payouts = s.payouts ∧
    (removeSubRecords s item).sessions = s.sessions := by
  unfold removeSubRecords
  cases item.kind with
  | node n g h d => exact ⟨rfl, rfl, rfl⟩
  | plan pid dn =>
    simp only [emit]
    have hs := removeAllocs_same (allocAddrsForSub { s with subForPlan := s.subForPlan.erase (pid, item.id) } item.id)
      { s with subForPlan := s.subForPlan.erase (pid, item.id) } item.id
    exact ⟨congrArg (fun t => Tbl.erase t item.id) hs.subs, hs.payouts, hs.sessions⟩

theorem removePayout_acc {R : Addr → Prop} {s s' : State} {item : Sub} (h : removePayout s item = .ok s')
    (hk : Known R s) : CreditsOnly s s' R ∧ Known R s' := by
  unfold removePayout at h
  split at h
  · simp only [bind_eq_ok, pure_eq_ok, orPanic_eq_ok] at h
    obtain ⟨p, _, rfl⟩ := h
    refine ⟨CreditsOnly.of_bank rfl, ⟨hk.subs, ?_, hk.sessions⟩⟩
    intro i q hq
    exact hk.payouts i q (get_erase_some hq)
  · rw [pure_eq_ok] at h; rw [← h]; exact ⟨CreditsOnly.refl s R, hk⟩

/-- One iteration of the subscription pass credits only the owner of the stored subscription (or the
account its payout draws on). -/
theorem subscriptionStep_acc {R : Addr → Prop} {s s' : State} {d : Dur} {k : Time × Nat}
    (h : subscriptionStep d s k = .ok s') (hk : Known R s) : CreditsOnly s s' R ∧ Known R s' := by
  unfold subscriptionStep at h
  simp only [bind_eq_ok, orPanic_eq_ok] at h
  obtain ⟨item, hitem, h⟩ := h
  have hx := hk.subs _ _ hitem
  have a0 : Acc R s { s with subQ := s.subQ.erase (item.inactiveAt, item.id) } :=
    ⟨CreditsOnly.of_bank rfl, ⟨hk.subs, hk.payouts, hk.sessions⟩⟩
  split at h
  · simp only [bind_eq_ok, panicIfErr_eq_ok] at h
    obtain ⟨s2, h2, h3⟩ := h
    have a2 := a0.step (subscriptionInactivePendingHook_acc h2 a0.2)
    have a3 := a2.step (subToPending_acc d a2.2 hx)
    exact a3.step (detachPayout_acc h3 a3.2)
  · simp only [bind_eq_ok] at h
    obtain ⟨s2, h2, h3⟩ := h
    have a2 := a0.pay (refundSub_pay h2 a0.2 hx)
    obtain ⟨e1, e2, e3⟩ := removeSubRecords_tables s2 item
    have a3 : Acc R s (removeSubRecords s2 item) := by
      refine ⟨a2.1.bank_right (bank_of_view (view_removeSubRecords s2 item)), ⟨?_, ?_, ?_⟩⟩
      · intro i y hy; rw [e1] at hy; exact a2.2.subs i y (get_erase_some hy)
      · rw [e2]; exact a2.2.payouts
      · rw [e3]; exact a2.2.sessions
    exact a3.step (removePayout_acc h3 a3.2)

/-- The whole end-of-block credits only `R`. -/
theorem endBlock_credits {R : Addr → Prop} (hm : Mods R) {s s' : State} (h : endBlock s = .ok s')
    (hk : Known R s) : CreditsOnly s s' R := by
  unfold endBlock haltOf at h
  split at h <;> try contradiction
  rename_i s2 hs
  split at hs <;> try contradiction
  rename_i s3 hs3
  simp only [Except.ok.injEq] at hs h
  subst hs; subst h
  unfold vpnEndBlock nodeEndBlock at hs3
  simp only [bind_eq_ok] at hs3
  obtain ⟨s1, ⟨sa, ha, hb⟩, sb, hc, hd⟩ := hs3
  have e1 : rv s1 = rv s := (nodeExpire_rv hb).trans ((nodeSweep_rv ha).trans rfl)
  have a1 : Acc R s s1 := Acc.pay ⟨CreditsOnly.refl s R, hk⟩ (Pay.of_rv e1)
  have a2 : Acc R s sb := foldlM_inv (Acc R s) _ (fun s0 k s1 h1 hp => hp.step (sessionStep_acc hm h1 hp.2)) _ _ _ hc a1
  have a3 : Acc R s s3 := foldlM_inv (Acc R s) _ (fun s0 k s1 h1 hp => hp.step (subscriptionStep_acc h1 hp.2)) _ _ _ hd a2
  exact a3.1.bank_right rfl

/-! ### one operation -/

theorem Payee.mods (s : State) : Mods (Payee s) := ⟨Payee.deposit s, Payee.fee s, Payee.distr s⟩

/-- The payees of a state contain every address its hooks can read (given that payouts draw on
subscription owners). -/
theorem Payee.known {s : State} (ho : PayoutOwned s) : Known (Payee s) s := by
  refine ⟨?_, ?_, ?_⟩
  · intro i x hx
    exact Or.inr (Or.inr (Or.inr (Or.inr (Or.inl ⟨i, x, hx, rfl⟩))))
  · intro i p hp
    obtain ⟨j, x, hx, e⟩ := ho i p hp
    exact ⟨Or.inr (Or.inr (Or.inr (Or.inr (Or.inr (Or.inr (Or.inl ⟨i, p, hp, rfl⟩)))))),
      Or.inr (Or.inr (Or.inr (Or.inr (Or.inl ⟨j, x, hx, e⟩))))⟩
  · intro i x hx
    exact Or.inr (Or.inr (Or.inr (Or.inr (Or.inr (Or.inr (Or.inr ⟨i, x, hx, rfl⟩))))))

theorem SubIdx.payoutOwned {s : State} (h : SubIdx s) : PayoutOwned s := by
  intro i p hp
  have hh : s.payouts.has i = true := (Tbl.has_iff _ _).mpr ⟨p, hp⟩
  obtain ⟨x, hx, _⟩ := (h.payout i).mp hh
  obtain ⟨gb, hr, dep, _, _, ha⟩ := (h.payoutRec i p x hp hx).1
  exact ⟨i, x, hx, ha⟩

theorem StructInv.payoutOwned {s : State} (h : StructInv s) : PayoutOwned s := h.subIdx.payoutOwned

theorem gov_bank (s : State) (c : ParamChange) : ((gov s c).getD s).bank = s.bank := by
  cases hg : gov s c with
  | none => rfl
  | some s' =>
    simp only [Option.getD]
    unfold gov at hg
    cases c <;> simp only [] at hg <;> (try split at hg) <;>
      first
        | (simp only [Option.some.injEq] at hg; subst hg; rfl)
        | (simp only [reduceCtorEq] at hg)

/-- **One operation other than a swap credits only payees of its pre-state.** -/
theorem step_credits {s s' : State} {op : Op} (h : step s op = some s') (hsw : op.isSwap = false)
    (hp : DepositParamsOK s) (ho : PayoutOwned s) : CreditsOnly s s' (Payee s) := by
  cases op with
  | tx m =>
    simp only [step, Option.some.injEq] at h
    rw [← h]; exact deliver_credits s m hsw hp
  | begin t =>
    simp only [step] at h
    split at h
    · rename_i s1 hb
      simp only [Option.some.injEq] at h; rw [← h]
      exact beginBlock_credits (Payee.mods s) hb (Payee.known ho)
    · contradiction
  | endB =>
    simp only [step] at h
    split at h
    · rename_i s1 hb
      simp only [Option.some.injEq] at h; rw [← h]
      exact endBlock_credits (Payee.mods s) hb (Payee.known ho)
    · contradiction
  | gov c =>
    simp only [step, Option.some.injEq] at h
    rw [← h]; exact CreditsOnly.of_bank (gov_bank s c)

/-- A swap step credits only the swap's receiver. -/
theorem step_swap_credits {s s' : State} {frm recv : TextAddr} {hash : Bytes} {amt : Int}
    (h : step s (.tx (.swap frm hash recv amt)) = some s') : CreditsOnly s s' (fun a => a = recv.bytes) := by
  simp only [step, Option.some.injEq] at h
  rw [← h]; exact deliver_swap_credits s frm recv hash amt

/-! ### the deposit parameters stay non-negative -/

theorem validCoinParam_nonneg {c : Coin} (h : validCoinParam c = true) : 0 ≤ c.amount := by
  unfold validCoinParam at h
  simp only [Bool.and_eq_true, decide_eq_true_eq] at h
  exact h.1

theorem DepositParamsOK.of_params {s s' : State} (h : s'.params = s.params) (hp : DepositParamsOK s) : DepositParamsOK s' := by
  unfold DepositParamsOK at *
  rw [h]; exact hp

theorem gov_depositParamsOK (s : State) (c : ParamChange) (hp : DepositParamsOK s) : DepositParamsOK ((gov s c).getD s) := by
  cases hg : gov s c with
  | none => exact hp
  | some s' =>
    simp only [Option.getD]
    unfold gov at hg
    cases c
    case provDeposit c =>
      simp only [] at hg
      split at hg
      · rename_i hv
        simp only [Option.some.injEq] at hg; subst hg
        exact ⟨validCoinParam_nonneg hv, hp.2⟩
      · simp only [reduceCtorEq] at hg
    case nodeDeposit c =>
      simp only [] at hg
      split at hg
      · rename_i hv
        simp only [Option.some.injEq] at hg; subst hg
        exact ⟨hp.1, validCoinParam_nonneg hv⟩
      · simp only [reduceCtorEq] at hg
    all_goals
      simp only [] at hg
      (try split at hg) <;>
      first
        | (simp only [Option.some.injEq] at hg; subst hg; exact hp)
        | (simp only [reduceCtorEq] at hg)

theorem step_depositParamsOK {s s' : State} {op : Op} (h : step s op = some s') (hp : DepositParamsOK s) :
    DepositParamsOK s' := by
  cases op with
  | tx m =>
    simp only [step, Option.some.injEq] at h
    rw [← h]
    by_cases hsw : (Op.tx m).isSwap = false
    · exact hp.of_params (cv_params (deliver_cv s m hsw))
    · rcases deliver_cases s m with ⟨_, _, hh⟩ | ⟨_, hh, _⟩
      · cases m <;> simp [Op.isSwap] at hsw
        simp only [Msg.handle] at hh
        exact hp.of_params ((swap_nodes hh).1.trans rfl)
      · rw [hh]; exact hp
  | begin t =>
    simp only [step] at h
    split at h
    · rename_i s1 hb
      simp only [Option.some.injEq] at h; rw [← h]
      exact hp.of_params (beginBlock_frame hb).2.2.1
    · contradiction
  | endB =>
    simp only [step] at h
    split at h
    · rename_i s1 hb
      simp only [Option.some.injEq] at h; rw [← h]
      exact hp.of_params (endBlock_ledger hb).2.2.1
    · contradiction
  | gov c =>
    simp only [step, Option.some.injEq] at h
    rw [← h]; exact gov_depositParamsOK s c hp

theorem depositParamsOK_all_histories_from (ops : List Op) (s : State) (hp : DepositParamsOK s) :
    ∀ s' ∈ runTrace s ops, DepositParamsOK s' := by
  induction ops generalizing s with
  | nil => intro s' h; simp [runTrace] at h
  | cons op rest ih =>
    intro s' h
    simp only [runTrace] at h
    cases hst : step s op with
    | none => simp [hst] at h
    | some s1 =>
      simp only [hst, List.mem_cons] at h
      have h1 := step_depositParamsOK hst hp
      rcases h with rfl | h
      · exact h1
      · exact ih s1 h1 s' h

theorem addBalance_params (s : State) (b : Addr × Denom × Int) : (addBalance s b).params = s.params := by
  unfold addBalance
  split <;> rfl

theorem genesis_params (g : Genesis) : g.state.params = g.params := by
  unfold Genesis.state
  refine foldl_inv (fun t => t.params = g.params) addBalance ?_ _ g.base rfl
  intro t b ht
  exact (addBalance_params t b).trans ht

theorem genesis_depositParamsOK (g : Genesis) (h0 : 0 ≤ g.params.provDeposit.amount) (h1 : 0 ≤ g.params.nodeDeposit.amount) :
    DepositParamsOK g.state := by
  unfold DepositParamsOK
  rw [genesis_params]; exact ⟨h0, h1⟩

end Hub.Model
