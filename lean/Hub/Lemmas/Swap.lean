import Hub.Lemmas.MoneyHandlers
import Hub.Model.Run
/-
Frame lemmas: which steps of the model leave the swap records, the supply table, the parameters,
the "modified" flags and the two node tables alone.  (Used by C14 and C11.)  No invariant is
needed for any of them: each is proved by decomposing the step and `rfl`.
-/
namespace Hub.Model
open Hub.SDK
open Hub.Generated (Status AmountForBytes GetProportionOfCoin Gigabyte)

/-- The custommint part of the state: the schedule, the three SDK mint parameters, the minter's rate. -/
structure MintView where
  inflations : Tbl Time Inflation
  mintMax : Dec
  mintMin : Dec
  mintRate : Dec
  minterInfl : Dec

def mv (s : State) : MintView := ⟨s.inflations, s.mintMax, s.mintMin, s.mintRate, s.minterInfl⟩

/-- The part of the state the swap ledger, the price bounds and the inflation schedule are about. -/
structure HubView where
  swaps : Tbl Bytes Swap
  supply : Tbl Denom Int
  params : Params
  modified : Modified
  nodeActive : Tbl Addr Node
  nodeInactive : Tbl Addr Node
  mint : MintView

def hv (s : State) : HubView := ⟨s.swaps, s.supply, s.params, s.modified, s.nodeActive, s.nodeInactive, mv s⟩

/-- The same without the node tables. -/
structure CoreView where
  swaps : Tbl Bytes Swap
  supply : Tbl Denom Int
  params : Params
  modified : Modified
  mint : MintView

def cv (s : State) : CoreView := ⟨s.swaps, s.supply, s.params, s.modified, mv s⟩

theorem cv_of_hv {s s' : State} (h : hv s' = hv s) : cv s' = cv s := by
  have h1 : s'.swaps = s.swaps := congrArg HubView.swaps h
  have h2 : s'.supply = s.supply := congrArg HubView.supply h
  have h3 : s'.params = s.params := congrArg HubView.params h
  have h4 : s'.modified = s.modified := congrArg HubView.modified h
  have h5 : mv s' = mv s := congrArg HubView.mint h
  unfold cv; rw [h1, h2, h3, h4, h5]

theorem hv_swaps {s s' : State} (h : hv s' = hv s) : s'.swaps = s.swaps := congrArg HubView.swaps h
theorem hv_supply {s s' : State} (h : hv s' = hv s) : s'.supply = s.supply := congrArg HubView.supply h
theorem hv_params {s s' : State} (h : hv s' = hv s) : s'.params = s.params := congrArg HubView.params h
theorem hv_modified {s s' : State} (h : hv s' = hv s) : s'.modified = s.modified := congrArg HubView.modified h
theorem hv_nodeActive {s s' : State} (h : hv s' = hv s) : s'.nodeActive = s.nodeActive := congrArg HubView.nodeActive h
theorem hv_nodeInactive {s s' : State} (h : hv s' = hv s) : s'.nodeInactive = s.nodeInactive := congrArg HubView.nodeInactive h
theorem hv_mint {s s' : State} (h : hv s' = hv s) : mv s' = mv s := congrArg HubView.mint h
theorem cv_mint {s s' : State} (h : cv s' = cv s) : mv s' = mv s := congrArg CoreView.mint h
theorem mv_inflations {s s' : State} (h : mv s' = mv s) : s'.inflations = s.inflations := congrArg MintView.inflations h
theorem cv_swaps {s s' : State} (h : cv s' = cv s) : s'.swaps = s.swaps := congrArg CoreView.swaps h
theorem cv_supply {s s' : State} (h : cv s' = cv s) : s'.supply = s.supply := congrArg CoreView.supply h
theorem cv_params {s s' : State} (h : cv s' = cv s) : s'.params = s.params := congrArg CoreView.params h
theorem cv_modified {s s' : State} (h : cv s' = cv s) : s'.modified = s.modified := congrArg CoreView.modified h

@[simp] theorem hv_emit (s : State) (e : Event) : hv (emit s e) = hv s := rfl
@[simp] theorem hv_setAllocation (s : State) (a : Alloc) : hv (setAllocation s a) = hv s := rfl
@[simp] theorem hv_insertPayout (s : State) (p : Payout) : hv (insertPayout s p) = hv s := rfl
@[simp] theorem hv_sessionToPending (s : State) (x : Session) : hv (sessionToPending s x) = hv s := rfl
@[simp] theorem hv_subToPending (s : State) (sub : Sub) (d : Dur) : hv (subToPending s sub d).1 = hv s := rfl
@[simp] theorem hv_insertSession (s : State) (x : Session) : hv (insertSession s x) = hv s := rfl
@[simp] theorem hv_removeSession (s : State) (x : Session) : hv (removeSession s x) = hv s := rfl
@[simp] theorem hv_detachPayoutRec (s : State) (p : Payout) : hv (detachPayoutRec s p) = hv s := rfl
theorem hv_insertSub (s : State) (sub : Sub) : hv (insertSub s sub) = hv s := by
  unfold insertSub; cases sub.kind <;> rfl

theorem hv_of_moneyFrame {s s' : State} (h : MoneyFrame s s') : hv s' = hv s := by
  unfold MoneyFrame at h; rw [h]; rfl

theorem foldlM_hv {α : Type} (f : State → α → M State) (hf : ∀ s a s', f s a = .ok s' → hv s' = hv s)
    (l : List α) (s s' : State) (h : l.foldlM f s = .ok s') : hv s' = hv s := by
  induction l generalizing s with
  | nil => simp only [List.foldlM, pure_eq_ok] at h; rw [h]
  | cons a rest ih =>
    simp only [List.foldlM, bind_eq_ok] at h
    obtain ⟨s1, h1, h2⟩ := h
    rw [ih s1 h2, hf s a s1 h1]

theorem foldlM_cv {α : Type} (f : State → α → M State) (hf : ∀ s a s', f s a = .ok s' → cv s' = cv s)
    (l : List α) (s s' : State) (h : l.foldlM f s = .ok s') : cv s' = cv s := by
  induction l generalizing s with
  | nil => simp only [List.foldlM, pure_eq_ok] at h; rw [h]
  | cons a rest ih =>
    simp only [List.foldlM, bind_eq_ok] at h
    obtain ⟨s1, h1, h2⟩ := h
    rw [ih s1 h2, hf s a s1 h1]

/-! ### money primitives (no invariant needed for the frame) -/

theorem sendCoins_hv {s s' : State} {f t : Addr} {c : Coin} (h : sendCoins s f t c = .ok s') : hv s' = hv s :=
  hv_of_moneyFrame (sendCoins_frame h)

theorem depositAdd_hv {s s' : State} {f t : Addr} {c : Coin} (h : depositAdd s f t c = .ok s') : hv s' = hv s := by
  unfold depositAdd at h
  simp only [bind_eq_ok, pure_eq_ok, require_eq_ok] at h
  obtain ⟨s1, hs1, _, _, rfl⟩ := h
  exact Eq.trans (b := hv s1) rfl (sendCoins_hv hs1)

theorem hv_putDeposit (s : State) (a : Addr) (cs : Coins) : hv (putDeposit s a cs) = hv s := by
  unfold putDeposit; split <;> rfl

theorem depositToAccount_hv {s s' : State} {f t : Addr} {c : Coin} (h : depositToAccount s f t c = .ok s') : hv s' = hv s := by
  unfold depositToAccount sendModuleToAccount at h
  simp only [bind_eq_ok, pure_eq_ok, require_eq_ok, orReject_eq_ok] at h
  obtain ⟨cur, _, _, _, s1, hs1, rfl⟩ := h
  split at hs1
  · simp [reject] at hs1
  · rw [hv_emit, hv_putDeposit, sendCoins_hv hs1]

theorem depositToModule_hv {s s' : State} {f m : Addr} {c : Coin} (h : depositToModule s f m c = .ok s') : hv s' = hv s := by
  unfold depositToModule at h
  simp only [bind_eq_ok, pure_eq_ok, require_eq_ok, orReject_eq_ok] at h
  obtain ⟨cur, _, _, _, s1, hs1, rfl⟩ := h
  rw [hv_emit, hv_putDeposit, sendCoins_hv hs1]

theorem fundCommunityPool_hv {s s' : State} {f : Addr} {c : Coin} (h : fundCommunityPool s f c = .ok s') : hv s' = hv s := by
  unfold fundCommunityPool at h
  split at h
  · rw [pure_eq_ok] at h; rw [h]
  · exact sendCoins_hv h

theorem addDeposit_hv {s s' : State} {a : Addr} {c : Coin} (h : addDeposit s a c = .ok s') : hv s' = hv s := by
  unfold addDeposit at h
  split at h
  · rw [pure_eq_ok] at h; rw [h]
  · exact depositAdd_hv h

theorem subtractDeposit_hv {s s' : State} {a : Addr} {c : Coin} (h : subtractDeposit s a c = .ok s') : hv s' = hv s := by
  unfold subtractDeposit at h
  split at h
  · rw [pure_eq_ok] at h; rw [h]
  · exact depositToAccount_hv h

theorem sendCoinFromDepositToAccount_hv {s s' : State} {f t : Addr} {c : Coin}
    (h : sendCoinFromDepositToAccount s f t c = .ok s') : hv s' = hv s := by
  unfold sendCoinFromDepositToAccount at h
  split at h
  · rw [pure_eq_ok] at h; rw [h]
  · exact depositToAccount_hv h

theorem sendCoinFromDepositToModule_hv {s s' : State} {f m : Addr} {c : Coin}
    (h : sendCoinFromDepositToModule s f m c = .ok s') : hv s' = hv s := by
  unfold sendCoinFromDepositToModule at h
  split at h
  · rw [pure_eq_ok] at h; rw [h]
  · exact depositToModule_hv h

theorem sendCoin_hv {s s' : State} {f t : Addr} {c : Coin} (h : sendCoin s f t c = .ok s') : hv s' = hv s := by
  unfold sendCoin at h
  split at h
  · rw [pure_eq_ok] at h; rw [h]
  · exact sendCoins_hv h

theorem sendCoinFromAccountToModule_hv {s s' : State} {f m : Addr} {c : Coin}
    (h : sendCoinFromAccountToModule s f m c = .ok s') : hv s' = hv s := by
  unfold sendCoinFromAccountToModule at h
  split at h
  · rw [pure_eq_ok] at h; rw [h]
  · exact sendCoins_hv h

theorem setProvider_hv {s s' : State} {p : Provider} (h : setProvider s p = .ok s') : hv s' = hv s := by
  unfold setProvider at h
  split at h <;> simp only [pure_eq_ok, gopanic_ne_ok] at h <;> (try subst h) <;> rfl

theorem setPlan_hv {s s' : State} {p : Plan} (h : setPlan s p = .ok s') : hv s' = hv s := by
  unfold setPlan at h
  split at h <;> simp only [pure_eq_ok, gopanic_ne_ok] at h <;> (try subst h) <;> rfl

theorem setNode_cv {s s' : State} {n : Node} (h : setNode s n = .ok s') : cv s' = cv s := by
  unfold setNode at h
  split at h <;> simp only [pure_eq_ok, gopanic_ne_ok] at h <;> (try subst h) <;> rfl

/-! ### handlers that touch neither the ledger nor the nodes -/

theorem provRegister_hv {s s' : State} {frm : Addr} {n i w d : Bytes} (h : provRegister s frm n i w d = .ok s') : hv s' = hv s := by
  unfold provRegister at h
  simp only [bind_eq_ok, pure_eq_ok, require_eq_ok] at h
  obtain ⟨_, _, s1, h1, s2, h2, rfl⟩ := h
  rw [hv_emit, setProvider_hv h2, fundCommunityPool_hv h1]

theorem provUpdate_hv {s s' : State} {frm : Addr} {n i w d : Bytes} {st : Status} (h : provUpdate s frm n i w d st = .ok s') : hv s' = hv s := by
  unfold provUpdate at h
  simp only [bind_eq_ok, pure_eq_ok, orReject_eq_ok] at h
  obtain ⟨p, _, s3, h3, rfl⟩ := h
  rw [hv_emit, setProvider_hv h3]
  split <;> split <;> rfl

theorem createNodeSubGB_hv {s : State} {acc node : Addr} {n : Node} {gb : Int} {denom : Denom} {r : State × Sub}
    (h : createNodeSubGB s acc node n gb denom = .ok r) : hv r.1 = hv s := by
  unfold createNodeSubGB at h
  simp only [bind_eq_ok, pure_eq_ok, orReject_eq_ok] at h
  obtain ⟨price, _, bytes, _, amt, _, dep, _, s1, h1, granted, _, rfl⟩ := h
  simp only [hv_emit, hv_setAllocation, hv_insertSub]
  exact addDeposit_hv h1

theorem createNodeSubHr_hv {s : State} {acc node : Addr} {n : Node} {hr : Int} {denom : Denom} {r : State × Sub}
    (h : createNodeSubHr s acc node n hr denom = .ok r) : hv r.1 = hv s := by
  unfold createNodeSubHr at h
  simp only [bind_eq_ok, pure_eq_ok, orReject_eq_ok] at h
  obtain ⟨price, _, amt, _, dep, _, s1, h1, pa, _, hourly, _, rfl⟩ := h
  simp only [hv_insertPayout, hv_insertSub]
  exact addDeposit_hv h1

theorem nodeSubscribe_hv {s s' : State} {frm node : Addr} {gb hr : Int} {denom : Denom}
    (h : nodeSubscribe s frm node gb hr denom = .ok s') : hv s' = hv s := by
  unfold nodeSubscribe createSubscriptionForNode at h
  simp only [bind_eq_ok, pure_eq_ok, require_eq_ok, orReject_eq_ok] at h
  obtain ⟨_, _, _, _, r, ⟨n, _, _, _, hr'⟩, rfl⟩ := h
  rw [hv_emit]
  split at hr'
  · exact createNodeSubGB_hv hr'
  · exact createNodeSubHr_hv hr'

theorem planCreate_hv {s s' : State} {frm : Addr} {dur : Dur} {gb : Int} {prices : Coins}
    (h : planCreate s frm dur gb prices = .ok s') : hv s' = hv s := by
  unfold planCreate at h
  simp only [bind_eq_ok, pure_eq_ok, require_eq_ok] at h
  obtain ⟨_, _, s1, h1, rfl⟩ := h
  exact Eq.trans (b := hv s1) rfl (Eq.trans (setPlan_hv h1) rfl)

theorem planStatus_hv {s s' : State} {frm : Addr} {id : Nat} {st : Status}
    (h : planStatus s frm id st = .ok s') : hv s' = hv s := by
  unfold planStatus at h
  simp only [bind_eq_ok, pure_eq_ok, require_eq_ok, orReject_eq_ok] at h
  obtain ⟨p, hp, _, _, s3, h3, rfl⟩ := h
  rw [hv_emit, setPlan_hv h3]
  split <;> split <;> rfl

theorem planLink_hv {s s' : State} {frm : Addr} {id : Nat} {node : Addr}
    (h : planLink s frm id node = .ok s') : hv s' = hv s := by
  unfold planLink at h
  simp only [bind_eq_ok, pure_eq_ok, require_eq_ok, orReject_eq_ok] at h
  obtain ⟨p, _, _, _, _, _, rfl⟩ := h
  rfl

theorem planUnlink_hv {s s' : State} {frm : Addr} {id : Nat} {node : Addr}
    (h : planUnlink s frm id node = .ok s') : hv s' = hv s := by
  unfold planUnlink at h
  simp only [bind_eq_ok, pure_eq_ok, require_eq_ok, orReject_eq_ok] at h
  obtain ⟨p, _, _, _, rfl⟩ := h
  rfl

theorem planSubscribe_hv {s s' : State} {frm : Addr} {id : Nat} {denom : Denom}
    (h : planSubscribe s frm id denom = .ok s') : hv s' = hv s := by
  unfold planSubscribe createSubscriptionForPlan at h
  simp only [bind_eq_ok, pure_eq_ok, require_eq_ok, requireP_eq_ok, orReject_eq_ok] at h
  obtain ⟨r, ⟨plan, hplan, _, _, price, _, reward, _, s1, h1, payAmt, _, _, _, s2, h2, granted, _, rfl⟩, rfl⟩ := h
  simp only [hv_emit, hv_setAllocation, hv_insertSub]
  rw [sendCoin_hv h2, sendCoinFromAccountToModule_hv h1]

theorem subscriptionInactivePendingHook_hv {s s' : State} {id : Nat}
    (h : subscriptionInactivePendingHook s id = .ok s') : hv s' = hv s := by
  unfold subscriptionInactivePendingHook at h
  refine foldlM_hv _ ?_ _ s s' h
  intro s0 sid s1 h1
  simp only [bind_eq_ok, pure_eq_ok, orPanic_eq_ok] at h1
  obtain ⟨x, _, rfl⟩ := h1
  split <;> rfl

theorem detachPayout_hv {s s' : State} {sub : Sub} {b : Bool} (h : detachPayout s sub b = .ok s') : hv s' = hv s := by
  unfold detachPayout at h
  split at h
  · simp only [bind_eq_ok, pure_eq_ok] at h
    obtain ⟨p, _, rfl⟩ := h
    rfl
  · rw [pure_eq_ok] at h; rw [h]

theorem subCancel_hv {s s' : State} {frm : Addr} {id : Nat} (h : subCancel s frm id = .ok s') : hv s' = hv s := by
  unfold subCancel at h
  simp only [bind_eq_ok, require_eq_ok, orReject_eq_ok] at h
  obtain ⟨sub, _, _, _, _, _, s1, h1, h2⟩ := h
  rw [detachPayout_hv h2, hv_subToPending, subscriptionInactivePendingHook_hv h1]
  rfl

theorem subAllocate_hv {s s' : State} {frm toA : Addr} {id : Nat} {bytes : Int}
    (h : subAllocate s frm id toA bytes = .ok s') : hv s' = hv s := by
  unfold subAllocate at h
  simp only [bind_eq_ok, pure_eq_ok, require_eq_ok, orReject_eq_ok] at h
  obtain ⟨sub, _, _, _, _, _, fa, _, _, _, g, _, u, _, av, _, _, _, fg, _, _, _, _, _, rfl⟩ := h
  simp only [hv_emit, hv_setAllocation]
  split <;> rfl

theorem sessStart_hv {s s' : State} {frm : TextAddr} {id : Nat} {node : Addr}
    (h : sessStart s frm id node = .ok s') : hv s' = hv s := by
  unfold sessStart at h
  simp only [bind_eq_ok, pure_eq_ok, require_eq_ok, orReject_eq_ok] at h
  obtain ⟨sub, _, _, _, n, _, _, _, _, _, _, _, latest, _, _, _, rfl⟩ := h
  rfl

theorem sessUpdate_hv {s s' : State} {frm : Addr} {id : Nat} {up down dur : Int} {sig : SigSpec}
    (h : sessUpdate s frm id up down dur sig = .ok s') : hv s' = hv s := by
  unfold sessUpdate at h
  simp only [bind_eq_ok, pure_eq_ok, require_eq_ok, orReject_eq_ok] at h
  obtain ⟨x, _, _, _, _, _, _, _, rfl⟩ := h
  simp only [hv_emit]
  split <;> rfl

theorem sessEnd_hv {s s' : State} {frm : Addr} {id : Nat} (h : sessEnd s frm id = .ok s') : hv s' = hv s := by
  unfold sessEnd at h
  simp only [bind_eq_ok, pure_eq_ok, require_eq_ok, orReject_eq_ok] at h
  obtain ⟨x, _, _, _, _, _, rfl⟩ := h
  rfl

/-! ### node handlers: ledger, parameters and flags untouched -/

theorem nodeRegister_cv {s s' : State} {frm : Addr} {gb hr : Coins} {url : Bytes} (h : nodeRegister s frm gb hr url = .ok s') : cv s' = cv s := by
  unfold nodeRegister at h
  simp only [bind_eq_ok, pure_eq_ok, require_eq_ok] at h
  obtain ⟨_, _, _, _, _, _, s1, h1, s2, h2, rfl⟩ := h
  exact Eq.trans (b := cv s2) rfl ((setNode_cv h2).trans (cv_of_hv (fundCommunityPool_hv h1)))

theorem nodeUpdate_cv {s s' : State} {frm : Addr} {gb hr : Option Coins} {url : Bytes} (h : nodeUpdate s frm gb hr url = .ok s') : cv s' = cv s := by
  unfold nodeUpdate at h
  simp only [bind_eq_ok, pure_eq_ok, require_eq_ok, orReject_eq_ok] at h
  obtain ⟨_, _, _, _, n, _, s1, h1, rfl⟩ := h
  exact Eq.trans (b := cv s1) rfl (setNode_cv h1)

theorem nodeStatus_cv {s s' : State} {frm : Addr} {st : Status} (h : nodeStatus s frm st = .ok s') : cv s' = cv s := by
  unfold nodeStatus at h
  simp only [bind_eq_ok, pure_eq_ok, orReject_eq_ok] at h
  obtain ⟨n, _, s5, h5, rfl⟩ := h
  refine Eq.trans (b := cv s5) rfl ((setNode_cv h5).trans ?_)
  split <;> split <;> split <;> split <;> rfl

/-! ### begin of block -/

/-- The custommint hook touches only the custommint part. -/
theorem mintBeginBlock_go_frame (l : List Inflation) (s : State) :
    (mintBeginBlock.go s l).swaps = s.swaps ∧ (mintBeginBlock.go s l).supply = s.supply ∧
    (mintBeginBlock.go s l).params = s.params ∧ (mintBeginBlock.go s l).modified = s.modified ∧
    (mintBeginBlock.go s l).nodeActive = s.nodeActive ∧ (mintBeginBlock.go s l).nodeInactive = s.nodeInactive := by
  induction l generalizing s with
  | nil => exact ⟨rfl, rfl, rfl, rfl, rfl, rfl⟩
  | cons item rest ih =>
    unfold mintBeginBlock.go
    split
    · exact ⟨rfl, rfl, rfl, rfl, rfl, rfl⟩
    · exact ih _

theorem hv_distrSweep (s : State) : hv (distrSweep s) = hv s := by
  unfold distrSweep
  exact foldl_inv (fun s' => hv s' = hv s) sweepDenom (fun s' d h => (rfl : hv (sweepDenom s' d) = hv s').trans h) _ s rfl

theorem payoutStep_hv {s s' : State} {k : Time × Nat} (h : payoutStep s k = .ok s') : hv s' = hv s := by
  unfold payoutStep at h
  simp only [bind_eq_ok, pure_eq_ok, requireP_eq_ok, orPanic_eq_ok] at h
  obtain ⟨item, _, reward, _, s2, h2, payAmt, _, _, _, s3, h3, rfl⟩ := h
  have e : hv s3 = hv s := by
    rw [sendCoinFromDepositToAccount_hv h3, sendCoinFromDepositToModule_hv h2]; rfl
  rw [← e]
  split <;> rfl

/-- The whole begin-of-block: after the custommint hook nothing of the view changes any more. -/
theorem beginBlock_hv {s s' : State} {t : Time} (h : beginBlock s t = .ok s') :
    hv s' = hv (mintBeginBlock { s with time := t, height := s.height + 1, events := [] }) := by
  unfold beginBlock haltOf at h
  split at h <;> try contradiction
  rename_i s'' hs
  simp only [Except.ok.injEq] at h
  subst h
  unfold subscriptionBeginBlock at hs
  have := foldlM_hv _ (fun s0 k s1 h1 => by rw [panicIfErr_eq_ok] at h1; exact payoutStep_hv h1) _ _ _ hs
  rw [this, hv_distrSweep]

/-- … and the ledger, parameters, flags and node tables are those from before the block. -/
theorem beginBlock_frame {s s' : State} {t : Time} (h : beginBlock s t = .ok s') :
    s'.swaps = s.swaps ∧ s'.supply = s.supply ∧ s'.params = s.params ∧ s'.modified = s.modified ∧
    s'.nodeActive = s.nodeActive ∧ s'.nodeInactive = s.nodeInactive := by
  have e := beginBlock_hv h
  obtain ⟨a, b, c, d, f, g⟩ := mintBeginBlock_go_frame
    (inflationOrder { s with time := t, height := s.height + 1, events := [] }) { s with time := t, height := s.height + 1, events := [] }
  exact ⟨(hv_swaps e).trans a, (hv_supply e).trans b, (hv_params e).trans c, (hv_modified e).trans d,
    (hv_nodeActive e).trans f, (hv_nodeInactive e).trans g⟩

/-! ### end of block -/

theorem nodeSweep_cv {s s' : State} (h : nodeSweep s = .ok s') : cv s' = cv s := by
  unfold nodeSweep at h
  split at h
  · rw [pure_eq_ok] at h; rw [h]
  · refine foldlM_cv _ ?_ _ s s' h
    intro s0 a s1 h1
    simp only [bind_eq_ok, pure_eq_ok, orPanic_eq_ok] at h1
    obtain ⟨item, _, s2, h2, rfl⟩ := h1
    exact Eq.trans (b := cv s2) rfl (setNode_cv h2)

theorem nodeExpire_cv {s s' : State} (h : nodeExpire s = .ok s') : cv s' = cv s := by
  unfold nodeExpire at h
  refine foldlM_cv _ ?_ _ s s' h
  intro s0 k s1 h1
  unfold nodeExpireStep at h1
  simp only [bind_eq_ok, pure_eq_ok, orPanic_eq_ok] at h1
  obtain ⟨item, _, s3, h3, rfl⟩ := h1
  exact Eq.trans (b := cv s3) rfl ((setNode_cv h3).trans rfl)

theorem settleSession_hv {s s' : State} {x : Session} {acc node : Addr} {dep : Coin} {gb b a : Int}
    (h : settleSession s x acc node dep gb b a = .ok s') : hv s' = hv s := by
  unfold settleSession at h
  simp only [bind_eq_ok, pure_eq_ok, requireP_eq_ok] at h
  obtain ⟨price, _, prev, _, cur, _, payAmt, _, payment, _, reward, _, s1, h1, netAmt, _, _, _, s2, h2, rfl⟩ := h
  rw [hv_emit, sendCoinFromDepositToAccount_hv h2, sendCoinFromDepositToModule_hv h1]

theorem sessionInactiveHook_hv {s s' : State} {id : Nat} {acc node : Addr} {bytes : Int}
    (h : sessionInactiveHook s id acc node bytes = .ok s') : hv s' = hv s := by
  unfold sessionInactiveHook at h
  simp only [bind_eq_ok, require_eq_ok, orReject_eq_ok] at h
  obtain ⟨x, _, _, _, sub, _, h⟩ := h
  split at h
  · rw [pure_eq_ok] at h; rw [← h]
  · simp only [bind_eq_ok, orReject_eq_ok] at h
    obtain ⟨a, _, used, _, h⟩ := h
    split at h
    · rw [settleSession_hv h]; rfl
    · rw [pure_eq_ok] at h; rw [← h]; rfl

theorem sessionStep_hv {s s' : State} {k : Time × Nat} (h : sessionStep s k = .ok s') : hv s' = hv s := by
  unfold sessionStep at h
  simp only [bind_eq_ok, orPanic_eq_ok] at h
  obtain ⟨item, _, h⟩ := h
  split at h
  · rw [pure_eq_ok] at h; rw [← h]; rfl
  · simp only [bind_eq_ok, pure_eq_ok, panicIfErr_eq_ok] at h
    obtain ⟨bytes, _, s2, h2, rfl⟩ := h
    rw [hv_removeSession, sessionInactiveHook_hv h2]; rfl

theorem refundSub_hv {s s' : State} {item : Sub} (h : refundSub s item = .ok s') : hv s' = hv s := by
  unfold refundSub at h
  split at h
  · simp only [bind_eq_ok] at h
    obtain ⟨s1, h1, h2⟩ := h
    have i1 : hv s1 = hv s := by
      split at h1
      · unfold refundGB at h1
        simp only [bind_eq_ok, pure_eq_ok, orPanic_eq_ok, panicIfErr_eq_ok] at h1
        obtain ⟨price, _, a, _, paid, _, ra, _, refund, _, s2, h2', rfl⟩ := h1
        rw [hv_emit, subtractDeposit_hv h2']
      · rw [pure_eq_ok] at h1; rw [← h1]
    split at h2
    · unfold refundHr at h2
      simp only [bind_eq_ok, pure_eq_ok, orPanic_eq_ok, panicIfErr_eq_ok] at h2
      obtain ⟨p, _, ra, _, refund, _, s2, h2', rfl⟩ := h2
      rw [hv_emit, subtractDeposit_hv h2', i1]
    · rw [pure_eq_ok] at h2; rw [← h2]; exact i1
  · rw [pure_eq_ok] at h; rw [← h]

theorem hv_removeAllocs (l : List Addr) (s : State) (id : Nat) : hv (removeAllocs s id l) = hv s := by
  unfold removeAllocs
  induction l generalizing s with
  | nil => rfl
  | cons a rest ih => rw [List.foldl_cons, ih]; rfl

theorem hv_removeSubRecords (s : State) (item : Sub) : hv (removeSubRecords s item) = hv s := by
  unfold removeSubRecords
  cases item.kind with
  | node n g h d => rfl
  | plan pid dn =>
    simp only [hv_emit]
    exact (rfl : hv { (removeAllocs _ _ _) with subs := _ } = hv (removeAllocs _ _ _)).trans (hv_removeAllocs _ _ _)

theorem removePayout_hv {s s' : State} {item : Sub} (h : removePayout s item = .ok s') : hv s' = hv s := by
  unfold removePayout at h
  split at h
  · simp only [bind_eq_ok, pure_eq_ok, orPanic_eq_ok] at h
    obtain ⟨p, _, rfl⟩ := h
    rfl
  · rw [pure_eq_ok] at h; rw [h]

theorem subscriptionStep_hv {s s' : State} {d : Dur} {k : Time × Nat} (h : subscriptionStep d s k = .ok s') : hv s' = hv s := by
  unfold subscriptionStep at h
  simp only [bind_eq_ok, orPanic_eq_ok] at h
  obtain ⟨item, _, h⟩ := h
  split at h
  · simp only [bind_eq_ok, panicIfErr_eq_ok] at h
    obtain ⟨s2, h2, h3⟩ := h
    rw [detachPayout_hv h3, hv_subToPending, subscriptionInactivePendingHook_hv h2]; rfl
  · simp only [bind_eq_ok] at h
    obtain ⟨s2, h2, h3⟩ := h
    rw [removePayout_hv h3, hv_removeSubRecords, refundSub_hv h2]; rfl

theorem sessionEndBlock_hv {s s' : State} (h : sessionEndBlock s = .ok s') : hv s' = hv s :=
  foldlM_hv _ (fun _ _ _ h1 => sessionStep_hv h1) _ _ _ h

theorem subscriptionEndBlock_hv {s s' : State} (h : subscriptionEndBlock s = .ok s') : hv s' = hv s :=
  foldlM_hv _ (fun _ _ _ h1 => subscriptionStep_hv h1) _ _ _ h

/-- Decomposition of a completed end-of-block: the sweep, the expiry, then two passes that do not
touch the node tables, then the reset of the flags. -/
theorem endBlock_decompose {s s' : State} (h : endBlock s = .ok s') :
    ∃ sa sb sc, nodeSweep { s with events := [] } = .ok sa ∧ nodeExpire sa = .ok sb ∧ hv sc = hv sb ∧
      s' = { sc with modified := {} } := by
  unfold endBlock haltOf at h
  split at h <;> try contradiction
  rename_i s2 hs
  split at hs <;> try contradiction
  rename_i s3 hs3
  simp only [Except.ok.injEq] at hs h
  subst hs; subst h
  unfold vpnEndBlock nodeEndBlock at hs3
  simp only [bind_eq_ok] at hs3
  obtain ⟨s1, ⟨sa, ha, hb⟩, sb, hc, hd⟩ := hs3
  exact ⟨sa, s1, s3, ha, hb, by rw [subscriptionEndBlock_hv hd, sessionEndBlock_hv hc], rfl⟩

theorem endBlock_ledger {s s' : State} (h : endBlock s = .ok s') :
    s'.swaps = s.swaps ∧ s'.supply = s.supply ∧ s'.params = s.params ∧ mv s' = mv s := by
  obtain ⟨sa, sb, sc, h1, h2, h3, rfl⟩ := endBlock_decompose h
  have e : cv sc = cv s := (cv_of_hv h3).trans ((nodeExpire_cv h2).trans ((nodeSweep_cv h1).trans rfl))
  show sc.swaps = s.swaps ∧ sc.supply = s.supply ∧ sc.params = s.params ∧ mv sc = mv s
  exact ⟨cv_swaps e, cv_supply e, cv_params e, cv_mint e⟩

/-! ### governance -/

theorem gov_ledger {s s' : State} {c : ParamChange} (h : gov s c = some s') :
    s'.swaps = s.swaps ∧ s'.supply = s.supply ∧ s'.nodeActive = s.nodeActive ∧ s'.nodeInactive = s.nodeInactive ∧ mv s' = mv s := by
  unfold gov at h
  cases c <;> simp only [] at h <;> (try split at h) <;>
    first
      | (simp only [Option.some.injEq] at h; rw [← h]; exact ⟨rfl, rfl, rfl, rfl, rfl⟩)
      | (simp only [reduceCtorEq] at h)

/-- The swap handler touches neither the parameters, the flags nor the node tables. -/
theorem swap_nodes {s s' : State} {frm recv : Addr} {hash : Bytes} {amt : Int} (h : swap s frm hash recv amt = .ok s') :
    s'.params = s.params ∧ s'.modified = s.modified ∧ s'.nodeActive = s.nodeActive ∧ s'.nodeInactive = s.nodeInactive ∧
    mv s' = mv s := by
  unfold swap sendModuleToAccount mintCoins at h
  simp only [bind_eq_ok, pure_eq_ok, require_eq_ok] at h
  obtain ⟨_, _, _, _, _, _, q, _, coin, _, s1, ⟨nb, _, ns, _, rfl⟩, s2, h2, rfl⟩ := h
  split at h2
  · simp [reject] at h2
  · have := sendCoins_hv h2
    show s2.params = s.params ∧ s2.modified = s.modified ∧ s2.nodeActive = s.nodeActive ∧ s2.nodeInactive = s.nodeInactive ∧
      mv s2 = mv s
    exact ⟨(hv_params this).trans rfl, (hv_modified this).trans rfl, (hv_nodeActive this).trans rfl, (hv_nodeInactive this).trans rfl,
      (hv_mint this).trans rfl⟩

/-! ### messages -/

/-- Every handler but the swap leaves the ledger, the parameters and the flags alone. -/
theorem handle_cv {s s' : State} {m : Msg} (h : m.handle s = .ok s') (hsw : (Op.tx m).isSwap = false) : cv s' = cv s := by
  cases m <;> simp only [Msg.handle] at h
  case provRegister => exact cv_of_hv (provRegister_hv h)
  case provUpdate => exact cv_of_hv (provUpdate_hv h)
  case nodeRegister => exact nodeRegister_cv h
  case nodeUpdate => exact nodeUpdate_cv h
  case nodeStatus => exact nodeStatus_cv h
  case nodeSubscribe => exact cv_of_hv (nodeSubscribe_hv h)
  case planCreate => exact cv_of_hv (planCreate_hv h)
  case planStatus => exact cv_of_hv (planStatus_hv h)
  case planLink => exact cv_of_hv (planLink_hv h)
  case planUnlink => exact cv_of_hv (planUnlink_hv h)
  case planSubscribe => exact cv_of_hv (planSubscribe_hv h)
  case subCancel => exact cv_of_hv (subCancel_hv h)
  case subAllocate => exact cv_of_hv (subAllocate_hv h)
  case sessStart => exact cv_of_hv (sessStart_hv h)
  case sessUpdate => exact cv_of_hv (sessUpdate_hv h)
  case sessEnd => exact cv_of_hv (sessEnd_hv h)
  case swap => simp [Op.isSwap] at hsw

/-- What `deliver` does: either the handler's result (accepted) or the old state with the event
buffer cleared (rejected). -/
theorem deliver_cases (s : State) (m : Msg) :
    ((deliver s m).2 = .accept ∧ m.validateBasic = .ok () ∧ m.handle { s with events := [] } = .ok (deliver s m).1) ∨
    ((deliver s m).2 ≠ .accept ∧ (deliver s m).1 = { s with events := [] } ∧
      ¬ (m.validateBasic = .ok () ∧ ∃ s', m.handle { s with events := [] } = .ok s')) := by
  unfold deliver
  simp only []
  cases hr : (do m.validateBasic; m.handle { s with events := [] } : M State) with
  | ok s' =>
    left
    simp only [bind_eq_ok] at hr
    obtain ⟨u, hu, hh⟩ := hr
    exact ⟨rfl, hu, hh⟩
  | error e =>
    right
    have hno : ¬ (m.validateBasic = .ok () ∧ ∃ s', m.handle { s with events := [] } = .ok s') := by
      rintro ⟨hv, s', hh⟩
      have : (do m.validateBasic; m.handle { s with events := [] } : M State) = .ok s' := by
        rw [bind_eq_ok]; exact ⟨(), hv, hh⟩
      rw [this] at hr; cases hr
    cases e <;> exact ⟨by simp, rfl, hno⟩

theorem deliver_cv (s : State) (m : Msg) (hsw : (Op.tx m).isSwap = false) : cv (deliver s m).1 = cv s := by
  rcases deliver_cases s m with ⟨_, _, h⟩ | ⟨_, h, _⟩
  · exact (handle_cv h hsw).trans rfl
  · rw [h]; rfl

end Hub.Model
