import Hub.Lemmas.SubIdxTbl
import Hub.Model.Run
/-
C09, subscription side: `SubIdx` (Hub/Model/Inv.lean) is preserved by every handler, every hook
piece, every block step and holds in every genesis state.

Method.  Every operation that touches the subscription tables is *local to one subscription id* `j`:
all thirteen tables agree, at every other id, with the pre-state (`AgreeAt`).  `SubIdx` is the
conjunction over all ids of `SubIdxAt` plus key-uniqueness, so each operation needs (1) the
mechanical agreement off `j`, (2) `SubIdxAt s' j`, (3) uniqueness of keys (`nodup_set/erase`).
Operations that do not touch the thirteen tables use `SubIdx.of_view`.
-/
set_option linter.unusedSimpArgs false
set_option linter.unusedVariables false
set_option linter.unnecessarySeqFocus false
set_option linter.unusedTactic false
set_option linter.unreachableTactic false

namespace Hub.Model
open Hub.SDK
open Hub.Generated (Status AmountForBytes GetProportionOfCoin Gigabyte)
open Hub.Generated.Keys

/-- Key uniqueness after a chain of `set`/`erase` updates. -/
local macro "nodup_tac" : tactic =>
  `(tactic| (refine ⟨?_, ?_, ?_, ?_, ?_, ?_, ?_, ?_, ?_, ?_, ?_⟩ <;>
      (repeat' first | assumption | apply Tbl.nodup_set | apply Tbl.nodup_erase)))

/-! ### the part of the state `SubIdx` reads -/

structure SubView where
  subs : Tbl Nat Sub
  subQ : Tbl (Time × Nat) Unit
  subForAcc : Tbl (Addr × Nat) Unit
  subForNode : Tbl (Addr × Nat) Unit
  subForPlan : Tbl (Nat × Nat) Unit
  allocs : Tbl (Nat × Addr) Alloc
  payouts : Tbl Nat Payout
  payQ : Tbl (Time × Nat) Unit
  payForAcc : Tbl (Addr × Nat) Unit
  payForNode : Tbl (Addr × Nat) Unit
  payForAccNode : Tbl (Addr × Addr × Nat) Unit
  subCount : Option Nat

def subView (s : State) : SubView :=
  ⟨s.subs, s.subQ, s.subForAcc, s.subForNode, s.subForPlan, s.allocs, s.payouts, s.payQ, s.payForAcc, s.payForNode,
   s.payForAccNode, s.subCount⟩

@[simp] theorem subView_subs (s : State) : (subView s).subs = s.subs := rfl
@[simp] theorem subView_subQ (s : State) : (subView s).subQ = s.subQ := rfl
@[simp] theorem subView_subForAcc (s : State) : (subView s).subForAcc = s.subForAcc := rfl
@[simp] theorem subView_subForNode (s : State) : (subView s).subForNode = s.subForNode := rfl
@[simp] theorem subView_subForPlan (s : State) : (subView s).subForPlan = s.subForPlan := rfl
@[simp] theorem subView_allocs (s : State) : (subView s).allocs = s.allocs := rfl
@[simp] theorem subView_payouts (s : State) : (subView s).payouts = s.payouts := rfl
@[simp] theorem subView_payQ (s : State) : (subView s).payQ = s.payQ := rfl
@[simp] theorem subView_payForAcc (s : State) : (subView s).payForAcc = s.payForAcc := rfl
@[simp] theorem subView_payForNode (s : State) : (subView s).payForNode = s.payForNode := rfl
@[simp] theorem subView_payForAccNode (s : State) : (subView s).payForAccNode = s.payForAccNode := rfl
@[simp] theorem subView_subCount (s : State) : (subView s).subCount = s.subCount := rfl

theorem SubIdx.of_view {s s' : State} (h : subView s' = subView s) (hi : SubIdx s) : SubIdx s' := by
  have e1 : s'.subs = s.subs := congrArg SubView.subs h
  have e2 : s'.subQ = s.subQ := congrArg SubView.subQ h
  have e3 : s'.subForAcc = s.subForAcc := congrArg SubView.subForAcc h
  have e4 : s'.subForNode = s.subForNode := congrArg SubView.subForNode h
  have e5 : s'.subForPlan = s.subForPlan := congrArg SubView.subForPlan h
  have e6 : s'.allocs = s.allocs := congrArg SubView.allocs h
  have e7 : s'.payouts = s.payouts := congrArg SubView.payouts h
  have e8 : s'.payQ = s.payQ := congrArg SubView.payQ h
  have e9 : s'.payForAcc = s.payForAcc := congrArg SubView.payForAcc h
  have e10 : s'.payForNode = s.payForNode := congrArg SubView.payForNode h
  have e11 : s'.payForAccNode = s.payForAccNode := congrArg SubView.payForAccNode h
  obtain ⟨a1, a2, a3, a4, a5, a6, a7, a8, a9, a10, a11, a12, a13, a14, a15⟩ := hi
  constructor <;> simp only [e1, e2, e3, e4, e5, e6, e7, e8, e9, e10, e11] <;> assumption

@[simp] theorem subView_emit (s : State) (e : Event) : subView (emit s e) = subView s := rfl

theorem subView_of_moneyFrame {s s' : State} (h : MoneyFrame s s') : subView s' = subView s := by
  unfold MoneyFrame at h; rw [h]; rfl

/-! ### money frames without a money invariant -/

theorem depositAdd_frame {s s' : State} {f t : Addr} {c : Coin} (h : depositAdd s f t c = .ok s') : MoneyFrame s s' := by
  unfold depositAdd at h
  simp only [bind_eq_ok, pure_eq_ok, require_eq_ok] at h
  obtain ⟨s1, hs1, _, _, rfl⟩ := h
  exact (sendCoins_frame hs1).trans rfl

theorem depositOut_frame {s s1 : State} {f t : Addr} {c : Coin} {cur : Coins} {e : Event}
    (hs1 : sendCoins s depositAddr t c = .ok s1) : MoneyFrame s (emit (putDeposit s1 f cur) e) := by
  refine (sendCoins_frame hs1).trans ?_
  unfold MoneyFrame
  rw [putDeposit_frame]; rfl

theorem depositToAccount_frame {s s' : State} {f t : Addr} {c : Coin} (h : depositToAccount s f t c = .ok s') : MoneyFrame s s' := by
  unfold depositToAccount sendModuleToAccount at h
  simp only [bind_eq_ok, pure_eq_ok, require_eq_ok, orReject_eq_ok] at h
  obtain ⟨cur, _, _, _, s1, hs1, rfl⟩ := h
  split at hs1
  · simp [reject] at hs1
  · exact depositOut_frame hs1

theorem depositToModule_frame {s s' : State} {f m : Addr} {c : Coin} (h : depositToModule s f m c = .ok s') : MoneyFrame s s' := by
  unfold depositToModule at h
  simp only [bind_eq_ok, pure_eq_ok, require_eq_ok, orReject_eq_ok] at h
  obtain ⟨cur, _, _, _, s1, hs1, rfl⟩ := h
  exact depositOut_frame hs1

theorem addDeposit_frame {s s' : State} {a : Addr} {c : Coin} (h : addDeposit s a c = .ok s') : MoneyFrame s s' := by
  unfold addDeposit at h
  split at h
  · rw [pure_eq_ok] at h; subst h; rfl
  · exact depositAdd_frame h

theorem subtractDeposit_frame {s s' : State} {a : Addr} {c : Coin} (h : subtractDeposit s a c = .ok s') : MoneyFrame s s' := by
  unfold subtractDeposit at h
  split at h
  · rw [pure_eq_ok] at h; subst h; rfl
  · exact depositToAccount_frame h

theorem sendCoinFromDepositToAccount_frame {s s' : State} {f t : Addr} {c : Coin}
    (h : sendCoinFromDepositToAccount s f t c = .ok s') : MoneyFrame s s' := by
  unfold sendCoinFromDepositToAccount at h
  split at h
  · rw [pure_eq_ok] at h; subst h; rfl
  · exact depositToAccount_frame h

theorem sendCoinFromDepositToModule_frame {s s' : State} {f m : Addr} {c : Coin}
    (h : sendCoinFromDepositToModule s f m c = .ok s') : MoneyFrame s s' := by
  unfold sendCoinFromDepositToModule at h
  split at h
  · rw [pure_eq_ok] at h; subst h; rfl
  · exact depositToModule_frame h

theorem sendCoin_frame {s s' : State} {f t : Addr} {c : Coin} (h : sendCoin s f t c = .ok s') : MoneyFrame s s' := by
  unfold sendCoin at h
  split at h
  · rw [pure_eq_ok] at h; subst h; rfl
  · exact sendCoins_frame h

theorem sendCoinFromAccountToModule_frame {s s' : State} {f m : Addr} {c : Coin}
    (h : sendCoinFromAccountToModule s f m c = .ok s') : MoneyFrame s s' := by
  unfold sendCoinFromAccountToModule at h
  split at h
  · rw [pure_eq_ok] at h; subst h; rfl
  · exact sendCoins_frame h

theorem fundCommunityPool_frame {s s' : State} {f : Addr} {c : Coin} (h : fundCommunityPool s f c = .ok s') : MoneyFrame s s' := by
  unfold fundCommunityPool at h
  split at h
  · rw [pure_eq_ok] at h; subst h; rfl
  · exact sendCoins_frame h

/-! ### `SubIdx` one id at a time -/

structure SubIdxAt (s : State) (i : Nat) : Prop where
  q : ∀ t, s.subQ.has (t, i) = true ↔ ∃ x, s.subs.get i = some x ∧ x.inactiveAt = t
  node : ∀ n, s.subForNode.has (n, i) = true ↔ ∃ x gb hr dep, s.subs.get i = some x ∧ x.kind = .node n gb hr dep
  plan : ∀ p, s.subForPlan.has (p, i) = true ↔ ∃ x d, s.subs.get i = some x ∧ x.kind = .plan p d
  acc : ∀ a, s.subForAcc.has (a, i) = true ↔ ∃ x, s.subs.get i = some x ∧ (x.addr = a ∨ s.allocs.has (i, a) = true)
  allocSub : ∀ a, s.allocs.has (i, a) = true → s.subs.has i = true
  ownerAlloc : ∀ x, s.subs.get i = some x → isHourly x = false → s.allocs.has (i, x.addr) = true
  hourlyNoAlloc : ∀ x a, s.subs.get i = some x → isHourly x = true → s.allocs.has (i, a) = false
  nodeSubAlloc : ∀ x a, s.subs.get i = some x → isPlanSub x = false → s.allocs.has (i, a) = true → a = x.addr
  payout : s.payouts.has i = true ↔ ∃ x, s.subs.get i = some x ∧ isHourly x = true
  payoutRec : ∀ p x, s.payouts.get i = some p → s.subs.get i = some x → x.hourlyOn p.addr p.node ∧ 0 ≤ p.hours
  payAcc : ∀ a, s.payForAcc.has (a, i) = true ↔ ∃ p, s.payouts.get i = some p ∧ p.addr = a
  payNode : ∀ n, s.payForNode.has (n, i) = true ↔ ∃ p, s.payouts.get i = some p ∧ p.node = n
  lease : ∀ a n, s.payForAccNode.has (a, n, i) = true ↔
            ∃ p x, s.payouts.get i = some p ∧ p.addr = a ∧ p.node = n ∧ s.subs.get i = some x ∧ x.status = .StatusActive
  payQ : ∀ t, s.payQ.has (t, i) = true ↔
            ∃ p x, s.payouts.get i = some p ∧ p.nextAt = t ∧ 0 < p.hours ∧ s.subs.get i = some x ∧ x.status = .StatusActive

/-- Key uniqueness of the eleven tables. -/
def SubNodup (s : State) : Prop :=
  Tbl.Nodup s.subs ∧ Tbl.Nodup s.subQ ∧ Tbl.Nodup s.subForAcc ∧ Tbl.Nodup s.subForNode ∧ Tbl.Nodup s.subForPlan ∧
  Tbl.Nodup s.allocs ∧ Tbl.Nodup s.payouts ∧ Tbl.Nodup s.payQ ∧ Tbl.Nodup s.payForAcc ∧ Tbl.Nodup s.payForNode ∧
  Tbl.Nodup s.payForAccNode

theorem SubIdx.at {s : State} (hi : SubIdx s) (i : Nat) : SubIdxAt s i :=
  ⟨fun t => hi.q t i, fun n => hi.node n i, fun p => hi.plan p i, fun a => hi.acc a i, fun a => hi.allocSub i a,
   fun x => hi.ownerAlloc i x, fun x a => hi.hourlyNoAlloc i x a, fun x a => hi.nodeSubAlloc i x a, hi.payout i,
   fun p x => hi.payoutRec i p x, fun a => hi.payAcc a i, fun n => hi.payNode n i, fun a n => hi.lease a n i,
   fun t => hi.payQ t i⟩

theorem SubIdx.of_at {s : State} (h : ∀ i, SubIdxAt s i) (hn : SubNodup s) : SubIdx s :=
  ⟨fun t i => (h i).q t, fun n i => (h i).node n, fun p i => (h i).plan p, fun a i => (h i).acc a,
   fun i a => (h i).allocSub a, fun i x => (h i).ownerAlloc x, fun i x a => (h i).hourlyNoAlloc x a,
   fun i x a => (h i).nodeSubAlloc x a, fun i => (h i).payout, fun i p x => (h i).payoutRec p x,
   fun a i => (h i).payAcc a, fun n i => (h i).payNode n, fun a n i => (h i).lease a n, fun t i => (h i).payQ t, hn⟩

/-- The thirteen tables of `s'` agree with those of `s` at id `i`. -/
structure AgreeAt (i : Nat) (s s' : State) : Prop where
  subs : s'.subs.get i = s.subs.get i
  subQ : ∀ t, s'.subQ.has (t, i) = s.subQ.has (t, i)
  subForAcc : ∀ a, s'.subForAcc.has (a, i) = s.subForAcc.has (a, i)
  subForNode : ∀ a, s'.subForNode.has (a, i) = s.subForNode.has (a, i)
  subForPlan : ∀ p, s'.subForPlan.has (p, i) = s.subForPlan.has (p, i)
  allocs : ∀ a, s'.allocs.has (i, a) = s.allocs.has (i, a)
  payouts : s'.payouts.get i = s.payouts.get i
  payQ : ∀ t, s'.payQ.has (t, i) = s.payQ.has (t, i)
  payForAcc : ∀ a, s'.payForAcc.has (a, i) = s.payForAcc.has (a, i)
  payForNode : ∀ a, s'.payForNode.has (a, i) = s.payForNode.has (a, i)
  payForAccNode : ∀ a n, s'.payForAccNode.has (a, n, i) = s.payForAccNode.has (a, n, i)

theorem SubIdxAt.congr {i : Nat} {s s' : State} (h : AgreeAt i s s') (hi : SubIdxAt s i) : SubIdxAt s' i := by
  have h1 : s'.subs.has i = s.subs.has i := by unfold Tbl.has; rw [h.subs]
  have h2 : s'.payouts.has i = s.payouts.has i := by unfold Tbl.has; rw [h.payouts]
  obtain ⟨a1, a2, a3, a4, a5, a6, a7, a8, a9, a10, a11, a12, a13, a14⟩ := hi
  constructor <;>
    simp only [h.subs, h.subQ, h.subForAcc, h.subForNode, h.subForPlan, h.allocs, h.payouts, h.payQ, h.payForAcc,
      h.payForNode, h.payForAccNode, h1, h2] <;> assumption

/-- The combinator: an operation local to id `j`. -/
theorem SubIdx.local {s s' : State} (j : Nat) (hi : SubIdx s) (hoff : ∀ i, i ≠ j → AgreeAt i s s')
    (hat : SubIdxAt s' j) (hn : SubNodup s') : SubIdx s' := by
  refine SubIdx.of_at (fun i => ?_) hn
  by_cases e : i = j
  · subst e; exact hat
  · exact (hi.at i).congr (hoff i e)

/-! ### what `CountInv` gives: records sit under their own id, the next id is unused -/

structure Fresh (s : State) (j : Nat) : Prop where
  subs : s.subs.get j = none
  subQ : ∀ t, s.subQ.has (t, j) = false
  subForAcc : ∀ a, s.subForAcc.has (a, j) = false
  subForNode : ∀ a, s.subForNode.has (a, j) = false
  subForPlan : ∀ p, s.subForPlan.has (p, j) = false
  allocs : ∀ a, s.allocs.get (j, a) = none
  payouts : s.payouts.get j = none
  payQ : ∀ t, s.payQ.has (t, j) = false
  payForAcc : ∀ a, s.payForAcc.has (a, j) = false
  payForNode : ∀ a, s.payForNode.has (a, j) = false
  payForAccNode : ∀ a n, s.payForAccNode.has (a, n, j) = false

theorem CountInv.fresh {s : State} (hc : CountInv s) : Fresh s (s.subCount.getD 0 + 1) := by
  obtain ⟨i1, i2, i3, i4, i5, i6, i7, i8⟩ := hc.subIdx
  refine ⟨?_, ?_, ?_, ?_, ?_, ?_, ?_, ?_, ?_, ?_, ?_⟩
  · cases h : s.subs.get (s.subCount.getD 0 + 1) with
    | none => rfl
    | some x => have := hc.subs _ _ h; omega
  · intro t; rw [Bool.eq_false_iff]; intro h; have := i1 _ _ h; omega
  · intro t; rw [Bool.eq_false_iff]; intro h; have := i2 _ _ h; omega
  · intro t; rw [Bool.eq_false_iff]; intro h; have := i3 _ _ h; omega
  · intro t; rw [Bool.eq_false_iff]; intro h; have := i4 _ _ h; omega
  · intro a
    cases h : s.allocs.get (s.subCount.getD 0 + 1, a) with
    | none => rfl
    | some x => have := hc.allocs _ _ _ h; omega
  · cases h : s.payouts.get (s.subCount.getD 0 + 1) with
    | none => rfl
    | some x => have := hc.payouts _ _ h; omega
  · intro t; rw [Bool.eq_false_iff]; intro h; have := i5 _ _ h; omega
  · intro t; rw [Bool.eq_false_iff]; intro h; have := i6 _ _ h; omega
  · intro t; rw [Bool.eq_false_iff]; intro h; have := i7 _ _ h; omega
  · intro a n; rw [Bool.eq_false_iff]; intro h; have := i8 _ _ _ h; omega

/-- Records sit under their own id — the part of `CountInv` the hook steps need (and trivially keep:
every write is at the record's own id). -/
structure KeyedV (v : SubView) : Prop where
  subs : ∀ i x, v.subs.get i = some x → x.id = i
  allocs : ∀ i a al, v.allocs.get (i, a) = some al → al.id = i ∧ al.addr = a
  payouts : ∀ i p, v.payouts.get i = some p → p.id = i

abbrev Keyed (s : State) : Prop := KeyedV (subView s)

theorem CountInv.keyed {s : State} (hc : CountInv s) : Keyed s :=
  ⟨fun i x h => (hc.subs i x h).1, fun i a al h => ⟨(hc.allocs i a al h).1, (hc.allocs i a al h).2.1⟩,
   fun i p h => (hc.payouts i p h).1⟩

theorem KeyedV.of_eq {s : State} {v : SubView} (e : subView s = v) (h : KeyedV v) : Keyed s := by
  subst e; exact h

theorem Keyed.of_view {s s' : State} (h : subView s' = subView s) (hk : Keyed s) : Keyed s' := by
  unfold Keyed; rw [h]; exact hk

/-- Every record of `v'` is a record of `v` under the same key, or sits under its own id. -/
theorem KeyedV.of_get {v v' : SubView} (hk : KeyedV v)
    (h1 : ∀ i x, v'.subs.get i = some x → v.subs.get i = some x ∨ x.id = i)
    (h2 : ∀ i a al, v'.allocs.get (i, a) = some al → v.allocs.get (i, a) = some al ∨ (al.id = i ∧ al.addr = a))
    (h3 : ∀ i p, v'.payouts.get i = some p → v.payouts.get i = some p ∨ p.id = i) : KeyedV v' := by
  refine ⟨fun i x h => ?_, fun i a al h => ?_, fun i p h => ?_⟩
  · rcases h1 i x h with e | e
    · exact hk.subs i x e
    · exact e
  · rcases h2 i a al h with e | e
    · exact hk.allocs i a al e
    · exact e
  · rcases h3 i p h with e | e
    · exact hk.payouts i p e
    · exact e

/-- `KeyedV` after a chain of `set`/`erase` at own ids. -/
local macro "keyed_tac" hk:term : tactic =>
  `(tactic| (refine KeyedV.of_get $hk ?_ ?_ ?_ <;> intros <;> rename_i hget <;>
      simp only [Tbl.get_set, Tbl.get_erase] at hget <;> (try split_ifs at hget) <;>
      first
        | (left; exact hget)
        | (exfalso; exact Option.noConfusion hget)
        | (simp only [Option.some.injEq] at hget; subst hget; right; simp_all)))

/-! ### creation -/

theorem createAlloc_subIdx {s : State} {sub : Sub} {a : Alloc} (hf : Fresh s sub.id) (hi : SubIdx s)
    (hh : isHourly sub = false) (ha : a.id = sub.id) (haa : a.addr = sub.addr) :
    SubIdx (setAllocation (insertSub s sub) a) := by
  refine SubIdx.local sub.id hi ?_ ?_ ?_
  · intro i hne
    unfold setAllocation insertSub
    cases hk : sub.kind <;> constructor <;> intros <;>
      simp [Tbl.has_set_B, Tbl.get_set, ha, hne, Ne.symm hne]
  · have f1 := hf.subs; have f2 := hf.subQ; have f3 := hf.subForAcc; have f4 := hf.subForNode; have f5 := hf.subForPlan
    have f6 := hf.allocs; have f7 := hf.payouts; have f8 := hf.payQ; have f9 := hf.payForAcc; have f10 := hf.payForNode
    have f11 := hf.payForAccNode
    have f6' : ∀ a, s.allocs.has (sub.id, a) = false := fun a => Tbl.has_false_of_get (f6 a)
    have f7' : s.payouts.has sub.id = false := Tbl.has_false_of_get f7
    unfold setAllocation insertSub
    cases hk : sub.kind with
    | node n gb hr dep =>
      have hr0 : hr = 0 := by simpa [isHourly, hk] using hh
      constructor <;> intros <;>
        simp_all [Tbl.has_set_B, Tbl.get_set, isHourly, isPlanSub, Sub.hourlyOn]
    | plan pid d =>
      constructor <;> intros <;>
        simp_all [Tbl.has_set_B, Tbl.get_set, isHourly, isPlanSub, Sub.hourlyOn]
  · obtain ⟨n1, n2, n3, n4, n5, n6, n7, n8, n9, n10, n11⟩ := hi.nodup
    unfold setAllocation insertSub
    cases sub.kind <;> nodup_tac

theorem createPayout_subIdx {s : State} {sub : Sub} {p : Payout} (hf : Fresh s sub.id) (hi : SubIdx s)
    {gb hr : Int} {dep : Coin} (hk : sub.kind = .node p.node gb hr dep) (hr0 : hr ≠ 0) (hst : sub.status = .StatusActive)
    (hp : p.id = sub.id) (hpa : p.addr = sub.addr) (hh : 0 < p.hours) :
    SubIdx (insertPayout (insertSub s sub) p) := by
  refine SubIdx.local sub.id hi ?_ ?_ ?_
  · intro i hne
    unfold insertPayout insertSub
    rw [hk]
    constructor <;> intros <;> simp [emit, Tbl.has_set_B, Tbl.get_set, hp, hne, Ne.symm hne]
  · have f1 := hf.subs; have f2 := hf.subQ; have f3 := hf.subForAcc; have f4 := hf.subForNode; have f5 := hf.subForPlan
    have f6 := hf.allocs; have f7 := hf.payouts; have f8 := hf.payQ; have f9 := hf.payForAcc; have f10 := hf.payForNode
    have f11 := hf.payForAccNode
    have f6' : ∀ a, s.allocs.has (sub.id, a) = false := fun a => Tbl.has_false_of_get (f6 a)
    have f7' : s.payouts.has sub.id = false := Tbl.has_false_of_get f7
    unfold insertPayout insertSub
    rw [hk]
    constructor <;> intros <;>
      simp_all [emit, Tbl.has_set_B, Tbl.get_set, isHourly, isPlanSub, Sub.hourlyOn] <;> omega
  · obtain ⟨n1, n2, n3, n4, n5, n6, n7, n8, n9, n10, n11⟩ := hi.nodup
    unfold insertPayout insertSub
    rw [hk]
    nodup_tac

theorem createNodeSubGB_subIdx {s : State} {acc node : Addr} {n : Node} {gb : Int} {denom : Denom} {r : State × Sub}
    (h : createNodeSubGB s acc node n gb denom = .ok r) (hc : CountInv s) (hi : SubIdx s) : SubIdx r.1 := by
  unfold createNodeSubGB at h
  simp only [bind_eq_ok, pure_eq_ok, orReject_eq_ok] at h
  obtain ⟨price, _, bytes, _, amt, _, dep, _, s1, h1, granted, _, rfl⟩ := h
  have hfr := addDeposit_frame h1
  have key := createAlloc_subIdx (s := s)
    (sub := { id := s.subCount.getD 0 + 1, addr := acc, inactiveAt := s.time + 90 * day, status := .StatusActive,
              statusAt := s.time, kind := .node node gb 0 dep })
    (a := { id := s.subCount.getD 0 + 1, addr := acc, granted := granted, used := 0 }) hc.fresh hi (by simp [isHourly]) rfl rfl
  refine SubIdx.of_view ?_ key
  rw [hfr.eq]; rfl

theorem createNodeSubHr_subIdx {s : State} {acc node : Addr} {n : Node} {hr : Int} {denom : Denom} {r : State × Sub}
    (h : createNodeSubHr s acc node n hr denom = .ok r) (h0 : 0 ≤ hr) (hc : CountInv s) (hi : SubIdx s) : SubIdx r.1 := by
  unfold createNodeSubHr at h
  simp only [bind_eq_ok, pure_eq_ok, orReject_eq_ok] at h
  obtain ⟨price, _, amt, _, dep, _, s1, h1, pa, hq, hourly, _, rfl⟩ := h
  have hne : hr ≠ 0 := by
    intro e; subst e; simp [SInt.quo, gopanic] at hq
  have hfr := addDeposit_frame h1
  have key := createPayout_subIdx (s := s)
    (sub := { id := s.subCount.getD 0 + 1, addr := acc, inactiveAt := s.time + hr * hour, status := .StatusActive,
              statusAt := s.time, kind := .node node 0 hr dep })
    (p := { id := s.subCount.getD 0 + 1, addr := acc, node := node, hours := hr, price := hourly, nextAt := s.time })
    hc.fresh hi rfl hne rfl rfl rfl (by show 0 < hr; omega)
  refine SubIdx.of_view ?_ key
  rw [hfr.eq]; rfl

theorem nodeSubscribe_subIdx {s s' : State} {frm node : Addr} {gb hr : Int} {denom : Denom}
    (h : nodeSubscribe s frm node gb hr denom = .ok s') (h0 : 0 ≤ hr) (hc : CountInv s) (hi : SubIdx s) : SubIdx s' := by
  unfold nodeSubscribe createSubscriptionForNode at h
  simp only [bind_eq_ok, pure_eq_ok, require_eq_ok, orReject_eq_ok] at h
  obtain ⟨_, _, _, _, r, ⟨n, _, _, _, hr'⟩, rfl⟩ := h
  refine SubIdx.of_view (s := r.1) rfl ?_
  split at hr'
  · exact createNodeSubGB_subIdx hr' hc hi
  · exact createNodeSubHr_subIdx hr' h0 hc hi

theorem planSubscribe_subIdx {s s' : State} {frm : Addr} {id : Nat} {denom : Denom}
    (h : planSubscribe s frm id denom = .ok s') (hc : CountInv s) (hi : SubIdx s) : SubIdx s' := by
  unfold planSubscribe createSubscriptionForPlan at h
  simp only [bind_eq_ok, pure_eq_ok, require_eq_ok, requireP_eq_ok, orReject_eq_ok] at h
  obtain ⟨r, ⟨plan, hplan, _, _, price, _, reward, _, s1, h1, payAmt, _, _, _, s2, h2, granted, _, rfl⟩, rfl⟩ := h
  have hfr := (sendCoinFromAccountToModule_frame h1).trans (sendCoin_frame h2)
  have key := createAlloc_subIdx (s := s)
    (sub := { id := s.subCount.getD 0 + 1, addr := frm, inactiveAt := s.time + plan.dur, status := .StatusActive,
              statusAt := s.time, kind := .plan plan.id price.denom })
    (a := { id := s.subCount.getD 0 + 1, addr := frm, granted := granted, used := 0 }) hc.fresh hi (by simp [isHourly]) rfl rfl
  refine SubIdx.of_view ?_ key
  rw [hfr.eq]; rfl

/-! ### active → inactive-pending (`MsgCancel`, the expiry branch of EndBlock) -/

/-- Only session records, the session queue and events differ. -/
def SessFrame (s s' : State) : Prop :=
  s' = { s with sessions := s'.sessions, sessQ := s'.sessQ, events := s'.events }

theorem SessFrame.refl (s : State) : SessFrame s s := rfl

theorem SessFrame.trans {a b c : State} (h1 : SessFrame a b) (h2 : SessFrame b c) : SessFrame a c := by
  unfold SessFrame at *
  rw [h2, h1]

theorem sessionToPending_frame (s : State) (x : Session) : SessFrame s (sessionToPending s x) := rfl

theorem subscriptionInactivePendingHook_frame {s s' : State} {id : Nat}
    (h : subscriptionInactivePendingHook s id = .ok s') : SessFrame s s' := by
  unfold subscriptionInactivePendingHook at h
  refine foldlM_inv (SessFrame s) _ ?_ _ s s' h (SessFrame.refl s)
  intro s0 sid s1 h1 hp
  simp only [bind_eq_ok, pure_eq_ok, orPanic_eq_ok] at h1
  obtain ⟨x, _, rfl⟩ := h1
  split
  · exact hp.trans (sessionToPending_frame s0 x)
  · exact hp


/-! ### the same, over the view (small terms: twelve fields instead of the whole state) -/

structure SubIdxAtV (v : SubView) (i : Nat) : Prop where
  q : ∀ t, v.subQ.has (t, i) = true ↔ ∃ x, v.subs.get i = some x ∧ x.inactiveAt = t
  node : ∀ n, v.subForNode.has (n, i) = true ↔ ∃ x gb hr dep, v.subs.get i = some x ∧ x.kind = .node n gb hr dep
  plan : ∀ p, v.subForPlan.has (p, i) = true ↔ ∃ x d, v.subs.get i = some x ∧ x.kind = .plan p d
  acc : ∀ a, v.subForAcc.has (a, i) = true ↔ ∃ x, v.subs.get i = some x ∧ (x.addr = a ∨ v.allocs.has (i, a) = true)
  allocSub : ∀ a, v.allocs.has (i, a) = true → v.subs.has i = true
  ownerAlloc : ∀ x, v.subs.get i = some x → isHourly x = false → v.allocs.has (i, x.addr) = true
  hourlyNoAlloc : ∀ x a, v.subs.get i = some x → isHourly x = true → v.allocs.has (i, a) = false
  nodeSubAlloc : ∀ x a, v.subs.get i = some x → isPlanSub x = false → v.allocs.has (i, a) = true → a = x.addr
  payout : v.payouts.has i = true ↔ ∃ x, v.subs.get i = some x ∧ isHourly x = true
  payoutRec : ∀ p x, v.payouts.get i = some p → v.subs.get i = some x → x.hourlyOn p.addr p.node ∧ 0 ≤ p.hours
  payAcc : ∀ a, v.payForAcc.has (a, i) = true ↔ ∃ p, v.payouts.get i = some p ∧ p.addr = a
  payNode : ∀ n, v.payForNode.has (n, i) = true ↔ ∃ p, v.payouts.get i = some p ∧ p.node = n
  lease : ∀ a n, v.payForAccNode.has (a, n, i) = true ↔
            ∃ p x, v.payouts.get i = some p ∧ p.addr = a ∧ p.node = n ∧ v.subs.get i = some x ∧ x.status = .StatusActive
  payQ : ∀ t, v.payQ.has (t, i) = true ↔
            ∃ p x, v.payouts.get i = some p ∧ p.nextAt = t ∧ 0 < p.hours ∧ v.subs.get i = some x ∧ x.status = .StatusActive

def SubNodupV (v : SubView) : Prop :=
  Tbl.Nodup v.subs ∧ Tbl.Nodup v.subQ ∧ Tbl.Nodup v.subForAcc ∧ Tbl.Nodup v.subForNode ∧ Tbl.Nodup v.subForPlan ∧
  Tbl.Nodup v.allocs ∧ Tbl.Nodup v.payouts ∧ Tbl.Nodup v.payQ ∧ Tbl.Nodup v.payForAcc ∧ Tbl.Nodup v.payForNode ∧
  Tbl.Nodup v.payForAccNode

/-- `SubIdx` of any state with this view. -/
structure SubIdxV (v : SubView) : Prop where
  ids : ∀ i, SubIdxAtV v i
  nodup : SubNodupV v

theorem SubIdxAt.toV {s : State} {i : Nat} (h : SubIdxAt s i) : SubIdxAtV (subView s) i :=
  ⟨h.q, h.node, h.plan, h.acc, h.allocSub, h.ownerAlloc, h.hourlyNoAlloc, h.nodeSubAlloc, h.payout, h.payoutRec,
   h.payAcc, h.payNode, h.lease, h.payQ⟩

theorem SubIdxAtV.toS {s : State} {i : Nat} (h : SubIdxAtV (subView s) i) : SubIdxAt s i :=
  ⟨h.q, h.node, h.plan, h.acc, h.allocSub, h.ownerAlloc, h.hourlyNoAlloc, h.nodeSubAlloc, h.payout, h.payoutRec,
   h.payAcc, h.payNode, h.lease, h.payQ⟩

theorem SubIdx.toV {s : State} (h : SubIdx s) : SubIdxV (subView s) := ⟨fun i => (h.at i).toV, h.nodup⟩

theorem SubIdxV.toS {s : State} (h : SubIdxV (subView s)) : SubIdx s := SubIdx.of_at (fun i => (h.ids i).toS) h.nodup

theorem SubIdxV.of_eq {s : State} {v : SubView} (e : subView s = v) (h : SubIdxV v) : SubIdx s := by
  subst e; exact h.toS

structure AgreeAtV (i : Nat) (v v' : SubView) : Prop where
  subs : v'.subs.get i = v.subs.get i
  subQ : ∀ t, v'.subQ.has (t, i) = v.subQ.has (t, i)
  subForAcc : ∀ a, v'.subForAcc.has (a, i) = v.subForAcc.has (a, i)
  subForNode : ∀ a, v'.subForNode.has (a, i) = v.subForNode.has (a, i)
  subForPlan : ∀ p, v'.subForPlan.has (p, i) = v.subForPlan.has (p, i)
  allocs : ∀ a, v'.allocs.has (i, a) = v.allocs.has (i, a)
  payouts : v'.payouts.get i = v.payouts.get i
  payQ : ∀ t, v'.payQ.has (t, i) = v.payQ.has (t, i)
  payForAcc : ∀ a, v'.payForAcc.has (a, i) = v.payForAcc.has (a, i)
  payForNode : ∀ a, v'.payForNode.has (a, i) = v.payForNode.has (a, i)
  payForAccNode : ∀ a n, v'.payForAccNode.has (a, n, i) = v.payForAccNode.has (a, n, i)

theorem SubIdxAtV.congr {i : Nat} {v v' : SubView} (h : AgreeAtV i v v') (hi : SubIdxAtV v i) : SubIdxAtV v' i := by
  have h1 : v'.subs.has i = v.subs.has i := by unfold Tbl.has; rw [h.subs]
  have h2 : v'.payouts.has i = v.payouts.has i := by unfold Tbl.has; rw [h.payouts]
  obtain ⟨a1, a2, a3, a4, a5, a6, a7, a8, a9, a10, a11, a12, a13, a14⟩ := hi
  constructor <;>
    simp only [h.subs, h.subQ, h.subForAcc, h.subForNode, h.subForPlan, h.allocs, h.payouts, h.payQ, h.payForAcc,
      h.payForNode, h.payForAccNode, h1, h2] <;> assumption

theorem SubIdxV.local {v v' : SubView} (j : Nat) (hi : SubIdxV v) (hoff : ∀ i, i ≠ j → AgreeAtV i v v')
    (hat : SubIdxAtV v' j) (hn : SubNodupV v') : SubIdxV v' := by
  refine ⟨fun i => ?_, hn⟩
  by_cases e : i = j
  · subst e; exact hat
  · exact (hi.ids i).congr (hoff i e)


theorem pendingHourlyV {v : SubView} {sub sub' : Sub} {p p' : Payout} {j : Nat} {t' : Time} (hi : SubIdxV v)
    (hsub : v.subs.get j = some sub) (hst : sub.status = .StatusActive) (hp : v.payouts.get j = some p)
    (s1 : sub'.addr = sub.addr) (s2 : sub'.kind = sub.kind) (s3 : sub'.inactiveAt = t') (s4 : sub'.status = .StatusInactivePending)
    (p1 : p'.addr = p.addr) (p2 : p'.node = p.node) (p3 : p'.hours = p.hours) :
    SubIdxV { v with subs := v.subs.set j sub',
                     subQ := (v.subQ.erase (sub.inactiveAt, j)).set (t', j) (),
                     payForAccNode := v.payForAccNode.erase (p.addr, p.node, j),
                     payQ := v.payQ.erase (p.nextAt, j),
                     payouts := v.payouts.set j p' } := by
  refine SubIdxV.local j hi ?_ ?_ ?_
  · intro i hne
    constructor <;> intros <;> simp [Tbl.has_set_B, Tbl.has_erase_B, Tbl.get_set, Tbl.get_erase, hne, Ne.symm hne]
  · obtain ⟨a1, a2, a3, a4, a5, a6, a7, a8, a9, a10, a11, a12, a13, a14⟩ := hi.ids j
    have hsh : v.subs.has j = true := Tbl.has_of_get_B hsub
    have hph : v.payouts.has j = true := Tbl.has_of_get_B hp
    simp [hsub, hp, hsh, hph, hst] at a1 a2 a3 a4 a5 a6 a7 a8 a9 a10 a11 a12 a13 a14
    have k1 : isHourly sub' = isHourly sub := by unfold isHourly; rw [s2]
    have k2 : isPlanSub sub' = isPlanSub sub := by unfold isPlanSub; rw [s2]
    constructor <;> intros <;>
      simp_all [Tbl.has_set_B, Tbl.has_erase_B, Tbl.get_set, Tbl.get_erase, Sub.hourlyOn] <;> grind
  · obtain ⟨n1, n2, n3, n4, n5, n6, n7, n8, n9, n10, n11⟩ := hi.nodup
    nodup_tac

theorem pendingPlainV {v : SubView} {sub sub' : Sub} {j : Nat} {t' : Time} (hi : SubIdxV v)
    (hsub : v.subs.get j = some sub) (hh : isHourly sub = false)
    (s1 : sub'.addr = sub.addr) (s2 : sub'.kind = sub.kind) (s3 : sub'.inactiveAt = t') :
    SubIdxV { v with subs := v.subs.set j sub',
                     subQ := (v.subQ.erase (sub.inactiveAt, j)).set (t', j) () } := by
  refine SubIdxV.local j hi ?_ ?_ ?_
  · intro i hne
    constructor <;> intros <;> simp [Tbl.has_set_B, Tbl.has_erase_B, Tbl.get_set, Tbl.get_erase, hne, Ne.symm hne]
  · obtain ⟨a1, a2, a3, a4, a5, a6, a7, a8, a9, a10, a11, a12, a13, a14⟩ := hi.ids j
    have hsh : v.subs.has j = true := Tbl.has_of_get_B hsub
    simp [hsub, hsh, hh] at a1 a2 a3 a4 a5 a6 a7 a8 a9 a10 a11 a12 a13 a14
    have hpn : v.payouts.get j = none := Tbl.get_none_of_has a9
    simp [hpn] at a10 a11 a12 a13 a14
    have k1 : isHourly sub' = isHourly sub := by unfold isHourly; rw [s2]
    have k2 : isPlanSub sub' = isPlanSub sub := by unfold isPlanSub; rw [s2]
    constructor <;> intros <;>
      simp_all [Tbl.has_set_B, Tbl.has_erase_B, Tbl.get_set, Tbl.get_erase, Sub.hourlyOn] <;> grind
  · obtain ⟨n1, n2, n3, n4, n5, n6, n7, n8, n9, n10, n11⟩ := hi.nodup
    nodup_tac

/-- What the tail shared by `MsgCancel` and the expiry branch does to the thirteen tables. -/
theorem pendingDetach_view {s s1 s' : State} {sub : Sub} {delay : Dur} {b : Bool} (hk : Keyed s)
    (hf : SessFrame { s with subQ := s.subQ.erase (sub.inactiveAt, sub.id) } s1)
    (h : detachPayout (subToPending s1 sub delay).1 sub b = .ok s') :
    (isHourly sub = true ∧ ∃ p, s.payouts.get sub.id = some p ∧
      subView s' = { subView s with
        subs := s.subs.set sub.id { sub with inactiveAt := s.time + delay, status := .StatusInactivePending, statusAt := s.time },
        subQ := (s.subQ.erase (sub.inactiveAt, sub.id)).set (s.time + delay, sub.id) (),
        payForAccNode := s.payForAccNode.erase (p.addr, p.node, sub.id),
        payQ := s.payQ.erase (p.nextAt, sub.id),
        payouts := s.payouts.set sub.id { p with nextAt := zeroTime } }) ∨
    (isHourly sub = false ∧
      subView s' = { subView s with
        subs := s.subs.set sub.id { sub with inactiveAt := s.time + delay, status := .StatusInactivePending, statusAt := s.time },
        subQ := (s.subQ.erase (sub.inactiveAt, sub.id)).set (s.time + delay, sub.id) () }) := by
  unfold detachPayout at h
  split at h
  · rename_i hh
    simp only [bind_eq_ok, pure_eq_ok] at h
    obtain ⟨p, hp, rfl⟩ := h
    have hp' : s.payouts.get sub.id = some p := by
      cases b <;> simp only [orPanic_eq_ok, orReject_eq_ok, if_true, if_false, Bool.false_eq_true] at hp <;>
        (rw [hf] at hp; exact hp)
    have hpid : p.id = sub.id := hk.payouts _ _ hp'
    left
    refine ⟨hh, p, hp', ?_⟩
    rw [hf]; unfold detachPayoutRec; rw [hpid]; rfl
  · rename_i hh
    rw [pure_eq_ok] at h; subst h
    right
    refine ⟨by simpa using hh, ?_⟩
    rw [hf]; rfl

theorem pendingDetach_subIdx {s s1 s' : State} {sub : Sub} {delay : Dur} {b : Bool} (hk : Keyed s) (hi : SubIdx s)
    (hsub : s.subs.get sub.id = some sub) (hst : sub.status = .StatusActive)
    (hf : SessFrame { s with subQ := s.subQ.erase (sub.inactiveAt, sub.id) } s1)
    (h : detachPayout (subToPending s1 sub delay).1 sub b = .ok s') : SubIdx s' := by
  rcases pendingDetach_view hk hf h with ⟨_, p, hp, e⟩ | ⟨hh, e⟩
  · exact SubIdxV.of_eq e (pendingHourlyV (t' := s.time + delay) hi.toV hsub hst hp rfl rfl rfl rfl rfl rfl rfl)
  · exact SubIdxV.of_eq e (pendingPlainV (t' := s.time + delay) hi.toV hsub hh rfl rfl rfl)

theorem pendingDetach_keyed {s s1 s' : State} {sub : Sub} {delay : Dur} {b : Bool} (hk : Keyed s)
    (hf : SessFrame { s with subQ := s.subQ.erase (sub.inactiveAt, sub.id) } s1)
    (h : detachPayout (subToPending s1 sub delay).1 sub b = .ok s') : Keyed s' := by
  rcases pendingDetach_view hk hf h with ⟨_, p, hp, e⟩ | ⟨hh, e⟩
  · have hpid : p.id = sub.id := hk.payouts _ _ hp
    refine KeyedV.of_eq e ?_
    clear hf h e
    keyed_tac hk
  · refine KeyedV.of_eq e ?_
    clear hf h e
    keyed_tac hk

theorem subCancel_subIdx {s s' : State} {frm : Addr} {id : Nat} (h : subCancel s frm id = .ok s')
    (hc : CountInv s) (hi : SubIdx s) : SubIdx s' := by
  unfold subCancel at h
  simp only [bind_eq_ok, require_eq_ok, orReject_eq_ok] at h
  obtain ⟨sub, hsub, _, hst, _, _, s1, h1, h2⟩ := h
  have hid : sub.id = id := (hc.subs _ _ hsub).1
  subst hid
  exact pendingDetach_subIdx hc.keyed hi hsub (by simpa using hst) (subscriptionInactivePendingHook_frame h1) h2

/-! ### `MsgAllocate` -/

theorem allocateV {v : SubView} {sub : Sub} {j : Nat} {frm toA : Addr} {fa ta : Alloc} (hi : SubIdxV v)
    (hsub : v.subs.get j = some sub) (hpl : isPlanSub sub = true) (hfrm : frm = sub.addr) :
    SubIdxV { v with subForAcc := if (v.allocs.get (j, toA)).isNone then v.subForAcc.set (toA, j) () else v.subForAcc,
                     allocs := (v.allocs.set (j, frm) fa).set (j, toA) ta } := by
  have hh : isHourly sub = false := by
    unfold isPlanSub at hpl; unfold isHourly; split at hpl <;> simp_all
  refine SubIdxV.local j hi ?_ ?_ ?_
  · intro i hne
    constructor <;> intros <;> (try split) <;> simp [Tbl.has_set_B, Tbl.has_erase_B, Tbl.get_set, Tbl.get_erase, hne, Ne.symm hne]
  · obtain ⟨a1, a2, a3, a4, a5, a6, a7, a8, a9, a10, a11, a12, a13, a14⟩ := hi.ids j
    have hsh : v.subs.has j = true := Tbl.has_of_get_B hsub
    simp [hsub, hsh, hh, hpl] at a1 a2 a3 a4 a5 a6 a7 a8 a9 a10 a11 a12 a13 a14
    cases hto : v.allocs.get (j, toA) with
    | none =>
      have hto' : v.allocs.has (j, toA) = false := Tbl.has_false_of_get hto
      constructor <;> intros <;>
        simp_all [Tbl.has_set_B, Tbl.has_erase_B, Tbl.get_set, Tbl.get_erase, Sub.hourlyOn] <;> grind
    | some old =>
      have hto' : v.allocs.has (j, toA) = true := Tbl.has_of_get_B hto
      constructor <;> intros <;>
        simp_all [Tbl.has_set_B, Tbl.has_erase_B, Tbl.get_set, Tbl.get_erase, Sub.hourlyOn] <;> grind
  · obtain ⟨n1, n2, n3, n4, n5, n6, n7, n8, n9, n10, n11⟩ := hi.nodup
    refine ⟨?_, ?_, ?_, ?_, ?_, ?_, ?_, ?_, ?_, ?_, ?_⟩ <;> (try split) <;>
      (repeat' first | assumption | apply Tbl.nodup_set | apply Tbl.nodup_erase)

theorem subAllocate_subIdx {s s' : State} {frm toA : Addr} {id : Nat} {bytes : Int}
    (h : subAllocate s frm id toA bytes = .ok s') (hc : CountInv s) (hi : SubIdx s) : SubIdx s' := by
  unfold subAllocate at h
  simp only [bind_eq_ok, pure_eq_ok, require_eq_ok, orReject_eq_ok] at h
  obtain ⟨sub, hsub, _, hpl, _, hfrm, fa, hfa, _, hne, g, _, u, _, av, _, _, _, fg, _, _, _, _, _, rfl⟩ := h
  obtain ⟨hf1, hf2, _⟩ := hc.allocs _ _ _ hfa
  have hfrm' : frm = sub.addr := by simpa using hfrm
  cases hto : s.allocs.get (id, toA) with
  | none =>
    refine SubIdxV.of_eq ?_ (allocateV (j := id) (frm := frm) (toA := toA) (fa := { fa with granted := fg })
      (ta := { id := id, addr := toA, granted := bytes, used := 0 }) hi.toV hsub hpl hfrm')
    simp only [subView_emit, setAllocation, subView_allocs, hto, Option.getD_none, Option.isNone_none, if_true, hf1, hf2]
    rfl
  | some ta =>
    obtain ⟨ht1, ht2, _⟩ := hc.allocs _ _ _ hto
    refine SubIdxV.of_eq ?_ (allocateV (j := id) (frm := frm) (toA := toA) (fa := { fa with granted := fg })
      (ta := { ta with granted := bytes }) hi.toV hsub hpl hfrm')
    simp only [subView_emit, setAllocation, subView_allocs, hto, Option.getD_some, Option.isNone_some, if_false, hf1, hf2, ht1, ht2, Bool.false_eq_true]
    rfl

/-! ### the hourly payout step -/

theorem payoutAdvance_id_B (p : Payout) : (payoutAdvance p).id = p.id := by unfold payoutAdvance; simp only []; split <;> rfl
theorem payoutAdvance_addr (p : Payout) : (payoutAdvance p).addr = p.addr := by unfold payoutAdvance; simp only []; split <;> rfl
theorem payoutAdvance_node (p : Payout) : (payoutAdvance p).node = p.node := by unfold payoutAdvance; simp only []; split <;> rfl
theorem payoutAdvance_hours (p : Payout) : (payoutAdvance p).hours = p.hours - 1 := by
  unfold payoutAdvance; simp only []; split <;> rfl

theorem payoutStepV {v : SubView} {p p' : Payout} {j : Nat} (hi : SubIdxV v) (hp : v.payouts.get j = some p)
    (hq : v.payQ.has (p.nextAt, j) = true) (p1 : p'.addr = p.addr) (p2 : p'.node = p.node) (p3 : p'.hours = p.hours - 1) :
    SubIdxV { v with payQ := if p'.hours > 0 then (v.payQ.erase (p.nextAt, j)).set (p'.nextAt, j) () else v.payQ.erase (p.nextAt, j),
                     payouts := v.payouts.set j p' } := by
  refine SubIdxV.local j hi ?_ ?_ ?_
  · intro i hne
    constructor <;> intros <;> (try split) <;> simp [Tbl.has_set_B, Tbl.has_erase_B, Tbl.get_set, Tbl.get_erase, hne, Ne.symm hne]
  · obtain ⟨a1, a2, a3, a4, a5, a6, a7, a8, a9, a10, a11, a12, a13, a14⟩ := hi.ids j
    have hph : v.payouts.has j = true := Tbl.has_of_get_B hp
    obtain ⟨p0, x, hp0, _, hh, hx, hxs⟩ := (a14 p.nextAt).mp hq
    rw [hp] at hp0; simp only [Option.some.injEq] at hp0; subst hp0
    have hsh : v.subs.has j = true := Tbl.has_of_get_B hx
    simp [hp, hph, hx, hsh, hxs] at a1 a2 a3 a4 a5 a6 a7 a8 a9 a10 a11 a12 a13 a14
    by_cases hpos : p'.hours > 0
    · simp only [hpos, if_true]
      constructor <;> intros <;>
        simp_all [Tbl.has_set_B, Tbl.has_erase_B, Tbl.get_set, Tbl.get_erase, Sub.hourlyOn] <;> (try omega) <;> grind
    · simp only [hpos, if_false]
      constructor <;> intros <;>
        simp_all [Tbl.has_set_B, Tbl.has_erase_B, Tbl.get_set, Tbl.get_erase, Sub.hourlyOn] <;> (try omega) <;> grind
  · obtain ⟨n1, n2, n3, n4, n5, n6, n7, n8, n9, n10, n11⟩ := hi.nodup
    refine ⟨?_, ?_, ?_, ?_, ?_, ?_, ?_, ?_, ?_, ?_, ?_⟩ <;> (try split) <;>
      (repeat' first | assumption | apply Tbl.nodup_set | apply Tbl.nodup_erase)

/-- What `payoutStep` does to the thirteen tables. -/
theorem payoutStep_view {s s' : State} {k : Time × Nat} (h : payoutStep s k = .ok s') :
    ∃ item, s.payouts.get k.2 = some item ∧
      subView s' = { subView s with
        payQ := if (payoutAdvance item).hours > 0 then (s.payQ.erase (item.nextAt, item.id)).set ((payoutAdvance item).nextAt, item.id) ()
                else s.payQ.erase (item.nextAt, item.id),
        payouts := s.payouts.set item.id (payoutAdvance item) } := by
  unfold payoutStep at h
  simp only [bind_eq_ok, pure_eq_ok, requireP_eq_ok, orPanic_eq_ok] at h
  obtain ⟨item, hitem, reward, _, s2, h2, payAmt, _, _, _, s3, h3, rfl⟩ := h
  have hfr := (sendCoinFromDepositToModule_frame h2).trans (sendCoinFromDepositToAccount_frame h3)
  refine ⟨item, hitem, ?_⟩
  rw [hfr.eq]
  simp only [payoutAdvance_id_B]
  split <;> rfl

theorem payoutStep_keyed {s s' : State} {k : Time × Nat} (h : payoutStep s k = .ok s') (hk : Keyed s) : Keyed s' := by
  obtain ⟨item, hitem, hv⟩ := payoutStep_view h
  have hid : item.id = k.2 := hk.payouts _ _ hitem
  have hid' := payoutAdvance_id_B item
  refine KeyedV.of_eq hv ?_
  keyed_tac hk

theorem payoutStep_subIdx {s s' : State} {k : Time × Nat} (h : payoutStep s k = .ok s') (hq : s.payQ.has k = true)
    (hk : Keyed s) (hi : SubIdx s) : SubIdx s' := by
  obtain ⟨item, hitem, hv⟩ := payoutStep_view h
  have hid : item.id = k.2 := hk.payouts _ _ hitem
  obtain ⟨p0, x, hp0, hn, _⟩ := (hi.payQ k.1 k.2).mp hq
  rw [hitem] at hp0; simp only [Option.some.injEq] at hp0; subst hp0
  have hq' : s.payQ.has (item.nextAt, k.2) = true := by rw [hn]; exact hq
  refine SubIdxV.of_eq (hv.trans ?_) (payoutStepV (j := k.2) (p' := payoutAdvance item) hi.toV hitem hq'
    (payoutAdvance_addr _) (payoutAdvance_node _) (payoutAdvance_hours _))
  rw [hid]; rfl

/-! ### settlement of a session: only `used` of one existing allocation changes -/

theorem settleSession_frame {s s' : State} {x : Session} {acc node : Addr} {dep : Coin} {gb b a : Int}
    (h : settleSession s x acc node dep gb b a = .ok s') : MoneyFrame s s' := by
  unfold settleSession at h
  simp only [bind_eq_ok, pure_eq_ok, requireP_eq_ok] at h
  obtain ⟨price, _, prev, _, cur, _, payAmt, _, payment, _, reward, _, s1, h1, netAmt, _, _, _, s2, h2, rfl⟩ := h
  exact ((sendCoinFromDepositToModule_frame h1).trans (sendCoinFromDepositToAccount_frame h2)).trans (MoneyFrame.emit _)

/-- What an accepted `SessionInactiveHook` did. -/
theorem sessionInactiveHook_eff {s s' : State} {id : Nat} {acc node : Addr} {bytes : Int}
    (h : sessionInactiveHook s id acc node bytes = .ok s') :
    ∃ x sub, s.sessions.get id = some x ∧ x.status = .StatusInactivePending ∧ s.subs.get x.sub = some sub ∧
      ((isHourly sub = true ∧ s' = s) ∨
       (isHourly sub = false ∧ ∃ a, s.allocs.get (sub.id, acc) = some a ∧
          MoneyFrame (setAllocation s (allocAfterUse a (a.used + bytes))) s')) := by
  unfold sessionInactiveHook at h
  simp only [bind_eq_ok, require_eq_ok, orReject_eq_ok] at h
  obtain ⟨x, hx, _, hst, sub, hsub, h⟩ := h
  refine ⟨x, sub, hx, by simpa using hst, hsub, ?_⟩
  split at h
  · rename_i hh
    rw [pure_eq_ok] at h; left; exact ⟨hh, h.symm⟩
  · rename_i hh
    simp only [bind_eq_ok, orReject_eq_ok] at h
    obtain ⟨a, ha, used, hu, h⟩ := h
    have hu' := SInt.add_eq_ok hu
    subst hu'
    right
    refine ⟨by simpa using hh, a, ha, ?_⟩
    split at h
    · exact (MoneyFrame.emit _).trans (settleSession_frame h)
    · rw [pure_eq_ok] at h; rw [← h]; exact MoneyFrame.emit _

theorem SubIdxV.of_agree {v v' : SubView} (hi : SubIdxV v) (hag : ∀ i, AgreeAtV i v v') (hn : SubNodupV v') : SubIdxV v' :=
  ⟨fun i => (hi.ids i).congr (hag i), hn⟩

/-- Overwriting an existing allocation changes no membership. -/
theorem setAllocV {v : SubView} {k : Nat × Addr} {a a' : Alloc} (hi : SubIdxV v) (hk : v.allocs.get k = some a) :
    SubIdxV { v with allocs := v.allocs.set k a' } := by
  refine hi.of_agree (fun i => ?_) ?_
  · have hh : v.allocs.has k = true := Tbl.has_of_get_B hk
    constructor <;> intros <;> simp [Tbl.has_set_B]
    rename_i b
    intro e; rw [← e]; exact hh
  · obtain ⟨n1, n2, n3, n4, n5, n6, n7, n8, n9, n10, n11⟩ := hi.nodup
    nodup_tac

/-- Allocations are stored under their own (id, address) — a part of `CountInv`. -/
def AllocKeyed (s : State) : Prop := ∀ i a al, s.allocs.get (i, a) = some al → al.id = i ∧ al.addr = a

theorem CountInv.allocKeyed {s : State} (hc : CountInv s) : AllocKeyed s :=
  fun i a al h => ⟨(hc.allocs i a al h).1, (hc.allocs i a al h).2.1⟩

theorem sessionInactiveHook_subIdx {s s' : State} {id : Nat} {acc node : Addr} {bytes : Int}
    (h : sessionInactiveHook s id acc node bytes = .ok s') (hc : AllocKeyed s) (hi : SubIdx s) : SubIdx s' := by
  obtain ⟨x, sub, _, _, _, h | ⟨_, a, ha, hfr⟩⟩ := sessionInactiveHook_eff h
  · rw [h.2]; exact hi
  · obtain ⟨h1, h2⟩ := hc _ _ _ ha
    refine SubIdxV.of_eq ?_ (setAllocV (k := (sub.id, acc)) (a' := allocAfterUse a (a.used + bytes)) hi.toV ha)
    rw [subView_of_moneyFrame hfr]
    unfold setAllocation allocAfterUse
    simp only [h1, h2]
    rfl

/-- What `sessionStep` does. -/
theorem sessionStep_eff {s s' : State} {k : Time × Nat} (h : sessionStep s k = .ok s') :
    ∃ item, s.sessions.get k.2 = some item ∧
      ((item.status = .StatusActive ∧ s' = sessionToPending s item) ∨
       (item.status ≠ .StatusActive ∧ ∃ s2,
          sessionInactiveHook { s with sessQ := s.sessQ.erase (item.inactiveAt, item.id) } item.id item.addr item.node
            (item.up + item.down) = .ok s2 ∧ s' = removeSession s2 item)) := by
  unfold sessionStep at h
  simp only [bind_eq_ok, orPanic_eq_ok] at h
  obtain ⟨item, hitem, h⟩ := h
  refine ⟨item, hitem, ?_⟩
  split at h
  · rename_i hs
    rw [pure_eq_ok] at h; left; exact ⟨hs, h.symm⟩
  · rename_i hs
    simp only [bind_eq_ok, pure_eq_ok, panicIfErr_eq_ok] at h
    obtain ⟨bytes, hb, s2, h2, rfl⟩ := h
    have hb' : bytes = item.up + item.down := SInt.add_eq_ok hb
    subst hb'
    right; exact ⟨hs, s2, h2, rfl⟩

theorem sessionStep_subIdx {s s' : State} {k : Time × Nat} (h : sessionStep s k = .ok s') (hc : AllocKeyed s)
    (hi : SubIdx s) : SubIdx s' := by
  obtain ⟨item, _, ⟨_, rfl⟩ | ⟨_, s2, h2, rfl⟩⟩ := sessionStep_eff h
  · exact SubIdx.of_view (s := s) rfl hi
  · have i2 : SubIdx s2 := sessionInactiveHook_subIdx h2 (fun i a al hg => hc i a al hg) (SubIdx.of_view (s := s) rfl hi)
    exact SubIdx.of_view (s := s2) rfl i2

/-! ### removal of an expired subscription -/

structure FreshV (v : SubView) (j : Nat) : Prop where
  subs : v.subs.get j = none
  subQ : ∀ t, v.subQ.has (t, j) = false
  subForAcc : ∀ a, v.subForAcc.has (a, j) = false
  subForNode : ∀ a, v.subForNode.has (a, j) = false
  subForPlan : ∀ p, v.subForPlan.has (p, j) = false
  allocs : ∀ a, v.allocs.has (j, a) = false
  payouts : v.payouts.get j = none
  payQ : ∀ t, v.payQ.has (t, j) = false
  payForAcc : ∀ a, v.payForAcc.has (a, j) = false
  payForNode : ∀ a, v.payForNode.has (a, j) = false
  payForAccNode : ∀ a n, v.payForAccNode.has (a, n, j) = false

theorem SubIdxAtV.of_fresh {v : SubView} {j : Nat} (h : FreshV v j) : SubIdxAtV v j := by
  obtain ⟨f1, f2, f3, f4, f5, f6, f7, f8, f9, f10, f11⟩ := h
  have g1 : v.subs.has j = false := Tbl.has_false_of_get f1
  have g2 : v.payouts.has j = false := Tbl.has_false_of_get f7
  constructor <;> intros <;> simp_all

theorem mem_allocAddrsForSub (s : State) (id : Nat) (a : Addr) : a ∈ allocAddrsForSub s id ↔ s.allocs.has (id, a) = true := by
  unfold allocAddrsForSub
  rw [Tbl.has_iff_mem_keys]
  simp only [List.mem_map, mem_sortKeys, List.mem_filter, decide_eq_true_eq]
  constructor
  · rintro ⟨⟨k1, k2⟩, ⟨hk, rfl⟩, rfl⟩; exact hk
  · intro h; exact ⟨(id, a), ⟨h, rfl⟩, rfl⟩

theorem removeAllocs_frame (l : List Addr) (s : State) (id : Nat) :
    removeAllocs s id l = { s with allocs := (removeAllocs s id l).allocs, subForAcc := (removeAllocs s id l).subForAcc } := by
  unfold removeAllocs
  induction l generalizing s with
  | nil => rfl
  | cons a rest ih => rw [List.foldl_cons, ih]

theorem removeAllocs_allocs (l : List Addr) (s : State) (id : Nat) (k : Nat × Addr) :
    (removeAllocs s id l).allocs.get k = if k.1 = id ∧ k.2 ∈ l then none else s.allocs.get k := by
  unfold removeAllocs
  induction l generalizing s with
  | nil => simp
  | cons a rest ih =>
    rw [List.foldl_cons, ih]
    simp only [Tbl.get_erase, List.mem_cons]
    obtain ⟨k1, k2⟩ := k
    by_cases h1 : k1 = id <;> by_cases h2 : k2 ∈ rest <;> by_cases h3 : k2 = a <;> simp_all <;> grind

theorem removeAllocs_subForAcc (l : List Addr) (s : State) (id : Nat) (k : Addr × Nat) :
    (removeAllocs s id l).subForAcc.has k = (!decide (k.2 = id ∧ k.1 ∈ l) && s.subForAcc.has k) := by
  unfold removeAllocs
  induction l generalizing s with
  | nil => simp
  | cons a rest ih =>
    rw [List.foldl_cons, ih]
    simp only [Tbl.has_erase_B, List.mem_cons]
    obtain ⟨k1, k2⟩ := k
    by_cases h1 : k2 = id <;> by_cases h2 : k1 ∈ rest <;> by_cases h3 : k1 = a <;> simp_all <;> grind

theorem removeAllocs_nodup (l : List Addr) (s : State) (id : Nat) (h1 : Tbl.Nodup s.allocs) (h2 : Tbl.Nodup s.subForAcc) :
    Tbl.Nodup (removeAllocs s id l).allocs ∧ Tbl.Nodup (removeAllocs s id l).subForAcc := by
  unfold removeAllocs
  induction l generalizing s with
  | nil => exact ⟨h1, h2⟩
  | cons a rest ih =>
    rw [List.foldl_cons]
    exact ih _ (Tbl.nodup_erase h1 _) (Tbl.nodup_erase h2 _)

theorem removeNodePlainV {v : SubView} {item : Sub} {j : Nat} {n : Addr} {gb hr : Int} {dep : Coin} (hi : SubIdxV v)
    (hsub : v.subs.get j = some item) (hk : item.kind = .node n gb hr dep) (hr0 : hr = 0) :
    SubIdxV { v with subQ := v.subQ.erase (item.inactiveAt, j), subForNode := v.subForNode.erase (n, j),
                     allocs := v.allocs.erase (j, item.addr), subForAcc := v.subForAcc.erase (item.addr, j),
                     subs := v.subs.erase j } := by
  refine SubIdxV.local j hi ?_ (SubIdxAtV.of_fresh ?_) ?_
  · intro i hne
    constructor <;> intros <;> simp [Tbl.has_set_B, Tbl.has_erase_B, Tbl.get_set, Tbl.get_erase, hne, Ne.symm hne]
  · obtain ⟨a1, a2, a3, a4, a5, a6, a7, a8, a9, a10, a11, a12, a13, a14⟩ := hi.ids j
    have hsh : v.subs.has j = true := Tbl.has_of_get_B hsub
    have hh : isHourly item = false := by simp [isHourly, hk, hr0]
    have hpl : isPlanSub item = false := by simp [isPlanSub, hk]
    simp [hsub, hsh, hh, hk, hpl] at a1 a2 a3 a4 a5 a6 a7 a8 a9 a10 a11 a12 a13 a14
    have hpn : v.payouts.get j = none := Tbl.get_none_of_has a9
    simp [hpn] at a10 a11 a12 a13 a14
    constructor <;> intros <;>
      simp_all [Tbl.has_set_B, Tbl.has_erase_B, Tbl.get_set, Tbl.get_erase] <;> grind
  · obtain ⟨n1, n2, n3, n4, n5, n6, n7, n8, n9, n10, n11⟩ := hi.nodup
    nodup_tac

theorem removeNodeHourlyV {v : SubView} {item : Sub} {p : Payout} {j : Nat} {n : Addr} {gb hr : Int} {dep : Coin} (hi : SubIdxV v)
    (hsub : v.subs.get j = some item) (hk : item.kind = .node n gb hr dep) (hr0 : hr ≠ 0) (hst : item.status ≠ .StatusActive)
    (hp : v.payouts.get j = some p) :
    SubIdxV { v with subQ := v.subQ.erase (item.inactiveAt, j), subForNode := v.subForNode.erase (n, j),
                     allocs := v.allocs.erase (j, item.addr), subForAcc := v.subForAcc.erase (item.addr, j),
                     subs := v.subs.erase j, payouts := v.payouts.erase j, payForAcc := v.payForAcc.erase (p.addr, j),
                     payForNode := v.payForNode.erase (p.node, j) } := by
  refine SubIdxV.local j hi ?_ (SubIdxAtV.of_fresh ?_) ?_
  · intro i hne
    constructor <;> intros <;> simp [Tbl.has_set_B, Tbl.has_erase_B, Tbl.get_set, Tbl.get_erase, hne, Ne.symm hne]
  · obtain ⟨a1, a2, a3, a4, a5, a6, a7, a8, a9, a10, a11, a12, a13, a14⟩ := hi.ids j
    have hsh : v.subs.has j = true := Tbl.has_of_get_B hsub
    have hph : v.payouts.has j = true := Tbl.has_of_get_B hp
    have hh : isHourly item = true := by simp [isHourly, hk, hr0]
    have hpl : isPlanSub item = false := by simp [isPlanSub, hk]
    simp [hsub, hsh, hh, hk, hpl, hp, hph, hst] at a1 a2 a3 a4 a5 a6 a7 a8 a9 a10 a11 a12 a13 a14
    constructor <;> intros <;>
      simp_all [Tbl.has_set_B, Tbl.has_erase_B, Tbl.get_set, Tbl.get_erase] <;> grind
  · obtain ⟨n1, n2, n3, n4, n5, n6, n7, n8, n9, n10, n11⟩ := hi.nodup
    nodup_tac

theorem removePlanV {v : SubView} {item : Sub} {j pid : Nat} {d : Denom} {A : Tbl (Nat × Addr) Alloc} {B : Tbl (Addr × Nat) Unit}
    (hi : SubIdxV v) (hsub : v.subs.get j = some item) (hk : item.kind = .plan pid d)
    (hA : ∀ k, A.has k = (!decide (k.1 = j) && v.allocs.has k))
    (hB : ∀ k, B.has k = (!decide (k.2 = j) && v.subForAcc.has k))
    (nA : Tbl.Nodup A) (nB : Tbl.Nodup B) :
    SubIdxV { v with subQ := v.subQ.erase (item.inactiveAt, j), subForPlan := v.subForPlan.erase (pid, j),
                     allocs := A, subForAcc := B, subs := v.subs.erase j } := by
  refine SubIdxV.local j hi ?_ (SubIdxAtV.of_fresh ?_) ?_
  · intro i hne
    constructor <;> intros <;> simp [Tbl.has_set_B, Tbl.has_erase_B, Tbl.get_set, Tbl.get_erase, hne, Ne.symm hne, hA, hB]
  · obtain ⟨a1, a2, a3, a4, a5, a6, a7, a8, a9, a10, a11, a12, a13, a14⟩ := hi.ids j
    have hsh : v.subs.has j = true := Tbl.has_of_get_B hsub
    have hh : isHourly item = false := by simp [isHourly, hk]
    have hpl : isPlanSub item = true := by simp [isPlanSub, hk]
    simp [hsub, hsh, hh, hk, hpl] at a1 a2 a3 a4 a5 a6 a7 a8 a9 a10 a11 a12 a13 a14
    have hpn : v.payouts.get j = none := Tbl.get_none_of_has a9
    simp [hpn] at a10 a11 a12 a13 a14
    constructor <;> intros <;>
      simp_all [Tbl.has_set_B, Tbl.has_erase_B, Tbl.get_set, Tbl.get_erase] <;> grind
  · obtain ⟨n1, n2, n3, n4, n5, n6, n7, n8, n9, n10, n11⟩ := hi.nodup
    nodup_tac

theorem refundSub_frame {s s' : State} {item : Sub} (h : refundSub s item = .ok s') : MoneyFrame s s' := by
  unfold refundSub at h
  split at h
  · simp only [bind_eq_ok] at h
    obtain ⟨s1, h1, h2⟩ := h
    have f1 : MoneyFrame s s1 := by
      split at h1
      · unfold refundGB at h1
        simp only [bind_eq_ok, pure_eq_ok, orPanic_eq_ok, panicIfErr_eq_ok] at h1
        obtain ⟨price, _, a, _, paid, _, ra, _, refund, _, s2, h2', rfl⟩ := h1
        exact (subtractDeposit_frame h2').trans (MoneyFrame.emit _)
      · rw [pure_eq_ok] at h1; rw [← h1]; exact MoneyFrame.refl s
    split at h2
    · unfold refundHr at h2
      simp only [bind_eq_ok, pure_eq_ok, orPanic_eq_ok, panicIfErr_eq_ok] at h2
      obtain ⟨p, _, ra, _, refund, _, s2, h2', rfl⟩ := h2
      exact f1.trans ((subtractDeposit_frame h2').trans (MoneyFrame.emit _))
    · rw [pure_eq_ok] at h2; rw [← h2]; exact f1
  · rw [pure_eq_ok] at h; rw [← h]; exact MoneyFrame.refl s

/-- What the removal branch of the subscription EndBlock does to the thirteen tables. -/
theorem removal_view {s s2 s' : State} {item : Sub} (hk : Keyed s) (hi : SubIdx s)
    (hsub : s.subs.get item.id = some item)
    (hfr : MoneyFrame { s with subQ := s.subQ.erase (item.inactiveAt, item.id) } s2)
    (h : removePayout (removeSubRecords s2 item) item = .ok s') :
    (∃ n gb hr dep, item.kind = .node n gb hr dep ∧ hr = 0 ∧
      subView s' = { subView s with
        subQ := s.subQ.erase (item.inactiveAt, item.id), subForNode := s.subForNode.erase (n, item.id),
        allocs := s.allocs.erase (item.id, item.addr), subForAcc := s.subForAcc.erase (item.addr, item.id),
        subs := s.subs.erase item.id }) ∨
    (∃ n gb hr dep p, item.kind = .node n gb hr dep ∧ hr ≠ 0 ∧ s.payouts.get item.id = some p ∧
      subView s' = { subView s with
        subQ := s.subQ.erase (item.inactiveAt, item.id), subForNode := s.subForNode.erase (n, item.id),
        allocs := s.allocs.erase (item.id, item.addr), subForAcc := s.subForAcc.erase (item.addr, item.id),
        subs := s.subs.erase item.id, payouts := s.payouts.erase item.id, payForAcc := s.payForAcc.erase (p.addr, item.id),
        payForNode := s.payForNode.erase (p.node, item.id) }) ∨
    (∃ pid d A B, item.kind = .plan pid d ∧
      (∀ k, A.get k = if k.1 = item.id then none else s.allocs.get k) ∧
      (∀ k, B.has k = (!decide (k.2 = item.id) && s.subForAcc.has k)) ∧ Tbl.Nodup A ∧ Tbl.Nodup B ∧
      subView s' = { subView s with
        subQ := s.subQ.erase (item.inactiveAt, item.id), subForPlan := s.subForPlan.erase (pid, item.id),
        allocs := A, subForAcc := B, subs := s.subs.erase item.id }) := by
  unfold removePayout at h
  cases hkd : item.kind with
  | node n gb hr dep =>
    by_cases hr0 : hr = 0
    · have hh : isHourly item = false := by simp [isHourly, hkd, hr0]
      simp only [hh, Bool.false_eq_true, if_false, pure_eq_ok] at h
      subst h
      left
      refine ⟨n, gb, hr, dep, rfl, hr0, ?_⟩
      rw [hfr.eq]; unfold removeSubRecords; simp only [hkd]; rfl
    · have hh : isHourly item = true := by simp [isHourly, hkd, hr0]
      simp only [hh, if_true, bind_eq_ok, pure_eq_ok, orPanic_eq_ok] at h
      obtain ⟨p, hp, rfl⟩ := h
      have hp' : s.payouts.get item.id = some p := by
        rw [hfr.eq] at hp; unfold removeSubRecords at hp; simp only [hkd] at hp; exact hp
      have hpid : p.id = item.id := hk.payouts _ _ hp'
      right; left
      refine ⟨n, gb, hr, dep, p, rfl, hr0, hp', ?_⟩
      rw [hfr.eq, hpid]; unfold removeSubRecords; simp only [hkd]; rfl
  | plan pid d =>
    have hh : isHourly item = false := by simp [isHourly, hkd]
    simp only [hh, Bool.false_eq_true, if_false, pure_eq_ok] at h
    subst h
    have key : ∀ S : State, S.allocs = s.allocs → S.subForAcc = s.subForAcc →
        (∀ k, (removeAllocs S item.id (allocAddrsForSub S item.id)).allocs.get k = if k.1 = item.id then none else s.allocs.get k) ∧
        (∀ k, (removeAllocs S item.id (allocAddrsForSub S item.id)).subForAcc.has k = (!decide (k.2 = item.id) && s.subForAcc.has k)) ∧
        Tbl.Nodup (removeAllocs S item.id (allocAddrsForSub S item.id)).allocs ∧
        Tbl.Nodup (removeAllocs S item.id (allocAddrsForSub S item.id)).subForAcc := by
      intro S eA eB
      refine ⟨?_, ?_, ?_⟩
      · rintro ⟨k1, k2⟩
        have hm := mem_allocAddrsForSub S item.id k2
        rw [eA] at hm
        rw [removeAllocs_allocs, eA]
        by_cases h1 : k1 = item.id
        · subst h1
          by_cases h2 : k2 ∈ allocAddrsForSub S item.id
          · simp [h2]
          · have := mt hm.mpr h2
            simp only [h2, and_false, if_false, if_true]
            exact Tbl.get_none_of_has (by simpa using this)
        · simp [h1]
      · rintro ⟨k1, k2⟩
        rw [removeAllocs_subForAcc, eB]
        by_cases h1 : k2 = item.id
        · subst h1
          by_cases h2 : s.subForAcc.has (k1, item.id) = true
          · have hm := (mem_allocAddrsForSub S item.id k1).mpr (by
              rw [eA]
              obtain ⟨x, hx, hor⟩ := (hi.acc k1 item.id).mp h2
              rw [hsub] at hx; simp only [Option.some.injEq] at hx; subst hx
              rcases hor with e | e
              · rw [← e]; exact hi.ownerAlloc _ _ hsub hh
              · exact e)
            simp [hm]
          · simp [h2]
        · simp [h1]
      · exact removeAllocs_nodup _ _ _ (by rw [eA]; exact hi.nodup.2.2.2.2.2.1) (by rw [eB]; exact hi.nodup.2.2.1)
    obtain ⟨hA, hB, nA, nB⟩ := key { s2 with subForPlan := s2.subForPlan.erase (pid, item.id) }
      (by rw [hfr.eq]) (by rw [hfr.eq])
    right; right
    refine ⟨pid, d, _, _, rfl, hA, hB, nA, nB, ?_⟩
    unfold removeSubRecords; simp only [hkd]
    rw [removeAllocs_frame, hfr.eq]
    rfl

theorem removal_subIdx {s s2 s' : State} {item : Sub} (hk : Keyed s) (hi : SubIdx s)
    (hsub : s.subs.get item.id = some item) (hst : item.status ≠ .StatusActive)
    (hfr : MoneyFrame { s with subQ := s.subQ.erase (item.inactiveAt, item.id) } s2)
    (h : removePayout (removeSubRecords s2 item) item = .ok s') : SubIdx s' := by
  rcases removal_view hk hi hsub hfr h with ⟨n, gb, hr, dep, hkd, hr0, e⟩ | ⟨n, gb, hr, dep, p, hkd, hr0, hp, e⟩ |
      ⟨pid, d, A, B, hkd, hA, hB, nA, nB, e⟩
  · exact SubIdxV.of_eq e (removeNodePlainV (j := item.id) hi.toV hsub hkd hr0)
  · exact SubIdxV.of_eq e (removeNodeHourlyV (j := item.id) hi.toV hsub hkd hr0 hst hp)
  · refine SubIdxV.of_eq e (removePlanV (j := item.id) hi.toV hsub hkd ?_ hB nA nB)
    intro k
    unfold Tbl.has; rw [hA]
    by_cases h1 : k.1 = item.id <;> simp [h1]

theorem removal_keyed {s s2 s' : State} {item : Sub} (hk : Keyed s) (hi : SubIdx s)
    (hsub : s.subs.get item.id = some item)
    (hfr : MoneyFrame { s with subQ := s.subQ.erase (item.inactiveAt, item.id) } s2)
    (h : removePayout (removeSubRecords s2 item) item = .ok s') : Keyed s' := by
  rcases removal_view hk hi hsub hfr h with ⟨n, gb, hr, dep, hkd, hr0, e⟩ | ⟨n, gb, hr, dep, p, hkd, hr0, hp, e⟩ |
      ⟨pid, d, A, B, hkd, hA, hB, nA, nB, e⟩
  · refine KeyedV.of_eq e ?_
    clear hfr h e
    keyed_tac hk
  · refine KeyedV.of_eq e ?_
    clear hfr h e
    keyed_tac hk
  · refine KeyedV.of_eq e ?_
    clear hfr h e
    refine KeyedV.of_get hk ?_ ?_ ?_ <;> intros <;> rename_i hget
    · simp only [Tbl.get_erase] at hget; split_ifs at hget; left; exact hget
    · simp only [] at hget; rw [hA] at hget; split_ifs at hget; left; exact hget
    · left; exact hget

theorem subscriptionStep_subIdx {s s' : State} {d : Dur} {k : Time × Nat} (h : subscriptionStep d s k = .ok s')
    (hk : Keyed s) (hi : SubIdx s) : SubIdx s' ∧ Keyed s' := by
  unfold subscriptionStep at h
  simp only [bind_eq_ok, orPanic_eq_ok] at h
  obtain ⟨item, hitem, h⟩ := h
  have hid : item.id = k.2 := hk.subs _ _ hitem
  rw [← hid] at hitem
  split at h
  · rename_i hs
    simp only [bind_eq_ok, panicIfErr_eq_ok] at h
    obtain ⟨s2, h2, h3⟩ := h
    exact ⟨pendingDetach_subIdx hk hi hitem hs (subscriptionInactivePendingHook_frame h2) h3,
      pendingDetach_keyed hk (subscriptionInactivePendingHook_frame h2) h3⟩
  · rename_i hs
    simp only [bind_eq_ok] at h
    obtain ⟨s2, h2, h3⟩ := h
    exact ⟨removal_subIdx hk hi hitem hs (refundSub_frame h2) h3, removal_keyed hk hi hitem (refundSub_frame h2) h3⟩

/-! ### handlers and hook pieces that leave the thirteen tables alone -/

theorem setProvider_subView {s s' : State} {p : Provider} (h : setProvider s p = .ok s') : subView s' = subView s := by
  unfold setProvider at h
  split at h <;> simp only [pure_eq_ok, gopanic_ne_ok] at h <;> (try subst h) <;> first | rfl | contradiction

theorem setNode_subView {s s' : State} {n : Node} (h : setNode s n = .ok s') : subView s' = subView s := by
  unfold setNode at h
  split at h <;> simp only [pure_eq_ok, gopanic_ne_ok] at h <;> (try subst h) <;> first | rfl | contradiction

theorem setPlan_subView {s s' : State} {p : Plan} (h : setPlan s p = .ok s') : subView s' = subView s := by
  unfold setPlan at h
  split at h <;> simp only [pure_eq_ok, gopanic_ne_ok] at h <;> (try subst h) <;> first | rfl | contradiction

theorem provRegister_subView {s s' : State} {frm : Addr} {n i w d : Bytes} (h : provRegister s frm n i w d = .ok s') :
    subView s' = subView s := by
  unfold provRegister at h
  simp only [bind_eq_ok, pure_eq_ok, require_eq_ok] at h
  obtain ⟨_, _, s1, h1, s2, h2, rfl⟩ := h
  rw [subView_emit, setProvider_subView h2, subView_of_moneyFrame (fundCommunityPool_frame h1)]

theorem provUpdate_subView {s s' : State} {frm : Addr} {n i w d : Bytes} {st : Status} (h : provUpdate s frm n i w d st = .ok s') :
    subView s' = subView s := by
  unfold provUpdate at h
  simp only [bind_eq_ok, pure_eq_ok, orReject_eq_ok] at h
  obtain ⟨p, _, s3, h3, rfl⟩ := h
  rw [subView_emit, setProvider_subView h3]
  split <;> split <;> rfl

theorem nodeRegister_subView {s s' : State} {frm : Addr} {gb hr : Coins} {url : Bytes} (h : nodeRegister s frm gb hr url = .ok s') :
    subView s' = subView s := by
  unfold nodeRegister at h
  simp only [bind_eq_ok, pure_eq_ok, require_eq_ok] at h
  obtain ⟨_, _, _, _, _, _, s1, h1, s2, h2, rfl⟩ := h
  rw [subView_emit, setNode_subView h2, subView_of_moneyFrame (fundCommunityPool_frame h1)]

theorem nodeUpdate_subView {s s' : State} {frm : Addr} {gb hr : Option Coins} {url : Bytes} (h : nodeUpdate s frm gb hr url = .ok s') :
    subView s' = subView s := by
  unfold nodeUpdate at h
  simp only [bind_eq_ok, pure_eq_ok, require_eq_ok, orReject_eq_ok] at h
  obtain ⟨_, _, _, _, n, _, s1, h1, rfl⟩ := h
  rw [subView_emit, setNode_subView h1]

theorem nodeStatus_subView {s s' : State} {frm : Addr} {st : Status} (h : nodeStatus s frm st = .ok s') :
    subView s' = subView s := by
  unfold nodeStatus at h
  simp only [bind_eq_ok, pure_eq_ok, orReject_eq_ok] at h
  obtain ⟨n, _, s5, h5, rfl⟩ := h
  rw [subView_emit, setNode_subView h5]
  split <;> split <;> split <;> split <;> rfl

theorem planCreate_subView {s s' : State} {frm : Addr} {dur : Dur} {gb : Int} {prices : Coins}
    (h : planCreate s frm dur gb prices = .ok s') : subView s' = subView s := by
  unfold planCreate at h
  simp only [bind_eq_ok, pure_eq_ok, require_eq_ok] at h
  obtain ⟨_, _, s1, h1, rfl⟩ := h
  have e := setPlan_subView h1
  rw [subView_emit]
  exact (rfl : subView { s1 with planForProv := _ } = subView s1).trans (e.trans rfl)

theorem planStatus_subView {s s' : State} {frm : Addr} {id : Nat} {st : Status}
    (h : planStatus s frm id st = .ok s') : subView s' = subView s := by
  unfold planStatus at h
  simp only [bind_eq_ok, pure_eq_ok, require_eq_ok, orReject_eq_ok] at h
  obtain ⟨p, hp, _, _, s3, h3, rfl⟩ := h
  rw [subView_emit, setPlan_subView h3]
  split <;> split <;> rfl

theorem planLink_subView {s s' : State} {frm : Addr} {id : Nat} {node : Addr}
    (h : planLink s frm id node = .ok s') : subView s' = subView s := by
  unfold planLink at h
  simp only [bind_eq_ok, pure_eq_ok, require_eq_ok, orReject_eq_ok] at h
  obtain ⟨p, _, _, _, _, _, rfl⟩ := h
  rfl

theorem planUnlink_subView {s s' : State} {frm : Addr} {id : Nat} {node : Addr}
    (h : planUnlink s frm id node = .ok s') : subView s' = subView s := by
  unfold planUnlink at h
  simp only [bind_eq_ok, pure_eq_ok, require_eq_ok, orReject_eq_ok] at h
  obtain ⟨p, _, _, _, rfl⟩ := h
  rfl

theorem sessStart_subView {s s' : State} {frm : TextAddr} {id : Nat} {node : Addr}
    (h : sessStart s frm id node = .ok s') : subView s' = subView s := by
  unfold sessStart at h
  simp only [bind_eq_ok, pure_eq_ok, require_eq_ok, orReject_eq_ok] at h
  obtain ⟨sub, _, _, _, n, _, _, _, _, _, _, _, latest, _, _, _, rfl⟩ := h
  rfl

theorem sessUpdate_subView {s s' : State} {frm : Addr} {id : Nat} {up down dur : Int} {sig : SigSpec}
    (h : sessUpdate s frm id up down dur sig = .ok s') : subView s' = subView s := by
  unfold sessUpdate at h
  simp only [bind_eq_ok, pure_eq_ok, require_eq_ok, orReject_eq_ok] at h
  obtain ⟨x, _, _, _, _, _, _, _, rfl⟩ := h
  rw [subView_emit]
  split <;> rfl

theorem sessEnd_subView {s s' : State} {frm : Addr} {id : Nat} (h : sessEnd s frm id = .ok s') : subView s' = subView s := by
  unfold sessEnd at h
  simp only [bind_eq_ok, pure_eq_ok, require_eq_ok, orReject_eq_ok] at h
  obtain ⟨x, _, _, _, _, _, rfl⟩ := h
  rfl

theorem swap_subView {s s' : State} {frm recv : Addr} {hash : Bytes} {amt : Int}
    (h : swap s frm hash recv amt = .ok s') : subView s' = subView s := by
  unfold swap sendModuleToAccount mintCoins at h
  simp only [bind_eq_ok, pure_eq_ok, require_eq_ok] at h
  obtain ⟨_, _, _, _, _, _, q, _, coin, _, s1, ⟨nb, _, ns, _, rfl⟩, s2, h2, rfl⟩ := h
  split at h2
  · simp [reject] at h2
  · rw [subView_emit]
    exact (rfl : subView { s2 with swaps := _ } = subView s2).trans
      ((subView_of_moneyFrame (sendCoins_frame h2)).trans (by unfold setSupply setBalance; rfl))

/-- Every message handler preserves `SubIdx` (`0 ≤ hr` for `MsgSubscribe` comes from `ValidateBasic`). -/
theorem handle_subIdx {s s' : State} {m : Msg} (h : m.handle s = .ok s') (hv : m.validateBasic = .ok ())
    (hc : CountInv s) (hi : SubIdx s) : SubIdx s' := by
  cases m <;> simp only [Msg.handle] at h
  case provRegister => exact SubIdx.of_view (provRegister_subView h) hi
  case provUpdate => exact SubIdx.of_view (provUpdate_subView h) hi
  case nodeRegister => exact SubIdx.of_view (nodeRegister_subView h) hi
  case nodeUpdate => exact SubIdx.of_view (nodeUpdate_subView h) hi
  case nodeStatus => exact SubIdx.of_view (nodeStatus_subView h) hi
  case nodeSubscribe frm node gb hr denom =>
    have h0 : 0 ≤ hr := by
      unfold Msg.validateBasic at hv
      simp only [bind_eq_ok, require_eq_ok] at hv
      obtain ⟨_, _, _, _, _, _, _, _, _, _, _, h0, _⟩ := hv
      simpa using h0
    exact nodeSubscribe_subIdx h h0 hc hi
  case planCreate => exact SubIdx.of_view (planCreate_subView h) hi
  case planStatus => exact SubIdx.of_view (planStatus_subView h) hi
  case planLink => exact SubIdx.of_view (planLink_subView h) hi
  case planUnlink => exact SubIdx.of_view (planUnlink_subView h) hi
  case planSubscribe => exact planSubscribe_subIdx h hc hi
  case subCancel => exact subCancel_subIdx h hc hi
  case subAllocate => exact subAllocate_subIdx h hc hi
  case sessStart => exact SubIdx.of_view (sessStart_subView h) hi
  case sessUpdate => exact SubIdx.of_view (sessUpdate_subView h) hi
  case sessEnd => exact SubIdx.of_view (sessEnd_subView h) hi
  case swap => exact SubIdx.of_view (swap_subView h) hi

/-! ### messages, governance -/

theorem CountInv.clearEvents {s : State} (hc : CountInv s) : CountInv { s with events := [] } :=
  ⟨hc.plans, hc.subs, hc.allocs, hc.payouts, hc.sessions, hc.planIdx, hc.subIdx, hc.sessIdx⟩

theorem deliver_subIdx (s : State) (m : Msg) (hc : CountInv s) (hi : SubIdx s) : SubIdx (deliver s m).1 := by
  have h0 : SubIdx { s with events := [] } := SubIdx.of_view (s := s) rfl hi
  unfold deliver
  simp only []
  cases hr : (do m.validateBasic; m.handle { s with events := [] } : M State) with
  | ok s' =>
    simp only [bind_eq_ok] at hr
    obtain ⟨u, hv, hh⟩ := hr
    exact handle_subIdx hh hv hc.clearEvents h0
  | error e => cases e <;> exact h0

theorem gov_subView {s s' : State} {c : ParamChange} (hg : gov s c = some s') : subView s' = subView s := by
  unfold gov at hg
  cases c <;> simp only [] at hg <;> (try split at hg) <;> (try split at hg) <;>
    first
      | (simp only [Option.some.injEq] at hg; rw [← hg]; rfl)
      | (simp only [reduceCtorEq] at hg)

theorem gov_subIdx (s : State) (c : ParamChange) (hi : SubIdx s) : SubIdx ((gov s c).getD s) := by
  cases hg : gov s c with
  | none => exact hi
  | some s' => exact SubIdx.of_view (gov_subView hg) hi

/-! ### BeginBlock -/

theorem subView_mintBeginBlock_go (l : List Inflation) (s : State) : subView (mintBeginBlock.go s l) = subView s := by
  induction l generalizing s with
  | nil => rfl
  | cons item rest ih =>
    unfold mintBeginBlock.go
    split
    · rfl
    · rw [ih]; rfl

theorem subView_distrSweep (s : State) : subView (distrSweep s) = subView s := by
  unfold distrSweep
  exact foldl_inv (fun s' => subView s' = subView s) sweepDenom
    (fun s0 d h => (by unfold sweepDenom setBalance; rfl : subView (sweepDenom s0 d) = subView s0).trans h) _ s rfl

/-- The payout loop: the snapshot of due keys stays live (each step removes only its own key, and no
two snapshot keys share an id). -/
theorem payoutFold_subIdx (l : List (Time × Nat)) (hl : (l.map (·.2)).Nodup) (s s' : State)
    (h : l.foldlM (fun s k => panicIfErr (payoutStep s k)) s = .ok s')
    (hk : Keyed s) (hi : SubIdx s) (hlive : ∀ k ∈ l, s.payQ.has k = true) : SubIdx s' ∧ Keyed s' := by
  induction l generalizing s with
  | nil => simp only [List.foldlM, pure_eq_ok] at h; rw [← h]; exact ⟨hi, hk⟩
  | cons k rest ih =>
    simp only [List.foldlM, bind_eq_ok, panicIfErr_eq_ok] at h
    obtain ⟨s1, h1, h2⟩ := h
    simp only [List.map_cons, List.nodup_cons] at hl
    refine ih hl.2 s1 h2 (payoutStep_keyed h1 hk) (payoutStep_subIdx h1 (hlive k (by simp)) hk hi) ?_
    intro k' hk'
    have hne : k'.2 ≠ k.2 := by
      intro e; exact hl.1 (e ▸ List.mem_map.mpr ⟨k', hk', rfl⟩)
    obtain ⟨item, hitem, hv⟩ := payoutStep_view h1
    have hid : item.id = k.2 := hk.payouts _ _ hitem
    have e : s1.payQ = (subView s1).payQ := rfl
    rw [e, hv]
    simp only []
    have hold := hlive k' (by simp [hk'])
    obtain ⟨t', i'⟩ := k'
    simp only at hne
    split <;> simp [Tbl.has_set_B, Tbl.has_erase_B, hid, Ne.symm hne, hold]

theorem beginBlock_subIdx {s s' : State} {t : Time} (h : beginBlock s t = .ok s') (hk : Keyed s) (hi : SubIdx s) :
    SubIdx s' ∧ Keyed s' := by
  unfold beginBlock haltOf at h
  split at h <;> try contradiction
  rename_i s'' hs
  simp only [Except.ok.injEq] at h
  subst h
  unfold subscriptionBeginBlock at hs
  have e0 : subView (distrSweep (mintBeginBlock { s with time := t, height := s.height + 1, events := [] })) = subView s := by
    rw [subView_distrSweep]; unfold mintBeginBlock; rw [subView_mintBeginBlock_go]; rfl
  have hi0 := SubIdx.of_view e0 hi
  have hk0 := Keyed.of_view e0 hk
  refine payoutFold_subIdx _ ?_ _ _ hs hk0 hi0 (fun k hk' => mem_dueIds hk')
  refine List.Nodup.map_on ?_ (nodup_dueIds _ _ hi0.nodup.2.2.2.2.2.2.2.1)
  intro x hx y hy exy
  obtain ⟨p, _, hp, hn, _⟩ := (hi0.payQ x.1 x.2).mp (mem_dueIds hx)
  obtain ⟨p', _, hp', hn', _⟩ := (hi0.payQ y.1 y.2).mp (mem_dueIds hy)
  rw [exy, hp'] at hp
  simp only [Option.some.injEq] at hp; subst hp
  exact Prod.ext (hn.symm.trans hn') exy

/-! ### EndBlock -/

theorem sessionInactiveHook_keyed {s s' : State} {id : Nat} {acc node : Addr} {bytes : Int}
    (h : sessionInactiveHook s id acc node bytes = .ok s') (hk : Keyed s) : Keyed s' := by
  obtain ⟨x, sub, _, _, _, h | ⟨_, a, ha, hfr⟩⟩ := sessionInactiveHook_eff h
  · rw [h.2]; exact hk
  · generalize allocAfterUse a (a.used + bytes) = a' at hfr
    have e : subView s' = { subView s with allocs := s.allocs.set (a'.id, a'.addr) a' } := by
      rw [subView_of_moneyFrame hfr]; rfl
    refine KeyedV.of_eq e ?_
    clear hfr e
    keyed_tac hk

theorem sessionStep_subIdx' {s s' : State} {k : Time × Nat} (h : sessionStep s k = .ok s') (hk : Keyed s)
    (hi : SubIdx s) : SubIdx s' ∧ Keyed s' := by
  refine ⟨sessionStep_subIdx h hk.allocs hi, ?_⟩
  obtain ⟨item, _, ⟨_, rfl⟩ | ⟨_, s2, h2, rfl⟩⟩ := sessionStep_eff h
  · exact Keyed.of_view (s := s) rfl hk
  · exact Keyed.of_view (s := s2) rfl (sessionInactiveHook_keyed h2 (Keyed.of_view (s := s) rfl hk))

theorem nodeSweep_subView {s s' : State} (h : nodeSweep s = .ok s') : subView s' = subView s := by
  unfold nodeSweep at h
  split at h
  · rw [pure_eq_ok] at h; rw [h]
  · refine foldlM_inv (fun s0 => subView s0 = subView s) _ ?_ _ s s' h rfl
    intro s0 a s1 h1 hp
    simp only [bind_eq_ok, pure_eq_ok, orPanic_eq_ok] at h1
    obtain ⟨item, _, s2, h2, rfl⟩ := h1
    rw [subView_emit, setNode_subView h2, hp]

theorem nodeExpire_subView {s s' : State} (h : nodeExpire s = .ok s') : subView s' = subView s := by
  unfold nodeExpire at h
  refine foldlM_inv (fun s0 => subView s0 = subView s) _ ?_ _ s s' h rfl
  intro s0 k s1 h1 hp
  unfold nodeExpireStep at h1
  simp only [bind_eq_ok, pure_eq_ok, orPanic_eq_ok] at h1
  obtain ⟨item, _, s3, h3, rfl⟩ := h1
  rw [subView_emit, setNode_subView h3, ← hp]; rfl

theorem endBlock_subIdx {s s' : State} (h : endBlock s = .ok s') (hk : Keyed s) (hi : SubIdx s) : SubIdx s' ∧ Keyed s' := by
  unfold endBlock haltOf at h
  split at h <;> try contradiction
  rename_i s2 hs
  split at hs <;> try contradiction
  rename_i s3 hs3
  simp only [Except.ok.injEq] at hs h
  subst hs; subst h
  unfold vpnEndBlock nodeEndBlock at hs3
  simp only [bind_eq_ok] at hs3
  obtain ⟨s1, ⟨sa, ha, hb⟩, sb, hc, hd⟩ := hs3
  have e1 : subView s1 = subView s := by rw [nodeExpire_subView hb, nodeSweep_subView ha]; rfl
  have i1 : SubIdx s1 ∧ Keyed s1 := ⟨SubIdx.of_view e1 hi, Keyed.of_view e1 hk⟩
  have i2 : SubIdx sb ∧ Keyed sb :=
    foldlM_inv (fun s => SubIdx s ∧ Keyed s) _ (fun s0 k s1 h1 hp => sessionStep_subIdx' h1 hp.2 hp.1) _ _ _ hc i1
  have i3 : SubIdx s3 ∧ Keyed s3 :=
    foldlM_inv (fun s => SubIdx s ∧ Keyed s) _ (fun s0 k s1 h1 hp => subscriptionStep_subIdx h1 hp.2 hp.1) _ _ _ hd i2
  exact ⟨SubIdx.of_view (s := s3) rfl i3.1, Keyed.of_view (s := s3) rfl i3.2⟩

/-- One operation of a history. `CountInv s` is needed for the freshness of new subscription ids (`tx`);
block hooks only need records to sit under their own ids, which they keep themselves. -/
theorem step_subIdx {s s' : State} {op : Op} (h : step s op = some s') (hc : CountInv s) (hi : SubIdx s) : SubIdx s' := by
  cases op with
  | tx m =>
    simp only [step, Option.some.injEq] at h
    rw [← h]; exact deliver_subIdx s m hc hi
  | begin t =>
    simp only [step] at h
    split at h
    · rename_i s1 hb
      simp only [Option.some.injEq] at h; rw [← h]; exact (beginBlock_subIdx hb hc.keyed hi).1
    · contradiction
  | endB =>
    simp only [step] at h
    split at h
    · rename_i s1 hb
      simp only [Option.some.injEq] at h; rw [← h]; exact (endBlock_subIdx hb hc.keyed hi).1
    · contradiction
  | gov c =>
    simp only [step, Option.some.injEq] at h
    rw [← h]; exact gov_subIdx s c hi

/-! ### genesis -/

theorem subView_addBalance (s : State) (b : Addr × Denom × Int) : subView (addBalance s b) = subView s := by
  unfold addBalance
  split
  · rfl
  · unfold setSupply setBalance; rfl

theorem genesis_subIdx (g : Genesis) : SubIdx g.state := by
  have e : subView g.state = subView g.base := by
    unfold Genesis.state
    exact foldl_inv (fun s' => subView s' = subView g.base) addBalance
      (fun s0 b h => (subView_addBalance s0 b).trans h) _ _ rfl
  refine SubIdx.of_view e ?_
  have hn : ∀ {κ α : Type} [DecidableEq κ] (k : κ), Tbl.has ([] : Tbl κ α) k = false := fun _ => rfl
  refine ⟨?_, ?_, ?_, ?_, ?_, ?_, ?_, ?_, ?_, ?_, ?_, ?_, ?_, ?_, ?_⟩ <;>
    (try intros) <;> simp_all [Genesis.base, Tbl.has, Tbl.get, Tbl.Nodup]

/-- **C09 (subscription side), all histories**, given that `CountInv` is kept by every operation
(proved separately, `Hub/Lemmas/CountSteps.lean`). -/
theorem subIdx_all_histories
    (hcStep : ∀ s op s', step s op = some s' → CountInv s → CountInv s')
    (ops : List Op) (s : State) (hc : CountInv s) (hi : SubIdx s) : ∀ s' ∈ runTrace s ops, SubIdx s' ∧ CountInv s' := by
  induction ops generalizing s with
  | nil => intro s' h; simp [runTrace] at h
  | cons op rest ih =>
    intro s' h
    simp only [runTrace] at h
    cases hst : step s op with
    | none => simp [hst] at h
    | some s1 =>
      simp only [hst, List.mem_cons] at h
      have i1 := step_subIdx hst hc hi
      have c1 := hcStep s op s1 hst hc
      rcases h with h | h
      · rw [h]; exact ⟨i1, c1⟩
      · exact ih s1 c1 i1 s' h

/-! ### the same as `…_subIdx` statements, one per handler / hook piece -/

theorem provRegister_subIdx {s s' : State} {frm : Addr} {n i w d : Bytes}
    (h : provRegister s frm n i w d = .ok s') (hi : SubIdx s) : SubIdx s' :=
  SubIdx.of_view (provRegister_subView h) hi

theorem provUpdate_subIdx {s s' : State} {frm : Addr} {n i w d : Bytes} {st : Status}
    (h : provUpdate s frm n i w d st = .ok s') (hi : SubIdx s) : SubIdx s' :=
  SubIdx.of_view (provUpdate_subView h) hi

theorem nodeRegister_subIdx {s s' : State} {frm : Addr} {gb hr : Coins} {url : Bytes}
    (h : nodeRegister s frm gb hr url = .ok s') (hi : SubIdx s) : SubIdx s' :=
  SubIdx.of_view (nodeRegister_subView h) hi

theorem nodeUpdate_subIdx {s s' : State} {frm : Addr} {gb hr : Option Coins} {url : Bytes}
    (h : nodeUpdate s frm gb hr url = .ok s') (hi : SubIdx s) : SubIdx s' :=
  SubIdx.of_view (nodeUpdate_subView h) hi

theorem nodeStatus_subIdx {s s' : State} {frm : Addr} {st : Status}
    (h : nodeStatus s frm st = .ok s') (hi : SubIdx s) : SubIdx s' :=
  SubIdx.of_view (nodeStatus_subView h) hi

theorem planCreate_subIdx {s s' : State} {frm : Addr} {dur : Dur} {gb : Int} {prices : Coins}
    (h : planCreate s frm dur gb prices = .ok s') (hi : SubIdx s) : SubIdx s' :=
  SubIdx.of_view (planCreate_subView h) hi

theorem planStatus_subIdx {s s' : State} {frm : Addr} {id : Nat} {st : Status}
    (h : planStatus s frm id st = .ok s') (hi : SubIdx s) : SubIdx s' :=
  SubIdx.of_view (planStatus_subView h) hi

theorem planLink_subIdx {s s' : State} {frm : Addr} {id : Nat} {node : Addr}
    (h : planLink s frm id node = .ok s') (hi : SubIdx s) : SubIdx s' :=
  SubIdx.of_view (planLink_subView h) hi

theorem planUnlink_subIdx {s s' : State} {frm : Addr} {id : Nat} {node : Addr}
    (h : planUnlink s frm id node = .ok s') (hi : SubIdx s) : SubIdx s' :=
  SubIdx.of_view (planUnlink_subView h) hi

theorem sessStart_subIdx {s s' : State} {frm : TextAddr} {id : Nat} {node : Addr}
    (h : sessStart s frm id node = .ok s') (hi : SubIdx s) : SubIdx s' :=
  SubIdx.of_view (sessStart_subView h) hi

theorem sessUpdate_subIdx {s s' : State} {frm : Addr} {id : Nat} {up down dur : Int} {sig : SigSpec}
    (h : sessUpdate s frm id up down dur sig = .ok s') (hi : SubIdx s) : SubIdx s' :=
  SubIdx.of_view (sessUpdate_subView h) hi

theorem sessEnd_subIdx {s s' : State} {frm : Addr} {id : Nat}
    (h : sessEnd s frm id = .ok s') (hi : SubIdx s) : SubIdx s' :=
  SubIdx.of_view (sessEnd_subView h) hi

theorem swap_subIdx {s s' : State} {frm recv : Addr} {hash : Bytes} {amt : Int}
    (h : swap s frm hash recv amt = .ok s') (hi : SubIdx s) : SubIdx s' :=
  SubIdx.of_view (swap_subView h) hi

theorem nodeSweep_subIdx {s s' : State}
    (h : nodeSweep s = .ok s') (hi : SubIdx s) : SubIdx s' :=
  SubIdx.of_view (nodeSweep_subView h) hi

theorem nodeExpire_subIdx {s s' : State}
    (h : nodeExpire s = .ok s') (hi : SubIdx s) : SubIdx s' :=
  SubIdx.of_view (nodeExpire_subView h) hi

theorem subscriptionInactivePendingHook_subIdx {s s' : State} {id : Nat}
    (h : subscriptionInactivePendingHook s id = .ok s') (hi : SubIdx s) : SubIdx s' := by
  have hf := subscriptionInactivePendingHook_frame h
  exact SubIdx.of_view (by rw [hf]; rfl) hi

theorem mintBeginBlock_subIdx (s : State) (hi : SubIdx s) : SubIdx (mintBeginBlock s) :=
  SubIdx.of_view (subView_mintBeginBlock_go _ s) hi

theorem distrSweep_subIdx (s : State) (hi : SubIdx s) : SubIdx (distrSweep s) :=
  SubIdx.of_view (subView_distrSweep s) hi

end Hub.Model
