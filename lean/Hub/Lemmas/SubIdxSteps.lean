import Hub.Lemmas.SubIdxTbl
/-
C09, subscription side: `SubIdx` (Hub/Model/Inv.lean) is preserved by every handler, every hook
piece, every block step and holds in every genesis state.

Method.  Every operation that touches the subscription tables is *local to one subscription id* `j`:
all thirteen tables agree, at every other id, with the pre-state (`AgreeAt`).  `SubIdx` is the
conjunction over all ids of `SubIdxAt` plus key-uniqueness, so each operation needs (1) the
mechanical agreement off `j`, (2) `SubIdxAt s' j`, (3) uniqueness of keys (`nodup_set/erase`).
Operations that do not touch the thirteen tables use `SubIdx.of_view`.
-/
namespace Hub.Model
open Hub.SDK
open Hub.Generated (Status AmountForBytes GetProportionOfCoin Gigabyte)

/-! ### the part of the state `SubIdx` reads -/

structure SubView where
  subs : Tbl Nat Sub
  subQ : Tbl (Time × Nat) Unit
  subForAcc : Tbl (Addr × Nat) Unit
  subForNode : Tbl (Addr × Nat) Unit
  subForPlan : Tbl (Nat × Nat) Unit
  allocs : Tbl (Nat × Addr) Alloc
  payouts : Tbl Nat Payout
  payQ : Tbl (Time × Nat) Unit
  payForAcc : Tbl (Addr × Nat) Unit
  payForNode : Tbl (Addr × Nat) Unit
  payForAccNode : Tbl (Addr × Addr × Nat) Unit
  subCount : Option Nat

def subView (s : State) : SubView :=
  ⟨s.subs, s.subQ, s.subForAcc, s.subForNode, s.subForPlan, s.allocs, s.payouts, s.payQ, s.payForAcc, s.payForNode,
   s.payForAccNode, s.subCount⟩

theorem SubIdx.of_view {s s' : State} (h : subView s' = subView s) (hi : SubIdx s) : SubIdx s' := by
  have e1 : s'.subs = s.subs := congrArg SubView.subs h
  have e2 : s'.subQ = s.subQ := congrArg SubView.subQ h
  have e3 : s'.subForAcc = s.subForAcc := congrArg SubView.subForAcc h
  have e4 : s'.subForNode = s.subForNode := congrArg SubView.subForNode h
  have e5 : s'.subForPlan = s.subForPlan := congrArg SubView.subForPlan h
  have e6 : s'.allocs = s.allocs := congrArg SubView.allocs h
  have e7 : s'.payouts = s.payouts := congrArg SubView.payouts h
  have e8 : s'.payQ = s.payQ := congrArg SubView.payQ h
  have e9 : s'.payForAcc = s.payForAcc := congrArg SubView.payForAcc h
  have e10 : s'.payForNode = s.payForNode := congrArg SubView.payForNode h
  have e11 : s'.payForAccNode = s.payForAccNode := congrArg SubView.payForAccNode h
  obtain ⟨a1, a2, a3, a4, a5, a6, a7, a8, a9, a10, a11, a12, a13, a14, a15⟩ := hi
  constructor <;> simp only [e1, e2, e3, e4, e5, e6, e7, e8, e9, e10, e11] <;> assumption

@[simp] theorem subView_emit (s : State) (e : Event) : subView (emit s e) = subView s := rfl

theorem subView_of_moneyFrame {s s' : State} (h : MoneyFrame s s') : subView s' = subView s := by
  unfold MoneyFrame at h; rw [h]; rfl

/-! ### money frames without a money invariant -/

theorem depositAdd_frame {s s' : State} {f t : Addr} {c : Coin} (h : depositAdd s f t c = .ok s') : MoneyFrame s s' := by
  unfold depositAdd at h
  simp only [bind_eq_ok, pure_eq_ok, require_eq_ok] at h
  obtain ⟨s1, hs1, _, _, rfl⟩ := h
  exact (sendCoins_frame hs1).trans rfl

theorem depositOut_frame {s s1 : State} {f t : Addr} {c : Coin} {cur : Coins} {e : Event}
    (hs1 : sendCoins s depositAddr t c = .ok s1) : MoneyFrame s (emit (putDeposit s1 f cur) e) := by
  refine (sendCoins_frame hs1).trans ?_
  unfold MoneyFrame
  rw [putDeposit_frame]; rfl

theorem depositToAccount_frame {s s' : State} {f t : Addr} {c : Coin} (h : depositToAccount s f t c = .ok s') : MoneyFrame s s' := by
  unfold depositToAccount sendModuleToAccount at h
  simp only [bind_eq_ok, pure_eq_ok, require_eq_ok, orReject_eq_ok] at h
  obtain ⟨cur, _, _, _, s1, hs1, rfl⟩ := h
  split at hs1
  · simp [reject] at hs1
  · exact depositOut_frame hs1

theorem depositToModule_frame {s s' : State} {f m : Addr} {c : Coin} (h : depositToModule s f m c = .ok s') : MoneyFrame s s' := by
  unfold depositToModule at h
  simp only [bind_eq_ok, pure_eq_ok, require_eq_ok, orReject_eq_ok] at h
  obtain ⟨cur, _, _, _, s1, hs1, rfl⟩ := h
  exact depositOut_frame hs1

theorem addDeposit_frame {s s' : State} {a : Addr} {c : Coin} (h : addDeposit s a c = .ok s') : MoneyFrame s s' := by
  unfold addDeposit at h
  split at h
  · rw [pure_eq_ok] at h; subst h; rfl
  · exact depositAdd_frame h

theorem subtractDeposit_frame {s s' : State} {a : Addr} {c : Coin} (h : subtractDeposit s a c = .ok s') : MoneyFrame s s' := by
  unfold subtractDeposit at h
  split at h
  · rw [pure_eq_ok] at h; subst h; rfl
  · exact depositToAccount_frame h

theorem sendCoinFromDepositToAccount_frame {s s' : State} {f t : Addr} {c : Coin}
    (h : sendCoinFromDepositToAccount s f t c = .ok s') : MoneyFrame s s' := by
  unfold sendCoinFromDepositToAccount at h
  split at h
  · rw [pure_eq_ok] at h; subst h; rfl
  · exact depositToAccount_frame h

theorem sendCoinFromDepositToModule_frame {s s' : State} {f m : Addr} {c : Coin}
    (h : sendCoinFromDepositToModule s f m c = .ok s') : MoneyFrame s s' := by
  unfold sendCoinFromDepositToModule at h
  split at h
  · rw [pure_eq_ok] at h; subst h; rfl
  · exact depositToModule_frame h

theorem sendCoin_frame {s s' : State} {f t : Addr} {c : Coin} (h : sendCoin s f t c = .ok s') : MoneyFrame s s' := by
  unfold sendCoin at h
  split at h
  · rw [pure_eq_ok] at h; subst h; rfl
  · exact sendCoins_frame h

theorem sendCoinFromAccountToModule_frame {s s' : State} {f m : Addr} {c : Coin}
    (h : sendCoinFromAccountToModule s f m c = .ok s') : MoneyFrame s s' := by
  unfold sendCoinFromAccountToModule at h
  split at h
  · rw [pure_eq_ok] at h; subst h; rfl
  · exact sendCoins_frame h

theorem fundCommunityPool_frame {s s' : State} {f : Addr} {c : Coin} (h : fundCommunityPool s f c = .ok s') : MoneyFrame s s' := by
  unfold fundCommunityPool at h
  split at h
  · rw [pure_eq_ok] at h; subst h; rfl
  · exact sendCoins_frame h

/-! ### `SubIdx` one id at a time -/

structure SubIdxAt (s : State) (i : Nat) : Prop where
  q : ∀ t, s.subQ.has (t, i) = true ↔ ∃ x, s.subs.get i = some x ∧ x.inactiveAt = t
  node : ∀ n, s.subForNode.has (n, i) = true ↔ ∃ x gb hr dep, s.subs.get i = some x ∧ x.kind = .node n gb hr dep
  plan : ∀ p, s.subForPlan.has (p, i) = true ↔ ∃ x d, s.subs.get i = some x ∧ x.kind = .plan p d
  acc : ∀ a, s.subForAcc.has (a, i) = true ↔ ∃ x, s.subs.get i = some x ∧ (x.addr = a ∨ s.allocs.has (i, a) = true)
  allocSub : ∀ a, s.allocs.has (i, a) = true → s.subs.has i = true
  ownerAlloc : ∀ x, s.subs.get i = some x → isHourly x = false → s.allocs.has (i, x.addr) = true
  hourlyNoAlloc : ∀ x a, s.subs.get i = some x → isHourly x = true → s.allocs.has (i, a) = false
  nodeSubAlloc : ∀ x a, s.subs.get i = some x → isPlanSub x = false → s.allocs.has (i, a) = true → a = x.addr
  payout : s.payouts.has i = true ↔ ∃ x, s.subs.get i = some x ∧ isHourly x = true
  payoutRec : ∀ p x, s.payouts.get i = some p → s.subs.get i = some x → x.hourlyOn p.addr p.node ∧ 0 ≤ p.hours
  payAcc : ∀ a, s.payForAcc.has (a, i) = true ↔ ∃ p, s.payouts.get i = some p ∧ p.addr = a
  payNode : ∀ n, s.payForNode.has (n, i) = true ↔ ∃ p, s.payouts.get i = some p ∧ p.node = n
  lease : ∀ a n, s.payForAccNode.has (a, n, i) = true ↔
            ∃ p x, s.payouts.get i = some p ∧ p.addr = a ∧ p.node = n ∧ s.subs.get i = some x ∧ x.status = .StatusActive
  payQ : ∀ t, s.payQ.has (t, i) = true ↔
            ∃ p x, s.payouts.get i = some p ∧ p.nextAt = t ∧ 0 < p.hours ∧ s.subs.get i = some x ∧ x.status = .StatusActive

/-- Key uniqueness of the eleven tables. -/
def SubNodup (s : State) : Prop :=
  Tbl.Nodup s.subs ∧ Tbl.Nodup s.subQ ∧ Tbl.Nodup s.subForAcc ∧ Tbl.Nodup s.subForNode ∧ Tbl.Nodup s.subForPlan ∧
  Tbl.Nodup s.allocs ∧ Tbl.Nodup s.payouts ∧ Tbl.Nodup s.payQ ∧ Tbl.Nodup s.payForAcc ∧ Tbl.Nodup s.payForNode ∧
  Tbl.Nodup s.payForAccNode

theorem SubIdx.at {s : State} (hi : SubIdx s) (i : Nat) : SubIdxAt s i :=
  ⟨fun t => hi.q t i, fun n => hi.node n i, fun p => hi.plan p i, fun a => hi.acc a i, fun a => hi.allocSub i a,
   fun x => hi.ownerAlloc i x, fun x a => hi.hourlyNoAlloc i x a, fun x a => hi.nodeSubAlloc i x a, hi.payout i,
   fun p x => hi.payoutRec i p x, fun a => hi.payAcc a i, fun n => hi.payNode n i, fun a n => hi.lease a n i,
   fun t => hi.payQ t i⟩

theorem SubIdx.of_at {s : State} (h : ∀ i, SubIdxAt s i) (hn : SubNodup s) : SubIdx s :=
  ⟨fun t i => (h i).q t, fun n i => (h i).node n, fun p i => (h i).plan p, fun a i => (h i).acc a,
   fun i a => (h i).allocSub a, fun i x => (h i).ownerAlloc x, fun i x a => (h i).hourlyNoAlloc x a,
   fun i x a => (h i).nodeSubAlloc x a, fun i => (h i).payout, fun i p x => (h i).payoutRec p x,
   fun a i => (h i).payAcc a, fun n i => (h i).payNode n, fun a n i => (h i).lease a n, fun t i => (h i).payQ t, hn⟩

/-- The thirteen tables of `s'` agree with those of `s` at id `i`. -/
structure AgreeAt (i : Nat) (s s' : State) : Prop where
  subs : s'.subs.get i = s.subs.get i
  subQ : ∀ t, s'.subQ.has (t, i) = s.subQ.has (t, i)
  subForAcc : ∀ a, s'.subForAcc.has (a, i) = s.subForAcc.has (a, i)
  subForNode : ∀ a, s'.subForNode.has (a, i) = s.subForNode.has (a, i)
  subForPlan : ∀ p, s'.subForPlan.has (p, i) = s.subForPlan.has (p, i)
  allocs : ∀ a, s'.allocs.has (i, a) = s.allocs.has (i, a)
  payouts : s'.payouts.get i = s.payouts.get i
  payQ : ∀ t, s'.payQ.has (t, i) = s.payQ.has (t, i)
  payForAcc : ∀ a, s'.payForAcc.has (a, i) = s.payForAcc.has (a, i)
  payForNode : ∀ a, s'.payForNode.has (a, i) = s.payForNode.has (a, i)
  payForAccNode : ∀ a n, s'.payForAccNode.has (a, n, i) = s.payForAccNode.has (a, n, i)

theorem SubIdxAt.congr {i : Nat} {s s' : State} (h : AgreeAt i s s') (hi : SubIdxAt s i) : SubIdxAt s' i := by
  have h1 : s'.subs.has i = s.subs.has i := by unfold Tbl.has; rw [h.subs]
  have h2 : s'.payouts.has i = s.payouts.has i := by unfold Tbl.has; rw [h.payouts]
  obtain ⟨a1, a2, a3, a4, a5, a6, a7, a8, a9, a10, a11, a12, a13, a14⟩ := hi
  constructor <;>
    simp only [h.subs, h.subQ, h.subForAcc, h.subForNode, h.subForPlan, h.allocs, h.payouts, h.payQ, h.payForAcc,
      h.payForNode, h.payForAccNode, h1, h2] <;> assumption

/-- The combinator: an operation local to id `j`. -/
theorem SubIdx.local {s s' : State} (j : Nat) (hi : SubIdx s) (hoff : ∀ i, i ≠ j → AgreeAt i s s')
    (hat : SubIdxAt s' j) (hn : SubNodup s') : SubIdx s' := by
  refine SubIdx.of_at (fun i => ?_) hn
  by_cases e : i = j
  · subst e; exact hat
  · exact (hi.at i).congr (hoff i e)

/-! ### what `CountInv` gives: records sit under their own id, the next id is unused -/

structure Fresh (s : State) (j : Nat) : Prop where
  subs : s.subs.get j = none
  subQ : ∀ t, s.subQ.has (t, j) = false
  subForAcc : ∀ a, s.subForAcc.has (a, j) = false
  subForNode : ∀ a, s.subForNode.has (a, j) = false
  subForPlan : ∀ p, s.subForPlan.has (p, j) = false
  allocs : ∀ a, s.allocs.get (j, a) = none
  payouts : s.payouts.get j = none
  payQ : ∀ t, s.payQ.has (t, j) = false
  payForAcc : ∀ a, s.payForAcc.has (a, j) = false
  payForNode : ∀ a, s.payForNode.has (a, j) = false
  payForAccNode : ∀ a n, s.payForAccNode.has (a, n, j) = false

theorem CountInv.fresh {s : State} (hc : CountInv s) : Fresh s (s.subCount.getD 0 + 1) := by
  obtain ⟨i1, i2, i3, i4, i5, i6, i7, i8⟩ := hc.subIdx
  refine ⟨?_, ?_, ?_, ?_, ?_, ?_, ?_, ?_, ?_, ?_, ?_⟩
  · cases h : s.subs.get (s.subCount.getD 0 + 1) with
    | none => rfl
    | some x => have := hc.subs _ _ h; omega
  · intro t; rw [Bool.eq_false_iff]; intro h; have := i1 _ _ h; omega
  · intro t; rw [Bool.eq_false_iff]; intro h; have := i2 _ _ h; omega
  · intro t; rw [Bool.eq_false_iff]; intro h; have := i3 _ _ h; omega
  · intro t; rw [Bool.eq_false_iff]; intro h; have := i4 _ _ h; omega
  · intro a
    cases h : s.allocs.get (s.subCount.getD 0 + 1, a) with
    | none => rfl
    | some x => have := hc.allocs _ _ _ h; omega
  · cases h : s.payouts.get (s.subCount.getD 0 + 1) with
    | none => rfl
    | some x => have := hc.payouts _ _ h; omega
  · intro t; rw [Bool.eq_false_iff]; intro h; have := i5 _ _ h; omega
  · intro t; rw [Bool.eq_false_iff]; intro h; have := i6 _ _ h; omega
  · intro t; rw [Bool.eq_false_iff]; intro h; have := i7 _ _ h; omega
  · intro a n; rw [Bool.eq_false_iff]; intro h; have := i8 _ _ _ h; omega

/-! ### creation -/

theorem createAlloc_subIdx {s : State} {sub : Sub} {a : Alloc} (hf : Fresh s sub.id) (hi : SubIdx s)
    (hh : isHourly sub = false) (ha : a.id = sub.id) (haa : a.addr = sub.addr) :
    SubIdx (setAllocation (insertSub s sub) a) := by
  refine SubIdx.local sub.id hi ?_ ?_ ?_
  · intro i hne
    unfold setAllocation insertSub
    cases hk : sub.kind <;> constructor <;> intros <;>
      simp [Tbl.has_set, Tbl.get_set, ha, hne, Ne.symm hne]
  · have f1 := hf.subs; have f2 := hf.subQ; have f3 := hf.subForAcc; have f4 := hf.subForNode; have f5 := hf.subForPlan
    have f6 := hf.allocs; have f7 := hf.payouts; have f8 := hf.payQ; have f9 := hf.payForAcc; have f10 := hf.payForNode
    have f11 := hf.payForAccNode
    have f6' : ∀ a, s.allocs.has (sub.id, a) = false := fun a => Tbl.has_false_of_get (f6 a)
    have f7' : s.payouts.has sub.id = false := Tbl.has_false_of_get f7
    unfold setAllocation insertSub
    cases hk : sub.kind with
    | node n gb hr dep =>
      have hr0 : hr = 0 := by simpa [isHourly, hk] using hh
      constructor <;> intros <;>
        simp_all [Tbl.has_set, Tbl.get_set, isHourly, isPlanSub, Sub.hourlyOn]
    | plan pid d =>
      constructor <;> intros <;>
        simp_all [Tbl.has_set, Tbl.get_set, isHourly, isPlanSub, Sub.hourlyOn]
  · sorry

end Hub.Model
