import Hub.Lemmas.CalendarDefs
/- Chunk 8 of the complete day-of-era table: entries [8 * 9131, (8 + 1) * 9131), evaluated by the kernel. -/
namespace Hub.Lemmas.Calendar

theorem chunk8 : allFrom entryOK (8 * 9131) 9131 = true := by decide +kernel

end Hub.Lemmas.Calendar
