import Hub.Lemmas.AllInv
import Hub.Props.C05
/-
C02 — definitions and table-level lemmas.

`EscrowSplit s`: every account's escrow record (an absent record counts as the empty coin set) equals,
per denomination, the sum over that account's live node subscriptions of the part of the deposit that
has not been settled yet (`rem`), and every live node subscription is well formed (`SubWF`: the record
that `rem` reads exists, amounts are in range).  This is the `Prop` form of `escrowSplitB` / `remaining`
of `Hub/Model/Monitors.lean`.

The workhorse is `EscrowSplit.local`: a step that touches the subscription tables at one id `j` only
and changes the escrow records by exactly the change of `j`'s unsettled part preserves the invariant.
-/
set_option linter.unusedSimpArgs false
set_option linter.unusedVariables false
set_option linter.unnecessarySeqFocus false
set_option linter.unusedTactic false
set_option linter.unreachableTactic false

namespace Hub.Model.Escrow
open Hub.SDK Hub.Model
open Hub.Generated (Status AmountForBytes GetProportionOfCoin Gigabyte)
open Hub.Props.C16 (chargeSpec)

/-! ### definitions -/

/-- Price of `used` bytes at `price` per gigabyte: `⌈price·used/10^9⌉` — what `AmountForBytes` returns
(`charge_of_afb`). -/
def charge (price used : Int) : Int := ((chargeSpec price.toNat used.toNat : Nat) : Int)

/-- Bytes accounted so far on the allocation `(i, a)` (0 when there is none). -/
def usedOf (A : Tbl (Nat × Addr) Alloc) (i : Nat) (a : Addr) : Int :=
  match A.get (i, a) with
  | some al => al.used
  | none => 0

/-- The unsettled part, in denomination `d`, of the deposit of subscription `x` stored under id `i`:
per gigabyte `deposit − ⌈(deposit / gigabytes)·used/10^9⌉`, per hour `hourly price × hours left`,
nothing for a plan subscription. -/
def rem (A : Tbl (Nat × Addr) Alloc) (P : Tbl Nat Payout) (i : Nat) (x : Sub) (d : Denom) : Int :=
  match x.kind with
  | .node _ gb _ dep =>
    if gb ≠ 0 then
      (if dep.denom = d then dep.amount - charge (Int.tdiv dep.amount gb) (usedOf A i x.addr) else 0)
    else
      match P.get i with
      | some p => if p.price.denom = d then p.price.amount * p.hours else 0
      | none => 0
  | .plan _ _ => 0

/-- The amount of denomination `d` in the escrow record of `a`; an absent record is the empty set. -/
def escrowOf (s : State) (a : Addr) (d : Denom) : Int := ((s.deposits.get a).getD []).amountOf d

/-- What the escrow owes account `a` in denomination `d`: the unsettled parts of `a`'s subscriptions. -/
def owed (s : State) (a : Addr) (d : Denom) : Int :=
  s.subs.sumKV (fun i x => if x.addr = a then rem s.allocs s.payouts i x d else 0)

/-- Well-formedness of a live subscription record: a node subscription is either per gigabyte (with its
owner's allocation of exactly the purchased bytes) or per hour (with its payout record, whose hourly
price times the purchased hours is the deposit and which has at most the purchased hours left). -/
def SubWF (A : Tbl (Nat × Addr) Alloc) (P : Tbl Nat Payout) (i : Nat) (x : Sub) : Prop :=
  match x.kind with
  | .node _ gb hr dep =>
      0 ≤ dep.amount ∧
      ((0 < gb ∧ hr = 0 ∧ ∃ al, A.get (i, x.addr) = some al ∧ al.granted = Gigabyte * gb) ∨
       (gb = 0 ∧ 0 < hr ∧ ∃ p, P.get i = some p ∧ p.addr = x.addr ∧ p.price.denom = dep.denom ∧ 0 ≤ p.price.amount ∧
          p.price.amount * hr = dep.amount ∧ p.hours ≤ hr))
  | .plan _ _ => True

/-- **C02, the invariant.** -/
structure EscrowSplit (s : State) : Prop where
  split : ∀ a d, escrowOf s a d = owed s a d
  wf : ∀ i x, s.subs.get i = some x → SubWF s.allocs s.payouts i x

/-- The share of subscription `j` in what is owed to `a`. -/
def contrib (s : State) (j : Nat) (a : Addr) (d : Denom) : Int :=
  match s.subs.get j with
  | some x => if x.addr = a then rem s.allocs s.payouts j x d else 0
  | none => 0

/-! ### arithmetic of the charge -/

theorem gigabyte_eq : Gigabyte = 1000000000 := by
  unfold Gigabyte Hub.Generated.Megabyte Hub.Generated.Kilobyte; decide

theorem charge_of_afb {p b r : Int} (hp : 0 ≤ p) (hb : 0 ≤ b) (h : AmountForBytes p b = .ok r) : r = charge p b := by
  have e1 : ((p.toNat : Nat) : Int) = p := Int.toNat_of_nonneg hp
  have e2 : ((b.toNat : Nat) : Int) = b := Int.toNat_of_nonneg hb
  rw [← e1, ← e2] at h
  exact Hub.Props.C05.afb_ok_exact h

theorem charge_zero (p : Int) : charge p 0 = 0 := by
  unfold charge; simp [Hub.Props.C16.afb_zero]

theorem charge_nonneg (p b : Int) : 0 ≤ charge p b := by unfold charge; omega

theorem charge_mono (p : Int) {b b' : Int} (h : b ≤ b') : charge p b ≤ charge p b' := by
  unfold charge
  have : b.toNat ≤ b'.toNat := Int.toNat_le_toNat h
  exact_mod_cast Hub.Props.C16.afb_mono p.toNat this

/-- The bytes of `gb` whole gigabytes never cost more than the deposit they were bought with. -/
theorem charge_le_deposit {dep gb used : Int} (hd : 0 ≤ dep) (hgb : 0 < gb) (hu : used ≤ Gigabyte * gb) :
    charge (Int.tdiv dep gb) used ≤ dep := by
  have hq : 0 ≤ Int.tdiv dep gb := Int.tdiv_nonneg hd (le_of_lt hgb)
  have h1 : charge (Int.tdiv dep gb) used ≤ charge (Int.tdiv dep gb) (Gigabyte * gb) := charge_mono _ hu
  have h2 : charge (Int.tdiv dep gb) (Gigabyte * gb) = Int.tdiv dep gb * gb := by
    unfold charge
    have e : (Gigabyte * gb).toNat = 10 ^ 9 * gb.toNat := by
      rw [gigabyte_eq]
      have : (1000000000 * gb).toNat = 1000000000 * gb.toNat := by omega
      rw [this]; norm_num
    rw [e, Hub.Props.C05.charge_whole_gigabytes]
    push_cast
    rw [Int.toNat_of_nonneg hq, Int.toNat_of_nonneg (le_of_lt hgb)]
  have h3 : Int.tdiv dep gb * gb ≤ dep := by
    rw [Int.tdiv_eq_ediv_of_nonneg hd]
    exact Int.ediv_mul_le dep (by omega)
  omega

/-! ### sums over tables do not depend on the order of the entries -/

theorem sumKV_ext {κ α : Type} [DecidableEq κ] (f : κ → α → Int) {t t' : Tbl κ α} (hn : Tbl.Nodup t) (hn' : Tbl.Nodup t')
    (h : ∀ k, Tbl.get t' k = Tbl.get t k) : Tbl.sumKV f t' = Tbl.sumKV f t := by
  induction t generalizing t' with
  | nil =>
    rw [Tbl.sumKV_nil]
    refine Tbl.sumKV_eq_zero f t' (fun k v hm => ?_)
    have := Tbl.get_of_mem hn' hm
    rw [h k] at this
    simp [Tbl.get] at this
  | cons p rest ih =>
    obtain ⟨k, v⟩ := p
    have hr : Tbl.Nodup rest := (List.nodup_cons.mp hn).2
    have hk : k ∉ rest.map (·.1) := (List.nodup_cons.mp hn).1
    have hg : Tbl.get t' k = some v := by rw [h k, Tbl.get_cons]; simp
    have he := Tbl.sumKV_erase f hn' k
    rw [hg] at he
    simp only [] at he
    have hih : Tbl.sumKV f (Tbl.erase t' k) = Tbl.sumKV f rest := by
      refine ih hr (Tbl.nodup_erase hn' k) (fun k' => ?_)
      rw [Tbl.get_erase]
      by_cases e : k = k'
      · subst e; simp only [if_true]; exact (Tbl.get_eq_none_of_not_mem hk).symm
      · simp only [e, if_false]; rw [h k', Tbl.get_cons]; simp [e]
    rw [Tbl.sumKV_cons]
    omega

/-! ### congruence -/

theorem rem_congr {A A' : Tbl (Nat × Addr) Alloc} {P P' : Tbl Nat Payout} {i : Nat} {x : Sub} (d : Denom)
    (hA : A'.get (i, x.addr) = A.get (i, x.addr)) (hP : P'.get i = P.get i) : rem A' P' i x d = rem A P i x d := by
  unfold rem usedOf; rw [hA, hP]

theorem subWF_congr {A A' : Tbl (Nat × Addr) Alloc} {P P' : Tbl Nat Payout} {i : Nat} {x : Sub}
    (hA : A'.get (i, x.addr) = A.get (i, x.addr)) (hP : P'.get i = P.get i) (h : SubWF A P i x) : SubWF A' P' i x := by
  unfold SubWF at h ⊢; rw [hA, hP]; exact h

/-- The same record under another address-preserving rewrite (status, deadline). -/
theorem rem_kind {A : Tbl (Nat × Addr) Alloc} {P : Tbl Nat Payout} {i : Nat} {x x' : Sub} (d : Denom)
    (hk : x'.kind = x.kind) (ha : x'.addr = x.addr) : rem A P i x' d = rem A P i x d := by
  unfold rem; rw [hk, ha]

theorem subWF_kind {A : Tbl (Nat × Addr) Alloc} {P : Tbl Nat Payout} {i : Nat} {x x' : Sub}
    (hk : x'.kind = x.kind) (ha : x'.addr = x.addr) (h : SubWF A P i x) : SubWF A P i x' := by
  unfold SubWF at h ⊢; rw [hk, ha]; exact h

/-! ### locality -/

theorem owed_split (s : State) (hn : Tbl.Nodup s.subs) (j : Nat) (a : Addr) (d : Denom) :
    owed s a d = contrib s j a d +
      (s.subs.erase j).sumKV (fun i x => if x.addr = a then rem s.allocs s.payouts i x d else 0) := by
  have := Tbl.sumKV_erase (fun i x => if x.addr = a then rem s.allocs s.payouts i x d else 0) hn j
  unfold owed contrib
  rw [this]
  cases s.subs.get j <;> simp

/-- **Locality.** A step that changes the subscription, allocation and payout tables at the single
subscription id `j` only, and changes every escrow record by exactly the change of `j`'s unsettled
part, preserves the invariant (given well-formedness of the new record at `j`, if any). -/
theorem EscrowSplit.local {s s' : State} (j : Nat) (hi : EscrowSplit s)
    (hn : Tbl.Nodup s.subs) (hn' : Tbl.Nodup s'.subs)
    (hS : ∀ i, i ≠ j → s'.subs.get i = s.subs.get i)
    (hA : ∀ i a, i ≠ j → s'.allocs.get (i, a) = s.allocs.get (i, a))
    (hP : ∀ i, i ≠ j → s'.payouts.get i = s.payouts.get i)
    (hD : ∀ a d, escrowOf s' a d = escrowOf s a d - contrib s j a d + contrib s' j a d)
    (hW : ∀ x, s'.subs.get j = some x → SubWF s'.allocs s'.payouts j x) : EscrowSplit s' := by
  refine ⟨fun a d => ?_, fun i x hx => ?_⟩
  · rw [hD a d, hi.split a d, owed_split s hn j a d, owed_split s' hn' j a d]
    have e1 : (s'.subs.erase j).sumKV (fun i x => if x.addr = a then rem s'.allocs s'.payouts i x d else 0) =
        (s.subs.erase j).sumKV (fun i x => if x.addr = a then rem s'.allocs s'.payouts i x d else 0) := by
      refine sumKV_ext _ (Tbl.nodup_erase hn j) (Tbl.nodup_erase hn' j) (fun k => ?_)
      rw [Tbl.get_erase, Tbl.get_erase]
      by_cases e : j = k
      · simp [e]
      · simp only [e, if_false]; exact hS k (Ne.symm e)
    have e2 : (s.subs.erase j).sumKV (fun i x => if x.addr = a then rem s'.allocs s'.payouts i x d else 0) =
        (s.subs.erase j).sumKV (fun i x => if x.addr = a then rem s.allocs s.payouts i x d else 0) := by
      refine Tbl.sumKV_congr_get _ _ (Tbl.nodup_erase hn j) (fun k v hg => ?_)
      rw [Tbl.get_erase] at hg
      by_cases e : j = k
      · simp [e] at hg
      · rw [rem_congr d (hA k v.addr (Ne.symm e)) (hP k (Ne.symm e))]
    rw [e1, e2]; omega
  · by_cases e : i = j
    · subst e; exact hW x hx
    · rw [hS i e] at hx
      exact subWF_congr (hA i x.addr e) (hP i e) (hi.wf i x hx)

/-- A step that leaves the four tables the invariant reads alone. -/
theorem EscrowSplit.of_eqs {s s' : State} (hd : s'.deposits = s.deposits) (hs : s'.subs = s.subs)
    (ha : s'.allocs = s.allocs) (hp : s'.payouts = s.payouts) (hi : EscrowSplit s) : EscrowSplit s' := by
  refine ⟨fun a d => ?_, fun i x hx => ?_⟩
  · have := hi.split a d
    unfold escrowOf owed at this ⊢
    rw [hd, hs, ha, hp]; exact this
  · rw [hs] at hx; rw [ha, hp]; exact hi.wf i x hx

theorem EscrowSplit.of_views {s s' : State} (h1 : subView s' = subView s) (hd : s'.deposits = s.deposits)
    (hi : EscrowSplit s) : EscrowSplit s' :=
  hi.of_eqs hd (congrArg SubView.subs h1) (congrArg SubView.allocs h1) (congrArg SubView.payouts h1)

theorem contrib_none {s : State} {j : Nat} (h : s.subs.get j = none) (a : Addr) (d : Denom) : contrib s j a d = 0 := by
  unfold contrib; rw [h]

theorem contrib_some {s : State} {j : Nat} {x : Sub} (h : s.subs.get j = some x) (a : Addr) (d : Denom) :
    contrib s j a d = if x.addr = a then rem s.allocs s.payouts j x d else 0 := by
  unfold contrib; rw [h]


/-! ### the unsettled part, by kind of subscription -/

theorem rem_gb {A : Tbl (Nat × Addr) Alloc} {P : Tbl Nat Payout} {i : Nat} {x : Sub} {n : Addr} {gb hr : Int} {dep : Coin}
    (hk : x.kind = .node n gb hr dep) (hgb : gb ≠ 0) (d : Denom) :
    rem A P i x d = if dep.denom = d then dep.amount - charge (Int.tdiv dep.amount gb) (usedOf A i x.addr) else 0 := by
  unfold rem; rw [hk]; simp only [hgb, ne_eq, not_false_eq_true, if_true]

theorem rem_hr {A : Tbl (Nat × Addr) Alloc} {P : Tbl Nat Payout} {i : Nat} {x : Sub} {n : Addr} {hr : Int} {dep : Coin} {p : Payout}
    (hk : x.kind = .node n 0 hr dep) (hp : P.get i = some p) (d : Denom) :
    rem A P i x d = if p.price.denom = d then p.price.amount * p.hours else 0 := by
  unfold rem; rw [hk]; simp only [ne_eq, not_true_eq_false, if_false, hp]

theorem rem_plan {A : Tbl (Nat × Addr) Alloc} {P : Tbl Nat Payout} {i : Nat} {x : Sub} {pid : Nat} {dn : Denom}
    (hk : x.kind = .plan pid dn) (d : Denom) : rem A P i x d = 0 := by
  unfold rem; rw [hk]

theorem usedOf_some {A : Tbl (Nat × Addr) Alloc} {i : Nat} {a : Addr} {al : Alloc} (h : A.get (i, a) = some al) :
    usedOf A i a = al.used := by
  unfold usedOf; rw [h]

theorem subWF_plan {A : Tbl (Nat × Addr) Alloc} {P : Tbl Nat Payout} {i : Nat} {x : Sub} {pid : Nat} {dn : Denom}
    (hk : x.kind = .plan pid dn) : SubWF A P i x := by
  unfold SubWF; rw [hk]; trivial

/-- A new subscription under an unused id. -/
theorem EscrowSplit.create {s s' : State} {j : Nat} {x : Sub} (hi : EscrowSplit s) (hn : Tbl.Nodup s.subs)
    (hf : s.subs.get j = none) (hS : s'.subs = s.subs.set j x)
    (hA : ∀ i a, i ≠ j → s'.allocs.get (i, a) = s.allocs.get (i, a))
    (hP : ∀ i, i ≠ j → s'.payouts.get i = s.payouts.get i)
    (hD : ∀ a d, escrowOf s' a d = escrowOf s a d + (if x.addr = a then rem s'.allocs s'.payouts j x d else 0))
    (hW : SubWF s'.allocs s'.payouts j x) : EscrowSplit s' := by
  have hg : s'.subs.get j = some x := by rw [hS, Tbl.get_set]; simp
  refine EscrowSplit.local j hi hn (by rw [hS]; exact Tbl.nodup_set hn j x) ?_ hA hP ?_ ?_
  · intro i hne; rw [hS, Tbl.get_set_ne _ _ (Ne.symm hne)]
  · intro a d; rw [hD a d, contrib_none hf, contrib_some hg]; omega
  · intro y hy; rw [hg] at hy; cases hy; exact hW

/-- The record at `j` rewritten (or kept), allocations and payouts changed at `j` only, with the same
unsettled part; escrow records untouched. -/
theorem EscrowSplit.rewrite {s s' : State} {j : Nat} {x x' : Sub} (hi : EscrowSplit s) (hn : Tbl.Nodup s.subs)
    (hx : s.subs.get j = some x) (hS : s'.subs = s.subs.set j x' ∨ (s'.subs = s.subs ∧ x' = x))
    (hA : ∀ i a, i ≠ j → s'.allocs.get (i, a) = s.allocs.get (i, a))
    (hP : ∀ i, i ≠ j → s'.payouts.get i = s.payouts.get i)
    (hdep : s'.deposits = s.deposits)
    (hR : ∀ a d, (if x'.addr = a then rem s'.allocs s'.payouts j x' d else 0) = (if x.addr = a then rem s.allocs s.payouts j x d else 0))
    (hW : SubWF s'.allocs s'.payouts j x') : EscrowSplit s' := by
  have hg : s'.subs.get j = some x' := by
    rcases hS with hS | ⟨hS, e⟩
    · rw [hS, Tbl.get_set]; simp
    · rw [hS, e]; exact hx
  refine EscrowSplit.local j hi hn ?_ ?_ hA hP ?_ ?_
  · rcases hS with hS | ⟨hS, _⟩
    · rw [hS]; exact Tbl.nodup_set hn j x'
    · rw [hS]; exact hn
  · intro i hne
    rcases hS with hS | ⟨hS, _⟩
    · rw [hS, Tbl.get_set_ne _ _ (Ne.symm hne)]
    · rw [hS]
  · intro a d
    have e : escrowOf s' a d = escrowOf s a d := by unfold escrowOf; rw [hdep]
    rw [e, contrib_some hx, contrib_some hg, hR a d]; omega
  · intro y hy; rw [hg] at hy; cases hy; exact hW

/-! ### escrow records under the deposit keeper's writes -/

theorem escrowOf_deposits {s s' : State} (h : s'.deposits = s.deposits) (a : Addr) (d : Denom) :
    escrowOf s' a d = escrowOf s a d := by
  unfold escrowOf; rw [h]

theorem escrowOf_setDeposit (s : State) (a : Addr) (cs : Coins) (a' : Addr) (d : Denom) :
    escrowOf (setDeposit s a cs) a' d = if a = a' then cs.amountOf d else escrowOf s a' d := by
  unfold escrowOf setDeposit
  simp only [Tbl.get_set]
  split <;> rfl

/-- An emptied record is deleted — and an absent record counts as empty. -/
theorem escrowOf_putDeposit (s : State) (a : Addr) (cs : Coins) (a' : Addr) (d : Denom) :
    escrowOf (putDeposit s a cs) a' d = if a = a' then cs.amountOf d else escrowOf s a' d := by
  unfold putDeposit
  split
  · rename_i hz
    unfold escrowOf deleteDeposit
    simp only [Tbl.get_erase]
    split
    · simp only [Option.getD_none, Coins.amountOf_nil]; exact (Coins.amountOf_of_isZero hz d).symm
    · rfl
  · exact escrowOf_setDeposit s a cs a' d

theorem sendCoins_deposits {s s' : State} {f t : Addr} {c : Coin} (h : sendCoins s f t c = .ok s') :
    s'.deposits = s.deposits := by
  have := (sendCoins_ok h).2.1
  rw [this]

theorem depositAdd_escrow {s s' : State} {f t : Addr} {c : Coin} (h : depositAdd s f t c = .ok s') (a' : Addr) (d : Denom) :
    escrowOf s' a' d = escrowOf s a' d + (if t = a' ∧ c.denom = d then c.amount else 0) := by
  unfold depositAdd at h
  simp only [bind_eq_ok, pure_eq_ok, require_eq_ok] at h
  obtain ⟨s1, hs1, _, _, rfl⟩ := h
  have hd := sendCoins_deposits hs1
  show escrowOf (setDeposit s1 t _) a' d = _
  rw [escrowOf_setDeposit, escrowOf_deposits hd]
  by_cases e : t = a'
  · subst e
    simp only [true_and, if_true, Coins.amountOf_add]
    unfold escrowOf getDeposit; rw [hd]
  · simp [e]

theorem addDeposit_escrow {s s' : State} {a : Addr} {c : Coin} (h : addDeposit s a c = .ok s') (a' : Addr) (d : Denom) :
    escrowOf s' a' d = escrowOf s a' d + (if a = a' ∧ c.denom = d then c.amount else 0) := by
  unfold addDeposit at h
  split at h
  · rename_i hz
    rw [pure_eq_ok] at h; subst h; rw [hz]; simp
  · exact depositAdd_escrow h a' d

theorem depositToAccount_escrow {s s' : State} {f t : Addr} {c : Coin} (h : depositToAccount s f t c = .ok s')
    (a' : Addr) (d : Denom) :
    escrowOf s' a' d = escrowOf s a' d - (if f = a' ∧ c.denom = d then c.amount else 0) := by
  unfold depositToAccount sendModuleToAccount at h
  simp only [bind_eq_ok, pure_eq_ok, require_eq_ok, orReject_eq_ok] at h
  obtain ⟨cur, hcur, _, _, s1, hs1, rfl⟩ := h
  split at hs1
  · simp [reject] at hs1
  · have hd := sendCoins_deposits hs1
    show escrowOf (putDeposit s1 f _) a' d = _
    rw [escrowOf_putDeposit, escrowOf_deposits hd]
    by_cases e : f = a'
    · subst e
      simp only [true_and, if_true, Coins.amountOf_sub]
      unfold escrowOf; unfold getDeposit at hcur; rw [hcur]; rfl
    · simp [e]

theorem depositToModule_escrow {s s' : State} {f m : Addr} {c : Coin} (h : depositToModule s f m c = .ok s')
    (a' : Addr) (d : Denom) :
    escrowOf s' a' d = escrowOf s a' d - (if f = a' ∧ c.denom = d then c.amount else 0) := by
  unfold depositToModule at h
  simp only [bind_eq_ok, pure_eq_ok, require_eq_ok, orReject_eq_ok] at h
  obtain ⟨cur, hcur, _, _, s1, hs1, rfl⟩ := h
  have hd := sendCoins_deposits hs1
  show escrowOf (putDeposit s1 f _) a' d = _
  rw [escrowOf_putDeposit, escrowOf_deposits hd]
  by_cases e : f = a'
  · subst e
    simp only [true_and, if_true, Coins.amountOf_sub]
    unfold escrowOf; unfold getDeposit at hcur; rw [hcur]; rfl
  · simp [e]

theorem subtractDeposit_escrow {s s' : State} {a : Addr} {c : Coin} (h : subtractDeposit s a c = .ok s')
    (a' : Addr) (d : Denom) :
    escrowOf s' a' d = escrowOf s a' d - (if a = a' ∧ c.denom = d then c.amount else 0) := by
  unfold subtractDeposit at h
  split at h
  · rename_i hz
    rw [pure_eq_ok] at h; subst h; rw [hz]; simp
  · exact depositToAccount_escrow h a' d

theorem sendCoinFromDepositToAccount_escrow {s s' : State} {f t : Addr} {c : Coin}
    (h : sendCoinFromDepositToAccount s f t c = .ok s') (a' : Addr) (d : Denom) :
    escrowOf s' a' d = escrowOf s a' d - (if f = a' ∧ c.denom = d then c.amount else 0) := by
  unfold sendCoinFromDepositToAccount at h
  split at h
  · rename_i hz
    rw [pure_eq_ok] at h; subst h; rw [hz]; simp
  · exact depositToAccount_escrow h a' d

theorem sendCoinFromDepositToModule_escrow {s s' : State} {f m : Addr} {c : Coin}
    (h : sendCoinFromDepositToModule s f m c = .ok s') (a' : Addr) (d : Denom) :
    escrowOf s' a' d = escrowOf s a' d - (if f = a' ∧ c.denom = d then c.amount else 0) := by
  unfold sendCoinFromDepositToModule at h
  split at h
  · rename_i hz
    rw [pure_eq_ok] at h; subst h; rw [hz]; simp
  · exact depositToModule_escrow h a' d

/-! ### coins built by the model -/

theorem newCoin_eq_ok {d : Denom} {a : Int} {c : Coin} (h : newCoin d a = .ok c) : c = ⟨d, a⟩ ∧ 0 ≤ a := by
  unfold newCoin at h
  split at h
  · simp [gopanic] at h
  · split at h
    · simp [gopanic] at h
    · rename_i hneg
      simp only [pure, Except.pure, Except.ok.injEq] at h
      exact ⟨h.symm, by omega⟩

theorem proportion_denom {c r : Coin} {sh : Dec} (h : GetProportionOfCoin c sh = .ok r) : r.denom = c.denom := by
  unfold GetProportionOfCoin at h
  simp only [bind_eq_ok] at h
  obtain ⟨t1, _, t2, _, h3⟩ := h
  rw [(newCoin_eq_ok h3).1]

theorem quo_eq_ok {a b r : Int} (h : SInt.quo a b = .ok r) : b ≠ 0 ∧ r = Int.tdiv a b := by
  unfold SInt.quo at h
  split at h
  · simp [gopanic] at h
  · rename_i hb
    simp only [pure, Except.pure, Except.ok.injEq] at h
    exact ⟨hb, h.symm⟩

end Hub.Model.Escrow
