import Hub.Lemmas.CalendarDefs
/- Chunk 13 of the complete day-of-era table: entries [13 * 9131, (13 + 1) * 9131), evaluated by the kernel. -/
namespace Hub.Lemmas.Calendar

theorem chunk13 : allFrom entryOK (13 * 9131) 9131 = true := by decide +kernel

end Hub.Lemmas.Calendar
