#!/bin/bash
# evidence of runs on a changed tree must not overwrite the committed evidence of the unchanged tree
export VERIF_EVIDENCE_DIR=/verif/.cache/mutant_evidence
# usage: mutant.sh verify <id>      -- re-verify a sub-agent's mutant in its scratch worktree /tmp/mut/<id>
#        mutant.sh run <id> <prop>  -- apply /verif/seeded/<id>/patch.diff to /repo, run the quick check of <prop>, undo
set -u
export GOFLAGS=-mod=mod GOPROXY=off GOSUMDB=off GOTOOLCHAIN=local
cmd=$1; id=$2
case $cmd in
verify)
  wt=/tmp/mut/${MUTDIR:-$id}
  cd $wt || exit 2
  loc=$(python3 -c "import json;print(json.load(open('mutant/meta.json'))['demo_location'])")
  dcmd=$(python3 -c "import json;print(json.load(open('mutant/meta.json'))['demo_cmd'])")
  echo "== build+tests with the change"; go build ./... && go test -count=1 ./... 2>&1 | grep -v 'no test files' | grep -v '^ok' | head -5; echo "tests-exit-ok"
  mkdir -p $loc; cp mutant/demo_test.go.txt $loc/zz_demo_test.go
  echo "== demo WITH change (expect FAIL)"; (eval "$dcmd") 2>&1 | tail -4
  git apply -R mutant/patch.diff || { echo "cannot revert patch"; exit 2; }
  echo "== demo WITHOUT change (expect PASS)"; (eval "$dcmd") 2>&1 | tail -3
  git apply mutant/patch.diff
  rm -f $loc/zz_demo_test.go
  mkdir -p /verif/seeded/$id && cp mutant/patch.diff mutant/demo_test.go.txt mutant/meta.json /verif/seeded/$id/
  ;;
run)
  prop=$3
  cd /verif
  git -C /repo apply /verif/seeded/$id/patch.diff || { echo "patch does not apply"; exit 2; }
  python3 check.py --property $prop --tier quick > /verif/.cache/mutant_${id}_${prop}.log 2>&1; rc=$?; grep -E 'VIOLATION|KNOWN-FINDING' /verif/.cache/mutant_${id}_${prop}.log | head -5; echo "check-exit=$rc"
  git -C /repo checkout -- .
  git -C /repo status --short | head -3
  ;;
esac
