#!/usr/bin/env python3
"""Compare the implementation's and the model's answers to one operation file (T-corr).

Both streams consist of blocks: '> op', 'R result', 'E event'*, ('+S'|'-S') delta lines, model-only
'V monitor' lines.  Compared per operation: accept/reject/halt, the ordered hub events, and the
state delta as a set.  Returns a list of mismatches (first one first)."""
import re
import sys, json

SECTIONS = None

def blocks(path):
    cur = None
    with open(path, errors='replace') as f:
        for line in f:
            line = line.rstrip('\n')
            if line.startswith('> '):
                if cur is not None:
                    yield cur
                cur = {'op': line[2:], 'R': None, 'E': [], 'D': [], 'V': [], 'X': []}
            elif cur is None:
                continue
            elif line.startswith('R '):
                cur['R'] = line[2:]
            elif line.startswith('E ') or line.startswith('M ') or line.startswith('Q ') or line.startswith('G '):
                cur['E'].append(line)
            elif line.startswith('+S') or line.startswith('-S'):
                cur['D'].append(line)
            elif line.startswith('V '):
                cur['V'].append(line)
            else:
                cur['X'].append(line)
    if cur is not None:
        yield cur

def rclass(r):
    if r is None:
        return 'none'
    for p in ('accept', 'reject', 'halted', 'halt', 'bad-op'):
        if r.startswith(p):
            return p
    return r

def section_of(dline):
    # '+S vpn node 10...' -> 'vpn/node/10' ; '+S bank ...' -> 'bank'
    parts = dline[1:].split(' ')
    if len(parts) >= 4 and parts[1] == 'vpn':
        return 'vpn/%s/%s' % (parts[2], parts[3][:2])
    return parts[1] if len(parts) > 1 else '?'

def compare(impl_path, model_path, events=True, limit=5):
    out = []
    n = 0
    stats = {'ops': 0, 'accept': 0, 'reject': 0, 'halt': 0, 'monitor_hits': []}
    bi, bm = blocks(impl_path), blocks(model_path)
    while True:
        a = next(bi, None)
        b = next(bm, None)
        if a is None and b is None:
            break
        n += 1
        if a is None or b is None:
            out.append({'index': n, 'kind': 'length', 'impl_op': a and a['op'], 'model_op': b and b['op']})
            break
        if a['op'] != b['op']:
            out.append({'index': n, 'kind': 'desync', 'impl_op': a['op'], 'model_op': b['op']})
            break
        stats['ops'] += 1
        ra, rb = rclass(a['R']), rclass(b['R'])
        stats[ra] = stats.get(ra, 0) + 1
        for v in b['V']:
            stats['monitor_hits'].append({'index': n, 'op': a['op'], 'monitor': v})
        if rb == 'bad-op':
            out.append({'index': n, 'kind': 'model-bad-op', 'op': a['op']})
        elif ra != rb:
            out.append({'index': n, 'kind': 'result', 'op': a['op'], 'impl': a['R'], 'model': b['R'], 'section': 'result'})
        else:
            da, db = set(a['D']), set(b['D'])
            if da != db:
                only_i = sorted(da - db)
                only_m = sorted(db - da)
                secs = sorted({section_of(x) for x in only_i + only_m})
                out.append({'index': n, 'kind': 'state', 'op': a['op'], 'impl_R': a['R'], 'only_impl': only_i[:12], 'only_model': only_m[:12], 'sections': secs})
            elif events and a['E'] != b['E']:
                out.append({'index': n, 'kind': 'events', 'op': a['op'], 'impl': a['E'][:12], 'model': b['E'][:12], 'section': 'events'})
        if len(out) >= limit:
            break
    return out, stats

def roundtrip_analysis(impl_path):
    """C12 on the implementation's stream: every `export` must validate; every `reimport` must
    reproduce the stored state (the harness prints the full dump of the re-imported app)."""
    state = set()
    out = {'exports': 0, 'reimports': 0, 'export_rejects': [], 'reimport_diffs': []}
    n = 0
    fresh_import = False      # an accepted re-import whose first block has not ended yet
    bounds_changed = False    # governance changed a node price bound since then
    for b in blocks(impl_path):
        n += 1
        kind = b['op'].split()[0] if b['op'] else ''
        if kind == 'gov' and rclass(b['R']) == 'accept' and re.search(r'space=node key=(Max|Min)(Gigabyte|Hourly)Prices', b['op']):
            bounds_changed = True
        if kind == 'end' and fresh_import:
            # the first block of the re-imported chain runs the node price sweep (InitGenesis marks every bound as
            # modified). In a state exported from a reachable state every price is within the bounds, so the sweep
            # changes nothing: a node re-priced by this hook, with no bound changed in the block, is a record
            # altered by the round trip
            if not bounds_changed and rclass(b['R']) == 'accept':
                def prices(sign):
                    d = {}
                    for l in b['D']:
                        t = l.split()
                        if l.startswith(sign + 'S vpn node 10') and len(t) > 4:
                            f = dict(y.split('=', 1) for y in t[4:] if '=' in y)
                            d[t[3]] = (f.get('gb'), f.get('hr'), l[1:])
                    return d
                old, new_ = prices('-'), prices('+')
                ch = [k for k in new_ if k in old and old[k][:2] != new_[k][:2]]
                if ch:
                    out['reimport_diffs'].append({'index': n, 'lost': [old[k][2] for k in ch][:20], 'gained': [new_[k][2] for k in ch][:20],
                                                  'sections': ['vpn/node/10'], 'what': 'node re-priced by the first block after a re-import'})
            fresh_import = False
        if kind == 'reimport' and rclass(b['R']) == 'accept':
            fresh_import, bounds_changed = True, False
            new = {l[1:] for l in b['D'] if l.startswith('+')}
            ign = lambda l: l.startswith('S sdkmint')
            lost = sorted(l for l in state - new if not ign(l))
            gained = sorted(l for l in new - state if not ign(l))
            out['reimports'] += 1
            if lost or gained:
                out['reimport_diffs'].append({'index': n, 'lost': lost[:40], 'gained': gained[:40],
                                              'sections': sorted({section_of('+' + l) for l in lost + gained})})
            state = new
            continue
        for l in b['D']:
            if l.startswith('+'):
                state.add(l[1:])
            elif l.startswith('-'):
                state.discard(l[1:])
        if kind == 'export':
            out['exports'] += 1
            if rclass(b['R']) != 'accept':
                out['export_rejects'].append({'index': n, 'result': (b['R'] or '')[:200]})
        if kind == 'reimport' and rclass(b['R']) != 'accept':
            out['export_rejects'].append({'index': n, 'result': (b['R'] or '')[:200]})
    return out


if __name__ == '__main__':
    mism, stats = compare(sys.argv[1], sys.argv[2])
    print(json.dumps({'mismatches': mism, 'stats': {k: v for k, v in stats.items() if k != 'monitor_hits'}, 'monitor_hits': stats['monitor_hits'][:10]}, indent=1))
    sys.exit(1 if mism else 0)
