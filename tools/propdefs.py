"""Per-property projection of the correspondence check and metadata (DESIGN.md §7)."""

IDX = ['vpn/node/11', 'vpn/node/12', 'vpn/plan/11', 'vpn/subscription/11', 'vpn/subscription/12', 'vpn/subscription/13',
       'vpn/subscription/14', 'vpn/subscription/31', 'vpn/subscription/32', 'vpn/subscription/33', 'vpn/subscription/34',
       'vpn/session/11', 'vpn/session/12', 'vpn/session/13', 'vpn/session/14', 'vpn/session/15']
MONEY_OPS = ['tx:nodeSubscribe', 'tx:planSubscribe', 'tx:provRegister', 'tx:nodeRegister', 'begin', 'end']
ALL_TX = ['tx']

PROPS = {
 'C01': dict(level='proof', sections=['bank', 'supply', 'vpn/deposit'], result_ops=MONEY_OPS + ['tx:swap'], monitors=['backed', 'supply'],
             assumptions=['configuration domain of DESIGN.md §5', 'bank/distribution modelled by hand (fee collector sweep)']),
 'C02': dict(level='proof', sections=['bank', 'vpn/deposit', 'vpn/subscription/10', 'vpn/subscription/20', 'vpn/subscription/30', 'event:PayFor', 'event:Refund', 'events'],
             result_ops=MONEY_OPS, monitors=['escrowSplit'], uses_generated=True, probe=True),
 'C03': dict(level='proof', sections=[], result_ops=['begin', 'end'], monitors=['lifecycle'], halts=True),
 'C04': dict(level='proof', sections=['vpn/node/10', 'vpn/node/11', 'vpn/subscription/10', 'vpn/subscription/11', 'vpn/subscription/30', 'vpn/subscription/31',
                                      'vpn/session/10', 'vpn/session/11', 'events'], result_ops=['begin', 'end', 'tx:subCancel', 'tx:sessEnd', 'tx:nodeStatus'],
             monitors=['deadlinesFuture', 'statuses']),
 'C05': dict(level='proof', sections=['bank', 'vpn/subscription/10', 'vpn/subscription/30', 'vpn/deposit', 'events'], result_ops=['tx:nodeSubscribe', 'tx:planSubscribe'],
             monitors=['escrowSplit'], uses_generated=True, probe=True),
 'C06': dict(level='proof', sections=['vpn/subscription/20', 'vpn/subscription/12'], result_ops=['tx:subAllocate', 'tx:sessStart'], monitors=['allocBounds', 'quotaConserved']),
 'C07': dict(level='proof', sections=None, result_ops=['*'], monitors=[]),
 'C08': dict(level='proof', sections=['vpn/subscription/34', 'vpn/session/15'], result_ops=['tx'], monitors=['statuses']),
 'C09': dict(level='proof', sections=IDX, result_ops=['query'], monitors=['nodeIdx', 'sessIdx', 'subIdx', 'partitions', 'wellFormed'], uses_generated=True),
 'C10': dict(level='proof', sections=None, result_ops=['*'], monitors=[], uses_generated=True, determinism=True,
             partial='runtime half (goroutine scheduling, map seeds) is differential only: re-executions compared byte for byte incl. app hash'),
 'C11': dict(level='proof', sections=['vpn/node/10', 'param'], result_ops=['tx:nodeRegister', 'tx:nodeUpdate', 'tx:nodeSubscribe', 'gov'], monitors=['prices']),
 'C12': dict(level='proof', sections=None, result_ops=['export', 'reimport'], monitors=['exportValid'], roundtrip=True,
             partial='subscriptions/allocations/payouts/counters are not exported (F5), the session counter is rebuilt from live ids (F9), small swaps invalidate the export (F4): known findings; roundtrip_partial covers the surviving tables'),
 'C13': dict(level='proof', sections=[], result_ops=['query'], monitors=[], uses_generated=True, probe=True),
 'C14': dict(level='proof', sections=['swap', 'bank', 'supply'], result_ops=['tx:swap'], monitors=['swaps', 'supply'], uses_generated=True),
 'C15': dict(level='proof', sections=['custommint', 'sdkmint', 'events'], result_ops=['mintprobe', 'begin'], monitors=[]),
 'C16': dict(level='proof', sections=['vpn/deposit', 'event:PayFor'], result_ops=[], monitors=['escrowSplit'], probe=True, uses_generated=True),
 'C17': dict(level='proof', sections=[], result_ops=[], monitors=[], probe=True, uses_generated=True),
 'C18': dict(level='proof', sections=['vpn/plan/00', 'vpn/subscription/00', 'vpn/session/00', 'vpn/plan/10', 'vpn/subscription/10', 'vpn/session/10', 'vpn/subscription/20', 'vpn/subscription/30'],
             result_ops=['tx:planCreate', 'tx:nodeSubscribe', 'tx:planSubscribe', 'tx:sessStart'], monitors=['counters']),
 'C19': dict(level='proof', sections=['param'], result_ops=['export'], monitors=[], probe=True, uses_generated=True,
             partial='JSON half reduces to the regenerated enum tables: status_json_roundtrip is FALSE on this tree (known finding F7, witness theorem status_json_roundtrip_fails)'),
}
