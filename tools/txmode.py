#!/usr/bin/env python3
"""Cross-check of the harness's handler mode against the real transaction path (DESIGN.md section 3.4).

  python3 tools/txmode.py [--hubsim BIN] [--gen N --seed0 S --blocks B --profile keyed --workdir DIR] [ops files ...]

For every operation file: `hubsim run` (handler mode: Sim.Deliver re-implements runTx/runMsgs for one message)
and `hubsim run -tx` (every `tx` operation that can be signed is a signed transaction through the application's
own DeliverTx and ante handler, harness/sim/txmode.go) are executed, and the two output streams are compared
operation by operation: result line, hub events, state delta, and whatever else the operation printed (query
answers, export lines ...). `--gen N` first generates N histories of the given profile (seeds S .. S+N-1).

Not compared, with the reason:
  * `A apphash=` lines: tx mode writes what the ante handler writes (the sender's sequence number, the wasm
    module's transaction counter); neither is part of the canonical state dump, both are part of the hash.
  * `T` lines: tx mode's own account of what it did with the operation (counted below).
Everything else must be identical, including the normalised error text (cosmossdk.io/errors puts err.Error()
into the response's log). A difference of accept/reject is reported as kind `class`, a different reject line
as `result`, then `events`, `delta`, `other`.

Prints a JSON summary; exit 0 = the modes agree, 1 = at least one mismatch, 2 = a run failed.
"""
import argparse, json, os, subprocess, sys
from concurrent.futures import ThreadPoolExecutor


def parse(stream):
    """Split an output stream of `hubsim run` into one record per operation."""
    recs = []
    cur = None
    for line in stream.split('\n'):
        if line.startswith('> '):
            cur = {'op': line[2:], 'result': None, 'tinfo': None, 'events': [], 'delta': [], 'other': [], 'apphash': None}
            recs.append(cur)
        elif cur is None:
            if line:
                raise ValueError('output before the first operation: ' + line[:200])
        elif line.startswith('R ') and cur['result'] is None:
            cur['result'] = line[2:]
        elif line.startswith('T '):
            cur['tinfo'] = line[2:]
        elif line.startswith('A apphash='):
            cur['apphash'] = line
        elif line.startswith('E '):
            cur['events'].append(line)
        elif line.startswith('+') or line.startswith('-'):
            cur['delta'].append(line)
        elif line:
            cur['other'].append(line)
    return recs


def klass(result):
    return 'accept' if result == 'accept' else (result or '').split(':')[0]


def first_diff(a, b):
    n = next((i for i in range(min(len(a), len(b))) if a[i] != b[i]), min(len(a), len(b)))
    return {'at': n, 'handler': a[n][:400] if n < len(a) else None, 'tx': b[n][:400] if n < len(b) else None,
            'handler_lines': len(a), 'tx_lines': len(b)}


def run_mode(hubsim, ops, tx, timeout):
    cmd = [hubsim, 'run'] + (['-tx'] if tx else [])
    with open(ops, 'rb') as fi:
        p = subprocess.run(cmd, stdin=fi, stdout=subprocess.PIPE, stderr=subprocess.PIPE, timeout=timeout)
    return p.returncode, p.stdout.decode(errors='replace'), p.stderr.decode(errors='replace')


def compare_file(hubsim, ops, timeout=1800):
    """Run both modes on one operation file. Returns the per-file summary dict."""
    res = {'file': ops, 'ops': 0, 'tx_ops': 0, 'delivered': 0, 'fallbacks': {}, 'delivered_results': {},
           'mismatches': [], 'errors': []}
    try:
        rc_h, out_h, err_h = run_mode(hubsim, ops, False, timeout)
        rc_t, out_t, err_t = run_mode(hubsim, ops, True, timeout)
    except subprocess.TimeoutExpired as e:
        res['errors'].append('time limit: %s' % e)
        return res
    # an operation file that the harness itself refuses (exit 2, e.g. an operation it cannot build) must be
    # refused by both modes at the same operation; a Go crash (any other code) is an error of the run
    if rc_h != rc_t or rc_h not in (0, 2):
        res['errors'].append('exit codes: handler mode %d, tx mode %d; %s | %s' % (rc_h, rc_t, err_h[-300:].strip().split('\n')[-1], err_t[-300:].strip().split('\n')[-1]))
    try:
        a, b = parse(out_h), parse(out_t)
    except ValueError as e:
        res['errors'].append(str(e))
        return res
    if len(a) != len(b):
        res['errors'].append('handler mode answered %d operations, tx mode %d' % (len(a), len(b)))
    for i, (x, y) in enumerate(zip(a, b)):
        res['ops'] += 1
        if x['op'] != y['op']:
            res['errors'].append('operation %d differs: %s | %s' % (i, x['op'][:200], y['op'][:200]))
            break
        if x['tinfo'] is not None:
            res['errors'].append('handler mode printed a T line at operation %d' % i)
        if x['op'].startswith('tx '):
            res['tx_ops'] += 1
            t = (y['tinfo'] or '').split()
            if t[:1] == ['deliver']:
                res['delivered'] += 1
                k = ':'.join((y['result'] or '').split(':')[:2])
                res['delivered_results'][k] = res['delivered_results'].get(k, 0) + 1
            elif t[:1] == ['fallback']:
                reason = t[1].split('=', 1)[1] if len(t) > 1 else '?'
                res['fallbacks'][reason] = res['fallbacks'].get(reason, 0) + 1
            elif y['result'] == 'halted':
                res['halted_tx_ops'] = res.get('halted_tx_ops', 0) + 1  # the application stopped earlier: nothing is executed any more
            else:
                res['errors'].append('tx mode printed no T line for operation %d: %s' % (i, x['op'][:200]))
        elif y['tinfo'] is not None:
            res['errors'].append('T line on a non-tx operation %d' % i)
        kind = detail = None
        if klass(x['result']) != klass(y['result']):
            kind, detail = 'class', {'handler': x['result'], 'tx': y['result']}
        elif x['result'] != y['result']:
            kind, detail = 'result', {'handler': (x['result'] or '')[:400], 'tx': (y['result'] or '')[:400]}
        elif x['events'] != y['events']:
            kind, detail = 'events', first_diff(x['events'], y['events'])
        elif x['delta'] != y['delta']:
            kind, detail = 'delta', first_diff(x['delta'], y['delta'])
        elif x['other'] != y['other']:
            kind, detail = 'other', first_diff(x['other'], y['other'])
        if kind:
            res['mismatches'].append({'file': ops, 'index': i, 'op': x['op'][:600], 'kind': kind, 'tinfo': y['tinfo'], 'detail': detail})
            if kind in ('delta', 'class'):
                # the two applications are in different states from here on: later differences are consequences
                break
    return res


def generate(hubsim, workdir, profile, seed, blocks, timeout=1800):
    ops = os.path.join(workdir, 'tx_%s_%d.ops' % (profile, seed))
    p = subprocess.run([hubsim, 'gen', '-seed', str(seed), '-blocks', str(blocks), '-profile', profile, '-ops', ops],
                       stdout=subprocess.DEVNULL, stderr=subprocess.PIPE, timeout=timeout)
    if p.returncode != 0:
        raise RuntimeError('hubsim gen failed (seed %d): %s' % (seed, p.stderr.decode(errors='replace')[-500:]))
    return ops


def merge(results):
    tot = {'files': len(results), 'ops': 0, 'tx_ops': 0, 'delivered': 0, 'fallbacks': {}, 'delivered_results': {},
           'mismatches': [], 'errors': []}
    for r in results:
        for k in ('ops', 'tx_ops', 'delivered'):
            tot[k] += r[k]
        tot['halted_tx_ops'] = tot.get('halted_tx_ops', 0) + r.get('halted_tx_ops', 0)
        for k in ('fallbacks', 'delivered_results'):
            for a, n in r[k].items():
                tot[k][a] = tot[k].get(a, 0) + n
        tot['mismatches'] += r['mismatches']
        tot['errors'] += ['%s: %s' % (r['file'], e) for e in r['errors']]
    tot['fallback_total'] = sum(tot['fallbacks'].values())
    return tot


def run_all(hubsim, files, jobs=8):
    with ThreadPoolExecutor(max_workers=jobs) as ex:
        return merge(list(ex.map(lambda f: compare_file(hubsim, f), files)))


def main():
    here = os.path.dirname(os.path.abspath(__file__))
    ap = argparse.ArgumentParser()
    ap.add_argument('--hubsim', default=os.path.join(here, '..', 'harness', 'bin', 'hubsim'))
    ap.add_argument('--gen', type=int, default=0, help='generate this many histories first')
    ap.add_argument('--seed0', type=int, default=1)
    ap.add_argument('--blocks', type=int, default=120)
    ap.add_argument('--profile', default='keyed')
    ap.add_argument('--workdir', default=None, help='where generated histories are written (kept)')
    ap.add_argument('--jobs', type=int, default=min(8, os.cpu_count() or 2))
    ap.add_argument('--per-file', action='store_true', help='also print the per-file summaries')
    ap.add_argument('ops', nargs='*')
    a = ap.parse_args()
    files = list(a.ops)
    try:
        if a.gen:
            import tempfile
            wd = a.workdir or tempfile.mkdtemp(prefix='txmode')
            os.makedirs(wd, exist_ok=True)
            with ThreadPoolExecutor(max_workers=a.jobs) as ex:
                files += list(ex.map(lambda s: generate(a.hubsim, wd, a.profile, s, a.blocks), range(a.seed0, a.seed0 + a.gen)))
        if not files:
            ap.error('no operation files')
        with ThreadPoolExecutor(max_workers=a.jobs) as ex:
            results = list(ex.map(lambda f: compare_file(a.hubsim, f), files))
    except (RuntimeError, OSError) as e:
        print(json.dumps({'errors': [str(e)]}, indent=1))
        sys.exit(2)
    tot = merge(results)
    if a.per_file:
        tot['per_file'] = [{k: r[k] for k in ('file', 'ops', 'tx_ops', 'delivered', 'fallbacks')} for r in results]
    print(json.dumps(tot, indent=1))
    sys.exit(2 if tot['errors'] else 1 if tot['mismatches'] else 0)


if __name__ == '__main__':
    main()
