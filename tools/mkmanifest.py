#!/usr/bin/env python3
"""Write MANIFEST.json from the table below (kept valid at all times)."""
import json, os
ROOT = os.path.dirname(os.path.dirname(os.path.abspath(__file__)))
base = json.load(open('/root/.vp/BASELINE.json'))
props = [json.loads(l) for l in open(os.path.join(ROOT, 'properties.jsonl'))]

CLAIMS = {
 'C01': ('proof + correspondence', 'Lean 4 invariant proof (MoneyInv: escrow backed, supply = sum of balances, no mint/burn outside swap) by induction over all histories of the hand-written model; model tied to the code by lock-step differential execution of the real app',
         'DESIGN.md §7 C01'),
 'C05': ('proof + correspondence', 'Lean 4 single-step theorems: whenever the regenerated AmountForBytes / GetProportionOfCoin return, they return the exact ceiling / half-even share (no range hypothesis); an accepted per-gigabyte / per-hour / plan purchase moves exactly quote x quantity (resp. the plan price, split into exactly rounded fee + rest), unquoted denominations are rejected, metered settlement charges the difference of rounded-up cumulative charges at deposit/gigabytes = quoted price; tied by lock-step execution (bank, deposit, subscription, payout, events)',
         'DESIGN.md §7 C05'),
 'C10': ('proof over regenerated fact tables + differential re-execution', 'Lean 4: the regenerated table of nondeterminism-prone constructs (map ranges, time.Now, rand, go/select, floats) over all consensus-critical sources equals a justified list (decide); begin/end-blocker order facts; the model is a pure function of genesis and history. Runtime half is differential only: the same history re-executed in fresh processes with GOMAXPROCS 1/4/16, outputs incl. app hash compared byte for byte',
         'DESIGN.md §7 C10'),
 'C19': ('proof + regenerated descriptors + differential probe', 'Lean 4 protobuf wire model with binary_roundtrip for every well-formed descriptor, instantiated to all 264 message descriptors regenerated from proto/sentinel/**; JSON half reduced to the regenerated Status tables (status_json_roundtrip_fails: known finding F7); probe19 compares model bytes with the real ProtoCodec on type-directed values of every registered type and mutated bytes through decode',
         'DESIGN.md §7 C19'),
 'C11': ('proof + correspondence', 'Lean 4 invariant proof over all histories: every node price within the governance bounds whose modified flag is clear, full bounds after every end-of-block (sweep clamps under min<=max), registrations/updates/purchases outside the bounds rejected; model tied to the code by lock-step differential execution incl. governance parameter changes',
         'DESIGN.md §7 C11'),
 'C14': ('proof + correspondence', 'Lean 4: swap accepted iff enabled, sender = approver, hash unused, receiver not blocked; effect exactly amount/100 minted to the receiver and recorded; one swap per hash along every history; supply growth = sum of recorded swaps for every history; 32-byte hash key injective (regenerated key function)',
         'DESIGN.md §7 C14'),
 'C15': ('proof + correspondence', 'Lean 4: the inflation hook equals takeWhile/dropWhile on the schedule in key order (chronological by the C17 time-key theorem), parameters of the latest due entry, each entry applied at most once over any sequence of block times and any history; tied by lock-step execution and a probe that runs the real hook alone',
         'DESIGN.md §7 C15'),
 'C13': ('proof + correspondence', 'Lean 4 model of the SDK paginator with proofs that key/offset paging of filter-shaped callbacks enumerates exactly once, a refutation (witness) for the gated callback shape the repo uses in two handlers, regenerated callback-shape table, probe against the real query.Paginate/FilteredPaginate',
         'DESIGN.md §7 C13'),
 'C16': ('proof over regenerated definitions', 'Lean 4 theorems about AmountForBytes / GetProportionOfCoin / CeilTo as regenerated from utils/coin.go and types/bandwidth.go on every run; sdkmath model validated by the probe against cosmossdk.io/math',
         'DESIGN.md §7 C16'),
 'C17': ('proof over regenerated definitions', 'Lean 4 theorems about every key constructor/decoder regenerated from x/*/types/keys.go (decode∘encode, injectivity, prefix freedom, prefix isolation, queue order, scan range), time-key order by a complete calendar table (decide +kernel over the 400-year cycle), bech32 round trip and cross-role rejection; probes against the real functions',
         'DESIGN.md §7 C17'),
}
NOTE = 'trusted base: Lean kernel; axioms propext/Classical.choice/Quot.sound only; translator (T-gen) and correspondence harness (T-corr); hand-written models of SDK dependencies (see DESIGN.md §9); hub keeper code is modelled by hand and tied by differential execution'

checks = []
na = []
for p in props:
    pid = p['id']
    if pid in CLAIMS:
        tech, text, ref = CLAIMS[pid]
        checks.append({
            'property_id': pid,
            'quick_cmd': 'python3 check.py --property %s --tier quick' % pid,
            'thorough_cmd': 'python3 check.py --property %s --tier thorough' % pid,
            'evidence_file': 'evidence/%s.json' % pid,
            'replay_cmd_template': 'python3 check.py --property %s --replay {path}' % pid,
            'engine': 'lean4-hub',
            'level_claimed': {'category': 'proof', 'text': text, 'design_ref': ref},
            'level_note': NOTE,
            'technique': 'machine-checked proof in Lean 4 (' + tech + ')',
        })
    else:
        na.append({'property_id': pid, 'reason': 'check under construction in this build round (model and correspondence exist; theorems not yet registered)'})

m = {
 'version': 1,
 'setup_cmd': 'python3 check.py --setup',
 'hooks': {'guard': 'verif', 'enable': 'go build -tags verif (no source hook is needed: the harness imports /repo as a Go module and uses exported keepers only)',
           'baseline_off_cmd': base['cmd'], 'source_commits': [], 'add_only': True},
 'engines': [{'name': 'lean4-hub', 'path': 'lean/', 'serves_properties': sorted(CLAIMS), 'kind_free_text': 'Lean 4 model + theorems (lake project Hub), Go translator (translator/), Go correspondence harness (harness/), driver check.py'}],
 'checks': checks,
 'not_applicable': na,
 'notes': 'See DESIGN.md. Every check regenerates lean/Hub/Generated from /repo, rebuilds the theorems, audits axioms, rebuilds the harness against /repo and runs the correspondence check.',
}
json.dump(m, open(os.path.join(ROOT, 'MANIFEST.json'), 'w'), indent=1)
print('claimed', sorted(CLAIMS), 'n/a', len(na))
