#!/usr/bin/env python3
"""Write MANIFEST.json from the table below (kept valid at all times)."""
import json, os
ROOT = os.path.dirname(os.path.dirname(os.path.abspath(__file__)))
base = json.load(open('/root/.vp/BASELINE.json'))
props = [json.loads(l) for l in open(os.path.join(ROOT, 'properties.jsonl'))]

CLAIMS = {
 'C01': ('proof + correspondence', 'Lean 4 invariant proof (MoneyInv: escrow backed, supply = sum of balances, no mint/burn outside swap) by induction over all histories of the hand-written model; model tied to the code by lock-step differential execution of the real app',
         'DESIGN.md §7 C01'),
 'C05': ('proof + correspondence', 'Lean 4 single-step theorems: whenever the regenerated AmountForBytes / GetProportionOfCoin return, they return the exact ceiling / half-even share (no range hypothesis); an accepted per-gigabyte / per-hour / plan purchase moves exactly quote x quantity (resp. the plan price, split into exactly rounded fee + rest), unquoted denominations are rejected, metered settlement charges the difference of rounded-up cumulative charges at deposit/gigabytes = quoted price; tied by lock-step execution (bank, deposit, subscription, payout, events)',
         'DESIGN.md §7 C05'),
 'C10': ('proof over regenerated fact tables + differential re-execution', 'Lean 4: the regenerated table of nondeterminism-prone constructs (map ranges, time.Now, rand, go/select, floats) over all consensus-critical sources equals a justified list (decide); begin/end-blocker order facts; the model is a pure function of genesis and history. Runtime half is differential only: the same history re-executed in fresh processes with GOMAXPROCS 1/4/16, outputs incl. app hash compared byte for byte',
         'DESIGN.md §7 C10'),
 'C19': ('proof + regenerated descriptors + differential probe', 'Lean 4 protobuf wire model with binary_roundtrip for every well-formed descriptor, instantiated to all 264 message descriptors regenerated from proto/sentinel/**; JSON half: tree-level model of jsonpb/ProtoCodec JSON (Hub/SDK/ProtoJson) with json_roundtrip_iff - the JSON round trip succeeds iff no enum leaf fails to parse back and the strings are UTF-8; for the hub iff no Status field occurs (status_never over the regenerated tables: known finding F7), the 185 descriptors without enums round-trip for every value; probe19 compares model bytes, the model JSON tree and its predicted JSON outcome with the real ProtoCodec on type-directed values of every registered type, and mutated bytes through decode',
         'DESIGN.md §7 C19'),
 'C11': ('proof + correspondence', 'Lean 4 invariant proof over all histories: every node price within the governance bounds whose modified flag is clear, full bounds after every end-of-block (sweep clamps under min<=max), registrations/updates/purchases outside the bounds rejected; model tied to the code by lock-step differential execution incl. governance parameter changes',
         'DESIGN.md §7 C11'),
 'C14': ('proof + correspondence', 'Lean 4: swap accepted iff enabled, sender = approver, hash unused, receiver not blocked; effect exactly amount/100 minted to the receiver and recorded; one swap per hash along every history; supply growth = sum of recorded swaps for every history; 32-byte hash key injective (regenerated key function)',
         'DESIGN.md §7 C14'),
 'C15': ('proof + correspondence', 'Lean 4: the inflation hook equals takeWhile/dropWhile on the schedule in key order (chronological by the C17 time-key theorem), parameters of the latest due entry, each entry applied at most once over any sequence of block times and any history; tied by lock-step execution and a probe that runs the real hook alone',
         'DESIGN.md §7 C15'),
 'C13': ('proof + correspondence', 'Lean 4 model of the SDK paginator with proofs that key/offset paging of filter-shaped callbacks enumerates exactly once, a refutation (witness) for the gated callback shape the repo uses in two handlers, regenerated callback-shape table, probe against the real query.Paginate/FilteredPaginate',
         'DESIGN.md §7 C13'),
 'C16': ('proof over regenerated definitions', 'Lean 4 theorems about AmountForBytes / GetProportionOfCoin / CeilTo as regenerated from utils/coin.go and types/bandwidth.go on every run; sdkmath model validated by the probe against cosmossdk.io/math',
         'DESIGN.md §7 C16'),
 'C17': ('proof over regenerated definitions', 'Lean 4 theorems about every key constructor/decoder regenerated from x/*/types/keys.go (decode∘encode, injectivity, prefix freedom, prefix isolation, queue order, scan range), time-key order by a complete calendar table (decide +kernel over the 400-year cycle), bech32 round trip and cross-role rejection; probes against the real functions',
         'DESIGN.md §7 C17'),
 'C02': ('proof + correspondence', 'Lean 4 invariant proof over every history from every genesis (EscrowSplit): each account\'s escrow record = sum over its live node subscriptions of the unsettled part (per gigabyte: deposit - ceil(price*used/10^9) with price = deposit/gigabytes; per hour: hourly price x hours left; absent record = empty); consequences: charged within [0, deposit], at removal refund = unsettled part so deposit = charged + refunded with the exact change of every escrow record and bank balance, every settlement / payout moves exactly the drop of the unsettled part to node + fee collector, and only the subscriber\'s own record changes; tied by lock-step execution (sessions profile: several settled sessions per subscription) and the escrowSplit monitor on implementation states',
         'DESIGN.md §7 C02'),
 'C03': ('proof of a partial statement + proof of the negation of the full one + correspondence', 'Lean 4: hooks_never_halt_partial - along every history from every genesis that satisfies the named hypotheses (H_delay: monotone delay coupling HistOK M; H_actors: no message is signed by a blocked module address; H_amounts: recorded supply of every denomination < 2^255 and allocation grants < 2^192; ParamsOK at genesis) no BeginBlock and no EndBlock halts; proved by showing every one of the 15 panic sites of the two hooks unreachable from the assembled invariant Good (StructInv, EscrowSplit, MoneyInv, LifeInv, NH) and Good inductive. The full statement hooks_never_halt is REFUTED on this tree by machine-checked reachable witnesses: halt_by_delay_change (F6, known finding, outside H_delay) and halt_by_module_node (a module account as node: outside the actor domain D2). F2 and F11 (overflow halts) were repaired. Every generated history is checked for hook panics on the real app; halts other than the listed findings are violations',
         'DESIGN.md §7 C03, §11'),
 'C04': ('proof + correspondence', 'Lean 4: lifecycle coupling LifeInv is inductive over every operation under the delay coupling D7; complete case analyses of one operation on a session / subscription / node (only forward, removed only when pending and due, demoted only by the owner / own subscription / deadline), pending period = exactly the configured delay, timeliness after every EndBlock (no deadline <= block time remains), settled exactly once (removal is permanent), hourly payouts at most once per due hour and never early; all lifted to every reachable state through the assembled invariant StructInv; tied by lock-step execution with deadline-directed block times and the deadlinesFuture / lifecycle monitors on implementation states',
         'DESIGN.md §7 C04'),
 'C06': ('proof + correspondence', 'Lean 4 invariant proofs over every history from every genesis: 0 <= used <= granted for every allocation; grants of a subscription add up to what was bought (QuotaConserved); used never decreases and grows only at settlement (EndBlock) of one of that holder\'s sessions by at most the reported bytes; sharing conserves the total and is rejected below usage; an exhausted holder cannot start a session; tied by lock-step execution and the allocBounds / quotaConserved monitors on implementation states',
         'DESIGN.md §7 C06'),
 'C07': ('proof + correspondence', 'Lean 4: for each of the 17 messages, accepted => sender is the owner of the resource it changes (provider/node records, plans and links, subscription cancel/share, session end/update); a rejected message changes nothing (deliver keeps the old state); non-owner frames; tied by lock-step execution with a wrong-sender profile; a message accepted by the implementation and rejected by the model is a concrete failing input',
         'DESIGN.md §7 C07'),
 'C08': ('proof + correspondence', 'Lean 4: accepted => admission conditions (node/plan active at that moment, quantity within governance limits, active subscription, serving node, unexhausted allocation, no other active session of that holder, lease present for plan sessions, valid proof signature when enabled) for every accepting handler, under the key-consistency invariant KeysOK proved for all histories; tied by lock-step execution',
         'DESIGN.md §7 C08'),
 'C09': ('proof + correspondence', 'Lean 4: two-way agreement of every secondary index and queue with the primary records (NodeIdx, SessIdx, SubIdx, RecInv) is inductive over every operation and holds in every reachable state; no duplicate keys; every queue entry points at a live record with that deadline and every deadline is queued; a removed record is in no index of the same state; C09Listings: for each of the 15 filtered listing handlers of the query model the store view iterated is exactly the index entries of the requested attribute (prefix isolation incl. addresses in prefix relation), every callback lookup succeeds (never an internal error), the records listed are exactly the records with the attribute, each once, and key/offset paging enumerates exactly them (listings_exact, runQuery_never_internal; hypothesis CountersOK: fewer than 2^64 ids issued); also tied by lock-step execution of all 20 paged queries and 9 getters on generated states (incl. addresses in prefix relation) and the index monitors on implementation states loaded into the model',
         'DESIGN.md §7 C09'),
 'C12': ('proof of a partial statement + witnesses of the failing part + correspondence', 'Lean 4 model of Export/Validate/InitGenesis of all hub modules: roundtrip_reachable / continuation_reachable (C12Reach): for every state of every history from a valid genesis (block times after the zero time of Go) whose recorded swaps are >= 100, the export does not panic, validates, and re-imports to a state that agrees on every surviving table, and any continuation by provider/node/plan messages gives the same outcomes and events (GenWF is proved from the invariants: genWF_of_reachable); the full statement is FALSE on this tree: machine-checked reachable witnesses subscriptions_lost_by_roundtrip (F5), session_counter_reissued (F9), small_swap_invalidates_export (F4) - known findings reproduced on the real app; export/reimport run on the real app at block boundaries of generated histories and are compared with the model and with the stored state',
         'DESIGN.md §7 C12'),
 'C18': ('proof + correspondence', 'Lean 4: counters and record identity (CountInv) hold in every state of every history; ids are issued in order (count+1), fresh, never reissued along any history, a rejected message consumes none, non-creating operations keep the counters, children carry their parent id, a session never changes subscription; tied by lock-step execution and the counters monitor on implementation states',
         'DESIGN.md §7 C18'),
}
NA_REASONS = {
}
NOTE = 'trusted base: Lean kernel; axioms propext/Classical.choice/Quot.sound only; translator (T-gen) and correspondence harness (T-corr); hand-written models of SDK dependencies (see DESIGN.md §9); hub keeper code is modelled by hand and tied by differential execution'

checks = []
na = []
for p in props:
    pid = p['id']
    if pid in CLAIMS:
        tech, text, ref = CLAIMS[pid]
        checks.append({
            'property_id': pid,
            'quick_cmd': 'python3 check.py --property %s --tier quick' % pid,
            'thorough_cmd': 'python3 check.py --property %s --tier thorough' % pid,
            'evidence_file': 'evidence/%s.json' % pid,
            'replay_cmd_template': 'python3 check.py --property %s --replay {path}' % pid,
            'engine': 'lean4-hub',
            'level_claimed': {'category': 'proof', 'text': text, 'design_ref': ref},
            'level_note': NOTE,
            'technique': 'machine-checked proof in Lean 4 (' + tech + ')',
        })
    else:
        na.append({'property_id': pid, 'reason': NA_REASONS.get(pid, 'not claimed')})

m = {
 'version': 1,
 'setup_cmd': 'python3 check.py --setup',
 'hooks': {'guard': 'verif', 'enable': 'go build -tags verif (no source hook is needed: the harness imports /repo as a Go module and uses exported keepers only)',
           'baseline_off_cmd': base['cmd'], 'source_commits': [], 'add_only': True},
 'engines': [{'name': 'lean4-hub', 'path': 'lean/', 'serves_properties': sorted(CLAIMS), 'kind_free_text': 'Lean 4 model + theorems (lake project Hub), Go translator (translator/), Go correspondence harness (harness/), driver check.py'}],
 'checks': checks,
 'not_applicable': na,
 'notes': 'See DESIGN.md. Every check regenerates lean/Hub/Generated from /repo, rebuilds the theorems, audits axioms, rebuilds the harness against /repo and runs the correspondence check.',
}
json.dump(m, open(os.path.join(ROOT, 'MANIFEST.json'), 'w'), indent=1)
print('claimed', sorted(CLAIMS), 'n/a', len(na))
