#!/bin/bash
# evidence of runs on a changed tree must not overwrite the committed evidence of the unchanged tree
export VERIF_EVIDENCE_DIR=/verif/.cache/mutant_evidence
# Re-run every seeded change against the quick check of its property; writes seeded/RESULTS.tsv.
# usage: tools/mutant_all.sh   (applies each patch to /repo, runs the check, restores /repo)
cd /verif
out=seeded/RESULTS.tsv
echo -e "seeded\tproperty\texit\tconcrete_input\tmessage" > $out
for d in seeded/*/; do
  id=$(basename $d)
  [ "$id" = "C16_old" ] && continue
  [ -f $d/patch.diff ] || continue
  prop=$(python3 -c "import json;print(json.load(open('$d/meta.json'))['property'][:3])")
  git -C /repo apply /verif/$d/patch.diff || { echo -e "$id\t$prop\tpatch-does-not-apply\t-\t-" >> $out; continue; }
  rm -f replays/$prop-1.json
  python3 check.py --property $prop --tier quick > .cache/mutall_$id.log 2>&1; rc=$?
  git -C /repo checkout -- .
  line=$(grep -E '^VIOLATION' .cache/mutall_$id.log | head -1)
  concrete=yes; echo "$line" | grep -q no-failing-input-found && concrete=no; [ -z "$line" ] && concrete=-
  msg=$(python3 -c "
import json,os
p='replays/$prop-1.json'
print((json.load(open(p)).get('message','') if os.path.exists(p) else '')[:90])")
  echo -e "$id\t$prop\t$rc\t$concrete\t$msg" >> $out
done
python3 check.py --setup > /dev/null 2>&1
