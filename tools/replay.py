"""Replay of a violation: re-run the recorded operations (or probe case) on the implementation and the model."""
import json, os, subprocess, sys

ROOT = os.path.dirname(os.path.dirname(os.path.abspath(__file__)))


def replay(prop, path):
    body = json.load(open(path))
    print(json.dumps({k: body[k] for k in body if k in ('property', 'message', 'tie', 'failing_input', 'mismatch', 'monitor')}, indent=1)[:4000])
    mm = body.get('mismatch') or {}
    ops = mm.get('ops_file') or (body.get('monitor') or {}).get('ops')
    if ops and os.path.exists(ops):
        hubsim = os.path.join(ROOT, 'harness', 'bin', 'hubsim')
        model = os.path.join(ROOT, 'lean', '.lake', 'build', 'bin', 'hubmodel')
        a = subprocess.run([hubsim, 'run'], stdin=open(ops), stdout=subprocess.PIPE).stdout
        b = subprocess.run([model], stdin=open(ops), stdout=subprocess.PIPE).stdout
        open('/tmp/replay.impl', 'wb').write(a)
        open('/tmp/replay.model', 'wb').write(b)
        sys.path.insert(0, os.path.join(ROOT, 'tools'))
        import compare
        mism, stats = compare.compare('/tmp/replay.impl', '/tmp/replay.model')
        print(json.dumps({'replayed_ops': stats['ops'], 'mismatches': mism[:2]}, indent=1)[:3000])
        os.remove('/tmp/replay.impl'); os.remove('/tmp/replay.model')
        return 1 if mism else 0
    return 1
