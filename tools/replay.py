"""Replay of a violation: re-run the recorded history (or probe case) on the implementation built from
/repo's current tree and on the model; print the disagreements and the monitors that fail on the
implementation's states.  Exit 1 when the violation reproduces, 0 when it does not."""
import json, os, subprocess, sys, tempfile

ROOT = os.path.dirname(os.path.dirname(os.path.abspath(__file__)))


def replay(prop, path):
    body = json.load(open(path))
    print(json.dumps({k: body[k] for k in body if k in ('property', 'message', 'tie', 'failing_input', 'broken_ties', 'monitor')}, indent=1)[:4000])
    hubsim = os.path.join(ROOT, 'harness', 'bin', 'hubsim')
    model = os.path.join(ROOT, 'lean', '.lake', 'build', 'bin', 'hubmodel')
    mm = body.get('mismatch') or {}
    ops = body.get('history') or mm.get('ops_file') or (body.get('monitor') or {}).get('ops') or (body.get('halt') or {}).get('ops')
    fi = body.get('failing_input')
    if not (ops and os.path.exists(ops)) and isinstance(fi, str) and fi.endswith('.ops') and os.path.exists(fi):
        ops = fi
    reproduced = False
    if ops and os.path.exists(ops):
        with tempfile.TemporaryDirectory() as td:
            ia, ib = os.path.join(td, 'impl'), os.path.join(td, 'model')
            with open(ops) as f, open(ia, 'wb') as o:
                subprocess.run([hubsim, 'run'], stdin=f, stdout=o, stderr=subprocess.DEVNULL)
            with open(ops) as f, open(ib, 'wb') as o:
                subprocess.run([model], stdin=f, stdout=o, stderr=subprocess.DEVNULL)
            sys.path.insert(0, os.path.join(ROOT, 'tools'))
            import compare
            mism, stats = compare.compare(ia, ib)
            with open(ia, 'rb') as f:
                mon = subprocess.run([model, '--implmon'], stdin=f, stdout=subprocess.PIPE).stdout.decode(errors='replace')
            hits = [l for l in mon.split('\n') if l.startswith('I ')]
            halts = [l for l in open(ia, errors='replace') if l.startswith('R halt')]
            print(json.dumps({'history': ops, 'replayed_ops': stats['ops'], 'mismatches': mism[:3],
                              'monitors_failing_on_implementation_states': hits[:5], 'implementation_halts': halts[:3]}, indent=1)[:5000])
            reproduced = bool(mism or hits or halts)
    elif isinstance(fi, str) and fi.split(' ')[0] in ('afb', 'prop', 'ceilto', 'decmul', 'decround', 'fmt', 'key', 'dec', 'b32enc', 'b32dec', 'page', 'pb', 'pbd'):
        # a probe case: the model's answer (the implementation's answer is recorded in the replay file)
        out = subprocess.run([model, '--probe'], input=(fi + '\n').encode(), stdout=subprocess.PIPE).stdout.decode(errors='replace').strip()
        print(json.dumps({'probe_case': fi, 'model_now': out, 'implementation_recorded': body.get('impl'), 'model_recorded': body.get('model_spec') or body.get('model')}, indent=1))
        reproduced = True
    else:
        print('no recorded history or probe case in this replay file (a broken tie without a failing input): see broken_ties / tie / detail')
        reproduced = True
    return 1 if reproduced else 0
